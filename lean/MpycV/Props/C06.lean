/-
C06 — secure conversion between types preserves values.
Property theorems only (helper lemmas: MpycV.Lemmas.Convert).  Model: MpycV.Model.Convert, a
transcription of runtime.py `convert`/`_convert` (691-787) with the value layers of `trunc` and `_mod`.

Reading: a secure number of type `T` whose shares encode the field element `a` has the value
`toInt T.p T.signed a` (secint, secfld) resp. that integer divided by 2^T.frac (secfxp).  All theorems
hold for EVERY choice of the random values in the stated ranges (the ranges are those the code draws
from: `bound_sum`), i.e. the result never depends on the masks.
-/
import MpycV.Lemmas.Convert

namespace MpycV.C06
open MpycV.Convert

/-- `Y` is representable in type `t` (canonical signed or unsigned range of its prime field) -/
def Fits (t : SType) (Y : Int) : Prop :=
  if t.signed then -((t.p / 2 : Nat) : Int) ≤ Y ∧ Y ≤ ((t.p / 2 : Nat) : Int) else 0 ≤ Y ∧ Y < t.p

/-- the field element `field(Y)` reads back as `Y` when `Y` fits the type -/
theorem read_fits {t : SType} {Y : Int} (hp : t.p % 2 = 1) (h : Fits t Y) :
    toInt t.p t.signed (emod Y t.p) = Y := by
  unfold Fits at h; unfold toInt
  cases hs : t.signed
  · simp only [hs, Bool.false_eq_true, if_false] at h ⊢
    exact unsigned_emod h.1 h.2
  · simp only [hs, if_true] at h ⊢
    exact signed_emod hp h.1 h.2

example : Fits ⟨true, 101, true, 7, 0⟩ (-50) ∧ Fits ⟨true, 101, false, 7, 0⟩ 100 := by
  unfold Fits; constructor <;> decide

/-- ★ masks are in range: `n` contributions (n = t+1 senders without PRSS, n = C(m,t) PRSS subsets), each
below `bound k l n` = 2^(k+l) div n + 1 (runtime.py:736-740), sum to at most 2^(k+l). -/
theorem mask_in_range (k l n : Nat) (rs : List Nat) (hlen : rs.length = n)
    (hr : ∀ r ∈ rs, r < bound k l n) : rs.sum ≤ 2 ^ (k + l) :=
  bound_sum k l n rs hlen hr

example : [bound 30 8 3 - 1, bound 30 8 3 - 1, bound 30 8 3 - 1].sum ≤ 2 ^ 38 ∧
    ¬ ([bound 30 8 2 - 1, bound 30 8 2 - 1, bound 30 8 2 - 1].sum ≤ 2 ^ 38) := by decide

/-- ★ `>> f` of the model is division by 2^f in the field (p odd) -/
theorem shr_is_field_division {p : Nat} (hp : p % 2 = 1) (f : Nat) {a : Nat} (ha : a < p) :
    shr p a f < p ∧ ((shr p a f : Nat) : Int) * 2 ^ f ≡ (a : Int) [ZMOD p] :=
  ⟨shr_lt hp f ha, shr_spec hp f ha⟩

example : shr 101 7 3 = 64 ∧ 64 * 8 % 101 = 7 := by decide

/-- ★ secint/secfxp source, target with at least as many fractional bits (d = f_t - f_s ≥ 0), general
no-wrap form: if `X + offset + r` lies in [0, p_s) then the opened value is exactly that integer and the
result is `X·2^d` in the target field — for every mask `r`. -/
theorem convert_up_nowrap {s t : SType} {x : Nat} {rd : Rand} {X : Int}
    (hs : s.isFld = false) (hd : s.frac ≤ t.frac) (hps : 0 < s.p) (hpt : 0 < t.p)
    (hX : X ≡ (x : Int) [ZMOD s.p])
    (h0 : 0 ≤ X + offsetOf s t + rd.r) (h1 : X + offsetOf s t + rd.r < s.p) :
    ((convert1 s t x rd).opened : Int) = X + offsetOf s t + rd.r ∧
    (convert1 s t x rd).result = emod (X * 2 ^ (t.frac - s.frac)) t.p := by
  obtain ⟨a, _, _, b⟩ := convert_intlike_up hs hd hps hpt hX h0 h1
  exact ⟨a, b⟩

/-- ★ `convert_int_like`, d ≥ 0: source secint/secfxp (signed field), any target type, l = min of the bit
lengths, value `X` (the source integer, i.e. the secfxp value times 2^f_s) with -2^(l-1) ≤ X < 2^(l-1),
mask r ≤ 2^(k+l), 2^(k+l+1) < p_s.  Then the result is `X·2^d` whenever that fits the target, and the
opened value is `X + 2^(l-1) + r` (no wrap-around). -/
theorem convert_int_like {s t : SType} {k : Nat} {X : Int} {rd : Rand}
    (hs : s.isFld = false) (hsg : s.signed = true) (hd : s.frac ≤ t.frac) (hpt : t.p % 2 = 1)
    (hl : 1 ≤ min s.bitLength t.bitLength)
    (hXlo : -2 ^ (min s.bitLength t.bitLength - 1) ≤ X) (hXhi : X < 2 ^ (min s.bitLength t.bitLength - 1))
    (hr : rd.r ≤ 2 ^ (k + min s.bitLength t.bitLength))
    (hps : 2 ^ (k + min s.bitLength t.bitLength + 1) < s.p)
    (hfit : Fits t (X * 2 ^ (t.frac - s.frac))) :
    toInt t.p t.signed (convert1 s t (emod X s.p) rd).result = X * 2 ^ (t.frac - s.frac) ∧
    ((convert1 s t (emod X s.p) rd).opened : Int) = X + 2 ^ (min s.bitLength t.bitLength - 1) + rd.r := by
  generalize hL : min s.bitLength t.bitLength = L at *
  have hps0 : 0 < s.p := by omega
  have hoff : offsetOf s t = 2 ^ (L - 1) := by simp [offsetOf, hs, hsg, hL]
  have e1 : (2 : Int) ^ (L - 1) + 2 ^ (L - 1) = 2 ^ L := by
    have : L = (L - 1) + 1 := by omega
    conv_rhs => rw [this, pow_succ]
    ring
  have e2 : (2 : Int) ^ L ≤ 2 ^ (k + L) := pow_le_pow_right₀ (by norm_num) (by omega)
  have e3 : (2 : Int) ^ (k + L + 1) = 2 * 2 ^ (k + L) := by rw [pow_succ]; ring
  have hr' : (rd.r : Int) ≤ 2 ^ (k + L) := by exact_mod_cast hr
  have hps' : (2 : Int) ^ (k + L + 1) < s.p := by exact_mod_cast hps
  have hoffI : ((offsetOf s t : Nat) : Int) = 2 ^ (L - 1) := by rw [hoff]; push_cast; rfl
  obtain ⟨a, b⟩ := convert_up_nowrap (rd := rd) hs hd hps0 (by omega) (emod_modEq X hps0).symm
    (by rw [hoffI]; omega) (by rw [hoffI]; omega)
  rw [b, read_fits hpt hfit, a, hoffI]
  exact ⟨rfl, rfl⟩

/-- non-vacuity: secint8-like source (40-bit odd modulus) to secfxp(16,8)-like target, X = -100, d = 8 -/
example :
    toInt (2 ^ 56 + 3) true
      (convert1 ⟨false, 2 ^ 40 + 15, true, 8, 0⟩ ⟨false, 2 ^ 56 + 3, true, 16, 8⟩
        (emod (-100) (2 ^ 40 + 15)) { r := 2 ^ 38 }).result = -100 * 2 ^ 8 :=
  (convert_int_like (k := 30) (X := -100) (rd := { r := 2 ^ 38 })
    (s := ⟨false, 2 ^ 40 + 15, true, 8, 0⟩) (t := ⟨false, 2 ^ 56 + 3, true, 16, 8⟩)
    rfl rfl (by decide) (by decide) (by decide) (by decide) (by decide) (by decide) (by decide)
    (by unfold Fits; decide)).1

/-- ★ probabilistic rounding in `trunc`: ⌊(X + r_modf)/2^f⌋ is ⌊X/2^f⌋ or ⌊X/2^f⌋ + 1 (floor or ceiling of
X/2^f), and it is exact when 2^f divides X. -/
theorem trunc_neighbour (X : Int) (rm f : Nat) (hm : rm < 2 ^ f) :
    ((X + rm) / 2 ^ f = X / 2 ^ f ∨ (X + rm) / 2 ^ f = X / 2 ^ f + 1) ∧
    ((2 : Int) ^ f ∣ X → (X + rm) / 2 ^ f = X / 2 ^ f) :=
  ⟨floor_neighbour X rm f hm, floor_exact X rm f hm⟩

example : ((-5 : Int) + 3) / 2 ^ 2 = -5 / 2 ^ 2 + 1 ∧ ((-5 : Int) + 0) / 2 ^ 2 = -5 / 2 ^ 2 := by decide

/-- ★ `convert_int_like`, d < 0 (e.g. secfxp -> secint, f = f_s - f_t bits are truncated first): for
|X| < 2^(l_s - 1), r_modf < 2^f, r_divf < 2^(k+l_s-f) (stated as (r_divf+1)·2^f ≤ 2^(k+l_s)), 2^(k+l_s+1) < p_s, the truncated value
`X' = ⌊(X + r_modf)/2^f⌋` is a neighbour of X/2^f (`trunc_neighbour`), and if `X'` lies in the l-bit range
(l = min of the bit lengths) and the mask r ≤ 2^(k+l), the result is `X'` whenever it fits the target. -/
theorem convert_int_like_down {s t : SType} {k : Nat} {X : Int} {rd : Rand}
    (hs : s.isFld = false) (hsg : s.signed = true) (hd : t.frac < s.frac)
    (hps1 : s.p % 2 = 1) (hpt : t.p % 2 = 1)
    (hf : s.frac - t.frac ≤ s.bitLength - 1) (hl : 1 ≤ min s.bitLength t.bitLength)
    (hXlo : -2 ^ (s.bitLength - 1) ≤ X) (hXhi : X < 2 ^ (s.bitLength - 1))
    (hm : rd.rModf < 2 ^ (s.frac - t.frac))
    (hq : (rd.rDivf + 1) * 2 ^ (s.frac - t.frac) ≤ 2 ^ (k + s.bitLength))
    (hps : 2 ^ (k + s.bitLength + 1) < s.p)
    (hX'lo : -2 ^ (min s.bitLength t.bitLength - 1) ≤ (X + rd.rModf) / 2 ^ (s.frac - t.frac))
    (hX'hi : (X + rd.rModf) / 2 ^ (s.frac - t.frac) < 2 ^ (min s.bitLength t.bitLength - 1))
    (hr : rd.r ≤ 2 ^ (k + min s.bitLength t.bitLength))
    (hfit : Fits t ((X + rd.rModf) / 2 ^ (s.frac - t.frac))) :
    toInt t.p t.signed (convert1 s t (emod X s.p) rd).result = (X + rd.rModf) / 2 ^ (s.frac - t.frac) ∧
    ((convert1 s t (emod X s.p) rd).opened : Int)
      = (X + rd.rModf) / 2 ^ (s.frac - t.frac) + 2 ^ (min s.bitLength t.bitLength - 1) + rd.r := by
  generalize hL : min s.bitLength t.bitLength = L at *
  generalize hF : s.frac - t.frac = f at *
  have hLs : L ≤ s.bitLength := by omega
  have hps0 : 0 < s.p := by omega
  have hoff : offsetOf s t = 2 ^ (L - 1) := by simp [offsetOf, hs, hsg, hL]
  have hoffI : ((offsetOf s t : Nat) : Int) = 2 ^ (L - 1) := by rw [hoff]; push_cast; rfl
  have e1 : ∀ n : Nat, 1 ≤ n → (2 : Int) ^ (n - 1) + 2 ^ (n - 1) = 2 ^ n := by
    intro n hn
    have : n = (n - 1) + 1 := by omega
    conv_rhs => rw [this, pow_succ]
    ring
  have e2 : (2 : Int) ^ L ≤ 2 ^ (k + L) := pow_le_pow_right₀ (by norm_num) (by omega)
  have e2s : (2 : Int) ^ s.bitLength ≤ 2 ^ (k + s.bitLength) := pow_le_pow_right₀ (by norm_num) (by omega)
  have e2L : (2 : Int) ^ (k + L) ≤ 2 ^ (k + s.bitLength) := pow_le_pow_right₀ (by norm_num) (by omega)
  have e3 : (2 : Int) ^ (k + s.bitLength + 1) = 2 * 2 ^ (k + s.bitLength) := by rw [pow_succ]; ring
  have hfpos : (0 : Int) < 2 ^ f := by positivity
  have hfle : (2 : Int) ^ f ≤ 2 ^ (s.bitLength - 1) := pow_le_pow_right₀ (by norm_num) hf
  have hr' : (rd.r : Int) ≤ 2 ^ (k + L) := by exact_mod_cast hr
  have hm' : (rd.rModf : Int) < 2 ^ f := by exact_mod_cast hm
  have hq' : ((rd.rDivf : Int) + 1) * 2 ^ f ≤ 2 ^ (k + s.bitLength) := by exact_mod_cast hq
  have hq'' : ((rd.rDivf : Int) + 1) * 2 ^ f = (rd.rDivf : Int) * 2 ^ f + 2 ^ f := by ring
  have hps' : (2 : Int) ^ (k + s.bitLength + 1) < s.p := by exact_mod_cast hps
  have hsb := e1 s.bitLength (by omega)
  have hLb := e1 L hl
  have hq0 : (0 : Int) ≤ (rd.rDivf : Int) * 2 ^ f := by positivity
  obtain ⟨a, _, _, b⟩ := convert_intlike_down (rd := rd) (t := t) hs hd hps1 (by omega : 0 < t.p)
    (emod_modEq X hps0).symm (by rw [hF]; exact hf)
    (by rw [hF]; linarith) (by rw [hF]; linarith)
    (by rw [hF, hoffI]; linarith) (by rw [hF, hoffI]; linarith)
  rw [hF] at a b
  rw [b, read_fits hpt hfit, a, hoffI]
  exact ⟨rfl, rfl⟩

/-- non-vacuity: secfxp(16,8)-like source to secint8-like target; X = 2.5·2^8 = 640 is rounded up to 3
by r_modf = 128 -/
example :
    toInt (2 ^ 40 + 15) true
      (convert1 ⟨false, 2 ^ 56 + 3, true, 16, 8⟩ ⟨false, 2 ^ 40 + 15, true, 8, 0⟩
        (emod 640 (2 ^ 56 + 3)) { r := 12345, rModf := 128, rDivf := 2 ^ 30 }).result = 3 :=
  (convert_int_like_down (k := 30) (X := 640) (rd := { r := 12345, rModf := 128, rDivf := 2 ^ 30 })
    (s := ⟨false, 2 ^ 56 + 3, true, 16, 8⟩) (t := ⟨false, 2 ^ 40 + 15, true, 8, 0⟩)
    rfl rfl (by decide) (by decide) (by decide) (by decide) (by decide) (by decide) (by decide) (by decide)
    (by decide) (by decide) (by decide) (by decide) (by decide) (by unfold Fits; decide)).1

/-- ★ `convert_fld`, general no-wrap form: prime-field source to secint/secfxp.  If the value opened inside
`_mod` does not wrap around in the target field, the result is the canonical representative of the source
element — signed (`field.is_signed`) or unsigned — times 2^f_t, for every choice of r, r_modb, r_divb;
the value opened in the source field is `(x + offset + r) mod p_s`. -/
theorem convert_fld_nowrap {s t : SType} {x : Nat} {rd : Rand}
    (hs : s.isFld = true) (hsf : s.frac = 0) (hps : s.p % 2 = 1) (hpt : 0 < t.p) (hx : x < s.p)
    (hr : rd.rModb < s.p)
    (h0 : 0 ≤ (((x + offsetOf s t + rd.r) % s.p : Nat) : Int) - rd.r
            + (2 ^ t.bitLength - (2 : Int) ^ t.bitLength % s.p) + s.p * rd.rDivb - rd.rModb)
    (h1 : (((x + offsetOf s t + rd.r) % s.p : Nat) : Int) - rd.r
            + (2 ^ t.bitLength - (2 : Int) ^ t.bitLength % s.p) + s.p * rd.rDivb - rd.rModb < t.p) :
    (convert1 s t x rd).opened = (x + offsetOf s t + rd.r) % s.p ∧
    (convert1 s t x rd).result = emod (toInt s.p s.signed x * 2 ^ t.frac) t.p := by
  obtain ⟨a, _, _, b⟩ := convert_fld_src (rd := rd) (t := t) hs hsf (by omega) hpt hr h0 h1
  refine ⟨a, ?_⟩
  rw [b]
  congr 2
  unfold toInt offsetOf
  cases hsg : s.signed
  · simp only [Bool.false_eq_true, if_false]; exact recentre_unsigned hx
  · simp only [hs, if_true]; exact recentre_signed hps hx

/-- ★ `convert_fld` with explicit ranges: mask r < n·p_s (n contributions below p_s), r_modb < p_s,
r_divb ≤ 2^k, p_s ≤ 2^l_t, 2^(l_t+k+1) < p_t, k ≥ 1, and EITHER (n+1)·p_s ≤ 2^l_t OR r_divb ≥ n (the
complementary event has probability ≤ n/2^k: this is the statistical part of `_mod`).  Then the result
is the canonical integer of the source element (times 2^f_t) whenever that fits the target. -/
theorem convert_fld {s t : SType} {k n : Nat} {x : Nat} {rd : Rand}
    (hs : s.isFld = true) (hsf : s.frac = 0) (hps : s.p % 2 = 1) (hpt : t.p % 2 = 1) (hx : x < s.p)
    (hk : 1 ≤ k)
    (hr : rd.r < n * s.p) (hrm : rd.rModb < s.p) (hrd : rd.rDivb ≤ 2 ^ k)
    (hfitp : s.p ≤ 2 ^ t.bitLength) (hbig : 2 ^ (t.bitLength + k + 1) < t.p)
    (hstat : (n + 1) * s.p ≤ 2 ^ t.bitLength ∨ n ≤ rd.rDivb)
    (hfit : Fits t (toInt s.p s.signed x * 2 ^ t.frac)) :
    toInt t.p t.signed (convert1 s t x rd).result = toInt s.p s.signed x * 2 ^ t.frac := by
  have hb0 : (0 : Int) < s.p := by omega
  generalize hc : (x + offsetOf s t + rd.r) % s.p = c
  have hc1 : c < s.p := by rw [← hc]; exact Nat.mod_lt _ (by omega)
  -- M = the largest multiple of p_s below 2^l_t
  have hM := Int.emod_add_mul_ediv ((2 : Int) ^ t.bitLength) s.p
  have hq1 : (1 : Int) ≤ (2 : Int) ^ t.bitLength / s.p := by
    rw [Int.le_ediv_iff_mul_le hb0]; have : ((s.p : Nat) : Int) ≤ 2 ^ t.bitLength := by exact_mod_cast hfitp
    omega
  have hqle : (s.p : Int) * ((2 : Int) ^ t.bitLength / s.p) ≤ 2 ^ t.bitLength := by
    have := Int.emod_nonneg ((2 : Int) ^ t.bitLength) (ne_of_gt hb0); omega
  have hrI : (rd.r : Int) < n * s.p := by exact_mod_cast hr
  have hrdI : (rd.rDivb : Int) ≤ 2 ^ k := by exact_mod_cast hrd
  have hfitpI : ((s.p : Nat) : Int) ≤ 2 ^ t.bitLength := by exact_mod_cast hfitp
  have hbigI : (2 : Int) ^ (t.bitLength + k + 1) < t.p := by exact_mod_cast hbig
  have epow : (2 : Int) ^ (t.bitLength + k + 1) = 2 * (2 ^ t.bitLength * 2 ^ k) := by
    rw [pow_succ, pow_add]; ring
  have hk2 : (2 : Int) ≤ 2 ^ k := by
    calc (2 : Int) = 2 ^ 1 := by norm_num
      _ ≤ 2 ^ k := pow_le_pow_right₀ (by norm_num) hk
  have hl0 : (0 : Int) < 2 ^ t.bitLength := by positivity
  have hprod : (s.p : Int) * rd.rDivb ≤ 2 ^ t.bitLength * 2 ^ k :=
    mul_le_mul hfitpI hrdI (by positivity) (by positivity)
  have hprod2 : (2 : Int) * 2 ^ t.bitLength ≤ 2 ^ t.bitLength * 2 ^ k := by nlinarith
  have hlow : (0 : Int) ≤ (c : Int) - rd.r + (2 ^ t.bitLength - (2 : Int) ^ t.bitLength % s.p)
      + s.p * rd.rDivb - rd.rModb := by
    have hMe : (2 : Int) ^ t.bitLength - (2 : Int) ^ t.bitLength % s.p = s.p * ((2 : Int) ^ t.bitLength / s.p) := by
      omega
    rw [hMe]
    rcases hstat with h | h
    · have h' : ((n : Int) + 1) * s.p ≤ 2 ^ t.bitLength := by exact_mod_cast h
      have : ((n : Int) + 1) ≤ (2 : Int) ^ t.bitLength / s.p := by
        rw [Int.le_ediv_iff_mul_le hb0]; exact h'
      have h3 : (s.p : Int) * ((n : Int) + 1) ≤ s.p * ((2 : Int) ^ t.bitLength / s.p) :=
        Int.mul_le_mul_of_nonneg_left this (by omega)
      have h4 : (0 : Int) ≤ (s.p : Int) * rd.rDivb := by positivity
      nlinarith
    · have h' : (n : Int) ≤ rd.rDivb := by exact_mod_cast h
      have h3 : (s.p : Int) * 1 ≤ s.p * ((2 : Int) ^ t.bitLength / s.p) :=
        Int.mul_le_mul_of_nonneg_left hq1 (by omega)
      have h4 : (s.p : Int) * n ≤ s.p * rd.rDivb := Int.mul_le_mul_of_nonneg_left h' (by omega)
      nlinarith
  have hhigh : (c : Int) - rd.r + (2 ^ t.bitLength - (2 : Int) ^ t.bitLength % s.p)
      + s.p * rd.rDivb - rd.rModb < t.p := by
    have := Int.emod_nonneg ((2 : Int) ^ t.bitLength) (ne_of_gt hb0)
    omega
  obtain ⟨_, b⟩ := convert_fld_nowrap (rd := rd) (t := t) hs hsf hps (by omega) hx hrm
    (by rw [hc]; exact hlow) (by rw [hc]; exact hhigh)
  rw [b, read_fits hpt hfit]

/-- non-vacuity: signed GF(101) element 99 (= -2) to a secfxp(16,8)-like type, n = 3 -/
example :
    toInt (2 ^ 56 + 3) true
      (convert1 ⟨true, 101, true, 7, 0⟩ ⟨false, 2 ^ 56 + 3, true, 16, 8⟩ 99
        { r := 250, rModb := 77, rDivb := 0 }).result = -2 * 2 ^ 8 :=
  convert_fld (k := 30) (n := 3) (rd := { r := 250, rModb := 77, rDivb := 0 })
    (s := ⟨true, 101, true, 7, 0⟩) (t := ⟨false, 2 ^ 56 + 3, true, 16, 8⟩)
    rfl rfl (by decide) (by decide) (by decide) (by decide) (by decide) (by decide) (by decide) (by decide)
    (by decide) (by decide) (by unfold Fits; decide)

/-- ★ `convert_two_step`: field -> field goes through SecInt(l), l = max(32, bit length of the larger
order).  Under the no-wrap conditions of both steps the result is the canonical (signed or unsigned)
integer representative `V` of the source element, reduced into the target field; it reads back as `V`
whenever `V` fits the target field's (signed or unsigned) range. -/
theorem convert_two_step {s t : SType} {pi : Nat} {x : Nat} {rd1 rd2 : Rand}
    (hs : s.isFld = true) (hsf : s.frac = 0) (hps : s.p % 2 = 1) (hpi : 0 < pi) (hpt : t.p % 2 = 1)
    (hx : x < s.p) (hr : rd1.rModb < s.p) (htf : t.frac = 0)
    (h0 : 0 ≤ (((x + (if s.signed then s.p / 2 else 0) + rd1.r) % s.p : Nat) : Int) - rd1.r
            + (2 ^ viaBits s.p t.p - (2 : Int) ^ viaBits s.p t.p % s.p) + s.p * rd1.rDivb - rd1.rModb)
    (h1 : (((x + (if s.signed then s.p / 2 else 0) + rd1.r) % s.p : Nat) : Int) - rd1.r
            + (2 ^ viaBits s.p t.p - (2 : Int) ^ viaBits s.p t.p % s.p) + s.p * rd1.rDivb - rd1.rModb < pi)
    (g0 : 0 ≤ toInt s.p s.signed x + 2 ^ (min (viaBits s.p t.p) t.bitLength - 1) + rd2.r)
    (g1 : toInt s.p s.signed x + 2 ^ (min (viaBits s.p t.p) t.bitLength - 1) + rd2.r < pi)
    (hfit : Fits t (toInt s.p s.signed x)) :
    (convert2 s t pi x rd1 rd2).2.result = emod (toInt s.p s.signed x) t.p ∧
    toInt t.p t.signed (convert2 s t pi x rd1 rd2).2.result = toInt s.p s.signed x := by
  unfold convert2
  simp only []
  generalize hmid : ({ isFld := false, p := pi, signed := true, bitLength := viaBits s.p t.p, frac := 0 } : SType) = mid
  have hmp : mid.p = pi := by rw [← hmid]
  have hmb : mid.bitLength = viaBits s.p t.p := by rw [← hmid]
  have hmf : mid.frac = 0 := by rw [← hmid]
  have hmi : mid.isFld = false := by rw [← hmid]
  have hms : mid.signed = true := by rw [← hmid]
  have hoff1 : offsetOf s mid = if s.signed then s.p / 2 else 0 := by simp [offsetOf, hs]
  have hoff2 : ((offsetOf mid t : Nat) : Int) = 2 ^ (min (viaBits s.p t.p) t.bitLength - 1) := by
    simp [offsetOf, hmi, hms, hmb]
  obtain ⟨_, b1⟩ := convert_fld_nowrap (rd := rd1) (t := mid) hs hsf hps (by omega) hx hr
    (by rw [hoff1, hmb]; exact h0) (by rw [hoff1, hmb, hmp]; exact h1)
  rw [hmf, pow_zero, mul_one, hmp] at b1
  have hX : toInt s.p s.signed x ≡ (((convert1 s mid x rd1).result : Nat) : Int) [ZMOD mid.p] := by
    rw [b1, hmp]; exact (emod_modEq _ hpi).symm
  obtain ⟨_, b2⟩ := convert_up_nowrap (rd := rd2) (t := t) hmi (by omega : mid.frac ≤ t.frac)
    (by omega) (by omega) hX (by rw [hoff2]; exact g0) (by rw [hoff2, hmp]; exact g1)
  rw [hmf, htf, Nat.sub_zero, pow_zero, mul_one] at b2
  rw [b2]
  exact ⟨rfl, read_fits hpt hfit⟩

/-- non-vacuity: signed GF(101) element 99 (= -2) to unsigned... no: to signed GF(7) via a 64-bit-like
intermediate modulus: -2 is kept -/
example :
    toInt 7 true (convert2 ⟨true, 101, true, 7, 0⟩ ⟨true, 7, true, 3, 0⟩ (2 ^ 64 + 13) 99
      { r := 250, rModb := 77, rDivb := 5 } { r := 2 ^ 33 }).2.result = -2 :=
  (convert_two_step (pi := 2 ^ 64 + 13) (rd1 := { r := 250, rModb := 77, rDivb := 5 }) (rd2 := { r := 2 ^ 33 })
    (s := ⟨true, 101, true, 7, 0⟩) (t := ⟨true, 7, true, 3, 0⟩)
    rfl rfl (by decide) (by decide) (by decide) (by decide) (by decide) rfl (by decide) (by decide)
    (by decide) (by decide) (by unfold Fits; decide)).2

/-- the property is sharp: outside the no-wrap range the conversion is wrong.  Source order above
2^(target bit length): GF(2^31-1) element 3 to a secint16-like type (p_t = 2^48 + 21) with r_divb = 2^29 —
the value opened in `_mod` wraps around and the result is not 3 (documented domain restriction). -/
theorem convert_fld_needs_order_below_target :
    toInt (2 ^ 48 + 21) true
      (convert1 ⟨true, 2 ^ 31 - 1, false, 31, 0⟩ ⟨false, 2 ^ 48 + 21, true, 16, 0⟩ 3
        { r := 5, rModb := 1, rDivb := 2 ^ 29 }).result ≠ 3 := by decide

end MpycV.C06
