/-
C18 — values opened inside comparison, truncation, conversion, bit-decomposition and zero-test protocols are
statistically masked.   LEVEL: other (per-opening statistical lemmas proved; whole-view simulation not).

What is proved (all inputs, no bounds):
  * `mask_sd`            r uniform on [0,R): the outcome counts of a + r and a' + r differ in total by 2|a - a'|
                         (statistical distance |a - a'| / R); beyond the range the supports are disjoint.
  * `low_bits_perfect`   r uniform on [0,M): (a + r) mod M is exactly uniform, also with a high part M·q added,
                         also for a subtracted low mask.
  * `opened_split`       an opened c = u + M·r is equivalent to (u mod M, u div M + r): perfectly masked low part,
                         additively masked high part.
  * `mult_blinding`      zero tests / reciprocal: a·r for a ≠ 0 is uniform (on F for r uniform on F, on F∖{0} for
                         r uniform on F∖{0}); for a = 0 it is 0: the opening depends on the output bit only.
  * `rerandomized_shares_view` / `product_shares_distinguish`   the m SHARES seen at an opening of a product depend on
                         the opened value only once a uniform sharing of zero is added; without it (the code before repo
                         commit 4c3ba5b for fields of order ≥ 2^k) a single party distinguishes two secrets.
  * `maskBound_ge`       the bound B the code hands to PRF / randbelow (`1 << max(0, (bound // d).bit_length() - 1)`,
                         d = C(m,t) resp. t+1) satisfies B·d ≤ bound < 2·B·d.
  * `prss_mask_component` / `noprss_mask_component`   for ANY coalition of ≤ t parties the mask contains a summand
                         r_S (resp. a sender's value) uniform on [0,B) whose key (resp. dealer) is outside the
                         coalition; the whole mask stays ≤ d·(B-1) ≤ bound.
  * `sites_table`, `site_distance`, `convert_distance`   per opening site (sgn, trunc, lsb, _mod, to_bits,
                         trailing_zeros, _convert): span of the secret-dependent part · 2^k < c · d · B with
                         c ≤ 8, i.e. per-opening distance < c · C(m,t) · 2^-k.
  * `mod_old_mask_insufficient`   the `_mod` mask before repo commit 4d82624 (`_random(Zp, 1 << k)`) gave
                         DISJOINT supports for two 32-bit inputs with equal outputs (found by this analysis,
                         reproduced on the real code, fixed in /repo); `mod_new_mask_sufficient` for the fix.

  * `np_trunc_mask_parameter` / `np_trunc_old_mask_insufficient`, `pow_mask_total` / `pow_old_mask_small`,
                         `to_bits_bin_perfect` / `to_bits_bin_short_mask_leaks`, `sincos_turns_mask`: the four sites
                         found by the third defect hunt (fixed-point ARRAY truncation, public base ** secret exponent,
                         to_bits over GF(2^n) with l < n, sincos): sufficiency of the repaired parameters and
                         insufficiency (for to_bits: a leak for EVERY mask value) of the previous ones.

`view_indistinguishable_partial` — NOT proved (kept as a comment, see the end of the file): the full statement of
C18, that the joint view of a coalition in a whole program (all received shares and all opened values together)
has statistical distance ≲ (number of openings) · c · C(m,t) · 2^-k for inputs with equal outputs.  Missing: a
probabilistic model of whole protocol runs, the independence of the masks used at different openings (fresh PRSS
`uci` per call: C15 monitors it; PRF pseudo-randomness is a computational assumption), and the hybrid/composition
argument.  The harness checks the per-site facts on the real code (bounds passed to PRF/randbelow, observed
mask ranges, exact opened-value distributions for tiny parameters).
-/
import MpycV.Lemmas.MaskSites
import Mathlib.Algebra.Field.ZMod

namespace MpycV.C18

open MpycV.Mask MpycV.Share MpycV.Thresha Finset

/-! ### additive masks -/

/-- ★ `mask_sd`: `r` uniform on `[0,R)`, secret-dependent parts `a` and `a + δ`, `δ ≤ R`: summed over all
outcomes `x`, `|#{r | a + r = x} - #{r | a + δ + r = x}| = 2δ` — statistical distance exactly `δ / R`. -/
theorem mask_sd (R a δ : ℕ) (hδ : δ ≤ R) : l1 R (fun r => a + r) (fun r => a + δ + r) = 2 * δ :=
  Mask.mask_sd R a δ hδ

example : l1 1024 (fun r => 5 + r) (fun r => 5 + 3 + r) = 2 * 3 := mask_sd 1024 5 3 (by decide)

/-- symmetric form: any `a, a'` with `|a - a'| ≤ R` -/
theorem mask_sd_dist (R a a' : ℕ) (h : max a a' - min a a' ≤ R) :
    l1 R (fun r => a + r) (fun r => a' + r) = 2 * (max a a' - min a a') :=
  Mask.mask_sd_dist R a a' h

example : l1 100 (fun r => 9 + r) (fun r => 2 + r) = 2 * (max 9 2 - min 9 2) :=
  mask_sd_dist 100 9 2 (by decide)

/-- if the secret-dependent parts differ by at least the mask range the supports are disjoint (distance 1):
a mask that is too small hides nothing -/
theorem mask_sd_far (R a δ : ℕ) (hδ : R ≤ δ) : l1 R (fun r => a + r) (fun r => a + δ + r) = 2 * R :=
  Mask.mask_sd_far R a δ hδ

example : l1 4 (fun r => 1 + r) (fun r => 1 + 10 + r) = 2 * 4 := mask_sd_far 4 1 10 (by decide)

/-- the outcome of an additive mask is uniform on `[a, a+R)` -/
theorem mask_uniform (R a x : ℕ) : cnt R (fun r => a + r) x = if a ≤ x ∧ x < a + R then 1 else 0 :=
  cnt_shift R a x

example : cnt 8 (fun r => 3 + r) 10 = 1 := by rw [mask_uniform]; decide

/-- ★ `low_bits_perfect`: `r` uniform on `[0,M)` (M = 2^l for the l random bits, M = b in `_mod`): `(a + r) mod M`
hits every residue exactly once — perfectly uniform, independent of `a`. -/
theorem low_bits_perfect (M a : ℕ) {x : ℕ} (hx : x < M) : cnt M (fun r => (a + r) % M) x = 1 :=
  Mask.low_bits_perfect M a hx

example : cnt (2 ^ 5) (fun r => (1234567 + r) % 2 ^ 5) 17 = 1 := low_bits_perfect _ _ (by decide)

/-- … also when the high mask `M·q` is added on top (the opened value of sgn, trunc, lsb, trailing_zeros) -/
theorem low_bits_perfect_high (M a q : ℕ) {x : ℕ} (hx : x < M) :
    cnt M (fun r => (a + r + M * q) % M) x = 1 :=
  Mask.low_bits_perfect_high M a q hx

example : cnt (2 ^ 5) (fun r => (99 + r + 2 ^ 5 * 777) % 2 ^ 5) 0 = 1 := low_bits_perfect_high _ _ _ (by decide)

/-- … and for a subtracted low mask (`to_bits`, `_mod`) -/
theorem low_sub_perfect (M A : ℕ) (hA : M ≤ A + 1) {x : ℕ} (hx : x < M) :
    cnt M (fun r => (A - r) % M) x = 1 :=
  Mask.low_sub_perfect M A hA hx

example : cnt 3 (fun r => (1000 - r) % 3) 2 = 1 := low_sub_perfect 3 1000 (by decide) (by decide)

/-- the opened value `c = u + M·r` carries exactly the information (c mod M, c div M) = (u mod M, u div M + r) -/
theorem opened_split (M u r : ℕ) (hM : 0 < M) :
    (u + M * r) % M = u % M ∧ (u + M * r) / M = u / M + r ∧
      ∀ c c' : ℕ, c % M = c' % M → c / M = c' / M → c = c' :=
  ⟨(Mask.opened_split M u r hM).1, (Mask.opened_split M u r hM).2, fun _ _ h1 h2 => opened_pair_inj M h1 h2⟩

example : (77 + 16 * 5) % 16 = 77 % 16 ∧ (77 + 16 * 5) / 16 = 77 / 16 + 5 :=
  ⟨(opened_split 16 77 5 (by decide)).1, (opened_split 16 77 5 (by decide)).2.1⟩

/-! ### multiplicative blinding: is_zero_public, reciprocal -/

/-- ★ `mult_blinding`: the opened `a·r` is
(1) `0` for every `r` if `a = 0`;
(2) uniform on `F` if `a ≠ 0` and `r` is uniform on `F` (large fields, `reciprocal`);
(3) uniform on `F∖{0}` if `a ≠ 0` and `r` is uniform on `F∖{0}` (small/medium fields: `r` re-drawn until `r·s ≠ 0`);
(4) zero iff `a = 0` when `r ≠ 0`: the public result is the output bit, and by (1)–(3) nothing else is revealed. -/
theorem mult_blinding {F : Type} [Field F] (a : F) :
    (a = 0 → ∀ r : F, a * r = 0)
      ∧ (a ≠ 0 → ∀ y : F, ∃! r : F, a * r = y)
      ∧ (a ≠ 0 → ∀ y : F, y ≠ 0 → ∃! r : F, r ≠ 0 ∧ a * r = y)
      ∧ (∀ r : F, r ≠ 0 → (a * r = 0 ↔ a = 0)) :=
  ⟨fun h r => by rw [h, zero_mul], fun h y => mult_blinding_full h y,
   fun h _ hy => mult_blinding_units h hy, fun _ hr => blinded_zero_iff hr⟩

instance : Fact (Nat.Prime 7) := ⟨by decide⟩

example : ∀ y : ZMod 7, ∃! r : ZMod 7, (3 : ZMod 7) * r = y :=
  (mult_blinding (3 : ZMod 7)).2.1 (by decide)

/-! ### the SHARES of an opened product: re-randomisation (zero tests, reciprocal) -/

/-- ★ `rerandomized_shares_view`: let `V` be the share vectors, `Z ≤ V` the sharings of zero of degree ≤ 2t
(what `pseudorandom_share_zero` / a resharing contributes).  If two vectors `q q'` differ by an element of `Z` (two
degree-2t sharings of the SAME opened value), then `q + z` and `q' + z` for `z` uniform on `Z` have the same
distribution: there is a bijection `σ` of `Z` with `q + z = q' + σ z`.  Hence the m shares seen at an opening depend on the
opened value only, not on the polynomials `A(X)`, `R(X)` whose product is opened. -/
theorem rerandomized_shares_view {V : Type} [AddCommGroup V] (Z : AddSubgroup V) (q q' : V) (h : q - q' ∈ Z) :
    ∃ σ : Z ≃ Z, ∀ z : Z, q + (z : V) = q' + (σ z : V) := by
  refine ⟨Equiv.addLeft ⟨q - q', h⟩, fun z => ?_⟩
  simp only [Equiv.coe_addLeft, AddSubgroup.coe_add]
  rw [← add_assoc, add_sub_cancel]

example : ∃ σ : (⊤ : AddSubgroup (ZMod 7)) ≃ (⊤ : AddSubgroup (ZMod 7)),
    ∀ z : (⊤ : AddSubgroup (ZMod 7)), (3 : ZMod 7) + z = 5 + σ z :=
  rerandomized_shares_view ⊤ 3 5 (AddSubgroup.mem_top _)

/-- ★ `product_shares_distinguish`: WITHOUT re-randomisation the property fails (the defect found in
`is_zero_public` / `reciprocal` for fields of order ≥ 2^k, repaired by repo commit 4c3ba5b).  GF(7), m = 3, t = 1, the
party with x-coordinate 3: for the secrets `a = 1` and `a' = 2` (both non-zero: equal public output) there is a view
(the three opened shares of `a·r` and the party's own shares of `a` and `r`) that occurs for `a` (with non-zero blinding
`r = 1`) but is impossible for `a'`, whatever `A'(X)`, `R'(X)` are. -/
theorem product_shares_distinguish :
    ∃ a a' a₁ r r₁ : ZMod 7, a ≠ 0 ∧ a' ≠ 0 ∧ a ≠ a' ∧ r ≠ 0 ∧
      ∀ a₁' r' r₁' : ZMod 7,
        ¬ (a' + a₁' * 3 = a + a₁ * 3 ∧ r' + r₁' * 3 = r + r₁ * 3 ∧
            ∀ x ∈ ([1, 2, 3] : List (ZMod 7)), (a' + a₁' * x) * (r' + r₁' * x) = (a + a₁ * x) * (r + r₁ * x)) :=
  ⟨1, 2, 1, 1, 1, by decide, by decide, by decide, by decide, by decide⟩

/-! ### the mask range -/

/-- the model's binomial coefficient is `Nat.choose`, and the divisor is positive for t ≤ m -/
theorem maskDiv_spec (m t : ℕ) (htm : t ≤ m) :
    maskDiv m t false = Nat.choose m t ∧ maskDiv m t true = t + 1 ∧ ∀ np, 0 < maskDiv m t np :=
  ⟨by simp [maskDiv, choose_eq], by simp [maskDiv], fun np => maskDiv_pos htm np⟩

example : maskDiv 5 2 false = Nat.choose 5 2 := (maskDiv_spec 5 2 (by decide)).1

/-- ★ `maskBound_ge`: `B = 1 << max(0, (bound // d).bit_length() - 1)` is a positive power of two with
`B·d ≤ bound < 2·B·d` (for `1 ≤ d ≤ bound`): in bits, `log2 B ≥ log2 bound - log2 d - 1`. -/
theorem maskBound_ge {bound m t : ℕ} {np : Bool} (hd : 0 < maskDiv m t np) (hb : maskDiv m t np ≤ bound) :
    (∃ j, maskBound bound m t np = 2 ^ j)
      ∧ maskBound bound m t np * maskDiv m t np ≤ bound
      ∧ bound < 2 * maskBound bound m t np * maskDiv m t np :=
  ⟨⟨_, maskBound_eq bound m t np⟩, (maskBound_bounds hd hb).1, (maskBound_bounds hd hb).2⟩

example : maskBound (2 ^ 30) 5 2 false * maskDiv 5 2 false ≤ 2 ^ 30 ∧
    2 ^ 30 < 2 * maskBound (2 ^ 30) 5 2 false * maskDiv 5 2 false :=
  (maskBound_ge (by decide) (by decide)).2

/-- the hypothesis `d ≤ bound` matters: below it the range collapses to 1 (mask identically 0) -/
theorem maskBound_degenerate {bound m t : ℕ} {np : Bool} (hb : bound < maskDiv m t np) :
    maskBound bound m t np = 1 :=
  maskBound_small hb

example : maskBound 5 5 2 false = 1 := maskBound_degenerate (by decide)

/-! ### the uniform component unknown to the coalition -/

/-- ★ `prss_mask_component`: `r S` = output of the PRF of subset `S` (any values below `B`); for ANY coalition
`A` of at most `t` parties there is a subset `S₀` of `m - t` parties, disjoint from `A` — so no coalition member
holds its key (C16 `coalition_lacks_key`) — such that the mask is `r S₀ + Σ_{S ≠ S₀} r S`; the summand `r S₀ < B`
is uniform on `[0,B)` (PRF assumption, C17 exactness for powers of two) and unknown to `A`.  The whole mask is at
most `C(m,t)·(B-1)`. -/
theorem prss_mask_component {m t : ℕ} (htm : t ≤ m) (A : List ℕ) (hA : A.length ≤ t)
    (r : Comb.Subset → ℕ) (B : ℕ) (hr : ∀ S ∈ Comb.subsets m t, r S < B) :
    (∃ S₀ ∈ Comb.subsets m t, (∀ c ∈ A, c ∉ S₀) ∧ S₀.length = m - t ∧ r S₀ < B ∧
        ∃ rest : List Comb.Subset, (S₀ :: rest).Perm (Comb.subsets m t) ∧
          prssMask m t r = r S₀ + (rest.map r).sum)
      ∧ prssMask m t r ≤ Nat.choose m t * (B - 1) :=
  Mask.prss_mask_component htm A hA r B hr

example : ∃ S₀ ∈ Comb.subsets 5 2, (∀ c ∈ [1, 3], c ∉ S₀) ∧ S₀.length = 5 - 2 ∧
    (fun S : Comb.Subset => S.sum % 8) S₀ < 8 ∧
    ∃ rest : List Comb.Subset, (S₀ :: rest).Perm (Comb.subsets 5 2) ∧
      prssMask 5 2 (fun S => S.sum % 8) = (fun S : Comb.Subset => S.sum % 8) S₀
        + (rest.map fun S => S.sum % 8).sum :=
  (prss_mask_component (by decide) [1, 3] (by decide) (fun S => S.sum % 8) 8
    (fun _ _ => Nat.mod_lt _ (by decide))).1

/-- the PRSS mask never exceeds the requested bound: `C(m,t)·(B-1) < bound` -/
theorem prss_mask_lt_bound {bound m t : ℕ} (htm : t ≤ m) (hb : Nat.choose m t ≤ bound)
    (r : Comb.Subset → ℕ) (hr : ∀ S ∈ Comb.subsets m t, r S < maskBound bound m t false) :
    prssMask m t r < bound := by
  have h1 := (Mask.prss_mask_component htm [] (by simp) r _ hr).2
  have hd : maskDiv m t false = Nat.choose m t := by simp [maskDiv, choose_eq]
  have h2 := (maskBound_bounds (bound := bound) (m := m) (t := t) (np := false)
    (by rw [hd]; exact Nat.choose_pos htm) (by rw [hd]; exact hb)).1
  rw [hd] at h2
  have hpos := maskBound_pos bound m t false
  have hc := Nat.choose_pos htm
  have : Nat.choose m t * (maskBound bound m t false - 1) < maskBound bound m t false * Nat.choose m t := by
    rw [Nat.mul_comm]
    exact Nat.mul_lt_mul_of_pos_right (by omega) hc
  omega

example : prssMask 5 2 (fun S => S.sum % maskBound (2 ^ 30) 5 2 false) < 2 ^ 30 :=
  prss_mask_lt_bound (by decide) (by decide) _ (fun _ _ => Nat.mod_lt _ (maskBound_pos _ _ _ _))

/-- ★ no-PRSS: the mask is the sum of the values of the `t+1` senders `(uci+i) % m`; a coalition of at most `t`
parties misses one of them, whose value (uniform below `B`, dealt by `random_split`: C14 `payload_uniform`) it
does not know. -/
theorem noprss_mask_component {m t : ℕ} (htm : t < m) (uci : ℕ) (A : Finset ℕ) (hA : A.card ≤ t) :
    ∃ j ∈ senders m t uci, j ∉ A :=
  Mask.noprss_mask_component htm uci A hA

example : ∃ j ∈ senders 5 2 4, j ∉ ({4, 0} : Finset ℕ) := noprss_mask_component (by decide) 4 _ (by decide)

/-! ### the opening sites -/

/-- ★ per-site table (sgn, trunc, lsb, _mod, to_bits, trailing_zeros; see `Mask.sites` for modulus, requested
bound, span and constant of each): for all valid parameters `2 · span · 2^k ≤ c · bound`. -/
theorem sites_table : ∀ s ∈ sites, ∀ P : Params, s.valid P → 2 * s.span P * 2 ^ P.k ≤ s.c * s.bound P :=
  Mask.sites_table

example : 2 * truncSite.span ⟨30, 48, 16, 0, 0⟩ * 2 ^ 30 ≤ truncSite.c * truncSite.bound ⟨30, 48, 16, 0, 0⟩ :=
  sites_table truncSite (by simp [sites]) _ (by simp [truncSite])

/-- the table lists these sites with constants ≤ 8 -/
theorem sites_names : sites.map (·.name) = ["sgn", "trunc", "lsb", "_mod", "to_bits", "trailing_zeros"]
    ∧ ∀ s ∈ sites, 0 < s.c ∧ s.c ≤ 8 := by
  refine ⟨rfl, ?_⟩
  intro s hs
  simp only [sites, List.mem_cons, List.not_mem_nil, or_false] at hs
  rcases hs with rfl | rfl | rfl | rfl | rfl | rfl <;> decide

/-- ★ per-site distance bound: for every listed site, valid parameters, every configuration (m, t, PRSS or not)
with `1 ≤ d ≤ bound`: `span · 2^k < c · d · B`, `B` = range of the uniform mask component.  With `mask_sd`
(distance = shift / B ≤ span / B) the opening contributes less than `c · d · 2^-k ≤ 8 · C(m,t) · 2^-k`. -/
theorem site_distance (s : Site) (hs : s ∈ sites) (P : Params) (hv : s.valid P) {m t : ℕ} {np : Bool}
    (hd : 0 < maskDiv m t np) (hb : maskDiv m t np ≤ s.bound P) :
    s.span P * 2 ^ P.k < s.c * maskDiv m t np * maskBound (s.bound P) m t np :=
  Mask.site_distance s hs P hv hd hb (sites_names.2 s hs).1

example : sgnSite.span ⟨30, 32, 0, 0, 0⟩ * 2 ^ 30
    < sgnSite.c * maskDiv 5 2 false * maskBound (sgnSite.bound ⟨30, 32, 0, 0, 0⟩) 5 2 false :=
  site_distance sgnSite (by simp [sites]) _ (by simp [sgnSite]) (by decide) (by decide)

/-- the spans used in the table are the ranges of the secret-dependent high parts (`ao = a + 2^(l-1)` is the
signed l-bit secret shifted into `[0, 2^l)`, `r` the low mask) -/
theorem site_spans :
    (∀ l ao r, 1 ≤ l → ao < 2 ^ l → r < 2 ^ l → (ao + 2 ^ (l - 1) + r) / 2 ^ l ≤ 2)
      ∧ (∀ l f ao r, f ≤ l → ao < 2 ^ l → r < 2 ^ f → (ao + r) / 2 ^ f ≤ 2 ^ (l - f))
      ∧ (∀ l ao b, 1 ≤ l → ao < 2 ^ l → b ≤ 1 → (ao + 2 ^ (l - 1) + b) / 2 < 2 ^ l)
      ∧ (∀ l b u, u < 2 ^ (l + 1) → u / b ≤ 2 ^ (l + 1) / b)
      ∧ (∀ j n u, n ≤ j → u < 2 ^ j → u / 2 ^ n < 2 ^ (j - n)) :=
  ⟨sgn_span, trunc_span, lsb_span, mod_span, bits_span⟩

example : (100 + 2 ^ (8 - 1) + 200) / 2 ^ 8 ≤ 2 :=
  site_spans.1 8 100 200 (by decide) (by decide) (by decide)

/-- ★ `_convert` from a secure integer: every mask term is uniform below `B = (1 << (k+l)) // d + 1` (unrounded),
the secret part `x + offset` lies in `[0, 2^l)`: `2^l · 2^k < d · B`, distance `< d · 2^-k`. -/
theorem convert_distance (k l m t : ℕ) (np : Bool) (hd : 0 < maskDiv m t np) :
    2 ^ l * 2 ^ k < maskDiv m t np * convertBound (k + l) m t np :=
  Mask.convert_distance k l m t np hd

example : 2 ^ 32 * 2 ^ 30 < maskDiv 5 2 false * convertBound (30 + 32) 5 2 false :=
  convert_distance 30 32 5 2 false (by decide)

/-! ### `_mod`: the defect found by this analysis and its fix -/

/-- the `_mod` mask as it was before repo commit 4d82624 (`r_divb = _random(Zp, 1 << k)`, not growing with `l`):
for secint(32), k = 30, b = 3, m = 3, t = 1 every opened value possible for `a = -2147483646` is below every
opened value possible for `a' = 2147483646`, while `a % 3 = a' % 3`: distance 1 for inputs with equal outputs.
(Reproducer on the real code: harness/reports/Share.md.) -/
theorem mod_old_mask_insufficient :
    let B := maskBound (2 ^ 30) 3 1 false
    let A := 2147483650
    let A' := 6442450942
    A % 3 = A' % 3 ∧
    ∀ r r' q q' : ℕ, r ≤ 3 * (B - 1) → q' < 3 →
      A - 2 ^ 32 % 3 + 3 * r - q < A' - 2 ^ 32 % 3 + 3 * r' - q' :=
  Mask.mod_old_mask_insufficient

/-- with the fixed parameter `(1 << k + l) // b` the table bound holds for the same configuration -/
theorem mod_new_mask_sufficient :
    modSite.span ⟨30, 32, 0, 3, 0⟩ * 2 ^ 30
      < 8 * 3 * maskBound (modSite.bound ⟨30, 32, 0, 3, 0⟩) 3 1 false :=
  Mask.mod_new_mask_sufficient

/-! ### the four sites found by the third defect hunt (repo commits 3c924f8, be33b70, ccbb4b9, b17c81b) -/

/-- `np_trunc` of a fixed-point ARRAY product: the double-scaled product has `l + f` bits, so the trunc site must
be entered with `l + f`; then the requested bound is `2^(k+l)` and the table inequality holds … -/
theorem np_trunc_mask_parameter (k l f : ℕ) :
    truncSite.bound ⟨k, l + f, f, 0, 0⟩ = 2 ^ (k + l) ∧
    2 * truncSite.span ⟨k, l + f, f, 0, 0⟩ * 2 ^ k ≤ truncSite.c * truncSite.bound ⟨k, l + f, f, 0, 0⟩ := by
  refine ⟨?_, sites_table truncSite (by simp [sites]) _ (by simp [truncSite])⟩
  simp only [truncSite]
  congr 1
  omega

/-- … whereas the parameter the code used before repo commit 3c924f8 (`l` instead of `l + f`, because the test
`issubclass(sftype, SecureFixedPoint)` is false for array types) requests `2^(k+l-f)`: too small by `2^f` for the
span `2^l` of the values really truncated -/
theorem np_trunc_old_mask_insufficient (k l f : ℕ) (hf : 1 ≤ f) (hfl : f ≤ l) :
    truncSite.c * truncSite.bound ⟨k, l, f, 0, 0⟩ < 2 * truncSite.span ⟨k, l + f, f, 0, 0⟩ * 2 ^ k := by
  simp only [truncSite]
  have e1 : l + f - f = l := by omega
  have e2 : k + l - f + f = k + l := by omega
  rw [e1]
  have h : 2 ^ (k + l - f) * 2 ^ f = 2 ^ (k + l) := by rw [← pow_add, e2]
  have h2 : 2 ≤ 2 ^ f := by
    calc 2 = 2 ^ 1 := by norm_num
      _ ≤ 2 ^ f := Nat.pow_le_pow_right (by norm_num) hf
  have h3 : (2 : ℕ) ^ (k + l) = 2 ^ l * 2 ^ k := by rw [pow_add, mul_comm]
  have hpos : 0 < 2 ^ (k + l - f) := Nat.pos_of_ne_zero (pow_ne_zero _ (by norm_num))
  nlinarith

example : truncSite.c * truncSite.bound ⟨30, 16, 8, 0, 0⟩ < 2 * truncSite.span ⟨30, 16 + 8, 8, 0, 0⟩ * 2 ^ 30 :=
  np_trunc_old_mask_insufficient 30 16 8 (by decide) (by decide)

/-- public base ** secret exponent (`_np_pow_public_int_base_secret_integral_exponent`): each of the `t + 1`
senders draws below `B = 2^(l+k) / (t+1)`; the masks together cover `2^(l+k)` up to `t` -/
theorem pow_mask_total (l k t : ℕ) : 2 ^ (l + k) - t ≤ (t + 1) * (2 ^ (l + k) / (t + 1)) := by
  have h := Nat.div_add_mod (2 ^ (l + k)) (t + 1)
  have h2 : 2 ^ (l + k) % (t + 1) < t + 1 := Nat.mod_lt _ (Nat.succ_pos t)
  omega

/-- the bound before repo commit be33b70, `1 << ((l + k) // (t + 1))` (operator precedence), has only
`(l+k)/(t+1)` bits: for `t ≥ 1` all `t + 1` masks together stay below `(t+1) · 2^((l+k)/2)`; the square of one
sender's bound does not exceed the range `2^(l+k)` one sender should have covered alone for `t = 1` -/
theorem pow_old_mask_small (l k t : ℕ) (ht : 1 ≤ t) :
    2 ^ ((l + k) / (t + 1)) ≤ 2 ^ ((l + k) / 2) ∧ 2 ^ ((l + k) / 2) * 2 ^ ((l + k) / 2) ≤ 2 ^ (l + k) := by
  constructor
  · apply Nat.pow_le_pow_right (by norm_num)
    exact Nat.div_le_div_left (by omega) (by norm_num)
  · rw [← pow_add]
    apply Nat.pow_le_pow_right (by norm_num)
    omega

/-- default types, 3 parties: the old masks of both senders together have fewer than 32 bits for a 16-bit exponent
and k = 30 (needed: 46) -/
example : 2 * 2 ^ ((16 + 30) / (1 + 1)) < 2 ^ 32 ∧ 2 ^ (16 + 30) - 1 ≤ (1 + 1) * (2 ^ (16 + 30) / (1 + 1)) :=
  ⟨by norm_num, pow_mask_total 16 30 1⟩

/-- `to_bits` over GF(2^n) (characteristic 2: addition is XOR): with a mask of ALL `n` bits the opened `a + r` is
exactly uniform, whatever `a` is … -/
theorem to_bits_bin_perfect (n a : ℕ) (ha : a < 2 ^ n) {x : ℕ} (hx : x < 2 ^ n) :
    cnt (2 ^ n) (fun r => a ^^^ r) x = 1 := by
  unfold cnt
  have : ((range (2 ^ n)).filter fun r => a ^^^ r = x) = {a ^^^ x} := by
    ext r
    simp only [mem_filter, mem_range, mem_singleton]
    constructor
    · rintro ⟨_, rfl⟩
      rw [← Nat.xor_assoc, Nat.xor_self, Nat.zero_xor]
    · rintro rfl
      refine ⟨Nat.xor_lt_two_pow ha hx, ?_⟩
      rw [← Nat.xor_assoc, Nat.xor_self, Nat.zero_xor]
  rw [this, card_singleton]

/-- … whereas with a mask of only `l` bits (the code before repo commit ccbb4b9 for `to_bits(a, l)`, `l < n`) the
bits of `a` above position `l` are opened as they are, for EVERY mask value -/
theorem to_bits_bin_short_mask_leaks (l a r : ℕ) (hr : r < 2 ^ l) : (a ^^^ r) >>> l = a >>> l := by
  rw [Nat.shiftRight_xor_distrib, Nat.shiftRight_eq_div_pow r l, Nat.div_eq_of_lt hr, Nat.xor_zero]

example : ∀ r < 2 ^ 4, (0x35 ^^^ r) >>> 4 = 3 := by
  intro r hr
  rw [to_bits_bin_short_mask_leaks 4 0x35 r hr]
  decide

/-- `sincos`: the opened value divided by `n = 2^k'` is (number of full turns of the argument, below `2^(l-f)`) + R:
with `R` drawn below `2^(k + l - f)` the table inequality holds; with `R` below `2^k` only (before repo commit
b17c81b) it fails as soon as `l - f ≥ 1` -/
theorem sincos_turns_mask (k l f : ℕ) (hfl : f ≤ l) :
    2 * 2 ^ (l - f) * 2 ^ k ≤ 2 * 2 ^ (k + l - f) ∧ (1 ≤ l - f → 2 * 2 ^ k < 2 * 2 ^ (l - f) * 2 ^ k) := by
  constructor
  · rw [show k + l - f = l - f + k by omega, pow_add]
    nlinarith
  · intro h
    have h2 : 2 ≤ 2 ^ (l - f) := by
      calc 2 = 2 ^ 1 := by norm_num
        _ ≤ 2 ^ (l - f) := Nat.pow_le_pow_right (by norm_num) h
    have hpos : 0 < 2 ^ k := Nat.pos_of_ne_zero (pow_ne_zero _ (by norm_num))
    nlinarith

/-
`view_indistinguishable_partial` (NOT proved — full statement of C18):
  for every program built from the runtime's protocols, every coalition A of at most t parties, and every two
  input vectors x, x' with equal outputs, the statistical distance between A's views (its own inputs and
  randomness, all messages received, all values opened) is at most N · 8 · C(m,t) · 2^-k + (negligible PRF
  advantage), N = number of masked openings.
Proved above: every ingredient that concerns ONE opening (distance of additive masks, perfect low bits, blinding
of zero tests, range of the mask the code really draws, existence of a uniform component outside the
coalition, the per-site spans and constants).  Missing: the probabilistic whole-run model and the composition
(hybrid) argument across openings and across the Shamir/PRSS layers (C13/C14/C15 give the per-layer facts).
-/

end MpycV.C18
