/-
C21 — field square roots and quadratic-residue tests are correct.

Part 1: prime fields (model `MpycV.PrimeF` ≙ `PrimeFieldElement._sqrt/_is_sqr` + the gmpy stubs).
  proved for every prime: `is_sqr` (Legendre symbol via the `jacobi` stub = Mathlib's symbol), the p ≡ 3 (mod 4)
  branch incl. INV, p = 2, zero/INV raises.  The Cipolla–Lehmer branch (p ≡ 1 mod 4) is `_partial`:
  kernel-checked exhaustively for every prime p ≡ 1 (mod 4) below 200 and every element.
Part 2 (below): extension and binary fields.
-/
import MpycV.Lemmas.PrimeFSqrt
import MpycV.Lemmas.PrimeFSqrtTable
import MpycV.Lemmas.ExtFSqrt
import MpycV.Lemmas.ExtFSqrtTable
import MpycV.Lemmas.BinFSqrt

namespace MpycV.C21
open MpycV.PrimeF

variable {p : Nat} [hpf : Fact p.Prime]

local instance : NeZero p := ⟨hpf.out.ne_zero⟩

theorem isSquare_iff_model (a : Nat) (ha : a < p) :
    IsSquare (a : ZMod p) ↔ ∃ r, r < p ∧ mul p r (r : Int) = a := by
  constructor
  · rintro ⟨z, hz⟩
    refine ⟨z.val, ZMod.val_lt z, ?_⟩
    apply eq_of_cast (mul_lt _ _) ha
    rw [cast_mul]; simp [hz]
  · rintro ⟨r, _, hr⟩
    refine ⟨(r : ZMod p), ?_⟩
    rw [← hr, cast_mul]; simp

/-- ★ `is_sqr(a)` never raises and holds exactly for the squares (0 included), in every prime field -/
theorem is_sqr_iff (a : Nat) (ha : a < p) :
    ∃ b, isSqr p a = .ok b ∧ (b = true ↔ ∃ r, r < p ∧ mul p r (r : Int) = a) := by
  refine ⟨_, isSqr_eq p a, ?_⟩
  rw [decide_eq_true_iff, isSquare_iff_model a ha]

/-- ★ the Legendre-symbol stub is Mathlib's Legendre symbol; `is_sqr` is `legendre ≠ -1` (odd p) and agrees
with Euler's criterion `a^((p-1)/2) = 1` for nonzero `a` -/
theorem is_sqr_euler (hp2 : p ≠ 2) (a : Nat) (ha : a < p) (ha0 : a ≠ 0) :
    legendre (a : Int) p = .ok (legendreSym p a) ∧
    (isSqr p a = .ok true ↔ pow p a ((p / 2 : Nat) : Int) = .ok 1) := by
  refine ⟨legendre_eq p hp2 a, ?_⟩
  have hz : (a : ZMod p) ≠ 0 := by
    intro h; rw [ZMod.natCast_eq_zero_iff] at h
    exact ha0 (Nat.eq_zero_of_dvd_of_lt h ha)
  obtain ⟨r, h1, h2, h3⟩ := pow_nonneg (p := p) a (p / 2)
  rw [isSqr_eq, h1]
  simp only [Except.ok.injEq, decide_eq_true_iff]
  rw [ZMod.euler_criterion p hz, ← h3]
  constructor
  · intro h; apply eq_of_cast h2 hpf.out.one_lt; simpa using h
  · intro h; rw [h]; simp

example : isSqr 13 4 = .ok true ∧ isSqr 13 5 = .ok false ∧ legendre (-3) 13 = .ok 1 := by decide

/-- ★ `sqrt(0) = 0` and `sqrt(0, INV=True)` raises ZeroDivisionError, in every prime field -/
theorem sqrt_zero_inv_raises (q : Nat) :
    sqrt q 0 false = .ok 0 ∧ sqrt q 0 true = .error .zeroDivision := by
  refine ⟨?_, (sqrt_zero q).2⟩
  rw [(sqrt_zero q).1]; congr 1

/-- ★ p ≡ 3 (mod 4): for every square `a`, `sqrt(a)` is reduced and squares to `a` -/
theorem sqrt_blum (hp3 : p % 4 = 3) (a : Nat) (ha : a < p) (hs : isSqr p a = .ok true) :
    ∃ r, sqrt p a false = .ok r ∧ r < p ∧ mul p r (r : Int) = a := by
  by_cases ha0 : a = 0
  · subst ha0
    exact ⟨0, (sqrt_zero_inv_raises p).1, hpf.out.pos, by
      apply eq_of_cast (mul_lt _ _) ha; simp [cast_mul]⟩
  · have hz : (a : ZMod p) ≠ 0 := by
      intro h; rw [ZMod.natCast_eq_zero_iff] at h
      exact ha0 (Nat.eq_zero_of_dvd_of_lt h ha)
    have hsq : IsSquare (a : ZMod p) := by
      rw [isSqr_eq] at hs; simpa using hs
    refine ⟨_, sqrt_blum_val p a hp3 ha0 false, mk_lt hpf.out.pos _, ?_⟩
    apply eq_of_cast (mul_lt _ _) ha
    rw [cast_mul]
    simp only [Int.cast_natCast, mk_cast, powModNat_cast, Bool.false_eq_true, ↓reduceIte]
    rw [← pow_two]; exact blum_root_sq hp3 _ hz hsq

/-- ★ p ≡ 3 (mod 4): for every nonzero `a`, `sqrt(a, INV=True)` is the inverse of `sqrt(a)`; hence for nonzero
squares it is the inverse of a square root of `a` (and its square is `1/a`) -/
theorem sqrt_blum_inv (hp3 : p % 4 = 3) (a : Nat) (ha : a < p) (ha0 : a ≠ 0) :
    ∃ r r', sqrt p a false = .ok r ∧ sqrt p a true = .ok r' ∧ r' < p ∧ mul p r' (r : Int) = 1 ∧
      (isSqr p a = .ok true → mul p (mul p r' (r' : Int)) (a : Int) = 1) := by
  have hz : (a : ZMod p) ≠ 0 := by
    intro h; rw [ZMod.natCast_eq_zero_iff] at h
    exact ha0 (Nat.eq_zero_of_dvd_of_lt h ha)
  refine ⟨_, _, sqrt_blum_val p a hp3 ha0 false, sqrt_blum_val p a hp3 ha0 true, mk_lt hpf.out.pos _, ?_, ?_⟩
  · apply eq_of_cast (mul_lt _ _) hpf.out.one_lt
    rw [cast_mul]
    simp only [Int.cast_natCast, mk_cast, powModNat_cast, Bool.false_eq_true, ↓reduceIte, Nat.cast_one]
    exact blum_inv_root hp3 _ hz
  · intro hs
    have hsq : IsSquare (a : ZMod p) := by
      rw [isSqr_eq] at hs; simpa using hs
    apply eq_of_cast (mul_lt _ _) hpf.out.one_lt
    rw [cast_mul, cast_mul]
    simp only [Int.cast_natCast, mk_cast, powModNat_cast, ↓reduceIte, Nat.cast_one]
    have h1 := blum_inv_root hp3 _ hz
    have h2 := blum_root_sq hp3 _ hz hsq
    set x := (a : ZMod p) ^ ((p * 3 - 5) >>> 2)
    set y := (a : ZMod p) ^ ((p + 1) >>> 2)
    calc x * x * (a : ZMod p) = x * x * y ^ 2 := by rw [h2]
      _ = (x * y) ^ 2 := by ring
      _ = 1 := by rw [h1]; simp

example : sqrt 7 2 false = .ok 4 ∧ mul 7 4 4 = 2 ∧ sqrt 7 2 true = .ok 2 ∧ mul 7 2 4 = 1 ∧ isSqr 7 2 = .ok true := by
  decide

omit hpf in
/-- ★ p = 2: every element is its own square root, `is_sqr` is constantly true -/
theorem sqrt_two (a : Nat) (ha : a < 2) (inv : Bool) (h : a ≠ 0 ∨ inv = false) :
    sqrt 2 a inv = .ok a ∧ mul 2 a (a : Int) = a ∧ isSqr 2 a = .ok true := by
  have : a = 0 ∨ a = 1 := by omega
  rcases this with rfl | rfl
  · simp_all; decide
  · cases inv <;> decide

/-! ### Cipolla–Lehmer branch (p ≡ 1 mod 4): partial -/

/-- ☆ PARTIAL (finite table, kernel-checked): for every prime p ≡ 1 (mod 4) below 200 and EVERY element `a`:
if `a` is a square then `sqrt(a)` is reduced and squares to `a`, `sqrt(a, INV=True)` is its inverse, and
`sqrt(0, INV=True)` raises ZeroDivisionError.
`sqrtCheck` (Lemmas/PrimeFSqrtTable.lean) is the Boolean form of exactly these clauses, `primes1mod4` the list of
all 21 such primes.  Full statement (not proved for general p): `∀ p prime, p % 4 = 1 → ∀ a < p, sqrtCheck p a = true`; missing: the
loop invariant of the Lucas-sequence ladder in GF(p)[X]/(X²-bX+a) (`(u,v)` represents `X^k`), `X^(p+1) = a` by
Frobenius, and termination of the search for a non-residue discriminant within `p` steps. -/
theorem sqrt_cipolla_partial : ∀ q ∈ primes1mod4, ∀ a < q, sqrtCheck q a = true := sqrtCheck_table

example : sqrt 13 4 false = .ok 11 ∧ mul 13 11 11 = 4 ∧ sqrt 13 4 true = .ok 6 ∧ mul 13 6 11 = 1 := by decide +kernel

end MpycV.C21

/-! # Part 2: extension fields (model `MpycV.ExtF`) and binary fields (model `MpycV.BinF`)

proved for every prime p and every admissible modulus: `is_sqr` (Euler's criterion in the finite field
`AdjoinRoot m` of order p^d), `sqrt`/`sqrt(INV)` for q ≡ 3 (mod 4), binary fields (Frobenius), zero/INV raising.
Tonelli–Shanks (q ≡ 1 mod 4): `_partial`, kernel-checked for every element of GF(9), GF(25), GF(49), GF(81),
GF(121), GF(125). -/
namespace MpycV.C21

section ext
open MpycV.ExtF MpycV.GFpX
set_option linter.unusedSectionVars false

variable {p : ℕ} [hpf : Fact p.Prime] {m : Poly}

/-- ★ odd order: `is_sqr(a)` never raises and holds exactly for the squares (0 included) -/
theorem ext_is_sqr_iff (hm : IsModulus p m) (hodd : ExtF.order p m % 2 = 1) {a : Poly} (ha : Red p m a) :
    ∃ b, ExtF.isSqr p m a = .ok b ∧ (b = true ↔ ∃ r, Red p m r ∧ ExtF.mul p m r r = a) := by
  obtain ⟨b, e, hb⟩ := isSqr_spec hm hodd ha
  exact ⟨b, e, by rw [hb, ExtF.isSquare_iff_model hm ha]⟩

/-- ★ `sqrt(0) = 0`, `sqrt(0, INV=True)` raises ZeroDivisionError (every extension field) -/
theorem ext_sqrt_zero_inv_raises (hm : IsModulus p m) :
    ExtF.sqrt p m [] false = .ok [] ∧ ExtF.sqrt p m [] true = .error .zeroDivision := by
  refine ⟨?_, rfl⟩
  have hnil : Red p m [] := ⟨⟨by simp [Reduced], by simp [Normalised]⟩, List.length_pos_iff.mpr hm.ne_nil⟩
  show Except.ok (ExtF.mk p m []) = _
  rw [mk_of_red hm hnil]

/-- ★ q ≡ 3 (mod 4): for every square `a`, `sqrt(a)` is a class-invariant value whose square is `a` -/
theorem ext_sqrt_q3 (hm : IsModulus p m) (h3 : ExtF.order p m % 4 = 3) {a : Poly} (ha : Red p m a)
    (hs : ∃ b, Red p m b ∧ ExtF.mul p m b b = a) :
    ∃ r, ExtF.sqrt p m a false = .ok r ∧ Red p m r ∧ ExtF.mul p m r r = a := by
  by_cases ha0 : a = []
  · subst ha0
    refine ⟨[], (ext_sqrt_zero_inv_raises hm).1, ha, ?_⟩
    apply phi_inj hm (red_mul hm ha.1 ha.1) ha
    rw [phi_mul hm ha.1 ha.1]; simp [φ]
  · obtain ⟨_, _, heul⟩ := finite_field_facts hm
    have hx : φ p m a ≠ 0 := fun h => ha0 ((phi_eq_zero_iff hm ha).mp h)
    have hsq : IsSquare (φ p m a) := (ExtF.isSquare_iff_model hm ha).mpr hs
    have he := ((heul (by omega) _ hx).1).mp hsq
    obtain ⟨r, e, rr, hr⟩ := sqrt_q3_val hm h3 ha ha0 false
    refine ⟨r, e, rr, ?_⟩
    apply phi_inj hm (red_mul hm rr.1 rr.1) ha
    rw [phi_mul hm rr.1 rr.1, hr]
    simp only [Bool.false_eq_true, ↓reduceIte]
    have h1 : (ExtF.order p m + 1) >>> 2 + (ExtF.order p m + 1) >>> 2 = ExtF.order p m / 2 + 1 := by
      rw [Nat.shiftRight_eq_div_pow]; omega
    rw [← pow_add, h1, pow_succ, he, one_mul]

/-- ★ q ≡ 3 (mod 4): for nonzero `a`, `sqrt(a, INV=True)` is the inverse of `sqrt(a)`; for nonzero squares its
square is `1/a` -/
theorem ext_sqrt_q3_inv (hm : IsModulus p m) (h3 : ExtF.order p m % 4 = 3) {a : Poly} (ha : Red p m a)
    (ha0 : a ≠ []) :
    ∃ r r', ExtF.sqrt p m a false = .ok r ∧ ExtF.sqrt p m a true = .ok r' ∧ Red p m r' ∧
      ExtF.mul p m r' r = [1] ∧
      ((∃ b, Red p m b ∧ ExtF.mul p m b b = a) → ExtF.mul p m (ExtF.mul p m r' r') a = [1]) := by
  obtain ⟨hfer, _, heul⟩ := finite_field_facts hm
  have hx : φ p m a ≠ 0 := fun h => ha0 ((phi_eq_zero_iff hm ha).mp h)
  obtain ⟨r, e, rr, hr⟩ := sqrt_q3_val hm h3 ha ha0 false
  obtain ⟨r', e', rr', hr'⟩ := sqrt_q3_val hm h3 ha ha0 true
  simp only [Bool.false_eq_true, ↓reduceIte] at hr hr'
  have hsum : (ExtF.order p m * 3 - 5) >>> 2 + (ExtF.order p m + 1) >>> 2 = ExtF.order p m - 1 := by
    rw [Nat.shiftRight_eq_div_pow, Nat.shiftRight_eq_div_pow]; omega
  have hprod : φ p m r' * φ p m r = 1 := by rw [hr, hr', ← pow_add, hsum]; exact hfer _ hx
  refine ⟨r, r', e, e', rr', ?_, ?_⟩
  · apply phi_inj hm (red_mul hm rr'.1 rr.1) (one_red hm)
    rw [phi_mul hm rr'.1 rr.1, phi_one]; exact hprod
  · intro hs
    obtain ⟨r0, e0, _, h0⟩ := ext_sqrt_q3 hm h3 ha hs
    rw [e] at e0; cases e0
    have hrr := red_mul hm rr'.1 rr'.1
    apply phi_inj hm (red_mul hm hrr.1 ha.1) (one_red hm)
    rw [phi_mul hm hrr.1 ha.1, phi_mul hm rr'.1 rr'.1, phi_one]
    have hsq : φ p m a = φ p m r * φ p m r := by rw [← phi_mul hm rr.1 rr.1, h0]
    rw [hsq]
    calc φ p m r' * φ p m r' * (φ p m r * φ p m r) = (φ p m r' * φ p m r) ^ 2 := by ring
      _ = 1 := by rw [hprod]; simp

/-- ☆ PARTIAL (finite tables, kernel-checked): Tonelli–Shanks branch (q ≡ 1 mod 4): for EVERY element of GF(9),
GF(25), GF(49), GF(81), GF(121), GF(125) (moduli as chosen by `find_irreducible`; `ExtF.checkField` also re-checks
their irreducibility): squares get a class-invariant root whose square is the element, `sqrt(INV=True)` is its
inverse, `sqrt(0, INV=True)` raises.  Full statement not proved: the same for every `IsModulus p m` with
`order % 4 = 1`; missing: the 2-Sylow loop invariant (`b = x²/a` has order `2^k`, `k < v`), existence of a
non-residue below the fuel, and termination of both loops. -/
theorem ext_sqrt_ts_partial :
    ExtF.checkField 3 [1, 0, 1] = true ∧ ExtF.checkField 5 [2, 0, 1] = true ∧ ExtF.checkField 7 [1, 0, 1] = true ∧
    ExtF.checkField 3 [2, 1, 0, 0, 1] = true ∧ ExtF.checkField 11 [1, 0, 1] = true ∧
    ExtF.checkField 5 [1, 1, 0, 1] = true :=
  ⟨ExtF.ts_9, ExtF.ts_25, ExtF.ts_49, ExtF.ts_81, ExtF.ts_121, ExtF.ts_125⟩

example : ExtF.sqrt 3 [1, 0, 1] [2] false = .ok [0, 1] ∧ ExtF.mul 3 [1, 0, 1] [0, 1] [0, 1] = [2] ∧
    ExtF.isSqr 3 [1, 0, 1] [1, 1] = .ok false ∧ ExtF.order 3 [1, 2, 0, 1] % 4 = 3 := by decide +kernel

end ext

section bin
open MpycV.BinF MpycV.BinPoly

local instance : Fact (Nat.Prime 2) := Nat.fact_prime_two

variable {m : ℕ}

/-- ★ binary fields: every element is a square (`is_sqr` is constantly true), `sqrt(a) = a^(q/2)` is a
class-invariant value whose square is `a` (Frobenius) -/
theorem bin_sqrt (hm : isIrreducible m = true) {a : ℕ} (ha : BRed m a) :
    BinF.isSqr a = true ∧ ∃ r, BinF.sqrt m a false = .ok r ∧ BRed m r ∧ BinF.mul m r r = a := by
  refine ⟨rfl, ?_⟩
  have M := BinF.isModulus_of_check hm
  have h0 := BinF.ne_zero_of_check hm
  have h2 := bitLen_ge_two_of_check hm
  have rA := (red_iff m a).mpr ha
  have hts := toList_sqrt h0 h2 a false
  by_cases ha0 : a = 0
  · subst ha0
    have hnil : ExtF.Red 2 (toList m) [] := by rw [← BinF.toList_zero]; exact rA
    rw [BinF.toList_zero, (ext_sqrt_zero_inv_raises M).1] at hts
    obtain ⟨r, er, hr⟩ := exists_of_map_toList hts
    have hr0 : r = 0 := toList_eq_nil_iff.mp hr
    subst hr0
    refine ⟨0, er, ha, ?_⟩
    apply toList_injective
    rw [toList_mul' h0, BinF.toList_zero]
    apply ExtF.phi_inj M (ExtF.red_mul M hnil.1 hnil.1) hnil
    rw [ExtF.phi_mul M hnil.1 hnil.1]; simp [ExtF.φ]
  · have hA0 : toList a ≠ [] := fun h => ha0 (toList_eq_nil_iff.mp h)
    obtain ⟨_, hfrob, _⟩ := ExtF.finite_field_facts M
    have heven : ExtF.order 2 (toList m) % 2 = 0 := by rw [order_eq]; exact order_even h2
    obtain ⟨r', e, rr, hr⟩ := ExtF.sqrt_even_val M heven rA hA0 false
    rw [e] at hts
    obtain ⟨r, er, hrr⟩ := exists_of_map_toList hts
    refine ⟨r, er, (red_iff m r).mp (by rw [hrr]; exact rr), ?_⟩
    apply toList_injective
    rw [toList_mul' h0, hrr]
    apply ExtF.phi_inj M (ExtF.red_mul M rr.1 rr.1) rA
    rw [ExtF.phi_mul M rr.1 rr.1, hr]
    simp only [Bool.false_eq_true, ↓reduceIte]
    have h1 : ExtF.order 2 (toList m) >>> 1 + ExtF.order 2 (toList m) >>> 1 = ExtF.order 2 (toList m) := by
      rw [Nat.shiftRight_eq_div_pow]; omega
    rw [← pow_add, h1, hfrob]

/-- ★ binary fields: `sqrt(0, INV=True)` raises; for `a ≠ 0`, `sqrt(a, INV=True)` is the inverse of `sqrt(a)` and its
square is `1/a` -/
theorem bin_sqrt_inv (hm : isIrreducible m = true) {a : ℕ} (ha : BRed m a) :
    BinF.sqrt m 0 true = .error .zeroDivision ∧
    (a ≠ 0 → ∃ r r', BinF.sqrt m a false = .ok r ∧ BinF.sqrt m a true = .ok r' ∧ BRed m r' ∧
      BinF.mul m r' r = 1 ∧ BinF.mul m (BinF.mul m r' r') a = 1) := by
  refine ⟨rfl, fun ha0 => ?_⟩
  have M := BinF.isModulus_of_check hm
  have h0 := BinF.ne_zero_of_check hm
  have h2 := bitLen_ge_two_of_check hm
  have rA := (red_iff m a).mpr ha
  have hA0 : toList a ≠ [] := fun h => ha0 (toList_eq_nil_iff.mp h)
  obtain ⟨hfer, hfrob, _⟩ := ExtF.finite_field_facts M
  have hx : ExtF.φ 2 (toList m) (toList a) ≠ 0 := fun h => hA0 ((ExtF.phi_eq_zero_iff M rA).mp h)
  have heven : ExtF.order 2 (toList m) % 2 = 0 := by rw [order_eq]; exact order_even h2
  have hq2 : 2 ≤ ExtF.order 2 (toList m) := ExtF.order_ge M
  obtain ⟨s, e, rs, hs⟩ := ExtF.sqrt_even_val M heven rA hA0 false
  obtain ⟨s', e', rs', hs'⟩ := ExtF.sqrt_even_val M heven rA hA0 true
  simp only [Bool.false_eq_true, ↓reduceIte] at hs hs'
  obtain ⟨r, er, hr⟩ := exists_of_map_toList (x := BinF.sqrt m a false) (by rw [toList_sqrt h0 h2]; exact e)
  obtain ⟨r', er', hr'⟩ := exists_of_map_toList (x := BinF.sqrt m a true) (by rw [toList_sqrt h0 h2]; exact e')
  have hsum : ExtF.order 2 (toList m) >>> 1 - 1 + ExtF.order 2 (toList m) >>> 1 = ExtF.order 2 (toList m) - 1 := by
    rw [Nat.shiftRight_eq_div_pow]; omega
  have hprod : ExtF.φ 2 (toList m) s' * ExtF.φ 2 (toList m) s = 1 := by
    rw [hs, hs', ← pow_add, hsum]; exact hfer _ hx
  have hsq : ExtF.φ 2 (toList m) s * ExtF.φ 2 (toList m) s = ExtF.φ 2 (toList m) (toList a) := by
    have h1 : ExtF.order 2 (toList m) >>> 1 + ExtF.order 2 (toList m) >>> 1 = ExtF.order 2 (toList m) := by
      rw [Nat.shiftRight_eq_div_pow]; omega
    rw [hs, ← pow_add, h1, hfrob]
  refine ⟨r, r', er, er', (red_iff m r').mp (by rw [hr']; exact rs'), ?_, ?_⟩
  · apply toList_injective
    rw [toList_mul' h0, hr, hr', toList_one]
    apply ExtF.phi_inj M (ExtF.red_mul M rs'.1 rs.1) (ExtF.one_red M)
    rw [ExtF.phi_mul M rs'.1 rs.1, ExtF.phi_one]; exact hprod
  · apply toList_injective
    rw [toList_mul' h0, toList_mul' h0, hr', toList_one]
    have hrr := ExtF.red_mul M rs'.1 rs'.1
    apply ExtF.phi_inj M (ExtF.red_mul M hrr.1 rA.1) (ExtF.one_red M)
    rw [ExtF.phi_mul M hrr.1 rA.1, ExtF.phi_mul M rs'.1 rs'.1, ExtF.phi_one, ← hsq]
    calc ExtF.φ 2 (toList m) s' * ExtF.φ 2 (toList m) s' * (ExtF.φ 2 (toList m) s * ExtF.φ 2 (toList m) s)
        = (ExtF.φ 2 (toList m) s' * ExtF.φ 2 (toList m) s) ^ 2 := by ring
      _ = 1 := by rw [hprod]; simp

example : isIrreducible 283 = true ∧ BinF.sqrt 283 87 false = .ok 245 ∧ BinF.mul 283 245 245 = 87 ∧
    BinF.sqrt 283 87 true = .ok 70 ∧ BinF.mul 283 70 245 = 1 := by decide +kernel

end bin

end MpycV.C21
