/-
C21 — field square roots and quadratic-residue tests are correct.

Part 1: prime fields (model `MpycV.PrimeF` ≙ `PrimeFieldElement._sqrt/_is_sqr` + the gmpy stubs).
  proved for every prime: `is_sqr` (Legendre symbol via the `jacobi` stub = Mathlib's symbol), the p ≡ 3 (mod 4)
  branch incl. INV, p = 2, zero/INV raises.  The Cipolla–Lehmer branch (p ≡ 1 mod 4) is `_partial`:
  kernel-checked exhaustively for every prime p ≡ 1 (mod 4) below 200 and every element.
Part 2 (below): extension and binary fields.
-/
import MpycV.Lemmas.PrimeFSqrt
import MpycV.Lemmas.PrimeFSqrtTable

namespace MpycV.C21
open MpycV.PrimeF

variable {p : Nat} [hpf : Fact p.Prime]

local instance : NeZero p := ⟨hpf.out.ne_zero⟩

theorem isSquare_iff_model (a : Nat) (ha : a < p) :
    IsSquare (a : ZMod p) ↔ ∃ r, r < p ∧ mul p r (r : Int) = a := by
  constructor
  · rintro ⟨z, hz⟩
    refine ⟨z.val, ZMod.val_lt z, ?_⟩
    apply eq_of_cast (mul_lt _ _) ha
    rw [cast_mul]; simp [hz]
  · rintro ⟨r, _, hr⟩
    refine ⟨(r : ZMod p), ?_⟩
    rw [← hr, cast_mul]; simp

/-- ★ `is_sqr(a)` never raises and holds exactly for the squares (0 included), in every prime field -/
theorem is_sqr_iff (a : Nat) (ha : a < p) :
    ∃ b, isSqr p a = .ok b ∧ (b = true ↔ ∃ r, r < p ∧ mul p r (r : Int) = a) := by
  refine ⟨_, isSqr_eq p a, ?_⟩
  rw [decide_eq_true_iff, isSquare_iff_model a ha]

/-- ★ the Legendre-symbol stub is Mathlib's Legendre symbol; `is_sqr` is `legendre ≠ -1` (odd p) and agrees
with Euler's criterion `a^((p-1)/2) = 1` for nonzero `a` -/
theorem is_sqr_euler (hp2 : p ≠ 2) (a : Nat) (ha : a < p) (ha0 : a ≠ 0) :
    legendre (a : Int) p = .ok (legendreSym p a) ∧
    (isSqr p a = .ok true ↔ pow p a ((p / 2 : Nat) : Int) = .ok 1) := by
  refine ⟨legendre_eq p hp2 a, ?_⟩
  have hz : (a : ZMod p) ≠ 0 := by
    intro h; rw [ZMod.natCast_eq_zero_iff] at h
    exact ha0 (Nat.eq_zero_of_dvd_of_lt h ha)
  obtain ⟨r, h1, h2, h3⟩ := pow_nonneg (p := p) a (p / 2)
  rw [isSqr_eq, h1]
  simp only [Except.ok.injEq, decide_eq_true_iff]
  rw [ZMod.euler_criterion p hz, ← h3]
  constructor
  · intro h; apply eq_of_cast h2 hpf.out.one_lt; simpa using h
  · intro h; rw [h]; simp

example : isSqr 13 4 = .ok true ∧ isSqr 13 5 = .ok false ∧ legendre (-3) 13 = .ok 1 := by decide

/-- ★ `sqrt(0) = 0` and `sqrt(0, INV=True)` raises ZeroDivisionError, in every prime field -/
theorem sqrt_zero_inv_raises (q : Nat) :
    sqrt q 0 false = .ok 0 ∧ sqrt q 0 true = .error .zeroDivision := by
  refine ⟨?_, (sqrt_zero q).2⟩
  rw [(sqrt_zero q).1]; congr 1

/-- ★ p ≡ 3 (mod 4): for every square `a`, `sqrt(a)` is reduced and squares to `a` -/
theorem sqrt_blum (hp3 : p % 4 = 3) (a : Nat) (ha : a < p) (hs : isSqr p a = .ok true) :
    ∃ r, sqrt p a false = .ok r ∧ r < p ∧ mul p r (r : Int) = a := by
  by_cases ha0 : a = 0
  · subst ha0
    exact ⟨0, (sqrt_zero_inv_raises p).1, hpf.out.pos, by
      apply eq_of_cast (mul_lt _ _) ha; simp [cast_mul]⟩
  · have hz : (a : ZMod p) ≠ 0 := by
      intro h; rw [ZMod.natCast_eq_zero_iff] at h
      exact ha0 (Nat.eq_zero_of_dvd_of_lt h ha)
    have hsq : IsSquare (a : ZMod p) := by
      rw [isSqr_eq] at hs; simpa using hs
    refine ⟨_, sqrt_blum_val p a hp3 ha0 false, mk_lt hpf.out.pos _, ?_⟩
    apply eq_of_cast (mul_lt _ _) ha
    rw [cast_mul]
    simp only [Int.cast_natCast, mk_cast, powModNat_cast, Bool.false_eq_true, ↓reduceIte]
    rw [← pow_two]; exact blum_root_sq hp3 _ hz hsq

/-- ★ p ≡ 3 (mod 4): for every nonzero `a`, `sqrt(a, INV=True)` is the inverse of `sqrt(a)`; hence for nonzero
squares it is the inverse of a square root of `a` (and its square is `1/a`) -/
theorem sqrt_blum_inv (hp3 : p % 4 = 3) (a : Nat) (ha : a < p) (ha0 : a ≠ 0) :
    ∃ r r', sqrt p a false = .ok r ∧ sqrt p a true = .ok r' ∧ r' < p ∧ mul p r' (r : Int) = 1 ∧
      (isSqr p a = .ok true → mul p (mul p r' (r' : Int)) (a : Int) = 1) := by
  have hz : (a : ZMod p) ≠ 0 := by
    intro h; rw [ZMod.natCast_eq_zero_iff] at h
    exact ha0 (Nat.eq_zero_of_dvd_of_lt h ha)
  refine ⟨_, _, sqrt_blum_val p a hp3 ha0 false, sqrt_blum_val p a hp3 ha0 true, mk_lt hpf.out.pos _, ?_, ?_⟩
  · apply eq_of_cast (mul_lt _ _) hpf.out.one_lt
    rw [cast_mul]
    simp only [Int.cast_natCast, mk_cast, powModNat_cast, Bool.false_eq_true, ↓reduceIte, Nat.cast_one]
    exact blum_inv_root hp3 _ hz
  · intro hs
    have hsq : IsSquare (a : ZMod p) := by
      rw [isSqr_eq] at hs; simpa using hs
    apply eq_of_cast (mul_lt _ _) hpf.out.one_lt
    rw [cast_mul, cast_mul]
    simp only [Int.cast_natCast, mk_cast, powModNat_cast, ↓reduceIte, Nat.cast_one]
    have h1 := blum_inv_root hp3 _ hz
    have h2 := blum_root_sq hp3 _ hz hsq
    set x := (a : ZMod p) ^ ((p * 3 - 5) >>> 2)
    set y := (a : ZMod p) ^ ((p + 1) >>> 2)
    calc x * x * (a : ZMod p) = x * x * y ^ 2 := by rw [h2]
      _ = (x * y) ^ 2 := by ring
      _ = 1 := by rw [h1]; simp

example : sqrt 7 2 false = .ok 4 ∧ mul 7 4 4 = 2 ∧ sqrt 7 2 true = .ok 2 ∧ mul 7 2 4 = 1 ∧ isSqr 7 2 = .ok true := by
  decide

omit hpf in
/-- ★ p = 2: every element is its own square root, `is_sqr` is constantly true -/
theorem sqrt_two (a : Nat) (ha : a < 2) (inv : Bool) (h : a ≠ 0 ∨ inv = false) :
    sqrt 2 a inv = .ok a ∧ mul 2 a (a : Int) = a ∧ isSqr 2 a = .ok true := by
  have : a = 0 ∨ a = 1 := by omega
  rcases this with rfl | rfl
  · simp_all; decide
  · cases inv <;> decide

/-! ### Cipolla–Lehmer branch (p ≡ 1 mod 4): partial -/

/-- ☆ PARTIAL (finite table, kernel-checked): for every prime p ≡ 1 (mod 4) below 200 and EVERY element `a`:
if `a` is a square then `sqrt(a)` is reduced and squares to `a`, `sqrt(a, INV=True)` is its inverse, and
`sqrt(0, INV=True)` raises ZeroDivisionError.
`sqrtCheck` (Lemmas/PrimeFSqrtTable.lean) is the Boolean form of exactly these clauses, `primes1mod4` the list of
all 21 such primes.  Full statement (not proved for general p): `∀ p prime, p % 4 = 1 → ∀ a < p, sqrtCheck p a = true`; missing: the
loop invariant of the Lucas-sequence ladder in GF(p)[X]/(X²-bX+a) (`(u,v)` represents `X^k`), `X^(p+1) = a` by
Frobenius, and termination of the search for a non-residue discriminant within `p` steps. -/
theorem sqrt_cipolla_partial : ∀ q ∈ primes1mod4, ∀ a < q, sqrtCheck q a = true := sqrtCheck_table

example : sqrt 13 4 false = .ok 11 ∧ mul 13 11 11 = 4 ∧ sqrt 13 4 true = .ok 6 ∧ mul 13 6 11 = 1 := by decide +kernel

end MpycV.C21
