/-
C25 — number-theory helpers (mpyc/gmpy.py stubs) compute what their gmpy2 counterparts compute.
Model: MpycV.Model.NumTh (one-for-one transcription); lemmas: MpycV.Lemmas.NumTh*.
Every theorem is followed by an `example` instantiating its hypotheses (non-vacuity).
-/
import MpycV.Lemmas.NumThPrime2
import MpycV.Lemmas.NumThEuclid
import MpycV.Lemmas.NumThGcdextNorm
import MpycV.Lemmas.NumThJacobi
import MpycV.Lemmas.NumThRoots
import MpycV.Lemmas.NumThFpp
import MpycV.Lemmas.NumThFppComplete
import MpycV.Lemmas.NumThRatrec
import MpycV.Lemmas.NumThSrcBridge   -- not used here: imported so that set-up prebuilds the bridge of PropsGen/C25Src

namespace MpycV.C25
open MpycV.NumTh NumberTheorySymbols

/-! ## pow(a, e, m) -/

/-- the square-and-multiply model of CPython's `pow(a, e, m)` computes `a^e mod m` -/
theorem powMod_eq (a e m : Nat) : powMod a e m = a ^ e % m := NumTh.powMod_eq a e m

example : powMod 3 200 1000003 = 3 ^ 200 % 1000003 := powMod_eq _ _ _

/-! ## is_prime -/

/-- ★ no false negatives: a prime is accepted whatever Miller–Rabin bases are drawn (the code draws them from
[2, x-2], so none is a multiple of x). -/
theorem is_prime_no_false_negative (bases : List Nat) (x : Int) (hp : Nat.Prime x.toNat)
    (hb : ∀ a ∈ bases, ¬ x.toNat ∣ a) : isPrimeB bases x = true :=
  isPrimeB_of_prime bases x hp hb

example : isPrimeB [2, 3, 57, 99] 101 = true :=
  is_prime_no_false_negative _ 101 (by show Nat.Prime 101; norm_num) (by decide)

/-- ★ the trial-division stage (x ≤ 2, even x, x divisible by one of 3, …, 53) is exact, for every base list -/
theorem is_prime_trial_division_exact (bases : List Nat) (x : Int)
    (h : x ≤ 2 ∨ x % 2 = 0 ∨ ∃ p ∈ smallPrimes, x.toNat % p = 0) :
    isPrimeB bases x = true ↔ Nat.Prime x.toNat :=
  isPrimeB_trial_exact bases x h

example : isPrimeB [] 2491 = false := by     -- 2491 = 47 * 53
  have h := is_prime_trial_division_exact [] 2491 (Or.inr (Or.inr ⟨47, by decide, by decide⟩))
  have : ¬ Nat.Prime (2491 : Int).toNat := by show ¬ Nat.Prime 2491; norm_num
  exact Bool.eq_false_iff.mpr (fun hh => this (h.mp hh))

/-- PARTIAL (the deterministic part of "composite ⇒ False").  Exact characterisation of the answer for the bases
drawn: `is_prime` returns True iff x = 2, or x is odd > 2 and either is one of the 15 small primes, or has none of
them as a factor and is a strong probable prime to every base drawn.
Missing for the full statement "composite x ⇒ False": that is false for a fixed base list (strong
pseudoprimes exist); the code's guarantee is probabilistic (Rabin–Monier: at most 1/4 of the bases in [2, x-2] are
strong liars, error ≤ 4^-n for n independent bases) and is quoted, not proved. -/
theorem is_prime_partial (bases : List Nat) (x : Int) :
    isPrimeB bases x = true ↔
      x = 2 ∨ (2 < x ∧ x % 2 = 1 ∧
        ((∃ p ∈ smallPrimes, x = (p : Int)) ∨
         ((∀ p ∈ smallPrimes, x.toNat % p ≠ 0) ∧ ∀ a ∈ bases, SPRP x.toNat a))) :=
  isPrimeB_iff bases x

/-- a `False` answer is always right (bases not multiples of x) -/
theorem is_prime_false_sound (bases : List Nat) (x : Int) (hb : ∀ a ∈ bases, ¬ x.toNat ∣ a)
    (h : isPrimeB bases x = false) : ¬ Nat.Prime x.toNat := by
  intro hp
  rw [isPrimeB_of_prime bases x hp hb] at h
  exact Bool.noConfusion h

example : (2047 : Int) = 2 ∨ (2 < (2047 : Int) ∧ (2047 : Int) % 2 = 1) := Or.inr ⟨by decide, by decide⟩

/-! ## next_prime, prev_prime (relative to a correct primality oracle) -/

/-- ★ next_prime returns the least prime > x (Bertrand's postulate bounds the search: the fuel always suffices) -/
theorem next_prime_spec (isP : Int → Bool) (hP : CorrectOracle isP) (x : Int) :
    ∃ p : Int, nextPrime isP x = .ok p ∧ Nat.Prime p.toNat ∧ x < p ∧
      ∀ q : Int, Nat.Prime q.toNat → x < q → p ≤ q :=
  nextPrime_spec isP hP x

/-- ★ prev_prime raises ValueError for x < 3 and otherwise returns the greatest prime < x -/
theorem prev_prime_spec (isP : Int → Bool) (hP : CorrectOracle isP) (x : Int) :
    (x < 3 → prevPrime isP x = .error .valueError) ∧
    (3 ≤ x → ∃ p : Int, prevPrime isP x = .ok p ∧ Nat.Prime p.toNat ∧ p < x ∧
      ∀ q : Int, Nat.Prime q.toNat → q < x → q ≤ p) :=
  prevPrime_spec isP hP x

/-- a correct oracle exists (non-vacuity of `CorrectOracle`) -/
example : CorrectOracle (fun y => decide (Nat.Prime y.toNat)) := fun y => by simp

example : ∃ p : Int, nextPrime (fun y => decide (Nat.Prime y.toNat)) 100 = .ok p ∧ 100 < p :=
  let ⟨p, h1, _, h3, _⟩ := next_prime_spec _ (fun y => by simp) 100
  ⟨p, h1, h3⟩

/-! ## invert -/

/-- ★ invert: ZeroDivisionError iff m = 0 or gcd(x, m) ≠ 1 (|m| > 1); |m| = 1 ↦ 0; otherwise the unique
0 < y < |m| with x*y ≡ 1 (mod |m|) -/
theorem invert_spec (x m : Int) :
    (m = 0 → invert x m = .error .zeroDivisionError) ∧
    (m.natAbs = 1 → invert x m = .ok 0) ∧
    (1 < m.natAbs → Int.gcd x m ≠ 1 → invert x m = .error .zeroDivisionError) ∧
    (1 < m.natAbs → Int.gcd x m = 1 → ∃ y, invert x m = .ok y ∧ 0 < y ∧ y < (m.natAbs : Int) ∧
        x * y % (m.natAbs : Int) = 1) :=
  ⟨fun h => h ▸ invert_zero x, invert_unit x m, fun h => (invert_main x m h).1, fun h => (invert_main x m h).2⟩

example : ∃ y, invert 3 (-7) = .ok y ∧ 0 < y ∧ y < 7 ∧ 3 * y % 7 = 1 :=
  (invert_spec 3 (-7)).2.2.2 (by decide) (by decide)

/-! ## gcdext -/

/-- ★ gcdext never fails; g = gcd(a, b) ≥ 0 and g = a*s + b*t (all integers, including a = b = 0) -/
theorem gcdext_bezout (a b : Int) :
    ∃ g s t, gcdext a b = .ok (g, s, t) ∧ g = (Int.gcd a b : Int) ∧ g = a * s + b * t :=
  gcdext_bezout' a b

example : gcdext 0 0 = .ok (0, 0, 0) := by decide

/-- ★ (was ☆) gcdext obeys the GMP normalisation of the cofactors for ALL integers a, b (`GmpNormal`, the wording of
the GMP manual / the stub's docstring): if |a| = |b| then s = 0, t = sgn b; otherwise
s = sgn a if b = 0 or |b| = 2g, else 2g|s| < |b|;  t = sgn b if a = 0 or |a| = 2g, else 2g|t| < |a|.
These conditions determine (s, t) uniquely, so this is "returns what gmpy2.gcdext returns". -/
theorem gcdext_normalised (a b : Int) : ∃ g s t, gcdext a b = .ok (g, s, t) ∧ GmpNormal a b g s t :=
  gcdext_normal a b

example : gcdext (-6) 4 = .ok (2, -1, -1) ∧ GmpNormal (-6) 4 2 (-1) (-1) := by
  obtain ⟨g, s, t, h1, h2⟩ := gcdext_normalised (-6) 4
  have h3 : gcdext (-6) 4 = .ok (2, -1, -1) := by decide
  rw [h3] at h1
  simp only [Except.ok.injEq, Prod.mk.injEq] at h1
  obtain ⟨rfl, rfl, rfl⟩ := h1
  exact ⟨h3, h2⟩

/-! ## jacobi, legendre, kronecker -/

/-- ★ jacobi(x, y) is the Jacobi symbol for odd y > 0 and raises ValueError otherwise -/
theorem jacobi_eq (x y : Int) :
    (0 < y ∧ y % 2 = 1 → jacobi x y = .ok (J(x | y.toNat))) ∧
    (¬ (0 < y ∧ y % 2 = 1) → jacobi x y = .error .valueError) :=
  ⟨fun h => jacobi_ok x y h.1 h.2, jacobi_err x y⟩

example : jacobi 5 21 = .ok (J(5 | 21)) := (jacobi_eq 5 21).1 (by decide)

/-- ★ legendre(x, p) is the Legendre symbol for an odd prime p -/
theorem legendre_eq (x : Int) (p : Nat) [Fact p.Prime] (hp : p ≠ 2) :
    legendre x p = .ok (legendreSym p x) := by
  have hodd : p % 2 = 1 := (Nat.Prime.eq_two_or_odd (Fact.out : p.Prime)).resolve_left hp
  have hpos : 0 < p := (Fact.out : p.Prime).pos
  unfold legendre
  rw [jacobi_ok x p (by omega) (by omega), jacobiSym.legendreSym.to_jacobiSym]
  simp

example : Fact (Nat.Prime 7) := ⟨by norm_num⟩
example [Fact (Nat.Prime 7)] : legendre 3 7 = .ok (legendreSym 7 3) := legendre_eq 3 7 (by decide)

/-- ★ kronecker never fails and equals the Kronecker symbol defined by the extension rules
(`kroneckerSym`: (x|0) = [|x| = 1], (x|-1) = -1 iff x < 0, (x|2) = 0 / ±1 by x mod 8, multiplicative in y) -/
theorem kronecker_eq (x y : Int) : kronecker x y = .ok (kroneckerSym x y) := kronecker_ok x y

example : kronecker 3 (-8) = .ok (kroneckerSym 3 (-8)) := kronecker_eq _ _

/-! ## isqrt, is_square, iroot -/

/-- ★ isqrt: ValueError for x < 0, else y ≥ 0 with y² ≤ x < (y+1)² -/
theorem isqrt_spec (x : Int) :
    (x < 0 → isqrt x = .error .valueError) ∧
    (0 ≤ x → ∃ y : Nat, isqrt x = .ok (y : Int) ∧ (y : Int) ^ 2 ≤ x ∧ x < ((y : Int) + 1) ^ 2) :=
  isqrt_spec' x

example : ∃ y : Nat, isqrt 99 = .ok (y : Int) ∧ (y : Int) ^ 2 ≤ 99 ∧ (99 : Int) < ((y : Int) + 1) ^ 2 :=
  (isqrt_spec 99).2 (by decide)

/-- ★ is_square never fails and answers "x is a perfect square" (negative x: False; mod-16 filter sound) -/
theorem is_square_spec (x : Int) : ∃ b, isSquare x = .ok b ∧ (b = true ↔ ∃ r : Int, r * r = x) :=
  isSquare_spec' x

example : ∃ r : Int, r * r = 144 := ⟨12, by decide⟩

/-- ★ iroot: ValueError for x < 0 or n ≤ 0; else (y, b) with y^n ≤ x < (y+1)^n and b = [y^n = x] -/
theorem iroot_spec (x n : Int) :
    ((x < 0 ∨ n ≤ 0) → iroot x n = .error .valueError) ∧
    (0 ≤ x → 0 < n → ∃ y : Nat, iroot x n = .ok ((y : Int), x == (y : Int) ^ n.toNat) ∧
        (y : Int) ^ n.toNat ≤ x ∧ x < ((y : Int) + 1) ^ n.toNat) :=
  iroot_spec' x n

example : ∃ y : Nat, iroot 1000 3 = .ok ((y : Int), (1000 : Int) == (y : Int) ^ 3) ∧
    (y : Int) ^ 3 ≤ 1000 ∧ (1000 : Int) < ((y : Int) + 1) ^ 3 :=
  (iroot_spec 1000 3).2 (by decide) (by decide)

/-! ## factor_prime_power -/

/-- ★ soundness: a returned (p, d) has p prime and p^d = x — needing only that the primality test has no false
positives on the value it is finally asked about; x ≤ 1 raises ValueError.
Completeness: `factor_prime_power_complete` below (needs a correct oracle). -/
theorem factor_prime_power_sound (isP : Int → Bool) (hS : ∀ q, isP q = true → Nat.Prime q.toNat) (x : Int) :
    (x ≤ 1 → factorPrimePower isP x = .error .valueError) ∧
    (∀ p d, factorPrimePower isP x = .ok (p, d) → Nat.Prime p.toNat ∧ p ^ d = x) :=
  ⟨factorPrimePower_small isP x, fun p d h => factorPrimePower_sound isP hS x p d h⟩

example : ∀ q : Int, (fun y : Int => decide (Nat.Prime y.toNat)) q = true → Nat.Prime q.toNat :=
  fun q h => by simpa using h

/-- ★ (was ☆) completeness: with a correct primality oracle every prime power q^e (e ≥ 1) is recognised, for primes
below and above 2^10 alike (all fuels of the model suffice) -/
theorem factor_prime_power_complete (isP : Int → Bool) (hP : CorrectOracle isP) (q e : Nat) (hq : q.Prime)
    (he : 0 < e) : factorPrimePower isP ((q : Int) ^ e) = .ok ((q : Int), e) :=
  factorPrimePower_complete isP hP q e hq he

/-- with a correct oracle: (p, d) is returned iff x = p^d with p prime and d ≥ 1; in particular a number that is
not a prime power is never accepted -/
theorem factor_prime_power_iff (isP : Int → Bool) (hP : CorrectOracle isP) (x p : Int) (d : Nat) :
    factorPrimePower isP x = .ok (p, d) ↔ (Nat.Prime p.toNat ∧ 0 < d ∧ p ^ d = x) := by
  constructor
  · intro h
    obtain ⟨h1, h2⟩ := factorPrimePower_sound isP (fun q hq => (hP q).mp hq) x p d h
    refine ⟨h1, ?_, h2⟩
    rcases Nat.eq_zero_or_pos d with h0 | h0
    · subst h0
      have hx : x ≤ 1 := by rw [← h2]; simp
      rw [factorPrimePower_small isP x hx] at h
      exact absurd h (by simp)
    · exact h0
  · rintro ⟨h1, h2, rfl⟩
    have hp0 : 0 ≤ p := by
      by_contra hneg
      have : p.toNat = 0 := by omega
      rw [this] at h1; exact Nat.not_prime_zero h1
    obtain ⟨pn, rfl⟩ : ∃ pn : Nat, p = (pn : Int) := ⟨p.toNat, (Int.toNat_of_nonneg hp0).symm⟩
    exact factorPrimePower_complete isP hP pn d (by simpa using h1) h2

example : factorPrimePower (fun y => decide (Nat.Prime y.toNat)) ((1031 : Nat) ^ 6 : Int) = .ok (((1031 : Nat) : Int), 6) :=
  factor_prime_power_complete _ (fun y => by simp) 1031 6 (by norm_num) (by decide)

/-! ## ratrec -/

/-- ★ soundness of Wang's rational reconstruction with bounds N, D (after the defaults of `ratrecBounds`):
invalid bounds raise ValueError; a returned (n, d) satisfies n ≡ x d (mod y), |n| ≤ N, 0 < d ≤ D, gcd(n, d) = 1.
(Completeness — an existing reconstruction is found — is validated by the oracle only.) -/
theorem ratrec_sound (x y N D : Int) :
    ((N < 0 ∨ D ≤ 0 ∨ 2 * N * D ≥ y) → ratrecCore x y N D = .error .valueError) ∧
    (∀ n d, ratrecCore x y N D = .ok (n, d) →
      0 ≤ N ∧ 0 < D ∧ 2 * N * D < y ∧
      y ∣ n - x * d ∧ -N ≤ n ∧ n ≤ N ∧ 0 < d ∧ d ≤ D ∧ Int.gcd n d = 1) :=
  ⟨ratrecCore_invalid x y N D, fun n d h => ratrecCore_sound x y N D n d h⟩

example : ratrecCore 5 7 3 1 = .ok (-2, 1) := by decide

/-- the loop of `ratrec` always terminates within the fuel of the model (no `fuel-exhausted` answer exists) -/
theorem ratrec_terminates (x y N D : Int) : ratrecCore x y N D ≠ .error .fuel := ratrecCore_no_fuel x y N D

example : ratrecCore 5 7 1 1 = .error .valueError := by decide

end MpycV.C25
