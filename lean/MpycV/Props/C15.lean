/-
C15 — pseudorandom secret sharing is consistent for every key assignment.

Model: `fSi`, `prssShare`, `prssZero` (Model/Thresha.lean ≙ thresha.py:135-199).  `all` lists every subset
`S` together with the outputs `r_S` of its PRF (arbitrary values: the statements hold for EVERY family of
PRF outputs, i.e. for every key assignment); party `i` computes with `prfsOf i all`, the entries of the
subsets it belongs to (the keys it holds, C16).  The m parties compute independently; the theorems say
that their results lie on one polynomial.
-/
import MpycV.Lemmas.ThreshaModP

namespace MpycV.C15

open MpycV.Thresha Polynomial

variable {F : Type} [Field F]

instance : Fact (Nat.Prime 7) := ⟨by decide⟩

lemma injOn7 : Set.InjOn (Nat.cast : ℕ → ZMod 7) (Set.Iic 3) := by
  intro a ha b hb h
  simp only [Set.mem_Iic] at ha hb
  interval_cases a <;> interval_cases b <;> first | rfl | (exfalso; revert h; decide)

/-- ★ `fS_spec`: `_f_S_i` is the value at party `i`'s point of the polynomial `fSpoly`, which has degree at
most the number of parties outside `S`, is 1 at 0 and 0 at every party outside `S`, and is the only such
polynomial. -/
theorem fS_spec (emb : ℕ → F) {m : ℕ} (hemb : Set.InjOn emb (Set.Iic m)) (S : List ℕ) :
    (∀ i, fSi (fieldOps F emb) m i S = (fSpoly emb m S).eval (emb (i + 1)))
      ∧ (fSpoly emb m S).natDegree ≤ (outside m S).length
      ∧ (fSpoly emb m S).eval (emb 0) = 1
      ∧ (∀ x, x < m → x ∉ S → (fSpoly emb m S).eval (emb (x + 1)) = 0)
      ∧ (∀ g : F[X], g.natDegree ≤ (outside m S).length → g.eval (emb 0) = 1 →
          (∀ x, x < m → x ∉ S → g.eval (emb (x + 1)) = 0) → g = fSpoly emb m S) :=
  ⟨fun i => fSi_eq_eval hemb i S, natDegree_fSpoly_le hemb S, fSpoly_eval_zero hemb S,
   fun _ hx hxS => fSpoly_eval_outside hemb S hx hxS, fun g h1 h2 h3 => fSpoly_unique hemb S g h1 h2 h3⟩

example : fSi (fieldOps (ZMod 7) Nat.cast) 3 2 [0, 2]
    = (fSpoly (Nat.cast : ℕ → ZMod 7) 3 [0, 2]).eval ((2 + 1 : ℕ) : ZMod 7) :=
  (fS_spec _ injOn7 [0, 2]).1 2

/-- a subset of `m - t` distinct parties leaves exactly `t` parties outside -/
theorem outside_count {m t : ℕ} (htm : t ≤ m) {S : List ℕ} (hnd : S.Nodup) (hS : ∀ x ∈ S, x < m)
    (hlen : S.length = m - t) : (outside m S).length = t := by
  rw [length_outside hnd hS, hlen]; omega

example : (outside 3 [0, 2]).length = 1 :=
  outside_count (by decide) (by decide) (by decide) (by decide)

/-- well-formed key assignment: every subset consists of `m - t` distinct parties -/
def WellFormed (m t : ℕ) (all : List (List ℕ × List F)) : Prop :=
  ∀ Sp ∈ all, Sp.1.Nodup ∧ (∀ x ∈ Sp.1, x < m) ∧ Sp.1.length = m - t

lemma getD_map_range {α : Type} (g : ℕ → α) (d : α) {n h : ℕ} (hh : h < n) :
    ((List.range n).map g).getD h d = g h := by
  rw [getD_lt _ _ (by simpa using hh)]; simp

/-- ★ `prss_consistent`: for every family of PRF outputs and every batch entry `h < n`, the shares computed
independently by the `m` parties lie on one polynomial of degree ≤ t whose value at 0 is `Σ_S r_S[h]`. -/
theorem prss_consistent (emb : ℕ → F) (h0 : emb 0 = 0) {m : ℕ} (hemb : Set.InjOn emb (Set.Iic m))
    {t : ℕ} (htm : t ≤ m) (all : List (List ℕ × List F)) (hall : WellFormed m t all) (n : ℕ) :
    ∀ h < n, ∃ f : F[X], f.natDegree ≤ t ∧ f.eval 0 = (all.map fun Sp => Sp.2.getD h 0).sum ∧
      ∀ i < m, (prssShare (fieldOps F emb) m i (prfsOf i all) n).getD h 0 = f.eval (emb (i + 1)) := by
  intro h hh
  refine ⟨prssPoly emb m all h, ?_, ?_, ?_⟩
  · apply natDegree_prssPoly_le hemb all t
    intro Sp hSp
    obtain ⟨h1, h2, h3⟩ := hall Sp hSp
    exact (outside_count htm h1 h2 h3).le
  · have := prssPoly_eval_zero hemb all h
    rwa [h0] at this
  · intro i hi
    rw [prssShare_eq_eval hemb all n hi, getD_map_range _ _ hh]

example : ∀ h < 2, ∃ f : (ZMod 7)[X], f.natDegree ≤ 1 ∧
    f.eval 0 = (([([0, 1], [3, 4]), ([0, 2], [1, 1]), ([1, 2], [6, 0])] :
      List (List ℕ × List (ZMod 7))).map fun Sp => Sp.2.getD h 0).sum ∧
    ∀ i < 3, (prssShare (fieldOps (ZMod 7) Nat.cast) 3 i
      (prfsOf i [([0, 1], [3, 4]), ([0, 2], [1, 1]), ([1, 2], [6, 0])]) 2).getD h 0
        = f.eval ((i + 1 : ℕ) : ZMod 7) :=
  prss_consistent _ (by simp) injOn7 (t := 1) (by decide) _ (by
    intro Sp hSp
    simp only [List.mem_cons, List.not_mem_nil, or_false] at hSp
    rcases hSp with rfl | rfl | rfl <;> decide) 2

/-- ★ `prss_zero_consistent`: the zero-shares lie on one polynomial of degree ≤ 2t with value 0 at 0 -/
theorem prss_zero_consistent (emb : ℕ → F) {m : ℕ}
    (hemb : Set.InjOn emb (Set.Iic m)) {t : ℕ} (htm : t ≤ m) (all : List (List ℕ × List F))
    (hall : WellFormed m t all) (n : ℕ) :
    ∀ h < n, ∃ f : F[X], f.natDegree ≤ 2 * t ∧ f.eval 0 = 0 ∧
      ∀ i < m, (prssZero (fieldOps F emb) m i (prfsOf i all) n).getD h 0 = f.eval (emb (i + 1)) := by
  intro h hh
  refine ⟨prssZeroPoly emb m all h, ?_, prssZeroPoly_eval_zero emb m all h, ?_⟩
  · apply natDegree_prssZeroPoly_le hemb all t
    intro Sp hSp
    obtain ⟨h1, h2, h3⟩ := hall Sp hSp
    exact ⟨(outside_count htm h1 h2 h3).le, by omega⟩
  · intro i hi
    rw [prssZero_eq_eval hemb all n hi, getD_map_range _ _ hh]

example : ∀ h < 1, ∃ f : (ZMod 7)[X], f.natDegree ≤ 2 * 1 ∧ f.eval 0 = 0 ∧
    ∀ i < 3, (prssZero (fieldOps (ZMod 7) Nat.cast) 3 i
      (prfsOf i [([0, 1], [3]), ([0, 2], [1]), ([1, 2], [6])]) 1).getD h 0
        = f.eval ((i + 1 : ℕ) : ZMod 7) :=
  prss_zero_consistent _ injOn7 (t := 1) (by decide) _ (by
    intro Sp hSp
    simp only [List.mem_cons, List.not_mem_nil, or_false] at hSp
    rcases hSp with rfl | rfl | rfl <;> decide) 1

omit [Field F] in
/-- batch size: both functions return exactly `n` shares -/
theorem prss_length (o : FieldOps F) (m i : ℕ) (prfs : List (List ℕ × List F)) (n : ℕ) :
    (prssShare o m i prfs n).length = n ∧ (prssZero o m i prfs n).length = n := by
  simp [prssShare, prssZero]

/-- ★ `prss_consistent` for the executable model `modP p` run by the correspondence (`m < p` prime):
the canonical representatives computed by the parties are the values of one polynomial over `ZMod p`. -/
theorem prss_consistent_modP (p : ℕ) [Fact p.Prime] {m : ℕ} (hm : m < p) {t : ℕ} (htm : t ≤ m)
    (all : List (List ℕ × List ℕ)) (hall : WellFormed m t all) (n : ℕ) :
    ∀ h < n, ∃ f : (ZMod p)[X], f.natDegree ≤ t ∧
      f.eval 0 = (all.map fun Sp => ((Sp.2.getD h 0 : ℕ) : ZMod p)).sum ∧
      ∀ i < m, (((prssShare (modP p) m i (prfsOf i all) n).getD h 0 : ℕ) : ZMod p)
        = f.eval ((i + 1 : ℕ) : ZMod p) := by
  intro h hh
  have hall' : WellFormed m t (mapPrfs (Nat.cast : ℕ → ZMod p) all) := by
    intro Sp hSp
    obtain ⟨Sp0, hSp0, rfl⟩ := List.mem_map.1 hSp
    exact hall Sp0 hSp0
  obtain ⟨f, hf1, hf2, hf3⟩ := prss_consistent (embP p) (embP_zero p) (embP_injOn p hm) htm
    (mapPrfs Nat.cast all) hall' n h hh
  refine ⟨f, hf1, ?_, ?_⟩
  · rw [hf2]
    simp only [mapPrfs, List.map_map]
    congr 1
    apply List.map_congr_left
    intro Sp _
    simp only [Function.comp, List.getD_eq_getElem?_getD, List.getElem?_map]
    cases Sp.2[h]? <;> simp
  · intro i hi
    have := prssShare_modP p hm all n hi
    have e := congrArg (fun l => l.getD h 0) this
    rw [getD_map_range _ _ hh] at e
    have e2 : (List.map (Nat.cast : ℕ → ZMod p) (prssShare (modP p) m i (prfsOf i all) n)).getD h 0
        = (((prssShare (modP p) m i (prfsOf i all) n).getD h 0 : ℕ) : ZMod p) := by
      simp only [List.getD_eq_getElem?_getD, List.getElem?_map]
      cases (prssShare (modP p) m i (prfsOf i all) n)[h]? <;> simp
    have e3 : embP p (i + 1) = ((i + 1 : ℕ) : ZMod p) := by simp [embP, ZMod.natCast_mod]
    rw [← e2, e, ← e3, ← hf3 i hi, prssShare_eq_eval (embP_injOn p hm) _ n hi, getD_map_range _ _ hh]

example : ∀ h < 2, ∃ f : (ZMod 7)[X], f.natDegree ≤ 1 ∧
    f.eval 0 = (([([0, 1], [3, 4]), ([0, 2], [1, 1]), ([1, 2], [6, 0])] :
      List (List ℕ × List ℕ)).map fun Sp => ((Sp.2.getD h 0 : ℕ) : ZMod 7)).sum ∧
    ∀ i < 3, (((prssShare (modP 7) 3 i
      (prfsOf i [([0, 1], [3, 4]), ([0, 2], [1, 1]), ([1, 2], [6, 0])]) 2).getD h 0 : ℕ) : ZMod 7)
        = f.eval ((i + 1 : ℕ) : ZMod 7) :=
  prss_consistent_modP 7 (m := 3) (by decide) (t := 1) (by decide) _ (by
    intro Sp hSp
    simp only [List.mem_cons, List.not_mem_nil, or_false] at hSp
    rcases hSp with rfl | rfl | rfl <;> decide) 2

/-- ★ `prss_zero_consistent` for the executable model `modP p` -/
theorem prss_zero_consistent_modP (p : ℕ) [Fact p.Prime] {m : ℕ} (hm : m < p) {t : ℕ} (htm : t ≤ m)
    (all : List (List ℕ × List ℕ)) (hall : WellFormed m t all) (n : ℕ) :
    ∀ h < n, ∃ f : (ZMod p)[X], f.natDegree ≤ 2 * t ∧ f.eval 0 = 0 ∧
      ∀ i < m, (((prssZero (modP p) m i (prfsOf i all) n).getD h 0 : ℕ) : ZMod p)
        = f.eval ((i + 1 : ℕ) : ZMod p) := by
  intro h hh
  have hall' : WellFormed m t (mapPrfs (Nat.cast : ℕ → ZMod p) all) := by
    intro Sp hSp
    obtain ⟨Sp0, hSp0, rfl⟩ := List.mem_map.1 hSp
    exact hall Sp0 hSp0
  obtain ⟨f, hf1, hf2, hf3⟩ := prss_zero_consistent (embP p) (embP_injOn p hm) htm
    (mapPrfs Nat.cast all) hall' n h hh
  refine ⟨f, hf1, hf2, ?_⟩
  intro i hi
  have := prssZero_modP p hm all n hi
  have e := congrArg (fun l => l.getD h 0) this
  rw [getD_map_range _ _ hh] at e
  have e2 : (List.map (Nat.cast : ℕ → ZMod p) (prssZero (modP p) m i (prfsOf i all) n)).getD h 0
      = (((prssZero (modP p) m i (prfsOf i all) n).getD h 0 : ℕ) : ZMod p) := by
    simp only [List.getD_eq_getElem?_getD, List.getElem?_map]
    cases (prssZero (modP p) m i (prfsOf i all) n)[h]? <;> simp
  have e3 : embP p (i + 1) = ((i + 1 : ℕ) : ZMod p) := by simp [embP, ZMod.natCast_mod]
  rw [← e2, e, ← e3, ← hf3 i hi, prssZero_eq_eval (embP_injOn p hm) _ n hi, getD_map_range _ _ hh]

example : ∀ h < 1, ∃ f : (ZMod 7)[X], f.natDegree ≤ 2 * 1 ∧ f.eval 0 = 0 ∧
    ∀ i < 3, (((prssZero (modP 7) 3 i
      (prfsOf i [([0, 1], [3]), ([0, 2], [1]), ([1, 2], [6])]) 1).getD h 0 : ℕ) : ZMod 7)
        = f.eval ((i + 1 : ℕ) : ZMod 7) :=
  prss_zero_consistent_modP 7 (m := 3) (by decide) (t := 1) (by decide) _ (by
    intro Sp hSp
    simp only [List.mem_cons, List.not_mem_nil, or_false] at hSp
    rcases hSp with rfl | rfl | rfl <;> decide) 1

end MpycV.C15
