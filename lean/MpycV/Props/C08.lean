/-
C08 — results and termination do not depend on the schedule: the program-counter part.
Model: MpycV.Model.Pc (transcribes _ProgramCounterWrapper, _send_message/_receive_message labelling,
_prss_uci).  A schedule of one party is a list of atomic steps (which task runs, what it does);
different schedules interleave the steps of different tasks differently.
-/
import MpycV.Lemmas.Pc
import MpycV.Lemmas.PcRun

namespace MpycV.C08
open MpycV.Pc

/-- **frame rule**: a step of a pc-carrying coroutine leaves the ambient program counter untouched
(≙ the try/else/finally of `_ProgramCounterWrapper.__await__`), whatever it forks, sends or receives -/
theorem wrapped_frame (hop : Hop) (s : Party) (τ : Path) (acts : List Act) :
    (s.step hop { task := τ, wrapped := true, acts := acts }).ambient = s.ambient :=
  step_wrapped_ambient hop s τ acts

/-- **operational = denotational**: in every well-formed run, the events (fork pcs, PRSS inputs,
send and receive labels) of every task are the ones obtained by running the task's own action
sequence from the pc its parent's fork gave it — `den` mentions no schedule at all. -/
theorem run_eq_den (hop : Hop) (r : List Step) (h : WFRun hop Party.init r) (τ : Path) :
    (Party.run hop Party.init r).events τ = den hop (fun σ => proj σ r) τ :=
  MpycV.Pc.run_eq_den hop r h τ

/-- **labels are schedule independent**: two well-formed runs (of the same party under two
schedules, or of two parties) in which every task performs the same actions in the same order —
however the steps of different tasks are interleaved, however they are cut into steps — assign
identical labels to every fork, PRSS call, send and receive of every task. -/
theorem labels_schedule_independent (hop : Hop) (r1 r2 : List Step)
    (h1 : WFRun hop Party.init r1) (h2 : WFRun hop Party.init r2)
    (hp : ∀ τ, proj τ r1 = proj τ r2) (τ : Path) :
    (Party.run hop Party.init r1).events τ = (Party.run hop Party.init r2).events τ := by
  rw [run_eq_den hop r1 h1, run_eq_den hop r2 h2]
  exact den_congr hop _ _ hp τ

/-- **the well-formedness condition is necessary** (the shape of defect F1, fixed in /repo by commit
75ec176): a coroutine body without own pc (task [7]) that forks, interleaved in two orders with a
fork of the main program: same per-task actions, different labels. -/
theorem nonWF_counterexample :
    let a : Step := { task := [7], wrapped := false, acts := [Act.fork] }
    let b : Step := { task := [], wrapped := false, acts := [Act.fork] }
    (∀ τ, proj τ [a, b] = proj τ [b, a]) ∧
    (Party.run hopCPython Party.init [a, b]).events [7] ≠ (Party.run hopCPython Party.init [b, a]).events [7] ∧
    ¬ WFRun hopCPython Party.init [a, b] := by
  refine ⟨?_, by decide +kernel, by decide +kernel⟩
  intro τ
  simp only [proj]
  by_cases h1 : ([7] : Path) = τ <;> by_cases h2 : ([] : Path) = τ <;> simp [h1, h2]
  all_goals (subst h1; simp at h2)

/-- within one task the counter is monotone and every fork or PRSS call strictly increases it, so
the hop inputs of a task's successive forks are pairwise distinct: with an injective hop, siblings
never share a program counter -/
theorem siblings_distinct (hop : Hop) (hinj : ∀ a b d, hop a d = hop b d → a = b)
    (pc : PC) (pre mid : List Act) :
    let s1 := (taskRun hop pc pre).1
    let c1 := (runAct hop s1 Act.fork).2
    let s2 := (taskRun hop (runAct hop s1 Act.fork).1 mid).1
    let c2 := (runAct hop s2 Act.fork).2
    c1 ≠ c2 := by
  intro s1 c1 s2 c2 h
  have hm := taskRun_ctr_mono hop (runAct hop s1 Act.fork).1 mid
  simp only [c1, c2, runAct, Ev.forked.injEq, PC.mk.injEq] at h
  have hd : s2.depth = s1.depth := by simpa [s2, runAct] using hm.2
  rw [hd] at h
  have := hinj _ _ _ h.1
  have hc : s1.ctr + 1 ≤ s2.ctr := by simpa [s2, runAct] using hm.1
  omega

/-! ### non-vacuity -/
/-- a well-formed run with a nested fork, two schedules of the same per-task actions -/
example :
    let m1 : Step := { task := [], wrapped := false, acts := [Act.fork, Act.fork] }
    let a1 : Step := { task := [0], wrapped := true, acts := [Act.send 1, Act.fork] }
    let b1 : Step := { task := [1], wrapped := true, acts := [Act.uci, Act.recv 2] }
    let c1 : Step := { task := [0, 0], wrapped := true, acts := [Act.send 2] }
    WFRun hopCPython Party.init [m1, a1, b1, c1] ∧ WFRun hopCPython Party.init [m1, b1, a1, c1] ∧
    (Party.run hopCPython Party.init [m1, a1, b1, c1]).events [0, 0] =
      [Ev.sent 2 (hopCPython (hopCPython 1 0 + 1) 1)] := by
  refine ⟨by decide +kernel, by decide +kernel, by decide +kernel⟩

end MpycV.C08
