/-
C12 — Shamir split and recombine are inverse for all fields and thresholds.

Model: `MpycV.Thresha.randomSplit / recombVec / recombine` (Model/Thresha.lean ≙ thresha.py:23-116).
The theorems are stated (a) over an arbitrary Mathlib field `F` with an arbitrary embedding `emb` of the
party numbers that is injective on `0..m` (prime fields: `m < p`; extension fields: `m < p^d` with the
base-`p` digit embedding), and (b) literally for the executable model `modP p` the correspondence check runs.
-/
import MpycV.Lemmas.ThreshaModP

namespace MpycV.C12

open MpycV.Thresha Polynomial Finset

variable {F : Type} [Field F]

instance : Fact (Nat.Prime 7) := ⟨by decide⟩

/-- concrete data for the non-vacuity examples: GF(7), m = 3 parties -/
lemma injOn7 : Set.InjOn (Nat.cast : ℕ → ZMod 7) (Set.Iic 3) := by
  intro a ha b hb h
  simp only [Set.mem_Iic] at ha hb
  interval_cases a <;> interval_cases b <;> first | rfl | (exfalso; revert h; decide)

/-- ★ the vector computed by `_recombination_vector` consists of the Lagrange basis values at `x_r` -/
theorem recombVec_eq_lagrange (emb : ℕ → F) (xs : List F) (xr : F) :
    recombVec (fieldOps F emb) xs xr
      = (List.range xs.length).map fun i =>
          (Lagrange.basis (range xs.length) (node xs) i).eval xr :=
  Thresha.recombVec_eq_lagrange emb xs xr

example : recombVec (fieldOps (ZMod 7) Nat.cast) [1, 3] 0
    = (List.range 2).map fun i => (Lagrange.basis (range 2) (node [(1 : ZMod 7), 3]) i).eval 0 :=
  recombVec_eq_lagrange _ _ _

/-- the code divides by the denominator product; it is non-zero (no ZeroDivisionError) for distinct nodes -/
theorem recombVecE_ok [DecidableEq F] (emb : ℕ → F) {xs : List F} (hnd : xs.Nodup) (xr : F) :
    recombVecE (fieldOps F emb) xs xr = .ok (recombVec (fieldOps F emb) xs xr) := by
  unfold recombVecE
  rw [if_neg]
  simp only [List.any_eq_true, decide_eq_true_eq, not_exists, not_and]
  intro xi hxi
  rw [recombND_eq]
  simp only [fieldOps_zero]
  rw [Finset.prod_eq_zero_iff]
  rintro ⟨j, hj, hj0⟩
  obtain ⟨hji, hjn⟩ := Finset.mem_erase.1 hj
  have hjn' : j < xs.length := by simpa using hjn
  have hmem := List.mem_zipIdx hxi
  obtain ⟨h1, h2, h3⟩ := hmem
  simp only [zero_add, Nat.zero_le] at h1 h2 h3
  have : xs[xi.2 - 0]'(by simpa using h2) = xs[j] := by
    rw [← h3, ← getD_lt xs 0 hjn']; exact sub_eq_zero.1 hj0
  have := (List.Nodup.getElem_inj_iff hnd).1 this
  omega

/-- duplicate nodes: the code raises ZeroDivisionError, and so does the model -/
theorem recombVecE_dup [DecidableEq F] (emb : ℕ → F) {xs : List F} (hnd : ¬ xs.Nodup) (xr : F) :
    recombVecE (fieldOps F emb) xs xr = .error "ZeroDivisionError" := by
  unfold recombVecE
  rw [if_pos]
  simp only [List.any_eq_true, decide_eq_true_eq]
  rw [List.nodup_iff_injective_getElem] at hnd
  simp only [Function.Injective, not_forall] at hnd
  obtain ⟨a, b, hab, hne⟩ := hnd
  refine ⟨(xs[a], a.1), ?_, ?_⟩
  · rw [List.mem_zipIdx_iff_getElem?]; simp
  · rw [recombND_eq]
    simp only [fieldOps_zero]
    rw [Finset.prod_eq_zero_iff]
    refine ⟨b.1, Finset.mem_erase.2 ⟨fun h => hne (Fin.ext h.symm), by simp⟩, ?_⟩
    rw [getD_lt xs 0 b.2]
    exact sub_eq_zero.2 hab

example : recombVecE (fieldOps (ZMod 7) Nat.cast) [1, 3] 0
    = .ok (recombVec (fieldOps (ZMod 7) Nat.cast) [1, 3] 0) := recombVecE_ok _ (by decide) _
example : recombVecE (fieldOps (ZMod 7) Nat.cast) [1, 1] 0 = .error "ZeroDivisionError" :=
  recombVecE_dup _ (by decide) _

/-- ★ general recombination: if column `h` of the shares holds the values at the (distinct) nodes of a
polynomial `f h` of degree `< #nodes`, `recombine` returns `f h` evaluated at every `x_r` -/
theorem recombine_eval (emb : ℕ → F) {xs : List F} {shares : List (List F)} (xrs : List F)
    (f : ℕ → F[X]) (hnd : xs.Nodup) (hlen : shares.length = xs.length)
    (hf : ∀ h < (shares.headD []).length, (f h).degree < xs.length ∧
        ∀ i < xs.length, (shares.getD i []).getD h 0 = (f h).eval (xs.getD i 0)) :
    recombine (fieldOps F emb) xs shares xrs
      = xrs.map fun xr => (List.range (shares.headD []).length).map fun h => (f h).eval xr :=
  recombine_eq_eval emb xrs f hnd hlen hf

omit [Field F] in
/-- shape of the share matrix: `m` rows with one entry per secret -/
theorem randomSplit_shape (o : FieldOps F) (s coeffs : List F) (t m : ℕ) :
    (randomSplit o s coeffs t m).length = m ∧
      ∀ row ∈ randomSplit o s coeffs t m, row.length = s.length := by
  refine ⟨length_randomSplit o s coeffs t m, ?_⟩
  intro row hrow
  unfold randomSplit at hrow
  obtain ⟨i, _, rfl⟩ := List.mem_map.1 hrow
  simp

/-- every share is the value of the secret's sharing polynomial (degree ≤ t, constant term = secret) -/
theorem randomSplit_poly (emb : ℕ → F) (s coeffs : List F) (t m : ℕ) {i h : ℕ} (hi : i < m)
    (hh : h < s.length) :
    ((randomSplit (fieldOps F emb) s coeffs t m).getD i []).getD h 0
        = (sharePoly (s.getD h 0) (coeffsFor coeffs t h)).eval (emb (i + 1))
      ∧ (sharePoly (s.getD h 0) (coeffsFor coeffs t h)).natDegree ≤ t
      ∧ (sharePoly (s.getD h 0) (coeffsFor coeffs t h)).eval 0 = s.getD h 0 :=
  ⟨randomSplit_eq_eval emb s coeffs t m hi hh,
   (natDegree_sharePoly_le _ _).trans (length_coeffsFor_le coeffs t h), sharePoly_eval_zero _ _⟩

example : ((randomSplit (fieldOps (ZMod 7) Nat.cast) [5, 2] [3, 4] 1 3).getD 2 []).getD 1 0
    = (sharePoly (2 : ZMod 7) [4]).eval 3 := (randomSplit_poly _ _ _ 1 3 (by decide) (by decide)).1

/-- ★ `recombine_split` (batch form, any recombination points): any field, `emb` injective on `0..m`, any
`t`, any list of more than `t` distinct parties, any secrets and coefficients -/
theorem recombine_split_at (emb : ℕ → F) {m : ℕ} (hemb : Set.InjOn emb (Set.Iic m))
    (s coeffs : List F) (t : ℕ) {ps : List ℕ} (hps : ps.Nodup) (hpm : ∀ i ∈ ps, i < m)
    (ht : t < ps.length) (xrs : List F) :
    recombine (fieldOps F emb) (ps.map fun i => emb (i + 1))
        (ps.map fun i => (randomSplit (fieldOps F emb) s coeffs t m).getD i []) xrs
      = xrs.map fun xr => (List.range s.length).map fun h =>
          (sharePoly (s.getD h 0) (coeffsFor coeffs t h)).eval xr :=
  recombine_randomSplit emb hemb s coeffs t hps hpm ht xrs

example : recombine (fieldOps (ZMod 7) Nat.cast) ([2, 0].map fun i => ((i + 1 : ℕ) : ZMod 7))
      ([2, 0].map fun i => (randomSplit (fieldOps (ZMod 7) Nat.cast) [5, 2] [3, 4] 1 3).getD i [])
      [0, 1, 6]
    = [0, 1, 6].map fun xr => (List.range 2).map fun h =>
        (sharePoly (([5, 2] : List (ZMod 7)).getD h 0) (coeffsFor [3, 4] 1 h)).eval xr :=
  recombine_split_at _ injOn7 _ _ 1 (by decide) (by decide) (by decide) _

/-- ★ `recombine_split`: recombination at 0 returns the secrets -/
theorem recombine_split (emb : ℕ → F) (h0 : emb 0 = 0) {m : ℕ} (hemb : Set.InjOn emb (Set.Iic m))
    (s coeffs : List F) (t : ℕ) {ps : List ℕ} (hps : ps.Nodup) (hpm : ∀ i ∈ ps, i < m)
    (ht : t < ps.length) :
    recombine1 (fieldOps F emb) (ps.map fun i => emb (i + 1))
        (ps.map fun i => (randomSplit (fieldOps F emb) s coeffs t m).getD i []) (emb 0) = s :=
  recombine_randomSplit_zero emb h0 hemb s coeffs t hps hpm ht

example : recombine1 (fieldOps (ZMod 7) Nat.cast) ([2, 0].map fun i => ((i + 1 : ℕ) : ZMod 7))
      ([2, 0].map fun i => (randomSplit (fieldOps (ZMod 7) Nat.cast) [5, 2] [3, 4] 1 3).getD i [])
      ((0 : ℕ) : ZMod 7) = [5, 2] :=
  recombine_split _ (by simp) injOn7 _ _ 1 (by decide) (by decide) (by decide)

/-- the executable prime field is a homomorphic image of `ZMod p` (link between the driver and the theorems) -/
theorem modP_hom (p : ℕ) [Fact p.Prime] : IsHom (modP p) (Nat.cast : ℕ → ZMod p) := modP_isHom p

/-- ★ `recombine_split` for the executable model run by the correspondence (prime `p`, `m < p`) -/
theorem recombine_split_modP (p : ℕ) [Fact p.Prime] {m : ℕ} (hm : m < p) (s coeffs : List ℕ)
    (hs : ∀ x ∈ s, x < p) (t : ℕ) {ps : List ℕ} (hps : ps.Nodup) (hpm : ∀ i ∈ ps, i < m)
    (ht : t < ps.length) :
    recombine1 (modP p) (ps.map fun i => (modP p).ofNat (i + 1))
        (ps.map fun i => (randomSplit (modP p) s coeffs t m).getD i []) ((modP p).ofNat 0) = s :=
  recombine_randomSplit_modP p hm s coeffs hs t hps hpm ht

example : recombine1 (modP 7) ([2, 0].map fun i => (modP 7).ofNat (i + 1))
      ([2, 0].map fun i => (randomSplit (modP 7) [5, 2] [3, 4] 1 3).getD i []) ((modP 7).ofNat 0)
    = [5, 2] :=
  recombine_split_modP 7 (m := 3) (by decide) _ _ (by decide) 1 (by decide) (by decide) (by decide)

/-- recombination of the executable model's shares at arbitrary points -/
theorem recombine_split_modP_at (p : ℕ) [Fact p.Prime] {m : ℕ} (hm : m < p) (s coeffs : List ℕ)
    (t : ℕ) {ps : List ℕ} (hps : ps.Nodup) (hpm : ∀ i ∈ ps, i < m) (ht : t < ps.length)
    (xrs : List ℕ) :
    (recombine (modP p) (ps.map fun i => (modP p).ofNat (i + 1))
        (ps.map fun i => (randomSplit (modP p) s coeffs t m).getD i [])
        (xrs.map (modP p).ofNat)).map (List.map (Nat.cast : ℕ → ZMod p))
      = xrs.map fun (xr : ℕ) => (List.range s.length).map fun h =>
          (sharePoly (((s.getD h 0 : ℕ) : ZMod p)) (coeffsFor (coeffs.map Nat.cast) t h)).eval
            (xr : ZMod p) :=
  recombine_randomSplit_modP_at p hm s coeffs t hps hpm ht xrs

example : (recombine (modP 7) ([2, 0].map fun i => (modP 7).ofNat (i + 1))
      ([2, 0].map fun i => (randomSplit (modP 7) [5, 2] [3, 4] 1 3).getD i [])
      ([1, 4].map (modP 7).ofNat)).map (List.map (Nat.cast : ℕ → ZMod 7))
    = [1, 4].map fun (xr : ℕ) => (List.range 2).map fun h =>
        (sharePoly (((([5, 2] : List ℕ).getD h 0 : ℕ)) : ZMod 7)
          (coeffsFor (([3, 4] : List ℕ).map Nat.cast) 1 h)).eval (xr : ZMod 7) :=
  recombine_split_modP_at 7 (m := 3) (by decide) _ _ 1 (by decide) (by decide) (by decide) _

omit [Field F] in
/-- the error of `random_split` is exactly the guard stated in the model: with `t = 0` or fewer parties than field
elements every batch (also the empty one) is dealt -/
theorem randomSplitE_ok (o : FieldOps F) (order : ℕ) (s : List F) (coeffs : List F) (t m : ℕ)
    (h : t = 0 ∨ m < order) :
    randomSplitE o order s coeffs t m = .ok (randomSplit o s coeffs t m) := by
  unfold randomSplitE
  rw [if_neg]
  rintro ⟨h1, h2⟩
  rcases h with h | h
  · exact h1 h
  · omega

omit [Field F] in
/-- … and a field with at most `m` elements is refused when `t > 0` (party `order` would receive the secret itself,
`MpycV.C14.last_row_is_secret_when_m_eq_p`) -/
theorem randomSplitE_refuses (o : FieldOps F) (order : ℕ) (s : List F) (coeffs : List F) (t m : ℕ)
    (ht : 0 < t) (hm : order ≤ m) :
    randomSplitE o order s coeffs t m = .error "ValueError" := by
  unfold randomSplitE
  rw [if_pos]
  exact ⟨by omega, hm⟩

example : randomSplitE (modP 7) 7 [5] [3] 1 3 = .ok (randomSplit (modP 7) [5] [3] 1 3) :=
  randomSplitE_ok _ _ _ _ _ _ (Or.inr (by decide))

example : randomSplitE (modP 3) 3 [1] [2] 1 3 = .error "ValueError" :=
  randomSplitE_refuses _ _ _ _ _ _ (by decide) (by decide)

end MpycV.C12
