/-
C23 — polynomials over GF(p): ring laws and division algorithm (gfpx.py `Polynomial`, `BinaryPolynomial`).

All statements are about the executable models `MpycV.GFpX` (coefficient lists ≙ `Polynomial`) and
`MpycV.BinPoly` (bitmasks ≙ `BinaryPolynomial`), for EVERY prime `p` and ALL well-formed inputs
(`WF p a`: coefficients `< p`, no trailing zero — the class invariant of gfpx.py:50).
`toPoly p : List ℕ → (ZMod p)[X]` interprets a coefficient list as a Mathlib polynomial.
Each theorem is followed by an `example` instantiating it on a concrete non-trivial input.
-/
import MpycV.Lemmas.GFpXNext
import MpycV.Lemmas.GFpXBin
import MpycV.Lemmas.GFpXInvDeg
import MpycV.Lemmas.GFpXTable

open Polynomial MpycV.GFpX

namespace MpycV.C23

variable {p : ℕ}

instance : Fact (Nat.Prime 3) := ⟨by decide⟩
instance : Fact (Nat.Prime 5) := ⟨by decide⟩
instance : Fact (Nat.Prime 7) := ⟨by decide⟩

/-! ## 1. class invariant -/

/-- ★ every ring operation maps well-formed values to well-formed values (last coefficient nonzero,
all coefficients reduced).  `_mul`/`_sq` do not normalise: this needs `p` prime. -/
theorem normalised_preserved [Fact p.Prime] {a b : Poly} (ha : WF p a) (hb : WF p b) (n : ℕ) :
    WF p (add p a b) ∧ WF p (sub p a b) ∧ WF p (neg p a) ∧ WF p (mul p a b) ∧ WF p (sq p a) ∧
      WF p (lshift a n) ∧ WF p (rshift a n) := by
  have hp := (Fact.out : p.Prime).pos
  exact ⟨wf_add ha.1 hb.1, wf_sub hp ha.1 hb.1, wf_neg ha, wf_mul ha hb, wf_sq ha,
    wf_lshift ha hp n, wf_rshift ha n⟩

example : WF 3 (mul 3 [1, 2] [2, 0, 1]) ∧ mul 3 [1, 2] [2, 0, 1] = [2, 1, 1, 2] := by decide

/-- ★ division, gcd, gcdext results are well-formed too (invert, powmod: see their specs below) -/
theorem normalised_preserved_div [Fact p.Prime] {a b : Poly} (ha : WF p a) (hb : WF p b)
    (hbne : b ≠ []) :
    WF p (divmodCore p a b).1 ∧ WF p (divmodCore p a b).2 ∧ WF p (modCore p a b) ∧
      WF p (gcd p a b) ∧ WF p (gcdext p a b).2.1 ∧ WF p (gcdext p a b).2.2 := by
  obtain ⟨_, _, q, r, _⟩ := divmodCore_spec ha hb hbne
  exact ⟨q, r, wf_modCore ha hb hbne, (gcd_spec ha hb).1, (gcdext_spec ha hb).2.2.1,
    (gcdext_spec ha hb).2.2.2⟩

example : divmodCore 3 [1, 0, 0, 0, 0, 1] [1, 0, 1] = ([0, 2, 0, 1], [1, 1]) := by decide

/-- ★ the list is a canonical form: different well-formed lists denote different polynomials -/
theorem toPoly_injective {a b : Poly} (ha : WF p a) (hb : WF p b)
    (h : toPoly p a = toPoly p b) : a = b := toPoly_inj ha hb h

example : WF 5 [1, 4] ∧ WF 5 [1, 4, 0, 2] := by decide

/-! ## 2. homomorphism into `(ZMod p)[X]` ⇒ ring laws -/

/-- ★ `toPoly` turns the list operations into the ring operations of `(ZMod p)[X]` -/
theorem toPoly_hom {a b : Poly} (ha : Reduced p a) (hb : Reduced p b) (n : ℕ) :
    toPoly p (add p a b) = toPoly p a + toPoly p b ∧
      toPoly p (sub p a b) = toPoly p a - toPoly p b ∧
      toPoly p (neg p a) = - toPoly p a ∧
      toPoly p (mul p a b) = toPoly p a * toPoly p b ∧
      toPoly p (sq p a) = toPoly p a * toPoly p a ∧
      toPoly p (lshift a n) = toPoly p a * X ^ n ∧
      toPoly p a = toPoly p (a.take n) + X ^ n * toPoly p (rshift a n) :=
  ⟨toPoly_add a b, toPoly_sub a hb, toPoly_neg ha, toPoly_mul a b, toPoly_sq a, toPoly_lshift a n,
    toPoly_take_add_rshift a n⟩

example : Reduced 7 [3, 0, 6] ∧ Reduced 7 [5, 5] := by decide

/-- ★ the separate squaring routine `_sq` (used by `_mul` when `a is b`) returns the same list as the
generic product: the cross terms `2 a_i a_j` are right -/
theorem sq_eq_mul_self (hp : 0 < p) (a : Poly) : sq p a = mul p a a := GFpX.sq_eq_mul_self hp a

example : sq 7 [3, 0, 6, 1] = [2, 0, 1, 6, 1, 5, 1] := by decide

/-- ★ commutative-ring laws hold for the list operations themselves (equality of lists) -/
theorem ring_laws [Fact p.Prime] {a b c : Poly} (ha : WF p a) (hb : WF p b) (hc : WF p c) :
    add p a b = add p b a ∧
    add p (add p a b) c = add p a (add p b c) ∧
    add p a [] = a ∧
    add p a (neg p a) = [] ∧
    sub p a b = add p a (neg p b) ∧
    mul p a b = mul p b a ∧
    mul p (mul p a b) c = mul p a (mul p b c) ∧
    mul p a [1] = a ∧
    mul p a (add p b c) = add p (mul p a b) (mul p a c) ∧
    mul p (add p a b) c = add p (mul p a c) (mul p b c) := by
  have hp := (Fact.out : p.Prime).pos
  have w1 : WF p [1] := wf_one
  have hab := wf_add ha.1 hb.1
  have hbc := wf_add hb.1 hc.1
  have hmab := wf_mul ha hb
  have hmbc := wf_mul hb hc
  have hmac := wf_mul ha hc
  have hnb := wf_neg hb
  have hna := wf_neg ha
  refine ⟨?_, ?_, ?_, ?_, ?_, ?_, ?_, ?_, ?_, ?_⟩
  · apply toPoly_inj hab (wf_add hb.1 ha.1); rw [toPoly_add, toPoly_add, add_comm]
  · apply toPoly_inj (wf_add hab.1 hc.1) (wf_add ha.1 hbc.1)
    simp only [toPoly_add]; ring
  · apply toPoly_inj (wf_add ha.1 reduced_nil) ha; simp [toPoly_add]
  · apply toPoly_inj (wf_add ha.1 hna.1) wf_nil
    rw [toPoly_add, toPoly_neg ha.1]; simp
  · apply toPoly_inj (wf_sub hp ha.1 hb.1) (wf_add ha.1 hnb.1)
    rw [toPoly_sub _ hb.1, toPoly_add, toPoly_neg hb.1]; ring
  · apply toPoly_inj hmab (wf_mul hb ha); rw [toPoly_mul, toPoly_mul, mul_comm]
  · apply toPoly_inj (wf_mul hmab hc) (wf_mul ha hmbc)
    simp only [toPoly_mul]; ring
  · apply toPoly_inj (wf_mul ha w1) ha; simp [toPoly_mul]
  · apply toPoly_inj (wf_mul ha hbc) (wf_add hmab.1 hmac.1)
    simp only [toPoly_mul, toPoly_add]; ring
  · apply toPoly_inj (wf_mul hab hc) (wf_add hmac.1 hmbc.1)
    simp only [toPoly_mul, toPoly_add]; ring

example : mul 5 [1, 2, 3] (add 5 [4, 4] [0, 0, 1]) =
    add 5 (mul 5 [1, 2, 3] [4, 4]) (mul 5 [1, 2, 3] [0, 0, 1]) := by decide

/-! ## 3. division algorithm -/

/-- ★ `divmod(a, b)`: `ZeroDivisionError` iff `b = 0`; otherwise `(q, r)` with `a = q*b + r`,
`deg r < deg b`, and `q`, `r` are THE quotient and remainder of `(ZMod p)[X]` -/
theorem divmod_spec [Fact p.Prime] {a b : Poly} (ha : WF p a) (hb : WF p b) :
    (divmod p a b = .error .zeroDivision ↔ b = []) ∧
      (b ≠ [] → ∃ q r, divmod p a b = .ok (q, r) ∧ WF p q ∧ WF p r ∧
        toPoly p a = toPoly p q * toPoly p b + toPoly p r ∧
        (toPoly p r).degree < (toPoly p b).degree ∧ r.length < b.length ∧
        toPoly p q = toPoly p a / toPoly p b ∧ toPoly p r = toPoly p a % toPoly p b) := by
  constructor
  · unfold divmod; split <;> simp_all
  · intro hbne
    obtain ⟨h1, h2, h3, h4, h5⟩ := divmodCore_spec ha hb hbne
    refine ⟨_, _, by simp [divmod, hbne], h3, h4, h1, h2, h5, toPoly_divCore ha hb hbne, ?_⟩
    rw [← modCore_eq_divmodCore_snd]; exact toPoly_modCore ha hb hbne

example : divmod 3 [1, 0, 0, 0, 0, 1] [1, 0, 1] = .ok ([0, 2, 0, 1], [1, 1]) ∧
    divmod 3 [1, 2] [] = .error .zeroDivision := by decide

/-- ★ `%` and `//` are the two components of `divmod` (they are separate loops in the Python code) -/
theorem mod_floordiv_consistent (a b : Poly) :
    GFpX.mod p a b = (divmod p a b).map (·.2) ∧ floordiv p a b = (divmod p a b).map (·.1) := by
  constructor
  · unfold GFpX.mod divmod
    split
    · rfl
    · simp [Except.map, modCore_eq_divmodCore_snd]
  · rfl

example : GFpX.mod 7 [1, 2, 3, 4] [5, 6] = .ok [5] ∧ floordiv 7 [1, 2, 3, 4] [5, 6] = .ok [2, 5, 3] := by
  decide

/-! ## 4. gcd, gcdext, invert, powmod -/

/-- ★ `gcd(a, b)` is a common divisor, every common divisor divides it, and it is monic
(or `0` when `a = b = 0`) -/
theorem gcd_spec [Fact p.Prime] {a b : Poly} (ha : WF p a) (hb : WF p b) :
    toPoly p (gcd p a b) ∣ toPoly p a ∧ toPoly p (gcd p a b) ∣ toPoly p b ∧
      (∀ d, d ∣ toPoly p a → d ∣ toPoly p b → d ∣ toPoly p (gcd p a b)) ∧
      ((a = [] ∧ b = [] ∧ gcd p a b = []) ∨ (toPoly p (gcd p a b)).Monic) := by
  obtain ⟨_, g2, g3⟩ := GFpX.gcd_spec ha hb
  have := (g2 _).mp dvd_rfl
  exact ⟨this.1, this.2, fun d h1 h2 => (g2 d).mpr ⟨h1, h2⟩, g3⟩

example : gcd 5 (mul 5 [1, 1] [2, 3, 1]) (mul 5 [1, 1] [4, 1]) = [1, 1] := by decide

/-- ★ `gcdext(a, b) = (d, s, t)` with `d = gcd(a, b)` and `s*a + t*b = d` -/
theorem gcdext_bezout [Fact p.Prime] {a b : Poly} (ha : WF p a) (hb : WF p b) :
    (gcdext p a b).1 = gcd p a b ∧
      toPoly p (gcdext p a b).2.1 * toPoly p a + toPoly p (gcdext p a b).2.2 * toPoly p b
        = toPoly p (gcdext p a b).1 := by
  obtain ⟨h1, h2, _⟩ := gcdext_spec ha hb
  exact ⟨h1, h2⟩

example : gcdext 3 [1, 0, 1] [1, 1] = ([1], [2], [2, 1]) := by decide

/-- ★ `invert(a, b)`: `ZeroDivisionError` iff `b = 0` or `gcd(a, b) ≠ 1`; otherwise `s` with
`s*a ≡ 1 (mod b)` -/
theorem invert_spec [Fact p.Prime] {a b : Poly} (ha : WF p a) (hb : WF p b) :
    (invert p a b = .error .zeroDivision ↔ (b = [] ∨ ¬ IsCoprime (toPoly p a) (toPoly p b))) ∧
      ∀ s, invert p a b = .ok s → WF p s ∧ toPoly p b ∣ toPoly p s * toPoly p a - 1 :=
  GFpX.invert_spec ha hb

example : invert 3 [0, 1] [1, 0, 1] = .ok [0, 2] ∧
    invert 3 [1, 1] [1, 2, 1] = .error .zeroDivision := by decide

/-- ★ the inverse returned by `invert` is the reduced representative: `deg s < deg b` -/
theorem invert_reduced [Fact p.Prime] {a b s : Poly} (ha : WF p a) (hb : WF p b)
    (h : invert p a b = .ok s) : s.length < b.length := invert_length_lt ha hb h

example : invert 5 [1, 2, 3, 4, 1] [2, 0, 1] = .ok [3, 2] := by decide

/-- ★ `powmod(a, n, b)` for `n > 0`, `b ≠ 0`: the result is congruent to `a^n` modulo `b`, and it is the
reduced representative (`deg < deg b`) whenever `n ≥ 2` -/
theorem powmod_spec [Fact p.Prime] {a m : Poly} (ha : WF p a) (hm : WF p m) (hmne : m ≠ [])
    {n : ℕ} (hn : 0 < n) :
    ∃ r, powmod p a (n : ℤ) (some m) = .ok r ∧ WF p r ∧
      toPoly p r % toPoly p m = toPoly p a ^ n % toPoly p m ∧
      (2 ≤ n → r.length < m.length ∧ toPoly p r = toPoly p a ^ n % toPoly p m) := by
  obtain ⟨r, e, w, l, c⟩ := powmod_pos_some ha hm hmne hn
  refine ⟨r, e, w, c, fun h2 => ⟨l h2, ?_⟩⟩
  rw [← c]
  refine ((mod_eq_self_iff (toPoly_ne_zero hm hmne)).mpr ?_).symm
  have hl := l h2
  rw [degree_toPoly hm hmne]
  refine lt_of_lt_of_le (degree_toPoly_lt r) ?_
  have : r.length ≤ m.length - 1 := by omega
  exact_mod_cast this

example : powmod 3 [0, 1] 5 (some [1, 0, 1]) = .ok [0, 1] := by decide

/-- ★ `a ** n` (no modulus) for `n > 0` is the `n`-th power; `n < 0` without modulus raises ValueError;
`n = 0` gives `1` -/
theorem pow_spec [Fact p.Prime] {a : Poly} (ha : WF p a) :
    (∀ n : ℕ, 0 < n → ∃ r, powmod p a (n : ℤ) none = .ok r ∧ WF p r ∧ toPoly p r = toPoly p a ^ n) ∧
      (∀ n : ℤ, n < 0 → powmod p a n none = .error .value) ∧
      (∀ m, powmod p a 0 m = .ok [1]) :=
  ⟨fun _ hn => powmod_pos_none ha hn, fun _ hn => powmod_neg_none a hn, fun m => powmod_zero a m⟩

example : powmod 5 [1, 1] 3 none = .ok [1, 3, 3, 1] ∧ powmod 5 [1, 1] (-1) none = .error .value := by
  decide

/-- ★ negative exponents with a modulus go through `invert`: error iff not invertible, otherwise
`result * a^n ≡ 1 (mod b)` -/
theorem powmod_neg_spec [Fact p.Prime] {a m : Poly} (ha : WF p a) (hm : WF p m) (hmne : m ≠ [])
    {n : ℕ} (hn : 0 < n) :
    (¬ IsCoprime (toPoly p a) (toPoly p m) → powmod p a (-(n : ℤ)) (some m) = .error .zeroDivision) ∧
    (IsCoprime (toPoly p a) (toPoly p m) →
      ∃ r, powmod p a (-(n : ℤ)) (some m) = .ok r ∧ WF p r ∧
        (toPoly p r * toPoly p a ^ n) % toPoly p m = 1 % toPoly p m) :=
  powmod_neg_some ha hm hmne hn

example : powmod 3 [0, 1] (-2) (some [1, 0, 1]) = .ok [2] := by decide

/-- FINDING (key `C23-powmod-unreduced`): for `n = 1` the result is `a` itself, NOT reduced modulo `b`,
and for `n = 0` it is `1` even when `b` is a nonzero constant (where `1 mod b = 0`).  The congruence of
`powmod_spec` holds, the canonical representative does not.  Concrete witnesses (p = 3): -/
theorem powmod_unreduced_witness :
    powmod 3 [0, 0, 0, 0, 0, 1] 1 (some [1, 0, 1]) = .ok [0, 0, 0, 0, 0, 1] ∧
      modCore 3 [0, 0, 0, 0, 0, 1] [1, 0, 1] = [0, 1] ∧
      powmod 3 [0, 1] 0 (some [2]) = .ok [1] ∧ modCore 3 [1] [2] = [] := by decide

/-! ## 5. binary (bitmask) representation agrees with the list representation for p = 2 -/

/-- ★ every `BinaryPolynomial` operation equals the `GFpX 2` list operation under
`bit i ↔ coefficient i` (`BinPoly.toList`), for ALL naturals -/
theorem bin_list_agree (a b : ℕ) (n : ℕ) (z : ℤ) (m : Option ℕ) :
    WF 2 (BinPoly.toList a) ∧ BinPoly.fromList (BinPoly.toList a) = a ∧
    BinPoly.toList (BinPoly.add a b) = add 2 (BinPoly.toList a) (BinPoly.toList b) ∧
    BinPoly.toList (BinPoly.sub a b) = sub 2 (BinPoly.toList a) (BinPoly.toList b) ∧
    BinPoly.toList (BinPoly.neg a) = neg 2 (BinPoly.toList a) ∧
    BinPoly.toList (BinPoly.mul a b) = mul 2 (BinPoly.toList a) (BinPoly.toList b) ∧
    BinPoly.toList (BinPoly.sq a) = sq 2 (BinPoly.toList a) ∧
    BinPoly.toList (BinPoly.lshift a n) = lshift (BinPoly.toList a) n ∧
    BinPoly.toList (BinPoly.rshift a n) = rshift (BinPoly.toList a) n ∧
    (BinPoly.divmod a b).map BinPoly.toList2 = divmod 2 (BinPoly.toList a) (BinPoly.toList b) ∧
    (BinPoly.mod a b).map BinPoly.toList = GFpX.mod 2 (BinPoly.toList a) (BinPoly.toList b) ∧
    (BinPoly.floordiv a b).map BinPoly.toList = floordiv 2 (BinPoly.toList a) (BinPoly.toList b) ∧
    BinPoly.toList (BinPoly.gcd a b) = gcd 2 (BinPoly.toList a) (BinPoly.toList b) ∧
    BinPoly.toList3 (BinPoly.gcdext a b) = gcdext 2 (BinPoly.toList a) (BinPoly.toList b) ∧
    (BinPoly.invert a b).map BinPoly.toList = invert 2 (BinPoly.toList a) (BinPoly.toList b) ∧
    (BinPoly.powmod a z m).map BinPoly.toList =
      powmod 2 (BinPoly.toList a) z (m.map BinPoly.toList) ∧
    BinPoly.isIrreducible a = isIrreducible 2 (BinPoly.toList a) ∧
    BinPoly.lt a b = lt (BinPoly.toList a) (BinPoly.toList b) ∧
    BinPoly.toInt a = toInt 2 (BinPoly.toList a) ∧
    BinPoly.degree a = degree (BinPoly.toList a) :=
  ⟨BinPoly.toList_wf a, BinPoly.fromList_toList a, BinPoly.toList_add a b, BinPoly.toList_sub a b,
    BinPoly.toList_neg a, BinPoly.toList_mul a b, BinPoly.toList_sq a, BinPoly.toList_lshift a n,
    BinPoly.toList_rshift a n, BinPoly.toList_divmod a b, BinPoly.toList_mod a b,
    BinPoly.toList_floordiv a b, BinPoly.toList_gcd a b, BinPoly.toList_gcdext a b,
    BinPoly.toList_invert a b, BinPoly.toList_powmod a z m, BinPoly.isIrreducible_agree a,
    BinPoly.lt_agree a b, BinPoly.toInt_agree a, BinPoly.degree_agree a⟩

example : BinPoly.toList 19 = [1, 1, 0, 0, 1] ∧ BinPoly.mul 19 7 = 121 ∧
    mul 2 [1, 1, 0, 0, 1] [1, 1, 1] = BinPoly.toList 121 := by decide

/-- ★ evaluation: the two representations agree at odd arguments -/
theorem bin_eval_agree_odd (a : ℕ) (x : ℤ) (hx : x % 2 = 1) :
    BinPoly.eval a x = eval 2 (BinPoly.toList a) x := BinPoly.eval_agree_odd a x hx

example : BinPoly.eval 7 3 = 1 := by decide

/-- FINDING (key `C23-binary-eval-even`): at EVEN arguments `BinaryPolynomial.__call__` returns 0 while the
value of the polynomial (and the list representation) is the constant coefficient `a mod 2` -/
theorem bin_eval_even_finding (a : ℕ) (x : ℤ) (hx : x % 2 = 0) :
    BinPoly.eval a x = 0 ∧ eval 2 (BinPoly.toList a) x = a % 2 := BinPoly.eval_even a x hx

theorem bin_eval_even_witness : BinPoly.eval 3 0 = 0 ∧ eval 2 (BinPoly.toList 3) 0 = 1 := by decide

/-! ## 6. order, integer conversion, evaluation -/

/-- ★ `a < b` (`_lt`: shorter list first, equal lengths lexicographically from the leading coefficient)
is the order of the integer values -/
theorem lt_lex (hp : 1 < p) {a b : Poly} (ha : WF p a) (hb : WF p b) :
    lt a b = true ↔ toInt p a < toInt p b := lt_iff_toInt_lt hp ha hb

example : lt [2, 2] [0, 0, 1] = true ∧ lt [1, 2] [2, 1] = false ∧ lt [2, 1] [1, 2] = true := by decide

/-- ★ int ↔ polynomial round trips: `int(P(n)) = n` for `n ≥ 0`, `P(int(a)) = a`, `P(n)` is well-formed
for every integer `n`, and `P(-n) = -P(n)` -/
theorem int_roundtrip [Fact p.Prime] (n : ℕ) {a : Poly} (ha : WF p a) (z : ℤ) :
    toInt p (fromInt p (n : ℤ)) = n ∧ fromInt p ((toInt p a : ℕ) : ℤ) = a ∧ WF p (fromInt p z) ∧
      (0 < n → fromInt p (-(n : ℤ)) = neg p (fromInt p (n : ℤ))) := by
  have hp := (Fact.out : p.Prime).one_lt
  refine ⟨GFpX.int_roundtrip hp n, ?_, wf_fromInt z, fun hn => ?_⟩
  · rw [fromInt_nonneg, digits_toInt hp ha]
  · rw [fromInt_neg hn, fromInt_nonneg]

example : fromInt 3 (-7) = [2, 1] ∧ fromInt 3 7 = [1, 2] ∧ toInt 3 [1, 2] = 7 := by decide

/-- ★ `a(x)` (Horner loop) is the value of the polynomial at `x` in `ZMod p` -/
theorem eval_horner [Fact p.Prime] (a : Poly) (x : ℤ) :
    eval p a x = ((toPoly p a).eval (x : ZMod p)).val := GFpX.eval_horner a x

example : eval 7 [1, 2, 3] (-5) = 3 := by decide

/-! ## 7. kernel-evaluated table (sanity anchor for the executable model, not needed for the proofs above) -/

/-- for p = 3, ALL `a` of degree ≤ 2 and ALL `b` of degree ≤ 1: `divmod` reconstructs `a`, the remainder is
shorter than `b`, `gcdext` is a Bezout identity for `gcd` (list-level, by kernel evaluation) -/
theorem table_p3_deg2 :
    ∀ a ∈ polys 3 3, ∀ b ∈ polys 3 2, b ≠ [] →
      add 3 (mul 3 (divmodCore 3 a b).1 b) (divmodCore 3 a b).2 = a ∧
      (divmodCore 3 a b).2.length < b.length ∧
      add 3 (mul 3 (gcdext 3 a b).2.1 a) (mul 3 (gcdext 3 a b).2.2 b) = gcd 3 a b := by
  decide +kernel

end MpycV.C23
