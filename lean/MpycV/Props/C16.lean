/-
C16 — PRSS keys are shared exactly among each subset's members.
Property theorems only (helper lemmas: MpycV.Lemmas.Comb, MpycV.Lemmas.CombKeys).  Model:
MpycV.Model.Comb, a transcription of the `threshold` setter, `_prss_keys_to_peer`,
`_prss_keys_from_peer` (runtime.py:98-138) and of the handshake in
`MessageExchanger.connection_made` / `data_received` (asyncoro.py:39-93).

All statements hold for ALL m, t (no bounded table).  `tok p k` is the k-th `token_bytes(16)` of
party p (arbitrary, only its length 16 is used); `evs` is the list of handshakes in the order in
which they complete, each with an arbitrary chunking of the client's message.
-/
import MpycV.Lemmas.CombKeys

namespace MpycV.C16
open MpycV.Comb List

/-! ### combinations -/

/-- `itertools.combinations(l, k)`: exactly the sublists of `l` of length `k` -/
theorem combinations_mem {α : Type} (l : List α) (k : Nat) (s : List α) :
    s ∈ combinations l k ↔ s <+ l ∧ s.length = k := mem_combinations

example : combinations [10, 20, 30, 40] 2 =
    [[10, 20], [10, 30], [10, 40], [20, 30], [20, 40], [30, 40]] := by decide

/-- the subsets enumerated by the code are exactly the strictly increasing (m-t)-tuples of party
indices below m -/
theorem subsets_spec (m t : Nat) (s : Subset) :
    s ∈ subsets m t ↔ s.Pairwise (· < ·) ∧ (∀ x ∈ s, x < m) ∧ s.length = m - t := mem_subsets

example : [0, 2, 3] ∈ subsets 5 2 := by decide

/-- each of the C(m, m-t) subsets occurs exactly once -/
theorem subsets_each_once (m t : Nat) :
    (subsets m t).Nodup ∧ (subsets m t).length = m.choose (m - t) :=
  ⟨nodup_subsets m t, length_subsets m t⟩

example : (subsets 7 3).length = 35 := by decide

/-- sender (`_prss_keys_to_peer` at the client j) and receiver (`_prss_keys_from_peer` at the
server i) enumerate the same subsets in the same order -/
theorem sender_receiver_same_list (m t j i : Nat) : keysToPeer m t j i = keysFromPeer m t i j := rfl

example : keysToPeer 4 1 0 2 = [[0, 1, 2], [0, 2, 3]] := by decide

/-! ### the handshake at byte level -/

/-- the server-side handshake does not depend on how the stream is cut into chunks -/
theorem handshake_any_chunking (m t pid : Nat) (noPrss : Bool) (s : Server) (msg : Bytes)
    (cuts : List Nat) :
    Server.feedAll m t pid noPrss s (chunksOf msg cuts) = Server.feed m t pid noPrss s msg :=
  Server.feedAll_chunksOf m t pid noPrss s msg cuts

example : chunksOf [1, 2, 3, 4, 5] [1, 0, 3] = [[1], [], [2, 3, 4], [5]] := by decide

/-- feeding `a`, then `b` equals feeding `a ++ b` (cut at any byte: inside the pid, inside a key) -/
theorem handshake_feed_append (m t pid : Nat) (noPrss : Bool) (s : Server) (a b : Bytes) :
    Server.feed m t pid noPrss (Server.feed m t pid noPrss s a) b
      = Server.feed m t pid noPrss s (a ++ b) := Server.feed_append m t pid noPrss s a b

/-- the k-th 16-byte slice received is the k-th key sent: after storing the block built from the
sender's store `cst`, every listed subset maps to the sender's key, other entries are untouched -/
theorem slice_is_key (cst : Store) (subs : List Subset) (hn : subs.Nodup)
    (hk : ∀ s ∈ subs, ∃ v, cst.get? s = some v ∧ v.length = 16) (extra : Bytes) (st : Store)
    (s : Subset) :
    (storeKeys (keyBlock cst subs ++ extra) subs 0 st).get? s =
      if s ∈ subs then cst.get? s else st.get? s := by
  simpa using get?_storeKeys_keyBlock cst subs hn hk [] extra st s

/-! ### after all pairwise handshakes -/

/-- a complete setup: every event connects a lower pid (client) to a higher pid (server) below m,
and every pair is connected -/
structure ValidSetup (m : Nat) (evs : List Hs) : Prop where
  ok : ∀ e ∈ evs, e.client < e.server ∧ e.server < m
  all : ∀ j i, j < i → i < m → ∃ e ∈ evs, e.client = j ∧ e.server = i

/-- final key stores -/
def finalStores (m t : Nat) (tok : Nat → Nat → Bytes) (evs : List Hs) : Stores :=
  runHs m t false (initStores m t false tok) evs

/-- Sharp form: after all handshakes (any order, any chunking) party i's `_prss_keys[s]` is the key
drawn by the lowest member of `s` if `s` is one of the (m-t)-subsets and i ∈ s, and absent
otherwise. -/
theorem keys_exact (m t : Nat) (hm : m ≤ 65536) (tok : Nat → Nat → Bytes)
    (htok : ∀ p k, (tok p k).length = 16) (evs : List Hs) (hv : ValidSetup m evs)
    (i : Nat) (hi : i < m) (s : Subset) :
    ((finalStores m t tok evs).get i).get? s =
      if s ∈ subsets m t ∧ i ∈ s then some (genKey m t tok s) else none := by
  have hev : ∀ e ∈ evs, e.client < 65536 ∧ e.server < (initStores m t false tok).length :=
    fun e he => by
      have := hv.ok e he
      rw [length_initStores]; omega
  rw [finalStores, inv_run m t tok htok _ evs hev [] (inv_init m t tok) i s, held]
  by_cases h : s ∈ subsets m t ∧ i ∈ s
  · obtain ⟨hs, his⟩ := h
    have hle := head_le_of_mem (mem_subsets.1 hs).1 his
    have : hd s = i ∨ (hd s, i) ∈ (evs.map fun e => (e.client, e.server)).reverse ++ [] := by
      rcases Nat.lt_or_ge (hd s) i with hlt | hge
      · right
        obtain ⟨e, he, h1, h2⟩ := hv.all (hd s) i hlt hi
        simp only [append_nil, mem_reverse, mem_map]
        exact ⟨e, he, by rw [h1, h2]⟩
      · left; omega
    rw [if_pos ⟨hs, his, this⟩, if_pos ⟨hs, his⟩]
  · have : ¬ (s ∈ subsets m t ∧ i ∈ s ∧
        (hd s = i ∨ (hd s, i) ∈ (evs.map fun e => (e.client, e.server)).reverse ++ [])) :=
      fun h' => h ⟨h'.1, h'.2.1⟩
    simp only [this, ↓reduceIte]
    rw [if_neg h]

/-- ★ party i holds a key for S iff S is an (m-t)-subset and i ∈ S -/
theorem keys_iff_member (m t : Nat) (hm : m ≤ 65536) (tok : Nat → Nat → Bytes)
    (htok : ∀ p k, (tok p k).length = 16) (evs : List Hs) (hv : ValidSetup m evs)
    (i : Nat) (hi : i < m) (s : Subset) :
    (((finalStores m t tok evs).get i).get? s).isSome ↔ s ∈ subsets m t ∧ i ∈ s := by
  rw [keys_exact m t hm tok htok evs hv i hi s]
  by_cases h : s ∈ subsets m t ∧ i ∈ s <;> simp [h]

/-- ★ all members of S hold the same key, namely the one generated by the lowest member of S
(`hd s ∈ s`, `hd s ≤` every member), i.e. the `idxOf`-th token drawn by that party -/
theorem members_hold_generators_key (m t : Nat) (hm : m ≤ 65536) (tok : Nat → Nat → Bytes)
    (htok : ∀ p k, (tok p k).length = 16) (evs : List Hs) (hv : ValidSetup m evs)
    (s : Subset) (hs : s ∈ subsets m t) (i : Nat) (hi : i ∈ s) :
    ((finalStores m t tok evs).get i).get? s
        = some (tok (hd s) ((keysGenerated m t (hd s)).idxOf s))
      ∧ ((finalStores m t tok evs).get i).get? s = ((finalStores m t tok evs).get (hd s)).get? s
      ∧ hd s ∈ s ∧ ∀ x ∈ s, hd s ≤ x := by
  have hb := (mem_subsets.1 hs).2.1
  have hp := (mem_subsets.1 hs).1
  have hhd : hd s ∈ s := by
    cases s with
    | nil => simp at hi
    | cons x r => simp [hd]
  rw [keys_exact m t hm tok htok evs hv i (hb i hi) s,
    keys_exact m t hm tok htok evs hv (hd s) (hb _ hhd) s]
  simp only [hs, hi, hhd, and_self, ↓reduceIte, genKey, true_and]
  exact fun x hx => head_le_of_mem hp hx

/-- no other party holds it -/
theorem non_member_holds_nothing (m t : Nat) (hm : m ≤ 65536) (tok : Nat → Nat → Bytes)
    (htok : ∀ p k, (tok p k).length = 16) (evs : List Hs) (hv : ValidSetup m evs)
    (s : Subset) (i : Nat) (hi : i < m) (hni : i ∉ s) :
    ((finalStores m t tok evs).get i).get? s = none := by
  rw [keys_exact m t hm tok htok evs hv i hi s]
  simp [hni]

/-- ★ every coalition of at most t parties lacks at least one key — a key that does exist (all
members of that subset hold it) — the fact the masking property C18 relies on -/
theorem coalition_lacks_key (m t : Nat) (ht : t ≤ m) (hm : m ≤ 65536) (tok : Nat → Nat → Bytes)
    (htok : ∀ p k, (tok p k).length = 16) (evs : List Hs) (hv : ValidSetup m evs)
    (C : List Nat) (hC : C.length ≤ t) (hCm : ∀ c ∈ C, c < m) :
    ∃ s ∈ subsets m t,
      (∀ c ∈ C, ((finalStores m t tok evs).get c).get? s = none) ∧
      (∀ i ∈ s, ((finalStores m t tok evs).get i).get? s = some (genKey m t tok s)) := by
  obtain ⟨s, hs, hav⟩ := exists_subset_avoiding ht C hC
  refine ⟨s, hs, ?_, ?_⟩
  · intro c hc
    exact non_member_holds_nothing m t hm tok htok evs hv s c (hCm c hc) (hav c hc)
  · intro i hi
    rw [keys_exact m t hm tok htok evs hv i ((mem_subsets.1 hs).2.1 i hi) s]
    simp [hs, hi]

/-- The bytes a client writes in `connection_made` do not depend on when the connection is made:
computed from the client's store after ANY sequence of handshakes they equal the bytes computed
from its freshly generated keys (only self-generated keys are sent, and these are never
overwritten).  This justifies modelling a handshake as one event at its completion. -/
theorem client_message_time_independent (m t : Nat) (tok : Nat → Nat → Bytes)
    (htok : ∀ p k, (tok p k).length = 16) (evs : List Hs)
    (hev : ∀ e ∈ evs, e.client < 65536 ∧ e.server < m) (j i : Nat) :
    clientMsg m t j i false ((runHs m t false (initStores m t false tok) evs).get j)
      = clientMsg m t j i false ((initStores m t false tok).get j) := by
  have hcongr : ∀ (st st' : Store) (subs : List Subset),
      (∀ s ∈ subs, st.get? s = st'.get? s) → keyBlock st subs = keyBlock st' subs := by
    intro st st' subs
    induction subs with
    | nil => intro _; rfl
    | cons a r ih =>
      intro h
      simp only [keyBlock]
      rw [h a mem_cons_self, ih (fun s hs => h s (mem_cons_of_mem _ hs))]
  simp only [clientMsg, Bool.false_eq_true, ↓reduceIte]
  congr 1
  apply hcongr
  intro s hs
  rw [keysToPeer_eq_keysFromPeer] at hs
  obtain ⟨h1, h2, _⟩ := mem_keysFromPeer.1 hs
  have hd' := (headIs_iff.1 h2).2
  have hev' : ∀ e ∈ evs, e.client < 65536 ∧ e.server < (initStores m t false tok).length := by
    rw [length_initStores]; exact hev
  rw [inv_run m t tok htok _ evs hev' [] (inv_init m t tok) j s, inv_init m t tok j s]
  simp [held, h1, headIs_mem h2, hd']

/-- `prfs(bound)` has one PRF per held subset: exactly the subsets the party belongs to -/
theorem prfs_subsets (m t : Nat) (hm : m ≤ 65536) (tok : Nat → Nat → Bytes)
    (htok : ∀ p k, (tok p k).length = 16) (evs : List Hs) (hv : ValidSetup m evs)
    (i : Nat) (hi : i < m) (s : Subset) :
    s ∈ prfSubsets ((finalStores m t tok evs).get i) ↔ s ∈ subsets m t ∧ i ∈ s := by
  rw [mem_prfSubsets]
  exact keys_iff_member m t hm tok htok evs hv i hi s

/-- with `no_prss` nothing is generated, sent (the client writes its 2-byte pid only) or stored -/
theorem no_prss_no_keys (m t : Nat) (tok : Nat → Nat → Bytes) (evs : List Hs) (i : Nat) :
    (runHs m t true (initStores m t true tok) evs).get i = []
      ∧ ∀ j st, clientMsg m t j i true st = pidBytes j := by
  rw [runHs_noPrss]
  refine ⟨?_, fun j st => by simp [clientMsg]⟩
  simp only [Stores.get, initStores, ↓reduceIte]
  by_cases h : i < m <;> simp [h]

/-! ### the threshold setter AFTER the set-up (repo fix b17a618) -/

/-- Assigning `mpc.threshold = t'` replaces a party's key store by the keys it generates itself (`initStores`: the
subsets of size m - t' whose lowest member it is) — the handshakes that distribute keys happen only while connections
are set up.  Hence after such an assignment every OTHER member of a subset holds no key for it: the conclusion of C16
fails until the next `start()`, and `prfs()` must refuse to run (it raises RuntimeError since the fix; before, all
PRSS-based results were silently different per party). -/
theorem setter_after_setup_drops_peer_keys (m t' : Nat) (tok : Nat → Nat → Bytes) (i : Nat) (s : Subset)
    (hs : s ∈ subsets m t') (hi : i ∈ s) (hne : hd s ≠ i) :
    ((initStores m t' false tok).get i).get? s = none := by
  rw [inv_init m t' tok i s]
  unfold held
  rw [if_neg]
  rintro ⟨_, _, h | h⟩
  · exact hne h
  · simp at h

/-- … while the lowest member does hold a (fresh) key: the stores of the members of `s` disagree -/
theorem setter_after_setup_owner_holds_key (m t' : Nat) (tok : Nat → Nat → Bytes) (s : Subset)
    (hs : s ∈ subsets m t') (hmem : hd s ∈ s) :
    ((initStores m t' false tok).get (hd s)).get? s = some (genKey m t' tok s) := by
  rw [inv_init m t' tok (hd s) s]
  unfold held
  rw [if_pos ⟨hs, hmem, Or.inl rfl⟩]

/-- the repaired `prfs()`: refuses while the keys are stale (set by the setter when peers are connected, cleared by
`start()`), otherwise one PRF per held subset -/
def prfsE (stale : Bool) (st : Store) : Except String (List Subset) :=
  if stale then .error "RuntimeError" else .ok (prfSubsets st)

theorem prfsE_stale (st : Store) : prfsE true st = .error "RuntimeError" := rfl

theorem prfsE_fresh (m t : Nat) (hm : m ≤ 65536) (tok : Nat → Nat → Bytes)
    (htok : ∀ p k, (tok p k).length = 16) (evs : List Hs) (hv : ValidSetup m evs) (i : Nat) (hi : i < m) :
    ∃ subs, prfsE false ((finalStores m t tok evs).get i) = .ok subs ∧ ∀ s, s ∈ subs ↔ s ∈ subsets m t ∧ i ∈ s :=
  ⟨_, rfl, fun s => prfs_subsets m t hm tok htok evs hv i hi s⟩

/-! ### non-vacuity: a concrete 4-party run, threshold 1, handshakes out of order and chunked -/

def tok0 (p k : Nat) : Bytes := List.replicate 16 (16 * p + k)

def evs0 : List Hs :=
  [⟨1, 3, [1, 20]⟩, ⟨0, 2, []⟩, ⟨0, 1, [0, 2, 16, 5]⟩, ⟨2, 3, [3]⟩, ⟨0, 3, [100]⟩, ⟨1, 2, [17]⟩]

theorem evs0_valid : ValidSetup 4 evs0 := by
  refine ⟨by decide, ?_⟩
  have h : ∀ i, i < 4 → ∀ j, j < i → ∃ e ∈ evs0, e.client = j ∧ e.server = i := by decide
  exact fun j i hji hi => h i hi j hji

example : ∀ p k, (tok0 p k).length = 16 := by simp [tok0]

example : ((finalStores 4 1 tok0 evs0).get 3).get? [0, 2, 3] = some (tok0 0 2) := by decide +kernel
example : ((finalStores 4 1 tok0 evs0).get 1).get? [0, 2, 3] = none := by decide +kernel
example : ((finalStores 4 1 tok0 evs0).get 3).get? [1, 2, 3] = some (tok0 1 0) := by decide +kernel
example : prfSubsets ((finalStores 4 1 tok0 evs0).get 2) = [[1, 2, 3], [0, 2, 3], [0, 1, 2]] := by
  decide +kernel

/-! ### soundness of the table check applied to key tables extracted from real runs -/

/-- `tableOK m t tb` (a decidable check run by the kernel on tables extracted from real `Runtime`
objects, see MpycV.PropsGen.C16) implies: every party holds exactly the subsets it belongs to, and
every value held equals the value held by the subset's lowest member. -/
theorem tableOK_sound (m t : Nat) (tb : List (List (Subset × Nat))) (h : tableOK m t tb = true)
    (i : Nat) (hi : i < m) :
    (∀ s, s ∈ (tb.getD i []).map (·.1) ↔ s ∈ subsets m t ∧ i ∈ s) ∧
    (∀ e ∈ tb.getD i [], lookupN (tb.getD (hd e.1) []) e.1 = some e.2) := by
  simp only [tableOK, Bool.and_eq_true, beq_iff_eq, all_eq_true, mem_range] at h
  obtain ⟨h1, h2⟩ := h.2 i hi
  constructor
  · intro s
    rw [h1]
    simp [holderSubsets, hasMem_iff]
  · intro e he
    have := h2 e he
    cases hs : e.1 with
    | nil => simp [hs] at this
    | cons g r => simpa [hs, hd] using this

example : tableOK 2 0 [[([0, 1], 7)], [([0, 1], 7)]] = true := by decide
example : tableOK 2 0 [[([0, 1], 7)], [([0, 1], 8)]] = false := by decide

end MpycV.C16
