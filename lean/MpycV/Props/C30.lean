/-
C30 — bit-level oblivious building blocks are correct for all inputs.

Model: `MpycV.Model.Bits` (value layer of runtime.py `add_bits`, `to_bits`, `from_bits`, `find`,
`unit_vector`, `trailing_zeros`, `gcp2`).  All theorems hold for every length and, where a protocol
draws random values (`r_bits`, `r_divl`), for every value of them.  `IsBits x`: all entries are 0 or 1.
`bitsOf a l`: the l low bits of the integer a, two's complement for negative a (`(a >> i) & 1`).
-/
import MpycV.Lemmas.BitsTo
import MpycV.Lemmas.BitsUnit
import MpycV.Lemmas.BitsGcp2
import MpycV.Lemmas.BitsRing
import Mathlib.Algebra.CharP.Two
import Mathlib.Data.ZMod.Defs

namespace MpycV.C30
open MpycV.Bits

/-! ### add_bits, from_bits, to_bits -/

/-- `add_bits(x, y)`: the carry network is a binary adder modulo 2^n — result is a bit vector of the
same length with value `(value x + value y) mod 2^n`, for every length n. -/
theorem addBits_spec (x y : List Int) (hx : IsBits x) (hy : IsBits y) (hlen : x.length = y.length) :
    IsBits (addBits x y) ∧ (addBits x y).length = x.length ∧
    fromBits (addBits x y) = (fromBits x + fromBits y) % 2 ^ x.length :=
  let h := addBits_spec' x y hx hy hlen
  ⟨h.1, h.2.1, h.2.2.1⟩

example : IsBits [1, 1, 0, 1] ∧ IsBits [1, 0, 1, 1] ∧ [1, 1, 0, 1].length = [1, 0, 1, 1].length := by
  refine ⟨?_, ?_, rfl⟩ <;> intro b hb <;> simp at hb <;> omega

/-- `from_bits` inverts bit decomposition: the l low bits of `c` recompose to `c mod 2^l`; and a bit
vector is recovered from its value. -/
theorem fromBits_bitsOf (c : Int) (l : Nat) : fromBits (bitsOf c l) = c % 2 ^ l :=
  Bits.fromBits_bitsOf c l

theorem bitsOf_fromBits (x : List Int) (hx : IsBits x) : bitsOf (fromBits x) x.length = x :=
  Bits.bitsOf_fromBits hx

theorem fromBits_empty : fromBits [] = 0 := rfl

/-- `to_bits(a, l)` for a secure type with `bit_length = L`, `frac_length = f` (f = 0: integers):
for every `l ≤ L + f`, signed `a`, every random mask `(rbits, rdivl)`, the result is the list of the l
least significant bits of `a` in two's complement.  For a fixed-point number flagged integral
(`2^f ∣ a`) the shortcut through `a >> f` gives the same bits. -/
theorem toBits_spec (L f : Nat) (integral : Bool) (a : Int) (l : Nat) (rbits : List Int) (rdivl : Int)
    (hl : l ≤ L + f) (hr : IsBits rbits) (hrl : l ≤ rbits.length)
    (hint : integral = true → (2 : Int) ^ f ∣ a) :
    toBits L f integral a l rbits rdivl = some (bitsOf a l) :=
  toBits_spec' L f integral a l rbits rdivl hl hr hrl hint

example : (17 : Nat) ≤ 16 + 4 ∧ IsBits (List.replicate 17 1) ∧ 17 ≤ (List.replicate 17 (1 : Int)).length ∧
    ((false = true) → (2 : Int) ^ 4 ∣ -40) := by
  refine ⟨by decide, ?_, by simp, by intro h; cases h⟩
  intro b hb; simp at hb; omega

/-- round trip: `from_bits(to_bits(a, l)) = a mod 2^l` (equal to `a` for `0 ≤ a < 2^l`; the sign is not
recovered, as the TODO in `from_bits` says). -/
theorem toBits_fromBits (L f : Nat) (integral : Bool) (a : Int) (l : Nat) (rbits : List Int) (rdivl : Int)
    (hl : l ≤ L + f) (hr : IsBits rbits) (hrl : l ≤ rbits.length)
    (hint : integral = true → (2 : Int) ^ f ∣ a) :
    (toBits L f integral a l rbits rdivl).map fromBits = some (a % 2 ^ l) := by
  rw [toBits_spec L f integral a l rbits rdivl hl hr hrl hint, Option.map_some, Bits.fromBits_bitsOf]

/-- the `assert l <= bit_length + frac_length` branch -/
theorem toBits_assert (L f : Nat) (integral : Bool) (a : Int) (l : Nat) (rbits : List Int) (rdivl : Int)
    (hl : L + f < l) : toBits L f integral a l rbits rdivl = none := by
  unfold toBits; rw [if_pos hl]

/-! ### find -/

/-- `find(x, a, bits, e, f, cs_f)` for every combination: the index is that of the first occurrence of
`a` (`List.idxOf`: `len(x)` if absent); with `e=None` the pair (not-found bit, f(index)), with `e=E` the
value `f(index)` if found and `f(E)` otherwise.  `ModeOk`: inputs are bits when `bits=True`.
`Consistent fs`: `cs_f(b, i) = f(i + b)` for b ∈ {0,1}, i ≥ 0 (docstring (*)) and `f` has a fixed arity;
this holds automatically when `cs_f` is derived from `f` or both are defaulted
(`consistent_default`, `consistent_givenF`). -/
theorem find_spec (mode : AMode) (a : Int) (x : List Int) (e : Option Int) (fs : FSpec)
    (hm : ModeOk mode a x) (hc : Consistent fs) :
    find mode a x e fs =
      match e with
      | none => (some (if x.idxOf a < x.length then 0 else 1), fs.f (x.idxOf a : Nat))
      | some E => (none, fs.f (if x.idxOf a < x.length then (x.idxOf a : Nat) else E)) :=
  find_spec' mode a x e fs hm hc

example : ModeOk .general 7 [3, 7, 7] ∧ Consistent .default := ⟨trivial, consistent_default⟩

theorem find_consistent_default : Consistent .default := consistent_default

theorem find_consistent_givenF (f : Int → List Int) (hlen : ∀ i j, (f i).length = (f j).length) :
    Consistent (.givenF f) := consistent_givenF f hlen

/-- empty list: `(1, f(0))` for `e=None`, `f(e)` otherwise — no hypothesis needed -/
theorem find_empty (mode : AMode) (a : Int) (e : Option Int) (fs : FSpec) :
    find mode a [] e fs = match e with
      | none => (some 1, fs.f 0)
      | some E => (none, fs.f E) := by
  unfold find reduceToZeroSearch
  cases mode <;> cases e <;> simp

/-! ### unit_vector -/

/-- `unit_vector(a, n)` for `0 ≤ a < n`: `[0]*a + [1] + [0]*(n-1-a)`, every n ≥ 1
(input: the `k = (n-1).bit_length()` low bits of a, i.e. `to_bits(a, k + f)[f:]` by `toBits_spec`). -/
theorem unitVector_spec (a n : Nat) (hn : 0 < n) (ha : a < n) :
    unitVector (bitsOf (a : Int) (bitLength (n - 1))) n = (List.range n).map (fun j => if j = a then 1 else 0) :=
  unitVector_spec' a n hn ha

example : (0 : Nat) < 5 ∧ 3 < 5 := by decide

/-- the documented wrap: for `a = n` the result is `[1] + [0]*(n-1)` -/
theorem unitVector_wrap (n : Nat) (hn : 0 < n) :
    unitVector (bitsOf (n : Int) (bitLength (n - 1))) n = (List.range n).map (fun j => if j = 0 then 1 else 0) :=
  unitVector_wrap' n hn

/-! ### trailing_zeros, gcp2 -/

/-- `trailing_zeros(a, l)` (l ≤ bit_length): bits; correct "up to and including the least significant
1": every position `i < l` with `2^i ∣ a` carries bit i of a, for every random mask. -/
theorem trailingZeros_spec (L : Nat) (a : Int) (l : Nat) (rbits : List Int) (rdivl : Int)
    (hr : IsBits rbits) (hrl : l ≤ rbits.length) (hL : l ≤ L) :
    IsBits (trailingZeros L a l rbits rdivl) ∧ (trailingZeros L a l rbits rdivl).length = l ∧
    ∀ i, i < l → (2 : Int) ^ i ∣ a → (trailingZeros L a l rbits rdivl).getD i 0 = (a / 2 ^ i) % 2 :=
  ⟨isBits_trailingZeros L a l rbits rdivl hr, length_trailingZeros L a l rbits rdivl hrl,
    fun i hi hd => trailingZeros_spec' L a l rbits rdivl hr hrl hL i hi hd⟩

example : (2 : Int) ^ 2 ∣ 12 ∧ ¬ (2 : Int) ^ 3 ∣ 12 := by decide

/-- `gcp2(a, b, l)`: `2^t` for the largest `t ≤ l` with `2^t ∣ a` and `2^t ∣ b` (so `2^l` when both
vanish modulo 2^l), for every randomness of the two `trailing_zeros` calls. -/
theorem gcp2_spec (L : Nat) (a b : Int) (l : Nat) (ra : List Int) (rda : Int) (rb : List Int) (rdb : Int)
    (hra : IsBits ra) (hrb : IsBits rb) (hla : l ≤ ra.length) (hlb : l ≤ rb.length) (hL : l ≤ L)
    (t : Nat) (ht : t ≤ l) (hda : (2 : Int) ^ t ∣ a) (hdb : (2 : Int) ^ t ∣ b)
    (hmax : t < l → ¬ ((2 : Int) ^ (t + 1) ∣ a ∧ (2 : Int) ^ (t + 1) ∣ b)) :
    gcp2 L a b l ra rda rb rdb = 2 ^ t :=
  gcp2_spec' L a b l ra rda rb rdb hra hrb hla hlb hL t ht hda hdb hmax

example : (2 : Nat) ≤ 16 ∧ (2 : Int) ^ 2 ∣ 12 ∧ (2 : Int) ^ 2 ∣ 40 ∧ ¬ ((2 : Int) ^ 3 ∣ 12 ∧ (2 : Int) ^ 3 ∣ 40) := by
  decide

/-! ### add_bits over secure FIELD types (every commutative ring, in particular characteristic 2) -/

/-- `add_bits` on bits of ANY secure number type: the entries are the elements 0 and 1 of a commutative ring `R` (a prime
field, a binary field GF(2^k), …), given here as the images of integer bits.  The carry network, written with `c + c`
as in the repository since fix a36002e, returns the n low bits of the integer sum, for every length n. -/
theorem addBits_any_ring {R : Type} [CommRing R] (x y : List Int) (hx : IsBits x) (hy : IsBits y)
    (hlen : x.length = y.length) :
    BitsRing.addBits (0 : R) (x.map (Int.cast : Int → R)) (y.map (Int.cast : Int → R)) =
      (bitsOf (fromBits x + fromBits y) x.length).map (Int.cast : Int → R) :=
  BitsRing.addBits_ring x y hx hy hlen

/-- the ring-polymorphic network is the integer model above when `R = Int` -/
theorem addBits_ring_int (x y : List Int) : BitsRing.addBits (0 : Int) x y = addBits x y := BitsRing.addBits_int x y

/-- the constant by which a carry is "doubled" in the final loop `x_i + y_i - k*c_i + c_{i-1}` must be `1 + 1`: for the
one-bit addition 1 + 1 the network returns the sum bit 0 exactly when `k = 1 + 1`.  In mpyc the int `2` used as an
operand of a GF(2^k) element denotes the polynomial x, not `1 + 1 = 0`: the formula `c*2` was wrong there. -/
theorem addBits_doubling_constant {R : Type} [CommRing R] (k : R) :
    BitsRing.sumBitsWith (fun c => k * c) (0 : R) [(1, 1)] [1] = [0] ↔ k = 1 + 1 := by
  simp only [BitsRing.sumBitsWith, mul_one, add_zero, List.cons.injEq, and_true]
  constructor
  · intro h; exact (sub_eq_zero.mp h).symm
  · intro h; rw [h]; ring

/-- in characteristic 2 the doubled carry vanishes, so a sum bit is `x_i + y_i + c_{i-1}` (xor) -/
theorem addBits_char2_sum_bit {R : Type} [CommRing R] [CharP R 2] (a b c cin : R) :
    a + b - (c + c) + cin = a + b + cin := by
  rw [CharTwo.add_self_eq_zero, sub_zero]

/-- non-vacuity, in a ring of characteristic 2: 3 + 1 = 4 on 3-bit vectors over `ZMod 2` -/
example : BitsRing.addBits (0 : ZMod 2) (([1, 1, 0] : List Int).map Int.cast) (([1, 0, 0] : List Int).map Int.cast) =
    (([0, 0, 1] : List Int).map (Int.cast : Int → ZMod 2)) := by
  have hx : IsBits [1, 1, 0] := by intro b hb; simp at hb; omega
  have hy : IsBits [1, 0, 0] := by intro b hb; simp at hb; omega
  have h := addBits_any_ring (R := ZMod 2) [1, 1, 0] [1, 0, 0] hx hy rfl
  have hb : bitsOf (fromBits [1, 1, 0] + fromBits [1, 0, 0]) ([1, 1, 0] : List Int).length = [0, 0, 1] := by decide
  rw [hb] at h
  exact h

end MpycV.C30
