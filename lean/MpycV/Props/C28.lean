import MpycV.Model.Groups
import MpycV.Lemmas.GroupsRepeat
import MpycV.Lemmas.GroupsMod
import MpycV.Lemmas.GroupsCurves
import Mathlib.Data.ZMod.Basic

/-!
# C28 — secure group operations match plain group operations

Theorems about the exponentiation protocols of /repo/mpyc/secgroups.py (value level) and about the
oblivious variants of the curve formulas.  The secure `operation` / `inversion` are literally the plain
formulas of fingroups applied to secure field elements, so their correctness is C27 (formulas) + C04
(secure field arithmetic); the share-level protocols are validated by the harness in the simulator.
-/
namespace MpycV.C28
open MpycV.Groups

/-- ★ `repeat_public_base_secret_output` / `repeat_public_base_public_output`, abstractly: in a group
    where a^q = 1 (prime order q), if the terms lambda_i * x_i ∈ GF(q) sum to x (recombination of a
    Shamir sharing of x, C12) then the product over the parties of a^{int(lambda_i x_i)} is a^{int x}. -/
theorem repeat_public_base {α : Type} [Group α] (a : α) (q : Nat) [NeZero q] (hq : a ^ q = 1)
    (terms : List (ZMod q)) (x : ZMod q) (hrec : terms.sum = x) :
    (terms.map (fun e => a ^ e.val)).prod = a ^ x.val := by
  have h1 : ∀ ts : List (ZMod q), (ts.map (fun e => a ^ e.val)).prod = a ^ (ts.map ZMod.val).sum := by
    intro ts
    induction ts with
    | nil => simp
    | cons e es ih => simp [List.prod_cons, List.sum_cons, pow_add, ih]
  have h2 : ∀ ts : List (ZMod q), ((ts.map ZMod.val).sum : ZMod q) = ts.sum := by
    intro ts
    induction ts with
    | nil => simp
    | cons e es ih => simp [List.sum_cons, ih]
  rw [h1, ← pow_mod_of_pow_eq_one a q hq, ← ZMod.val_natCast, h2, hrec]

example : (([3, 4] : List (ZMod 5)).sum = 2) := by decide

/-- ★ the same for the executable model: `pubBaseCombine` (generic `repeat` per party, then the
    product) over the exponents e_i = lambda_i * x_i mod q equals a^x whenever the e_i recombine x. -/
theorem repeat_public_base_model {α : Type} [Group α] (G : GroupOps α)
    (hop : ∀ a b, G.op a b = a * b) (hop2 : ∀ a, G.op2 a = a * a)
    (hinv : ∀ a, G.inv a = a⁻¹) (hid : G.id = 1)
    (a : α) (q : Nat) (hq : a ^ q = 1) (shares : List Nat) (x : Nat)
    (hrec : (pubBaseExps q shares).sum % q = x % q) :
    pubBaseCombine G a (pubBaseExps q shares) = a ^ x := by
  rw [pubBaseCombine_eq G ⟨hop, hop2, hinv, hid⟩, ← pow_mod_of_pow_eq_one a q hq, hrec,
    pow_mod_of_pow_eq_one a q hq]

/-- shares 4, 2, 0 of x = 6 (polynomial 6 - 2X) over GF(7): the hypotheses are satisfiable -/
example : (pubBaseExps 7 [4, 2, 0]).sum % 7 = 6 % 7 ∧
    pubBaseCombine (modOps 29) 16 (pubBaseExps 7 [4, 2, 0]) = powMod 16 6 29 := by decide +kernel

/-- ★ the exponents used by the parties are canonical residues (`int(lambda_i * x_i)` < q). -/
theorem recomb_exponents_lt (q : Nat) (hq : 0 < q) (shares : List Nat) :
    ∀ e ∈ pubBaseExps q shares, e < q := by
  intro e he
  simp only [pubBaseExps, List.mem_iff_getElem, List.getElem_zipWith] at he
  obtain ⟨i, _, rfl⟩ := he
  exact Nat.mod_lt _ hq

/-- ★ `repeat_secret_base_secret_output`: the if_else ladder over the bits of x (least significant
    first, as returned by `to_bits`) computes a^x, in any monoid. -/
theorem repeat_secret_base {α : Type} [Monoid α] (G : GroupOps α)
    (hop : ∀ a b, G.op a b = a * b) (hop2 : ∀ a, G.op2 a = a * a) (hid : G.id = 1)
    (a : α) (bits : List Bool) : ladder G a bits = a ^ bitsVal bits :=
  ladder_spec G hop hop2 hid a bits

example : bitsVal [true, false, true, true] = 13 ∧
    ladder (modOps 23) 2 [true, false, true, true] = powMod 2 13 23 := by decide +kernel

variable {K : Type} [Field K] [DecidableEq K]

/-- ★ `runtime.if_else(c, a, b) = c * (a - b) + b` selects pointwise for a bit c. -/
theorem if_else_selects (a b : K) :
    ifElse (Fld.ofField K) 1 a b = a ∧ ifElse (Fld.ofField K) 0 a b = b :=
  ⟨ifElse_one a b, ifElse_zero a b⟩

/-- ★ the oblivious `normalize` of secure projective Weierstrass points (`zis0 = [z == 0]`,
    division by `z + zis0`) equals the plain `WeierstrassProjective.normalize` for every input. -/
theorem sec_normalize_eq_plain (P : K × K × K) :
    secWpNorm (Fld.ofField K) P = wpNorm (Fld.ofField K) P :=
  secWpNorm_eq P

/-- ★ secure equality compares the coordinates of the normalised points; this agrees with the plain
    `equality` (cross-multiplication) for representations with z ≠ 0, and for two identities. -/
theorem sec_equality_via_normalize (x1 y1 x2 y2 l m : K) (hl : l ≠ 0) (hm : m ≠ 0) :
    (decide (secWpNorm (Fld.ofField K) (x1 * l, y1 * l, l) = secWpNorm (Fld.ofField K) (x2 * m, y2 * m, m))
      = wpEq (Fld.ofField K) (x1 * l, y1 * l, l) (x2 * m, y2 * m, m)) ∧
    (∀ u v w z : K, secWpNorm (Fld.ofField K) (u, v, 0) = secWpNorm (Fld.ofField K) (w, z, 0) ∧
      wpEq (Fld.ofField K) (u, v, 0) (w, z, 0) = true) := by
  constructor
  · rw [secWpNorm_eq, secWpNorm_eq, wpEq_affine x1 y1 x2 y2 l m hl hm]
    have n1 : wpNorm (Fld.ofField K) (x1 * l, y1 * l, l) = (x1, y1, 1) := by
      simp [wpNorm, hl]
    have n2 : wpNorm (Fld.ofField K) (x2 * m, y2 * m, m) = (x2, y2, 1) := by
      simp [wpNorm, hm]
    rw [n1, n2]
    simp only [waEq, ofField_beq, Prod.mk.injEq, and_true]
    by_cases h1 : x1 = x2 <;> by_cases h2 : y1 = y2 <;> simp [h1, h2]
  · intro u v w z
    constructor
    · rw [secWpNorm_eq, secWpNorm_eq]; simp [wpNorm]
    · simp [wpEq]

end MpycV.C28
