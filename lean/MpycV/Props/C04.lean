/-
C04 — secure finite-field arithmetic equals field arithmetic.
Property theorems only (helper lemmas: MpycV.Lemmas.SecFld, MpycV.Lemmas.SecFldBits).
Model: MpycV.Model.SecFld — value layer of runtime.py `reciprocal`, `div`, `pow`, `is_zero`, `eq`,
`is_zero_public`, `and_`/`or_`/`xor`/`invert`, `to_bits`/`from_bits` (characteristic 2), `to_bits` for prime
fields, and of the lifting of small fields in sectypes.py `_SecFld`.

Structure: (1) facts over an arbitrary finite Mathlib field K; (2) the model's operations, run over any
executable field `F : Ops α` that represents K (`Faithful F V φ`), compute exactly the field results for
every choice of the masks; (3) the instance `Faithful (primeOps p)` for prime p (the executable model of
finfields.PrimeFieldElement, C20); (4) characteristic 2 on the Nat bitmask representations of
finfields.BinaryFieldElement (`binOps m`); (5) lifting.  The field laws of the executable extension-field
models `ExtF`/`BinF` themselves are property C20.
-/
import MpycV.Lemmas.SecFld
import MpycV.Lemmas.SecFldBits
import MpycV.Lemmas.SecFldLift

namespace MpycV.C04
open MpycV.SecFld

instance : Fact (Nat.Prime 7) := ⟨by decide⟩
instance : Fact (Nat.Prime 101) := ⟨by decide⟩

/-! ## (1) any finite field -/
section anyfield
variable {K : Type} [Field K]

/-- ★ `isZero_correct`: a^(q-1) = 1 ↔ a ≠ 0, so `1 - a^(q-1)` is the indicator of a = 0 -/
theorem isZero_correct [Fintype K] [DecidableEq K] (a : K) :
    (a ^ (Fintype.card K - 1) = 1 ↔ a ≠ 0) ∧ 1 - a ^ (Fintype.card K - 1) = if a = 0 then 1 else 0 :=
  ⟨pow_card_sub_one_eq_one_iff a, zero_indicator a⟩

example : ((3 : ZMod 7) ^ (7 - 1) = 1) ∧ (1 - (0 : ZMod 7) ^ (7 - 1) = 1) := by decide

/-- ★ `reciprocal_correct`: whenever the opened value a·r is nonzero, r/(a·r) = a⁻¹ -/
theorem reciprocal_correct (a r : K) (h : a * r ≠ 0) : r / (a * r) = a⁻¹ := reciprocal_field a r h

example : (5 : ZMod 7) / (3 * 5) = (3 : ZMod 7)⁻¹ := reciprocal_correct 3 5 (by decide)

/-- ★ the retry loop (`recipSpec` = open a·r for fresh masks until nonzero): it returns a value only if some
mask gives a·r ≠ 0, the value is then a⁻¹ (a ≠ 0); all earlier opened values are 0, the last is nonzero;
for a = 0 (and generally when every a·r = 0) it never returns and only zeros are opened. -/
theorem reciprocal_loop [DecidableEq K] (a : K) (rs : List K) :
    (∀ v, (recipSpec a rs).2 = some v → v = a⁻¹ ∧ a ≠ 0 ∧ ∃ r ∈ rs, a * r ≠ 0) ∧
    ((recipSpec a rs).2 = none ↔ ∀ r ∈ rs, a * r = 0) ∧
    (∀ o ∈ (recipSpec a rs).1.dropLast, o = 0) ∧
    ((recipSpec a rs).2 ≠ none → ∃ o, (recipSpec a rs).1.getLast? = some o ∧ o ≠ 0) ∧
    (a = 0 → (recipSpec a rs).2 = none ∧ ∀ o ∈ (recipSpec a rs).1, o = 0) := by
  refine ⟨fun v h => recipSpec_some a rs v h, recipSpec_none a rs, (recipSpec_opened a rs).1,
    (recipSpec_opened a rs).2.1, ?_⟩
  intro h0
  have hn : (recipSpec a rs).2 = none := (recipSpec_none a rs).mpr (fun r _ => by rw [h0, zero_mul])
  exact ⟨hn, (recipSpec_opened a rs).2.2 hn⟩

example : (recipSpec (3 : ZMod 7) [0, 0, 5, 1]).1 = [0, 0, 1] ∧ (recipSpec (3 : ZMod 7) [0, 0, 5, 1]).2 ≠ none := by decide
example : recipSpec (0 : ZMod 7) [4, 5] = ([0, 0], none) := by decide

/-- ★ `mult_blinding`: for a ≠ 0 the opened value a·r is a bijective image of the mask r on the nonzero
elements (so it is uniform on F∖{0} when r is, and reveals nothing about a); every nonzero c is hit by exactly
one mask; for a = 0 the opened value is always 0. -/
theorem mult_blinding (a : K) :
    (∀ ha : a ≠ 0, Function.Bijective (fun r : {r : K // r ≠ 0} => (⟨a * r.1, mul_ne_zero ha r.2⟩ : {c : K // c ≠ 0}))) ∧
    (a ≠ 0 → ∀ c : K, c ≠ 0 → ∃! r : K, a * r = c) ∧
    (a = 0 → ∀ r : K, a * r = 0) :=
  ⟨fun ha => blinding_bijective a ha, fun ha c hc => blinding_unique a c ha hc, fun h r => by rw [h, zero_mul]⟩

example : ∃! r : ZMod 7, (3 : ZMod 7) * r = 4 := blinding_unique (3 : ZMod 7) 4 (by decide) (by decide)

end anyfield

/-! ## (2) the model over any executable field representing K -/
section model
variable {α K : Type} [Field K] {F : Ops α} {V : α → Prop} {φ : α → K}

/-- ★ the model's `reciprocal` (runtime.py:1223), seen through φ, is exactly the retry-loop specification:
same opened values, same result — for every list of masks -/
theorem reciprocal_model [DecidableEq K] (hF : Faithful F V φ) {a : α} (ha : V a) (rs : List α) (hrs : ∀ r ∈ rs, V r) :
    (reciprocal F a rs).1.map φ = (recipSpec (φ a) (rs.map φ)).1 ∧
    (reciprocal F a rs).2.map φ = (recipSpec (φ a) (rs.map φ)).2 :=
  ⟨(reciprocal_spec hF ha rs hrs).1, (reciprocal_spec hF ha rs hrs).2.1⟩

/-- ★ secure division a / b = reciprocal(b)·a: if the loop returns, the result is a·b⁻¹ and b ≠ 0 -/
theorem div_model [DecidableEq K] (hF : Faithful F V φ) {a b : α} (ha : V a) (hb : V b) (rs : List α)
    (hrs : ∀ r ∈ rs, V r) (v : α) (h : (div F a b rs).2 = some v) :
    V v ∧ φ v = φ a / φ b ∧ φ b ≠ 0 := by
  obtain ⟨_, s2, s3⟩ := reciprocal_spec hF hb rs hrs
  unfold div at h
  simp only [Option.map_eq_some_iff] at h
  obtain ⟨c, hc, rfl⟩ := h
  have hcx : φ c = (φ b)⁻¹ ∧ φ b ≠ 0 := by
    have := s2; rw [hc, Option.map_some] at this
    have := recipSpec_some _ _ _ this.symm
    exact ⟨this.1, this.2.1⟩
  refine ⟨hF.mul_valid (s3 c hc) ha, ?_, hcx.2⟩
  rw [hF.map_mul (s3 c hc) ha, hcx.1, div_eq_mul_inv, mul_comm]

/-- ★ `a ** n` for a public exponent n ≥ 0 (including the 254 addition chain and n = 0) is φ(a)^n; nothing is opened -/
theorem pow_model (hF : Faithful F V φ) {a : α} (ha : V a) (n : Nat) (rs : List α) :
    ∃ v, pow F a (n : Int) rs = ([], some v) ∧ V v ∧ φ v = φ a ^ n := by
  obtain ⟨v, h1, h2⟩ := pow_nonneg_spec hF (x := φ a) ⟨ha, rfl⟩ n rs
  exact ⟨v, h1, h2.1, h2.2⟩

/-- ★ `a ** -n` (n ≥ 1): the reciprocal loop first; if it returns, the result is (φ(a)⁻¹)^n -/
theorem pow_neg_model [DecidableEq K] (hF : Faithful F V φ) {a : α} (ha : V a) (n : Nat) (hn : n ≠ 0)
    (rs : List α) (hrs : ∀ r ∈ rs, V r) :
    (pow F a (-(n : Int)) rs).1 = (reciprocal F a rs).1 ∧
    ((reciprocal F a rs).2 = none → (pow F a (-(n : Int)) rs).2 = none) ∧
    (∀ w, (reciprocal F a rs).2 = some w → ∃ v, (pow F a (-(n : Int)) rs).2 = some v ∧ V v ∧ φ v = ((φ a)⁻¹) ^ n) := by
  obtain ⟨p1, p2, p3⟩ := pow_neg_spec hF (x := φ a) ⟨ha, rfl⟩ n hn rs hrs
  refine ⟨p1, p2, fun w hw => ?_⟩
  obtain ⟨v, h1, h2⟩ := p3 w hw
  exact ⟨v, h1, h2.1, h2.2⟩

/-- ★ `is_zero(a) = 1 - a^(q-1)` and `a == b` output exactly the 0/1 indicators -/
theorem isZero_model [Fintype K] [DecidableEq K] (hF : Faithful F V φ) (hq : F.order = Fintype.card K)
    {a b : α} (ha : V a) (hb : V b) :
    (∃ v, isZero F a = some v ∧ V v ∧ φ v = if φ a = 0 then 1 else 0) ∧
    (∃ v, eq F a b = some v ∧ V v ∧ φ v = if φ a = φ b then 1 else 0) := by
  obtain ⟨v, h1, h2⟩ := isZero_spec hF hq (x := φ a) ⟨ha, rfl⟩
  obtain ⟨w, g1, g2⟩ := eq_spec hF hq (x := φ a) (y := φ b) ⟨ha, rfl⟩ ⟨hb, rfl⟩
  exact ⟨⟨v, h1, h2.1, h2.2⟩, ⟨w, g1, g2.1, g2.2⟩⟩

/-- ★ `is_zero_public`: with a nonzero mask the public answer is right and the opened value is a·r -/
theorem isZeroPublic_model (hF : Faithful F V φ) {a r : α} (ha : V a) (hr : V r) (hr0 : φ r ≠ 0) :
    φ (isZeroPublic F a r).1 = φ a * φ r ∧ ((isZeroPublic F a r).2 = true ↔ φ a = 0) :=
  isZeroPublic_spec hF ⟨ha, rfl⟩ ⟨hr, rfl⟩ hr0

end model

/-! ## (3) prime fields -/

/-- ★ the executable prime-field model (≙ finfields.PrimeFieldElement) represents `ZMod p`, so all of (2)
applies to secure prime-field arithmetic with K = ZMod p, q = p -/
theorem prime_field_faithful (p : Nat) [Fact p.Prime] :
    Faithful (primeOps p) (fun a => a < p) (fun a => (a : ZMod p)) ∧
    (primeOps p).order = Fintype.card (ZMod p) :=
  ⟨primeOps_faithful p, primeOps_order p⟩

/-- non-vacuity: 3/5 in GF(7) with masks 0 (retry) and 4; 3^254, 3^-2, 3 == 3 -/
example : div (primeOps 7) 3 5 [0, 4] = ([0, 6], some 2) ∧ (2 : ZMod 7) * 5 = 3 := by decide
example : pow (primeOps 7) 3 254 [] = ([], some 2) ∧ (3 : ZMod 7) ^ 2 = 2 := by decide  -- 254 ≡ 2 mod 6
example : pow (primeOps 101) 3 (-2) [7] = ([21], some 45) ∧ (45 : ZMod 101) * 3 ^ 2 = 1 := by decide
example : eq (primeOps 7) 3 3 = some 1 ∧ eq (primeOps 7) 3 4 = some 0 := by decide

/-- ★ corollary for prime fields: secure division outputs a·b⁻¹ in GF(p) for every mask list on which it returns -/
theorem prime_div_correct (p : Nat) [Fact p.Prime] {a b : Nat} (ha : a < p) (hb : b < p) (rs : List Nat)
    (hrs : ∀ r ∈ rs, r < p) (v : Nat) (h : (div (primeOps p) a b rs).2 = some v) :
    v < p ∧ (v : ZMod p) = (a : ZMod p) / (b : ZMod p) ∧ (b : ZMod p) ≠ 0 :=
  div_model (primeOps_faithful p) ha hb rs hrs v h

/-- ★ `toBits_prime`: the bit decomposition of a prime-field element (via SecInt, C06/C30) consists of l bits
that rebuild `x mod 2^l`, `x` the canonical UNSIGNED representative of the element — for unsigned and for signed
fields alike (for signed fields the code adds p to negative integers first, repo fix of C04-signed-prime-field-to-bits) -/
theorem toBits_prime (p : Nat) (sg : Bool) (x l : Nat) (hx : x < p) :
    bitsToNat (toBitsPrime p sg x l) = x % 2 ^ l ∧
    (toBitsPrime p sg x l).length = l ∧ ∀ b ∈ toBitsPrime p sg x l, b < 2 := by
  obtain ⟨h1, h2, h3⟩ := toBitsPrime_correct p sg x l
  refine ⟨?_, h2, h3⟩
  rw [h1, toBitsPrimeArg_eq p sg x hx]
  have : ((x : Int) % ((2 ^ l : Nat) : Int)) = ((x % 2 ^ l : Nat) : Int) := by push_cast; rfl
  rw [this, Int.toNat_natCast]

example : toBitsPrime 101 false 99 7 = [1, 1, 0, 0, 0, 1, 1] ∧ toBitsPrime 101 true 99 7 = [1, 1, 0, 0, 0, 1, 1] := by
  decide

/-! ## (4) characteristic 2: bitwise operations on the representations -/
section char2
open MpycV.BinPoly (bitLen)
variable {m : Nat}

/-- ★ xor is field addition = bitwise XOR of the representations -/
theorem xor_bitwise {a b : Nat} (hm : 1 ≤ bitLen m) (ha : a < 2 ^ (bitLen m - 1)) (hb : b < 2 ^ (bitLen m - 1)) :
    xor (binOps m) a b = a ^^^ b := xor_correct hm ha hb

/-- ★ invert = a + (q-1) is the bitwise complement on the ext_deg = d bits -/
theorem invert_bitwise {a : Nat} (hm : 1 ≤ bitLen m) (ha : a < 2 ^ (bitLen m - 1)) :
    invert (binOps m) none a = a ^^^ (2 ^ (bitLen m - 1) - 1) ∧
    invert (binOps m) none a = 2 ^ (bitLen m - 1) - 1 - a := invert_correct hm ha

/-- ★ `toBits_binary`: for every choice of the random bits, `to_bits` returns the low l bits of the
representation and opens a ⊕ r -/
theorem toBits_binary {a : Nat} {rbits : List Nat} (hm : 2 ≤ bitLen m) (ha : a < 2 ^ (bitLen m - 1))
    (hb : ∀ b ∈ rbits, b < 2) (hl : rbits.length ≤ bitLen m - 1) :
    toBitsBin (binOps m) a rbits =
      (a ^^^ bitsToNat rbits, (List.range rbits.length).map (fun i => (a.testBit i).toNat)) :=
  toBitsBin_correct hm ha hb hl

/-- ★ and_ / or_ equal the Nat bitwise operations on the representations, for all random bits -/
theorem and_or_bitwise {a b : Nat} {ra rb : List Nat} (hm : 2 ≤ bitLen m)
    (ha : a < 2 ^ (bitLen m - 1)) (hb : b < 2 ^ (bitLen m - 1))
    (hra : ∀ x ∈ ra, x < 2) (hrb : ∀ x ∈ rb, x < 2)
    (hla : ra.length = bitLen m - 1) (hlb : rb.length = bitLen m - 1) :
    and_ (binOps m) a b ra rb = a &&& b ∧ or_ (binOps m) a b ra rb = a ||| b :=
  ⟨and_correct hm ha hb hra hrb hla hlb, or_correct hm ha hb hra hrb hla hlb⟩

/-- non-vacuity on GF(2^8) with the AES modulus 283 = x^8+x^4+x^3+x+1 -/
example : and_ (binOps 283) 83 202 [1,0,1,1,0,0,1,0] [0,0,0,0,1,1,1,1] = 83 &&& 202 ∧
    or_ (binOps 283) 83 202 [1,0,1,1,0,0,1,0] [0,0,0,0,1,1,1,1] = 83 ||| 202 ∧
    invert (binOps 283) none 83 = 172 ∧ xor (binOps 283) 83 202 = 153 ∧
    (toBitsBin (binOps 283) 83 [1,0,1,1,0,0,1,0]).2 = [1,1,0,0,1,0,1,0] := by decide

end char2

/-! ## (5) lifting of small prime fields -/

/-- ★ `lift_hom` (odd q): in the lifted field GF(q^e) = `extOps q m` (q prime, deg m ≥ 2) the constants form a
copy of GF(q): the input conversion `liftIn` (sectypes.py:372-375) maps an int to the constant `v mod q`,
+, -, * of constants are the constants of the GF(q) results, and the output conversion `outConv`
(sectypes.py:650-653) returns exactly that GF(q) value — and fails (AssertionError) on non-constants. -/
theorem lift_hom {q : Nat} {m : List Nat} (hq : q.Prime) (hm : 3 ≤ m.length) {a b : Nat} (ha : a < q) (hb : b < q) :
    (∀ v : Int, liftIn (extOps q m) q v = const (v % (q : Int)).toNat) ∧
    (extOps q m).add (const a) (const b) = const ((a + b) % q) ∧
    (extOps q m).sub (const a) (const b) = const ((a + q - b) % q) ∧
    (extOps q m).mul (const a) (const b) = const ((a * b) % q) ∧
    outConv (extOps q m) q (const a) = some a ∧
    (∀ x : List Nat, 2 ≤ x.length → x.getLast? ≠ some 0 → outConv (extOps q m) q x = none) :=
  ⟨ext_liftIn hq.pos hm, ext_add_const hm ha hb, ext_sub_const hm ha hb, ext_mul_const hq hm ha hb,
   ext_outConv_const ha, fun _ h hl => ext_outConv_nonconst hq.pos h hl⟩

/-- ★ `lift_hom` (q = 2): the constants 0, 1 of a binary field GF(2^e), e ≥ 2 -/
theorem lift_hom_binary {m : Nat} (hm : 3 ≤ BinPoly.bitLen m) {a b : Nat} (ha : a < 2) (hb : b < 2) :
    (binOps m).add a b = (a + b) % 2 ∧ (binOps m).sub a b = (a + 2 - b) % 2 ∧ (binOps m).mul a b = (a * b) % 2 ∧
    outConv (binOps m) 2 a = some a ∧ (∀ v : Int, liftIn (binOps m) 2 v = (v % 2).toNat) :=
  bin_lift hm ha hb

/-- the lifting decision and degree of the model on the configurations of the tie -/
example : isLifted 3 3 1 = true ∧ isLifted 3 3 0 = false ∧ isLifted 7 5 2 = false ∧ liftDeg 3 3 = 2 ∧
    liftDeg 2 3 = 2 ∧ liftDeg 2 5 = 3 ∧ liftDeg 5 5 = 2 := by decide

/-- non-vacuity: GF(3) lifted to GF(9) = GF(3)[x]/(x^2+1): 2·2 = 1, 2+2 = 1, -1 ↦ 2, x+2 is rejected -/
example : (extOps 3 [1, 0, 1]).mul (const 2) (const 2) = const 1 ∧ (extOps 3 [1, 0, 1]).add (const 2) (const 2) = const 1 ∧
    liftIn (extOps 3 [1, 0, 1]) 3 (-1) = const 2 ∧ outConv (extOps 3 [1, 0, 1]) 3 [2, 1] = none ∧
    outConv (extOps 3 [1, 0, 1]) 3 (const 2) = some 2 := by decide

end MpycV.C04
