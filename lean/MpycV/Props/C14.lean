/-
C14 — sharings dealt during protocols have full threshold degree; no secret or share travels in the clear (t ≥ 1).

Model of a dealing call: `randomSplit o s coeffs t m` (Model/Thresha.lean ≙ thresha.py:23-44) with
  * `t` = the runtime's threshold (`_distribute` runtime.py:491-495, `_reshare` :662, and through `input` the
    no-PRSS branches of `_randoms` :4056, `random_bits` :4146/4165, `_convert` :752-753) — that the real calls pass
    `self.threshold` and draw `t` fresh `randbelow(order)` values per secret is the CORRESPONDENCE part (the
    coordinator's harness monitors every `random_split` call and its `randbelow` draws);
  * `coeffs` = the stream of those draws; secret number `h` uses the slice `coeffsFor coeffs t h` (its own t draws).
  The message for party `i` is row `i` of the matrix (`marshal(data)`), nothing else is sent.

What is proved, for an arbitrary finite field `F` with the embedding hypothesis of C12/C13:
  1. the dealt polynomial has degree ≤ t, constant term the dealt value, and degree EXACTLY t iff the first draw
     `c[0]` (its leading coefficient) is non-zero.  The literal clause "degree exactly t" of the property is
     therefore true with probability 1 - 1/|F| only, not always: `thresha.random_split` draws `c[0]` from
     `randbelow(order)`, 0 included (`dealt_degree_can_drop` gives the witness).  This is harmless for the
     "therefore" part of the property — (2) and (3) hold for EVERY outcome of the draws, c[0] = 0 included —
     and is reported to the coordinator as an observation, not a defect.
  2. `payload_uniform`: the rows sent to any coalition of ≤ t parties are uniformly distributed and independent
     of the dealt value (counting over the coefficient vectors; probability = count / |F|^t under the
     `secrets.randbelow` uniformity assumption).
  3. `no_share_in_clear`: for t ≥ 1, every single payload value `y` is produced by exactly |F|^(t-1) coefficient
     vectors, whatever the dealt value: a subshare equals the dealer's secret / its own share / any other fixed
     value with probability exactly 1/|F|.
  4. `t0_share_is_secret`: with t = 0 every row IS the dealt value — so t ≥ 1 is necessary, and replacing the
     threshold by 0 in a dealing call puts the value on the wire.
-/
import MpycV.Lemmas.ShareDeal
import MpycV.Lemmas.ThreshaModP

namespace MpycV.C14

open MpycV.Thresha MpycV.Share Polynomial

variable {F : Type} [Field F]

instance : Fact (Nat.Prime 7) := ⟨by decide⟩

lemma injOn7 : Set.InjOn (Nat.cast : ℕ → ZMod 7) (Set.Iic 5) := by
  intro a ha b hb h
  simp only [Set.mem_Iic] at ha hb
  interval_cases a <;> interval_cases b <;> first | rfl | (exfalso; revert h; decide)

/-! ### the dealt polynomial -/

/-- every dealt share is the value at `emb (i+1)` of a polynomial of degree ≤ t with constant term the dealt
secret (C12 `randomSplit_poly`, restated for the dealing calls) -/
theorem dealt_poly (emb : ℕ → F) (s coeffs : List F) (t m : ℕ) {i h : ℕ} (hi : i < m) (hh : h < s.length) :
    ((randomSplit (fieldOps F emb) s coeffs t m).getD i []).getD h 0
        = (sharePoly (s.getD h 0) (coeffsFor coeffs t h)).eval (emb (i + 1))
      ∧ (sharePoly (s.getD h 0) (coeffsFor coeffs t h)).natDegree ≤ t
      ∧ (sharePoly (s.getD h 0) (coeffsFor coeffs t h)).eval 0 = s.getD h 0 :=
  ⟨randomSplit_eq_eval emb s coeffs t m hi hh,
   (natDegree_sharePoly_le _ _).trans (length_coeffsFor_le coeffs t h), sharePoly_eval_zero _ _⟩

example : ((randomSplit (fieldOps (ZMod 7) Nat.cast) [3, 5] [2, 6, 1, 4] 2 5).getD 4 []).getD 1 0
    = (sharePoly (([3, 5] : List (ZMod 7)).getD 1 0) (coeffsFor [2, 6, 1, 4] 2 1)).eval ((4 + 1 : ℕ) : ZMod 7) :=
  (dealt_poly _ [3, 5] [2, 6, 1, 4] 2 5 (by decide) (by decide)).1

/-- ★ `dealt_degree_exact_generic`: with `t ≥ 1` coefficients `c`, the dealt polynomial has degree exactly `t`
iff the first coefficient drawn, `c[0]`, is non-zero. -/
theorem dealt_degree_exact_generic (s : F) (c : List F) (hc : c ≠ []) :
    (sharePoly s c).natDegree = c.length ↔ c.headD 0 ≠ 0 :=
  natDegree_sharePoly_eq_iff s c hc

example : (sharePoly (3 : ZMod 7) [2, 0]).natDegree = ([2, 0] : List (ZMod 7)).length :=
  (dealt_degree_exact_generic 3 [2, 0] (by simp)).2 (by decide)

/-- the literal clause "degree exactly t" fails exactly when the first draw is 0 (probability 1/|F|):
then the degree is < t -/
theorem dealt_degree_can_drop (s : F) (c : List F) (hc : c ≠ []) (h0 : c.headD 0 = 0) :
    (sharePoly s c).natDegree < c.length :=
  natDegree_sharePoly_lt s c hc h0

example : (sharePoly (3 : ZMod 7) [0, 5]).natDegree < ([0, 5] : List (ZMod 7)).length :=
  dealt_degree_can_drop 3 [0, 5] (by simp) (by simp)

/-- counting version: exactly `(|F|-1)·|F|^(t-1)` of the `|F|^t` coefficient vectors give degree exactly `t`
(here `t = t' + 1 ≥ 1`): probability `1 - 1/|F|` under uniform independent draws -/
theorem dealt_degree_exact_count [Fintype F] [DecidableEq F] (s : F) (t' : ℕ) :
    Nat.card {c : Fin (t' + 1) → F // (sharePoly s (List.ofFn c)).natDegree = t' + 1}
      = (Fintype.card F - 1) * Fintype.card F ^ t' :=
  card_full_degree s t'

example : Nat.card {c : Fin (1 + 1) → ZMod 7 // (sharePoly (3 : ZMod 7) (List.ofFn c)).natDegree = 1 + 1}
    = (Fintype.card (ZMod 7) - 1) * Fintype.card (ZMod 7) ^ 1 :=
  dealt_degree_exact_count 3 1

/-- fresh polynomial per secret: coefficient `j` of secret number `h` is draw number `h·t + j` of the stream, and
distinct (secret, position) pairs use distinct draws — no draw is shared between two secrets of a batch -/
theorem coefficients_fresh (coeffs : List F) (t : ℕ) :
    (∀ h j, j < t → (coeffsFor coeffs t h).getD j 0 = coeffs.getD (h * t + j) 0)
      ∧ ∀ h j h' j', j < t → j' < t → h * t + j = h' * t + j' → h = h' ∧ j = j' :=
  ⟨fun h j hj => coeffsFor_getD coeffs t h j 0 hj, fun _ _ _ _ hj hj' e => draw_index_inj hj hj' e⟩

example : (coeffsFor ([2, 6, 1, 4] : List (ZMod 7)) 2 1).getD 0 0
    = ([2, 6, 1, 4] : List (ZMod 7)).getD (1 * 2 + 0) 0 :=
  (coefficients_fresh _ 2).1 1 0 (by decide)

/-! ### what goes over the wire -/

variable [Fintype F]

/-- ★ `payload_uniform`: one value `s` dealt with threshold `t < m`; `A` any set of at most `t` parties (the
receivers a coalition controls).  For every candidate tuple of payloads `y` the number of coefficient vectors
`c ∈ F^t` for which every party `i ∈ A` receives exactly the row `[y i]` is `|F|^(t-|A|)` — the same for every
dealt value `s` and every `y`: the joint payload is uniform on `F^|A|` and independent of `s`. -/
theorem payload_uniform (emb : ℕ → F) (h0 : emb 0 = 0) {m : ℕ} (hemb : Set.InjOn emb (Set.Iic m))
    (t : ℕ) (htm : t < m) (A : Finset ℕ) (hA : ∀ i ∈ A, i < m) (hAt : A.card ≤ t) (s : F) (y : ℕ → F) :
    Nat.card {c : Fin t → F // ∀ i ∈ A,
        (randomSplit (fieldOps F emb) [s] (List.ofFn c) t m).getD i [] = [y i]}
      = Fintype.card F ^ (t - A.card) := by
  rw [← coalition_view_card emb h0 hemb t htm A hA hAt s y]
  apply Nat.card_congr
  apply Equiv.subtypeEquivRight
  intro c
  constructor
  · intro h i hi
    have := h i hi
    rw [randomSplit_single_row _ s c (hA i hi)] at this
    simpa using this
  · intro h i hi
    rw [randomSplit_single_row _ s c (hA i hi), h i hi]

example : Nat.card {c : Fin 2 → ZMod 7 // ∀ i ∈ ({1, 4} : Finset ℕ),
      (randomSplit (fieldOps (ZMod 7) Nat.cast) [3] (List.ofFn c) 2 5).getD i [] = [(fun _ => (6 : ZMod 7)) i]}
    = Fintype.card (ZMod 7) ^ (2 - ({1, 4} : Finset ℕ).card) :=
  payload_uniform _ (by simp) injOn7 2 (by decide) {1, 4} (by decide) (by decide) 3 _

/-- the payload distribution is the same for any two dealt values -/
theorem payload_independent_of_value (emb : ℕ → F) (h0 : emb 0 = 0) {m : ℕ}
    (hemb : Set.InjOn emb (Set.Iic m)) (t : ℕ) (htm : t < m) (A : Finset ℕ) (hA : ∀ i ∈ A, i < m)
    (hAt : A.card ≤ t) (s s' : F) (y : ℕ → F) :
    Nat.card {c : Fin t → F // ∀ i ∈ A,
        (randomSplit (fieldOps F emb) [s] (List.ofFn c) t m).getD i [] = [y i]}
      = Nat.card {c : Fin t → F // ∀ i ∈ A,
        (randomSplit (fieldOps F emb) [s'] (List.ofFn c) t m).getD i [] = [y i]} := by
  rw [payload_uniform emb h0 hemb t htm A hA hAt s y, payload_uniform emb h0 hemb t htm A hA hAt s' y]

example : Nat.card {c : Fin 2 → ZMod 7 // ∀ i ∈ ({0, 2} : Finset ℕ),
      (randomSplit (fieldOps (ZMod 7) Nat.cast) [0] (List.ofFn c) 2 5).getD i [] = [(fun _ => (6 : ZMod 7)) i]}
    = Nat.card {c : Fin 2 → ZMod 7 // ∀ i ∈ ({0, 2} : Finset ℕ),
      (randomSplit (fieldOps (ZMod 7) Nat.cast) [5] (List.ofFn c) 2 5).getD i [] = [(fun _ => (6 : ZMod 7)) i]} :=
  payload_independent_of_value _ (by simp) injOn7 2 (by decide) {0, 2} (by decide) (by decide) 0 5 _

/-- ★ `no_share_in_clear`: threshold `t ≥ 1`, receiver `j < m`, ANY fixed value `y` (the dealer's secret, the
dealer's own share of some value, a share of another party, …): the number of coefficient vectors for which the
subshare sent to `j` equals `y` is `|F|^(t-1)`, for every dealt value — i.e. probability exactly `1/|F|`, and
`count · |F| = |F|^t`. -/
theorem no_share_in_clear (emb : ℕ → F) (h0 : emb 0 = 0) {m : ℕ} (hemb : Set.InjOn emb (Set.Iic m))
    (t : ℕ) (ht : 1 ≤ t) (htm : t < m) {j : ℕ} (hj : j < m) (s y : F) :
    Nat.card {c : Fin t → F // shareAt (fieldOps F emb) s (List.ofFn c) (j + 1) = y}
        = Fintype.card F ^ (t - 1)
      ∧ Nat.card {c : Fin t → F // shareAt (fieldOps F emb) s (List.ofFn c) (j + 1) = y}
        * Fintype.card F = Fintype.card F ^ t := by
  have key := coalition_view_card emb h0 hemb t htm {j} (by simpa using hj) (by simpa using ht) s
    (fun _ => y)
  have e : Nat.card {c : Fin t → F // shareAt (fieldOps F emb) s (List.ofFn c) (j + 1) = y}
      = Fintype.card F ^ (t - 1) := by
    rw [← Finset.card_singleton j, ← key]
    apply Nat.card_congr
    apply Equiv.subtypeEquivRight
    intro c
    simp
  refine ⟨e, ?_⟩
  rw [e, ← pow_succ]
  congr 1; omega

example : Nat.card {c : Fin 2 → ZMod 7 //
      shareAt (fieldOps (ZMod 7) Nat.cast) 4 (List.ofFn c) (3 + 1) = 4} * Fintype.card (ZMod 7)
    = Fintype.card (ZMod 7) ^ 2 :=
  (no_share_in_clear _ (by simp) injOn7 2 (by decide) (by decide) (j := 3) (by decide) 4 4).2

/-- the same count for two different dealt values: the subshare carries no information about the value -/
theorem subshare_independent_of_value (emb : ℕ → F) (h0 : emb 0 = 0) {m : ℕ}
    (hemb : Set.InjOn emb (Set.Iic m)) (t : ℕ) (ht : 1 ≤ t) (htm : t < m) {j : ℕ} (hj : j < m)
    (s s' y : F) :
    Nat.card {c : Fin t → F // shareAt (fieldOps F emb) s (List.ofFn c) (j + 1) = y}
      = Nat.card {c : Fin t → F // shareAt (fieldOps F emb) s' (List.ofFn c) (j + 1) = y} := by
  rw [(no_share_in_clear emb h0 hemb t ht htm hj s y).1, (no_share_in_clear emb h0 hemb t ht htm hj s' y).1]

example : Nat.card {c : Fin 1 → ZMod 7 // shareAt (fieldOps (ZMod 7) Nat.cast) 2 (List.ofFn c) (0 + 1) = 2}
    = Nat.card {c : Fin 1 → ZMod 7 // shareAt (fieldOps (ZMod 7) Nat.cast) 6 (List.ofFn c) (0 + 1) = 2} :=
  subshare_independent_of_value _ (by simp) injOn7 1 (by decide) (by decide) (j := 0) (by decide) 2 6 2

omit [Fintype F] in
/-- the hypothesis `t ≥ 1` is necessary: with threshold 0 every row of the matrix is the dealt value itself
(what a dealing call with `t` replaced by 0 would put on the wire) -/
theorem t0_share_is_secret (emb : ℕ → F) (s : F) (coeffs : List F) {m i : ℕ} (hi : i < m) :
    (randomSplit (fieldOps F emb) [s] coeffs 0 m).getD i [] = [s] := by
  rw [randomSplit_row _ [s] coeffs 0 m hi]
  simp [List.zipIdx, coeffsFor, shareAt, horner]

example : (randomSplit (fieldOps (ZMod 7) Nat.cast) [3] [5, 1] 0 3).getD 2 [] = [3] :=
  t0_share_is_secret _ 3 [5, 1] (by decide)

omit [Field F] [Fintype F] in
/-- the executable model deals the same matrix shape for every field: m rows (one message per party), one
entry per secret -/
theorem dealt_shape (o : FieldOps F) (s coeffs : List F) (t m : ℕ) :
    (randomSplit o s coeffs t m).length = m
      ∧ ∀ i < m, ((randomSplit o s coeffs t m).getD i []).length = s.length := by
  refine ⟨length_randomSplit o s coeffs t m, fun i hi => ?_⟩
  rw [randomSplit_row o s coeffs t m hi]
  simp

example : (randomSplit (modP 7) [3, 5] [2, 6, 1, 4] 2 5).length = 5 :=
  (dealt_shape (modP 7) [3, 5] [2, 6, 1, 4] 2 5).1

/-- `payload_uniform` for the executable model `modP p` on canonical representatives (what the driver runs) -/
theorem payload_uniform_modP (p : ℕ) [Fact p.Prime] {m : ℕ} (hm : m < p) (t : ℕ) (htm : t < m)
    (A : Finset ℕ) (hA : ∀ i ∈ A, i < m) (hAt : A.card ≤ t) (s : ZMod p) (y : ℕ → ZMod p) :
    Nat.card {c : Fin t → ZMod p // ∀ i ∈ A,
        (randomSplit (modP p) [s.val] (List.ofFn fun k => (c k).val) t m).getD i [] = [(y i).val]}
      = p ^ (t - A.card) := by
  rw [← coalition_view_card_modP p hm t htm A hA hAt s y]
  apply Nat.card_congr
  apply Equiv.subtypeEquivRight
  intro c
  constructor
  · intro h i hi
    have := h i hi
    rw [randomSplit_single_row _ s.val (fun k => (c k).val) (hA i hi)] at this
    simpa using this
  · intro h i hi
    rw [randomSplit_single_row _ s.val (fun k => (c k).val) (hA i hi), h i hi]

example : Nat.card {c : Fin 2 → ZMod 7 // ∀ i ∈ ({1, 2} : Finset ℕ),
      (randomSplit (modP 7) [(3 : ZMod 7).val] (List.ofFn fun k => (c k).val) 2 5).getD i []
        = [((fun _ => (6 : ZMod 7)) i).val]}
    = 7 ^ (2 - ({1, 2} : Finset ℕ).card) :=
  payload_uniform_modP 7 (m := 5) (by decide) 2 (by decide) {1, 2} (by decide) (by decide) 3 _

/-! ### the field must have more elements than there are parties -/

private lemma horner_modP_zero (p : ℕ) (c : List ℕ) (y : ℕ) :
    c.foldl (fun y cj => (modP p).mul ((modP p).add y cj) 0) (y * 0) = 0 := by
  induction c generalizing y with
  | nil => simp
  | cons a c ih =>
    simp only [List.foldl_cons]
    have h : (modP p).mul ((modP p).add (y * 0) a) 0 = ((modP p).add (y * 0) a) * 0 := by simp [modP]
    rw [h]
    exact ih _

/-- the hypothesis `m < p` of `payload_uniform_modP` / `no_share_in_clear` (guaranteed in the code by `_SecFld`'s lifting
of fields with at most m elements, sectypes.py) is necessary: a party whose x-coordinate is a multiple of p — party p-1
when GF(p) is used with p parties — receives the dealt value ITSELF as its subshare, for every choice of coefficients -/
theorem point_zero_share_is_secret (p : ℕ) (s : ℕ) (c : List ℕ) (k : ℕ) :
    shareAt (modP p) s c (k * p) = s % p := by
  unfold shareAt horner
  have h0 : (modP p).ofNat (k * p) = 0 := by simp [modP]
  rw [h0]
  have := horner_modP_zero p c 0
  simp only [Nat.zero_mul] at this
  have hz : (modP p).zero = 0 := rfl
  rw [hz, this]
  simp [modP]

/-- … as a statement about the dealing call: over GF(p) with m = p parties the last row of the matrix is the batch of
dealt values, whatever the threshold and the draws -/
theorem last_row_is_secret_when_m_eq_p (p : ℕ) (hp : 0 < p) (s coeffs : List ℕ) (t : ℕ) :
    (randomSplit (modP p) s coeffs t p).getD (p - 1) [] = s.map (· % p) := by
  rw [randomSplit_row _ s coeffs t p (by omega)]
  have hp1 : p - 1 + 1 = 1 * p := by omega
  rw [hp1]
  simp only [point_zero_share_is_secret]
  induction s using List.reverseRecOn with
  | nil => simp
  | append_singleton l a ih => simp [List.zipIdx_append, ih]

example : (randomSplit (modP 3) [2] [1] 1 3).getD 2 [] = [2] := by decide

end MpycV.C14
