/-
C03 — fixed-point integrality flags are never wrong.

Model: MpycV.Model.Fxp (value + flag of every operation, the flag-dependent shortcut `>> f` transcribed
as the literal field operation).  `FInv f v : v.flag → 2^f ∣ v.A` is shown for all constructors and
preserved by every operation (`inv_*`); under `FInv` the shortcut is the exact integer quotient
(`shortcut_exact`) and clearing flags does not change the value (`flag_independent_*`); the rule used
before commit bd0804d (flag of element 0) violates `FInv` (`first_element_rule_unsound`).

Hypotheses that occur: `p % 2 = 1` (the modulus is an odd prime; only oddness is used) and
`Fits p q` (`2|q| < p`: the exact quotient is a signed representative, i.e. the result is in range —
the types guarantee `p > 2^(l+f+k+1)`).  The linear operations need no hypothesis at all.
-/
import MpycV.Lemmas.Fxp

namespace MpycV.C03
open MpycV.Fxp

/-- the modulus of `mpc.SecFxp(8, 4)` with the default security parameter 30 (44-bit prime) -/
def P84 : Nat := 17592186044399
def T84 : Ty := ⟨8, 4, 30, P84⟩

instance (f : Nat) (v : V) : Decidable (FInv f v) := by unfold FInv; infer_instance
instance (f : Nat) (xs : List V) : Decidable (FInvL f xs) := by unfold FInvL; infer_instance
instance (p : Nat) (x : Int) : Decidable (Fits p x) := by unfold Fits; infer_instance

/-! ### constructors -/

theorem inv_ofInt (f : Nat) (n : Int) : FInv f (ofInt f n) := fun _ => Dvd.intro_left _ rfl
example : FInv 4 (ofInt 4 (-3)) ∧ (ofInt 4 (-3)).flag = true := ⟨inv_ofInt 4 (-3), rfl⟩

theorem inv_ofBit (f : Nat) (b : Int) : FInv f (ofBit f b) := fun _ => Dvd.intro_left _ rfl
example : FInv 4 (ofBit 4 1) ∧ (ofBit 4 1).flag = true := ⟨inv_ofBit 4 1, rfl⟩

/-- `secfxp(x)` for a float: the flag is `x.is_integer()`, and then `round(x * 2^f)` is `x * 2^f` exactly,
a multiple of `2^f` -/
theorem inv_ofFloat (f : Nat) (x : Dy) : FInv f (ofFloat f x) := by
  intro hfl
  simp only [ofFloat, Dy.isInteger] at hfl
  simp only [ofFloat, scaleRound]
  by_cases he : x.e ≥ 0
  · have hs : x.e + (f : Int) ≥ 0 := by omega
    simp only [hs, if_true]
    have : (x.e + (f : Int)).toNat = x.e.toNat + f := by omega
    rw [this, pow_add, ← mul_assoc]
    exact Dvd.intro_left _ rfl
  · simp only [he, if_false, beq_iff_eq] at hfl
    have hdvd : (2 : Int) ^ (-x.e).toNat ∣ x.m := Int.dvd_of_emod_eq_zero hfl
    obtain ⟨m', hm'⟩ := hdvd
    by_cases hs : x.e + (f : Int) ≥ 0
    · simp only [hs, if_true]
      have hf : f = (-x.e).toNat + (x.e + (f : Int)).toNat := by omega
      rw [hm']
      have : (2 : Int) ^ (-x.e).toNat * m' * (2 : Int) ^ (x.e + (f : Int)).toNat
          = (2 : Int) ^ ((-x.e).toNat + (x.e + (f : Int)).toNat) * m' := by rw [pow_add]; ring
      rw [this, ← hf]
      exact Dvd.intro _ rfl
    · simp only [hs, if_false]
      -- x.m = 2^(-s) * (2^f * m'), so the rounding is exact
      have hsplit : (-x.e).toNat = (-(x.e + (f : Int))).toNat + f := by omega
      have hm2 : x.m = (2 : Int) ^ (-(x.e + (f : Int))).toNat * ((2 : Int) ^ f * m') := by
        rw [hm', hsplit, pow_add]; ring
      set D : Int := (2 : Int) ^ (-(x.e + (f : Int))).toNat with hD
      have hDpos : 0 < D := two_pow_pos _
      unfold roundHalfEven
      simp only []
      rw [← hD, hm2, Int.mul_ediv_cancel_left _ hDpos.ne', Int.mul_emod_right]
      simp only [mul_zero, hDpos, if_true]
      exact Dvd.intro _ rfl
example : FInv 4 (ofFloat 4 ⟨3, 0⟩) ∧ (ofFloat 4 ⟨3, 0⟩).flag = true ∧ (ofFloat 4 ⟨3, -1⟩).flag = false ∧
    (ofFloat 4 ⟨12, -2⟩) = ⟨48, true⟩ := ⟨inv_ofFloat 4 _, by decide, by decide, by decide⟩

/-! ### scalar operations -/

theorem inv_neg {f : Nat} {a : V} (h : FInv f a) : FInv f (neg a) := fun hf => (Int.dvd_neg).2 (h hf)
theorem inv_pos {f : Nat} {a : V} (h : FInv f a) : FInv f (pos a) := fun hf => h hf

theorem inv_add {f : Nat} {a b : V} (ha : FInv f a) (hb : FInv f b) : FInv f (add a b) := by
  intro hf
  simp only [add, Bool.and_eq_true] at hf
  exact Int.dvd_add (ha hf.1) (hb hf.2)

theorem inv_sub {f : Nat} {a b : V} (ha : FInv f a) (hb : FInv f b) : FInv f (sub a b) := by
  intro hf
  simp only [sub, Bool.and_eq_true] at hf
  exact Int.dvd_sub (ha hf.1) (hb hf.2)
example : FInv 4 (add ⟨16, true⟩ ⟨32, true⟩) ∧ (add ⟨16, true⟩ ⟨32, true⟩).flag = true ∧
    (sub ⟨16, true⟩ ⟨5, false⟩).flag = false := ⟨inv_add (by decide) (by decide), rfl, rfl⟩

theorem inv_mulInt {f : Nat} {a : V} (h : FInv f a) (n : Int) : FInv f (mulInt a n) :=
  fun hf => Dvd.dvd.mul_right (h hf) n
example : FInv 4 (mulInt ⟨16, true⟩ 3) ∧ (mulInt ⟨16, true⟩ 3) = ⟨48, true⟩ := ⟨inv_mulInt (by decide) 3, rfl⟩

/-- `a << n`: flag `a.integral or n >= f` -/
theorem inv_lshift {f : Nat} {a : V} (h : FInv f a) (n : Nat) : FInv f (lshift f a n) := by
  intro hf
  simp only [lshift, Bool.or_eq_true, decide_eq_true_eq] at hf
  rcases hf with hf | hf
  · exact Dvd.dvd.mul_right (h hf) _
  · exact Dvd.dvd.mul_left (pow_dvd_pow 2 hf) _
example : FInv 4 (lshift 4 ⟨5, false⟩ 4) ∧ (lshift 4 ⟨5, false⟩ 4) = ⟨80, true⟩ ∧ (lshift 4 ⟨5, false⟩ 3).flag = false :=
  ⟨inv_lshift (by decide) 4, by decide, by decide⟩

/-- secure × secure, every flag combination, every randomness.  The flag of the product is set only if
both flags are set; then the code divides by `2^f` in the field, which (for in-range results) is the
integer quotient, again a multiple of `2^f`. -/
theorem inv_mulSS {t : Ty} (hodd : t.p % 2 = 1) {a b : V} (ha : FInv t.f a) (hb : FInv t.f b) (r : Rnd)
    (hfit : Fits t.p (a.A * b.A / (2 : Int) ^ t.f)) : FInv t.f (mulSS t a b r) := by
  intro hf
  unfold mulSS at hf ⊢
  by_cases hab : (a.flag || b.flag) = true
  · simp only [hab, if_true] at hf ⊢
    simp only [Bool.and_eq_true] at hf
    exact rsh_mul_dvd hodd (mul_dvd_mul (ha hf.1) (hb hf.2)) hfit
  · simp only [hab] at hf
    simp only [Bool.or_eq_true, not_or, Bool.not_eq_true] at hab
    simp [hab.1] at hf
example : FInv 4 (mulSS T84 ⟨32, true⟩ ⟨48, true⟩ ([], 0)) ∧ mulSS T84 ⟨32, true⟩ ⟨48, true⟩ ([], 0) = ⟨96, true⟩ :=
  ⟨inv_mulSS (by decide) (by decide) (by decide) _ (by decide), by decide⟩

/-- secure × public float (with the trailing-zeros optimisation): the flag is set only if `a` is flagged
and ALL `f` fractional bits of the rounded factor are zero (`z = f`); then nothing is shifted. -/
theorem mulFloat_flag (t : Ty) (a : V) (x : Dy) (r : Rnd) :
    (mulFloat t a x r).flag = (a.flag && (zOf t.f (scaleRound t.f x) == t.f)) := by
  unfold mulFloat; simp only []; split_ifs <;> rfl

theorem inv_mulFloat {t : Ty} {a : V} (ha : FInv t.f a) (x : Dy) (r : Rnd) : FInv t.f (mulFloat t a x r) := by
  intro hf
  rw [mulFloat_flag] at hf
  simp only [Bool.and_eq_true] at hf
  obtain ⟨ha', hz⟩ := hf
  unfold mulFloat
  simp only [hz, if_true]
  exact Dvd.dvd.mul_right (ha ha') _
example : FInv 4 (mulFloat T84 ⟨16, true⟩ ⟨3, 0⟩ ([], 0)) ∧ mulFloat T84 ⟨16, true⟩ ⟨3, 0⟩ ([], 0) = ⟨48, true⟩ ∧
    (mulFloat T84 ⟨16, true⟩ ⟨3, -1⟩ ([], 0)) = ⟨24, false⟩ := ⟨inv_mulFloat (by decide) _ _, by decide, by decide⟩

/-- `if_else(c, x, y) = c * (x - y) + y` -/
theorem inv_ifElse {t : Ty} (hodd : t.p % 2 = 1) {c x y : V} (hc : FInv t.f c) (hx : FInv t.f x) (hy : FInv t.f y)
    (hfit : Fits t.p (c.A * (x.A - y.A) / (2 : Int) ^ t.f)) : FInv t.f (ifElse t c x y) :=
  inv_add (inv_mulSS hodd hc (inv_sub hx hy) _ hfit) hy
example : FInv 4 (ifElse T84 ⟨16, true⟩ ⟨32, true⟩ ⟨48, true⟩) ∧ ifElse T84 ⟨16, true⟩ ⟨32, true⟩ ⟨48, true⟩ = ⟨32, true⟩ ∧
    ifElse T84 ⟨0, true⟩ ⟨32, true⟩ ⟨5, false⟩ = ⟨5, false⟩ :=
  ⟨inv_ifElse (by decide) (by decide) (by decide) (by decide) (by decide), by decide, by decide⟩

theorem inv_ifSwap {t : Ty} (hodd : t.p % 2 = 1) {c x y : V} (hc : FInv t.f c) (hx : FInv t.f x) (hy : FInv t.f y)
    (hfit : Fits t.p (c.A * (y.A - x.A) / (2 : Int) ^ t.f)) :
    FInv t.f (ifSwap t c x y).1 ∧ FInv t.f (ifSwap t c x y).2 :=
  ⟨inv_add hx (inv_mulSS hodd hc (inv_sub hy hx) _ hfit), inv_sub hy (inv_mulSS hodd hc (inv_sub hy hx) _ hfit)⟩
example : ifSwap T84 ⟨16, true⟩ ⟨32, true⟩ ⟨48, true⟩ = (⟨48, true⟩, ⟨32, true⟩) := by decide

/-! ### list operations: the flag is taken over ALL elements -/

theorem inv_sum {f : Nat} {xs : List V} (h : FInvL f xs) : FInv f (sum xs) :=
  fun hf => dvd_sumA xs (dvd_of_allFlags h hf)
example : FInv 4 (sum [⟨16, true⟩, ⟨32, true⟩]) ∧ sum [⟨16, true⟩, ⟨32, true⟩] = ⟨48, true⟩ ∧
    (sum [⟨16, true⟩, ⟨5, false⟩]).flag = false := ⟨inv_sum (by decide), by decide, by decide⟩

theorem inv_inProd {t : Ty} (hodd : t.p % 2 = 1) {xs ys : List V} (hx : FInvL t.f xs) (hy : FInvL t.f ys) (r : Rnd)
    (hfit : Fits t.p (dotA xs ys / (2 : Int) ^ t.f)) : FInv t.f (inProd t xs ys r) := by
  intro hf
  unfold inProd at hf ⊢
  simp only [] at hf ⊢
  by_cases hab : (allFlags xs || allFlags ys) = true
  · simp only [hab, if_true] at hf ⊢
    simp only [Bool.and_eq_true] at hf
    exact rsh_mul_dvd hodd (dvd_dotA xs ys (dvd_of_allFlags hx hf.1) (dvd_of_allFlags hy hf.2)) hfit
  · simp only [hab] at hf
    simp only [Bool.or_eq_true, not_or, Bool.not_eq_true] at hab
    simp [hab.1] at hf
example : FInv 4 (inProd T84 [⟨16, true⟩, ⟨32, true⟩] [⟨48, true⟩, ⟨16, true⟩] ([], 0)) ∧
    inProd T84 [⟨16, true⟩, ⟨32, true⟩] [⟨48, true⟩, ⟨16, true⟩] ([], 0) = ⟨80, true⟩ :=
  ⟨inv_inProd (by decide) (by decide) (by decide) _ (by decide), by decide⟩

theorem inv_vectorAdd {f : Nat} {xs ys : List V} (hx : FInvL f xs) (hy : FInvL f ys) : FInvL f (vectorAdd xs ys) :=
  inv_zipAdd xs ys _ (fun hf => by
    simp only [Bool.and_eq_true] at hf
    exact ⟨dvd_of_allFlags hx hf.1, dvd_of_allFlags hy hf.2⟩)

theorem inv_vectorSub {f : Nat} {xs ys : List V} (hx : FInvL f xs) (hy : FInvL f ys) : FInvL f (vectorSub xs ys) :=
  inv_zipSub xs ys _ (fun hf => by
    simp only [Bool.and_eq_true] at hf
    exact ⟨dvd_of_allFlags hx hf.1, dvd_of_allFlags hy hf.2⟩)
example : FInvL 4 (vectorAdd [⟨16, true⟩, ⟨5, false⟩] [⟨32, true⟩, ⟨32, true⟩]) ∧
    vectorAdd [⟨16, true⟩, ⟨5, false⟩] [⟨32, true⟩, ⟨32, true⟩] = [⟨48, false⟩, ⟨37, false⟩] ∧
    vectorAdd [⟨16, true⟩, ⟨32, true⟩] [⟨32, true⟩, ⟨32, true⟩] = [⟨48, true⟩, ⟨64, true⟩] :=
  ⟨inv_vectorAdd (by decide) (by decide), by decide, by decide⟩

/-- the rule of the code before commit bd0804d (flag of element 0 for all results) is unsound: the witness
is finding F2, `vector_add([secfxp(1), secfxp(0.3)], [secfxp(2), secfxp(2)])` for `f = 4` — all inputs
satisfy `FInv`, the second result (2.3125) is marked integral -/
theorem first_element_rule_unsound :
    FInvL 4 [ofInt 4 1, ofFloat 4 ⟨5404319552844595, -54⟩] ∧ FInvL 4 [ofInt 4 2, ofInt 4 2] ∧
    ¬ FInvL 4 (vectorAddOld [ofInt 4 1, ofFloat 4 ⟨5404319552844595, -54⟩] [ofInt 4 2, ofInt 4 2]) ∧
    FInvL 4 (vectorAdd [ofInt 4 1, ofFloat 4 ⟨5404319552844595, -54⟩] [ofInt 4 2, ofInt 4 2]) := by
  decide

/-- … and the shortcut taken on the false mark returns garbage: squaring the wrongly flagged 37/16 in
`SecFxp(8,4)` gives a 44-bit number instead of ⌊37·37/16⌋ = 85 or 86 -/
theorem first_element_rule_wrong_product :
    (mulSS T84 ⟨37, true⟩ ⟨37, true⟩ ([], 0)).A = -7696581394339 ∧
    (mulSS T84 ⟨37, false⟩ ⟨37, false⟩ ([], 0)).A = 85 ∧
    (mulSS T84 ⟨37, false⟩ ⟨37, false⟩ ([1, 1, 1, 1], 0)).A = 86 := by
  decide

theorem inv_scalarMul {t : Ty} (a : V) {xs : List V} (hx : FInvL t.f xs) (rs : List Rnd) :
    FInvL t.f (scalarMul t a xs rs) := by
  intro v hv hf
  unfold scalarMul at hv
  simp only [] at hv
  split at hv
  · simp only [List.mem_map] at hv
    obtain ⟨x, hxm, rfl⟩ := hv
    simp only [Bool.and_eq_true] at hf
    exact Dvd.dvd.mul_right (dvd_of_allFlags hx hf.2 x hxm) _
  · rename_i hna
    simp only [List.mem_map] at hv
    obtain ⟨⟨x, r⟩, _, rfl⟩ := hv
    simp only [Bool.and_eq_true] at hf
    exact absurd hf.1 hna
example : scalarMul T84 ⟨32, true⟩ [⟨16, true⟩, ⟨5, false⟩] [] = [⟨32, false⟩, ⟨10, false⟩] ∧
    scalarMul T84 ⟨32, true⟩ [⟨16, true⟩, ⟨48, true⟩] [] = [⟨32, true⟩, ⟨96, true⟩] := by decide

theorem inv_schurProd {t : Ty} (hodd : t.p % 2 = 1) {xs ys : List V} (hx : FInvL t.f xs) (hy : FInvL t.f ys)
    (rs : List Rnd) (hfit : ∀ q ∈ xs.zip ys, Fits t.p (q.1.A * q.2.A / (2 : Int) ^ t.f)) :
    FInvL t.f (schurProd t xs ys rs) := by
  intro v hv hf
  unfold schurProd at hv
  simp only [] at hv
  split at hv
  · simp only [List.mem_map] at hv
    obtain ⟨⟨x, y⟩, hq, rfl⟩ := hv
    simp only [Bool.and_eq_true] at hf
    have hxm := (List.of_mem_zip hq).1
    have hym := (List.of_mem_zip hq).2
    exact rsh_mul_dvd hodd (mul_dvd_mul (dvd_of_allFlags hx hf.1 x hxm) (dvd_of_allFlags hy hf.2 y hym)) (hfit _ hq)
  · rename_i hna
    simp only [List.mem_map] at hv
    obtain ⟨⟨⟨x, y⟩, r⟩, _, rfl⟩ := hv
    simp only [Bool.and_eq_true] at hf
    simp only [Bool.or_eq_true, not_or] at hna
    exact absurd hf.1 hna.1
example : schurProd T84 [⟨32, true⟩, ⟨16, true⟩] [⟨48, true⟩, ⟨16, true⟩] [] = [⟨96, true⟩, ⟨16, true⟩] ∧
    schurProd T84 [⟨32, true⟩, ⟨5, false⟩] [⟨48, true⟩, ⟨16, true⟩] [] = [⟨96, false⟩, ⟨5, false⟩] := by decide

theorem inv_ifElseList {t : Ty} {c : V} {xs ys : List V} (hx : FInvL t.f xs) (hy : FInvL t.f ys) :
    FInvL t.f (ifElseList t c xs ys) := by
  intro v hv hf
  unfold ifElseList at hv
  simp only [List.mem_map] at hv
  obtain ⟨⟨x, y⟩, hq, rfl⟩ := hv
  simp only [allFlags, List.all_append, Bool.and_eq_true] at hf
  have hxm := (List.of_mem_zip hq).1
  have hym := (List.of_mem_zip hq).2
  have dx := dvd_of_allFlags hx hf.1 x hxm
  have dy := dvd_of_allFlags hy hf.2 y hym
  exact Int.dvd_add (Dvd.dvd.mul_left (Int.dvd_sub dx dy) _) dy
example : ifElseList T84 ⟨16, true⟩ [⟨32, true⟩, ⟨5, false⟩] [⟨48, true⟩, ⟨16, true⟩] = [⟨32, false⟩, ⟨5, false⟩] := by
  decide

theorem inv_ifSwapList {t : Ty} {c : V} {xs ys : List V} (hx : FInvL t.f xs) (hy : FInvL t.f ys) :
    FInvL t.f (ifSwapList t c xs ys).1 ∧ FInvL t.f (ifSwapList t c xs ys).2 := by
  constructor <;>
  · intro v hv hf
    unfold ifSwapList at hv
    simp only [List.mem_map] at hv
    obtain ⟨⟨x, y⟩, hq, rfl⟩ := hv
    simp only [allFlags, List.all_append, Bool.and_eq_true] at hf
    have hxm := (List.of_mem_zip hq).1
    have hym := (List.of_mem_zip hq).2
    have dx := dvd_of_allFlags hx hf.1 x hxm
    have dy := dvd_of_allFlags hy hf.2 y hym
    first
      | exact Int.dvd_add dx (Dvd.dvd.mul_left (Int.dvd_sub dy dx) _)
      | exact Int.dvd_sub dy (Dvd.dvd.mul_left (Int.dvd_sub dy dx) _)
example : ifSwapList T84 ⟨16, true⟩ [⟨32, true⟩] [⟨48, true⟩] = ([⟨48, true⟩], [⟨32, true⟩]) := by decide

theorem getD_mem_or_default {α : Type} (l : List α) (n : Nat) (d : α) : l.getD n d ∈ l ∨ l.getD n d = d := by
  rw [List.getD_eq_getElem?_getD]
  cases h : l[n]? with
  | none => right; rfl
  | some x => left; exact List.mem_of_getElem? h

/-- matrix product: every entry; `cols j` is the column (row if `tr`) of `B` the code multiplies with -/
theorem inv_matrixProd {t : Ty} (hodd : t.p % 2 = 1) {A B : List (List V)} (tr : Bool) (rs : List (List Rnd))
    (hA : ∀ r ∈ A, FInvL t.f r) (hB : ∀ r ∈ B, FInvL t.f r)
    (hfit : ∀ row ∈ A, ∀ j, Fits t.p (dotA row (if tr then B.getD j [] else colOf B j) / (2 : Int) ^ t.f)) :
    ∀ r ∈ matrixProd t A B tr rs, FInvL t.f r := by
  intro r hr v hv hf
  unfold matrixProd at hr
  simp only [List.mem_map] at hr
  obtain ⟨⟨row, i⟩, hrow, rfl⟩ := hr
  simp only [List.mem_map] at hv
  obtain ⟨j, _, rfl⟩ := hv
  have hrowA : row ∈ A := by
    obtain ⟨_, _, heq⟩ := List.mem_zipIdx hrow
    rw [heq]; exact List.getElem_mem _
  by_cases hab : (A.all allFlags || B.all allFlags) = true
  · simp only [hab, if_true] at hf ⊢
    simp only [Bool.and_eq_true, List.all_eq_true] at hf
    have drow := dvd_of_allFlags (hA row hrowA) (hf.1 row hrowA)
    have dcol : ∀ v ∈ (if tr then B.getD j [] else colOf B j), (2 : Int) ^ t.f ∣ v.A := by
      intro v hv
      cases tr with
      | true =>
        simp only [if_true] at hv
        rcases getD_mem_or_default B j [] with hmem | hdef
        · exact dvd_of_allFlags (hB _ hmem) (hf.2 _ hmem) v hv
        · rw [hdef] at hv; simp at hv
      | false =>
        simp only [Bool.false_eq_true, if_false, colOf, List.mem_map] at hv
        obtain ⟨brow, hbrow, rfl⟩ := hv
        rcases getD_mem_or_default brow j ⟨0, true⟩ with hmem | hdef
        · exact dvd_of_allFlags (hB _ hbrow) (hf.2 _ hbrow) _ hmem
        · rw [hdef]; simp
    exact rsh_mul_dvd hodd (dvd_dotA _ _ drow dcol) (hfit row hrowA j)
  · simp only [hab] at hf
    simp only [Bool.or_eq_true, not_or, Bool.not_eq_true] at hab
    simp [hab.1] at hf
example : matrixProd T84 [[⟨16, true⟩, ⟨32, true⟩]] [[⟨48, true⟩], [⟨16, true⟩]] false [] = [[⟨80, true⟩]] ∧
    matrixProd T84 [[⟨16, true⟩, ⟨5, false⟩]] [[⟨48, true⟩], [⟨16, true⟩]] false [] = [[⟨53, false⟩]] := by decide

/-- one round of the product tree (`prod`): pairs carry per-pair flags -/
theorem inv_pairUp {t : Ty} (hodd : t.p % 2 = 1) : ∀ (xs : List V) (rs : List Rnd), FInvL t.f xs →
    (∀ a ∈ xs, ∀ b ∈ xs, Fits t.p (a.A * b.A / (2 : Int) ^ t.f)) → FInvL t.f (pairUp t xs rs).1
  | [], _, _, _ => by simp [pairUp, FInvL]
  | [_], _, _, _ => by simp [pairUp, FInvL]
  | a :: b :: rest, rs, h, hfit => by
    have hrest : FInvL t.f rest := fun v hv => h v (by simp [hv])
    have hfr : ∀ a ∈ rest, ∀ b ∈ rest, Fits t.p (a.A * b.A / (2 : Int) ^ t.f) :=
      fun x hx y hy => hfit x (by simp [hx]) y (by simp [hy])
    unfold pairUp
    split
    · intro v hv
      simp only [List.mem_cons] at hv
      rcases hv with rfl | hv
      · intro hf; simp at hf
      · exact inv_pairUp hodd rest rs.tail hrest hfr v hv
    · intro v hv
      simp only [List.mem_cons] at hv
      rcases hv with rfl | hv
      · intro hf
        simp only [Bool.and_eq_true] at hf
        exact rsh_mul_dvd hodd (mul_dvd_mul (h a (by simp) hf.1) (h b (by simp) hf.2)) (hfit a (by simp) b (by simp))
      · exact inv_pairUp hodd rest rs hrest hfr v hv

theorem inv_prodLevel {t : Ty} (hodd : t.p % 2 = 1) (xs : List V) (rs : List Rnd) (h : FInvL t.f xs)
    (hfit : ∀ a ∈ xs, ∀ b ∈ xs, Fits t.p (a.A * b.A / (2 : Int) ^ t.f)) : FInvL t.f (prodLevel t xs rs).1 := by
  unfold prodLevel
  split
  · cases xs with
    | nil => simp [FInvL]
    | cons x rest =>
      simp only []
      intro v hv
      simp only [List.mem_cons] at hv
      rcases hv with rfl | hv
      · exact h _ (by simp)
      · exact inv_pairUp hodd rest rs (fun v hv => h v (by simp [hv]))
          (fun a ha b hb => hfit a (by simp [ha]) b (by simp [hb])) v hv
  · exact inv_pairUp hodd xs rs h hfit
example : prodLevel T84 [⟨32, true⟩, ⟨48, true⟩, ⟨5, false⟩] [] = ([⟨32, true⟩, ⟨15, false⟩], []) ∧
    prod T84 [⟨32, true⟩, ⟨48, true⟩, ⟨16, true⟩] [] = ⟨96, true⟩ ∧
    prod T84 [⟨37, false⟩, ⟨37, false⟩, ⟨16, true⟩] [([1, 0, 1, 0], 5)] = ⟨85, false⟩ := by decide

/-- "no intermediate product leaves the range" for the whole product tree: at every round all pairwise
exact quotients are signed representatives -/
def ProdFits (t : Ty) : Nat → List V → List Rnd → Prop
  | 0, _, _ => True
  | n + 1, xs, rs => (∀ a ∈ xs, ∀ b ∈ xs, Fits t.p (a.A * b.A / (2 : Int) ^ t.f)) ∧
      ProdFits t n (prodLevel t xs rs).1 (prodLevel t xs rs).2

theorem inv_prodF {t : Ty} (hodd : t.p % 2 = 1) : ∀ (fuel : Nat) (xs : List V) (rs : List Rnd),
    FInvL t.f xs → ProdFits t fuel xs rs → FInvL t.f (prodF t fuel xs rs)
  | 0, xs, _, h, _ => by simpa [prodF] using h
  | fuel + 1, xs, rs, h, hf => by
    unfold prodF
    split
    · exact h
    · exact inv_prodF hodd fuel _ _ (inv_prodLevel hodd xs rs h hf.1) hf.2

/-- **whole product tree** (`mpc.prod`): the result's flag is sound, for every randomness -/
theorem inv_prod {t : Ty} (hodd : t.p % 2 = 1) (xs : List V) (rs : List Rnd) (h : FInvL t.f xs)
    (hf : ProdFits t xs.length xs rs) : FInv t.f (prod t xs rs) := by
  unfold prod
  have := inv_prodF hodd xs.length xs rs h hf
  cases hl : prodF t xs.length xs rs with
  | nil => intro hfl; simp [List.headD] at hfl
  | cons v vs => rw [hl] at this; simpa [List.headD] using this v (by simp)
example : FInv 4 (prod T84 [⟨32, true⟩, ⟨48, true⟩, ⟨16, true⟩] []) ∧
    ProdFits T84 3 [⟨32, true⟩, ⟨48, true⟩, ⟨16, true⟩] [] := by
  refine ⟨inv_prod (by decide) _ _ (by decide) ?_, ?_⟩ <;> (simp only [ProdFits, List.length]; decide)

/-- one round of `all` (the code raises ValueError unless every flag is set) -/
theorem inv_allPairs {t : Ty} (hodd : t.p % 2 = 1) : ∀ (xs : List V), (∀ v ∈ xs, (2 : Int) ^ t.f ∣ v.A) →
    (∀ a ∈ xs, ∀ b ∈ xs, Fits t.p (a.A * b.A / (2 : Int) ^ t.f)) → ∀ v ∈ allPairs t xs, (2 : Int) ^ t.f ∣ v.A
  | [], _, _ => by simp [allPairs]
  | [_], _, _ => by simp [allPairs]
  | a :: b :: rest, h, hfit => by
    intro v hv
    simp only [allPairs, List.mem_cons] at hv
    rcases hv with rfl | hv
    · exact rsh_mul_dvd hodd (mul_dvd_mul (h a (by simp)) (h b (by simp))) (hfit a (by simp) b (by simp))
    · exact inv_allPairs hodd rest (fun v hv => h v (by simp [hv]))
        (fun x hx y hy => hfit x (by simp [hx]) y (by simp [hy])) v hv

theorem inv_allLevel {t : Ty} (hodd : t.p % 2 = 1) (xs : List V) (h : ∀ v ∈ xs, (2 : Int) ^ t.f ∣ v.A)
    (hfit : ∀ a ∈ xs, ∀ b ∈ xs, Fits t.p (a.A * b.A / (2 : Int) ^ t.f)) :
    ∀ v ∈ allLevel t xs, (2 : Int) ^ t.f ∣ v.A := by
  unfold allLevel
  split
  · cases xs with
    | nil => simp
    | cons x rest =>
      simp only []
      intro v hv
      simp only [List.mem_cons] at hv
      rcases hv with rfl | hv
      · exact h x (by simp)
      · exact inv_allPairs hodd rest (fun v hv => h v (by simp [hv]))
          (fun a ha b hb => hfit a (by simp [ha]) b (by simp [hb])) v hv
  · exact inv_allPairs hodd xs h hfit
example : MpycV.Fxp.all T84 [⟨16, true⟩, ⟨16, true⟩, ⟨0, true⟩] = some ⟨0, true⟩ ∧
    MpycV.Fxp.all T84 [⟨16, true⟩, ⟨16, true⟩, ⟨16, true⟩] = some ⟨16, true⟩ ∧
    MpycV.Fxp.all T84 [⟨16, true⟩, ⟨5, false⟩] = none := by decide

/-! ### the shortcut and independence of the flags -/

/-- **shortcut_exact**: dividing a multiple of `2^n` by `2^n` in GF(p) is the integer quotient (as a residue) -/
theorem shortcut_exact {p n : Nat} (hodd : p % 2 = 1) {x : Int} (hd : (2 : Int) ^ n ∣ x) :
    rsh p n x = norm p (x / (2 : Int) ^ n) := rsh_of_dvd hodd hd

theorem shortcut_exact_fits {p n : Nat} (hodd : p % 2 = 1) {x : Int} (hd : (2 : Int) ^ n ∣ x)
    (hf : Fits p (x / (2 : Int) ^ n)) : rsh p n x = x / (2 : Int) ^ n := rsh_of_dvd_fits hodd hd hf
example : rsh P84 4 (32 * 48) = 96 ∧ rsh P84 4 (-32 * 48) = -96 := by decide

/-- under `FInv`, the flagged product (shortcut) is the exact value `A·B/2^f` -/
theorem mulSS_shortcut_value {t : Ty} (hodd : t.p % 2 = 1) {a b : V} (ha : FInv t.f a) (hb : FInv t.f b) (r : Rnd)
    (hfl : a.flag = true ∨ b.flag = true) (hfit : Fits t.p (a.A * b.A / (2 : Int) ^ t.f)) :
    (mulSS t a b r).A = a.A * b.A / (2 : Int) ^ t.f := by
  have hd : (2 : Int) ^ t.f ∣ a.A * b.A := by
    rcases hfl with h | h
    · exact Dvd.dvd.mul_right (ha h) _
    · exact Dvd.dvd.mul_left (hb h) _
  unfold mulSS
  have : (a.flag || b.flag) = true := by rcases hfl with h | h <;> simp [h]
  simp only [this, if_true]
  exact rsh_of_dvd_fits hodd hd hfit

/-- **the result never depends on a (true) mark**: for values satisfying `FInv`, clearing both flags
(so that the product is truncated with ANY randomness instead of shifted) gives exactly the same
value; the truncation of a multiple of `2^f` is exact. -/
theorem flag_independent_mul {t : Ty} (hodd : t.p % 2 = 1) {a b : V} (ha : FInv t.f a) (hb : FInv t.f b)
    (hfl : a.flag = true ∨ b.flag = true) (r : Rnd)
    (hb' : IsBits r.1) (hlen : r.1.length = t.f) (hl : 0 < t.l)
    (hlo : 0 ≤ a.A * b.A + (2 : Int) ^ (t.l + t.f - 1) + r.2 * (2 : Int) ^ t.f)
    (hhi : a.A * b.A + (2 : Int) ^ t.f + (2 : Int) ^ (t.l + t.f - 1) + r.2 * (2 : Int) ^ t.f ≤ t.p)
    (hfit : Fits t.p (a.A * b.A / (2 : Int) ^ t.f)) :
    (mulSS t ⟨a.A, false⟩ ⟨b.A, false⟩ r).A = (mulSS t a b r).A := by
  have hd : (2 : Int) ^ t.f ∣ a.A * b.A := by
    rcases hfl with h | h
    · exact Dvd.dvd.mul_right (ha h) _
    · exact Dvd.dvd.mul_left (hb h) _
  rw [mulSS_shortcut_value hodd ha hb r hfl hfit]
  obtain ⟨hr0, hr1⟩ := bitsVal_range r.1 hb'
  rw [hlen] at hr1
  have hfl := (floor_add_small (a.A * b.A) (bitsVal r.1) ((2 : Int) ^ t.f) (two_pow_pos _) hr0 hr1).2 hd
  simp only [mulSS, Bool.or_self, Bool.false_eq_true, if_false]
  rw [trunc_eq hodd hb' hlen (by omega) hlo hhi (by rw [hfl]; exact hfit), hfl]
example : (mulSS T84 ⟨32, false⟩ ⟨5, false⟩ ([1, 0, 1, 1], 7)).A = (mulSS T84 ⟨32, true⟩ ⟨5, false⟩ ([], 0)).A := by decide

/-- the same for a public float factor: clearing the flag of `a` does not change the value -/
theorem flag_independent_mulFloat {t : Ty} (hodd : t.p % 2 = 1) {a : V} (ha : FInv t.f a) (hfl : a.flag = true)
    (x : Dy) (r : Rnd) (hb' : IsBits r.1)
    (hlen : r.1.length = t.f - zOf t.f (scaleRound t.f x)) (hl : 0 < t.l)
    (hlo : 0 ≤ a.A * (scaleRound t.f x / (2 : Int) ^ zOf t.f (scaleRound t.f x))
      + (2 : Int) ^ (t.l + (t.f - zOf t.f (scaleRound t.f x)) - 1) + r.2 * (2 : Int) ^ (t.f - zOf t.f (scaleRound t.f x)))
    (hhi : a.A * (scaleRound t.f x / (2 : Int) ^ zOf t.f (scaleRound t.f x)) + (2 : Int) ^ (t.f - zOf t.f (scaleRound t.f x))
      + (2 : Int) ^ (t.l + (t.f - zOf t.f (scaleRound t.f x)) - 1) + r.2 * (2 : Int) ^ (t.f - zOf t.f (scaleRound t.f x)) ≤ t.p)
    (hfit : Fits t.p (a.A * (scaleRound t.f x / (2 : Int) ^ zOf t.f (scaleRound t.f x))
      / (2 : Int) ^ (t.f - zOf t.f (scaleRound t.f x)))) :
    (mulFloat t ⟨a.A, false⟩ x r).A = (mulFloat t a x r).A := by
  unfold mulFloat
  simp only []
  by_cases hz : (zOf t.f (scaleRound t.f x) == t.f) = true
  · simp [hz]
  · simp only [hz, hfl, Bool.false_eq_true, if_false, if_true]
    set z := zOf t.f (scaleRound t.f x) with hzd
    have hd : (2 : Int) ^ (t.f - z) ∣ a.A * (scaleRound t.f x / (2 : Int) ^ z) :=
      Dvd.dvd.mul_right (dvd_trans (pow_dvd_pow 2 (Nat.sub_le _ _)) (ha hfl)) _
    obtain ⟨hr0, hr1⟩ := bitsVal_range r.1 hb'
    rw [hlen] at hr1
    have hfl2 := (floor_add_small _ (bitsVal r.1) ((2 : Int) ^ (t.f - z)) (two_pow_pos _) hr0 hr1).2 hd
    rw [trunc_eq hodd hb' hlen (by omega) hlo hhi (by rw [hfl2]; exact hfit), hfl2,
      rsh_of_dvd_fits hodd hd hfit]
example : (mulFloat T84 ⟨32, false⟩ ⟨3, -2⟩ ([1, 0], 7)).A = (mulFloat T84 ⟨32, true⟩ ⟨3, -2⟩ ([], 0)).A ∧
    (mulFloat T84 ⟨32, true⟩ ⟨3, -2⟩ ([], 0)) = ⟨24, false⟩ := by decide

end MpycV.C03
