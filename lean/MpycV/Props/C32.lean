/-
C32 — mpctools.reduce and mpctools.accumulate agree with functools.reduce / itertools.accumulate.

Model: `MpycV.Model.Tools` (`reduce`, `accumulate` with the in-place recursions `acc(i, j)` of
mpctools.py for both methods).  All theorems hold for ANY type `α` and ANY associative `f`
(not assumed commutative).  `functools.reduce(f, a :: l)` is `List.foldl f a l`,
`itertools.accumulate(a :: l, f)` is `List.scanl f a l` (all prefix folds).
-/
import MpycV.Lemmas.Tools

namespace MpycV.C32
open MpycV.Tools

variable {α : Type}

/-! ### reduce -/

/-- reduce without initial value on a nonempty list = `functools.reduce(f, [a] + l)`, every length. -/
theorem reduce_eq_foldl {f : α → α → α} (hf : ∀ a b c, f (f a b) c = f a (f b c)) (a : α) (l : List α) :
    reduce f (a :: l) none = some (List.foldl f a l) := by
  rw [reduce_eq_fold1 hf]; rfl

example : (∀ a b c : List Nat, (a ++ b) ++ c = a ++ (b ++ c)) ∧ ([1] ++ [2] ≠ [2] ++ [1]) :=
  ⟨List.append_assoc, by decide⟩

/-- reduce with an initial value = `functools.reduce(f, l, a)`, every length including 0. -/
theorem reduce_initial_eq_foldl {f : α → α → α} (hf : ∀ a b c, f (f a b) c = f a (f b c)) (a : α)
    (l : List α) : reduce f l (some a) = some (List.foldl f a l) := by
  rw [reduce_eq_fold1 hf]; rfl

example : reduce (fun a b : List Nat => a ++ b) [] (some [7]) = some [7] := by
  rw [reduce_initial_eq_foldl List.append_assoc]; rfl

/-- the TypeError branch: empty sequence and no initial value (no hypothesis on `f`). -/
theorem reduce_empty_typeError (f : α → α → α) : reduce f [] none = none := rfl

/-- … and that is the only way to reach it. -/
theorem reduce_none_iff {f : α → α → α} (hf : ∀ a b c, f (f a b) c = f a (f b c)) (x : List α)
    (initial : Option α) : reduce f x initial = none ↔ x = [] ∧ initial = none := by
  cases initial with
  | some a => rw [reduce_initial_eq_foldl hf]; simp
  | none =>
    cases x with
    | nil => simp [reduce_empty_typeError]
    | cons a l => rw [reduce_eq_foldl hf]; simp

example : reduce (fun a b : Nat => a + b) [] none = none ∧ reduce (fun a b : Nat => a + b) [] (some 3) ≠ none := by
  constructor
  · rfl
  · rw [reduce_initial_eq_foldl (fun a b c => Nat.add_assoc a b c)]; simp

/-! ### accumulate -/

/-- `itertools.accumulate` of the list after `x.insert(0, initial)`. -/
def pyAccumulate (f : α → α → α) (x : List α) (initial : Option α) : List α :=
  match withInitial initial x with
  | [] => []
  | a :: l => List.scanl f a l

theorem scan1_eq_pyAccumulate (f : α → α → α) (x : List α) (initial : Option α) :
    scan1 f (withInitial initial x) = pyAccumulate f x initial := by
  unfold pyAccumulate
  cases withInitial initial x with
  | nil => rfl
  | cons a l => exact scan1_eq_scanl f l a

/-- Sklansky: the in-place recursion of mpctools.py:87-93 returns all prefix folds. -/
theorem accumulate_sklansky_eq_scan {f : α → α → α} (hf : ∀ a b c, f (f a b) c = f a (f b c))
    (x : List α) (initial : Option α) :
    accumulate f x initial .sklansky = pyAccumulate f x initial := by
  rw [accumulate_eq_slice, ← scan1_eq_pyAccumulate]
  exact skl_eq_scan1 hf _

/-- Brent–Kung: the in-place recursion of mpctools.py:75-83 returns all prefix folds. -/
theorem accumulate_brentkung_eq_scan {f : α → α → α} (hf : ∀ a b c, f (f a b) c = f a (f b c))
    (x : List α) (initial : Option α) :
    accumulate f x initial .brentKung = pyAccumulate f x initial := by
  rw [accumulate_eq_slice, ← scan1_eq_pyAccumulate]
  show bk f none _ = _
  rw [bk_eq_specBK hf, specBK_none]

/-- whatever method is chosen (explicitly or by the default heuristic) the result is the same. -/
theorem accumulate_eq_scan {f : α → α → α} (hf : ∀ a b c, f (f a b) c = f a (f b c))
    (x : List α) (initial : Option α) (m : Method) :
    accumulate f x initial m = pyAccumulate f x initial := by
  cases m
  · exact accumulate_brentkung_eq_scan hf x initial
  · exact accumulate_sklansky_eq_scan hf x initial

example : pyAccumulate (fun a b : List Nat => a ++ b) [[1], [2], [3]] none = [[1], [1, 2], [1, 2, 3]] := by
  decide
example : pyAccumulate Nat.add [1, 2, 3] (some 10) = [10, 11, 13, 16] := by decide
example : pyAccumulate Nat.add [] none = [] := by decide

/-- pointwise form: entry `k` is the fold of the first `k+1` elements; the length is preserved. -/
theorem accumulate_getElem? {f : α → α → α} (hf : ∀ a b c, f (f a b) c = f a (f b c))
    (a : α) (l : List α) (m : Method) (k : Nat) (hk : k ≤ l.length) :
    (accumulate f (a :: l) none m)[k]? = some (List.foldl f a (l.take k)) := by
  rw [accumulate_eq_scan hf]
  show (List.scanl f a l)[k]? = _
  rw [List.getElem?_scanl]
  simp [hk]

example : (3 : Nat) ≤ [1, 2, 3].length := by decide

theorem accumulate_length {f : α → α → α} (hf : ∀ a b c, f (f a b) c = f a (f b c))
    (x : List α) (initial : Option α) (m : Method) :
    (accumulate f x initial m).length = (withInitial initial x).length := by
  rw [accumulate_eq_scan hf, ← scan1_eq_pyAccumulate, length_scan1]

/-- default heuristic of mpctools.py:70-71: Brent–Kung iff PRSS is off and n ≥ 32. -/
theorem default_method_rule (noPrss : Bool) (n : Nat) :
    defaultMethod noPrss n = (if noPrss = true ∧ 32 ≤ n then Method.brentKung else Method.sklansky) := by
  unfold defaultMethod
  cases noPrss <;> simp

example : defaultMethod true 32 = .brentKung ∧ defaultMethod true 31 = .sklansky ∧
    defaultMethod false 100 = .sklansky := by decide

/-! ### depth: values carry the depth of the application tree above them (`dep f`) -/

/-- inputs at depth 0 -/
def atDepth0 (x : List α) : List (α × Nat) := x.map (fun a => (a, 0))

theorem allLe_atDepth0 (x : List α) : AllLe (atDepth0 x) 0 := by
  intro e he
  simp only [atDepth0, List.mem_map] at he
  obtain ⟨a, _, rfl⟩ := he
  exact Nat.le_refl 0

theorem allLe_withInitial (x : List α) (initial : Option α) :
    AllLe (withInitial (initial.map (fun a => (a, 0))) (atDepth0 x)) 0 := by
  cases initial with
  | none => exact allLe_atDepth0 x
  | some a =>
    intro e he
    simp only [withInitial, Option.map_some, List.mem_cons] at he
    rcases he with rfl | he
    · exact Nat.le_refl 0
    · exact allLe_atDepth0 x e he

/-- `reduce`: with n ≤ 2^k elements (initial value included) the application depth is ≤ k,
i.e. ≤ ⌈log2 n⌉ (any `f`, associativity not needed). -/
theorem reduce_depth_log (f : α → α → α) (x : List α) (initial : Option α) (k : Nat)
    (hn : (withInitial initial x).length ≤ 2 ^ k) (r : α × Nat)
    (hr : reduce (dep f) (atDepth0 x) (initial.map (fun a => (a, 0))) = some r) : r.2 ≤ k := by
  unfold reduce at hr
  have hlen : (withInitial (initial.map (fun a => (a, 0))) (atDepth0 x)).length ≤ 2 ^ k := by
    cases initial <;> simpa [withInitial, atDepth0] using hn
  have hall := allLe_reduceLoop f k _ 0 hlen (allLe_withInitial x initial)
  cases hX : withInitial (initial.map (fun a => (a, 0))) (atDepth0 x) with
  | nil => rw [hX] at hr; simp at hr
  | cons b rest =>
    rw [hX] at hr hall
    simp only at hr
    have := hall r (List.mem_of_mem_head? hr)
    omega

example : (withInitial (none : Option Nat) [1, 2, 3, 4, 5]).length ≤ 2 ^ 3 := by decide

/-- Sklansky: depth ≤ k for n ≤ 2^k (documented "f-depth = k rounds"). -/
theorem sklansky_depth_log (f : α → α → α) (x : List α) (initial : Option α) (k : Nat)
    (hn : (withInitial initial x).length ≤ 2 ^ k) :
    ∀ e ∈ accumulate (dep f) (atDepth0 x) (initial.map (fun a => (a, 0))) .sklansky, e.2 ≤ k := by
  have hlen : (withInitial (initial.map (fun a => (a, 0))) (atDepth0 x)).length ≤ 2 ^ k := by
    cases initial <;> simpa [withInitial, atDepth0] using hn
  rw [accumulate_eq_slice]
  have := allLe_skl f k _ 0 hlen (allLe_withInitial x initial)
  intro e he
  have := this e he
  omega

/-- Brent–Kung: depth ≤ max(2k-2, k) for n ≤ 2^k (the documented f-depth), in particular ≤ 2k. -/
theorem brentkung_depth_log (f : α → α → α) (x : List α) (initial : Option α) (k : Nat)
    (hn : (withInitial initial x).length ≤ 2 ^ k) :
    ∀ e ∈ accumulate (dep f) (atDepth0 x) (initial.map (fun a => (a, 0))) .brentKung,
      e.2 ≤ max (2 * k - 2) k := by
  have hlen : (withInitial (initial.map (fun a => (a, 0))) (atDepth0 x)).length ≤ 2 ^ k := by
    cases initial <;> simpa [withInitial, atDepth0] using hn
  rw [accumulate_eq_slice]
  have := (depth_bk_none f k _ 0 hlen (allLe_withInitial x initial)).1
  intro e he
  have := this e he
  omega

example : (withInitial (some 0) [1, 2, 3]).length ≤ 2 ^ 2 := by decide

/-- the in-place layer of the model is the slice recursion (no hypothesis on `f`): ties the array
code of mpctools.py to the functions the theorems above reason about. -/
theorem accumulate_inplace_eq_slices (f : α → α → α) (x : List α) (initial : Option α) :
    accumulate f x initial .sklansky = skl f (withInitial initial x) ∧
    accumulate f x initial .brentKung = bk f none (withInitial initial x) :=
  ⟨accumulate_eq_slice f x initial .sklansky, accumulate_eq_slice f x initial .brentKung⟩

end MpycV.C32
