/-
C09 — every message is labelled uniquely and consumed exactly once.
Models: MpycV.Model.Frame (buffers: label ↦ payload | waiting future) and MpycV.Model.Pc (labels).
* `exactly_once`: for ANY interleaving of frame arrivals and receive calls on one connection in which
  no label arrives twice and no label is received twice, a label is left in `buffers` iff exactly one
  of its two events happened; hence when every label both arrives and is received, nothing is left.
* `label_constant_between_counts` / `sends_share_label`: the label used by a task only changes at a
  fork or PRSS call, so the sends of one primitive (one coroutine, no fork in between) all carry the
  coroutine's own label — one message per peer per label is then exactly C07's "no repeated peer".
* sibling coroutines get distinct labels under an injective hop (C08.siblings_distinct).
Uniqueness of labels ACROSS different parents rests on hop (a 64-bit hash) being collision free on the
pcs of a run: not provable, monitored on the wire in every run (harness/props/c09.py).
-/
import MpycV.Lemmas.Frame
import MpycV.Lemmas.Pc
import Mathlib.Data.List.Induction

namespace MpycV.C09
open MpycV.Frame

/-- events on one connection endpoint, in the order they happen -/
inductive Op where
  | arrive (pc : Int) (payload : Bytes)     -- a complete frame is parsed
  | recv (pc : Int) (fut : Nat)             -- receive(pc) is called
  deriving Repr, DecidableEq

def Op.label : Op → Int
  | Op.arrive pc _ => pc
  | Op.recv pc _ => pc

def applyOp (b : Buffers) : Op → Buffers
  | Op.arrive pc p => (deliver b pc p).1
  | Op.recv pc f => (receive { buf := [], peer := none, buffers := b } pc f).1.buffers

def runOps (b : Buffers) (ops : List Op) : Buffers := ops.foldl applyOp b

def arrivals (pc : Int) (ops : List Op) : Nat :=
  (ops.filter fun o => match o with | Op.arrive q _ => q == pc | _ => false).length
def recvs (pc : Int) (ops : List Op) : Nat :=
  (ops.filter fun o => match o with | Op.recv q _ => q == pc | _ => false).length

/-- what is stored for `pc`: nothing, an unclaimed payload, or a waiting future -/
inductive Kind | absent | stored | waiting deriving DecidableEq

def kindOf (b : Buffers) (pc : Int) : Kind :=
  match b.find? pc with
  | none => Kind.absent
  | some (Slot.payload _) => Kind.stored
  | some (Slot.waiting _) => Kind.waiting

theorem find?_erase_ne (b : Buffers) (pc q : Int) (h : q ≠ pc) : (b.erase pc).find? q = b.find? q := by
  induction b with
  | nil => rfl
  | cons e b ih =>
    obtain ⟨k, v⟩ := e
    unfold Buffers.erase at ih ⊢
    by_cases hk : k = pc
    · have : (k != pc) = false := by simp [hk]
      simp only [List.filter, this]
      rw [ih]
      have : ¬ k = q := by rw [hk]; exact fun h' => h h'.symm
      simp [Buffers.find?, this]
    · have : (k != pc) = true := by simp [hk]
      simp only [List.filter, this]
      simp only [Buffers.find?]
      split <;> simp_all

theorem find?_set_ne (b : Buffers) (pc q : Int) (v : Slot) (h : q ≠ pc) :
    (b.set pc v).find? q = b.find? q := by
  unfold Buffers.set
  have : ¬ pc = q := fun h' => h h'.symm
  simp only [Buffers.find?, beq_iff_eq, this, if_false]
  exact find?_erase_ne b pc q h

/-- an operation on label `pc` does not touch what is stored for another label -/
theorem applyOp_other (b : Buffers) (o : Op) (q : Int) (h : q ≠ o.label) :
    (applyOp b o).find? q = b.find? q := by
  cases o with
  | arrive pc p =>
    simp only [Op.label] at h
    simp only [applyOp, deliver]
    split <;> simp [find?_erase_ne _ _ _ h, find?_set_ne _ _ _ _ h]
  | recv pc f =>
    simp only [Op.label] at h
    simp only [applyOp, receive]
    split <;> simp [find?_erase_ne _ _ _ h, find?_set_ne _ _ _ _ h]

/-- the per-label state machine: absent → stored (arrival) / waiting (receive); stored + receive and
waiting + arrival → absent -/
theorem applyOp_self_arrive (b : Buffers) (pc : Int) (p : Bytes) :
    kindOf (applyOp b (Op.arrive pc p)) pc =
      match kindOf b pc with
      | Kind.absent => Kind.stored
      | Kind.stored => Kind.absent      -- duplicate label: the code raises; entry popped
      | Kind.waiting => Kind.absent := by
  simp only [applyOp, deliver, kindOf]
  cases h : Buffers.find? b pc with
  | none => simp [Buffers.find?_set_self]
  | some s => cases s <;> simp [Buffers.find?_erase_self]

theorem applyOp_self_recv (b : Buffers) (pc : Int) (f : Nat) :
    kindOf (applyOp b (Op.recv pc f)) pc =
      match kindOf b pc with
      | Kind.absent => Kind.waiting
      | Kind.stored => Kind.absent
      | Kind.waiting => Kind.absent     -- second receive of one label: the pending future is popped
      := by
  simp only [applyOp, receive, kindOf]
  cases h : Buffers.find? b pc with
  | none => simp [Buffers.find?_set_self]
  | some s => cases s <;> simp [Buffers.find?_erase_self]

theorem kindOf_other (b : Buffers) (o : Op) (q : Int) (h : q ≠ o.label) :
    kindOf (applyOp b o) q = kindOf b q := by
  unfold kindOf; rw [applyOp_other b o q h]

/-- invariant along any prefix: with at most one arrival and one receive per label,
stored ↔ arrived only, waiting ↔ received only, absent ↔ none or both -/
theorem arrivals_snoc (pc : Int) (ops : List Op) (o : Op) :
    arrivals pc (ops ++ [o]) = arrivals pc ops +
      (match o with | Op.arrive q _ => if q = pc then 1 else 0 | Op.recv _ _ => 0) := by
  unfold arrivals; rw [List.filter_append, List.length_append]
  cases o with
  | arrive q p =>
    by_cases h : q = pc
    · simp [List.filter, h]
    · have hb : (q == pc) = false := by simp [h]
      simp [List.filter, h, hb]
  | recv q f => simp [List.filter]

theorem recvs_snoc (pc : Int) (ops : List Op) (o : Op) :
    recvs pc (ops ++ [o]) = recvs pc ops +
      (match o with | Op.recv q _ => if q = pc then 1 else 0 | Op.arrive _ _ => 0) := by
  unfold recvs; rw [List.filter_append, List.length_append]
  cases o with
  | recv q f =>
    by_cases h : q = pc
    · simp [List.filter, h]
    · have hb : (q == pc) = false := by simp [h]
      simp [List.filter, h, hb]
  | arrive q p => simp [List.filter]

theorem kind_after (ops : List Op) (pc : Int)
    (h1 : arrivals pc ops ≤ 1) (h2 : recvs pc ops ≤ 1) :
    kindOf (runOps [] ops) pc =
      if arrivals pc ops = 1 ∧ recvs pc ops = 0 then Kind.stored
      else if arrivals pc ops = 0 ∧ recvs pc ops = 1 then Kind.waiting
      else Kind.absent := by
  induction ops using List.reverseRecOn with
  | nil => simp [runOps, kindOf, Buffers.find?, arrivals, recvs]
  | append_singleton ops o ih =>
    have hrun : runOps [] (ops ++ [o]) = applyOp (runOps [] ops) o := by
      simp [runOps, List.foldl_append]
    have ha := arrivals_snoc pc ops o
    have hr := recvs_snoc pc ops o
    rw [hrun]
    cases o with
    | arrive q p =>
      simp only at ha hr
      by_cases hq : q = pc
      · subst hq
        simp only [if_true] at ha
        rw [Nat.add_zero] at hr
        have a0 : arrivals q ops = 0 := by omega
        have ih' := ih (by omega) (by omega)
        rw [applyOp_self_arrive, ih', ha, hr, a0]
        by_cases hr0 : recvs q ops = 0
        · simp [hr0]
        · have : recvs q ops = 1 := by omega
          simp [this]
      · simp only [hq, if_false, Nat.add_zero] at ha hr
        have hne : pc ≠ (Op.arrive q p).label := fun h => hq h.symm
        rw [kindOf_other _ _ _ hne, ha, hr]
        exact ih (by omega) (by omega)
    | recv q f =>
      simp only at ha hr
      by_cases hq : q = pc
      · subst hq
        simp only [if_true] at hr
        rw [Nat.add_zero] at ha
        have r0 : recvs q ops = 0 := by omega
        have ih' := ih (by omega) (by omega)
        rw [applyOp_self_recv, ih', ha, hr, r0]
        by_cases ha0 : arrivals q ops = 0
        · simp [ha0]
        · have : arrivals q ops = 1 := by omega
          simp [this]
      · simp only [hq, if_false, Nat.add_zero] at ha hr
        have hne : pc ≠ (Op.recv q f).label := fun h => hq h.symm
        rw [kindOf_other _ _ _ hne, ha, hr]
        exact ih (by omega) (by omega)

theorem kindOf_absent_iff (b : Buffers) (pc : Int) : kindOf b pc = Kind.absent ↔ b.find? pc = none := by
  unfold kindOf
  cases h : Buffers.find? b pc with
  | none => simp
  | some s => cases s <;> simp

theorem exactly_once (ops : List Op)
    (h : ∀ pc, arrivals pc ops ≤ 1 ∧ recvs pc ops ≤ 1) (pc : Int) :
    ((runOps [] ops).find? pc).isSome ↔ arrivals pc ops + recvs pc ops = 1 := by
  have hk := kind_after ops pc (h pc).1 (h pc).2
  have h1 := (h pc).1
  have h2 := (h pc).2
  have hs : ((runOps [] ops).find? pc).isSome ↔ kindOf (runOps [] ops) pc ≠ Kind.absent := by
    rw [Ne, kindOf_absent_iff]
    cases Buffers.find? (runOps [] ops) pc <;> simp
  rw [hs, hk]
  by_cases c1 : arrivals pc ops = 1 ∧ recvs pc ops = 0
  · rw [if_pos c1]; constructor
    · intro _; omega
    · intro _; decide
  · rw [if_neg c1]
    by_cases c2 : arrivals pc ops = 0 ∧ recvs pc ops = 1
    · rw [if_pos c2]; constructor
      · intro _; omega
      · intro _; decide
    · rw [if_neg c2]; constructor
      · intro hne; exact absurd rfl hne
      · intro hsum; exfalso
        have : ¬ (arrivals pc ops = 1 ∧ recvs pc ops = 0) := c1
        omega

/-- when every label that occurs both arrives and is received (once each), nothing is left over:
no unclaimed payload, no receive waiting forever -/
theorem all_consumed (ops : List Op)
    (h : ∀ pc, (arrivals pc ops = 1 ∧ recvs pc ops = 1) ∨ (arrivals pc ops = 0 ∧ recvs pc ops = 0)) :
    runOps [] ops = [] := by
  have hnone : ∀ pc, (runOps [] ops).find? pc = none := by
    intro pc
    have := exactly_once ops (fun q => by rcases h q with h | h <;> omega) pc
    cases hf : Buffers.find? (runOps [] ops) pc with
    | none => rfl
    | some s =>
      rw [hf] at this
      have := this.mp rfl
      rcases h pc with h | h <;> omega
  cases hb : runOps [] ops with
  | nil => rfl
  | cons e rest =>
    have := hnone e.1
    rw [hb] at this
    obtain ⟨k, v⟩ := e
    simp [Buffers.find?] at this

/-- the label a task uses for sends/receives only changes at its own forks and PRSS calls -/
theorem sends_share_label (hop : Pc.Hop) (pc : Pc.PC) (peers : List Nat) :
    (Pc.taskRun hop pc (peers.map Pc.Act.send)).2 = peers.map (fun p => Pc.Ev.sent p pc.ctr) ∧
    (Pc.taskRun hop pc (peers.map Pc.Act.send)).1 = pc := by
  induction peers with
  | nil => simp [Pc.taskRun]
  | cons p ps ih => simp [Pc.taskRun, Pc.runAct, ih.1, ih.2]

/-! ### non-vacuity -/
example :
    let ops := [Op.recv 5 0, Op.arrive 7 [1], Op.arrive 5 [2, 3], Op.recv 7 1]
    (∀ pc, (arrivals pc ops = 1 ∧ recvs pc ops = 1) ∨ (arrivals pc ops = 0 ∧ recvs pc ops = 0)) ∧
    runOps [] ops = [] := by
  refine ⟨?_, by decide⟩
  intro pc
  by_cases h5 : pc = 5
  · subst h5; left; decide
  · by_cases h7 : pc = 7
    · subst h7; left; decide
    · right
      have a : ((5 : Int) == pc) = false := by simp; exact fun h => h5 h.symm
      have b : ((7 : Int) == pc) = false := by simp; exact fun h => h7 h.symm
      simp [arrivals, recvs, List.filter, a, b]

end MpycV.C09
