/-
C24 — irreducibility tests and irreducible-modulus search
(gfpx.py `_is_irreducible`, `_next_irreducible` of `Polynomial` and `BinaryPolynomial`,
finfields.py `find_irreducible`, `xGF`).

The irreducibility test is proved correct for EVERY prime p and EVERY polynomial (not only on a bounded
domain): `isIrreducible p a = true ↔ Irreducible (toPoly p a)` (Mathlib's `Irreducible` on `(ZMod p)[X]`:
not a unit and no factorisation into two non-units).  The searches are proved to terminate and to return the
least monic irreducible polynomial above the argument (including `X`: `find_irreducible(p, 1) = X`).
Small kernel-evaluated tables compare the test with exhaustive trial division inside the model.
-/
import MpycV.Lemmas.GFpXTerm
import MpycV.Lemmas.GFpXBinNext
import MpycV.Lemmas.GFpXTable

open Polynomial MpycV.GFpX

namespace MpycV.C24

variable {p : ℕ}

instance : Fact (Nat.Prime 3) := ⟨by decide⟩
instance : Fact (Nat.Prime 5) := ⟨by decide⟩
instance : Fact (Nat.Prime 7) := ⟨by decide⟩

/-! ## 1. the test -/

/-- ★ (both directions of Ben-Or, all primes, all degrees) the test returns True exactly for the
irreducible polynomials -/
theorem is_irreducible_correct [Fact p.Prime] {a : Poly} (ha : WF p a) :
    isIrreducible p a = true ↔ Irreducible (toPoly p a) := isIrreducible_iff ha

example : isIrreducible 3 [1, 0, 1] = true ∧ isIrreducible 3 [1, 2, 1] = false ∧
    isIrreducible 5 [1, 1, 0, 1] = true := by decide

/-- ★ the property's wording: irreducible iff degree ≥ 1 and no nontrivial factor, i.e. in every
factorisation `a = g * h` one factor is a nonzero constant -/
theorem is_irreducible_iff_no_factor [Fact p.Prime] {a : Poly} (ha : WF p a) :
    isIrreducible p a = true ↔
      (1 ≤ (toPoly p a).natDegree ∧
        ∀ g h : (ZMod p)[X], toPoly p a = g * h → g.natDegree = 0 ∨ h.natDegree = 0) := by
  rw [isIrreducible_iff ha]
  constructor
  · intro hirr
    refine ⟨hirr.natDegree_pos, fun g h hgh => ?_⟩
    rcases hirr.isUnit_or_isUnit hgh with hu | hu
    · exact Or.inl (natDegree_eq_zero_of_isUnit hu)
    · exact Or.inr (natDegree_eq_zero_of_isUnit hu)
  · rintro ⟨hd, hf⟩
    have hA0 : toPoly p a ≠ 0 := by intro h; rw [h] at hd; simp at hd
    refine ⟨fun hu => by have := natDegree_eq_zero_of_isUnit hu; omega, fun g h hgh => ?_⟩
    have hg0 : g ≠ 0 := by rintro rfl; simp at hgh; exact hA0 hgh
    have hh0 : h ≠ 0 := by rintro rfl; simp at hgh; exact hA0 hgh
    rcases hf g h hgh with h0 | h0
    · left
      rw [natDegree_eq_zero] at h0
      obtain ⟨c, rfl⟩ := h0
      exact isUnit_C.mpr (IsUnit.mk0 c (by rintro rfl; simp at hg0))
    · right
      rw [natDegree_eq_zero] at h0
      obtain ⟨c, rfl⟩ := h0
      exact isUnit_C.mpr (IsUnit.mk0 c (by rintro rfl; simp at hh0))

example : (toPoly 3 [1, 0, 1]).natDegree = 2 := natDegree_toPoly (by decide) (by decide)

/-- ★ Ben-Or soundness direction on its own: a polynomial with a factor of degree `1 ≤ i ≤ d/2` is rejected
(this is what the loop bound `degree // 2` must guarantee) -/
theorem reducible_detected [Fact p.Prime] {a : Poly} (ha : WF p a) (g h : (ZMod p)[X])
    (hgh : toPoly p a = g * h) (hg : 1 ≤ g.natDegree) (hh : 1 ≤ h.natDegree) :
    isIrreducible p a = false := by
  rw [Bool.eq_false_iff]
  intro hirr
  rcases ((is_irreducible_iff_no_factor ha).mp hirr).2 g h hgh with h0 | h0 <;> omega

example : toPoly 3 (mul 3 [1, 1] [2, 1]) = toPoly 3 [1, 1] * toPoly 3 [2, 1] := toPoly_mul _ _

/-- ★ the bitmask test for p = 2 decides irreducibility of the denoted polynomial, and agrees with the
list test -/
theorem bin_is_irreducible_correct (a : ℕ) :
    (BinPoly.isIrreducible a = true ↔ Irreducible (BinPoly.binToPoly a)) ∧
      BinPoly.isIrreducible a = isIrreducible 2 (BinPoly.toList a) :=
  ⟨BinPoly.isIrreducible_iff a, BinPoly.isIrreducible_agree a⟩

example : BinPoly.isIrreducible 283 = true ∧ BinPoly.isIrreducible 281 = false := by decide

/-! ## 2. the search -/

/-- ★ `next_irreducible(a)` (list class): whenever the loop returns, the result is well-formed, monic,
irreducible, has integer value `> int(a)`, and is the least such polynomial in the integer order -/
theorem next_irreducible_spec [Fact p.Prime] {f : ℕ} {a c : Poly}
    (h : nextIrreducible p f a = some c) :
    WF p c ∧ (toPoly p c).Monic ∧ Irreducible (toPoly p c) ∧ toInt p a < toInt p c ∧
      ∀ d, WF p d → (toPoly p d).Monic → Irreducible (toPoly p d) →
        toInt p a < toInt p d → toInt p c ≤ toInt p d := nextIrreducible_spec h

example : nextIrreducible 3 20 [1, 0, 1] = some [2, 1, 1] ∧ nextIrreducible 3 10 [] = some [0, 1] := by
  decide

/-- ★ `find_irreducible(p, d)` (odd p): the least monic irreducible polynomial with integer value `≥ p^d` -/
theorem find_irreducible_spec [Fact p.Prime] {d f : ℕ} {c : Poly}
    (h : findIrreducible p d f = some c) :
    WF p c ∧ (toPoly p c).Monic ∧ Irreducible (toPoly p c) ∧ p ^ d ≤ toInt p c ∧
      ∀ e, WF p e → (toPoly p e).Monic → Irreducible (toPoly p e) →
        p ^ d ≤ toInt p e → toInt p c ≤ toInt p e := findIrreducible_spec h

example : findIrreducible 3 2 20 = some [1, 0, 1] ∧ findIrreducible 5 3 100 = some [1, 1, 0, 1] := by
  decide

/-- ★ `find_irreducible(p, d)` has degree exactly `d` (for `d ≥ 1`): its value has `d + 1` coefficients;
so it is the smallest monic irreducible polynomial of degree `d` -/
theorem find_irreducible_degree [Fact p.Prime] {d f : ℕ} {c : Poly} (hd : 1 ≤ d)
    (h : findIrreducible p d f = some c) : c.length = d + 1 ∧ GFpX.degree c = (d : ℤ) := by
  have := findIrreducible_degree hd h
  exact ⟨this, by simp [GFpX.degree, this]⟩

example : findIrreducible 7 2 100 = some [1, 0, 1] := by decide

/-- ★ `find_irreducible(p, 1) = X` for every prime (the multiples of p are skipped EXCEPT p itself;
before repo commit f8e05fb the loop skipped X too and returned X + 1) -/
theorem find_irreducible_one [Fact p.Prime] {f : ℕ} {c : Poly} (h : findIrreducible p 1 f = some c) :
    c = [0, 1] := findIrreducible_one h

example : findIrreducible 3 1 10 = some [0, 1] ∧ BinPoly.findIrreducible 1 10 = some 2 := by decide

/-- ★ the skip `if a % p == 0 and a != p` is sound: a multiple of p other than p itself is never monic
irreducible (it is a proper multiple of X) -/
theorem skipped_multiples_not_irreducible [Fact p.Prime] {m : ℕ} (h0 : m % p = 0) (hne : m ≠ p) :
    ¬ ((digits p m).getLastD 0 = 1 ∧ isIrreducible p (digits p m) = true) := not_cand_of_dvd h0 hne

example : digits 3 9 = [0, 0, 1] ∧ isIrreducible 3 (digits 3 9) = false ∧
    isIrreducible 3 (digits 3 3) = true := by decide

/-- ★ the unbounded searches (`while True`) terminate: monic irreducible polynomials of every degree exist
over `ZMod p`, so for every argument some number of loop passes suffices -/
theorem search_terminates [Fact p.Prime] (a : Poly) (d : ℕ) :
    (∃ f c, nextIrreducible p f a = some c) ∧ (∃ f c, findIrreducible p d f = some c) :=
  ⟨nextIrreducible_terminates a, findIrreducible_terminates d⟩

example : nextIrreducible 5 30 [4, 4, 4] = some [1, 1, 0, 1] := by decide

/-- ★ `next_irreducible` over GF(2) (bitmask class): the least irreducible polynomial above `a` in the
integer order, without exception -/
theorem bin_next_irreducible_spec {f a c : ℕ} (h : BinPoly.nextIrreducible f a = some c) :
    BinPoly.isIrreducible c = true ∧ a < c ∧
      ∀ m, a < m → m < c → BinPoly.isIrreducible m = false := BinPoly.nextIrreducible_spec h

example : BinPoly.nextIrreducible 10 7 = some 11 := by decide

/-- ★ `find_irreducible(2, d)`: the least irreducible polynomial with integer value `≥ 2^d` -/
theorem bin_find_irreducible_spec {d f c : ℕ} (h : BinPoly.findIrreducible d f = some c) :
    BinPoly.isIrreducible c = true ∧ 2 ^ d ≤ c ∧
      ∀ m, 2 ^ d ≤ m → m < c → BinPoly.isIrreducible m = false := BinPoly.findIrreducible_spec h

example : BinPoly.findIrreducible 8 100 = some 283 := by decide

/-! ## 3. acceptance of moduli by `GF` / `xGF` -/

/-- ★ `xGF(modulus)` raises `ValueError` iff the modulus is not irreducible; otherwise the field has
order `p^d` and extension degree `d = deg modulus` -/
theorem GF_accepts_iff [Fact p.Prime] {m : Poly} (hm : WF p m) :
    (xGF p m = .error .value ↔ ¬ Irreducible (toPoly p m)) ∧
      (Irreducible (toPoly p m) →
        xGF p m = .ok (p ^ (toPoly p m).natDegree, (toPoly p m).natDegree)) := by
  have hi := isIrreducible_iff hm
  unfold xGF
  constructor
  · split
    · rename_i h; simp [hi.mp h]
    · rename_i h; simp only [true_iff]; exact fun hirr => h (hi.mpr hirr)
  · intro hirr
    have hne : m ≠ [] := by rintro rfl; simp at hirr
    rw [if_pos (hi.mpr hirr), natDegree_toPoly hm hne]

example : xGF 3 [1, 0, 1] = .ok (9, 2) ∧ xGF 3 [1, 2, 1] = .error .value := by decide

/-- ★ the same for binary moduli -/
theorem bin_GF_accepts_iff (m : ℕ) :
    (BinPoly.xGF m = .error .value ↔ ¬ Irreducible (BinPoly.binToPoly m)) ∧
      (Irreducible (BinPoly.binToPoly m) →
        BinPoly.xGF m = .ok (2 ^ (BinPoly.bitLen m - 1), BinPoly.bitLen m - 1)) := by
  have hi := BinPoly.isIrreducible_iff m
  unfold BinPoly.xGF
  constructor
  · split
    · rename_i h; simp [hi.mp h]
    · rename_i h; simp only [true_iff]; exact fun hirr => h (hi.mpr hirr)
  · intro hirr
    rw [if_pos (hi.mpr hirr)]

example : BinPoly.xGF 283 = .ok (256, 8) ∧ BinPoly.xGF 6 = .error .value := by decide

/-! ## 4. kernel-evaluated tables: the test against exhaustive trial division in the model

`trialIrr p a` = "degree ≥ 1 and no monic polynomial of degree 1 … ⌊deg a / 2⌋ divides a" (exhaustive
search over `monicsOfDegree`).  The general theorem above makes these tables logically redundant; they are
an independent, purely computational cross-check of the executable model by the kernel. -/

theorem table_p2_deg6 : ∀ a ∈ polys 2 7, isIrreducible 2 a = trialIrr 2 a := by decide +kernel

theorem table_p3_deg3 : ∀ a ∈ polys 3 4, isIrreducible 3 a = trialIrr 3 a := by decide +kernel

theorem table_p5_deg2 : ∀ a ∈ polys 5 3, isIrreducible 5 a = trialIrr 5 a := by decide +kernel

/-- p = 7: all polynomials of degree ≤ 1 and all monic polynomials of degree 2 -/
theorem table_p7_deg2 : ∀ a ∈ polys 7 2 ++ monicsOfDegree 7 2, isIrreducible 7 a = trialIrr 7 a := by
  decide +kernel

theorem table_bin_deg6 : ∀ a ∈ binPolys 7,
    BinPoly.isIrreducible a = trialIrr 2 (BinPoly.toList a) := by decide +kernel

example : (polys 3 2).length = 9 ∧ [1, 1] ∈ polys 3 2 ∧ trialIrr 3 [1, 0, 1] = true ∧
    monicsOfDegree 3 1 = [[0, 1], [1, 1], [2, 1]] := by decide

end MpycV.C24
