/-
C01 (continued) — compositions: `eval_correct`.

`evalProto` (MpycV.Model.SecIntEval) evaluates a typed expression tree with the PROTOCOL models of
MpycV.Model.SecInt (sgn, lsb, _mod, field division, product trees, …), drawing the random values of the node at
path π from `ρ π`; `evalSpec` is the Python-integer meaning.  The theorem says: for every expression over the
operations of the property except the gcd family (constructor `gop`, see `gcd_partial` in MpycV.Props.C01) and
with `==` computed by `sgn(EQ=True)` (the code's choice for `l/2 ≤ k`), if every intermediate value of `evalSpec`
stays within l bits (and the arguments of `all`/`any` are bits, public divisors satisfy `0 < b < 2^l`), then for
ALL randomness in the declared ranges the protocol evaluation returns exactly the value of `evalSpec`.
This file is separate from MpycV/Props/C01.lean only because the proof uses the theorems stated there.
-/
import MpycV.Lemmas.SecIntEval

namespace MpycV.C01
open MpycV.SecInt

/-- **eval_correct** (all constructors of `Expr` except `gop`) -/
theorem eval_correct (c : Cfg) (hp : c.p.Prime) (hl : 0 < c.l) (hk : 0 < c.k)
    (hbig : (2 : Int) ^ (c.l + c.k + 1) < (c.p : Int)) (ρ : List Nat → Rnd) (hρ : ∀ π, Good c (ρ π))
    (env : List Int) (e : Expr) (π : List Nat) (v : Int) (hs : Supported e) (hin : InRange c.l env e)
    (h : evalSpec env e = some v) : evalProto c ρ env π e = some v :=
  SecInt.eval_correct c hp hl hk hbig ρ hρ env e π v hs hin h

/-- non-vacuity: `((x0 - x1 < 2) * |x0|) % 3` on inputs `[-2, 1]` over GF(1009), l = 3, k = 4: every good randomness
gives 2 -/
example (ρ : List Nat → Rnd) (hρ : ∀ π, Good cfg0 (ρ π)) : evalProto cfg0 ρ [-2, 1] [] e0 = some 2 :=
  eval_correct cfg0 P_prime (by decide) (by decide) (by decide) ρ hρ [-2, 1] e0 [] 2 supported_e0 inRange_e0 (by decide)
example : Good cfg0 rnd0 := good_rnd0

end MpycV.C01
