/-
C31 — secure lists behave like Python lists under any operation history (mpyc/seclists.py).

Model: `MpycV.SecList` (Model/SecList.lean): contents = `List Int`; `step` transcribes what `seclist`
computes for every operation (secret read = inner product with the unit vector, secret write
`x + (v - <x,u>) u`, delete/insert = blend with a shifted copy along the prefix-sum step function,
`find` halving recursion, `_norm` scan for the comparisons, `unit_vector` bit recursion).
Reference: `pyStep` = the same operation on a Python list, every key taken as the position it denotes
(`List.getD/set/eraseIdx/insertIdx/erase/count/idxOf`, lexicographic `<` on `List Int`, ascending `isort`).

Guard (`Guard`/`KeyOk`): a secret key denotes an in-range position (a secret number `a` of the list's
type with `0 ≤ a < len` (`≤ len` for insert), integral for fixed point; or exactly the unit vector `e_p`).
Outside the guard Python raises IndexError, the oblivious code cannot: it computes what `getVec`, `setVec`,
`delVec`, `insVec` compute for the vector at hand (documented by `oob_*` below).

`SortSpec srt`: hypothesis on `runtime._sort` (output ascending and a permutation of the input) — proved for
the sorting network in C29; `sortSpec_isort` shows it is satisfiable.
-/
import MpycV.Lemmas.SecListHistory

namespace MpycV.C31
open MpycV.SecList MpycV.SecList.Py

/-! ## `runtime.unit_vector` -/

/-- `unit_vector(a, n) = e_a` for `0 ≤ a < n` -/
theorem unitVector_spec (a n : Nat) (h : a < n) : unitVector (a : Int) n = unitVec a n :=
  SecList.unitVector_spec a n h
example : unitVector 2 5 = [0, 0, 1, 0, 0] := by decide

/-! ## the secret-index constructions on a unit vector `e_p` -/

/-- secret read: `in_prod(x, e_p) = x[p]` -/
theorem getitem_unit (x : List Int) (p : Nat) : getVec x (unitVec p x.length) = .ok (x.getD p 0) :=
  getVec_unitVec x p
example : getVec [5, 3, 8, 3] (unitVec 2 4) = .ok 8 := by rfl

/-- secret write: `x + (v - <x, e_p>) e_p = x[p ↦ v]` -/
theorem setitem_unit (x : List Int) (p : Nat) (v : Int) : setVec x (unitVec p x.length) v = .ok (x.set p v) :=
  setVec_unitVec x p v
example : setVec [5, 3, 8, 3] (unitVec 1 4) 7 = .ok [5, 7, 8, 3] := by rfl

/-- secret delete: the step-function blend removes position `p` -/
theorem delitem_unit (x : List Int) (p : Nat) (hp : p < x.length) :
    delVec x (unitVec p x.length) = .ok (x.eraseIdx p) := delVec_unitVec x p hp
example : delVec [5, 3, 8, 3] (unitVec 0 4) = .ok [3, 8, 3] := by rfl
example : delVec [5, 3, 8, 3] (unitVec 3 4) = .ok [5, 3, 8] := by rfl

/-- secret insert before position `p ≤ len` -/
theorem insert_unit (x : List Int) (p : Nat) (v : Int) (hp : p ≤ x.length) :
    insVec x (unitVec p (x.length + 1)) v = .ok (x.insertIdx p v) := insVec_unitVec x p v hp
example : insVec [5, 3, 8] (unitVec 3 4) 9 = .ok [5, 3, 8, 9] := by rfl
example : insVec [5, 3, 8] (unitVec 0 4) 9 = .ok [9, 5, 3, 8] := by rfl

/-- secret pop -/
theorem pop_unit (x : List Int) (p : Nat) (hp : p < x.length) :
    popVec x (unitVec p x.length) = .ok (x.getD p 0, x.eraseIdx p) := popVec_unitVec x p hp
example : popVec [7, 8, 3, 9] (unitVec 1 4) = .ok (8, [7, 3, 9]) := by rfl

/-! ## every operation refines the Python list operation -/

theorem getitem_refines (cfg : Cfg) (x : List Int) (k : Key) (h : KeyOk cfg.f k x.length) :
    step cfg x (.getitem k) = pyStep cfg.f x (.getitem k) := step_getitem cfg x k h
-- a secret fixed-point number 2.0 (f = 4: scaled 32) and a secindex with offset 1
example : KeyOk 4 (.sec 32) [5, 3, 8, 3].length := by simp [KeyOk]
example : KeyOk 0 (.vec 1 [0, 1, 0]) [5, 3, 8, 3].length := ⟨2, by decide, by decide⟩
example : pyStep 4 [5, 3, 8, 3] (.getitem (.sec 32)) = (Res.val 8, [5, 3, 8, 3]) := by decide

theorem setitem_refines (cfg : Cfg) (x : List Int) (k : Key) (v : Int) (h : KeyOk cfg.f k x.length) :
    step cfg x (.setitem k v) = pyStep cfg.f x (.setitem k v) := step_setitem cfg x k v h
example : pyStep 0 [5, 3, 8, 3] (.setitem (.vec 1 [0, 1, 0]) 7) = (Res.none, [5, 3, 7, 3]) := by decide

theorem delitem_refines (cfg : Cfg) (x : List Int) (k : Key) (h : KeyOk cfg.f k x.length) :
    step cfg x (.delitem k) = pyStep cfg.f x (.delitem k) := step_delitem cfg x k h
example : KeyOk 0 (.sec 3) [5, 3, 8, 3].length := by simp [KeyOk]
example : pyStep 0 [5, 3, 8, 3] (.delitem (.sec 3)) = (Res.none, [5, 3, 8]) := by decide

theorem insert_refines (cfg : Cfg) (x : List Int) (k : Key) (v : Int) (h : KeyOk cfg.f k (x.length + 1)) :
    step cfg x (.insert k v) = pyStep cfg.f x (.insert k v) := step_insert cfg x k v h
example : KeyOk 0 (.sec 4) ([5, 3, 8, 3].length + 1) := by simp [KeyOk]
example : pyStep 0 [5, 3, 8, 3] (.insert (.sec 4) 9) = (Res.none, [5, 3, 8, 3, 9]) := by decide

theorem pop_refines (cfg : Cfg) (x : List Int) (k : Key) (h : KeyOk cfg.f k x.length) :
    step cfg x (.pop k) = pyStep cfg.f x (.pop k) := step_pop cfg x k h
example : pyStep 0 [5, 3, 8, 3] (.pop (.sec 0)) = (Res.val 5, [3, 8, 3]) := by decide

/-- `count` = number of occurrences -/
theorem count_refines (x : List Int) (v : Int) : SecList.count x v = (x.count v : Nat) := count_eq x v
example : ([5, 3, 8, 3].count (3 : Int) : Nat) = 2 := by decide

/-- `contains` = membership bit -/
theorem contains_refines (x : List Int) (v : Int) : SecList.contains x v = if v ∈ x then 1 else 0 :=
  contains_eq x v

/-- `find` = index of the first occurrence, `-1` if absent (the halving recursion of `runtime.find`) -/
theorem find_refines (x : List Int) (v : Int) :
    SecList.find x v = if v ∈ x then ((x.idxOf v : Nat) : Int) else -1 := find_eq x v
example : pyFind [5, 3, 8, 3] 3 = 1 ∧ pyFind [5, 3, 8, 3] 4 = -1 := by decide

/-- `index`: ValueError iff the value is absent (the test `eq_public(ix, -1)` is public), else the first index -/
theorem index_refines (x : List Int) (v : Int) :
    SecList.index x v = if v ∈ x then .ok ((x.idxOf v : Nat) : Int) else .error Err.ValueError := index_eq x v

/-- `remove`: ValueError iff absent, else the first occurrence is deleted (through `unit_vector(find(v))`) -/
theorem remove_refines (x : List Int) (v : Int) :
    SecList.remove x v = if v ∈ x then .ok (x.erase v) else .error Err.ValueError := remove_eq x v
example : ([5, 3, 8, 3] : List Int).erase 3 = [5, 8, 3] := by decide

/-- `_less_than` is the lexicographic order of Python lists, for all lengths incl. empty lists -/
theorem lt_refines (x y : List Int) : lessThan x y = if x < y then 1 else 0 := lessThan_eq x y
example : ([5, 3] : List Int) < [5, 3, 1] ∧ ¬ ([5, 3, 1] : List Int) < [5, 3] ∧ ([] : List Int) < [0] ∧
    ([5, 2, 9] : List Int) < [5, 3] := by decide

/-- `__eq__` -/
theorem eq_refines (x y : List Int) : listEq x y = if x = y then 1 else 0 := listEq_eq x y

/-- all six comparison operators -/
theorem cmp_refines (o : CmpOp) (x y : List Int) : SecList.cmp o x y = if pyCmp o x y then 1 else 0 :=
  cmp_eq o x y
example : pyCmp .le [5, 3] [5, 3] = true ∧ pyCmp .gt [5, 3] [5, 3] = false ∧ pyCmp .ge [] [] = true ∧
    pyCmp .ne [1] [] = true := by decide

/-- `SortSpec` is satisfiable (insertion sort meets it) -/
theorem sortSpec_isort : SortSpec isort := fun l => ⟨isort_pairwise l, isort_perm l⟩

/-- `sort(reverse)`: given that `_sort` delivers an ascending permutation, the list becomes `sorted(x)`
(reversed for `reverse=True`; lists shorter than 2 are left alone) -/
theorem sort_refines (srt : List Int → List Int) (h : SortSpec srt) (x : List Int) (r : Bool) :
    sortOp srt x r = if r then (isort x).reverse else isort x := sortOp_eq srt h x r
example : isort [5, 3, 8, 3] = [3, 3, 5, 8] := by decide

/-- one arbitrary operation (public, secret-number, secindex keys; slices; queries; comparisons; sort) -/
theorem step_refines (cfg : Cfg) (hs : SortSpec cfg.srt) (x : List Int) (op : Op) (hg : Guard cfg.f x op) :
    step cfg x op = pyStep cfg.f x op := SecList.step_refines cfg hs x op hg

/-- by induction over arbitrary operation sequences: all results and the final contents are those of the
Python list -/
theorem history_refines (cfg : Cfg) (hs : SortSpec cfg.srt) (x : List Int) (ops : List Op)
    (hg : GuardAll cfg.f x ops) : run (step cfg) x ops = run (pyStep cfg.f) x ops :=
  SecList.history_refines cfg hs x ops hg

/-- a concrete history satisfying the guard (secret number, secindex with offset, bit list, public keys) -/
def demoOps : List Op :=
  [.setitem (.sec 1) 7, .delitem (.sec 0), .insert (.sec 3) 9, .pop (.vec 1 [1, 0, 0]), .append 4,
   .getitem (.pub (-1)), .remove 9, .sort true, .cmp .lt [7, 4, 4], .index 5, .getitem (.vec 0 [0, 0, 1])]
example : GuardAll 0 [5, 3, 8, 3] demoOps := by
  decide
example : run (pyStep 0) [5, 3, 8, 3] demoOps =
    ([.none, .none, .none, .val 8, .none, .val 4, .none, .none, .val 1, .err .ValueError, .val 3], [7, 4, 3]) := by
  decide

/-! ## index arguments are values: re-using the same index gives the Python result every time

In the model an operation takes its key as an (immutable) value and returns only `(result, new contents)`:
`step` cannot modify the caller's index, and a later use of the same key does not depend on earlier uses.
(The code achieves this by working on a private copy `i = key[:]` of a caller-supplied index list in the two
methods that turn the unit vector into a step function in place, `__delitem__` and `insert`; the harness checks
after every call on the real code that the caller's index object still opens to the same value and runs
histories that hand ONE index object to consecutive operations on one or two lists.) -/

/-- the guard of a key depends on the list only through its length: the same index object is a valid key
for every list of that length (parallel lists) -/
theorem keyOk_length (f : Nat) (k : Key) (x y : List Int) (h : x.length = y.length) :
    KeyOk f k x.length ↔ KeyOk f k y.length := by rw [h]

/-- parallel lists: `keys.insert(u, a); vals.insert(u, b)` with ONE secret index `u` inserts at the same
position of both lists (likewise `del keys[u]; del vals[u]`) -/
theorem shared_index_parallel (cfg : Cfg) (x y : List Int) (k : Key) (a b : Int) (hl : x.length = y.length)
    (hk : KeyOk cfg.f k (x.length + 1)) :
    step cfg x (.insert k a) = pyStep cfg.f x (.insert k a) ∧ step cfg y (.insert k b) = pyStep cfg.f y (.insert k b) :=
  ⟨step_insert cfg x k a hk, step_insert cfg y k b (hl ▸ hk)⟩

theorem shared_index_parallel_del (cfg : Cfg) (x y : List Int) (k : Key) (hl : x.length = y.length)
    (hk : KeyOk cfg.f k x.length) :
    step cfg x (.delitem k) = pyStep cfg.f x (.delitem k) ∧ step cfg y (.delitem k) = pyStep cfg.f y (.delitem k) :=
  ⟨step_delitem cfg x k hk, step_delitem cfg y k (hl ▸ hk)⟩

/-- take out at a secret position and put back at the SAME index: `a = s.pop(u); s.insert(u, w)` replaces
the element at that position (the list has its old length again and differs only there) -/
theorem pop_then_insert_same_index (cfg : Cfg) (hs : SortSpec cfg.srt) (x : List Int) (k : Key) (w : Int)
    (hk : KeyOk cfg.f k x.length) (hx : (pyStep cfg.f x (.pop k)).2.length + 1 = x.length) :
    run (step cfg) x [.pop k, .insert k w] = run (pyStep cfg.f) x [.pop k, .insert k w] := by
  apply SecList.history_refines cfg hs
  exact ⟨hk, by simpa [Guard, hx] using hk, trivial⟩
example : run (pyStep 0) [5, 3, 8, 3] [.pop (.vec 0 [0, 1, 0, 0]), .insert (.vec 0 [0, 1, 0, 0]) 103] =
    ([.val 3, .none], [5, 103, 8, 3]) := by decide
example : KeyOk 0 (.vec 0 [0, 1, 0, 0]) [5, 3, 8, 3].length ∧
    (pyStep 0 [5, 3, 8, 3] (.pop (.vec 0 [0, 1, 0, 0]))).2.length + 1 = [5, 3, 8, 3].length := by decide

/-! ## only `len` is public -/

/-- the sequence of runtime primitives called by an operation, with their vector lengths, is a function
of public data only: the length of the list, the public shape of the operation (kind; public index or
slice; lengths of list arguments / of a secindex; integrality FLAG of a fixed-point index) and — for
`remove` — the outcome of the test it opens itself (`eq_public(find(v), -1)`) -/
theorem only_len_public (cfg : Cfg) (x x' : List Int) (op op' : Op)
    (hlen : x.length = x'.length) (hshape : op.shape cfg.f = op'.shape cfg.f)
    (hpub : pubBit x op = pubBit x' op') : trace cfg x op = trace cfg x' op' :=
  SecList.only_len_public cfg x x' op op' hlen hshape hpub
example : Op.shape 0 (.setitem (.sec 1) 7) = Op.shape 0 (.setitem (.sec 3) (-2)) := by decide
example : trace ⟨0, isort⟩ [5, 3, 8, 3] (.setitem (.sec 1) 7) =
    [.unitVector 4, .inProd 4, .scalarMul 4, .vectorAdd 4] := by decide

/-- the length of `unit_vector(a, n)` does not depend on the secret `a` (also out of range) -/
theorem unitVector_length_indep (a a' : Int) (n : Nat) : (unitVector a n).length = (unitVector a' n).length :=
  SecList.unitVector_length_indep a a' n

/-! ## outside the guard: what the oblivious code does where Python raises IndexError -/

/-- a secret number `a ≥ n` or `a < 0` is reduced to its low `(n-1).bit_length()` bits; e.g. `a = n`
for `n` a power of two reads position 0 (the case noted in the docstring of `unit_vector`) -/
theorem oob_unitVector_examples :
    unitVector 4 4 = unitVec 0 4 ∧ unitVector (-1) 4 = unitVec 3 4 ∧ unitVector 5 5 = unitVec 0 5 ∧
    unitVector 7 5 = unitVec 1 5 ∧ unitVector 1 0 = [0, 1] := by decide

/-- for the all-zero vector (position ≥ len): read gives 0, write changes nothing, delete drops the LAST
element, insert appends the value … -/
theorem oob_zero_vector (x : List Int) (p : Nat) (hp : x.length ≤ p) (v : Int) :
    getVec x (unitVec p x.length) = .ok 0 ∧ setVec x (unitVec p x.length) v = .ok x := by
  refine ⟨?_, ?_⟩
  · rw [getVec_unitVec]; simp [List.getD_eq_getElem?_getD, hp]
  · rw [setVec_unitVec, List.set_eq_of_length_le hp]
example : delVec [5, 3, 8] (unitVec 7 3) = .ok [5, 3] := by rfl

end MpycV.C31
