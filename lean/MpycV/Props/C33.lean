/-
C33 — secure random functions stay in range and are uniform.

Model: `MpycV.Model.Random` — every function of mpyc/random.py as a function of an explicit stream of secret
random bits (`List Bool`), returning its value, the public values it opens (rejection tests) and the unused
rest of the stream; `Res.exhausted` = the stream was too short.

Range/shape theorems hold for EVERY n / population / range and EVERY bit stream.
Uniformity is a counting statement over bit streams (`*_uniform_le16`): for every n ≤ 16, every public
transcript `tr` and all outcomes `v, v'`, the number of streams of length `depth n` on which the function opens
`tr` and returns `v` equals the number for `v'` (kernel-checked enumeration of all streams, see
`MpycV.Lemmas.RandomEnum`).  `random_bits` itself: value ∈ {0,1} (resp. ±1) for both constructions, and the
sign flip `r ↦ −r` exchanges the two outcomes (`random_bit_sqrt_flip`).
-/
import MpycV.Lemmas.RandomMisc
import MpycV.Lemmas.RandomEnum

namespace MpycV.C33
open MpycV.Random

/-! ### getrandbits, _randbelow, randrange, randint -/

/-- `getrandbits(k)` is a k-bit number -/
theorem getrandbits_lt {k : Nat} {s : List Bool} {o : Out Nat} (h : getrandbits k s = .ok o) : o.val < 2 ^ k := by
  unfold getrandbits at h
  obtain ⟨o', h', hv, _, _⟩ := map_ok h
  obtain ⟨hl, _, _⟩ := getrandbitsBits_ok h'
  rw [hv, ← hl]; exact fromBits_lt _

example : getrandbits 3 [true, false, true, true] = .ok ⟨5, [], [true]⟩ := by decide

/-- `_randbelow(n)` is in `range(n)`, for every n ≥ 1 and every bit stream (any number of restarts) -/
theorem randbelow_lt {n : Nat} {s : List Bool} {o : Out Nat} (hn : 1 ≤ n) (h : randbelow n s = .ok o) :
    o.val < n := randbelow_lt' hn h

-- n = 5 (b = 0b100): x = 0b110 is rejected at bit 1 (opened 1), the restart keeps bit 0 and redraws bits 1..2
example : randbelow 5 [false, true, true, false, false] = .ok ⟨0, [true, false, false], []⟩ := by decide

/-- `randrange(start, stop, step)` with `step > 0` is an element of `range(start, stop, step)` -/
theorem randrange_mem {start stop step : Int} {s : List Bool} {o : Out Int} (hs : 0 < step)
    (h : randrange start stop step s = .ok o) :
    start ≤ o.val ∧ o.val < stop ∧ (o.val - start) % step = 0 := by
  obtain ⟨_, r, hr, hv⟩ := randrange_spec h
  obtain ⟨h1, h2⟩ := rangeLen_pos_bound hs hr
  rw [hv]
  refine ⟨h1, h2, ?_⟩
  have : start + (r : Int) * step - start = (r : Int) * step := by ring
  rw [this]; exact Int.mul_emod_left _ _

/-- negative step: `stop < value ≤ start`, on the grid -/
theorem randrange_mem_neg {start stop step : Int} {s : List Bool} {o : Out Int} (hs : step < 0)
    (h : randrange start stop step s = .ok o) :
    stop < o.val ∧ o.val ≤ start ∧ (o.val - start) % step = 0 := by
  obtain ⟨_, r, hr, hv⟩ := randrange_spec h
  obtain ⟨h1, h2⟩ := rangeLen_neg_bound hs hr
  rw [hv]
  refine ⟨h1, h2, ?_⟩
  have : start + (r : Int) * step - start = (r : Int) * step := by ring
  rw [this]; exact Int.mul_emod_left _ _

/-- empty range and zero step raise ValueError -/
theorem randrange_errors (start stop step : Int) (s : List Bool) :
    (step = 0 → randrange start stop step s = .error "ValueError") ∧
    (step ≠ 0 → rangeLen start stop step = 0 → randrange start stop step s = .error "ValueError") := by
  constructor
  · intro h; simp [randrange, h]
  · intro h1 h2; simp [randrange, h1, h2]

example : randrange 2 20 3 [true, true, false] = .ok ⟨2 + 3 * 3, [false], []⟩ ∧
    randrange 5 5 1 [] = .error "ValueError" ∧ randrange 10 0 (-3) [true, false] = .ok ⟨7, [], []⟩ := by decide

/-- `randint(a, b)` is in `[a, b]` -/
theorem randint_mem {a b : Int} {s : List Bool} {o : Out Int} (h : randint a b s = .ok o) :
    a ≤ o.val ∧ o.val ≤ b := by
  unfold randint at h
  obtain ⟨h1, h2, _⟩ := randrange_mem (by omega) h
  omega

example : randint 1 6 [true, false, true] = .ok ⟨6, [false], []⟩ := by decide

/-! ### random_unit_vector -/

/-- `random_unit_vector(n)` is a unit vector of length n: `[0]*p + [1] + [0]*(n-1-p)` with `p < n` -/
theorem unit_vector_shape {n : Nat} {s : List Bool} {o : Out (List Int)} (hn : 1 ≤ n)
    (h : randomUnitVector n s = .ok o) :
    o.val.length = n ∧ ∃ p, p < n ∧ o.val = List.replicate p 0 ++ 1 :: List.replicate (n - 1 - p) 0 := by
  obtain ⟨⟨p, q, hu⟩, hl⟩ := randomUnitVector_unit hn h
  refine ⟨hl, p, ?_, ?_⟩
  · rw [hu, unitAt_length] at hl; omega
  · rw [hu, unitAt_length] at hl
    rw [hu]; unfold unitAt
    have : n - 1 - p = q := by omega
    rw [this]

example : randomUnitVector 5 [false, true, true, false, false] = .ok ⟨[0, 0, 0, 0, 1], [true, false, false], []⟩ := by
  decide

/-! ### shuffle, random_permutation, random_derangement, sample -/

/-- `shuffle` / `random_permutation` return a rearrangement of x -/
theorem shuffle_perm {x : List Int} {s : List Bool} {o : Out (List Int)} (h : shuffle x s = .ok o) :
    o.val.Perm x := shuffle_perm' h

theorem random_permutation_perm {x : List Int} {s : List Bool} {o : Out (List Int)}
    (h : randomPermutation x s = .ok o) : o.val.Perm x := shuffle_perm' h

example : shuffle [10, 20, 30] [true, false, true] = .ok ⟨[20, 10, 30], [false], []⟩ := by decide

/-- `random_derangement`: a rearrangement of x without fixed points (the loop's exit condition) -/
theorem derangement_no_fixed_point {x : List Int} {s : List Bool} {o : Out (List Int)}
    (h : randomDerangement x s = .ok o) :
    o.val.Perm x ∧ ∀ (i : Nat) (h1 : i < o.val.length) (h2 : i < x.length), o.val[i] ≠ x[i] := by
  obtain ⟨hp, hne⟩ := derangeLoop_spec x _ x [] s o (List.Perm.refl x) h
  refine ⟨hp, ?_⟩
  intro i h1 h2 heq
  have hm : (vectorSub o.val x)[i]'(by simp [vectorSub]; omega) ∈ vectorSub o.val x := List.getElem_mem _
  have := prod_ne_zero hne _ hm
  rw [vectorSub_getElem o.val x i h1 h2, heq] at this
  simp at this

example : randomDerangement [0, 1, 2] [true, true, false, false, false] =
    .ok ⟨[2, 0, 1], [true, false, false], []⟩ := by decide

/-- `sample(population, k)` (sequence case): the first k entries of a rearrangement of the population, i.e.
k elements taken at k distinct positions -/
theorem sample_distinct_positions {population : List Int} {k : Nat} {s : List Bool} {o : Out (List Int)}
    (h : sampleList population k s = .ok o) :
    k ≤ population.length ∧ o.val.length = k ∧ ∃ l : List Int, l.Perm population ∧ o.val = l.take k := by
  unfold sampleList at h
  split at h
  · cases h
  · rename_i hk
    split at h
    · cases h
    · obtain ⟨o', h', hv, _, _⟩ := map_ok h
      have hp := fyLoop_perm _ _ _ _ h'
      refine ⟨by omega, ?_, o'.val, hp, hv⟩
      rw [hv, List.length_take, hp.length_eq]; omega

example : sampleList [1, 2, 3, 4] 2 [false, false, true, true, false, false] = .ok ⟨[4, 1], [true, false], []⟩ := by decide

/-- `sample(range(start, stop, step), k)`: k distinct elements of the range -/
theorem sample_range_distinct {start stop step : Int} {k : Nat} {s : List Bool} {o : Out (List Int)}
    (h : sampleRange start stop step k s = .ok o) :
    o.val.length = k ∧ o.val.Nodup ∧
      ∀ a ∈ o.val, ∃ r : Nat, r < rangeLen start stop step ∧ a = start + (r : Int) * step := by
  unfold sampleRange at h
  split at h
  · cases h
  · split at h
    · cases h
    · obtain ⟨h1, h2, h3⟩ := sampleRangeLoop_spec start stop step k _ [] [] s o (by simp) (by simp) (by simp) h
      exact ⟨h3, h1, h2⟩

-- the second candidate equals the first (opened `true`) and is drawn again
example : sampleRange 0 4 1 2 [false, false, false, false, false, true] = .ok ⟨[0, 2], [true, false], []⟩ := by
  decide

/-! ### choice, choices -/

theorem choice_mem {seq : List Int} {s : List Bool} {o : Out Int} (h : choice seq s = .ok o) : o.val ∈ seq :=
  choice_mem' h

theorem choice_empty (s : List Bool) : choice [] s = .error "IndexError" := rfl

example : choice [10, 20, 30] [true, false] = .ok ⟨20, [false], []⟩ := by decide

/-- `choices(population, k=k)`: k population members -/
theorem choices_mem {population : List Int} {k : Nat} {s : List Bool} {o : Out (List Int)}
    (h : choicesUniform population k s = .ok o) : o.val.length = k ∧ ∀ a ∈ o.val, a ∈ population :=
  choicesUniform_mem population k s o h

/-- one weighted pick is a population member when the cumulative weights are nondecreasing … -/
theorem weighted_pick_mem {population cum : List Int} (r : Nat) (hlen : cum.length = population.length)
    (hne : cum ≠ []) (hmono : List.Pairwise (· ≤ ·) cum) : weightedPick population cum r ∈ population :=
  weightedPick_mem r hlen hne hmono

-- weights 1, 2, 1 (cumulative 1, 3, 4): r = 0 ↦ first, r = 1, 2 ↦ second, r = 3 ↦ third: the weights are respected
example : (List.range 4).map (weightedPick [7, 8, 9] [1, 3, 4]) = [7, 8, 8, 9] := by decide

example : choicesWeighted [7, 8, 9] [2, 6, 8] 2 [true, false, false, true] = .ok ⟨[8, 8], [], []⟩ := by decide

/-! ### random, uniform -/

/-- `random()` = numerator / 2^f with numerator < 2^f: a number in [0, 1) -/
theorem random_lt_one {f : Nat} {s : List Bool} {o : Out Nat} (h : random f s = .ok o) : o.val < 2 ^ f := by
  unfold random at h
  split at h
  · cases h
  · exact getrandbits_lt h

example : random 4 [true, false, true, false] = .ok ⟨5, [], []⟩ ∧ random 0 [] = .error "TypeError" := by decide

/-- `uniform(a, b)` on the 2^-f grid: with `A = a·2^f`, `n = round(|a−b|·2^f)` the result lies between `A` and
`A ± (max(1,n) − 1)`, in particular between a and b; `a = b` (n = 0) gives exactly `a` -/
theorem uniform_between {f n : Nat} {A sgn : Int} {s : List Bool} {o : Out Int} (h : uniform f A n sgn s = .ok o) :
    (sgn = 1 → A ≤ o.val ∧ o.val ≤ A + ((max 1 n : Nat) : Int) - 1) ∧
    (sgn = -1 → A - ((max 1 n : Nat) : Int) + 1 ≤ o.val ∧ o.val ≤ A) := by
  unfold uniform at h
  split at h
  · cases h
  · obtain ⟨o', h', hv, _, _⟩ := map_ok h
    have hlt := randbelow_lt' (by omega) h'
    have hlt' : (o'.val : Int) < ((max 1 n : Nat) : Int) := by exact_mod_cast hlt
    constructor
    · intro h1; rw [hv, h1]; constructor <;> omega
    · intro h1; rw [hv, h1]; constructor <;> omega

example : uniform 4 24 0 1 [] = .ok ⟨24, [], []⟩ ∧ uniform 4 24 3 (-1) [true, false] = .ok ⟨23, [false], []⟩ := by
  decide

/-! ### uniformity: all bit streams, n ≤ 16 -/

/-- for every n ≤ 16, every public transcript `tr` and all `v, v' < n`: among ALL bit streams of length `depth n`
(= 2·bit_length(n−1): the first draw and a complete redraw) as many make `_randbelow(n)` open `tr` and return
`v` as make it open `tr` and return `v'` — every outcome has exactly the same probability, conditional on
everything that is made public -/
theorem randbelow_uniform_le16 {n : Nat} (h1 : 1 ≤ n) (h16 : n ≤ 16) (tr : List Bool) {v v' : Nat}
    (hv : v < n) (hv' : v' < n) :
    ((allStreams (depth n)).filter (fun s => outcome (randbelow n s) = some (some (tr, v)))).length =
    ((allStreams (depth n)).filter (fun s => outcome (randbelow n s) = some (some (tr, v')))).length := by
  obtain ⟨ht, hc⟩ := rbOuts_table h1 h16
  have := (uniformCheckW_sound hc).2.2 tr v v' (List.mem_range.2 hv) (List.mem_range.2 hv')
  rw [← ht] at this
  unfold rbOuts at this
  rw [count_map, count_map] at this
  exact this

/-- … and on none of these streams the model's loop fuel runs out or an error occurs; every value is `< n` -/
theorem randbelow_enum_sound {n : Nat} (h1 : 1 ≤ n) (h16 : n ≤ 16) {s : List Bool} (hs : s.length = depth n) :
    outcome (randbelow n s) ≠ none := by
  obtain ⟨ht, hc⟩ := rbOuts_table h1 h16
  apply (uniformCheckW_sound hc).1
  rw [← ht]
  unfold rbOuts
  exact List.mem_map.2 ⟨s, by rw [← hs]; exact mem_allStreams s, rfl⟩

example : (1 : Nat) ≤ 11 ∧ 11 ≤ 16 ∧ depth 11 = 8 ∧
    outcome (randbelow 11 [true, true, false, true, false, true, true, false]) = some (some ([false, true, false, false], 6)) := by
  decide

/-- the same for the position of the 1 in `random_unit_vector(n)` (`depthV n` bits) -/
theorem unit_vector_uniform_le16 {n : Nat} (h1 : 1 ≤ n) (h16 : n ≤ 16) (tr : List Bool) {p p' : Nat}
    (hp : p < n) (hp' : p' < n) :
    ((allStreams (depthV n)).filter (fun s => outcome (ruvPos n s) = some (some (tr, p)))).length =
    ((allStreams (depthV n)).filter (fun s => outcome (ruvPos n s) = some (some (tr, p')))).length := by
  obtain ⟨ht, hc⟩ := ruvOuts_table h1 h16
  have := (uniformCheckW_sound hc).2.2 tr p p' (List.mem_range.2 hp) (List.mem_range.2 hp')
  rw [← ht] at this
  unfold ruvOuts at this
  rw [count_map, count_map] at this
  exact this

/-- `ruvPos` is the position of the 1 in the unit vector returned -/
theorem ruvPos_spec {n : Nat} {s : List Bool} {o : Out Nat} (hn : 1 ≤ n) (h : ruvPos n s = .ok o) :
    ∃ o' : Out (List Int), randomUnitVector n s = .ok o' ∧ o.opened = o'.opened ∧ o.rest = o'.rest ∧
      o.val < n ∧ o'.val = List.replicate o.val 0 ++ 1 :: List.replicate (n - 1 - o.val) 0 := by
  unfold ruvPos at h
  obtain ⟨o', h', hv, ho, hr⟩ := map_ok h
  obtain ⟨hl, p, hp, hu⟩ := unit_vector_shape hn h'
  have key : ∀ (p q : Nat), (List.replicate p (0 : Int) ++ 1 :: List.replicate q 0).idxOf 1 = p := by
    intro p q
    induction p with
    | zero => simp
    | succ p ih => rw [List.replicate_succ, List.cons_append, List.idxOf_cons]; simp [ih]
  have hidx : o'.val.idxOf 1 = p := by rw [hu]; exact key _ _
  refine ⟨o', h', ho, hr, ?_, ?_⟩
  · rw [hv, hidx]; exact hp
  · rw [hv, hidx]; exact hu

example : (1 : Nat) ≤ 6 ∧ depthV 6 = 6 ∧
    outcome (ruvPos 6 [true, true, true, true, false, false]) = some (some ([true, false], 1)) := by decide

/-! ### runtime.random_bits (value layer) -/

/-- PRSS construction `r·(r²)^(-1/2)`: for an odd prime p and `w² r² ≡ 1`, the unsigned bit is 0 or 1 and the
signed one is ±1 (mod p) -/
theorem random_bit_sqrt {p r w : Nat} (hp : p.Prime) (hodd : p % 2 = 1) (h : (r * w % p) * (r * w % p) % p = 1) :
    (bitFromSqrt p r w false = 0 ∨ bitFromSqrt p r w false = 1) ∧
    (bitFromSqrt p r w true = 1 ∨ bitFromSqrt p r w true = p - 1) := bitFromSqrt_spec hp hodd h

/-- uniform given uniform r: `r` and `−r` have the same square (same `w`) and give opposite bits -/
theorem random_bit_sqrt_flip {p r w : Nat} (hp : p.Prime) (hodd : p % 2 = 1) (hr : r ≤ p)
    (h : (r * w % p) * (r * w % p) % p = 1) :
    bitFromSqrt p (p - r) w false = 1 - bitFromSqrt p r w false := bitFromSqrt_flip hp hodd hr h

-- p = 7, r = 3: r² = 2, w = 5 (5²·2 = 50 ≡ 1): bit 1; r = 4 = −3: bit 0
example : Nat.Prime 7 ∧ (3 * 5 % 7) * (3 * 5 % 7) % 7 = 1 ∧ bitFromSqrt 7 3 5 false = 1 ∧ bitFromSqrt 7 4 5 false = 0 := by
  refine ⟨by decide, by decide, by decide, by decide⟩

/-- no-PRSS construction: the product of the senders' ±1 values is ±1, the unsigned bit is 0 or 1 -/
theorem random_bit_prod {p : Nat} {vals : List Nat} (hp2 : 2 ≤ p) (hodd : p % 2 = 1)
    (hv : ∀ v ∈ vals, v = 1 ∨ v = p - 1) :
    (bitFromProd p vals false = 0 ∨ bitFromProd p vals false = 1) ∧
    (bitFromProd p vals true = 1 ∨ bitFromProd p vals true = p - 1) := bitFromProd_spec hp2 hodd hv

example : bitFromProd 7 [6, 6, 1] false = 1 ∧ bitFromProd 7 [6, 1] false = 0 ∧ bitFromProd 7 [6, 1] true = 6 := by
  decide

end MpycV.C33
