/-
C35 — barriers and shutdown wait for all started MPyC coroutines.
Model: MpycV.Model.Level (the `_pc_level` bookkeeping of mpc_coro / _reconcile, the barrier loop and
the shutdown handshake).
-/
import MpycV.Model.Level
import MpycV.Lemmas.Level

namespace MpycV.C35
open MpycV.Level

/-- in every well-formed history `_pc_level` equals the number of coroutines whose done-callback
has not run yet — whatever the mix of early returns, early exceptions, synchronous runs and tasks,
and also when tasks end with an exception -/
theorem level_counts_unreconciled (evs : List Ev) (h : wfB State.init [] evs = true) :
    (run State.init evs).level = ((run State.init evs).unreconciled.length : Int) := by
  obtain ⟨_, hinv⟩ := inv_run_init h
  exact hinv.lvl

/-- every coroutine whose Task is still running is counted in the level -/
theorem running_subset_unreconciled (evs : List Ev) (h : wfB State.init [] evs = true) :
    ∀ id ∈ (run State.init evs).running, id ∈ (run State.init evs).unreconciled := by
  obtain ⟨_, hinv⟩ := inv_run_init h
  exact hinv.sub

/-- **barrier post-condition**: when the barrier loop of a top-level barrier (or of shutdown) exits,
i.e. `_pc_level ≤ 0` (program depth 0), no coroutine started earlier is still running -/
theorem barrier_post (evs : List Ev) (h : wfB State.init [] evs = true)
    (hb : (run State.init evs).level ≤ 0) :
    (run State.init evs).running = [] ∧ (run State.init evs).unreconciled = [] := by
  obtain ⟨_, hinv⟩ := inv_run_init h
  exact hinv.quiescent hb

/-- reachable stage vectors of the shutdown handshake of m parties with final levels `levels` -/
inductive Reach (levels : List Int) (m : Nat) : Stages → Prop where
  | init : Reach levels m (List.replicate m 0)
  | step (st : Stages) (s : ShStep) : Reach levels m st → shEnabled levels st s = true →
      Reach levels m (shApply st s)

/-- **shutdown safety**: whenever some party has closed its connections (stage 2), EVERY party has
left its barrier loop, and a party leaves the barrier loop only with level ≤ 0 — so by `barrier_post`
every coroutine of every party has finished before any connection is closed -/
theorem shutdown_safe (levels : List Int) (m : Nat) (st : Stages) (hr : Reach levels m st)
    (i : Nat) (hi : st.getD i 0 = 2) :
    ∀ j, j < m → 1 ≤ st.getD j 0 ∧ levels.getD j 1 ≤ 0 := by
  have hinv : ShInv levels m st := by
    clear hi
    induction hr with
    | init => exact shInv_init levels m
    | step st s _ hen ih => exact shInv_step ih s hen
  intro j hj
  have h1 := hinv.cls i hi j hj
  exact ⟨h1, hinv.lvl j hj h1⟩

/-! ### non-vacuity -/
example :
    let evs := [Ev.call 0 Outcome.task, Ev.call 1 Outcome.earlyReturn, Ev.call 2 Outcome.task,
                Ev.finish 2, Ev.call 3 Outcome.earlyRaise, Ev.reconcile 2, Ev.finish 0, Ev.reconcile 0]
    wfB State.init [] evs = true ∧ (run State.init evs).level = 0 := by decide

end MpycV.C35
