/-
C19 — parties outside the receivers learn nothing from an output.
Model: MpycV.Model.Comm.  A non-receiver of `output`/`transfer` is the target of no message of that
operation and performs no receive for it.  (Secure floats output to a subset additionally run one
`input` by the leader and one `schur_prod` resharing: both are degree-t dealings, covered by C13/C14.)
-/
import MpycV.Lemmas.Comm

namespace MpycV.C19
open MpycV.Comm

/-- `output` to receivers R: a party j ∉ R gets no share from anybody and awaits none -/
theorem output_nonreceiver_silent (m t j : Nat) (R : List Nat) (hj : j ∉ R) :
    (∀ i, j ∉ outSends m t i R) ∧ outRecvs m t j R = [] := by
  constructor
  · intro i h; rw [mem_outSends] at h; exact hj h.1
  · unfold outRecvs; simp [hj]

/-- all traffic of an `output` goes to members of R -/
theorem output_traffic_subset (m t i : Nat) (R : List Nat) : ∀ j ∈ outSends m t i R, j ∈ R := by
  intro j h; rw [mem_outSends] at h; exact h.1

/-- `transfer` with sender/receiver lists: a party outside the receivers gets no message and its
result is the empty pattern (the code returns None / [] for it) -/
theorem transfer_nonreceiver_silent (i j : Nat) (S R : List Nat) (hj : j ∉ R) :
    j ∉ transferSends i (transferMyReceivers i S R) ∧ transferMySenders j S R = [] := by
  unfold transferSends transferMyReceivers transferMySenders
  constructor
  · split <;> simp [List.mem_filter, hj]
  · simp [hj]

/-- `transfer` along an arbitrary graph: a node without incoming arc gets no message -/
theorem transfer_arcs_nonreceiver_silent (i j : Nat) (arcs : List (Nat × Nat))
    (hj : ∀ a, (a, j) ∉ arcs) :
    j ∉ transferSends i (arcsMyReceivers i arcs) ∧ arcsMySenders j arcs = [] := by
  unfold transferSends arcsMyReceivers arcsMySenders
  constructor
  · simp only [List.mem_filter, List.mem_map, beq_iff_eq, bne_iff_ne, ne_eq, not_and, not_not]
    rintro ⟨⟨a, b⟩, ⟨hab, rfl⟩, rfl⟩
    exact absurd hab (hj a)
  · rw [List.map_eq_nil_iff, List.filter_eq_nil_iff]
    rintro ⟨a, b⟩ hab
    simp only [beq_iff_eq]
    intro h; subst h; exact hj a hab

/-! ### non-vacuity -/
example : (4 : Nat) ∉ [0, 2] ∧ outSends 5 2 3 [0, 2] = [0] ∧ outRecvs 5 2 4 [0, 2] = [] := by decide

end MpycV.C19
