/-
C13 — any t Shamir shares reveal nothing about the secret.

Model: one secret `s` shared by `shareAt o s c (i+1)` with the `t` coefficients `c` of `random_split`
(thresha.py:37-43).  Assumption (trusted, monitored by the check): the coefficients are `t` independent
uniform draws `secrets.randbelow(field.order)` per secret.  Under it the probability of a view is
(#coefficient vectors producing it) / |F|^t, so the counting theorems below are exactly "the joint
distribution of any ≤ t shares is uniform, hence identical for every secret".
-/
import MpycV.Lemmas.ThreshaModP

namespace MpycV.C13

open MpycV.Thresha Polynomial

variable {F : Type} [Field F] [Fintype F]

instance : Fact (Nat.Prime 7) := ⟨by decide⟩

lemma injOn7 : Set.InjOn (Nat.cast : ℕ → ZMod 7) (Set.Iic 5) := by
  intro a ha b hb h
  simp only [Set.mem_Iic] at ha hb
  interval_cases a <;> interval_cases b <;> first | rfl | (exfalso; revert h; decide)

/-- ★ `shares_uniform`: a coalition `A` of exactly `t` parties (distinct, non-zero points `emb (i+1)`),
any secret `s`, any target view `y`: exactly one coefficient vector `c ∈ F^t` produces that view. -/
theorem shares_uniform (emb : ℕ → F) (h0 : emb 0 = 0) {m : ℕ} (hemb : Set.InjOn emb (Set.Iic m))
    (t : ℕ) (A : Finset ℕ) (hA : ∀ i ∈ A, i < m) (hAt : A.card = t) (s : F) (y : ℕ → F) :
    ∃! c : Fin t → F, ∀ i ∈ A, shareAt (fieldOps F emb) s (List.ofFn c) (i + 1) = y i :=
  coalition_view_unique emb h0 hemb t A hA hAt s y

example : ∃! c : Fin 2 → ZMod 7, ∀ i ∈ ({0, 3} : Finset ℕ),
    shareAt (fieldOps (ZMod 7) Nat.cast) 4 (List.ofFn c) (i + 1) = (fun i => (i : ZMod 7) + 2) i :=
  shares_uniform _ (by simp) injOn7 2 {0, 3} (by decide) (by decide) 4 _

/-- ★ `shares_uniform_le`: a coalition of at most `t` parties, `t < m`: the number of coefficient vectors
producing a given view is `|F|^(t-|A|)` — independent of the secret and of the view. -/
theorem shares_uniform_le (emb : ℕ → F) (h0 : emb 0 = 0) {m : ℕ} (hemb : Set.InjOn emb (Set.Iic m))
    (t : ℕ) (htm : t < m) (A : Finset ℕ) (hA : ∀ i ∈ A, i < m) (hAt : A.card ≤ t) (s : F)
    (y : ℕ → F) :
    Nat.card {c : Fin t → F // ∀ i ∈ A, shareAt (fieldOps F emb) s (List.ofFn c) (i + 1) = y i}
      = Fintype.card F ^ (t - A.card) :=
  coalition_view_card emb h0 hemb t htm A hA hAt s y

example : Nat.card {c : Fin 2 → ZMod 7 // ∀ i ∈ ({3} : Finset ℕ),
    shareAt (fieldOps (ZMod 7) Nat.cast) 4 (List.ofFn c) (i + 1) = (fun _ => (6 : ZMod 7)) i}
    = Fintype.card (ZMod 7) ^ (2 - ({3} : Finset ℕ).card) :=
  shares_uniform_le _ (by simp) injOn7 2 (by decide) {3} (by decide) (by decide) 4 _

/-- corollary: the view of a coalition of ≤ t parties is identically distributed for any two secrets -/
theorem view_independent_of_secret (emb : ℕ → F) (h0 : emb 0 = 0) {m : ℕ}
    (hemb : Set.InjOn emb (Set.Iic m)) (t : ℕ) (htm : t < m) (A : Finset ℕ) (hA : ∀ i ∈ A, i < m)
    (hAt : A.card ≤ t) (s s' : F) (y : ℕ → F) :
    Nat.card {c : Fin t → F // ∀ i ∈ A, shareAt (fieldOps F emb) s (List.ofFn c) (i + 1) = y i}
      = Nat.card {c : Fin t → F // ∀ i ∈ A, shareAt (fieldOps F emb) s' (List.ofFn c) (i + 1) = y i} := by
  rw [shares_uniform_le emb h0 hemb t htm A hA hAt s y, shares_uniform_le emb h0 hemb t htm A hA hAt s' y]

example : Nat.card {c : Fin 2 → ZMod 7 // ∀ i ∈ ({1, 3} : Finset ℕ),
      shareAt (fieldOps (ZMod 7) Nat.cast) 0 (List.ofFn c) (i + 1) = (fun _ => (6 : ZMod 7)) i}
    = Nat.card {c : Fin 2 → ZMod 7 // ∀ i ∈ ({1, 3} : Finset ℕ),
      shareAt (fieldOps (ZMod 7) Nat.cast) 5 (List.ofFn c) (i + 1) = (fun _ => (6 : ZMod 7)) i} :=
  view_independent_of_secret _ (by simp) injOn7 2 (by decide) {1, 3} (by decide) (by decide) 0 5 _

/-- corollary: every view has probability `|F|^-|A|` (uniform): #vectors · |F|^|A| = |F|^t -/
theorem view_probability (emb : ℕ → F) (h0 : emb 0 = 0) {m : ℕ}
    (hemb : Set.InjOn emb (Set.Iic m)) (t : ℕ) (htm : t < m) (A : Finset ℕ) (hA : ∀ i ∈ A, i < m)
    (hAt : A.card ≤ t) (s : F) (y : ℕ → F) :
    Nat.card {c : Fin t → F // ∀ i ∈ A, shareAt (fieldOps F emb) s (List.ofFn c) (i + 1) = y i}
      * Fintype.card F ^ A.card = Fintype.card F ^ t := by
  rw [shares_uniform_le emb h0 hemb t htm A hA hAt s y, ← pow_add]
  congr 1; omega

example : Nat.card {c : Fin 2 → ZMod 7 // ∀ i ∈ ({1} : Finset ℕ),
      shareAt (fieldOps (ZMod 7) Nat.cast) 0 (List.ofFn c) (i + 1) = (fun _ => (6 : ZMod 7)) i}
    * Fintype.card (ZMod 7) ^ ({1} : Finset ℕ).card = Fintype.card (ZMod 7) ^ 2 :=
  view_probability _ (by simp) injOn7 2 (by decide) {1} (by decide) (by decide) 0 _

/-- the count for the executable model `modP p` run by the correspondence (canonical representatives) -/
theorem shares_uniform_modP (p : ℕ) [Fact p.Prime] {m : ℕ} (hm : m < p) (t : ℕ) (htm : t < m)
    (A : Finset ℕ) (hA : ∀ i ∈ A, i < m) (hAt : A.card ≤ t) (s : ZMod p) (y : ℕ → ZMod p) :
    Nat.card {c : Fin t → ZMod p // ∀ i ∈ A,
        shareAt (modP p) s.val (List.ofFn fun k => (c k).val) (i + 1) = (y i).val}
      = p ^ (t - A.card) :=
  coalition_view_card_modP p hm t htm A hA hAt s y

example : Nat.card {c : Fin 2 → ZMod 7 // ∀ i ∈ ({1, 2} : Finset ℕ),
      shareAt (modP 7) (3 : ZMod 7).val (List.ofFn fun k => (c k).val) (i + 1)
        = ((fun _ => (6 : ZMod 7)) i).val}
    = 7 ^ (2 - ({1, 2} : Finset ℕ).card) :=
  shares_uniform_modP 7 (m := 5) (by decide) 2 (by decide) {1, 2} (by decide) (by decide) 3 _

omit [Fintype F] in
/-- the coefficient vector is determined by the sharing polynomial: the Horner loop uses every coefficient
(for a fixed number of coefficients the map `c ↦ f_c` is injective) -/
theorem coefficients_determined {c c' : List F} (hl : c.length = c'.length) (s : F)
    (h : sharePoly s c = sharePoly s c') : c = c' :=
  hornerPoly_inj hl (add_right_cancel h)

example : ∀ c' : List (ZMod 7), [1, 2].length = c'.length →
    sharePoly (3 : ZMod 7) [1, 2] = sharePoly 3 c' → [1, 2] = c' :=
  fun _ hl h => coefficients_determined hl 3 h

end MpycV.C13
