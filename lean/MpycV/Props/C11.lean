/-
C11 — at any point the m parties' shares of a secure value lie on one polynomial of degree ≤ t whose constant
term is the value.

Models: `MpycV.Model.Thresha` (random_split, recombine, PRSS  ≙ thresha.py) and `MpycV.Model.Share` (what the
runtime does with share vectors: local +, -, ·, public constants, `_reshare` ≙ runtime.py:658-680 with the dealer
rotation `uci` and the code's order of recombination points, the no-PRSS sum of dealt sharings ≙ runtime.py:4065).

`Consistent emb m t sh v` (Lemmas/Share.lean):
    ∃ f : F[X], f.natDegree ≤ t ∧ f.eval 0 = v ∧ ∀ i < m, sh i = f.eval (emb (i+1))
over ANY field `F` with an embedding `emb` of party numbers that is injective on 0..m and maps 0 to 0 (prime
fields with m < p: `embP p`; the hypothesis of C12).  The invariant is established by every way a secure value
comes into existence (input dealing, PRSS, no-PRSS randoms) and preserved by every share-level step (linear
operations, public constants, local multiplication to degree 2t followed by resharing back to degree t); the
`…B` theorems state the same for the executable GF(p) model that the driver runs, in terms of the decision
procedure `consistentB`, which is proved sound and complete.

Not covered by theorems here (checked by the harness on the real code): that every runtime protocol is a
composition of exactly these steps (the coordinator's oracle gathers the real shares of every intermediate
value), the np_* array variants, extension fields on the executable side (the abstract theorems cover them).
-/
import MpycV.Lemmas.ShareModP
import MpycV.Props.C15

namespace MpycV.C11

open MpycV.Thresha MpycV.Share Polynomial

variable {F : Type} [Field F] {emb : ℕ → F} {m t : ℕ}

instance : Fact (Nat.Prime 7) := ⟨by decide⟩

lemma injOn7 : Set.InjOn (Nat.cast : ℕ → ZMod 7) (Set.Iic 3) := by
  intro a ha b hb h
  simp only [Set.mem_Iic] at ha hb
  interval_cases a <;> interval_cases b <;> first | rfl | (exfalso; revert h; decide)

/-! ### establishing the invariant -/

/-- ★ `consistent_deal` (input, resharing subshares, no-PRSS randoms: every `random_split` call): column `h` of
the share matrix is a consistent sharing of `s[h]` of degree ≤ t — for ANY coefficients, any m, t. -/
theorem consistent_deal (emb : ℕ → F) (s coeffs : List F) (t m : ℕ) {h : ℕ} (hh : h < s.length) :
    Consistent emb m t
      (fun i => ((randomSplit (fieldOps F emb) s coeffs t m).getD i []).getD h 0) (s.getD h 0) :=
  Share.consistent_deal emb s coeffs t m hh

example : Consistent (Nat.cast : ℕ → ZMod 7) 3 1
    (fun i => ((randomSplit (fieldOps (ZMod 7) Nat.cast) [3, 5] [2, 6] 1 3).getD i []).getD 1 0) 5 :=
  consistent_deal _ [3, 5] [2, 6] 1 3 (by decide)

/-- ★ PRSS (`_randoms`, `random_bits`, `_convert` with PRSS): the shares computed independently by the m parties
from the keys they hold are a consistent sharing of `Σ_S r_S[h]` of degree ≤ t (corollary of C15). -/
theorem consistent_prss (emb : ℕ → F) (h0 : emb 0 = 0) (hemb : Set.InjOn emb (Set.Iic m)) (htm : t ≤ m)
    (all : List (List ℕ × List F)) (hall : C15.WellFormed m t all) (n : ℕ) {h : ℕ} (hh : h < n) :
    Consistent emb m t (fun i => (prssShare (fieldOps F emb) m i (prfsOf i all) n).getD h 0)
      (all.map fun Sp => Sp.2.getD h 0).sum :=
  C15.prss_consistent emb h0 hemb htm all hall n h hh

example : Consistent (Nat.cast : ℕ → ZMod 7) 3 1
    (fun i => (prssShare (fieldOps (ZMod 7) Nat.cast) 3 i
      (prfsOf i [([0, 1], [3, 4]), ([0, 2], [1, 1]), ([1, 2], [6, 0])]) 2).getD 1 0)
    (([([0, 1], [3, 4]), ([0, 2], [1, 1]), ([1, 2], [6, 0])] :
      List (List ℕ × List (ZMod 7))).map fun Sp => Sp.2.getD 1 0).sum :=
  consistent_prss _ (by simp) injOn7 (by decide) _ (by
    intro Sp hSp
    simp only [List.mem_cons, List.not_mem_nil, or_false] at hSp
    rcases hSp with rfl | rfl | rfl <;> decide) 2 (by decide)

/-- PRSS zero sharing (added before an opening of a product): consistent of degree ≤ 2t with value 0 -/
theorem consistent_prss_zero (emb : ℕ → F) (hemb : Set.InjOn emb (Set.Iic m)) (htm : t ≤ m)
    (all : List (List ℕ × List F)) (hall : C15.WellFormed m t all) (n : ℕ) {h : ℕ} (hh : h < n) :
    Consistent emb m (2 * t) (fun i => (prssZero (fieldOps F emb) m i (prfsOf i all) n).getD h 0) 0 :=
  C15.prss_zero_consistent emb hemb htm all hall n h hh

example : Consistent (Nat.cast : ℕ → ZMod 7) 3 (2 * 1)
    (fun i => (prssZero (fieldOps (ZMod 7) Nat.cast) 3 i
      (prfsOf i [([0, 1], [3]), ([0, 2], [1]), ([1, 2], [6])]) 1).getD 0 0) 0 :=
  consistent_prss_zero _ injOn7 (by decide) _ (by
    intro Sp hSp
    simp only [List.mem_cons, List.not_mem_nil, or_false] at hSp
    rcases hSp with rfl | rfl | rfl <;> decide) 1 (by decide)

/-- ★ `consistent_sum_dealt` (no-PRSS `_randoms`/`random_bits`/`_convert`): the t+1 senders each deal a value,
every party adds what it received: consistent sharing of the sum.  (With `consistent_deal`: the rows are
`random_split` outputs.) -/
theorem consistent_sum_dealt (rows : List (List F)) (r : List F → F)
    (h : ∀ row ∈ rows, Consistent emb m t (shFn row) (r row)) :
    Consistent emb m t (shFn (sumDealt (fieldOps F emb) m rows)) (rows.map r).sum :=
  consistent_sumDealt rows r h

example : Consistent (Nat.cast : ℕ → ZMod 7) 3 1
    (shFn (sumDealt (fieldOps (ZMod 7) Nat.cast) 3 [[2, 2, 2], [5, 5, 5]]))
    (([[2, 2, 2], [5, 5, 5]] : List (List (ZMod 7))).map fun row => row.getD 0 0).sum :=
  consistent_sum_dealt _ (fun row => row.getD 0 0) (by
    intro row hrow
    simp only [List.mem_cons, List.not_mem_nil, or_false] at hrow
    rcases hrow with rfl | rfl
    · exact (Share.consistent_const _ 3 1 (2 : ZMod 7)).congr
        (fun i hi => by interval_cases i <;> rfl)
    · exact (Share.consistent_const _ 3 1 (5 : ZMod 7)).congr
        (fun i hi => by interval_cases i <;> rfl))

/-- the same with the senders' rows produced by `random_split` (sender `j` deals `vals[j]` with coefficients
`cs[j]`): every party's sum is a share of `Σ_j vals[j]` -/
theorem consistent_sum_dealt_split (emb : ℕ → F) (t m : ℕ) (deals : List (F × List F)) :
    Consistent emb m t
      (shFn (sumDealt (fieldOps F emb) m
        (deals.map fun vc => (randomSplit (fieldOps F emb) [vc.1] vc.2 t m).map fun row => row.getD 0 0)))
      (deals.map fun vc => vc.1).sum := by
  have key := consistent_list_sum (emb := emb) (m := m) (t := t) deals
    (fun vc i => ((randomSplit (fieldOps F emb) [vc.1] vc.2 t m).getD i []).getD 0 0) (fun vc => vc.1)
    (fun vc _ => Share.consistent_deal emb [vc.1] vc.2 t m (h := 0) (by simp))
  refine key.congr fun i hi => ?_
  simp only [shFn]
  rw [sumDealt_getD _ hi, List.map_map]
  congr 1
  apply List.map_congr_left
  intro vc _
  simp only [Function.comp]
  have hi' : i < (randomSplit (fieldOps F emb) [vc.1] vc.2 t m).length := by simpa [randomSplit] using hi
  rw [getD_lt _ _ (by simpa using hi'), getD_lt _ _ hi']
  simp

example : Consistent (Nat.cast : ℕ → ZMod 7) 3 1
    (shFn (sumDealt (fieldOps (ZMod 7) Nat.cast) 3
      (([((2 : ZMod 7), [(5 : ZMod 7)]), (6, [1])] : List (ZMod 7 × List (ZMod 7))).map fun vc =>
        (randomSplit (fieldOps (ZMod 7) Nat.cast) [vc.1] vc.2 1 3).map fun row => row.getD 0 0)))
    (([((2 : ZMod 7), [(5 : ZMod 7)]), (6, [1])] : List (ZMod 7 × List (ZMod 7))).map fun vc => vc.1).sum :=
  consistent_sum_dealt_split _ 1 3 _

/-! ### local operations -/

/-- ★ linear operations and public constants preserve the invariant (same degree bound) -/
theorem consistent_add {a b : ℕ → F} {va vb : F} (ha : Consistent emb m t a va)
    (hb : Consistent emb m t b vb) : Consistent emb m t (fun i => a i + b i) (va + vb) := ha.add hb

theorem consistent_sub {a b : ℕ → F} {va vb : F} (ha : Consistent emb m t a va)
    (hb : Consistent emb m t b vb) : Consistent emb m t (fun i => a i - b i) (va - vb) := ha.sub hb

theorem consistent_neg {a : ℕ → F} {va : F} (ha : Consistent emb m t a va) :
    Consistent emb m t (fun i => -a i) (-va) := ha.neg

/-- multiplication by a public constant -/
theorem consistent_smul {a : ℕ → F} {va : F} (c : F) (ha : Consistent emb m t a va) :
    Consistent emb m t (fun i => c * a i) (c * va) := ha.smul c

/-- a public constant held by everybody is a consistent sharing of itself -/
theorem consistent_const (emb : ℕ → F) (m t : ℕ) (c : F) : Consistent emb m t (fun _ => c) c :=
  Share.consistent_const emb m t c

/-- adding a public constant shifts every share by it -/
theorem consistent_add_const {a : ℕ → F} {va : F} (c : F) (ha : Consistent emb m t a va) :
    Consistent emb m t (fun i => a i + c) (va + c) := ha.add_const c

example : Consistent (Nat.cast : ℕ → ZMod 7) 3 1
    (fun i => (3 : ZMod 7) * (((randomSplit (fieldOps (ZMod 7) Nat.cast) [3, 5] [2, 6] 1 3).getD i []).getD 0 0
      - ((randomSplit (fieldOps (ZMod 7) Nat.cast) [3, 5] [2, 6] 1 3).getD i []).getD 1 0) + 4)
    (3 * (3 - 5) + 4) :=
  consistent_add_const 4 (consistent_smul 3 (consistent_sub
    (consistent_deal _ [3, 5] [2, 6] 1 3 (h := 0) (by decide))
    (consistent_deal _ [3, 5] [2, 6] 1 3 (h := 1) (by decide))))

/-- the same statements for the executable share-vector operations of the model -/
theorem consistent_vector_ops {a b : List F} {va vb : F} (c : F) (hla : m ≤ a.length) (hlb : m ≤ b.length)
    (ha : Consistent emb m t (shFn a) va) (hb : Consistent emb m t (shFn b) vb) :
    Consistent emb m t (shFn (addShares (fieldOps F emb) a b)) (va + vb) ∧
    Consistent emb m t (shFn (subShares (fieldOps F emb) a b)) (va - vb) ∧
    Consistent emb m t (shFn (negShares (fieldOps F emb) a)) (-va) ∧
    Consistent emb m t (shFn (smulShares (fieldOps F emb) c a)) (c * va) ∧
    Consistent emb m t (shFn (addConst (fieldOps F emb) c a)) (va + c) ∧
    Consistent emb m (t + t) (shFn (mulShares (fieldOps F emb) a b)) (va * vb) :=
  ⟨consistent_addShares hla hlb ha hb, consistent_subShares hla hlb ha hb, consistent_negShares hla ha,
   consistent_smulShares c hla ha, consistent_addConst c hla ha, consistent_mulShares hla hlb ha hb⟩

example : Consistent (Nat.cast : ℕ → ZMod 7) 3 (1 + 1)
    (shFn (mulShares (fieldOps (ZMod 7) Nat.cast) [2, 2, 2] [5, 5, 5])) (2 * 5) :=
  (consistent_vector_ops (m := 3) (t := 1) (a := [2, 2, 2]) (b := [5, 5, 5]) (3 : ZMod 7) (by decide)
    (by decide)
    ((Share.consistent_const _ 3 1 (2 : ZMod 7)).congr (fun i hi => by interval_cases i <;> rfl))
    ((Share.consistent_const _ 3 1 (5 : ZMod 7)).congr (fun i hi => by interval_cases i <;> rfl))).2.2.2.2.2

/-- ★ `consistent_mul_2t`: the pointwise product of two degree-≤t sharings is a sharing of the product of the
secrets of degree ≤ 2t (what `mul` holds before `_reshare`). -/
theorem consistent_mul_2t {a b : ℕ → F} {va vb : F} (ha : Consistent emb m t a va)
    (hb : Consistent emb m t b vb) : Consistent emb m (2 * t) (fun i => a i * b i) (va * vb) := by
  have := ha.mul hb
  rwa [← two_mul] at this

example : Consistent (Nat.cast : ℕ → ZMod 7) 3 (2 * 1)
    (fun i => ((randomSplit (fieldOps (ZMod 7) Nat.cast) [3, 5] [2, 6] 1 3).getD i []).getD 0 0
      * ((randomSplit (fieldOps (ZMod 7) Nat.cast) [3, 5] [2, 6] 1 3).getD i []).getD 1 0) (3 * 5) :=
  consistent_mul_2t (consistent_deal _ [3, 5] [2, 6] 1 3 (h := 0) (by decide))
    (consistent_deal _ [3, 5] [2, 6] 1 3 (h := 1) (by decide))

/-- what `random_bits` (r² + z), `is_zero_public` and `reciprocal` (a·r + z) open with threshold 2t: the product of two
degree-≤t sharings plus a PRSS zero sharing is a consistent degree-≤2t sharing of the product (so the 2t+1
shares used by `output(…, threshold=2t)` determine it) -/
theorem mul_add_zero_consistent {a b z : ℕ → F} {va vb : F} (ha : Consistent emb m t a va)
    (hb : Consistent emb m t b vb) (hz : Consistent emb m (2 * t) z 0) :
    Consistent emb m (2 * t) (fun i => a i * b i + z i) (va * vb) := by
  have := (consistent_mul_2t ha hb).add hz
  rwa [add_zero] at this

example : Consistent (Nat.cast : ℕ → ZMod 7) 3 (2 * 1)
    (fun i => ((randomSplit (fieldOps (ZMod 7) Nat.cast) [3, 5] [2, 6] 1 3).getD i []).getD 0 0
      * ((randomSplit (fieldOps (ZMod 7) Nat.cast) [3, 5] [2, 6] 1 3).getD i []).getD 0 0
      + (prssZero (fieldOps (ZMod 7) Nat.cast) 3 i
          (prfsOf i [([0, 1], [3]), ([0, 2], [1]), ([1, 2], [6])]) 1).getD 0 0) (3 * 3) :=
  mul_add_zero_consistent (consistent_deal _ [3, 5] [2, 6] 1 3 (h := 0) (by decide))
    (consistent_deal _ [3, 5] [2, 6] 1 3 (h := 0) (by decide))
    (consistent_prss_zero _ injOn7 (by decide) _ (by
      intro Sp hSp
      simp only [List.mem_cons, List.not_mem_nil, or_false] at hSp
      rcases hSp with rfl | rfl | rfl <;> decide) 1 (by decide))

/-! ### resharing -/

/-- ★ `reshare_consistent` (the GRR step, `_reshare`): `sh` a consistent sharing of `v` of degree ≤ 2t, 2t < m,
ANY rotation `uci`; each of the 2t+1 dealers `d = (uci+k) % m` deals its own share `sh d` consistently with
degree ≤ t (`sub d i` = subshare sent to party `i`); every party `i` recombines at 0 what it received from
the dealers (x = dealer+1; points in the code's order).  Then the new shares are a consistent sharing of
degree ≤ t of the SAME value `v`. -/
theorem reshare_consistent (h0 : emb 0 = 0) (hemb : Set.InjOn emb (Set.Iic m)) (h2t : 2 * t < m)
    (uci : ℕ) {sh : ℕ → F} {v : F} (hsh : Consistent emb m (2 * t) sh v) (sub : ℕ → ℕ → F)
    (hsub : ∀ d ∈ dealers m t uci, Consistent emb m t (sub d) (sh d)) :
    Consistent emb m t (fun i => reshareParty (fieldOps F emb) m t uci i fun d => sub d i) v :=
  Share.reshare_consistent h0 hemb h2t uci hsh sub hsub

example : Consistent (Nat.cast : ℕ → ZMod 7) 3 1
    (fun i => reshareParty (fieldOps (ZMod 7) Nat.cast) 3 1 5 i fun d =>
      ((randomSplit (fieldOps (ZMod 7) Nat.cast)
        [((randomSplit (fieldOps (ZMod 7) Nat.cast) [3, 5] [2, 6] 1 3).getD d []).getD 0 0
          * ((randomSplit (fieldOps (ZMod 7) Nat.cast) [3, 5] [2, 6] 1 3).getD d []).getD 1 0]
        [4] 1 3).getD i []).getD 0 0) (3 * 5) :=
  reshare_consistent (by simp) injOn7 (by decide) 5
    (consistent_mul_2t (consistent_deal _ [3, 5] [2, 6] 1 3 (h := 0) (by decide))
      (consistent_deal _ [3, 5] [2, 6] 1 3 (h := 1) (by decide)))
    (fun d i => ((randomSplit (fieldOps (ZMod 7) Nat.cast)
        [((randomSplit (fieldOps (ZMod 7) Nat.cast) [3, 5] [2, 6] 1 3).getD d []).getD 0 0
          * ((randomSplit (fieldOps (ZMod 7) Nat.cast) [3, 5] [2, 6] 1 3).getD d []).getD 1 0]
        [4] 1 3).getD i []).getD 0 0)
    (fun d _ => consistent_deal _ _ [4] 1 3 (h := 0) (by simp))

/-- the dealers are 2t+1 distinct parties -/
theorem dealers_spec (h2t : 2 * t < m) (uci : ℕ) :
    (dealers m t uci).Nodup ∧ (dealers m t uci).length = 2 * t + 1 ∧ ∀ d ∈ dealers m t uci, d < m :=
  ⟨dealers_nodup h2t uci, by simp [dealers], fun _ hd => dealers_lt (by omega) hd⟩

example : (dealers 5 2 3).Nodup ∧ (dealers 5 2 3).length = 2 * 2 + 1 ∧ ∀ d ∈ dealers 5 2 3, d < 5 :=
  dealers_spec (by decide) 3

/-- ★ secure multiplication end to end (`mul` = local product + `_reshare` with `random_split` dealing):
`a`, `b` consistent of degree ≤ t with secrets `va`, `vb`; dealer `d` splits its product share `a d * b d`
with ARBITRARY coefficients `cs d`; the reshared vector is a consistent degree-≤t sharing of `va * vb`. -/
theorem mul_reshare_consistent (h0 : emb 0 = 0) (hemb : Set.InjOn emb (Set.Iic m)) (h2t : 2 * t < m)
    (uci : ℕ) {a b : ℕ → F} {va vb : F} (ha : Consistent emb m t a va) (hb : Consistent emb m t b vb)
    (cs : ℕ → List F) :
    Consistent emb m t
      (fun i => reshareParty (fieldOps F emb) m t uci i fun d =>
        ((randomSplit (fieldOps F emb) [a d * b d] (cs d) t m).getD i []).getD 0 0) (va * vb) :=
  reshare_consistent h0 hemb h2t uci (consistent_mul_2t ha hb)
    (fun d i => ((randomSplit (fieldOps F emb) [a d * b d] (cs d) t m).getD i []).getD 0 0)
    (fun d _ => consistent_deal emb [a d * b d] (cs d) t m (h := 0) (by simp))

example : Consistent (Nat.cast : ℕ → ZMod 7) 3 1
    (fun i => reshareParty (fieldOps (ZMod 7) Nat.cast) 3 1 2 i fun d =>
      ((randomSplit (fieldOps (ZMod 7) Nat.cast)
        [((randomSplit (fieldOps (ZMod 7) Nat.cast) [3, 5] [2, 6] 1 3).getD d []).getD 0 0
          * ((randomSplit (fieldOps (ZMod 7) Nat.cast) [3, 5] [2, 6] 1 3).getD d []).getD 1 0]
        [(d : ZMod 7) + 1] 1 3).getD i []).getD 0 0) (3 * 5) :=
  mul_reshare_consistent (by simp) injOn7 (by decide) 2
    (consistent_deal _ [3, 5] [2, 6] 1 3 (h := 0) (by decide))
    (consistent_deal _ [3, 5] [2, 6] 1 3 (h := 1) (by decide)) (fun d => [(d : ZMod 7) + 1])

/-! ### the secret is determined -/

/-- ★ `consistent_unique_secret`: with degree ≤ t, any set `A` of more than t parties determines everything:
two consistent sharings that agree on `A` have the same secret and agree at every party.  In particular the
value of a consistent sharing is well defined (take sh = sh'). -/
theorem consistent_unique_secret (hemb : Set.InjOn emb (Set.Iic m)) {sh sh' : ℕ → F} {v v' : F}
    (h : Consistent emb m t sh v) (h' : Consistent emb m t sh' v') (A : Finset ℕ)
    (hA : ∀ i ∈ A, i < m) (hcard : t < A.card) (hag : ∀ i ∈ A, sh i = sh' i) :
    v = v' ∧ ∀ i < m, sh i = sh' i :=
  consistent_unique hemb h h' A hA hcard hag

example (v' : ZMod 7) (h' : Consistent (Nat.cast : ℕ → ZMod 7) 3 1
    (fun i => ((randomSplit (fieldOps (ZMod 7) Nat.cast) [3, 5] [2, 6] 1 3).getD i []).getD 1 0) v') :
    5 = v' :=
  (consistent_unique_secret injOn7 (consistent_deal _ [3, 5] [2, 6] 1 3 (h := 1) (by decide)) h' {0, 2}
    (by decide) (by decide) (fun _ _ => rfl)).1

/-- opening: from a consistent degree-≤t sharing of `v`, ANY list of more than `t` distinct parties recombines
(with the recombination vector of thresha, at 0) to `v` — what `output` computes from t+1 (or 2t+1) shares -/
theorem consistent_opens (hemb : Set.InjOn emb (Set.Iic m)) {sh : ℕ → F} {v : F}
    (h : Consistent emb m t sh v) {ps : List ℕ} (hps : ps.Nodup) (hpm : ∀ i ∈ ps, i < m)
    (ht : t < ps.length) :
    dot (fieldOps F emb) (ps.map sh) (recombVec (fieldOps F emb) (ps.map fun i => emb (i + 1)) 0) = v := by
  obtain ⟨f, f1, f2, f3⟩ := h
  rw [← f2]
  refine dot_recombVec emb 0 f (nodup_map_emb hemb hps hpm) (by simp)
    (by rw [List.length_map]; exact degree_lt_of_natDegree_le f1 ht) ?_
  intro k hk
  have hk' : k < ps.length := by simpa using hk
  rw [getD_lt _ _ (by simpa using hk'), getD_lt _ _ (by simpa using hk')]
  simp only [List.getElem_map]
  exact f3 _ (hpm _ (List.getElem_mem hk'))

example : dot (fieldOps (ZMod 7) Nat.cast)
    (([2, 0] : List ℕ).map fun i =>
      ((randomSplit (fieldOps (ZMod 7) Nat.cast) [3, 5] [2, 6] 1 3).getD i []).getD 1 0)
    (recombVec (fieldOps (ZMod 7) Nat.cast) (([2, 0] : List ℕ).map fun i => ((i + 1 : ℕ) : ZMod 7)) 0) = 5 :=
  consistent_opens injOn7 (consistent_deal _ [3, 5] [2, 6] 1 3 (h := 1) (by decide)) (by decide)
    (by decide) (by decide)

/-! ### the executable model over GF(p) and its decision procedure -/

/-- ★ `consistentB_spec`: p prime, t < m = #shares < p: `consistentB p t shares = some v` iff `v < p` and the
shares, read in `ZMod p`, are a consistent sharing of `v` of degree ≤ t.  Sound and complete. -/
theorem consistentB_spec (p : ℕ) [Fact p.Prime] (t : ℕ) (shares : List ℕ) (htm : t < shares.length)
    (hm : shares.length < p) (v : ℕ) :
    consistentB p t shares = some v
      ↔ v < p ∧ Consistent (embP p) shares.length t (fun i => ((shares.getD i 0 : ℕ) : ZMod p))
          (v : ZMod p) :=
  Share.consistentB_spec p t shares htm hm v

example (v : ℕ) : consistentB 7 1 [3, 5, 0] = some v
    ↔ v < 7 ∧ Consistent (embP 7) ([3, 5, 0] : List ℕ).length 1
        (fun i => ((([3, 5, 0] : List ℕ).getD i 0 : ℕ) : ZMod 7)) (v : ZMod 7) :=
  consistentB_spec 7 1 [3, 5, 0] (by decide) (by decide) v

/-- the procedure's verdicts along the executable operations (what the correspondence replays):
dealing is accepted … -/
theorem deal_accepted (p : ℕ) [Fact p.Prime] {m : ℕ} (hm : m < p) {t : ℕ} (htm : t < m)
    (s coeffs : List ℕ) {h : ℕ} (hh : h < s.length) :
    consistentB p t ((randomSplit (modP p) s coeffs t m).map fun row => row.getD h 0)
      = some (s.getD h 0 % p) :=
  deal_consistentB p hm htm s coeffs hh

example : consistentB 7 1 ((randomSplit (modP 7) [3, 5] [2, 6] 1 3).map fun row => row.getD 1 0)
    = some (([3, 5] : List ℕ).getD 1 0 % 7) :=
  deal_accepted 7 (by decide) (by decide) _ _ (by decide)

/-- … local multiplication of accepted sharings is accepted with the degrees added and the secrets multiplied … -/
theorem mul_accepted (p : ℕ) [Fact p.Prime] {m : ℕ} (hm : m < p) (a b : List ℕ) (hla : a.length = m)
    (hlb : b.length = m) {t₁ t₂ va vb : ℕ} (ht : t₁ + t₂ < m)
    (ha : consistentB p t₁ a = some va) (hb : consistentB p t₂ b = some vb) :
    consistentB p (t₁ + t₂) (mulShares (modP p) a b) = some (va * vb % p) :=
  mulShares_consistentB p hm a b hla hlb ht ha hb

example : consistentB 7 (1 + 1)
    (mulShares (modP 7) ((randomSplit (modP 7) [3, 5] [2, 6] 1 3).map fun row => row.getD 0 0)
      ((randomSplit (modP 7) [3, 5] [2, 6] 1 3).map fun row => row.getD 1 0))
    = some ((([3, 5] : List ℕ).getD 0 0 % 7) * (([3, 5] : List ℕ).getD 1 0 % 7) % 7) :=
  mul_accepted 7 (m := 3) (by decide) _ _ (by simp [randomSplit]) (by simp [randomSplit]) (by decide)
    (deal_accepted 7 (by decide) (by decide) _ _ (by decide))
    (deal_accepted 7 (by decide) (by decide) _ _ (by decide))

/-- … resharing an accepted degree-2t vector through accepted degree-t dealer rows is accepted with degree t and
the same secret … -/
theorem reshare_accepted (p : ℕ) [Fact p.Prime] {m : ℕ} (hm : m < p) {t : ℕ} (h2t : 2 * t < m) (uci : ℕ)
    (sh : List ℕ) (hls : sh.length = m) {v : ℕ} (hsh : consistentB p (2 * t) sh = some v)
    (rows : List (ℕ × List ℕ))
    (hrows : ∀ d ∈ dealers m t uci, ∃ row, rowOf rows d = some row ∧ row.length = m ∧
        consistentB p t row = some (sh.getD d 0 % p)) :
    consistentB p t (reshareShares (modP p) t m uci rows) = some v :=
  reshareShares_consistentB p hm h2t uci sh hls hsh rows hrows

/-- example data: two dealt columns, their local product, and the dealers' subshare rows -/
def exA : List ℕ := (randomSplit (modP 7) [3, 5] [2, 6] 1 3).map fun row => row.getD 0 0
def exB : List ℕ := (randomSplit (modP 7) [3, 5] [2, 6] 1 3).map fun row => row.getD 1 0
def exRow (d : ℕ) : List ℕ :=
  (randomSplit (modP 7) [(mulShares (modP 7) exA exB).getD d 0] [d + 1] 1 3).map fun row => row.getD 0 0
def exRows : List (ℕ × List ℕ) := [(0, exRow 0), (1, exRow 1), (2, exRow 2)]

example : consistentB 7 1 (reshareShares (modP 7) 1 3 2 exRows)
    = some ((([3, 5] : List ℕ).getD 0 0 % 7) * (([3, 5] : List ℕ).getD 1 0 % 7) % 7) :=
  reshare_accepted 7 (m := 3) (by decide) (t := 1) (by decide) 2 (mulShares (modP 7) exA exB)
    (by simp [mulShares, exA, exB, randomSplit])
    (mul_accepted 7 (m := 3) (by decide) exA exB (by simp [exA, randomSplit]) (by simp [exB, randomSplit])
      (t₁ := 1) (t₂ := 1) (by decide)
      (deal_accepted 7 (m := 3) (by decide) (t := 1) (by decide) [3, 5] [2, 6] (h := 0) (by decide))
      (deal_accepted 7 (m := 3) (by decide) (t := 1) (by decide) [3, 5] [2, 6] (h := 1) (by decide)))
    exRows (by
    intro d hd
    have hd3 : d < 3 := dealers_lt (by decide) hd
    refine ⟨exRow d, ?_, by simp [exRow, randomSplit],
      deal_accepted 7 (m := 3) (by decide) (t := 1) (by decide)
        [(mulShares (modP 7) exA exB).getD d 0] [d + 1] (h := 0) (by simp)⟩
    interval_cases d <;> rfl)

/-- … and so is the no-PRSS sum of accepted dealt rows. -/
theorem sum_dealt_accepted (p : ℕ) [Fact p.Prime] {m : ℕ} (hm : m < p) {t : ℕ} (htm : t < m)
    (rows : List (List ℕ)) (r : List ℕ → ℕ)
    (hrows : ∀ row ∈ rows, row.length = m ∧ consistentB p t row = some (r row)) :
    consistentB p t (sumDealt (modP p) m rows) = some ((rows.map r).sum % p) :=
  sumDealt_consistentB p hm htm rows r hrows

example : consistentB 7 1 (sumDealt (modP 7) 3
      [(randomSplit (modP 7) [3] [2] 1 3).map fun row => row.getD 0 0,
       (randomSplit (modP 7) [6] [4] 1 3).map fun row => row.getD 0 0])
    = some (([(randomSplit (modP 7) [3] [2] 1 3).map fun row => row.getD 0 0,
       (randomSplit (modP 7) [6] [4] 1 3).map fun row => row.getD 0 0].map
        fun row => if row = (randomSplit (modP 7) [3] [2] 1 3).map (fun row => row.getD 0 0) then 3 else 6).sum
          % 7) :=
  sum_dealt_accepted 7 (by decide) (by decide) _ _ (by
    intro row hrow
    simp only [List.mem_cons, List.not_mem_nil, or_false] at hrow
    rcases hrow with rfl | rfl
    · refine ⟨by simp [randomSplit], ?_⟩
      rw [if_pos rfl]
      exact deal_accepted 7 (by decide) (by decide) [3] [2] (h := 0) (by decide)
    · refine ⟨by simp [randomSplit], ?_⟩
      rw [if_neg (by decide)]
      exact deal_accepted 7 (by decide) (by decide) [6] [4] (h := 0) (by decide))

/-- PRSS shares computed by the executable model are accepted with secret `Σ_S r_S[h] mod p` -/
theorem prss_accepted (p : ℕ) [Fact p.Prime] {m : ℕ} (hm : m < p) {t : ℕ} (htm : t < m)
    (all : List (List ℕ × List ℕ)) (hall : C15.WellFormed m t all) (n : ℕ) {h : ℕ} (hh : h < n) :
    consistentB p t ((List.range m).map fun i => (prssShare (modP p) m i (prfsOf i all) n).getD h 0)
      = some ((all.map fun Sp => Sp.2.getD h 0).sum % p) := by
  have hlen : ((List.range m).map fun i =>
      (prssShare (modP p) m i (prfsOf i all) n).getD h 0).length = m := by simp
  apply (Share.consistentB_spec p t _ (by omega) (by omega) _).2
  refine ⟨Nat.mod_lt _ (Fact.out : p.Prime).pos, ?_⟩
  rw [hlen]
  obtain ⟨f, f1, f2, f3⟩ := C15.prss_consistent_modP p hm htm.le all hall n h hh
  refine ⟨f, f1, ?_, ?_⟩
  · rw [f2, ZMod.natCast_mod, Nat.cast_list_sum, List.map_map]; rfl
  · intro i hi
    beta_reduce
    rw [getD_map_range' _ _ hi, f3 i hi]
    simp [embP, ZMod.natCast_mod]

example : consistentB 7 1 ((List.range 3).map fun i => (prssShare (modP 7) 3 i
      (prfsOf i [([0, 1], [3, 4]), ([0, 2], [1, 1]), ([1, 2], [6, 0])]) 2).getD 0 0)
    = some ((([([0, 1], [3, 4]), ([0, 2], [1, 1]), ([1, 2], [6, 0])] :
        List (List ℕ × List ℕ)).map fun Sp => Sp.2.getD 0 0).sum % 7) :=
  prss_accepted 7 (by decide) (by decide) _ (by
    intro Sp hSp
    simp only [List.mem_cons, List.not_mem_nil, or_false] at hSp
    rcases hSp with rfl | rfl | rfl <;> decide) 2 (by decide)

end MpycV.C11
