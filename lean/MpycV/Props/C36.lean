/-
C36 — a crashed or disconnected party never makes others output wrong values.
Byte-level part (model MpycV.Model.Frame): whatever prefix of a sender's byte stream reaches a peer —
the sender may stop after any byte, in the middle of a header or of a payload — the peer's parser
delivers a prefix of the frames that were sent, each with its exact label and payload, and nothing else.
A protocol step that needs a frame which was not completely sent therefore never completes
(`receive` stays pending), and every step that does complete has consumed exactly the bytes the sender
meant it to consume; correctness of the recombined value is then C11/C12.
-/
import MpycV.Props.C10

namespace MpycV.C36
open MpycV.Frame MpycV.C10

/-- **no partial frame, ever**: after ANY prefix of the encoded stream (cut at any byte), the frames
delivered so far are a prefix of the frames sent -/
theorem prefix_frames_crash (cfg : Cfg) (s : Parser) (p : Nat) (hp : s.peer = some p) (hb : s.buf = [])
    (msgs : List (Int × Bytes)) (hw : WFMsgs msgs)
    (hne : hasErr (deliverAll s.buffers msgs).2.1 = false) (n : Nat) :
    framesOf (feed cfg s ((encodeAll msgs).take n)).2 <+: msgs :=
  prefix_frames cfg s p hp hb msgs hw hne n

/-- every delivered (label, payload) pair is one that was sent, with its payload intact -/
theorem delivered_mem (cfg : Cfg) (s : Parser) (p : Nat) (hp : s.peer = some p) (hb : s.buf = [])
    (msgs : List (Int × Bytes)) (hw : WFMsgs msgs)
    (hne : hasErr (deliverAll s.buffers msgs).2.1 = false) (n : Nat) :
    ∀ f ∈ framesOf (feed cfg s ((encodeAll msgs).take n)).2, f ∈ msgs := by
  intro f hf
  obtain ⟨rest, hrest⟩ := prefix_frames cfg s p hp hb msgs hw hne n
  rw [← hrest]
  exact List.mem_append_left _ hf

/-- the same for a stream cut into arbitrary chunks before the crash point: chunking and crash
position together still only ever deliver a prefix of the frames sent -/
theorem prefix_frames_chunked (cfg : Cfg) (p : Nat) (msgs : List (Int × Bytes)) (hw : WFMsgs msgs)
    (hne : hasErr (deliverAll [] msgs).2.1 = false) (n : Nat) (cs : List Bytes)
    (hcs : cs.flatten = (encodeAll msgs).take n)
    (hne2 : hasErr (feed cfg (initClient p) cs.flatten).2 = false) :
    framesOf (feedAll cfg (initClient p) cs).2 <+: msgs := by
  rw [any_chunking cfg (initClient p) ((init_settled cfg).2 p) cs hne2, hcs]
  exact prefix_frames cfg (initClient p) p rfl rfl msgs hw hne n

/-! ### the tally of `gather_shares`: a result is produced only when ALL awaited shares arrived -/

/-- ≙ asyncoro._SharesTallier: `tally` pending futures; each completion decrements; the result is set
exactly when the tally reaches 0 -/
def tallyDone (pending : Nat) (completions : Nat) : Bool := decide (pending ≤ completions)

theorem tally_needs_all (pending completions : Nat) (h : completions < pending) :
    tallyDone pending completions = false := by
  simp [tallyDone]; omega

/-! ### non-vacuity -/
example :
    let msgs : List (Int × Bytes) := [(7, [1, 2, 3]), (-9, [])]
    let cfg : Cfg := { noPrss := true, keyLen := fun _ => 0 }
    WFMsgs msgs ∧ hasErr (deliverAll [] msgs).2.1 = false ∧
    framesOf (feed cfg (initClient 2) ((encodeAll msgs).take 20)).2 = [(7, [1, 2, 3])] ∧
    framesOf (feed cfg (initClient 2) ((encodeAll msgs).take 14)).2 = [] := by
  refine ⟨?_, by decide +kernel, by decide +kernel, by decide +kernel⟩
  intro m hm
  simp only [List.mem_cons, List.mem_nil_iff, or_false] at hm
  rcases hm with rfl | rfl <;> decide

end MpycV.C36
