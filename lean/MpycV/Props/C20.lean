/-
C20 — finite field elements obey the field laws through every operator.

Part 1 (this section): prime fields, model `MpycV.PrimeF` ≙ `finfields.PrimeFieldElement`.
All statements are for an ARBITRARY prime `p` and arbitrary (reduced) values: no bounds.
Part 2 (below): extension and binary fields, model `MpycV.ExtF`.
-/
import MpycV.Lemmas.PrimeF
import MpycV.Lemmas.ExtF
import MpycV.Lemmas.BinF

namespace MpycV.C20
open MpycV.PrimeF

variable {p : Nat}

/-! ## the map to `ZMod p` -/

/-- ★ `value ↦ (value : ZMod p)` is a bijection from the reduced values onto `ZMod p` that maps the
model's `+` and `*` to those of the field `ZMod p` (the ring isomorphism is `PrimeF.toZMod`). -/
theorem toZMod_iso [NeZero p] :
    Function.Bijective (toZMod p) ∧
    (∀ a b : El p, toZMod p (a + b) = toZMod p a + toZMod p b) ∧
    (∀ a b : El p, toZMod p (a * b) = toZMod p a * toZMod p b) ∧
    (∀ a : El p, toZMod p a = (a.1 : ZMod p)) :=
  ⟨(toZMod p).bijective, map_add (toZMod p), map_mul (toZMod p), fun _ => rfl⟩

example : toZMod 7 (⟨5, by decide⟩ * ⟨4, by decide⟩) = 6 := by decide

/-! ## values stay reduced -/

/-- ★ every operator (binary, reflected, in-place, unary) returns a reduced value, whatever the
(possibly unreduced, possibly negative int) operand -/
theorem reduced_ring_ops [NeZero p] (a : Nat) (o : Int) :
    add p a o < p ∧ radd p a o < p ∧ iadd p a o < p ∧ sub p a o < p ∧ rsub p a o < p ∧ isub p a o < p ∧
    mul p a o < p ∧ rmul p a o < p ∧ imul p a o < p ∧ neg p a < p ∧ pos p a < p ∧ mk p o < p :=
  ⟨add_lt a o, radd_lt a o, iadd_lt a o, sub_lt a o, rsub_lt a o, isub_lt a o, mul_lt a o, rmul_lt a o,
   imul_lt a o, neg_lt a, pos_lt a, mk_lt hp_pos o⟩

example : add 7 5 (-100) < 7 := (reduced_ring_ops (p := 7) 5 (-100)).1

/-- ★ the partial operators (division, reciprocal, powers, shifts, in-place variants) return a reduced
value whenever they return at all -/
theorem reduced_partial_ops [NeZero p] (a : Nat) (o : Int) (r : Nat)
    (h : truediv p a o = .ok r ∨ rtruediv p a o = .ok r ∨ itruediv p a o = .ok r ∨ reciprocal p a = .ok r ∨
         pow p a o = .ok r ∨ lshift p a o = .ok r ∨ ilshift p a o = .ok r ∨ rshift p a o = .ok r ∨
         irshift p a o = .ok r) : r < p := by
  have hp : 0 < p := hp_pos
  have key : ∀ {α : Type} (e : Except Err α) (f : α → Nat), (∀ x, f x < p) → e.map f = .ok r → r < p := by
    intro α e f hf he
    cases e with
    | error _ => simp [Except.map] at he
    | ok v => simp only [Except.map, Except.ok.injEq] at he; rw [← he]; exact hf v
  rcases h with h | h | h | h | h | h | h | h | h
  · exact key _ _ (fun x => mul_lt a x) h
  · exact key _ _ (fun x => mul_lt x o) h
  · exact key _ _ (fun x => pmod_lt hp _) h
  · exact key _ _ (fun x => mk_lt hp x) h
  · exact key _ _ (fun x => mk_lt hp _) h
  · exact key _ _ (fun x => mk_lt hp x) h
  · exact key _ _ (fun x => pmod_lt hp x) h
  · exact key _ _ (fun x => mk_lt hp _) h
  · exact key _ _ (fun x => pmod_lt hp _) h

example : truediv 7 3 5 = .ok 2 := by decide

/-! ## in-place and reflected operators agree with the binary ones -/

/-- ★ `+=`, `-=`, `*=`, `/=`, `<<=`, `>>=` compute the same value as `+`, `-`, `*`, `/`, `<<`, `>>`;
`int + a`, `int * a` the same as `a + int`, `a * int` -/
theorem inplace_reflected_agree (a : Nat) (o : Int) :
    iadd p a o = add p a o ∧ isub p a o = sub p a o ∧ imul p a o = mul p a o ∧
    itruediv p a o = truediv p a o ∧ ilshift p a o = lshift p a o ∧ irshift p a o = rshift p a o ∧
    radd p a o = add p a o ∧ rmul p a o = mul p a o :=
  ⟨rfl, rfl, rfl, rfl, rfl, rfl, rfl, rfl⟩

/-- ★ `int - a` is `F(int) - a` -/
theorem rsub_eq_sub_conv [NeZero p] (a : Nat) (o : Int) : rsub p a o = sub p (mk p o) (a : Int) := by
  apply eq_of_cast (rsub_lt a o) (sub_lt _ _)
  rw [cast_rsub, cast_sub, mk_cast]; simp

/-- ★ `int / a` is `F(int) / a` (same value, or both raise ZeroDivisionError) -/
theorem rtruediv_eq_truediv_conv [Fact p.Prime] (a : Nat) (o : Int) :
    rtruediv p a o = truediv p (mk p o) (a : Int) := by
  by_cases ha : (a : ZMod p) = 0
  · rw [rtruediv_err a o ha, truediv_err _ _ (by simpa using ha)]
  · obtain ⟨r, h1, h2, h3⟩ := rtruediv_ok a o ha
    obtain ⟨r', h1', h2', h3'⟩ := truediv_ok (p := p) (mk p o) (a : Int) (by simpa using ha)
    rw [h1, h1']
    congr 1
    apply eq_of_cast h2 h2'
    rw [h3, h3', mk_cast]; simp

example : rsub 7 5 2 = 4 ∧ rtruediv 7 5 (2 : Int) = .ok 6 := by decide

/-! ## mixing in integers equals converting first -/

/-- ★ operating with a Python int `x` equals operating with the element `F(x)` -/
theorem mix_int [NeZero p] (a : Nat) (x : Int) :
    add p a x = add p a (mk p x : Nat) ∧ sub p a x = sub p a (mk p x : Nat) ∧
    mul p a x = mul p a (mk p x : Nat) ∧ rsub p a x = rsub p a (mk p x : Nat) ∧
    eq p a (.int x) = eq p a (.elem (mk p x)) := by
  refine ⟨?_, ?_, ?_, ?_, rfl⟩
  · apply eq_of_cast (add_lt _ _) (add_lt _ _); rw [cast_add, cast_add]; simp [mk_cast]
  · apply eq_of_cast (sub_lt _ _) (sub_lt _ _); rw [cast_sub, cast_sub]; simp [mk_cast]
  · apply eq_of_cast (mul_lt _ _) (mul_lt _ _); rw [cast_mul, cast_mul]; simp [mk_cast]
  · apply eq_of_cast (rsub_lt _ _) (rsub_lt _ _); rw [cast_rsub, cast_rsub]; simp [mk_cast]

/-- ★ … also for division (same value, or both raise) -/
theorem mix_int_div [Fact p.Prime] (a : Nat) (x : Int) : truediv p a x = truediv p a (mk p x : Nat) := by
  by_cases hx : (x : ZMod p) = 0
  · rw [truediv_err a x hx, truediv_err _ _ (by simpa [mk_cast] using hx)]
  · obtain ⟨r, h1, h2, h3⟩ := truediv_ok a x hx
    obtain ⟨r', h1', h2', h3'⟩ := truediv_ok (p := p) a ((mk p x : Nat) : Int) (by simpa [mk_cast] using hx)
    rw [h1, h1']
    congr 1
    apply eq_of_cast h2 h2'
    rw [h3, h3']; simp [mk_cast]

example : add 7 5 (-100) = add 7 5 (mk 7 (-100) : Nat) ∧ mk 7 (-100) = 5 := by decide

/-! ## the field axioms for the executable operators -/

section axioms
variable [hpf : Fact p.Prime]

local instance : NeZero p := ⟨hpf.out.ne_zero⟩

/-- ★ commutative-ring axioms, for all values (reduced or not; results are reduced) -/
theorem ring_axioms (a b c : Nat) :
    add p a b = add p b a ∧
    add p (add p a b) c = add p a (add p b c) ∧
    mul p a b = mul p b a ∧
    mul p (mul p a b) c = mul p a (mul p b c) ∧
    mul p a (add p b c) = add p (mul p a b) (mul p a c) ∧
    sub p a b = add p a (neg p b) ∧
    add p a (neg p a) = 0 := by
  refine ⟨?_, ?_, ?_, ?_, ?_, ?_, ?_⟩
  · apply eq_of_cast (add_lt _ _) (add_lt _ _); simp only [cast_add, Int.cast_natCast]; ring
  · apply eq_of_cast (add_lt _ _) (add_lt _ _); simp only [cast_add, Int.cast_natCast]; ring
  · apply eq_of_cast (mul_lt _ _) (mul_lt _ _); simp only [cast_mul, Int.cast_natCast]; ring
  · apply eq_of_cast (mul_lt _ _) (mul_lt _ _); simp only [cast_mul, Int.cast_natCast]; ring
  · apply eq_of_cast (mul_lt _ _) (add_lt _ _); simp only [cast_mul, cast_add, Int.cast_natCast]; ring
  · apply eq_of_cast (sub_lt _ _) (add_lt _ _); simp only [cast_sub, cast_add, cast_neg, Int.cast_natCast]; ring
  · apply eq_of_cast (add_lt _ _) hpf.out.pos; simp only [cast_add, cast_neg, Int.cast_natCast]; simp

/-- ★ neutral elements (on reduced values) -/
theorem neutral (a : Nat) (ha : a < p) : add p a 0 = a ∧ mul p a 1 = a ∧ mul p a 0 = 0 := by
  refine ⟨?_, ?_, ?_⟩
  · apply eq_of_cast (add_lt _ _) ha; simp [cast_add]
  · apply eq_of_cast (mul_lt _ _) ha; simp [cast_mul]
  · apply eq_of_cast (mul_lt _ _) hpf.out.pos; simp [cast_mul]

/-- ★ only zero has no inverse: `reciprocal`/`/` raise ZeroDivisionError exactly for (multiples of) 0, and
otherwise return the multiplicative inverse -/
theorem inv_iff_nonzero (a : Nat) (ha : a < p) :
    (a = 0 → reciprocal p a = .error .zeroDivision ∧ ∀ b, truediv p b a = .error .zeroDivision) ∧
    (a ≠ 0 → ∃ r, reciprocal p a = .ok r ∧ r < p ∧ mul p a r = 1 % p ∧
               ∀ b, ∃ q, truediv p b a = .ok q ∧ q < p ∧ mul p q a = b % p) := by
  constructor
  · intro h0; subst h0
    exact ⟨reciprocal_err 0 (by simp), fun b => truediv_err b _ (by simp)⟩
  · intro hne
    have hz : (a : ZMod p) ≠ 0 := by
      intro h; rw [ZMod.natCast_eq_zero_iff] at h
      exact hne (Nat.eq_zero_of_dvd_of_lt h ha)
    obtain ⟨r, h1, h2, h3⟩ := reciprocal_ok a hz
    refine ⟨r, h1, h2, ?_, ?_⟩
    · apply eq_of_cast (mul_lt _ _) (Nat.mod_lt _ hpf.out.pos)
      rw [cast_mul]; simp only [Int.cast_natCast, h3, ZMod.natCast_mod]; simp [mul_inv_cancel₀ hz]
    · intro b
      obtain ⟨q, g1, g2, g3⟩ := truediv_ok b (a : Int) (by simpa using hz)
      refine ⟨q, g1, g2, ?_⟩
      apply eq_of_cast (mul_lt _ _) (Nat.mod_lt _ hpf.out.pos)
      rw [cast_mul, g3]; simp only [Int.cast_natCast, ZMod.natCast_mod]
      exact div_mul_cancel₀ _ hz

/-- ★ division is multiplication by the reciprocal -/
theorem div_eq_mul_reciprocal (a b : Nat) (hb : (b : ZMod p) ≠ 0) :
    ∃ r q, reciprocal p b = .ok r ∧ truediv p a b = .ok q ∧ q = mul p a r := by
  obtain ⟨r, h1, h2, h3⟩ := reciprocal_ok b hb
  obtain ⟨q, g1, g2, g3⟩ := truediv_ok a (b : Int) (by simpa using hb)
  refine ⟨r, q, h1, g1, ?_⟩
  apply eq_of_cast g2 (mul_lt _ _)
  rw [g3, cast_mul]; simp [h3, div_eq_mul_inv]

end axioms

example : ∃ r, reciprocal 7 3 = .ok r ∧ r < 7 ∧ mul 7 3 r = 1 % 7 :=
  have : Fact (Nat.Prime 7) := ⟨by decide⟩
  let ⟨r, h1, h2, h3, _⟩ := (inv_iff_nonzero (p := 7) 3 (by decide)).2 (by decide)
  ⟨r, h1, h2, h3⟩
example : reciprocal 7 3 = .ok 5 ∧ reciprocal 7 0 = .error .zeroDivision ∧ truediv 7 4 14 = .error .zeroDivision := by
  decide

/-! ## powers -/

/-- repeated multiplication with the model's `*`, starting from `F(1)` -/
def powRep (p a : Nat) : Nat → Nat
  | 0 => mk p 1
  | n + 1 => mul p (powRep p a n) (a : Int)

section powers
variable [hpf : Fact p.Prime]

local instance : NeZero p := ⟨hpf.out.ne_zero⟩

theorem powRep_lt (a n : Nat) : powRep p a n < p := by
  cases n with
  | zero => exact mk_lt hpf.out.pos _
  | succ n => exact mul_lt _ _

theorem cast_powRep (a n : Nat) : ((powRep p a n : Nat) : ZMod p) = (a : ZMod p) ^ n := by
  induction n with
  | zero => simp [powRep, mk_cast]
  | succ n ih => simp [powRep, cast_mul, ih, pow_succ]

/-- ★ `a ** n` for `n ≥ 0` equals repeated multiplication -/
theorem pow_eq_repeated_mul (a n : Nat) : pow p a (n : Int) = .ok (powRep p a n) := by
  obtain ⟨r, h1, h2, h3⟩ := pow_nonneg (p := p) a n
  rw [h1]; congr 1
  apply eq_of_cast h2 (powRep_lt a n)
  rw [h3, cast_powRep]

/-- ★ `a ** -n` (n > 0) is `(1/a) ** n`; it raises exactly when `a` is zero -/
theorem pow_neg (a n : Nat) (ha : a < p) (hn : 0 < n) :
    (a = 0 → pow p a (-(n : Int)) = .error .noInverse) ∧
    (a ≠ 0 → ∃ r, reciprocal p a = .ok r ∧ pow p a (-(n : Int)) = pow p r (n : Int)) := by
  constructor
  · intro h0; subst h0; exact pow_neg_err 0 n hn (by simp)
  · intro hne
    have hz : (a : ZMod p) ≠ 0 := by
      intro h; rw [ZMod.natCast_eq_zero_iff] at h
      exact hne (Nat.eq_zero_of_dvd_of_lt h ha)
    obtain ⟨r, h1, h2, h3⟩ := reciprocal_ok a hz
    obtain ⟨q, g1, g2, g3⟩ := pow_neg_ok a n hn hz
    obtain ⟨q', k1, k2, k3⟩ := pow_nonneg (p := p) r n
    refine ⟨r, h1, ?_⟩
    rw [g1, k1]; congr 1
    apply eq_of_cast g2 k2
    rw [g3, k3, h3]

example : pow 7 3 (-2) = .ok 4 ∧ reciprocal 7 3 = .ok 5 ∧ pow 7 5 2 = .ok 4 ∧ powRep 7 3 4 = 4 ∧
    pow 7 0 (-1) = .error .noInverse := by decide

end powers

/-! ## shifts -/

/-- ★ `a << n` is `a * 2**n` (and raises ValueError for negative `n`, like Python ints) -/
theorem lshift_eq_mul_pow2 (a n : Nat) : lshift p a (n : Int) = .ok (mul p a ((2 : Int) ^ n)) := by
  unfold lshift; rw [shl_nonneg]; rfl

/-- ★ `a >> n` is `a / 2**n` -/
theorem rshift_eq_div_pow2 (a n : Nat) : rshift p a (n : Int) = truediv p a ((2 : Int) ^ n) := by
  unfold rshift truediv reciprocal2; rw [shl_nonneg, one_mul]
  show Except.map _ (reciprocalRaw p (2 ^ n)) = _
  rfl

theorem shift_neg (a : Nat) (n : Int) (hn : n < 0) :
    lshift p a n = .error .value ∧ rshift p a n = .error .value :=
  ⟨lshift_neg p a n hn, rshift_neg p a n hn⟩

/-- ★ in odd characteristic `>>` always succeeds and undoes `<<` -/
theorem lshift_rshift_cancel [hpf : Fact p.Prime] (hp2 : p ≠ 2) (a n : Nat) (ha : a < p) :
    ∃ r, lshift p a (n : Int) = .ok r ∧ r < p ∧ rshift p r (n : Int) = .ok a := by
  have : NeZero p := ⟨hpf.out.ne_zero⟩
  obtain ⟨r, h1, h2, h3⟩ := lshift_ok (p := p) a n
  obtain ⟨q, g1, g2, g3⟩ := rshift_ok (p := p) r hp2 n
  refine ⟨r, h1, h2, ?_⟩
  rw [g1]; congr 1
  apply eq_of_cast g2 ha
  rw [g3, h3, mul_div_assoc, div_self (two_pow_ne_zero hp2 n), mul_one]

/-- ★ in GF(2) `2**n = 0` for `n ≥ 1`: `>>` raises ZeroDivisionError (division by zero), `<<` gives 0 -/
theorem shifts_char_two (a n : Nat) (hn : 0 < n) :
    rshift 2 a (n : Int) = .error .zeroDivision ∧ lshift 2 a (n : Int) = .ok 0 := by
  refine ⟨rshift_two_err a n hn, ?_⟩
  rw [lshift_eq_mul_pow2]; congr 1
  have : NeZero 2 := ⟨by decide⟩
  apply eq_of_cast (mul_lt _ _) (by decide)
  rw [cast_mul]; push_cast
  have h2 : (2 : ZMod 2) = 0 := by exact_mod_cast ZMod.natCast_self 2
  rw [h2, zero_pow (by omega), mul_zero]

example : lshift 7 3 2 = .ok 5 ∧ rshift 7 5 2 = .ok 3 ∧ lshift 7 3 (-1) = .error .value := by decide

/-! ## equality, truth value, hash -/

/-- ★ `==` between elements is equality of values, `==` with an int compares with the converted int -/
theorem eq_iff (a b : Nat) (x : Int) :
    (eq p a (.elem b) = true ↔ a = b) ∧ (eq p a (.int x) = true ↔ a = mk p x) := by
  simp [eq, mk]

/-- ★ equal elements have equal hash keys; `bool(a)` is `a != 0` -/
theorem hash_bool (a b : Nat) :
    (eq p a (.elem b) = true → hashKey p a = hashKey p b) ∧ (PrimeF.toBool a = false ↔ a = 0) := by
  simp [eq, hashKey, PrimeF.toBool]

example : eq 7 3 (.int 10) = true ∧ eq 7 3 (.int 4) = false ∧ PrimeF.toBool 0 = false := by decide

/-! # Part 2: extension fields GF(p^d), model `MpycV.ExtF` ≙ `ExtensionFieldElement`

`IsModulus p m`: the modulus is a well-formed polynomial, irreducible over GF(p) (what `xGF` checks, linked to the
executable test by `ExtF.isModulus_of_check` and C24).  `Red p m a`: class invariant of a value (well-formed
coefficient list of length < len m).  All statements: every prime p, every admissible modulus, all values. -/

section ext
open MpycV.ExtF MpycV.GFpX
set_option linter.unusedSectionVars false

variable {p : ℕ} [hpf : Fact p.Prime] {m : Poly}

/-- ★ every operator returns a class-invariant value, for arbitrary well-formed (also unreduced) operands -/
theorem ext_reduced (hm : IsModulus p m) {a o : Poly} (ha : WF p a) (ho : WF p o) (x : ℤ) :
    Red p m (ExtF.add p m a o) ∧ Red p m (ExtF.radd p m a o) ∧ Red p m (ExtF.iadd p m a o) ∧
    Red p m (ExtF.sub p m a o) ∧ Red p m (ExtF.rsub p m a o) ∧ Red p m (ExtF.isub p m a o) ∧
    Red p m (ExtF.mul p m a o) ∧ Red p m (ExtF.rmul p m a o) ∧ Red p m (ExtF.imul p m a o) ∧
    Red p m (ExtF.neg p m a) ∧ Red p m (ExtF.pos p m a) ∧ Red p m (ExtF.ofInt p m x) ∧
    (∀ r, ExtF.truediv p m a o = .ok r ∨ ExtF.reciprocal p m a = .ok r ∨ (∃ n : ℤ, ExtF.pow p m a n = .ok r) →
      Red p m r) := by
  refine ⟨red_add hm ha ho, red_add hm ha ho, red_add hm ha ho, red_sub hm ha ho, red_sub hm ho ha,
    red_sub hm ha ho, red_mul hm ha ho, red_mul hm ha ho, red_mul hm ha ho, red_neg hm ha, red_mk hm ha,
    red_ofInt hm x, ?_⟩
  intro r hr
  rcases hr with h | h | ⟨n, h⟩
  · by_cases h0 : φ p m o = 0
    · rw [(truediv_spec hm ha ho).1 h0] at h; cases h
    · obtain ⟨q, e, rq, _⟩ := (truediv_spec hm ha ho).2 h0
      rw [e] at h; cases h; exact rq
  · by_cases h0 : φ p m a = 0
    · rw [(reciprocal_spec hm ha).1 h0] at h; cases h
    · obtain ⟨q, e, rq, _⟩ := (reciprocal_spec hm ha).2 h0
      rw [e] at h; cases h; exact rq
  · rcases lt_or_ge n 0 with hn | hn
    · obtain ⟨k, hk, rfl⟩ : ∃ k : ℕ, 0 < k ∧ n = -(k : ℤ) := ⟨n.natAbs, by omega, by omega⟩
      by_cases h0 : φ p m a = 0
      · rw [(pow_neg_spec hm ha hk).1 h0] at h; cases h
      · obtain ⟨q, e, rq, _⟩ := (pow_neg_spec hm ha hk).2 h0
        rw [e] at h; cases h; exact rq
    · obtain ⟨k, rfl⟩ : ∃ k : ℕ, n = (k : ℤ) := ⟨n.toNat, by omega⟩
      obtain ⟨q, e, rq, _⟩ := pow_nonneg_spec hm ha k
      rw [e] at h; cases h; exact rq

/-- ★ in-place and reflected operators compute the same values as the binary ones -/
theorem ext_inplace_reflected_agree (a o : Poly) (n : ℤ) :
    ExtF.iadd p m a o = ExtF.add p m a o ∧ ExtF.isub p m a o = ExtF.sub p m a o ∧
    ExtF.imul p m a o = ExtF.mul p m a o ∧ ExtF.itruediv p m a o = ExtF.truediv p m a o ∧
    ExtF.ilshift p m a n = ExtF.lshift p m a n ∧ ExtF.irshift p m a n = ExtF.rshift p m a n ∧
    ExtF.radd p m a o = ExtF.add p m a o ∧ ExtF.rmul p m a o = ExtF.mul p m a o ∧
    ExtF.rsub p m a o = ExtF.sub p m o a :=
  ⟨rfl, rfl, rfl, rfl, rfl, rfl, rfl, rfl, rfl⟩

/-- ★ commutative-ring axioms for the executable operators on class-invariant values -/
theorem ext_ring_axioms (hm : IsModulus p m) {a b c : Poly} (ha : Red p m a) (hb : Red p m b) (hc : Red p m c) :
    ExtF.add p m a b = ExtF.add p m b a ∧
    ExtF.add p m (ExtF.add p m a b) c = ExtF.add p m a (ExtF.add p m b c) ∧
    ExtF.mul p m a b = ExtF.mul p m b a ∧
    ExtF.mul p m (ExtF.mul p m a b) c = ExtF.mul p m a (ExtF.mul p m b c) ∧
    ExtF.mul p m a (ExtF.add p m b c) = ExtF.add p m (ExtF.mul p m a b) (ExtF.mul p m a c) ∧
    ExtF.sub p m a b = ExtF.add p m a (ExtF.neg p m b) ∧
    ExtF.add p m a (ExtF.neg p m a) = [] ∧
    ExtF.add p m a [] = a ∧ ExtF.mul p m a [1] = a := by
  have wab := (red_add hm ha.1 hb.1); have wbc := (red_add hm hb.1 hc.1)
  have mab := (red_mul hm ha.1 hb.1); have mbc := (red_mul hm hb.1 hc.1); have mac := (red_mul hm ha.1 hc.1)
  have nb := red_neg hm hb.1; have na := red_neg hm ha.1
  have wnil : WF p ([] : Poly) := ⟨by simp [Reduced], by simp [Normalised]⟩
  have hnil : Red p m [] := ⟨wnil, List.length_pos_iff.mpr hm.ne_nil⟩
  refine ⟨?_, ?_, ?_, ?_, ?_, ?_, ?_, ?_, ?_⟩
  · apply phi_inj hm wab (red_add hm hb.1 ha.1); rw [phi_add hm ha.1 hb.1, phi_add hm hb.1 ha.1]; ring
  · apply phi_inj hm (red_add hm wab.1 hc.1) (red_add hm ha.1 wbc.1)
    rw [phi_add hm wab.1 hc.1, phi_add hm ha.1 hb.1, phi_add hm ha.1 wbc.1, phi_add hm hb.1 hc.1]; ring
  · apply phi_inj hm mab (red_mul hm hb.1 ha.1); rw [phi_mul hm ha.1 hb.1, phi_mul hm hb.1 ha.1]; ring
  · apply phi_inj hm (red_mul hm mab.1 hc.1) (red_mul hm ha.1 mbc.1)
    rw [phi_mul hm mab.1 hc.1, phi_mul hm ha.1 hb.1, phi_mul hm ha.1 mbc.1, phi_mul hm hb.1 hc.1]; ring
  · apply phi_inj hm (red_mul hm ha.1 wbc.1) (red_add hm mab.1 mac.1)
    rw [phi_mul hm ha.1 wbc.1, phi_add hm hb.1 hc.1, phi_add hm mab.1 mac.1, phi_mul hm ha.1 hb.1,
      phi_mul hm ha.1 hc.1]; ring
  · apply phi_inj hm (red_sub hm ha.1 hb.1) (red_add hm ha.1 nb.1)
    rw [phi_sub hm ha.1 hb.1, phi_add hm ha.1 nb.1, phi_neg hm hb.1]; ring
  · apply phi_inj hm (red_add hm ha.1 na.1) hnil
    rw [phi_add hm ha.1 na.1, phi_neg hm ha.1]; simp [φ]
  · apply phi_inj hm (red_add hm ha.1 wnil) ha
    rw [phi_add hm ha.1 wnil]; simp [φ]
  · apply phi_inj hm (red_mul hm ha.1 wf_one) ha
    rw [phi_mul hm ha.1 wf_one, phi_one, mul_one]

/-- `[1]` is a class-invariant value (an irreducible modulus has degree ≥ 1) -/
theorem ext_one_red (hm : IsModulus p m) : Red p m [1] := by
  refine ⟨wf_one, ?_⟩
  have h1 := hm.irr.natDegree_pos
  rw [natDegree_toPoly hm.wf hm.ne_nil] at h1
  simp only [List.length_cons, List.length_nil]; omega

/-- ★ only zero has no inverse: `reciprocal`, `/` and reflected `/` raise ZeroDivisionError exactly for the zero
element, otherwise `a * (1/a) = 1` and `(b / a) * a = b` -/
theorem ext_inv_iff_nonzero (hm : IsModulus p m) {a : Poly} (ha : Red p m a) :
    (a = [] → ExtF.reciprocal p m a = .error .zeroDivision ∧
        ∀ b, WF p b → ExtF.truediv p m b a = .error .zeroDivision) ∧
    (a ≠ [] → ∃ r, ExtF.reciprocal p m a = .ok r ∧ Red p m r ∧ ExtF.mul p m a r = [1] ∧
        ∀ b, Red p m b → ∃ q, ExtF.truediv p m b a = .ok q ∧ Red p m q ∧ ExtF.mul p m q a = b) := by
  constructor
  · intro h0
    have hz : φ p m a = 0 := (phi_eq_zero_iff hm ha).mpr h0
    exact ⟨(reciprocal_spec hm ha.1).1 hz, fun b hb => (truediv_spec hm hb ha.1).1 hz⟩
  · intro hne
    have hz : φ p m a ≠ 0 := fun h => hne ((phi_eq_zero_iff hm ha).mp h)
    obtain ⟨r, e, rr, hr⟩ := (reciprocal_spec hm ha.1).2 hz
    refine ⟨r, e, rr, ?_, ?_⟩
    · apply phi_inj hm (red_mul hm ha.1 rr.1) (ext_one_red hm)
      rw [phi_mul hm ha.1 rr.1, phi_one, mul_comm]; exact hr
    · intro b hb
      obtain ⟨q, e', rq, hq⟩ := (truediv_spec hm hb.1 ha.1).2 hz
      refine ⟨q, e', rq, ?_⟩
      apply phi_inj hm (red_mul hm rq.1 ha.1) hb
      rw [phi_mul hm rq.1 ha.1]; exact hq

/-- ★ mixing in an int (or an unreduced polynomial) equals converting it to a field element first -/
theorem ext_mix_int (hm : IsModulus p m) {a : Poly} (ha : WF p a) (x : ℤ) :
    ExtF.add p m a (GFpX.fromInt p x) = ExtF.add p m a (ExtF.ofInt p m x) ∧
    ExtF.sub p m a (GFpX.fromInt p x) = ExtF.sub p m a (ExtF.ofInt p m x) ∧
    ExtF.rsub p m a (GFpX.fromInt p x) = ExtF.rsub p m a (ExtF.ofInt p m x) ∧
    ExtF.mul p m a (GFpX.fromInt p x) = ExtF.mul p m a (ExtF.ofInt p m x) ∧
    ExtF.truediv p m a (GFpX.fromInt p x) = ExtF.truediv p m a (ExtF.ofInt p m x) ∧
    ExtF.eq p m a (.int x) = ExtF.eq p m a (.elem (ExtF.ofInt p m x)) := by
  have wx := wf_fromInt (p := p) x
  have rx := red_ofInt hm (m := m) x
  have px := phi_ofInt hm (m := m) x
  refine ⟨?_, ?_, ?_, ?_, ?_, rfl⟩
  · apply phi_inj hm (red_add hm ha wx) (red_add hm ha rx.1); rw [phi_add hm ha wx, phi_add hm ha rx.1, px]
  · apply phi_inj hm (red_sub hm ha wx) (red_sub hm ha rx.1); rw [phi_sub hm ha wx, phi_sub hm ha rx.1, px]
  · apply phi_inj hm (red_sub hm wx ha) (red_sub hm rx.1 ha)
    show φ p m (ExtF.sub p m _ a) = φ p m (ExtF.sub p m _ a)
    rw [phi_sub hm wx ha, phi_sub hm rx.1 ha, px]
  · apply phi_inj hm (red_mul hm ha wx) (red_mul hm ha rx.1); rw [phi_mul hm ha wx, phi_mul hm ha rx.1, px]
  · by_cases h0 : φ p m (GFpX.fromInt p x) = 0
    · rw [(truediv_spec hm ha wx).1 h0, (truediv_spec hm ha rx.1).1 (by rw [px]; exact h0)]
    · obtain ⟨q, e, rq, hq⟩ := (truediv_spec hm ha wx).2 h0
      obtain ⟨q', e', rq', hq'⟩ := (truediv_spec hm ha rx.1).2 (by rw [px]; exact h0)
      rw [e, e']; congr 1
      apply phi_inj hm rq rq'
      have : Fact (Irreducible (toPoly p m)) := ⟨hm.irr⟩
      rw [px] at hq'
      exact mul_right_cancel₀ h0 (hq.trans hq'.symm)

/-- repeated multiplication with the model's `*`, starting from `F(1)` -/
def extPowRep (p : ℕ) (m a : Poly) : ℕ → Poly
  | 0 => ExtF.mk p m [1]
  | n + 1 => ExtF.mul p m (extPowRep p m a n) a

/-- ★ `a ** n` (n ≥ 0) is repeated multiplication; `a ** -n` is the inverse of `a ** n` and raises exactly for 0 -/
theorem ext_pow (hm : IsModulus p m) {a : Poly} (ha : Red p m a) (n : ℕ) :
    ExtF.pow p m a (n : ℤ) = .ok (extPowRep p m a n) ∧
    (0 < n → (a = [] → ExtF.pow p m a (-(n : ℤ)) = .error .zeroDivision) ∧
      (a ≠ [] → ∃ r, ExtF.pow p m a (-(n : ℤ)) = .ok r ∧ Red p m r ∧
        ExtF.mul p m r (extPowRep p m a n) = [1])) := by
  have hrep : ∀ k, Red p m (extPowRep p m a k) ∧ φ p m (extPowRep p m a k) = φ p m a ^ k := by
    intro k
    induction k with
    | zero => exact ⟨red_mk hm wf_one, by rw [extPowRep, phi_mk hm wf_one, phi_one, pow_zero]⟩
    | succ k ih => exact ⟨red_mul hm ih.1.1 ha.1, by rw [extPowRep, phi_mul hm ih.1.1 ha.1, ih.2, pow_succ]⟩
  constructor
  · obtain ⟨r, e, rr, hr⟩ := pow_nonneg_spec hm ha.1 n
    rw [e]; congr 1
    exact phi_inj hm rr (hrep n).1 (by rw [hr, (hrep n).2])
  · intro hn
    constructor
    · intro h0
      exact (pow_neg_spec hm ha.1 hn).1 ((phi_eq_zero_iff hm ha).mpr h0)
    · intro hne
      have hz : φ p m a ≠ 0 := fun h => hne ((phi_eq_zero_iff hm ha).mp h)
      obtain ⟨r, e, rr, hr⟩ := (pow_neg_spec hm ha.1 hn).2 hz
      refine ⟨r, e, rr, ?_⟩
      apply phi_inj hm (red_mul hm rr.1 (hrep n).1.1) (ext_one_red hm)
      rw [phi_mul hm rr.1 (hrep n).1.1, (hrep n).2, phi_one]; exact hr

/-- ★ (what the code does) `a << n` multiplies by the polynomial `X^n`, i.e. by `F(p)^n`; `a >> n` divides by the
field element of the INTEGER `2^n` (base-p digits) -/
theorem ext_shifts_as_coded (hm : IsModulus p m) {a : Poly} (ha : WF p a) (n : ℕ) :
    ExtF.lshift p m a (n : ℤ) = ExtF.mul p m a (GFpX.lshift [1] n) ∧
    ExtF.rshift p m a (n : ℤ) = ExtF.truediv p m a (GFpX.fromInt p ((2 : ℤ) ^ n)) ∧
    (∀ k : ℤ, k < 0 → ExtF.rshift p m a k = .error .value) := by
  refine ⟨?_, rshift_eq_truediv a n, ?_⟩
  · have w1 : WF p (GFpX.lshift [1] n) := wf_lshift wf_one hp0 n
    apply phi_inj hm (red_mk hm (by unfold polyShl; rw [if_neg (by omega)]; exact wf_lshift ha hp0 _))
      (red_mul hm ha w1)
    show φ p m (ExtF.lshift p m a (n : ℤ)) = _
    rw [phi_lshift hm ha, phi_mul hm ha w1]
    unfold φ
    rw [toPoly_lshift, map_mul, map_pow, AdjoinRoot.mk_X]
    simp
  · intro k hk
    unfold ExtF.rshift
    rw [MpycV.PrimeF.shl_neg _ _ hk]

/-- OPEN FINDING `extfield-shift-odd-char` (kernel-checked witness, GF(3^2), modulus x^2+1, a = x+2): the shifts of
odd-characteristic extension fields are NOT multiplication/division by powers of two, and not inverse to each other:
`a << 1 = 2x+2` but `a * F(2) = 2x+1`; `(a << 1) >> 1 = x+1 ≠ a`; `a >> 2 = x` but `a / F(2)^2 = x+2`. -/
theorem ext_shift_pow2_fails_witness :
    ExtF.lshift 3 [1, 0, 1] [2, 1] 1 = [2, 2] ∧ ExtF.mul 3 [1, 0, 1] [2, 1] (ExtF.ofInt 3 [1, 0, 1] 2) = [1, 2] ∧
    ExtF.rshift 3 [1, 0, 1] (ExtF.lshift 3 [1, 0, 1] [2, 1] 1) 1 = .ok [1, 1] ∧
    ExtF.rshift 3 [1, 0, 1] [2, 1] 2 = .ok [0, 1] ∧
    ExtF.truediv 3 [1, 0, 1] [2, 1] (extPowRep 3 [1, 0, 1] (ExtF.ofInt 3 [1, 0, 1] 2) 2) = .ok [2, 1] ∧
    GFpX.isIrreducible 3 [1, 0, 1] = true := by
  decide +kernel

/-- ☆ PARTIAL: "shifts equal multiplication/division by powers of two" for extension fields.  Proved part: `>>` by
`n` with `2^n < p` divides by `F(2)^n`… is not claimed; what IS proved for every odd-characteristic extension field
is `ext_shifts_as_coded`; the property clause itself fails there (`ext_shift_pow2_fails_witness`) and is proved for
prime fields (`lshift_eq_mul_pow2`, `rshift_eq_div_pow2`) and binary fields (`bin_shifts`).  The statement below is
the consistent half: `>> n` undoes `<< n` whenever `X^n` and `F(2^n)` coincide, i.e. never needed for p > 2; kept as
the exact equation both shifts satisfy: `(a << n) >> n = a * X^n / F(2^n)`. -/
theorem ext_shift_pow2_partial (hm : IsModulus p m) {a : Poly} (ha : WF p a) (n : ℕ) :
    ExtF.rshift p m (ExtF.lshift p m a (n : ℤ)) (n : ℤ) =
      ExtF.truediv p m (ExtF.mul p m a (GFpX.lshift [1] n)) (GFpX.fromInt p ((2 : ℤ) ^ n)) := by
  rw [(ext_shifts_as_coded hm ha n).1, rshift_eq_truediv]

example : IsModulus 3 [1, 0, 1] :=
  haveI : Fact (Nat.Prime 3) := ⟨by decide⟩
  isModulus_of_check (by decide) (by decide +kernel)
example : ExtF.mul 3 [1, 0, 1] [2, 1] [1, 2] = [0, 2] ∧ ExtF.truediv 3 [1, 0, 1] [0, 2] [1, 2] = .ok [2, 1] ∧
    ExtF.pow 3 [1, 0, 1] [2, 1] (-3) = .ok [1, 2] ∧ extPowRep 3 [1, 0, 1] [2, 1] 3 = [2, 2] ∧
    ExtF.reciprocal 3 [1, 0, 1] [] = .error .zeroDivision := by decide +kernel

end ext

/-! # Part 3: binary fields GF(2^d), model `MpycV.BinF` ≙ `BinaryFieldElement` (bitmask polynomials)

`BinPoly.isIrreducible m = true` is the executable test `xGF` runs on the modulus; `BRed m a`: degree a < degree m. -/

section bin
open MpycV.BinF MpycV.BinPoly

local instance : Fact (Nat.Prime 2) := Nat.fact_prime_two

variable {m : ℕ}

/-- ★ results are class-invariant values, for arbitrary (also unreduced) operands -/
theorem bin_reduced (hm : isIrreducible m = true) (a o : ℕ) (x : ℤ) :
    BRed m (BinF.add m a o) ∧ BRed m (BinF.sub m a o) ∧ BRed m (BinF.mul m a o) ∧ BRed m (BinF.neg m a) ∧
    BRed m (BinF.ofInt m x) ∧ BRed m (BinF.iadd m a o) ∧ BRed m (BinF.imul m a o) := by
  have M := BinF.isModulus_of_check hm
  have h0 := BinF.ne_zero_of_check hm
  have wa := toList_wf a; have wo := toList_wf o
  have hadd : BRed m (BinF.add m a o) := (red_iff m _).mp (by rw [toList_add' h0]; exact ExtF.red_add M wa wo)
  have hmul : BRed m (BinF.mul m a o) := (red_iff m _).mp (by rw [toList_mul' h0]; exact ExtF.red_mul M wa wo)
  refine ⟨hadd, ?_, hmul, ?_, ?_, hadd, hmul⟩
  · exact (red_iff m _).mp (by rw [toList_sub' h0]; exact ExtF.red_sub M wa wo)
  · exact (red_iff m _).mp (by rw [toList_neg' h0]; exact ExtF.red_neg M wa)
  · exact (red_iff m _).mp (by rw [toList_ofInt h0]; exact ExtF.red_ofInt M x)

/-- ★ in-place and reflected operators compute the same values as the binary ones -/
theorem bin_inplace_reflected_agree (a o : ℕ) (n : ℤ) :
    BinF.iadd m a o = BinF.add m a o ∧ BinF.isub m a o = BinF.sub m a o ∧ BinF.imul m a o = BinF.mul m a o ∧
    BinF.itruediv m a o = BinF.truediv m a o ∧ BinF.ilshift m a n = BinF.lshift m a n ∧
    BinF.irshift m a n = BinF.rshift m a n ∧ BinF.radd m a o = BinF.add m a o ∧
    BinF.rmul m a o = BinF.mul m a o ∧ BinF.rsub m a o = BinF.sub m o a :=
  ⟨rfl, rfl, rfl, rfl, rfl, rfl, rfl, rfl, rfl⟩

/-- ★ commutative-ring axioms (characteristic 2: `-a = a`) on class-invariant values -/
theorem bin_ring_axioms (hm : isIrreducible m = true) {a b c : ℕ} (ha : BRed m a) (hb : BRed m b) (hc : BRed m c) :
    BinF.add m a b = BinF.add m b a ∧
    BinF.add m (BinF.add m a b) c = BinF.add m a (BinF.add m b c) ∧
    BinF.mul m a b = BinF.mul m b a ∧
    BinF.mul m (BinF.mul m a b) c = BinF.mul m a (BinF.mul m b c) ∧
    BinF.mul m a (BinF.add m b c) = BinF.add m (BinF.mul m a b) (BinF.mul m a c) ∧
    BinF.sub m a b = BinF.add m a (BinF.neg m b) ∧
    BinF.add m a (BinF.neg m a) = 0 ∧
    BinF.add m a 0 = a ∧ BinF.mul m a 1 = a := by
  have M := BinF.isModulus_of_check hm
  have h0 := BinF.ne_zero_of_check hm
  obtain ⟨e1, e2, e3, e4, e5, e6, e7, e8, e9⟩ :=
    ext_ring_axioms M ((red_iff m a).mpr ha) ((red_iff m b).mpr hb) ((red_iff m c).mpr hc)
  refine ⟨?_, ?_, ?_, ?_, ?_, ?_, ?_, ?_, ?_⟩ <;> apply toList_injective <;>
    simp only [toList_add' h0, toList_mul' h0, toList_sub' h0, toList_neg' h0, BinF.toList_zero, toList_one]
  · exact e1
  · exact e2
  · exact e3
  · exact e4
  · exact e5
  · exact e6
  · exact e7
  · exact e8
  · exact e9

/-- ★ only zero has no inverse -/
theorem bin_inv_iff_nonzero (hm : isIrreducible m = true) {a : ℕ} (ha : BRed m a) :
    (a = 0 → BinF.reciprocal m a = .error .zeroDivision ∧ ∀ b, BinF.truediv m b a = .error .zeroDivision) ∧
    (a ≠ 0 → ∃ r, BinF.reciprocal m a = .ok r ∧ BRed m r ∧ BinF.mul m a r = 1 ∧
        ∀ b, BRed m b → ∃ q, BinF.truediv m b a = .ok q ∧ BRed m q ∧ BinF.mul m q a = b) := by
  have M := BinF.isModulus_of_check hm
  have h0 := BinF.ne_zero_of_check hm
  obtain ⟨z1, z2⟩ := ext_inv_iff_nonzero M ((red_iff m a).mpr ha)
  constructor
  · intro ha0
    obtain ⟨r1, r2⟩ := z1 (by rw [ha0]; exact BinF.toList_zero)
    refine ⟨error_of_map_toList (by rw [toList_reciprocal h0]; exact r1), fun b => ?_⟩
    exact error_of_map_toList (by rw [toList_truediv h0]; exact r2 _ (toList_wf b))
  · intro hne
    obtain ⟨r', e, rr, hmul, hdiv⟩ := z2 (fun h => hne (toList_eq_nil_iff.mp h))
    obtain ⟨r, er, hr⟩ := exists_of_map_toList (x := BinF.reciprocal m a) (by rw [toList_reciprocal h0]; exact e)
    refine ⟨r, er, (red_iff m r).mp (by rw [hr]; exact rr), ?_, ?_⟩
    · apply toList_injective; rw [toList_mul' h0, hr, toList_one]; exact hmul
    · intro b hb
      obtain ⟨q', eq', rq, hq⟩ := hdiv _ ((red_iff m b).mpr hb)
      obtain ⟨q, eq, hq'⟩ := exists_of_map_toList (x := BinF.truediv m b a) (by rw [toList_truediv h0]; exact eq')
      refine ⟨q, eq, (red_iff m q).mp (by rw [hq']; exact rq), ?_⟩
      apply toList_injective; rw [toList_mul' h0, hq']; exact hq

/-- ★ shifts equal multiplication / division by powers of `F(2)` (= the class of `X`): with `t = F(2) ** n`,
`a << n = a * t` and `a >> n = a / t` (same value or both raise); negative counts raise ValueError -/
theorem bin_shifts (hm : isIrreducible m = true) (a n : ℕ) :
    ∃ t, BinF.pow m (BinF.ofInt m 2) (n : ℤ) = .ok t ∧
      BinF.lshift m a (n : ℤ) = .ok (BinF.mul m a t) ∧
      BinF.rshift m a (n : ℤ) = BinF.truediv m a t ∧
      (∀ k : ℤ, k < 0 → BinF.lshift m a k = .error .value ∧ BinF.rshift m a k = .error .value) := by
  have M := BinF.isModulus_of_check hm
  have h0 := BinF.ne_zero_of_check hm
  have wa := toList_wf a
  have r2 := ExtF.red_ofInt M (m := toList m) 2
  obtain ⟨r', e, rr, hr⟩ := ExtF.pow_nonneg_spec M r2.1 n
  have hphi : ExtF.φ 2 (toList m) r' = (AdjoinRoot.root (GFpX.toPoly 2 (toList m))) ^ n := by
    rw [hr, ExtF.phi_ofInt M, BinF.fromInt_two, ExtF.phi_X]
  obtain ⟨t, et, ht⟩ := exists_of_map_toList (x := BinF.pow m (BinF.ofInt m 2) (n : ℤ))
    (by rw [toList_pow h0, toList_ofInt h0]; exact e)
  refine ⟨t, et, ?_, ?_, ?_⟩
  · apply except_toList_inj
    rw [toList_lshift' h0]
    show _ = Except.ok (toList (BinF.mul m a t))
    rw [toList_mul' h0, ht]; congr 1
    apply ExtF.phi_inj M (ExtF.red_mk M (by
      unfold ExtF.polyShl; rw [if_neg (by omega)]; exact GFpX.wf_lshift wa (by decide) _)) (ExtF.red_mul M wa rr.1)
    show ExtF.φ 2 (toList m) (ExtF.lshift 2 (toList m) (toList a) (n : ℤ)) = _
    rw [ExtF.phi_lshift M wa, ExtF.phi_mul M wa rr.1, hphi]
  · apply except_toList_inj
    rw [toList_rshift' h0, toList_truediv h0, ht, ExtF.rshift_eq_truediv]
    exact ExtF.truediv_congr M wa (GFpX.wf_fromInt _) rr.1 (by rw [BinF.phi_two_pow, hphi])
  · intro k hk
    constructor
    · unfold BinF.lshift; rw [if_pos hk]
    · unfold BinF.rshift; rw [MpycV.PrimeF.shl_neg _ _ hk]

/-- ★ mixing in an int equals converting first (`F(x)` is the reduced polynomial of `|x|`) -/
theorem bin_mix_int (hm : isIrreducible m = true) (a : ℕ) (x : ℤ) :
    BinF.add m a (BinPoly.fromInt x) = BinF.add m a (BinF.ofInt m x) ∧
    BinF.mul m a (BinPoly.fromInt x) = BinF.mul m a (BinF.ofInt m x) ∧
    BinF.truediv m a (BinPoly.fromInt x) = BinF.truediv m a (BinF.ofInt m x) ∧
    BinF.eq m a (.int x) = BinF.eq m a (.elem (BinF.ofInt m x)) := by
  have M := BinF.isModulus_of_check hm
  have h0 := BinF.ne_zero_of_check hm
  obtain ⟨e1, _, _, e4, e5, _⟩ := ext_mix_int M (toList_wf a) x
  refine ⟨?_, ?_, ?_, rfl⟩
  · apply toList_injective; rw [toList_add' h0, toList_add' h0, toList_fromInt, toList_ofInt h0]; exact e1
  · apply toList_injective; rw [toList_mul' h0, toList_mul' h0, toList_fromInt, toList_ofInt h0]; exact e4
  · apply except_toList_inj; rw [toList_truediv h0, toList_truediv h0, toList_fromInt, toList_ofInt h0]; exact e5

example : isIrreducible 283 = true ∧ BinF.mul 283 87 131 = 193 ∧ BinF.lshift 283 128 1 = .ok 27 ∧
    BinF.rshift 283 27 1 = .ok 128 ∧ BinF.reciprocal 283 0 = .error .zeroDivision ∧ bitLen 255 < bitLen 283 := by
  decide +kernel

end bin

end MpycV.C20
