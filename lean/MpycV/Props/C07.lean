/-
C07 — input, output and transfer reach exactly the designated parties.
Model: MpycV.Model.Comm (send/receive patterns of transfer, _distribute, output, _reshare).
"Exactly one consumer": party i puts a message for j on the wire iff party j performs a matching
`_receive_message` for i, and neither side repeats a peer — so every message is consumed once.
-/
import MpycV.Lemmas.Comm
import Mathlib.Data.List.Dedup

namespace MpycV.C07
open MpycV.Comm

/-- **output**: for any receiver list without repetitions and any threshold t' < m, party i sends its
share to j iff j (a receiver) awaits a share from i; no repetition on either side; nobody sends to itself. -/
theorem output_exactly_one_consumer (m t i j : Nat) (R : List Nat)
    (hi : i < m) (hj : j < m) (ht : t < m) (hR : R.Nodup) :
    (j ∈ outSends m t i R ↔ i ∈ outRecvs m t j R) ∧
    (outSends m t i R).Nodup ∧ (outRecvs m t j R).Nodup ∧ i ∉ outSends m t i R := by
  refine ⟨?_, outSends_nodup m t i R hR, outRecvs_nodup m t j R hj ht, self_not_mem_outSends m t i R hi⟩
  rw [mem_outSends, mem_outRecvs m t i j R hi hj ht]

/-- a receiver recombines from exactly t+1 distinct x-coordinates in 1..m: its t predecessors' and its own -/
theorem output_points (m t j : Nat) (hj : j < m) (ht : t < m) :
    (outPoints m t j).length = t + 1 ∧ (outPoints m t j).Nodup ∧ ∀ x ∈ outPoints m t j, 1 ≤ x ∧ x ≤ m := by
  unfold outPoints
  refine ⟨by simp, ?_, ?_⟩
  · rw [List.nodup_append]
    refine ⟨?_, List.nodup_singleton _, ?_⟩
    · apply List.Nodup.map_on _ List.nodup_range
      intro a ha b hb he
      rw [List.mem_range] at ha hb
      have he' : (j + m - t % m + a) % m = (j + m - t % m + b) % m := by omega
      rw [pred_eq m t j a hj ht ha, pred_eq m t j b hj ht hb] at he'
      split at he' <;> split at he' <;> omega
    · intro x hx y hy
      simp only [List.mem_map, List.mem_range] at hx
      simp only [List.mem_singleton] at hy
      obtain ⟨k, hk, rfl⟩ := hx
      rw [pred_eq m t j k hj ht hk, hy]
      split <;> omega
  · intro x hx
    simp only [List.mem_append, List.mem_map, List.mem_range, List.mem_singleton] at hx
    rcases hx with ⟨k, hk, rfl⟩ | rfl
    · have := Nat.mod_lt (j + m - t % m + k) (by omega : 0 < m); omega
    · omega

/-- **_reshare**: with 2t < m, for every rotation `uci` (derived from the program counter) party i
sends subshares to j ≠ i iff j awaits them from i; no repetitions. -/
theorem reshare_exactly_one_consumer (m t i j uci : Nat)
    (hi : i < m) (hj : j < m) (hne : i ≠ j) (h2t : 2 * t < m) :
    (j ∈ reshSends m t i uci ↔ i ∈ reshRecvs m t j uci) ∧
    (reshSends m t i uci).Nodup ∧ (reshRecvs m t j uci).Nodup := by
  refine ⟨?_, reshSends_nodup m t i uci, reshRecvs_nodup m t j uci h2t⟩
  rw [mem_reshSends, mem_reshRecvs m t i j uci hi h2t]
  constructor
  · rintro ⟨h, _, _⟩; exact ⟨hne, h⟩
  · rintro ⟨_, h⟩; exact ⟨h, hj, fun h' => hne h'.symm⟩

/-- every party recombines the reshared value from exactly 2t+1 distinct x-coordinates: those of the
dealers `(uci + k) % m`, k = 0..2t (its own one included when it is a dealer itself) -/
theorem reshare_points (m t j uci : Nat) (hj : j < m) (h2t : 2 * t < m) :
    (reshPoints m t j uci).Nodup ∧
    ∀ x, x ∈ reshPoints m t j uci ↔ ∃ k, k < 2 * t + 1 ∧ x = (uci + k) % m + 1 := by
  have hm : 0 < m := by omega
  have hu := Nat.mod_lt uci hm
  have hinj : ∀ a < 2 * t + 1, ∀ b < 2 * t + 1, (uci + a) % m = (uci + b) % m → a = b := by
    intro a ha b hb he
    rw [resh_idx m uci a (by omega), resh_idx m uci b (by omega)] at he
    split at he <;> split at he <;> omega
  have hself : subMod m j uci ≤ 2 * t ↔ ∃ k, k < 2 * t + 1 ∧ (uci + k) % m = j := by
    rw [subMod_uci m j uci hj]
    constructor
    · intro h
      split at h
      · refine ⟨j - uci % m, by omega, ?_⟩
        rw [resh_idx m uci _ (by omega)]; split <;> omega
      · refine ⟨j + m - uci % m, by omega, ?_⟩
        rw [resh_idx m uci _ (by omega)]; split <;> omega
    · rintro ⟨k, hk, he⟩
      rw [resh_idx m uci k (by omega)] at he
      split at he <;> split <;> omega
  unfold reshPoints
  constructor
  · rw [List.nodup_append]
    refine ⟨?_, by split <;> simp, ?_⟩
    · apply List.Nodup.map_on
      · intro a _ b _ h; omega
      · apply List.Nodup.filter
        exact List.Nodup.map_on (fun a ha b hb he => hinj a (List.mem_range.mp ha) b (List.mem_range.mp hb) he)
          List.nodup_range
    · intro x hx y hy
      simp only [List.mem_map, List.mem_filter, List.mem_range, bne_iff_ne, ne_eq] at hx
      obtain ⟨v, ⟨_, hv⟩, rfl⟩ := hx
      split at hy
      · simp only [List.mem_singleton] at hy; omega
      · simp at hy
  · intro x
    simp only [List.mem_append, List.mem_map, List.mem_filter, List.mem_range, bne_iff_ne, ne_eq]
    constructor
    · rintro (⟨v, ⟨⟨k, hk, rfl⟩, _⟩, rfl⟩ | hx)
      · exact ⟨k, hk, rfl⟩
      · split at hx
        · rename_i hd
          simp only [List.mem_singleton] at hx
          obtain ⟨k, hk, he⟩ := hself.mp hd
          exact ⟨k, hk, by omega⟩
        · simp at hx
    · rintro ⟨k, hk, rfl⟩
      by_cases hkj : (uci + k) % m = j
      · right
        have : subMod m j uci ≤ 2 * t := hself.mpr ⟨k, hk, hkj⟩
        simp [this, hkj]
      · left
        exact ⟨(uci + k) % m, ⟨⟨k, hk, rfl⟩, hkj⟩, rfl⟩

/-- **input / _distribute**: for a sender list without repetitions, sender i sends a share vector to
every j ≠ i, j < m, and j awaits one from every sender i ≠ j. -/
theorem distribute_exactly_one_consumer (m i j : Nat) (S : List Nat) (hj : j < m) (hne : i ≠ j)
    (hS : S.Nodup) :
    (j ∈ distSends m i S ↔ i ∈ distRecvs j S) ∧ (distRecvs j S).Nodup ∧
    (distSends m i S).count j = (distRecvs j S).count i := by
  have hmem : j ∈ distSends m i S ↔ i ∈ S := by
    unfold distSends
    simp only [List.mem_flatMap, List.mem_filter, List.mem_range, bne_iff_ne, ne_eq, beq_iff_eq]
    constructor
    · rintro ⟨a, ⟨ha, rfl⟩, _⟩; exact ha
    · intro h; exact ⟨i, ⟨h, rfl⟩, hj, fun h' => hne h'.symm⟩
  have hrecv : i ∈ distRecvs j S ↔ i ∈ S := by
    unfold distRecvs; simp [List.mem_filter, hne]
  refine ⟨by rw [hmem, hrecv], List.Nodup.filter _ hS, ?_⟩
  have hfS : ∀ (T : List Nat), T.Nodup → T.filter (· == i) = if i ∈ T then [i] else [] := by
    intro T hT
    induction T with
    | nil => simp
    | cons a T ih =>
      have hT' := List.nodup_cons.mp hT
      by_cases hai : a = i
      · subst hai
        have : T.filter (· == a) = [] := by
          rw [List.filter_eq_nil_iff]; intro x hx; simp; intro h; exact hT'.1 (h ▸ hx)
        simp [List.filter, this]
      · have hb : (a == i) = false := by simp [hai]
        have hi' : (i ∈ a :: T) ↔ i ∈ T := by simp [Ne.symm hai]
        simp only [List.filter, hb, ih hT'.2, hi']
  have hcR : (distRecvs j S).count i = if i ∈ S then 1 else 0 := by
    unfold distRecvs
    rw [List.count_filter (by simp [hne])]
    split
    · exact List.count_eq_one_of_mem hS ‹_›
    · exact List.count_eq_zero_of_not_mem ‹_›
  rw [hcR]
  unfold distSends
  rw [hfS S hS]
  split
  · simp only [List.flatMap_cons, List.flatMap_nil, List.append_nil]
    apply List.count_eq_one_of_mem (List.Nodup.filter _ List.nodup_range)
    simp [List.mem_filter, hj, Ne.symm hne]
  · simp

/-- **transfer**, bipartite form: i puts one message for j ≠ i on the wire iff j awaits one from i -/
theorem transfer_exactly_one_consumer (i j : Nat) (S R : List Nat) (hne : i ≠ j) :
    j ∈ transferSends i (transferMyReceivers i S R) ↔ i ∈ transferRecvs j (transferMySenders j S R) := by
  unfold transferSends transferRecvs transferMyReceivers transferMySenders
  by_cases hi : i ∈ S <;> by_cases hj : j ∈ R <;> simp [hi, hj, hne, Ne.symm hne, List.mem_filter]

/-- **transfer**, arbitrary graph given as arcs: i sends to j iff (i, j) is an arc iff j awaits i -/
theorem transfer_arcs_exactly_one_consumer (i j : Nat) (arcs : List (Nat × Nat)) (hne : i ≠ j) :
    (j ∈ transferSends i (arcsMyReceivers i arcs) ↔ (i, j) ∈ arcs) ∧
    (i ∈ transferRecvs j (arcsMySenders j arcs) ↔ (i, j) ∈ arcs) := by
  unfold transferSends transferRecvs arcsMyReceivers arcsMySenders
  simp only [List.mem_filter, List.mem_map, bne_iff_ne, ne_eq, beq_iff_eq]
  constructor
  · constructor
    · rintro ⟨⟨⟨a, b⟩, ⟨hab, rfl⟩, rfl⟩, _⟩; exact hab
    · intro h; exact ⟨⟨(i, j), ⟨h, rfl⟩, rfl⟩, fun h' => hne h'.symm⟩
  · constructor
    · rintro ⟨⟨⟨a, b⟩, ⟨hab, rfl⟩, rfl⟩, _⟩; exact hab
    · intro h; exact ⟨⟨(i, j), ⟨h, rfl⟩, rfl⟩, hne⟩

/-- **routing**: the result of `transfer` at a party is the list of the objects of its designated
senders, in sender order (so with `senders` given as a list, position k holds sender k's object) -/
theorem transfer_routes {α : Type} (obj : Nat → α) (j : Nat) (S R : List Nat) :
    transferResult obj (transferMySenders j S R) = if j ∈ R then S.map obj else [] := by
  unfold transferResult transferMySenders; split <;> simp

/-- **output for ANY receiver list** (repo fix: `Runtime.output` removes repeated parties from `receivers`, keeping the
order of first occurrence; `List.dedup` keeps last occurrences — the two lists have the same members and no repetitions,
which is all the statement uses): the no-repetition hypothesis of `output_exactly_one_consumer` is established by the code -/
theorem output_exactly_one_consumer_dedup (m t i j : Nat) (R : List Nat)
    (hi : i < m) (hj : j < m) (ht : t < m) :
    (j ∈ outSends m t i R.dedup ↔ i ∈ outRecvs m t j R.dedup) ∧
    (outSends m t i R.dedup).Nodup ∧ (outRecvs m t j R.dedup).Nodup ∧ i ∉ outSends m t i R.dedup ∧
    (∀ k, k ∈ R.dedup ↔ k ∈ R) := by
  obtain ⟨h1, h2, h3, h4⟩ := output_exactly_one_consumer m t i j R.dedup hi hj ht (List.nodup_dedup R)
  exact ⟨h1, h2, h3, h4, fun k => List.mem_dedup⟩

/-! ### non-vacuity -/
example : outSends 5 2 3 [0, 1, 4] = [0, 4] ∧ outRecvs 5 2 0 [0, 1, 4] = [3, 4] ∧
    outPoints 5 2 0 = [4, 5, 1] ∧ reshSends 5 2 1 7 = [0, 2, 3, 4] ∧ reshRecvs 5 1 0 7 = [2, 3, 4] ∧
    reshPoints 5 1 3 7 = [3, 5, 4] ∧ reshPoints 5 1 1 7 = [3, 4, 5] := by decide

end MpycV.C07
