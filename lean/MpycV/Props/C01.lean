/-
C01 — secure integer operations are exact in every party configuration.

Model: MpycV.Model.SecInt (value layer: a secure integer is the integer representative of the field
element all parties' shares encode — the share layer, C11/C12, justifies this for every (m, t, PRSS)
configuration: linear operations act on the secret, `_reshare` and `output` recombine it from any t+1
shares; every protocol is a function of its inputs and of the NAMED random values it draws).

Common hypotheses (what the code guarantees, each monitored on the running code by harness/props/c01.py):
  `p` prime with `2^(l+k+1) < p` (sectypes._pfield: a prime of `l+k+2` bits), `k ≥ 1` (sec_param; for `k = 0`
  the masked values may wrap modulo p, see `SecInt.sgn_opened` counterexamples in Lemmas/SecIntSgn),
  random bits are bits, `s_sign ∈ {1,-1}`, `0 ≤ r_divl < 2^k`, the random factor `rz` of the public zero
  test is nonzero in GF(p).
Inputs: comparisons call `sgn` on the DIFFERENCE of two l-bit numbers, so `sgn`/`lsb` are proved on the wide
range `[-2^l, 2^l)`; `%`, `//` on l-bit numbers `[-2^(l-1), 2^(l-1))`.

Proved here for ALL inputs and ALL randomness in range: sgn (LT / EQ / sign) incl. the opened value and the
product-is-zero characterisation of the comparison circuit; lsb; `_mod` for every public `0 < b < 2^l` incl.
powers of two; divmod/floordiv with Python floor semantics; is_zero_public; prod/all/any trees; pow;
if_else/if_swap/abs; min/max/min_max; matrix_prod incl. the symmetric A·Aᵀ indexing; divstep invariants and
Bézout bookkeeping of the Bernstein–Yang loop.
NOT proved (named `_partial`, hypothesis explicit): that `_iterations(l)` divsteps suffice (Bernstein–Yang
Thm 11.2) — carried as hypothesis `Terminates`; confirmed by kernel evaluation (`decide +kernel`) for all
l-bit inputs, small l: a FINITE TABLE, not a proof for all l.  The probabilistic equality test `_is_zero`
([NO07], used for `==` when l/2 > k) is validated only.
-/
import MpycV.Lemmas.SecIntSgn
import MpycV.Lemmas.SecIntMod
import MpycV.Lemmas.SecIntMisc
import MpycV.Lemmas.SecIntGcd
import MpycV.Lemmas.SecIntGcdTable
import MpycV.Lemmas.SecIntLcm
import Mathlib.Tactic.NormNum.Prime

namespace MpycV.C01
open MpycV.SecInt
open MpycV.Fxp (pmod norm rsh bitsVal IsBits Fits)

/-- the concrete small instance used by the non-vacuity examples: p = 1009 (prime), l = 3, k = 4 -/
def P : Nat := 1009

theorem P_prime : P.Prime := by unfold P; norm_num

/-- `3l + 3 < p` follows from the size of the prime -/
theorem three_l_lt {p l k : Nat} (hl : 0 < l) (hk : 0 < k) (hbig : (2 : Int) ^ (l + k + 1) < (p : Int)) :
    3 * l + 3 < p := by
  have h1 : ∀ n : Nat, 3 * (n + 1) + 3 < 2 ^ (n + 3) := by
    intro n
    induction n with
    | zero => norm_num
    | succ n ih => rw [show n + 1 + 3 = (n + 3) + 1 from rfl, pow_succ]; omega
  obtain ⟨n, rfl⟩ : ∃ n, l = n + 1 := ⟨l - 1, by omega⟩
  have h2 : 2 ^ (n + 3) ≤ 2 ^ (n + 1 + k + 1) := Nat.pow_le_pow_right (by norm_num) (by omega)
  have h4 : 2 ^ (n + 1 + k + 1) < p := by exact_mod_cast hbig
  exact lt_of_lt_of_le (h1 n) (le_trans h2 h4.le)

/-! ### the comparison circuit -/

/-- **toft_prod_zero_iff**: for bit lists `rs`, `cs` of equal length, `s, top ∈ {1,-1}`: the product of the vector
`e_i = s + r_i - c_i + 3*sumXors_i`, `e_l = s + top + 3*sumXors` is zero in GF(p) iff `s = 1 ∧ r < c`, or
`s = -1 ∧ c < r`, or `r = c ∧ s = -top` — the comparison bit `sgn` (top = -1) and `_mod` (top = 1) derive. -/
theorem toft_prod_zero_iff {p : Nat} (hp : p.Prime) (s top : Int) (rs cs : List Int)
    (hlen : rs.length = cs.length) (hr : IsBits rs) (hc : IsBits cs) (hs : s = 1 ∨ s = -1)
    (ht : top = 1 ∨ top = -1) (h3 : 3 * rs.length + 3 < p) :
    (prodTree (toftE s top rs cs)) % (p : Int) = 0 ↔
      ((s = 1 ∧ bitsVal rs < bitsVal cs) ∨ (s = -1 ∧ bitsVal cs < bitsVal rs) ∨
       (bitsVal rs = bitsVal cs ∧ s = -top)) :=
  SecInt.toft_spec hp s top rs cs hlen hr hc hs ht h3
example : (prodTree (toftE 1 (-1) [1, 0, 1] [0, 1, 1])) % (P : Int) = 0 := by decide

/-- **isZeroPublic_correct**: with a random factor that is nonzero in GF(p) the public zero test answers
`True` exactly for `a ≡ 0`; the value opened is `a * r mod p`.  (`r = 0`: probability `1/p` for large fields,
excluded by the retry loop for small and medium-sized fields; then the answer is always `True`.) -/
theorem isZeroPublic_correct {p : Nat} (hp : p.Prime) (a r : Int) (hr : ¬ (p : Int) ∣ r) :
    ((isZeroPublic p a r).2 = true ↔ (p : Int) ∣ a) ∧ (isZeroPublic p a r).1 = (a * r) % (p : Int) :=
  SecInt.isZeroPublic_correct hp a r hr
theorem isZeroPublic_bad_event (p : Nat) (a : Int) : (isZeroPublic p a 0).2 = true := SecInt.isZeroPublic_bad p a
example : (isZeroPublic P 5 7).2 = false ∧ (isZeroPublic P 0 7).2 = true ∧ (isZeroPublic P 5 7).1 = 35 := by decide

/-! ### sgn -/

section sgn
variable {p l k : Nat} {a rDivl sSign rz : Int} {rBits : List Int}

/-- the value opened inside `sgn` is the masked integer itself (no wrap-around modulo p) -/
theorem sgn_opened (hl : 0 < l) (hk : 0 < k) (hbig : (2 : Int) ^ (l + k + 1) < (p : Int))
    (ha0 : -(2 : Int) ^ l ≤ a) (ha1 : a < (2 : Int) ^ l) (hb : IsBits rBits) (hlen : rBits.length = l)
    (hr0 : 0 ≤ rDivl) (hr1 : rDivl < (2 : Int) ^ k) (mode : Mode) :
    (sgnModel p l a rBits rDivl sSign rz mode).c = a + (2 : Int) ^ l + bitsVal rBits + rDivl * (2 : Int) ^ l :=
  SecInt.sgn_opened hl hk hbig ha0 ha1 hb hlen hr0 hr1 mode

/-- **sgn_lt**: `sgn(a, LT=True) = [a < 0]` for every `a ∈ [-2^l, 2^l)` and every randomness; includes the
exactness of the field division by `2^l` -/
theorem sgn_lt (hp : p.Prime) (hl : 0 < l) (hk : 0 < k) (hbig : (2 : Int) ^ (l + k + 1) < (p : Int))
    (ha0 : -(2 : Int) ^ l ≤ a) (ha1 : a < (2 : Int) ^ l) (hb : IsBits rBits) (hlen : rBits.length = l)
    (hr0 : 0 ≤ rDivl) (hr1 : rDivl < (2 : Int) ^ k) (hs : sSign = 1 ∨ sSign = -1) (hrz : ¬ (p : Int) ∣ rz) :
    (sgnModel p l a rBits rDivl sSign rz .lt).z = if a < 0 then 1 else 0 :=
  SecInt.sgn_lt hp (SecInt.toft_spec hp) hl hk (three_l_lt hl hk hbig) hbig ha0 ha1 hb hlen hr0 hr1 hs hrz

/-- which branch the public zero test inside `sgn` takes -/
theorem sgn_zero_test (hp : p.Prime) (hl : 0 < l) (hk : 0 < k) (hbig : (2 : Int) ^ (l + k + 1) < (p : Int))
    (ha0 : -(2 : Int) ^ l ≤ a) (ha1 : a < (2 : Int) ^ l) (hb : IsBits rBits) (hlen : rBits.length = l)
    (hr0 : 0 ≤ rDivl) (hr1 : rDivl < (2 : Int) ^ k) (hs : sSign = 1 ∨ sSign = -1) (hrz : ¬ (p : Int) ∣ rz) :
    (sgnModel p l a rBits rDivl sSign rz .lt).g = true ↔
      (sSign = 1 ∧ bitsVal rBits ≤ (a + bitsVal rBits) % (2 : Int) ^ l) ∨
      (sSign = -1 ∧ (a + bitsVal rBits) % (2 : Int) ^ l < bitsVal rBits) :=
  SecInt.sgn_g hp (SecInt.toft_spec hp) hl hk (three_l_lt hl hk hbig) hbig ha0 ha1 hb hlen hr0 hr1 hs hrz

/-- **sgn_eq**: `sgn(a, EQ=True) = [a = 0]` for `a ∈ (-2^l, 2^l)` -/
theorem sgn_eq (hl : 0 < l) (hk : 0 < k) (hbig : (2 : Int) ^ (l + k + 1) < (p : Int))
    (ha0 : -(2 : Int) ^ l < a) (ha1 : a < (2 : Int) ^ l) (hb : IsBits rBits) (hlen : rBits.length = l)
    (hr0 : 0 ≤ rDivl) (hr1 : rDivl < (2 : Int) ^ k) :
    (sgnModel p l a rBits rDivl sSign rz .eq).z = if a = 0 then 1 else 0 :=
  SecInt.sgn_eq hl hk hbig ha0 ha1 hb hlen hr0 hr1

/-- **sgn_sign**: `sgn(a)` is the sign of `a` -/
theorem sgn_sign (hp : p.Prime) (hl : 0 < l) (hk : 0 < k) (hbig : (2 : Int) ^ (l + k + 1) < (p : Int))
    (ha0 : -(2 : Int) ^ l < a) (ha1 : a < (2 : Int) ^ l) (hb : IsBits rBits) (hlen : rBits.length = l)
    (hr0 : 0 ≤ rDivl) (hr1 : rDivl < (2 : Int) ^ k) (hs : sSign = 1 ∨ sSign = -1) (hrz : ¬ (p : Int) ∣ rz) :
    (sgnModel p l a rBits rDivl sSign rz .full).z = if a < 0 then -1 else if a = 0 then 0 else 1 :=
  SecInt.sgn_sign hp (SecInt.toft_spec hp) hl hk (three_l_lt hl hk hbig) hbig ha0 ha1 hb hlen hr0 hr1 hs hrz

/-- comparisons of two l-bit numbers: the difference is in the wide range, so `x < y`, `x == y` are exact -/
theorem cmp_range {x y : Int} (hl : 0 < l) (hx0 : -(2 : Int) ^ (l - 1) ≤ x) (hx1 : x < (2 : Int) ^ (l - 1))
    (hy0 : -(2 : Int) ^ (l - 1) ≤ y) (hy1 : y < (2 : Int) ^ (l - 1)) :
    -(2 : Int) ^ l < x - y ∧ x - y < (2 : Int) ^ l := by
  have h : (2 : Int) ^ l = 2 * (2 : Int) ^ (l - 1) := by rw [← pow_succ']; congr 1; omega
  constructor <;> linarith
end sgn

example : (sgnModel P 3 (-3) [1, 0, 1] 5 (-1) 7 .lt).z = 1 ∧ (sgnModel P 3 2 [1, 0, 1] 5 1 7 .lt).z = 0 ∧
    (sgnModel P 3 (-7) [1, 1, 1] 15 1 7 .lt).z = 1 := by decide
example : (sgnModel P 3 0 [1, 0, 1] 5 1 7 .eq).z = 1 ∧ (sgnModel P 3 4 [1, 0, 1] 5 1 7 .eq).z = 0 := by decide
example : (sgnModel P 3 (-3) [1, 0, 1] 5 1 7 .full).z = -1 ∧ (sgnModel P 3 0 [0, 0, 1] 5 (-1) 7 .full).z = 0 ∧
    (sgnModel P 3 3 [1, 1, 1] 0 (-1) 7 .full).z = 1 := by decide

/-! ### lsb, modulo reduction, division -/

/-- **lsb_correct** -/
theorem lsb_correct {p l k : Nat} {a b r : Int} (hl : 0 < l) (hk : 0 < k)
    (hbig : (2 : Int) ^ (l + k + 1) < (p : Int)) (ha0 : -(2 : Int) ^ l ≤ a) (ha1 : a < (2 : Int) ^ l)
    (hb : b = 0 ∨ b = 1) (hr0 : 0 ≤ r) (hr1 : r < (2 : Int) ^ (l + k - 1)) :
    (lsbModel p l a b r).2 = a % 2 ∧ (lsbModel p l a b r).1 = a + (2 : Int) ^ l + 2 * r + b :=
  SecInt.lsb_correct hl hk hbig ha0 ha1 hb hr0 hr1
example : (lsbModel P 3 (-3) 1 20).2 = 1 ∧ (lsbModel P 3 (-8) 0 31).2 = 0 := by decide

/-- **mod_correct**: `_mod(a, b)` returns `a mod b` (Python's `%`: `0 ≤ result < b`, `≡ a`), for EVERY public
`0 < b < 2^l` incl. powers of two and 1, every randomness; also the opened value and the comparison bit.
`hnw`: the masked value is nonnegative (`mod_nowrap_ok`: true unless `r_divb ≤ 1` and `b > 2^(l-2)+1`, an event
of probability about `2b/2^(k+l)`). -/
theorem mod_correct {p l k : Nat} {a b rDivb sSign rz : Int} {rBits : List Int}
    (hp : p.Prime) (hl : 0 < l) (hk : 1 ≤ k) (hbig : (2 : Int) ^ (l + k + 1) < (p : Int))
    (ha0 : -(2 : Int) ^ (l - 1) ≤ a) (ha1 : a < (2 : Int) ^ (l - 1))
    (hb0 : 0 < b) (hb1 : b < (2 : Int) ^ l)
    (hbits : IsBits rBits) (hR : bitsVal rBits < b) (hn : b ≤ (2 : Int) ^ rBits.length) (hlen : rBits.length ≤ l)
    (hd0 : 0 ≤ rDivb) (hd1 : b * rDivb < (2 : Int) ^ (k + l))
    (hs : sSign = 1 ∨ sSign = -1) (hrz : ¬ (p : Int) ∣ rz)
    (hnw : 0 ≤ a + ((2 : Int) ^ l - (2 : Int) ^ l % b + b * rDivb - bitsVal rBits)) :
    (modModel p l b a rBits rDivb sSign rz).r = a % b ∧
    (0 ≤ (modModel p l b a rBits rDivb sSign rz).r ∧ (modModel p l b a rBits rDivb sSign rz).r < b ∧
      (modModel p l b a rBits rDivb sSign rz).r ≡ a [ZMOD b]) ∧
    (modModel p l b a rBits rDivb sSign rz).c
      = a + ((2 : Int) ^ l - (2 : Int) ^ l % b + b * rDivb - bitsVal rBits) := by
  have h3 : 3 * rBits.length + 3 < p := by have := three_l_lt hl hk hbig; omega
  have h := SecInt.mod_correct hp hl hk hbig ha0 ha1 hb0 hb1 hbits hR hn h3 hd0 hd1 hs hrz hnw
  exact ⟨h.1, SecInt.mod_range hp hl hk hbig ha0 ha1 hb0 hb1 hbits hR hn h3 hd0 hd1 hs hrz hnw, h.2.1⟩
example : (modModel P 3 3 (-4) [0, 1] 5 (-1) 7).r = 2 ∧ (modModel P 3 4 (-3) [0, 1] 5 1 7).r = 1 ∧
    (modModel P 3 1 (-4) [] 5 1 7).r = 0 := by decide

theorem mod_nowrap_ok {l : Nat} {a b rDivb : Int} {rBits : List Int} (hl : 0 < l)
    (ha0 : -(2 : Int) ^ (l - 1) ≤ a) (hb0 : 0 < b) (hR : bitsVal rBits < b)
    (hd0 : 0 ≤ rDivb) (h : 2 ≤ rDivb ∨ 2 * b ≤ (2 : Int) ^ (l - 1) + 2) :
    0 ≤ a + ((2 : Int) ^ l - (2 : Int) ^ l % b + b * rDivb - bitsVal rBits) :=
  SecInt.mod_nowrap_ok hl ha0 hb0 hR hd0 h

/-- the branch `if c == 0: c = b` is necessary: without it `_mod(1, 4)` with `r_modb = 1` would return `-3` -/
theorem mod_needs_c_eq_b :
    (SecInt.modModelNoFix 1009 3 4 1 [1, 0] 5 1 7).r = -3 ∧ (modModel 1009 3 4 1 [1, 0] 5 1 7).r = 1 % 4 :=
  ⟨SecInt.mod_needs_c_eq_b.2.1, SecInt.mod_needs_c_eq_b.2.2.2⟩

/-- **divmod_python**: Lean's `/`, `%` (the spec of `//`, `%` in `evalSpec`) are Python's floor division and
modulus for a positive divisor, also for negative `a` -/
theorem divmod_python {a b : Int} (hb : 0 < b) :
    (a = b * (a / b) + a % b ∧ 0 ≤ a % b ∧ a % b < b) ∧
    (∀ q r : Int, a = b * q + r → 0 ≤ r → r < b → q = a / b ∧ r = a % b) ∧
    (a / b : Int) = ⌊(a : ℚ) / (b : ℚ)⌋ ∧ pyMod a b = a % b ∧ pyDiv a b = a / b :=
  SecInt.divmod_python hb
example : (-7 : Int) / 2 = -4 ∧ (-7 : Int) % 2 = 1 := by decide

/-- **mod_negative_divisor** (repo fix 6154ebc: `Runtime.mod` took the unsigned representative of a negative public
modulus): for `b < 0` the code now computes `-((-a) % (-b))`; this is Python's `a % b`: it lies in `(b, 0]`, is congruent to
`a` modulo `b`, and with `q = (a - r) / b` (exact) one has `a = b*q + r` and `q = ⌊a / b⌋` -/
theorem mod_negative_divisor {a b : Int} (hb : b < 0) :
    pyMod a b = -((-a) % (-b)) ∧ b < pyMod a b ∧ pyMod a b ≤ 0 ∧ (pyMod a b - a) % b = 0 ∧
    a = b * pyDiv a b + pyMod a b := by
  have hb' : 0 < -b := by omega
  have h1 := Int.emod_nonneg (-a) (by omega : -b ≠ 0)
  have h2 := Int.emod_lt_of_pos (-a) hb'
  have h3 := Int.emod_add_mul_ediv (-a) (-b)
  have hpm : pyMod a b = -((-a) % (-b)) := by
    unfold pyMod
    have : ¬ b > 0 := by omega
    simp [this, hb]
  have hpd : pyDiv a b = (-a) / (-b) := by
    unfold pyDiv
    have : ¬ b > 0 := by omega
    simp [this, hb]
  refine ⟨hpm, by rw [hpm]; omega, by rw [hpm]; omega, ?_, ?_⟩
  · rw [hpm]
    have : -((-a) % (-b)) - a = b * (-((-a) / (-b))) := by nlinarith [h3]
    rw [this]
    exact Int.mul_emod_right b _
  · rw [hpm, hpd]
    nlinarith [h3]

example : pyMod 7 (-2) = -1 ∧ pyDiv 7 (-2) = -4 ∧ pyMod (-7) (-3) = -1 ∧ pyMod 0 (-4) = 0 ∧ pyDiv (-128) (-1) = 128 := by decide

/-- `__divmod__`/`__floordiv__`: `q = (a - r) * reciprocal(b)` is the floor quotient -/
theorem divmod_correct {p : Nat} (hp : p.Prime) {a b : Int} (hb0 : 0 < b) (hbp : b < (p : Int))
    (hq : Fits p (a / b)) : divmodModel p a b (a % b) = (a / b, a % b) :=
  SecInt.divmod_correct hp hb0 hbp hq
example : divmodModel P (-7) 2 1 = (-4, 1) := by decide

/-- field division of an exact multiple is the integer quotient -/
theorem fdiv_exact {p : Nat} (hp : p.Prime) {b : Int} (q : Int) (hb : ¬ (p : Int) ∣ b) (hq : Fits p q) :
    fdiv p (q * b) b = q := SecInt.fdiv_exact_fits hp q hb hq

/-! ### truncation of secure integers (`Fxp.trunc` with `l` = bit length; lemmas shared with C02) -/

section trunc
open MpycV.Fxp in
/-- **trunc_exact_on_multiples**: `trunc(a, f=d)` on a secure integer (`l` = bit length) returns `⌊a/2^d⌋` or
`⌊a/2^d⌋ + 1` for every randomness, and exactly `a / 2^d` when `2^d ∣ a` -/
theorem trunc_exact_on_multiples {p d l k : Nat} (hodd : p % 2 = 1) {x : Int} {rbits : List Int} {rdiv : Int}
    (hb : IsBits rbits) (hlen : rbits.length = d) (hdl : d < l)
    (hx0 : -(2 : Int) ^ (l - 1) ≤ x) (hx1 : x < (2 : Int) ^ (l - 1))
    (hr0 : 0 ≤ rdiv) (hr1 : rdiv < (2 : Int) ^ (k + l - d)) (hp : (2 : Int) ^ (l + k + 1) < p) :
    (trunc p d l x rbits rdiv = x / (2 : Int) ^ d ∨ trunc p d l x rbits rdiv = x / (2 : Int) ^ d + 1) ∧
    ((2 : Int) ^ d ∣ x → trunc p d l x rbits rdiv = x / (2 : Int) ^ d) := by
  obtain ⟨hR0, hR1⟩ := bitsVal_range rbits hb
  rw [hlen] at hR1
  have hD : (0 : Int) < (2 : Int) ^ d := two_pow_pos d
  have hL : (0 : Int) < (2 : Int) ^ (l - 1) := two_pow_pos (l - 1)
  have hDL : (2 : Int) ^ d ≤ (2 : Int) ^ (l - 1) := pow_le_pow_right₀ (by norm_num) (by omega)
  -- no wrap
  have hlo : 0 ≤ x + (2 : Int) ^ (l - 1) + rdiv * (2 : Int) ^ d := by
    have : 0 ≤ rdiv * (2 : Int) ^ d := mul_nonneg hr0 hD.le
    linarith
  have hpow : (2 : Int) ^ (k + l - d) * (2 : Int) ^ d = (2 : Int) ^ (k + l) := by
    rw [← pow_add]; congr 1; omega
  have hhi : x + (2 : Int) ^ d + (2 : Int) ^ (l - 1) + rdiv * (2 : Int) ^ d ≤ p := by
    have h1 : rdiv * (2 : Int) ^ d ≤ ((2 : Int) ^ (k + l - d) - 1) * (2 : Int) ^ d :=
      mul_le_mul_of_nonneg_right (by linarith) hD.le
    have h2 : (2 : Int) ^ (l + k + 1) = 2 * (2 : Int) ^ (k + l) := by rw [← pow_succ']; congr 1; omega
    have h3 : 2 * (2 : Int) ^ (l - 1) ≤ (2 : Int) ^ (k + l) := by
      rw [← pow_succ']; exact pow_le_pow_right₀ (by norm_num) (by omega)
    have h5 : ((2 : Int) ^ (k + l - d) - 1) * (2 : Int) ^ d = (2 : Int) ^ (k + l) - (2 : Int) ^ d := by
      rw [sub_mul, hpow, one_mul]
    linarith
  have hq := floor_add_small x (bitsVal rbits) ((2 : Int) ^ d) hD hR0 hR1
  -- the quotient is small
  have hfit : Fits p ((x + bitsVal rbits) / (2 : Int) ^ d) := by
    unfold Fits
    have hq0 : -(2 : Int) ^ (l - 1) ≤ (x + bitsVal rbits) / (2 : Int) ^ d := by
      apply Int.le_ediv_of_mul_le hD
      nlinarith
    have hq1 : (x + bitsVal rbits) / (2 : Int) ^ d ≤ (2 : Int) ^ (l - 1) := by
      apply Int.ediv_le_of_le_mul hD
      nlinarith
    have h2 : 4 * (2 : Int) ^ (l - 1) ≤ (2 : Int) ^ (l + k + 1) := by
      have : (2 : Int) ^ (l + k + 1) = (2 : Int) ^ (l - 1) * (2 : Int) ^ (k + 2) := by rw [← pow_add]; congr 1; omega
      have h4 : (4 : Int) ≤ (2 : Int) ^ (k + 2) := by
        have : (2 : Int) ^ 2 ≤ (2 : Int) ^ (k + 2) := pow_le_pow_right₀ (by norm_num) (by omega)
        simpa using this
      nlinarith
    have habs : |(x + bitsVal rbits) / (2 : Int) ^ d| ≤ (2 : Int) ^ (l - 1) := abs_le.2 ⟨hq0, hq1⟩
    linarith
  rw [trunc_eq hodd hb hlen hdl hlo hhi hfit]
  exact hq
end trunc
example : MpycV.Fxp.trunc P 2 3 (-4) [1, 1] 3 = -1 ∧ MpycV.Fxp.trunc P 2 3 (-3) [0, 0] 3 = -1 ∧ MpycV.Fxp.trunc P 2 3 (-3) [1, 1] 3 = 0 := by decide

/-! ### products, all, any, pow, selection, abs, min/max, matrix product -/

/-- **prodTree_eq_prod**: the log-round pairing of `prod` is the product of all elements -/
theorem prodTree_eq_prod (xs : List Int) : prodTree xs = xs.prod := SecInt.prodTree_eq_prod xs
example : prodTree [2, 3, 4, 5, 6] = 720 := by decide

/-- **allTree_eq** -/
theorem allTree_eq (xs : List Int) (h : IsBits xs) : allTree xs = if ∀ x ∈ xs, x = 1 then 1 else 0 :=
  SecInt.allTree_eq xs h
/-- **any** -/
theorem any_correct (xs : List Int) (h : IsBits xs) : anyModel xs = if ∃ x ∈ xs, x = 1 then 1 else 0 :=
  SecInt.anyModel_eq xs h
example : allTree [1, 1, 0, 1, 1] = 0 ∧ allTree [1, 1, 1] = 1 ∧ anyModel [0, 0, 1] = 1 ∧ anyModel [] = 0 := by decide

/-- **pow_correct**: square-and-multiply (incl. the addition chain for 254) is `a^n` -/
theorem pow_correct (a : Int) (n : Nat) : powModel a n = a ^ n := SecInt.pow_correct a n
example : powModel 3 5 = 243 ∧ powModel (-1) 254 = 1 ∧ powModel 7 0 = 1 := by decide

theorem ifElse_correct (x y : Int) : ifElse 1 x y = x ∧ ifElse 0 x y = y := SecInt.ifElse_correct x y
theorem ifSwap_correct (x y : Int) : ifSwap 1 x y = (y, x) ∧ ifSwap 0 x y = (x, y) := SecInt.ifSwap_correct x y
theorem abs_correct (a : Int) : absModel a (if a < 0 then 1 else 0) = |a| := SecInt.abs_correct a
example : ifElse 1 5 (-2) = 5 ∧ ifSwap 1 5 (-2) = (-2, 5) ∧ absModel (-4) 1 = 4 := by decide

theorem sum_correct (xs : List Int) : sumI xs = xs.sum := SecInt.sumI_eq xs
theorem inProd_correct (xs ys : List Int) : dot xs ys = (List.zipWith (· * ·) xs ys).sum := SecInt.dot_eq xs ys

/-- min / max / min_max tournaments return the list minimum / maximum (`[]`: ValueError) -/
theorem min_correct (xs : List Int) (hx : xs ≠ []) : ∃ m, minModel xs = some m ∧ m ∈ xs ∧ ∀ y ∈ xs, m ≤ y :=
  SecInt.min_correct xs hx
theorem max_correct (xs : List Int) (hx : xs ≠ []) : ∃ m, maxModel xs = some m ∧ m ∈ xs ∧ ∀ y ∈ xs, y ≤ m :=
  SecInt.max_correct xs hx
theorem minMax_correct (xs : List Int) (hx : xs ≠ []) :
    ∃ a b, minMaxModel xs = some (a, b) ∧ a ∈ xs ∧ b ∈ xs ∧ ∀ y ∈ xs, a ≤ y ∧ y ≤ b := SecInt.minMax_correct xs hx
theorem min_max_empty : minModel [] = none ∧ maxModel [] = none ∧ minMaxModel [] = none :=
  ⟨SecInt.min_nil, SecInt.max_nil, SecInt.minMax_nil⟩

/-- **matrixProd_symmetric_index**: entry (i, j) read from the triangular array computed for `A·Aᵀ` equals the
full product entry -/
theorem matrixProd_symmetric_index (A : List (List Int)) (i j : Nat) (hi : i < A.length) (hj : j < A.length) :
    ((matrixProdSym A).getD i []).getD j 0 = dot (A.getD i []) (A.getD j []) :=
  SecInt.matrixProd_symmetric_index A i j hi hj
theorem matrixProdSym_eq (A : List (List Int)) : matrixProdSym A = matrixProd A A true :=
  SecInt.matrixProdSym_eq_matrixProd A
theorem matrixProd_entry (A B : List (List Int)) (tr : Bool) (i j : Nat) (hi : i < A.length)
    (hj : j < (if tr then B.length else (B.headD []).length)) :
    ((matrixProd A B tr).getD i []).getD j 0 = dot (A.getD i []) (if tr then B.getD j [] else colOf B j) :=
  SecInt.matrixProd_entry A B tr i j hi hj
example : matrixProdSym [[1, 2], [3, 4], [5, 6]] = [[5, 11, 17], [11, 25, 39], [17, 39, 61]] := by decide


/-! ### gcd family: Bernstein–Yang divsteps (integer level; the sub-protocols used inside — `%2` = lsb, `sgn` with
reduced bit length, `if_else`/`if_swap`, field division of an even number by 2, `gcp2` — are exact by the theorems
above resp. property C30) -/

/-- **divstep_invariant**: one iteration of the loop of `_gcd` keeps `f` odd and preserves `gcd(f, g)` -/
theorem divstep_invariant (l i : Nat) (s : GcdSt) (hf : s.f % 2 = 1) :
    (gcdStep l i s).f % 2 = 1 ∧ Int.gcd (gcdStep l i s).f (gcdStep l i s).g = Int.gcd s.f s.g :=
  SecInt.gcdStep_invariant l i s hf

/-- … and so does any number of iterations -/
theorem divsteps_invariant (l n i : Nat) (s : GcdSt) (hf : s.f % 2 = 1) :
    (gcdLoop l n i s).f % 2 = 1 ∧ Int.gcd (gcdLoop l n i s).f (gcdLoop l n i s).g = Int.gcd s.f s.g :=
  SecInt.gcdLoop_invariant l n i s hf

/-- **gcd_of_terminated**: if `g = 0` after the loop then `|f| = gcd` of the start values -/
theorem gcd_of_terminated (l n i : Nat) (st : GcdSt) (hf : st.f % 2 = 1) (hg : (gcdLoop l n i st).g = 0) :
    (gcdLoop l n i st).f.natAbs = Int.gcd st.f st.g := SecInt.gcd_of_terminated l n i st hf hg

/-- the power of two removed first: `gcp2I l a b = 2^t` with `t ≤ l` maximal such that `2^t` divides both -/
theorem gcp2_spec (l : Nat) (a b : Int) :
    gcp2Exp l 0 a b ≤ l ∧ (2 : Int) ^ gcp2Exp l 0 a b ∣ a ∧ (2 : Int) ^ gcp2Exp l 0 a b ∣ b ∧
    (gcp2Exp l 0 a b < l → ¬ ((2 : Int) ^ (gcp2Exp l 0 a b + 1) ∣ a ∧ (2 : Int) ^ (gcp2Exp l 0 a b + 1) ∣ b)) :=
  SecInt.gcp2I_spec l a b

/-- **gcd_partial**: `gcd(a, b)` is Python's `math.gcd` PROVIDED the loop has terminated (`g = 0` after
`_iterations(l)` divsteps).  Missing for a full proof: that `_iterations(l) = (49l+80)//17` resp. `(49l+57)//17`
divsteps always suffice for l-bit inputs (Bernstein–Yang 2019, Thm 11.2), and that the reduced-bit-length
comparisons inside the loop are in range. -/
theorem gcd_partial (l : Nat) (a b : Int)
    (ha : -(2 : Int) ^ l < a ∧ a < (2 : Int) ^ l) (hb : -(2 : Int) ^ l < b ∧ b < (2 : Int) ^ l)
    (hab : ¬ (a = 0 ∧ b = 0)) (hterm : SecInt.Terminates l a b) : gcdModel l a b = Int.gcd a b :=
  SecInt.gcd_partial l a b ha hb hab hterm
theorem gcd_zero_zero (l : Nat) : gcdModel l 0 0 = 0 := (SecInt.gcd_zero_zero l).1

/-- `lcm(a, b) = |a * (b / g)|` with `g = _gcd(a, b)` is Python's `math.lcm`, under the same termination hypothesis -/
theorem lcm_partial (l : Nat) (a b : Int)
    (ha : -(2 : Int) ^ l < a ∧ a < (2 : Int) ^ l) (hb : -(2 : Int) ^ l < b ∧ b < (2 : Int) ^ l)
    (hab : ¬ (a = 0 ∧ b = 0)) (hterm : SecInt.Terminates l a b) : lcmModel l a b = Int.lcm a b :=
  SecInt.lcm_partial l a b ha hb hab hterm

/-- Bézout bookkeeping of `_divsteps` (first argument odd): `f = u*a + v*b`, `gcd(f, g) = gcd(a, b)` throughout,
and `|f| = gcd(a, b)` once `g = 0` -/
theorem divsteps_bezout (l : Nat) (a b : Int) (ha : a % 2 = 1) :
    (∃ u, (divsteps l a b).f = u * a + (divsteps l a b).v * b) ∧ (divsteps l a b).f % 2 = 1 ∧
    Int.gcd (divsteps l a b).f (divsteps l a b).g = Int.gcd a b ∧
    ((divsteps l a b).g = 0 → (divsteps l a b).f.natAbs = Int.gcd a b) := SecInt.divsteps_bezout l a b ha

/-- `gcdext` under the termination hypothesis: `g = gcd(a, b) = s*a + t*b` -/
theorem gcdext_partial (l : Nat) (a b : Int)
    (ha : -(2 : Int) ^ l < a ∧ a < (2 : Int) ^ l) (hb : -(2 : Int) ^ l < b ∧ b < (2 : Int) ^ l)
    (hab : ¬ (a = 0 ∧ b = 0)) (hterm : SecInt.ExtTerminates l a b) :
    (gcdextModel l a b).1 = Int.gcd a b ∧
    (gcdextModel l a b).2.1 * a + (gcdextModel l a b).2.2 * b = (gcdextModel l a b).1 :=
  SecInt.gcdext_partial l a b ha hb hab hterm

/-- `inverse` under the termination hypothesis: `u * a ≡ 1 (mod b)`.  (That `0 ≤ u < b` after the two final
corrections needs `-2b ≤ u < 2b` before them: `SecInt.inverse_partial`, hypothesis `hrange`, validated only.) -/
theorem inverse_partial (l : Nat) (a b : Int) (hab : Int.gcd a b = 1) (hterm : SecInt.InvTerminates l a b) :
    (inverseModel l a b * a) % b = 1 % b := SecInt.inverse_congr_partial l a b hab hterm

/-- FINITE TABLE (kernel evaluation, `decide +kernel`, of the loop on all `(2^l+1)^2` input pairs for each
`l ≤ 5`): the termination hypothesis holds and every reduced-bit-length comparison is in range; hence for these
bit lengths gcd / gcdext / inverse are correct without hypothesis.  This is NOT a proof for all `l`. -/
theorem gcd_terminates_table (l : Nat) (hl : 1 ≤ l ∧ l ≤ 5) (a b : Int)
    (ha : -(2 : Int) ^ (l - 1) ≤ a ∧ a ≤ (2 : Int) ^ (l - 1))
    (hb : -(2 : Int) ^ (l - 1) ≤ b ∧ b ≤ (2 : Int) ^ (l - 1)) :
    (gcdRaw l a b).2.1 = 0 ∧ (gcdRaw l a b).2.2 = true := SecInt.gcd_terminates_small l hl a b ha hb
theorem gcd_correct_table (l : Nat) (hl : 1 ≤ l ∧ l ≤ 5) (a b : Int)
    (ha : -(2 : Int) ^ (l - 1) ≤ a ∧ a ≤ (2 : Int) ^ (l - 1))
    (hb : -(2 : Int) ^ (l - 1) ≤ b ∧ b ≤ (2 : Int) ^ (l - 1)) :
    gcdModel l a b = Int.gcd a b ∧
    ((gcdextModel l a b).1 = Int.gcd a b ∧
      (gcdextModel l a b).2.1 * a + (gcdextModel l a b).2.2 * b = (gcdextModel l a b).1) :=
  ⟨SecInt.gcd_correct_small l hl a b ha hb, SecInt.gcdext_correct_small l hl a b ha hb⟩

set_option maxRecDepth 8192 in
example : gcdModel 4 6 (-4) = 2 ∧ (gcdRaw 4 6 (-4)).2.1 = 0 ∧ gcdextModel 4 6 (-4) = (2, -1, -2) ∧
    inverseModel 4 3 7 = 5 := by decide

end MpycV.C01
