/-
C22 — field elements survive serialisation.

Model: `MpycV.PrimeF.toBytes/fromBytes/byteLength` ≙ `FiniteFieldElement.to_bytes/from_bytes`, `byte_length`
(the same code serves prime, extension and binary fields: only `order` differs; for extension fields the
values are `int(polynomial)`, see `ExtF.toInt/fromInt` in part 2), `signed/unsigned/toInt` ≙ `signed_/unsigned_/
__int__`, `reduce/rebuild` ≙ `__reduce__/createGF`.  All statements hold for every order and every list: no bounds.
-/
import MpycV.Lemmas.PrimeFBytes
import MpycV.Lemmas.ExtFBytes

namespace MpycV.C22
open MpycV.PrimeF

/-- ★ `from_bytes(to_bytes(xs)) = xs` for every list of reduced values of a field of order `q ≥ 1`
(byte_length = ⌈bit_length(q)/8⌉), the encoding never raises, and lengths multiply -/
theorem from_to_bytes (q : Nat) (hq : 0 < q) (xs : List Nat) (h : ∀ v ∈ xs, v < q) :
    ∃ bs, toBytes (byteLength q) (xs.map (fun v : Nat => (v : Int))) = .ok bs ∧
      bs.length = byteLength q * xs.length ∧ (∀ b ∈ bs, b < 256) ∧
      fromBytes (byteLength q) bs = .ok xs := by
  have hr : ∀ v ∈ xs, v < 256 ^ byteLength q := fun v hv => lt_pow_byteLength (h v hv)
  refine ⟨enc (byteLength q) xs, toBytes_ok _ xs hr, enc_length _ xs, ?_,
    fromBytes_enc _ (byteLength_pos hq) xs hr⟩
  intro b hb
  simp only [enc, List.mem_flatten, List.mem_map] at hb
  obtain ⟨l, ⟨v, _, rfl⟩, hbl⟩ := hb
  exact leBytes_lt _ v b hbl

example : toBytes (byteLength 257) [256, 1] = .ok [0, 1, 1, 0] ∧ fromBytes (byteLength 257) [0, 1, 1, 0] = .ok [256, 1] := by
  decide

/-- ★ the encoding is little-endian, fixed width: the `i`-th value occupies bytes `[i*r, (i+1)*r)` and equals
`Σ b_k 256^k` of them -/
theorem encoding_little_endian (r v : Nat) (hv : v < 256 ^ r) :
    toBytes r [(v : Int)] = .ok (leBytes r v) ∧ (leBytes r v).length = r ∧ ofLE (leBytes r v) = v ∧
    (∀ k, (leBytes (k + 1) v).head? = some (v % 256)) := by
  refine ⟨?_, leBytes_length r v, ofLE_leBytes r v hv, fun k => rfl⟩
  have := toBytes_ok r [v] (by simpa using hv)
  simpa [enc] using this

/-- ★ out-of-range values are rejected (OverflowError), they are never silently truncated -/
theorem to_bytes_overflow (r : Nat) (v : Int) (h : v < 0 ∨ (256 : Int) ^ r ≤ v) (xs : List Int) :
    toBytes r (v :: xs) = .error .overflow := by
  simp [toBytes, intToBytes_overflow r v h]

example : toBytes 1 [256] = .error .overflow ∧ toBytes 1 [-1] = .error .overflow := by decide

/-- the `bit_length` rule: one byte more than necessary only for `q = 256^k`; never too few -/
theorem byte_length_rule (q : Nat) (hq : 0 < q) :
    (∀ v < q, v < 256 ^ byteLength q) ∧ 0 < byteLength q ∧ 256 ^ (byteLength q - 1) ≤ q :=
  ⟨fun _ hv => lt_pow_byteLength hv, byteLength_pos hq, byteLength_tight hq⟩

example : byteLength 255 = 1 ∧ byteLength 256 = 2 ∧ byteLength 257 = 2 ∧ byteLength 2 = 1 := by decide

/-- ★ signed view: `signed_` is the representative in `(-p/2, p/2]`, congruent to the value; `unsigned_` is the
value; converting back gives the element -/
theorem signed_view (p a : Nat) (ha : a < p) :
    -(p : Int) < 2 * signed p a ∧ 2 * signed p a ≤ (p : Int) ∧
    ((signed p a - (a : Int)) % (p : Int) = 0) ∧ unsigned a = (a : Int) ∧
    mk p (signed p a) = a ∧ mk p (unsigned a) = a := by
  have hp : 0 < p := by omega
  refine ⟨(signed_range p a ha).1, (signed_range p a ha).2, ?_, rfl, mk_signed p a ha, pmod_of_lt ha⟩
  unfold signed
  split
  · have : ((a : Int) - p - a) = -(p : Int) := by ring
    rw [this]; simp
  · simp

/-- ★ `int(F(x)) = x` for every `x` in the canonical signed range `-p/2 < x ≤ p/2`, and for every `x` in `[0, p)`
in the unsigned view -/
theorem int_roundtrip (p : Nat) (x : Int) :
    (-(p : Int) < 2 * x → 2 * x ≤ (p : Int) → toInt p (mk p x) = x) ∧
    (0 ≤ x → x < (p : Int) → toInt p (mk p x) false = x) := by
  constructor
  · intro h1 h2; exact signed_mk p x h1 h2
  · intro h1 h2
    have hp : 0 < p := by omega
    show unsigned (pmod x p) = x
    unfold unsigned
    rw [pmod_coe p hp, Int.emod_eq_of_lt h1 h2]

example : toInt 7 (mk 7 (-3)) = -3 ∧ toInt 7 (mk 7 3) = 3 ∧ signed 7 4 = -3 ∧ toInt 2 1 = 1 := by decide

/-- ★ pickling: for every field made by `GF(p)` or `GF((p, n, w))` the `__reduce__` data rebuilds the SAME
field class (cache key) and the same value -/
theorem pickle_roundtrip (p : Nat) (hp : 0 < p) (n w : Int) (a : Nat) :
    rebuild (reduce (GFint p) a) = (GFint p, a) ∧ rebuild (reduce (GFtuple p n w) a) = (GFtuple p n w, a) := by
  constructor
  · unfold GFint
    split
    · rename_i h2; subst h2; rfl
    · simp only [rebuild, reduce, Fld.root, Prod.mk.injEq, Fld.mk.injEq, true_and, and_true]
      rw [pmod_coe p hp]
      exact Int.emod_eq_of_lt (by omega) (by omega)
  · simp only [rebuild, reduce, GFtuple, Fld.root, Prod.mk.injEq, Fld.mk.injEq, true_and, and_true]
    rw [pmod_of_lt (pmod_lt hp w)]

/-- the defect fixed in /repo by 92b1263, kept as a witness: a class made by calling `pGF(7, 2, 13)` directly
(root not canonical) is NOT rebuilt by its own `__reduce__` data; `GF((7, 2, 13))` now canonicalises -/
theorem pickle_raw_unreduced_root_differs :
    (rebuild (reduce ⟨7, 2, 13⟩ 3)).1 ≠ ⟨7, 2, 13⟩ ∧ GFtuple 7 2 13 = ⟨7, 2, 6⟩ := by decide

/-! # Part 2: extension and binary fields

`to_bytes` writes `int(value)` (`Σ cᵢ pⁱ`, resp. the bitmask) in `byte_length` little-endian bytes; the runtime rebuilds
elements with `F(int)`.  For every admissible modulus and every list of class-invariant values the round trip is the
identity. -/

section ext
open MpycV.ExtF MpycV.GFpX

/-- ★ extension fields: `[F(v) for v in from_bytes(to_bytes(values))] = values`, lengths multiply, no exception -/
theorem ext_from_to_bytes {p : ℕ} [Fact p.Prime] {m : Poly} (hm : IsModulus p m) (xs : List Poly)
    (h : ∀ a ∈ xs, Red p m a) :
    ∃ bs, ExtF.toBytes p m xs = .ok bs ∧ bs.length = ExtF.byteLength p m * xs.length ∧
      ExtF.fromBytes p m bs = .ok xs :=
  ExtF.from_to_bytes hm xs h

/-- ★ `int(a)` is a consistent representative: below the order, and `F(int(a)) = a` -/
theorem ext_int_view {p : ℕ} [Fact p.Prime] {m : Poly} (hm : IsModulus p m) {a : Poly} (ha : Red p m a) :
    ExtF.toInt p a < ExtF.order p m ∧ ExtF.ofInt p m ((ExtF.toInt p a : ℕ) : ℤ) = a :=
  ⟨toInt_lt_order hm ha, ofInt_toInt hm ha⟩

/-- pickling: `__reduce__` hands `(modulus, value)` to `createGF`/`xGF`, which is cached on the modulus VALUE: same class -/
theorem ext_pickle_roundtrip (p : ℕ) (m a : Poly) : ExtF.rebuild (ExtF.reduce p m a) = ((p, m), a) := rfl

example : ExtF.toBytes 3 [1, 0, 1] [[2, 1], [2, 2]] = .ok [5, 8] ∧
    ExtF.fromBytes 3 [1, 0, 1] [5, 8] = .ok [[2, 1], [2, 2]] := by decide +kernel

end ext

section bin
open MpycV.BinF

/-- ★ binary fields: byte round trip for every list of class-invariant values -/
theorem bin_from_to_bytes {m : ℕ} (xs : List ℕ) (h : ∀ a ∈ xs, BRed m a) :
    ∃ bs, BinF.toBytes m xs = .ok bs ∧ bs.length = BinF.byteLength m * xs.length ∧ BinF.fromBytes m bs = .ok xs :=
  BinF.from_to_bytes xs h

/-- GF(2^8) needs two bytes per element (`bit_length(256) = 9`) -/
example : BinF.byteLength 283 = 2 ∧ BinF.toBytes 283 [255, 1] = .ok [255, 0, 1, 0] ∧
    BinF.fromBytes 283 [255, 0, 1, 0] = .ok [255, 1] := by decide +kernel

end bin

end MpycV.C22
