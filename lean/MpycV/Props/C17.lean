/-
C17 — the PRF is deterministic and its outputs lie in range.

Model: `byteLength`, `prfPost`, `prfCallE`, `shapeCount` (Model/Thresha.lean ≙ thresha.py:220-266).
SHAKE-128 is a trusted parameter: `xof len` stands for `shake_128(key + s).digest(len)`; the only property
assumed of it is the XOF prefix property `XofPrefix`.
-/
import MpycV.Lemmas.ThreshaPrf

namespace MpycV.C17

open MpycV.Thresha

/-- a concrete "XOF" with the prefix property for the examples: prefixes of a fixed stream -/
def xof0 (len : ℕ) : List ℕ := (List.range len).map fun k => (37 * k + 11) % 256

lemma xof0_prefix : XofPrefix xof0 := by
  intro a b h
  simp [xof0, ← List.map_take, List.take_range, Nat.min_eq_left h]

/-- ★ `prf_range`: for every bound ≥ 1 every output lies in range(bound) -/
theorem prf_range (bound keyLen : ℕ) (digest : List ℕ) (n : ℕ) (hb : 1 ≤ bound) :
    ∀ x ∈ prfPost bound keyLen digest n, x < bound :=
  prfPost_lt bound keyLen digest n hb

example : ∀ x ∈ prfPost 100 16 (xof0 (3 * byteLength 100 16)) 3, x < 100 :=
  prf_range _ _ _ _ (by decide)

/-- ★ `prf_len`: a request for `n` values returns exactly `n` values -/
theorem prf_len (bound keyLen : ℕ) (digest : List ℕ) (n : ℕ) :
    (prfPost bound keyLen digest n).length = n :=
  length_prfPost bound keyLen digest n

example : (prfPost 100 16 (xof0 (7 * byteLength 100 16)) 7).length = 7 := prf_len _ _ _ _

/-- ★ `prf_len` for shapes: a shape `s` yields `prod s` values (which numpy reshapes in row-major order) -/
theorem prf_len_shape (bound keyLen : ℕ) (digest : List ℕ) (shape : List ℕ) :
    (prfPost bound keyLen digest (shapeCount shape)).length = shape.prod := by
  rw [length_prfPost, shapeCount_eq_prod]

example : (prfPost 3 16 (xof0 1000) (shapeCount [2, 3])).length = [2, 3].prod := prf_len_shape _ _ _ _

/-- for a valid bound the call never raises and returns the post-processed digest of the requested length -/
theorem prf_call_ok (bound keyLen : ℕ) (xof : ℕ → List ℕ) (n : Option ℕ) (hb : 1 ≤ bound) :
    prfCallE bound keyLen xof n
      = .ok (prfPost bound keyLen (xof (n.getD 1 * byteLength bound keyLen)) (n.getD 1)) :=
  prfCallE_ok bound keyLen xof n hb

example : prfCallE 100 16 xof0 (some 7)
    = .ok (prfPost 100 16 (xof0 (7 * byteLength 100 16)) 7) := prf_call_ok _ _ _ _ (by decide)

/-- bound 0: `% 0` raises ZeroDivisionError as soon as one value is requested; `n = 0` returns `[]` -/
theorem prf_call_bound_zero (keyLen : ℕ) (xof : ℕ → List ℕ) (n : Option ℕ) :
    prfCallE 0 keyLen xof n = if n.getD 1 = 0 then .ok [] else .error "ZeroDivisionError" := by
  unfold prfCallE
  by_cases h : n.getD 1 = 0
  · simp [h, prfPost]
  · simp [h]

example : prfCallE 0 16 xof0 none = .error "ZeroDivisionError" := by
  rw [prf_call_bound_zero]; rfl

/-- ★ determinism: the result depends on key, input and count only through the digest requested from the
XOF (a pure function of `key + s` and the length) -/
theorem prf_deterministic (bound keyLen : ℕ) (xof xof' : ℕ → List ℕ) (n : Option ℕ)
    (h : xof (n.getD 1 * byteLength bound keyLen) = xof' (n.getD 1 * byteLength bound keyLen)) :
    prfCallE bound keyLen xof n = prfCallE bound keyLen xof' n := by
  unfold prfCallE
  simp only []
  rw [h]

example : prfCallE 100 16 xof0 (some 2) = prfCallE 100 16 (fun len => xof0 len) (some 2) :=
  prf_deterministic _ _ _ _ _ rfl

/-- ★ `prf_prefix` (general): requesting fewer values yields a prefix of the longer answer -/
theorem prf_prefix_le (bound keyLen : ℕ) (xof : ℕ → List ℕ) (hx : XofPrefix xof) {n' n : ℕ}
    (hn : n' ≤ n) :
    prfPost bound keyLen (xof (n' * byteLength bound keyLen)) n'
      = (prfPost bound keyLen (xof (n * byteLength bound keyLen)) n).take n' :=
  prfPost_prefix bound keyLen xof hx hn

example : prfPost 100 16 (xof0 (2 * byteLength 100 16)) 2
    = (prfPost 100 16 (xof0 (7 * byteLength 100 16)) 7).take 2 :=
  prf_prefix_le _ _ _ xof0_prefix (by decide)

/-- ★ `prf_prefix`: the scalar call (`n = None`, result `x[0]`) equals element 0 of the `n`-call -/
theorem prf_prefix (bound keyLen : ℕ) (xof : ℕ → List ℕ) (hx : XofPrefix xof) (hb : 1 ≤ bound)
    {n : ℕ} (hn : 1 ≤ n) :
    ∃ l ln, prfCallE bound keyLen xof none = .ok l ∧ prfCallE bound keyLen xof (some n) = .ok ln ∧
      l.length = 1 ∧ l.head? = ln.head? := by
  refine ⟨_, _, prfCallE_ok bound keyLen xof none hb, prfCallE_ok bound keyLen xof (some n) hb, ?_, ?_⟩
  · simp [length_prfPost]
  · simp only [Option.getD_none, Option.getD_some]
    rw [prfPost_prefix bound keyLen xof hx hn]
    simp [List.head?_take]

example : ∃ l ln, prfCallE 100 16 xof0 none = .ok l ∧ prfCallE 100 16 xof0 (some 7) = .ok ln ∧
    l.length = 1 ∧ l.head? = ln.head? := prf_prefix _ _ _ xof0_prefix (by decide) (by decide)

/-- byte_length rule: bound 1 needs no bytes (all outputs 0) -/
theorem byteLength_one (keyLen : ℕ) : byteLength 1 keyLen = 0 := Thresha.byteLength_one keyLen

theorem prf_bound_one (keyLen : ℕ) (digest : List ℕ) (n : ℕ) :
    prfPost 1 keyLen digest n = List.replicate n 0 := by
  unfold prfPost
  by_cases hn : n = 0
  · simp [hn]
  · simp [hn, Thresha.byteLength_one]

example : prfPost 1 16 [] 3 = [0, 0, 0] := prf_bound_one _ _ _

/-- byte_length rule: powers of two get exactly ⌈e/8⌉ bytes, no extra bytes -/
theorem byteLength_two_pow (e keyLen : ℕ) : byteLength (2 ^ e) keyLen = (e + 7) / 8 :=
  Thresha.byteLength_two_pow e keyLen

example : byteLength (2 ^ 128) 16 = 16 := byteLength_two_pow 128 16

/-- byte_length rule: every other bound gets `len(key)` extra bytes -/
theorem byteLength_not_pow (bound keyLen : ℕ) (hb : 1 ≤ bound) (hnp : ∀ e, bound ≠ 2 ^ e) :
    byteLength bound keyLen = (bitLength (bound - 1) + 7) / 8 + keyLen :=
  Thresha.byteLength_not_pow bound keyLen hb hnp

example : byteLength 3 16 = (bitLength (3 - 1) + 7) / 8 + 16 := by decide

/-- the words are wide enough for every value of range(bound) to occur -/
theorem bound_le_words (bound keyLen : ℕ) : bound ≤ 256 ^ byteLength bound keyLen :=
  bound_le_pow_byteLength bound keyLen

example : 100 ≤ 256 ^ byteLength 100 16 := bound_le_words _ _

/-- powers of two divide the number of words: `% bound` of a uniform word is exactly uniform -/
theorem two_pow_dvd_words (e keyLen : ℕ) : 2 ^ e ∣ 256 ^ byteLength (2 ^ e) keyLen :=
  two_pow_dvd_pow_byteLength e keyLen

example : 2 ^ 16 ∣ 256 ^ byteLength (2 ^ 16) 16 := two_pow_dvd_words 16 16

/-- other bounds: `len(key)` spare bytes, i.e. bias at most `256^-len(key)` -/
theorem spare_bytes (bound keyLen : ℕ) (hb : 1 ≤ bound) (hnp : ∀ e, bound ≠ 2 ^ e) :
    bound * 256 ^ keyLen ≤ 256 ^ byteLength bound keyLen :=
  bound_mul_le_pow_byteLength bound keyLen hb hnp

end MpycV.C17
