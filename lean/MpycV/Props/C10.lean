/-
C10 — message framing tolerates any stream chunking and arrival order.
Property theorems only (helper lemmas are in MpycV.Lemmas.Frame).  Model: MpycV.Model.Frame,
a transcription of asyncoro.MessageExchanger.data_received / receive / send.
-/
import MpycV.Lemmas.Frame

namespace MpycV.C10
open MpycV.Frame

/-- General form: feeding `a ++ b` at once equals feeding `a`, then `b` — unless a duplicate-label
exception (`Event.dupError`, the code raises AttributeError out of `data_received`) occurred while
feeding `a`, in which case the loop was left and `b` just stays in the buffer. -/
theorem feed_append_gen (cfg : Cfg) (s : Parser) (a b : Bytes) :
    feed cfg s (a ++ b) =
      if hasErr (feed cfg s a).2 then
        ({ (feed cfg s a).1 with buf := (feed cfg s a).1.buf ++ b }, (feed cfg s a).2)
      else
        ((feed cfg (feed cfg s a).1 b).1, (feed cfg s a).2 ++ (feed cfg (feed cfg s a).1 b).2) := by
  cases hp : s.peer with
  | some p =>
    have hp1 : (feed cfg s a).1.peer = some p := by rw [feed_some cfg s a p hp]; exact hp
    rw [feed_some cfg s (a ++ b) p hp, feed_some cfg _ b p hp1, feed_some cfg s a p hp]
    simp only []
    rw [← List.append_assoc, parseFrames_append]
    unfold parseThen
    split <;> rename_i hE <;> simp [hE]
  | none =>
    by_cases hr : hsReady cfg (s.buf ++ a)
    · obtain ⟨hr', kl, t2, tk, td⟩ := hsReady_append cfg (s.buf ++ a) b hr
      rw [List.append_assoc] at hr' kl t2 tk td
      have hp1 : (feed cfg s a).1.peer = some (ofLe ((s.buf ++ a).take 2)) := by
        rw [feed_none_ready cfg s a hp hr]
      rw [feed_none_ready cfg s (a ++ b) hp hr', feed_some cfg _ b _ hp1, feed_none_ready cfg s a hp hr]
      simp only [kl, t2, tk, td]
      rw [parseFrames_append]
      unfold parseThen
      simp only [hasErr, List.any_cons, Event.isErr, Bool.false_or]
      split <;> rename_i hE <;> simp [hE]
    · have e1 := feed_none_wait cfg s a hp hr
      have hp1 : (feed cfg s a).1.peer = none := by rw [e1]; exact hp
      rw [e1]
      simp only [hasErr, List.any_nil, Bool.false_eq_true, if_false, List.nil_append]
      unfold feed
      simp only [hp, List.append_assoc]

/-- Feeding `a` and then `b` is the same as feeding `a ++ b` at once: same final parser state, same
events in the same order.  Hypothesis: no duplicate-label exception was raised while feeding `a`
(unique labels are property C09).  Covers the client side, the server side before, during and
after the handshake, and a cut at ANY byte position (inside the pid, the key block, a header, a
payload). -/
theorem feed_append (cfg : Cfg) (s : Parser) (a b : Bytes)
    (hne : hasErr (feed cfg s a).2 = false) :
    feed cfg s (a ++ b) =
      ((feed cfg (feed cfg s a).1 b).1, (feed cfg s a).2 ++ (feed cfg (feed cfg s a).1 b).2) := by
  rw [feed_append_gen, hne]; simp

/-- A parser state is settled when re-examining its buffer yields nothing new. Every state produced
by `feed` without exception is settled (`feed_settled`), and so are the initial states. -/
def Settled (cfg : Cfg) (s : Parser) : Prop := feed cfg s [] = (s, [])

theorem feed_settled (cfg : Cfg) (s : Parser) (a : Bytes) (hne : hasErr (feed cfg s a).2 = false) :
    Settled cfg (feed cfg s a).1 := by
  have h := feed_append cfg s a [] hne
  rw [List.append_nil] at h
  unfold Settled
  have h1 := congrArg Prod.fst h
  have h2 := congrArg Prod.snd h
  simp only at h1 h2
  have h3 : (feed cfg (feed cfg s a).1 []).2 = [] := by
    have := List.append_cancel_left (as := (feed cfg s a).2) (bs := (feed cfg (feed cfg s a).1 []).2) (cs := [])
    apply this; rw [List.append_nil]; exact h2.symm
  exact Prod.ext h1.symm h3

theorem init_settled (cfg : Cfg) : Settled cfg initServer ∧ ∀ p, Settled cfg (initClient p) := by
  constructor
  · simp [Settled, feed, initServer]
  · intro p; simp [Settled, feed, initClient, parseFrames]

/-- **Any chunking**: however the byte stream is cut into chunks (any number, any sizes, empty ones
included), the parser ends in the same state and has produced the same events as when the whole
stream arrives at once — as long as no duplicate-label exception occurs. -/
theorem any_chunking (cfg : Cfg) (s : Parser) (hs : Settled cfg s) (cs : List Bytes)
    (hne : hasErr (feed cfg s cs.flatten).2 = false) :
    feedAll cfg s cs = feed cfg s cs.flatten := by
  induction cs generalizing s with
  | nil => simp only [feedAll, List.flatten_nil]; exact hs.symm
  | cons c cs ih =>
    simp only [feedAll, List.flatten_cons]
    -- events of the first chunk are a prefix of all events: no exception there either
    have hsplit : ∀ (hne1 : hasErr (feed cfg s c).2 = false),
        feed cfg s (c ++ cs.flatten) =
          ((feed cfg (feed cfg s c).1 cs.flatten).1,
            (feed cfg s c).2 ++ (feed cfg (feed cfg s c).1 cs.flatten).2) :=
      fun hne1 => feed_append cfg s c cs.flatten hne1
    by_cases hne1 : hasErr (feed cfg s c).2 = false
    · have h := hsplit hne1
      rw [List.flatten_cons, h] at hne
      simp only [hasErr, List.any_append, Bool.or_eq_false_iff] at hne
      rw [ih _ (feed_settled cfg s c hne1) hne.2, h]
    · -- an exception in the first chunk shows up in the whole stream as well: contradiction
      exfalso
      apply hne1
      rw [List.flatten_cons, feed_append_gen] at hne
      cases hE : hasErr (feed cfg s c).2 with
      | false => rfl
      | true => rw [hE] at hne; simp only [if_true] at hne; rw [hE] at hne; exact absurd hne (by simp)

/-- **Round trip**: a connected endpoint with an empty byte buffer that is fed the encoding
(`struct.pack('<qI…')`) of any sequence of messages — labels in int64, payloads shorter than 2^32
bytes, empty payloads included — performs exactly the per-message `deliver` steps on exactly those
labels and payloads, in order, and ends with an empty byte buffer (when no duplicate-label exception
occurs, otherwise the unprocessed messages stay encoded in the buffer). -/
theorem frames_roundtrip (cfg : Cfg) (s : Parser) (p : Nat) (hp : s.peer = some p) (hb : s.buf = [])
    (msgs : List (Int × Bytes)) (hw : WFMsgs msgs) :
    feed cfg s (encodeAll msgs) =
      ({ s with buf := encodeAll (deliverAll s.buffers msgs).2.2,
                buffers := (deliverAll s.buffers msgs).1 },
       (deliverAll s.buffers msgs).2.1) := by
  rw [feed_some cfg s _ p hp, hb, List.nil_append, parseFrames_encodeAll _ _ hw]

/-- the labels and payloads delivered are exactly the ones sent (no exception case) -/
theorem framesOf_deliverAll (b : Buffers) (msgs : List (Int × Bytes))
    (hne : hasErr (deliverAll b msgs).2.1 = false) :
    framesOf (deliverAll b msgs).2.1 = msgs ∧ (deliverAll b msgs).2.2 = [] := by
  induction msgs generalizing b with
  | nil => simp [deliverAll, framesOf]
  | cons m ms ih =>
    obtain ⟨pc, pl⟩ := m
    simp only [deliverAll] at hne ⊢
    by_cases he : (deliver b pc pl).2.isErr
    · simp [he, hasErr] at hne
    · simp only [he, Bool.false_eq_true, if_false] at hne ⊢
      simp only [hasErr, List.any_cons, Bool.or_eq_false_iff] at hne
      have := ih _ hne.2
      have hd : framesOf ((deliver b pc pl).2 :: (deliverAll (deliver b pc pl).1 ms).2.1)
          = (pc, pl) :: framesOf (deliverAll (deliver b pc pl).1 ms).2.1 := by
        unfold deliver at he ⊢
        split <;> simp_all [framesOf, Event.isErr]
      rw [hd, this.1]
      exact ⟨rfl, this.2⟩

/-- **No partial frame, ever** (used by C36): after ANY prefix of the encoded stream (cut at any
byte), the frames delivered so far are a prefix of the frames sent, each with its exact payload. -/
theorem prefix_frames (cfg : Cfg) (s : Parser) (p : Nat) (hp : s.peer = some p) (hb : s.buf = [])
    (msgs : List (Int × Bytes)) (hw : WFMsgs msgs)
    (hne : hasErr (deliverAll s.buffers msgs).2.1 = false) (n : Nat) :
    framesOf (feed cfg s ((encodeAll msgs).take n)).2 <+: msgs := by
  have hall := frames_roundtrip cfg s p hp hb msgs hw
  have hsplit := feed_append_gen cfg s ((encodeAll msgs).take n) ((encodeAll msgs).drop n)
  rw [List.take_append_drop, hall] at hsplit
  by_cases hE : hasErr (feed cfg s ((encodeAll msgs).take n)).2
  · -- an exception in the prefix would be an exception of the whole run
    simp only [hE, if_true] at hsplit
    have := congrArg Prod.snd hsplit
    simp only at this
    rw [← this] at hE; rw [hE] at hne; exact absurd hne (by simp)
  · simp only [hE, Bool.false_eq_true, if_false] at hsplit
    have h2 := congrArg Prod.snd hsplit
    simp only at h2
    have hf := (framesOf_deliverAll s.buffers msgs hne).1
    rw [h2] at hf
    have happ : ∀ e1 e2, framesOf (e1 ++ e2) = framesOf e1 ++ framesOf e2 := by
      intro e1 e2
      induction e1 with
      | nil => rfl
      | cons e es ih => cases e <;> simp [framesOf, ih]
    rw [happ] at hf
    exact ⟨_, hf⟩

/-- **Arrival order does not matter**: for a label not yet in the buffers, calling `receive` before
the frame arrives (a Future is registered and later resolved with the payload) or after it arrived
(the stored payload is returned) binds the same payload and leaves the same buffers. -/
theorem receive_commutes (s : Parser) (pc : Int) (payload : Bytes) (f : Nat)
    (hfree : s.buffers.find? pc = none) :
    -- receive first, then the frame arrives
    (receive s pc f).2 = Recv.future f ∧
    (deliver (receive s pc f).1.buffers pc payload).2 = Event.resolved f pc payload ∧
    -- frame arrives first, then receive
    (deliver s.buffers pc payload).2 = Event.stored pc payload ∧
    (receive { s with buffers := (deliver s.buffers pc payload).1 } pc f).2 = Recv.payload payload ∧
    -- same final buffers (the label is gone, everything else untouched)
    (deliver (receive s pc f).1.buffers pc payload).1
      = (receive { s with buffers := (deliver s.buffers pc payload).1 } pc f).1.buffers ∧
    (deliver (receive s pc f).1.buffers pc payload).1 = s.buffers := by
  have hr : receive s pc f = ({ s with buffers := s.buffers.set pc (Slot.waiting f) }, Recv.future f) := by
    unfold receive; rw [hfree]
  have hd : deliver s.buffers pc payload = (s.buffers.set pc (Slot.payload payload), Event.stored pc payload) := by
    unfold deliver; rw [hfree]
  rw [hr, hd]
  simp only [deliver, receive, Buffers.find?_set_self, Buffers.erase_set,
    Buffers.erase_of_find?_none _ _ hfree]
  exact ⟨trivial, trivial, trivial, trivial, trivial, trivial⟩

/-! ### non-vacuity: the hypotheses are met by concrete non-trivial inputs -/

/-- a server with PRSS key blocks of 32 bytes fed pid 3, 32 key bytes and two frames (labels -5 and
2^40, payloads of 3 and 0 bytes), cut in the middle of the second header: no exception, and the
chunked run produces the handshake and both frames -/
example :
    let cfg : Cfg := { noPrss := false, keyLen := fun _ => 32 }
    let stream := [3, 0] ++ List.replicate 32 7 ++ encodeAll [(-5, [1, 2, 3]), (2 ^ 40, [])]
    hasErr (feed cfg initServer stream).2 = false ∧
    WFMsgs [(-5, [1, 2, 3]), (2 ^ 40, [])] ∧
    feedAll cfg initServer [stream.take 53, stream.drop 53] = feed cfg initServer stream ∧
    (feed cfg initServer stream).2 =
      [Event.handshake 3 (List.replicate 32 7), Event.stored (-5) [1, 2, 3], Event.stored (2 ^ 40) []] := by
  refine ⟨by decide +kernel, ?_, by decide +kernel, by decide +kernel⟩
  intro m hm
  simp only [List.mem_cons, List.mem_nil_iff, or_false] at hm
  rcases hm with rfl | rfl <;> decide

end MpycV.C10
