/-
C26 — generated field primes meet their size, Blum and root-of-unity constraints.
Model: MpycV.Model.PrimeRoot (`findPrimeRoot` ≙ finfields.find_prime_root, `pfield` ≙ sectypes._pfield).
All statements are relative to a primality oracle `isP` that is correct (`CorrectOracle`), as gmpy2.is_prime is
up to its Miller–Rabin error.
-/
import MpycV.Lemmas.NumThPrimeRoot4

namespace MpycV.C26
open MpycV.NumTh MpycV.PrimeRoot

/-- ★ l ≤ 2: the fixed answers (3, 2, 2) for Blum, (2, 1, 1) otherwise (n ≠ 1: AssertionError).  The requested n is
ignored in the Blum case; the returned triple is consistent: p = 3 has bit length 2 ≥ l, w = 2 has order 2. -/
theorem find_prime_root_small (isP : Int → Bool) (fuel : Nat) (l : Int) (blum : Bool) (n : Int) (hl : l ≤ 2) :
    findPrimeRoot isP fuel l blum n =
      if blum then .ok (3, 2, 2) else if n = 1 then .ok (2, 1, 1) else .error .assertionError :=
  findPrimeRoot_small isP fuel l blum n hl

example : findPrimeRoot (fun _ => false) 0 2 true 3 = .ok (3, 2, 2) := by
  rw [find_prime_root_small _ _ _ _ _ (by decide)]; rfl

/-- the l ≤ 2 triples satisfy the property: orders of w -/
theorem small_roots : orderOf (2 : ZMod 3) = 2 ∧ orderOf (1 : ZMod 2) = 1 := by
  constructor
  · have : Fact (Nat.Prime 2) := ⟨Nat.prime_two⟩
    exact orderOf_eq_prime (by decide) (by decide)
  · simp

/-- ★ l > 2, n ≤ 2: always succeeds; p is prime, 3 ≤ p < 2^l;
non-Blum: p is the largest prime below 2^l and has exactly l bits (2^(l-1) < p, Bertrand);
Blum: p ≡ 3 mod 4 and p is the largest such prime below 2^l (so it has exactly l bits iff a Blum prime with l
bits exists — `BlumPrimeWithBits`, see `n_le_2_bits`); w = p - 1 for n = 2 (order 2), w = 1 otherwise. -/
theorem n_le_2 (isP : Int → Bool) (hP : CorrectOracle isP) (fuel : Nat) (l : Int) (blum : Bool)
    (n : Int) (hl : 2 < l) (hn : n ≤ 2) :
    ∃ p : Int, findPrimeRoot isP fuel l blum n = .ok (p, n, if n = 2 then p - 1 else 1) ∧
      Nat.Prime p.toNat ∧ 3 ≤ p ∧ p < 2 ^ l.toNat ∧
      (blum = false → 2 ^ (l.toNat - 1) < p ∧ ∀ q : Int, Nat.Prime q.toNat → q < 2 ^ l.toNat → q ≤ p) ∧
      (blum = true → p % 4 = 3 ∧ ∀ q : Int, Nat.Prime q.toNat → q % 4 = 3 → q < 2 ^ l.toNat → q ≤ p) :=
  findPrimeRoot_le2 isP hP fuel l blum n hl hn

example : ∃ p : Int, findPrimeRoot (fun y => decide (Nat.Prime y.toNat)) 0 10 true 2 = .ok (p, 2, p - 1) ∧
    p % 4 = 3 := by
  obtain ⟨p, h1, _, _, _, _, h6⟩ :=
    n_le_2 (fun y => decide (Nat.Prime y.toNat)) (fun y => by simp) 0 10 true 2 (by decide) (by decide)
  exact ⟨p, by simpa using h1, (h6 rfl).1⟩

/-- Blum, n ≤ 2: exactly l bits under the (Breusch-type, unproved) existence hypothesis -/
theorem n_le_2_bits (isP : Int → Bool) (hP : CorrectOracle isP) (fuel : Nat) (l n : Int) (hl : 2 < l) (hn : n ≤ 2)
    (hB : BlumPrimeWithBits l.toNat) (p n' w : Int) (h : findPrimeRoot isP fuel l true n = .ok (p, n', w)) :
    2 ^ (l.toNat - 1) < p ∧ p < 2 ^ l.toNat := by
  obtain ⟨p2, h1, _, _, h4, _, h6⟩ := findPrimeRoot_le2 isP hP fuel l true n hl hn
  rw [h1] at h
  simp only [Except.ok.injEq, Prod.mk.injEq] at h
  obtain ⟨rfl, _, _⟩ := h
  obtain ⟨q, hq1, hq2, hq3, hq4⟩ := hB
  have hq4' : (q : Int) < 2 ^ l.toNat := by exact_mod_cast hq4
  have := (h6 rfl).2 q (by simpa using hq1) (by omega) hq4'
  have hq3' : ((2 ^ (l.toNat - 1) : Nat) : Int) < q := by exact_mod_cast hq3
  push_cast at hq3'
  exact ⟨by omega, h4⟩

example : BlumPrimeWithBits 10 := ⟨1019, by norm_num, by decide, by decide, by decide⟩

/-- the order-2 root of the n = 2 case: (p-1)² ≡ 1 and p - 1 ≢ 1 (mod p) for p ≥ 3 -/
theorem root_of_minus_one (p : Int) (hp : 3 ≤ p) : (p - 1) ^ 2 % p = 1 ∧ (p - 1) % p ≠ 1 := by
  constructor
  · have : (p - 1) ^ 2 = 1 + p * (p - 2) := by ring
    rw [this, Int.add_mul_emod_self_left]; exact Int.emod_eq_of_lt (by omega) (by omega)
  · rw [Int.emod_eq_of_lt (by omega) (by omega)]; omega

example : ((7 : Int) - 1) ^ 2 % 7 = 1 := (root_of_minus_one 7 (by decide)).1

/-- ★ l > 2, n > 2 (requires blum, else AssertionError): any returned (p, n', w) has
n' = least prime ≥ n, p prime, p ≡ 3 mod 4, p ≡ 1 mod n', p > 2^(l-1) (bit length ≥ l), 0 < w < p, w ≠ 1,
w^n' ≡ 1 and the multiplicative order of w modulo p is exactly n'.
(Termination of the search `p += 4n` is Dirichlet's theorem without an effective bound: the model takes fuel.) -/
theorem n_gt_2 (isP : Int → Bool) (hP : CorrectOracle isP) (fuel : Nat) (l : Int) (blum : Bool)
    (n : Int) (hl : 2 < l) (hn : 2 < n) :
    (blum = false → findPrimeRoot isP fuel l blum n = .error .assertionError) ∧
    (∀ p n' w, findPrimeRoot isP fuel l blum n = .ok (p, n', w) → RootSpec l n p n' w) :=
  findPrimeRoot_gt2 isP hP fuel l blum n hl hn

/-- ★ the arithmetic core: p = 1 + 2n(3 + 2k) + 4nj with n odd > 1 is ≡ 3 mod 4 and ≡ 1 mod n, and exceeds
4·X when k = ⌊X/n⌋ -/
theorem n_gt_2_arith (n X j : Int) (hn : n % 2 = 1) (hn1 : 1 < n) (hj : 0 ≤ j) :
    let p := 1 + 2 * n * (3 + 2 * (X / n)) + 4 * n * j
    p % 4 = 3 ∧ p % n = 1 ∧ 4 * X < p :=
  ⟨(blum_form n (X / n) j hn hn1).1, (blum_form n (X / n) j hn hn1).2, blum_form_lower n X j (by omega) hj⟩

example : (1 + 2 * 3 * (3 + 2 * ((2 : Int) ^ 7 / 3)) + 4 * 3 * 0 : Int) = 523 := by decide

/-- ★ secure-type field choice, p = None: `_pfield` calls find_prime_root(l+f+k+2, n=n) (Blum).  A returned modulus
is prime, ≡ 3 mod 4, larger than the number of parties whenever threshold ≠ 0 (the assert), and larger than
2^(l+f+k+1) — unconditionally for l+f+k+2 ≤ 2 and for n > 2, and for n ≤ 2 (the default n = 2 of SecInt/SecFxp)
under `BlumPrimeWithBits (l+f+k+2)`. -/
theorem pfield_large (isP : Int → Bool) (hP : CorrectOracle isP) (fuel : Nat) (l f k n : Int) (m t : Nat)
    (p : Int) (h : pfield isP fuel l f k none n m t = .ok p) :
    Nat.Prime p.toNat ∧ p % 4 = 3 ∧ (t ≠ 0 → (m : Int) < p) ∧
    ((l + f + k + 2 ≤ 2 ∨ 2 < n ∨ BlumPrimeWithBits (l + f + k + 2).toNat) →
      2 ^ (l + f + k + 1).toNat < p) :=
  pfield_none isP hP fuel l f k n m t p h

/-- ★ explicit modulus: rejected with ValueError iff bit_length ≤ l+f+k+1 (or not prime); otherwise accepted
iff threshold = 0 or m < p (else AssertionError) -/
theorem pfield_explicit (isP : Int → Bool) (fuel : Nat) (l f k n : Int) (m t : Nat) (p : Int) :
    ((bitLength p : Int) ≤ l + f + k + 1 → pfield isP fuel l f k (some p) n m t = .error .valueError) ∧
    (l + f + k + 1 < (bitLength p : Int) →
      pfield isP fuel l f k (some p) n m t =
        if isP p = false then .error .valueError
        else if t = 0 ∨ (m : Int) < p then .ok p else .error .assertionError) :=
  pfield_some isP fuel l f k n m t p

/-- an accepted explicit modulus p > 0 passed the primality test and is ≥ 2^(l+f+k+1) (> for odd p) -/
theorem pfield_explicit_large (isP : Int → Bool) (fuel : Nat) (l f k n : Int) (m t : Nat) (p p' : Int)
    (hpos : 0 < p) (h : pfield isP fuel l f k (some p) n m t = .ok p') :
    p' = p ∧ isP p = true ∧ 2 ^ (l + f + k + 1).toNat ≤ p ∧ (t ≠ 0 → (m : Int) < p) :=
  pfield_some_large isP fuel l f k n m t p p' hpos h

example : (bitLength 127 : Int) ≤ 8 + 0 + 30 + 1 := by decide

end MpycV.C26
