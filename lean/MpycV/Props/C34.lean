/-
C34 — secure statistics (mpyc/statistics.py) agree with Python's `statistics` module.

Model: `MpycV.Model.Stats` (value layer; secure integers are `Int`, secure fixed-point numbers their scaled
integers).  Python's `statistics` computes exact rational values (`mean`, `variance`, `pvariance`,
`covariance` use `Fraction` arithmetic); the secure-integer versions return these values rounded half up,
`⌊v + 1/2⌋` — stated over ℚ with `Int.floor`.  `List.sum` is the exact sum, `(isort x)[k]` the k-th
smallest element (`isort_sorted`, `isort_perm`).
-/
import MpycV.Lemmas.Stats
import MpycV.Model.Fxp
import MpycV.Lemmas.StatsSqrt
import MpycV.Lemmas.StatsSort
import MpycV.Lemmas.StatsReal
import MpycV.Lemmas.StatsQuant
import MpycV.Lemmas.StatsMode
import MpycV.Lemmas.StatsQS

namespace MpycV.C34
open MpycV.Stats

/-! ### 1. mean -/

/-- `mean` on secure integers = Python's exact mean `Σx / n`, rounded half up. -/
theorem mean_int (x : List Int) (hx : x ≠ []) :
    meanInt x = .ok ⌊((x.sum : Int) : ℚ) / ((x.length : Int) : ℚ) + 1 / 2⌋ := by
  rw [meanInt_eq x hx, div_round_half_up]
  have : x.length ≠ 0 := by simpa using hx
  omega

example : meanInt [1, 2, 4] = .ok 2 ∧ ⌊(([1, 2, 4] : List Int).sum : ℚ) / (([1, 2, 4] : List Int).length : Int) + 1 / 2⌋ = 2 := by
  constructor
  · decide
  · rw [Int.floor_eq_iff]; norm_num

/-- the returned integer is a nearest integer to the exact mean: `|n·m − Σx| ≤ n/2`. -/
theorem mean_int_nearest (x : List Int) (hx : x ≠ []) :
    ∃ m, meanInt x = .ok m ∧ 2 * |(x.length : Int) * m - x.sum| ≤ x.length := by
  refine ⟨_, meanInt_eq x hx, ?_⟩
  apply div_round_nearest
  have : x.length ≠ 0 := by simpa using hx
  omega

example : meanInt [1, 2, 4, -9] = .ok 0 := by decide   -- exact mean -1/2 rounds (half up) to 0

/-- `StatisticsError` on empty data. -/
theorem mean_int_empty : meanInt [] = .error "StatisticsError" := rfl

/-! ### 2. variance, pvariance, covariance -/

/-- `variance` (c = 1) / `pvariance` (c = 0) without given mean: Python's exact value
`Σ (xᵢ − μ)² / (n − c)`, `μ = Σx / n`, rounded half up.  (Holds for every correction `c < n`.) -/
theorem variance_int (x : List Int) (c : Nat) (hn : 1 + c ≤ x.length) :
    varInt x none c = .ok
      ⌊(x.map (fun (a : Int) => ((a : ℚ) - (x.sum : ℚ) / (x.length : ℚ)) ^ 2)).sum / ((x.length : ℚ) - (c : ℚ)) + 1 / 2⌋ := by
  have hn0 : (0 : Int) < x.length := by omega
  have hd : (0 : Int) < (x.length : Int) - c := by omega
  have hnq : ((x.length : Int) : ℚ) ≠ 0 := by exact_mod_cast (ne_of_gt hn0)
  have hdq : ((x.length : ℚ) - (c : ℚ)) ≠ 0 := by
    have : (((x.length : Int) - (c : Int) : Int) : ℚ) ≠ 0 := by exact_mod_cast (ne_of_gt hd)
    push_cast at this; exact this
  rw [varInt_none_eq x c hn, div_round_half_up _ _ (Int.mul_pos (by positivity) hd)]
  congr 2
  rw [cast_inProd_map]
  push_cast
  rw [sum_sq_scale x _ _ (by exact_mod_cast hnq)]
  have hnq' : (x.length : ℚ) ≠ 0 := by exact_mod_cast hnq
  field_simp

example : varInt [1, 2, 4, 9] none 1 = .ok 13 ∧ varInt [1, 2, 4, 9] none 0 = .ok 10 := by decide

/-- with a given (integer) mean `μ`: `Σ (xᵢ − μ)² / (n − c)` rounded half up (second moment around `μ`). -/
theorem variance_int_given_mean (x : List Int) (μ : Int) (c : Nat) (hn : 1 + c ≤ x.length) :
    varInt x (some μ) c = .ok
      ⌊(x.map (fun (a : Int) => ((a : ℚ) - (μ : ℚ)) ^ 2)).sum / ((x.length : ℚ) - (c : ℚ)) + 1 / 2⌋ := by
  have hd : (0 : Int) < (x.length : Int) - c := by omega
  rw [varInt_some_eq x μ c hn, div_round_half_up _ _ hd]
  congr 2
  rw [cast_inProd_map]
  push_cast
  congr 3
  apply List.map_congr_left
  intro a _; ring

example : varInt [1, 2, 4, 9] (some 4) 1 = .ok 13 := by decide

/-- fewer than `1 + correction` data points: `StatisticsError` (variance needs 2, pvariance 1). -/
theorem variance_int_error (x : List Int) (m : Option Int) (c : Nat) (hn : x.length < 1 + c) :
    varInt x m c = .error "StatisticsError" := varInt_error x m c hn

example : varInt [5] none 1 = .error "StatisticsError" ∧ varInt [] (some 0) 0 = .error "StatisticsError" := by decide

/-- `covariance` on secure integers: Python's exact `Σ (xᵢ − x̄)(yᵢ − ȳ) / (n − 1)` rounded half up. -/
theorem covariance_int (x y : List Int) (hlen : y.length = x.length) (hn : 2 ≤ x.length) :
    covInt x y = .ok
      ⌊(List.zipWith (fun (a b : Int) => ((a : ℚ) - (x.sum : ℚ) / (x.length : ℚ)) * ((b : ℚ) - (y.sum : ℚ) / (x.length : ℚ))) x y).sum
          / ((x.length : ℚ) - 1) + 1 / 2⌋ := by
  have hn0 : (0 : Int) < x.length := by omega
  have hd : (0 : Int) < (x.length : Int) - 1 := by omega
  have hnq : (x.length : ℚ) ≠ 0 := by exact_mod_cast (ne_of_gt hn0)
  have hdq : ((x.length : ℚ) - 1) ≠ 0 := by
    have : (((x.length : Int) - 1 : Int) : ℚ) ≠ 0 := by exact_mod_cast (ne_of_gt hd)
    push_cast at this; exact this
  rw [covInt_eq x y hlen hn, div_round_half_up _ _ (Int.mul_pos (by positivity) hd)]
  congr 2
  rw [cast_inProd_map₂]
  push_cast
  rw [sum_prod_scale x y _ _ _ hnq]
  field_simp

example : covInt [1, 2, 4, 9] [2, 0, 5, 7] = .ok 10 := by decide

theorem covariance_int_length_error (x y : List Int) (hlen : y.length ≠ x.length) :
    covInt x y = .error "StatisticsError" := by
  simp [covInt, hlen]

theorem covariance_int_short_error (x y : List Int) (hn : x.length < 2) :
    covInt x y = .error "StatisticsError" := by
  unfold covInt
  simp only []
  by_cases h : y.length ≠ x.length
  · simp [h]
  · simp [h, hn]

example : covInt [1, 2] [3] = .error "StatisticsError" ∧ covInt [1] [3] = .error "StatisticsError" := by decide

/-! ### 3. integer square root, stdev / pstdev -/

/-- `_isqrt(a) = ⌊√a⌋` for every `0 ≤ a < 4^(e+1)`, `e = (l−1)//2`. -/
theorem isqrt_spec (l : Nat) (a : Int) (h0 : 0 ≤ a) (hlt : a < 2 ^ (2 * ((l - 1) / 2 + 1))) :
    0 ≤ isqrt l a ∧ isqrt l a * isqrt l a ≤ a ∧ a < (isqrt l a + 1) * (isqrt l a + 1) :=
  isqrt_isIsqrt l a h0 hlt

example : isqrt 8 200 = 14 ∧ isqrt 8 255 = 15 ∧ isqrt 8 0 = 0 := by decide

/-- in particular for all nonnegative values of an `l`-bit secure integer type. -/
theorem isqrt_spec_range (l : Nat) (a : Int) (h0 : 0 ≤ a) (hlt : a < 2 ^ (l - 1)) :
    0 ≤ isqrt l a ∧ isqrt l a * isqrt l a ≤ a ∧ a < (isqrt l a + 1) * (isqrt l a + 1) :=
  isqrt_spec l a h0 (lt_of_lt_of_le hlt (two_pow_le_isqrt_range l))

example : (0 : Int) ≤ 100 ∧ (100 : Int) < 2 ^ (8 - 1) ∧ isqrt 8 100 = 10 := by decide

/-- `stdev`/`pstdev` on secure integers: `_isqrt` of the (rounded) variance; errors are those of `_var`. -/
theorem std_int (l : Nat) (x : List Int) (m : Option Int) (c : Nat) :
    stdInt l x m c = (varInt x m c).map (isqrt l) := by
  unfold stdInt; cases varInt x m c <;> rfl

/-- … hence `⌊√v⌋` of the variance value `v` whenever `v` fits the type. -/
theorem std_int_spec (l : Nat) (x : List Int) (m : Option Int) (c : Nat) (v : Int)
    (hv : varInt x m c = .ok v) (hlt : v < 2 ^ (l - 1)) :
    ∃ r, stdInt l x m c = .ok r ∧ 0 ≤ r ∧ r * r ≤ v ∧ v < (r + 1) * (r + 1) := by
  refine ⟨isqrt l v, ?_, isqrt_spec_range l v (varInt_nonneg x m c hv) hlt⟩
  rw [std_int, hv]; rfl

example : stdInt 8 [1, 2, 4, 9] none 1 = .ok 3 ∧ stdInt 8 [5] none 1 = .error "StatisticsError" := by decide

/-! ### 4. fixed-point square root -/

/-- `_fsqrt(a)` on scaled integers (`a = A·2^f ≥ 0`, result `r = R·2^f`), for ANY rounding bits of the
`e+1` fixed-point products: `a·2^f ≤ (r+1)²` and `r² < (a+1)·2^f`, i.e. `√A − 2^-f ≤ R < √(A + 2^-f)`. -/
theorem fsqrt_bracket (l f : Nat) (a : Int) (eps : List Bool) (hl : 1 ≤ l)
    (hlen : eps.length = (l + f - 1) / 2 + 1) (h0 : 0 ≤ a) (hlt : a < 2 ^ (l - 1)) :
    0 ≤ fsqrt l f a eps ∧ fsqrt l f a eps * fsqrt l f a eps < (a + 1) * 2 ^ f ∧
      a * 2 ^ f ≤ (fsqrt l f a eps + 1) * (fsqrt l f a eps + 1) :=
  fsqrt_spec l f a eps hlen h0 (fsqrt_range l f a hlt hl)

-- l = 8, f = 4: a = 2.0 (scaled 32); √2·16 = 22.6; all-zero rounding bits give 22, all-one give 22
example : fsqrt 8 4 32 [false, false, false, false, false, false] = 22 ∧
    fsqrt 8 4 32 [true, true, true, true, true, true] = 22 ∧
    fsqrt 8 4 36 [false, false, false, false, false, false] = 24 ∧
    fsqrt 8 4 36 [true, true, true, true, true, true] = 23 := by decide

/-! ### 5. median -/

theorem median_index_odd (n : Nat) (h : n % 2 = 1) : (n - 1) / 2 = n / 2 := by omega

theorem median_index_even_low (n : Nat) (_h : n % 2 = 0) (_h2 : 2 ≤ n) : (n - 2) / 2 = n / 2 - 1 := by omega

example : (7 - 1) / 2 = 7 / 2 ∧ (8 - 2) / 2 = 8 / 2 - 1 := by decide

/-- the order statistics `_med` requests are CPython's indices `n//2` (odd), `n//2 − 1` / `n//2` (even). -/
theorem medKs_eq (n : Nat) (med : Med) :
    medKs n med = if n % 2 = 1 then [n / 2] else
      match med with
      | .low => [n / 2 - 1]
      | .high => [n / 2]
      | .mid => [n / 2 - 1, n / 2] := medKs_eq' n med

example : medKs 6 .mid = [2, 3] ∧ medKs 7 .mid = [3] := by decide

/-- CPython's `median_low` / `median_high` / `median` on the sorted data `s`; for even `n`, `median`
returns `(s[n/2−1] + s[n/2]) / 2` exactly, the secure-integer version its floor. -/
def medianPy (s : List Int) (med : Med) : Int :=
  let n := s.length
  if n % 2 = 1 then s.getD (n / 2) 0 else
    match med with
    | .low => s.getD (n / 2 - 1) 0
    | .high => s.getD (n / 2) 0
    | .mid => ⌊((s.getD (n / 2 - 1) 0 + s.getD (n / 2) 0 : Int) : ℚ) / 2⌋

/-- if `_quickselect` returns the requested order statistics then `median*` returns CPython's value. -/
theorem median_int (x : List Int) (med : Med) (rounds rest : List Round) (w : List Int) (hx : x ≠ [])
    (h : quickselect x.length x (medKs x.length med) rounds = .ok (w, rest))
    (hw : w = (medKs x.length med).map (fun k => (isort x).getD k 0)) :
    medInt x med rounds = .ok (medianPy (isort x) med, rest) := by
  subst hw
  have hn0 : x.length ≠ 0 := by simpa using hx
  unfold medInt medianPy
  simp only [hn0, if_false, h, length_isort]
  by_cases hodd : x.length % 2 = 1
  · simp only [hodd, if_true, medKs, List.map_cons, List.map_nil, List.getD_cons_zero]
    rw [median_index_odd _ hodd]
  · have heven : x.length % 2 = 0 := by omega
    have h2 : 2 ≤ x.length := by omega
    cases med
    · simp only [hodd, if_false, medKs, List.map_cons, List.map_nil, isum_eq_sum, List.sum_cons, List.sum_nil,
        add_zero]
      rw [median_index_even_low _ heven h2]
      congr 2
      have := Rat.floor_intCast_div_natCast ((isort x).getD (x.length / 2 - 1) 0 + (isort x).getD (x.length / 2) 0) 2
      rw [Nat.cast_ofNat] at this
      rw [this]; rfl
    · simp only [hodd, if_false, medKs, List.map_cons, List.map_nil, List.getD_cons_zero]
      rw [median_index_even_low _ heven h2]
    · simp only [hodd, if_false, medKs, List.map_cons, List.map_nil, List.getD_cons_zero]

theorem median_int_empty (med : Med) (rounds : List Round) : medInt [] med rounds = .error "StatisticsError" := rfl


/-! ### 6. quantiles -/

/-- inclusive method: `(j, delta) = divmod(i*(ld-1), n)` as in CPython -/
theorem cutIndex_inclusive (ld n i : Nat) (hn : 1 ≤ n) {j : Nat} {delta : Int}
    (h : cutIndex ld n .inclusive i = (j, delta)) :
    (j : Int) * n + delta = ((i * (ld - 1) : Nat) : Int) ∧ 0 ≤ delta ∧ delta < n :=
  cutIndex_inclusive_divmod ld n i hn h

/-- exclusive method: `j = i*(ld+1) // n` clamped to `1 .. ld-1`, `delta = i*(ld+1) - j*n` as in CPython -/
theorem cutIndex_exclusive (ld n i : Nat) (hld : 2 ≤ ld) :
    cutIndex ld n .exclusive i =
      (max 1 (min (ld - 1) (i * (ld + 1) / n)),
        ((i * (ld + 1) : Nat) : Int) - ((max 1 (min (ld - 1) (i * (ld + 1) / n)) * n : Nat) : Int)) :=
  MpycV.Stats.cutIndex_exclusive ld n i hld

example : cutIndex 7 4 .inclusive 3 = (4, 2) ∧ cutIndex 7 4 .exclusive 3 = (6, 0) ∧
    cutIndex 2 10 .exclusive 1 = (1, -7) := by decide

/-- every index a cut point reads was requested from `_quickselect` and is `< ld`: no KeyError, no IndexError -/
theorem quantile_keys_cover (ld n : Nat) (method : Method) (i : Nat) (hld : 2 ≤ ld) (hi1 : 1 ≤ i) (hin : i < n) :
    ∀ k ∈ readKeys ld n method i, k ∈ quantileKs ld n method ∧ k < ld :=
  MpycV.Stats.quantile_keys_cover ld n method i hld hi1 hin

/-- the requested order statistics are strictly increasing (needed: `_quickselect` returns the left part's
results before the right part's) -/
theorem quantileKs_sorted (ld n : Nat) (method : Method) (hld : 2 ≤ ld) (hn : 1 ≤ n) :
    (quantileKs ld n method).Pairwise (· < ·) :=
  MpycV.Stats.quantileKs_sorted ld n method hld hn

example : quantileKs 9 4 .inclusive = [2, 4, 6] ∧ quantileKs 5 4 .exclusive = [0, 1, 2, 3, 4] ∧
    readKeys 5 4 .exclusive 2 = [2] := by decide

/-- a cut point on secure integers is CPython's interpolation `(d[j]·(n−δ) + d[j+1]·δ)/n` rounded half up -/
theorem cut_point_int_inclusive (ld n : Nat) (data : Nat → Int) (i : Nat) (hn : 1 ≤ n)
    {j : Nat} {delta : Int} (h : cutIndex ld n .inclusive i = (j, delta)) :
    cutPoint ld n .inclusive data i =
      ⌊((data j : ℚ) * ((n : ℚ) - (delta : ℚ)) + (data (j + 1) : ℚ) * (delta : ℚ)) / (n : ℚ) + 1 / 2⌋ :=
  MpycV.Stats.cut_point_int_inclusive ld n data i hn h

/-- exclusive method: `(d[j−1]·(n−δ) + d[j]·δ)/n` rounded half up (also for δ < 0 or δ > n at the clamped ends) -/
theorem cut_point_int_exclusive (ld n : Nat) (data : Nat → Int) (i : Nat) (hn : 1 ≤ n)
    {j : Nat} {delta : Int} (h : cutIndex ld n .exclusive i = (j, delta)) :
    cutPoint ld n .exclusive data i =
      ⌊((data (j - 1) : ℚ) * ((n : ℚ) - (delta : ℚ)) + (data j : ℚ) * (delta : ℚ)) / (n : ℚ) + 1 / 2⌋ :=
  MpycV.Stats.cut_point_int_exclusive ld n data i hn h

/-- `quantiles` on secure integers: whenever the run finishes, the result is the list of cut points computed
from the SORTED data (for every choice of pivots and tie-breaking bits) -/
theorem quantiles_int (x : List Int) (n : Nat) (method : Method) (rounds rest : List Round) (r : List Int)
    (hn : 1 ≤ n) (hld : 2 ≤ x.length) (hties : ∀ rd ∈ rounds, x.length ≤ rd.ties.length)
    (h : quantilesInt x n method rounds = .ok (r, rest)) :
    r = (List.range (n - 1)).map (fun i0 => cutPoint x.length n method (fun k => (isort x).getD k 0) (i0 + 1)) := by
  cases hq : quickselect x.length x (quantileKs x.length n method) rounds with
  | error e =>
    rw [quantilesInt_error_of_quickselect x n method rounds hn hld e hq] at h
    cases h
  | ok p =>
    obtain ⟨w, rest'⟩ := p
    have hw := quickselect_spec' x _ rounds (MpycV.Stats.quantileKs_sorted _ n method hld hn)
      (quantileKs_lt _ n method hld) hties hq
    subst hw
    rw [quantilesInt_ok x n method rounds rest' hn hld hq] at h
    injection h with h
    exact (Prod.mk.inj h).1.symm

example : quantilesInt [5, 1, 4, 2, 3] 4 .exclusive [] = .ok ([2, 3, 5], []) := by decide

theorem quantiles_errors (x : List Int) (n : Nat) (method : Method) (rounds : List Round) :
    (n < 1 → quantilesInt x n method rounds = .error "StatisticsError") ∧
    (x.length < 2 → quantilesInt x n method rounds = .error "StatisticsError") :=
  ⟨quantilesInt_error_n x n method rounds, quantilesInt_error_len x n method rounds⟩

/-! ### 7. mode -/

/-- `mode` (as implemented after the fix): the FIRST data point of maximal frequency, like `statistics.mode` -/
theorem mode_spec (l priv : Nat) (x : List Int) (hx : x ≠ []) (hrange : listMax x - listMin x < 2 ^ l) :
    ∃ v, modeInt l priv x = .ok v ∧ v ∈ x ∧ (∀ b ∈ x, x.count b ≤ x.count v) ∧
      (∀ i, i < x.idxOf v → ∀ b, x[i]? = some b → x.count b < x.count v) :=
  MpycV.Stats.mode_spec l priv x hx hrange

example : modeInt 8 0 [3, 1, 3, 1, 2] = .ok 3 ∧ ([3, 1, 3, 1, 2] : List Int) ≠ [] ∧
    listMax [3, 1, 3, 1, 2] - listMin [3, 1, 3, 1, 2] < 2 ^ 8 := by decide

/-- the clauses of `mode_spec` determine the value -/
theorem mode_spec_unique (x : List Int) (v w : Int) (hv : v ∈ x) (hw : w ∈ x)
    (hvmax : ∀ b ∈ x, x.count b ≤ x.count v) (hwmax : ∀ b ∈ x, x.count b ≤ x.count w)
    (hvfirst : ∀ i, i < x.idxOf v → ∀ b, x[i]? = some b → x.count b < x.count v)
    (hwfirst : ∀ i, i < x.idxOf w → ∀ b, x[i]? = some b → x.count b < x.count w) : v = w :=
  MpycV.Stats.mode_spec_unique x v w hv hw hvmax hwmax hvfirst hwfirst

theorem mode_empty (l priv : Nat) : modeInt l priv [] = .error "StatisticsError" := rfl

/-! ### 8. _quickselect -/

/-- `runtime.sorted`'s value: a sorted rearrangement, so `(isort x)[k]` is the k-th smallest element -/
theorem isort_sorted_perm (x : List Int) : (isort x).Pairwise (· ≤ ·) ∧ (isort x).Perm x :=
  ⟨isort_sorted x, isort_perm x⟩

theorem isort_rank {x : List Int} {k : Nat} (hk : k < x.length) :
    x.countP (· < (isort x).getD k 0) ≤ k ∧ k + 1 ≤ x.countP (· ≤ (isort x).getD k 0) :=
  isort_getD_rank hk

/-- **`_quickselect` is correct for every pivot choice and every tie-breaking bit vector**: with `ks` strictly
increasing and below `len(x)`, a run that finishes returns `[sorted(x)[k] for k in ks]` (the literal compaction
loops with their `min(i+2, s)` wrap-around, the swap branch and the `len(ks) ≥ 3` sort path included) -/
theorem quickselect_spec (x : List Int) (ks : List Nat) (rounds : List Round)
    (hks : ks.Pairwise (· < ·)) (hk : ∀ k ∈ ks, k < x.length)
    (hties : ∀ rd ∈ rounds, x.length ≤ rd.ties.length)
    {w : List Int} {rest : List Round} (h : quickselect x.length x ks rounds = .ok (w, rest)) :
    w = ks.map (fun k => (isort x).getD k 0) :=
  quickselect_spec' x ks rounds hks hk hties h

example : quickselect 4 [5, 3, 8, 1] [1, 2]
    [⟨0, [true, true, true, true]⟩, ⟨2, [false, false, false, false]⟩, ⟨0, [false, false, false, false]⟩,
     ⟨1, [true, true, true, true]⟩, ⟨0, [true, true, true, true]⟩] = .ok ([3, 5], []) := by decide

/-- median on secure integers for every run of `_quickselect` that finishes -/
theorem median_int_all_pivots (x : List Int) (med : Med) (rounds rest : List Round) (v : Int) (hx : x ≠ [])
    (hties : ∀ rd ∈ rounds, x.length ≤ rd.ties.length) (h : medInt x med rounds = .ok (v, rest)) :
    v = medianPy (isort x) med := by
  have hn0 : x.length ≠ 0 := by simpa using hx
  cases hq : quickselect x.length x (medKs x.length med) rounds with
  | error e =>
    unfold medInt at h
    simp only [hn0, if_false, hq] at h
    cases h
  | ok p =>
    obtain ⟨w, rest'⟩ := p
    have hks : (medKs x.length med).Pairwise (· < ·) ∧ ∀ k ∈ medKs x.length med, k < x.length := by
      unfold medKs
      split
      · refine ⟨by simp, ?_⟩
        intro k hk; simp at hk; omega
      · cases med
        · refine ⟨by simp; omega, ?_⟩
          intro k hk; simp at hk; omega
        · refine ⟨by simp, ?_⟩
          intro k hk; simp at hk; omega
        · refine ⟨by simp, ?_⟩
          intro k hk; simp at hk; omega
    have hw := quickselect_spec' x _ rounds hks.1 hks.2 hties hq
    have := median_int x med rounds rest' w hx hq hw
    rw [this] at h
    injection h with h
    exact (Prod.mk.inj h).1.symm

/-! ### 9. correlation, linear regression -/

/-- mpyc's `sxy / (√sxx · √syy)` is CPython's `sxy / √(sxx · syy)`. -/
theorem correlation_identity (sxy sxx syy : ℝ) (hx : 0 ≤ sxx) (_hy : 0 ≤ syy) :
    sxy / (Real.sqrt sxx * Real.sqrt syy) = sxy / Real.sqrt (sxx * syy) :=
  corrMpyc_eq_corrPy sxy sxx syy hx

example : (4 : ℝ) / (Real.sqrt 4 * Real.sqrt 9) = 4 / Real.sqrt (4 * 9) :=
  correlation_identity 4 4 9 (by norm_num) (by norm_num)

/-- mpyc's `slope = sxy / sxx`, `intercept = ybar − slope · xbar` are literally CPython's formulas. -/
theorem linear_regression_identity (sxy sxx xbar ybar : ℝ) :
    linregMpyc sxy sxx xbar ybar = linregPy sxy sxx xbar ybar := rfl

example : linregMpyc 6 3 1 5 = ((2 : ℝ), 3) := by
  unfold linregMpyc; norm_num

/-- `Σ (xᵢ − x̄)(yᵢ − ȳ) = Σ xᵢ yᵢ − n x̄ ȳ`. -/
theorem covariance_algebra (x y : List ℝ) (h : x.length = y.length) (hn : x ≠ []) :
    (List.zipWith (fun a b => (a - x.sum / x.length) * (b - y.sum / y.length)) x y).sum =
      (List.zipWith (fun a b => a * b) x y).sum - x.length * (x.sum / x.length) * (y.sum / y.length) :=
  cov_sum_identity_mean x y h hn

example : ([1, 2, 4] : List ℝ).length = ([2, 0, 5] : List ℝ).length ∧ ([1, 2, 4] : List ℝ) ≠ [] := by simp

/-! ### scaling of the fixed-point mean (repo fix 89f0e22) -/

/-- `mean` multiplies the sum by `2^e / n` and then by `2^-e`, `2^e ≤ n`; as a fixed-point constant with `f` fractional
bits `2^-e` is `round(2^f / 2^e)` (Python: round half to even), which is 0 as soon as `e > f` — the mean of `2^(f+1)`
or more numbers came out as 0 … -/
theorem mean_scale_constant_vanishes (f e : ℕ) (h : f < e) : MpycV.Fxp.roundHalfEven ((2 : Int) ^ f) e = 0 := by
  unfold MpycV.Fxp.roundHalfEven
  have hpos : (0 : Int) < (2 : Int) ^ e := by positivity
  have hlt : (2 : Int) ^ f < (2 : Int) ^ e := by
    exact_mod_cast Nat.pow_lt_pow_right (by norm_num) h
  have hq : (2 : Int) ^ f / (2 : Int) ^ e = 0 := Int.ediv_eq_zero_of_lt (by positivity) hlt
  have hr : (2 : Int) ^ f % (2 : Int) ^ e = (2 : Int) ^ f := Int.emod_eq_of_lt (by positivity) hlt
  have h2 : 2 * (2 : Int) ^ f ≤ (2 : Int) ^ e := by
    have : (2 : Int) ^ (f + 1) ≤ (2 : Int) ^ e := by
      exact_mod_cast Nat.pow_le_pow_right (by norm_num) (show f + 1 ≤ e by omega)
    rw [pow_succ] at this
    linarith
  simp only [hq, hr]
  rcases lt_or_eq_of_le h2 with hlt2 | heq
  · simp [hlt2]
  · have h3 : ¬ (2 * (2 : Int) ^ f < (2 : Int) ^ e) := by rw [heq]; exact lt_irrefl _
    have h4 : ¬ (2 * (2 : Int) ^ f > (2 : Int) ^ e) := by rw [heq]; exact lt_irrefl _
    simp [h3, h4]

/-- … whereas each step `2^-d` with `d ≤ f` of the repaired scaling is an exact constant `2^(f-d) ≥ 1`, and steps of at
most `f` bits taken until nothing is left remove exactly `e` bits in total -/
theorem mean_scale_step_exact (f d : ℕ) (h : d ≤ f) : MpycV.Fxp.roundHalfEven ((2 : Int) ^ f) d = (2 : Int) ^ (f - d) := by
  unfold MpycV.Fxp.roundHalfEven
  have hsplit : (2 : Int) ^ f = (2 : Int) ^ (f - d) * (2 : Int) ^ d := by
    rw [← pow_add]; congr 1; omega
  have hpos : (0 : Int) < (2 : Int) ^ d := by positivity
  have hq : (2 : Int) ^ f / (2 : Int) ^ d = (2 : Int) ^ (f - d) := by
    rw [hsplit]; exact Int.mul_ediv_cancel _ (ne_of_gt hpos)
  have hr : (2 : Int) ^ f % (2 : Int) ^ d = 0 := by
    rw [hsplit]; exact Int.mul_emod_left _ _
  simp only [hq, hr]
  simp [hpos]

/-- the step sizes `d_i = min(e_i, f)` used by the loop sum to `e` -/
def meanSteps (f : ℕ) : ℕ → ℕ → List ℕ
  | 0, _ => []
  | fuel + 1, e => if e = 0 then [] else min e (max f 1) :: meanSteps f fuel (e - min e (max f 1))

theorem meanSteps_sum (f : ℕ) : ∀ (fuel e : ℕ), e ≤ fuel → (meanSteps f fuel e).sum = e ∧ ∀ d ∈ meanSteps f fuel e, d ≤ max f 1
  | 0, e, h => by
    have : e = 0 := by omega
    subst this; simp [meanSteps]
  | fuel + 1, e, h => by
    unfold meanSteps
    by_cases he : e = 0
    · simp [he]
    · simp only [he, if_false]
      have hd : 1 ≤ min e (max f 1) := by
        have : 1 ≤ max f 1 := le_max_right _ _
        omega
      obtain ⟨ih1, ih2⟩ := meanSteps_sum f fuel (e - min e (max f 1)) (by omega)
      constructor
      · rw [List.sum_cons, ih1]
        have : min e (max f 1) ≤ e := min_le_left _ _
        omega
      · intro d hdm
        rcases List.mem_cons.1 hdm with rfl | h'
        · exact min_le_right _ _
        · exact ih2 d h'

example : meanSteps 8 9 9 = [8, 1] ∧ MpycV.Fxp.roundHalfEven ((2 : Int) ^ 8) 9 = 0 := by decide

end MpycV.C34
