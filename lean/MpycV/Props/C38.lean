/-
C38 — secure polynomial arithmetic agrees with plain polynomial arithmetic.

Level: translation_validation.  The multi-party protocols (division through a random-self-reduction,
GCD through divsteps, comparisons through secure integers) are validated against gfpx by the oracle of
harness/props/c38.py on every run.  Proved here, for the value model `MpycV/Model/SecPol.lean` of what
secpols.py computes on the PADDED coefficient arrays (trailing zeros = slack):

* `slack_invariance`   every modelled operation commutes with stripping trailing zeros, i.e. the opened
                       result does not depend on the slack of the inputs;
* `*_agrees_gfpx`      +, unary -, -, *, <<, >>, evaluation, degree, == agree with the gfpx operations on
                       the stripped polynomials (`GFpX` model of C23, through the proved `toPoly`
                       homomorphism into `(ZMod p)[X]`);
* `public_lengths`     result lengths are functions of the input lengths only (only the length bound is
                       public).
-/
import MpycV.Lemmas.SecPol

open Polynomial

namespace MpycV.C38
open MpycV.SecPol
open MpycV.GFpX (Reduced toPoly Poly)

/-- zeros appended to a padded polynomial -/
abbrev pad (a : PPoly) (k : ℕ) : PPoly := a ++ List.replicate k 0

/-- **Slack invariance.** For a prime `p` and coefficient arrays with entries `< p`: appending any
number of zeros to the inputs does not change the stripped (opened, gfpx-normalised) result of
`+`, unary `-`, `-`, `*`, `<<`, `>>`, evaluation, degree and `==`. -/
theorem slack_invariance {p : ℕ} [Fact p.Prime] (a b : PPoly) (ha : Reduced p a) (hb : Reduced p b)
    (j k n : ℕ) (x : ℤ) :
    strip (add p (pad a j) (pad b k)) = strip (add p a b) ∧
    strip (neg p (pad a j)) = strip (neg p a) ∧
    strip (sub p (pad a j) (pad b k)) = strip (sub p a b) ∧
    strip (mul p (pad a j) (pad b k)) = strip (mul p a b) ∧
    strip (lshift (pad a j) n) = strip (lshift a n) ∧
    strip (rshift (pad a j) n) = strip (rshift a n) ∧
    SecPol.eval p (pad a j) x = SecPol.eval p a x ∧
    SecPol.degree (pad a j) = SecPol.degree a ∧
    SecPol.eq p (pad a j) (pad b k) = SecPol.eq p a b := by
  have hp := (Fact.out : p.Prime).pos
  have ha' := reduced_append_zeros hp ha j
  have hb' := reduced_append_zeros hp hb k
  have sa : strip (pad a j) = strip a := strip_append_zeros hp ha j
  have sb : strip (pad b k) = strip b := strip_append_zeros hp hb k
  refine ⟨?_, ?_, ?_, ?_, ?_, ?_, ?_, ?_, ?_⟩
  · rw [strip_add hp ha' hb', strip_add hp ha hb, sa, sb]
  · rw [strip_neg ha', strip_neg ha, sa]
  · rw [strip_sub hp ha' hb', strip_sub hp ha hb, sa, sb]
  · rw [strip_mul ha' hb', strip_mul ha hb, sa, sb]
  · rw [strip_lshift hp ha', strip_lshift hp ha, sa]
  · rw [strip_rshift, strip_rshift, sa]
  · rw [eval_eq_gfpx hp, eval_eq_gfpx hp, sa]
  · rw [degree_eq_gfpx, degree_eq_gfpx, sa]
  · rw [Bool.eq_iff_iff, eq_iff_strip hp ha' hb', eq_iff_strip hp ha hb, sa, sb]

example : strip (SecPol.mul 7 [1, 2, 0, 0] [3, 0]) = strip (SecPol.mul 7 [1, 2] [3]) := by decide
example : SecPol.mul 7 [1, 2, 0, 0] [3, 0] = [3, 6, 0, 0, 0] ∧ SecPol.mul 7 [1, 2] [3] = [3, 6] := by decide

/-- **Agreement with gfpx.** The opened (stripped) result of each padded operation is the gfpx operation
applied to the stripped inputs. -/
theorem ring_ops_agree_gfpx {p : ℕ} [Fact p.Prime] (a b : PPoly) (ha : Reduced p a) (hb : Reduced p b)
    (n : ℕ) :
    strip (add p a b) = GFpX.add p (strip a) (strip b) ∧
    strip (neg p a) = GFpX.neg p (strip a) ∧
    strip (sub p a b) = GFpX.sub p (strip a) (strip b) ∧
    strip (mul p a b) = GFpX.mul p (strip a) (strip b) ∧
    strip (lshift a n) = GFpX.lshift (strip a) n ∧
    strip (rshift a n) = GFpX.rshift (strip a) n :=
  have hp := (Fact.out : p.Prime).pos
  ⟨strip_add hp ha hb, strip_neg ha, strip_sub hp ha hb, strip_mul ha hb, strip_lshift hp ha n,
   strip_rshift a n⟩

example : strip (SecPol.sub 11 [1, 2, 0] [1, 2, 3, 0]) = GFpX.sub 11 [1, 2] [1, 2, 3] := by decide
example : SecPol.sub 11 [1, 2, 0] [1, 2, 3, 0] = [0, 0, 8, 0] := by decide

/-- evaluation, degree and equality of padded polynomials are those of the stripped gfpx polynomials;
evaluation is the value of the denoted polynomial in `ZMod p` -/
theorem eval_degree_eq_agree_gfpx {p : ℕ} [Fact p.Prime] (a b : PPoly) (ha : Reduced p a)
    (hb : Reduced p b) (x : ℤ) :
    SecPol.eval p a x = GFpX.eval p (strip a) x ∧
    ((SecPol.eval p a x : ℕ) : ZMod p) = (toPoly p a).eval (x : ZMod p) ∧
    SecPol.degree a = GFpX.degree (strip a) ∧
    (SecPol.eq p a b = true ↔ strip a = strip b) :=
  have hp := (Fact.out : p.Prime).pos
  ⟨eval_eq_gfpx hp a x, SecPol.eval_cast hp a x, degree_eq_gfpx a, eq_iff_strip hp ha hb⟩

example : SecPol.eval 11 [1, 2, 3, 0, 0] 5 = 9 ∧ GFpX.eval 11 [1, 2, 3] 5 = 9 := by decide
example : SecPol.degree [1, 2, 3, 0, 0] = 2 ∧ SecPol.degree [0, 0] = -1 ∧ SecPol.degree [] = -1 := by decide
example : SecPol.eq 11 [1, 2, 0] [1, 2] = true ∧ SecPol.eq 11 [1, 2, 0] [1, 3] = false := by decide

/-- the denotation (polynomial over `ZMod p`) of each padded operation; no primality needed -/
theorem denotation {p : ℕ} (hp : 0 < p) (a b : PPoly) (n k : ℕ) :
    toPoly p (pad a k) = toPoly p a ∧
    toPoly p (add p a b) = toPoly p a + toPoly p b ∧
    toPoly p (neg p a) = -toPoly p a ∧
    toPoly p (sub p a b) = toPoly p a - toPoly p b ∧
    toPoly p (mul p a b) = toPoly p a * toPoly p b ∧
    toPoly p (lshift a n) = toPoly p a * X ^ n :=
  ⟨toPoly_append_zeros a k, SecPol.toPoly_add a b, SecPol.toPoly_neg hp a, SecPol.toPoly_sub hp a b,
   SecPol.toPoly_mul a b, SecPol.toPoly_lshift a n⟩

/-- **Only the length bound is public**: result lengths are functions of the input lengths. -/
theorem public_lengths {p : ℕ} (a b : PPoly) (n : ℕ) :
    (add p a b).length = addLen a.length b.length ∧
    (neg p a).length = a.length ∧
    (sub p a b).length = addLen a.length b.length ∧
    (mul p a b).length = mulLen a.length b.length ∧
    (lshift a n).length = lshiftLen a.length n ∧
    (rshift a n).length = rshiftLen a.length n :=
  ⟨length_add a b, SecPol.length_neg a, length_sub a b, SecPol.length_mul a b, length_lshift a n,
   length_rshift a n⟩

example : (SecPol.mul 7 [1, 2, 0, 0] [3, 0]).length = mulLen 4 2 ∧ mulLen 4 2 = 5 ∧ mulLen 0 3 = 0 := by
  decide

/-- results stay reduced (entries `< p`), so operations can be chained under the same hypotheses -/
theorem closed_under_ops {p : ℕ} (hp : 0 < p) (a b : PPoly) (ha : Reduced p a) (hb : Reduced p b) (n : ℕ) :
    Reduced p (add p a b) ∧ Reduced p (neg p a) ∧ Reduced p (sub p a b) ∧ Reduced p (mul p a b) ∧
    Reduced p (lshift a n) :=
  ⟨reduced_add hp ha hb, SecPol.reduced_neg hp a, reduced_sub hp ha, SecPol.reduced_mul hp a b,
   reduced_lshift hp ha n⟩

end MpycV.C38
