/-
C29 — secure sorting and selection are correct for every input order.

Model: `MpycV.Model.Sort`.  This file holds the theorems that do not depend on tables extracted from
the running code: the 0-1 principle, the bit-sliced evaluation lemma (one evaluation over Nat bitmask
columns covers all 2^n 0-1 inputs), correctness of `sorted` / `np_sort` for any length GIVEN that the
network sorts 0-1 inputs, and the tournaments `min`, `max`, `argmin`, `argmax`, `min_max` for every
length.  `MpycV.PropsGen.C29` discharges the 0-1 premise for the networks the code really executes.

Keys live in an arbitrary linear order `κ`; `lt a b` is the exact secure comparison `key(a) < key(b)`.
-/
import MpycV.Lemmas.SortTournament
import Mathlib.Data.Int.Order.Basic

namespace MpycV.C29
open MpycV.Sort

variable {α κ : Type}

/-! ### comparator networks -/

/-- **0-1 principle.**  A comparator network that sorts all 0-1 inputs of length n sorts every input
of length n by key (over any linear order, ties allowed) and outputs a permutation of the input.
`KeepOk keep key`: the comparator keeps a pair only if it is in key order and swaps it only if it is
weakly out of order — true for `_sort` (`keep = lt`) and for `np_sort` (`keep a b = !(lt b a)`). -/
theorem zero_one_principle [LinearOrder κ] {n : Nat} {net : Net} (h01 : Sorts01 n net)
    {keep : α → α → Bool} {key : α → κ} (hk : KeepOk keep key) (x : List α) (hx : x.length = n) :
    ((run keep net x).map key).Pairwise (· ≤ ·) ∧ (run keep net x).Perm x :=
  Sort.zero_one_principle h01 hk x hx

example : KeepOk (fun a b : Int => decide (a < b)) (fun a => a) := keepOk_of_ltOk (fun _ _ => by simp)

/-- every network, sorting or not, outputs a permutation of its input -/
theorem network_output_perm (keep : α → α → Bool) (net : Net) (x : List α) : (run keep net x).Perm x :=
  run_perm keep net x

/-- **bit-sliced evaluation.**  Bit `m` of column `i` after `evalCols` is the value at position `i`
after running the network on the 0-1 input whose position-`j` value is bit `m` of column `j`. -/
theorem bit_sliced_evaluation (net : Net) (cols : List Nat) (m : Nat) :
    (evalCols net cols).map (fun c => c.testBit m) = run leB net (cols.map (fun c => c.testBit m)) :=
  rowOf_evalCols net cols m

/-- the truth-table columns enumerate all 0-1 inputs: row `m < 2^n` of `initCols n` is the binary
expansion of `m`, and every 0-1 vector of length n is such a row. -/
theorem initCols_rows (n m : Nat) (hm : m < 2 ^ n) :
    (initCols n).map (fun c => c.testBit m) = (List.range n).map (fun i => m.testBit i) :=
  rowOf_initCols n m hm

theorem every_01_input_is_a_row (v : List Bool) :
    ∃ m, m < 2 ^ v.length ∧ (List.range v.length).map (fun i => m.testBit i) = v := exists_row v

/-- the check the kernel evaluates (`decide +kernel`) on each extracted network implies that the
network sorts ALL 2^n 0-1 inputs. -/
theorem sorts_of_kernel_check {n : Nat} {net : Net} (h : sortsAll01 n net = true) : Sorts01 n net :=
  sorts01_of_sortsAll01 h

example : sortsAll01 4 [(0, 2), (1, 3), (0, 1), (2, 3), (1, 2)] = true := by decide +kernel
example : sortsAll01 4 [(0, 2), (1, 3), (0, 1), (2, 3)] = false := by decide +kernel

/-- `sorted(x, key, reverse)` / `seclist.sort`: for any length whose network sorts 0-1 inputs the
result is a permutation of the input in ascending (reversed: descending) key order. -/
theorem sorted_correct_of_sorts01 [LinearOrder κ] {lt : α → α → Bool} {key : α → κ} (hlt : LtOk lt key)
    (x : List α) (h01 : 2 ≤ x.length → Sorts01 x.length (sortNet x.length)) (reverse : Bool) :
    (sorted lt x reverse).Perm x ∧
    (if reverse then ((sorted lt x reverse).map key).Pairwise (· ≥ ·)
     else ((sorted lt x reverse).map key).Pairwise (· ≤ ·)) := by
  unfold sorted
  by_cases hlen : x.length < 2
  · rw [if_pos hlen]
    refine ⟨List.Perm.refl x, ?_⟩
    match x, hlen with
    | [], _ => cases reverse <;> simp
    | [a], _ => cases reverse <;> simp
    | _ :: _ :: _, h => simp only [List.length_cons] at h; omega
  · rw [if_neg hlen]
    obtain ⟨hs, hp⟩ := Sort.zero_one_principle (h01 (by omega)) (keepOk_of_ltOk hlt) x rfl
    cases reverse
    · exact ⟨hp, by simpa using hs⟩
    · refine ⟨(List.reverse_perm _).trans hp, ?_⟩
      simp only [if_true, List.map_reverse, List.pairwise_reverse]
      exact hs

/-- `np_sort` (same network, comparison the other way round) -/
theorem np_sorted_correct_of_sorts01 [LinearOrder κ] {lt : α → α → Bool} {key : α → κ} (hlt : LtOk lt key)
    (x : List α) (h01 : 2 ≤ x.length → Sorts01 x.length (sortNet x.length)) :
    (npSorted lt x).Perm x ∧ ((npSorted lt x).map key).Pairwise (· ≤ ·) := by
  unfold npSorted
  by_cases hlen : x.length ≤ 1
  · rw [if_pos hlen]
    refine ⟨List.Perm.refl x, ?_⟩
    match x, hlen with
    | [], _ => simp
    | [a], _ => simp
    | _ :: _ :: _, h => simp only [List.length_cons] at h; omega
  · rw [if_neg hlen]
    obtain ⟨hs, hp⟩ := Sort.zero_one_principle (h01 (by omega)) (keepOk_np_of_ltOk hlt) x rfl
    exact ⟨hp, hs⟩

example : LtOk (fun a b : Int × Nat => decide (a.1 < b.1)) (fun a => a.1) := fun _ _ => by simp

/-! ### tournaments: every list length -/

/-- `min`: an element of the list with minimal key -/
theorem min_correct [LinearOrder κ] {lt : α → α → Bool} {key : α → κ} (hlt : LtOk lt key) (x : List α)
    (hx : x ≠ []) : ∃ m, tmin lt x = some m ∧ m ∈ x ∧ ∀ y ∈ x, key m ≤ key y := by
  obtain ⟨m, hm⟩ := Option.isSome_iff_exists.mp (tmin_isSome lt x hx)
  exact ⟨m, hm, tmin_spec hlt x m hm⟩

/-- `max`: an element of the list with maximal key -/
theorem max_correct [LinearOrder κ] {lt : α → α → Bool} {key : α → κ} (hlt : LtOk lt key) (x : List α)
    (hx : x ≠ []) : ∃ m, tmax lt x = some m ∧ m ∈ x ∧ ∀ y ∈ x, key y ≤ key m := by
  obtain ⟨m, hm⟩ := Option.isSome_iff_exists.mp (tmax_isSome lt x hx)
  exact ⟨m, hm, tmax_spec hlt x m hm⟩

/-- `argmin`: index `i` of the FIRST minimal element together with that element:
`x[i] = m`, no key is smaller, every earlier key is strictly larger. -/
theorem argmin_first [LinearOrder κ] {lt : α → α → Bool} {key : α → κ} (hlt : LtOk lt key) (x : List α)
    (hx : x ≠ []) : ∃ i m, targmin lt x = some (i, m) ∧ x[i]? = some m ∧ (∀ y ∈ x, key m ≤ key y) ∧
      ∀ j y, j < i → x[j]? = some y → key m < key y := by
  obtain ⟨⟨i, m⟩, hm⟩ := Option.isSome_iff_exists.mp (targmin_isSome lt x hx)
  exact ⟨i, m, hm, targmin_spec hlt x i m hm⟩

/-- `argmax`: index of the FIRST maximal element together with that element. -/
theorem argmax_first [LinearOrder κ] {lt : α → α → Bool} {key : α → κ} (hlt : LtOk lt key) (x : List α)
    (hx : x ≠ []) : ∃ i m, targmax lt x = some (i, m) ∧ x[i]? = some m ∧ (∀ y ∈ x, key y ≤ key m) ∧
      ∀ j y, j < i → x[j]? = some y → key y < key m := by
  obtain ⟨⟨i, m⟩, hm⟩ := Option.isSome_iff_exists.mp (targmax_isSome lt x hx)
  exact ⟨i, m, hm, targmax_spec hlt x i m hm⟩

/-- `min_max`: pairing step (comparators `(i, n-1-i)`), then min of the lower and max of the upper
half: both extremes of the whole list. -/
theorem min_max_correct [LinearOrder κ] {lt : α → α → Bool} {key : α → κ} (hlt : LtOk lt key) (x : List α)
    (hx : x ≠ []) : ∃ a b, minMax lt x = some (a, b) ∧ a ∈ x ∧ b ∈ x ∧
      ∀ z ∈ x, key a ≤ key z ∧ key z ≤ key b := by
  obtain ⟨⟨a, b⟩, hm⟩ := Option.isSome_iff_exists.mp (minMax_isSome lt x hx)
  exact ⟨a, b, hm, minMax_spec hlt x a b hm⟩

example : ([3, 1, 2, 1] : List Int) ≠ [] := by decide

/-- the `ValueError('… arg is an empty sequence')` branch of all five functions -/
theorem selection_empty_valueError (lt : α → α → Bool) :
    tmin lt ([] : List α) = none ∧ tmax lt ([] : List α) = none ∧ targmin lt ([] : List α) = none ∧
    targmax lt ([] : List α) = none ∧ minMax lt ([] : List α) = none :=
  ⟨tmin_nil lt, tmax_nil lt, targmin_nil lt, targmax_nil lt, minMax_nil lt⟩

end MpycV.C29
