/-
C37 — secure NumPy arrays agree with plain NumPy and with secure scalars.

Level: translation_validation.  NumPy's own semantics are the ORACLE (harness/props/c37.py compares the
real code with NumPy and with elementwise secure scalars on every run); what is proved here is the
shape / index arithmetic the secure array layer relies on (model `MpycV/Model/Array.lean`, tied to
runtime.py's hand-computed result shapes and to NumPy's data movement by the driver `Drv/Arrays.lean`):

* `broadcast_spec`        broadcasting is commutative, idempotent, fails exactly on an axis clash, and the
                          index map into either operand is well defined and in range;
* `map2_*`                pointwise lifts over the broadcast index space: every entry of the result is the
                          scalar function applied to the corresponding operand entries, so any scalar
                          theorem `∀ x y, P x y (f x y)` (C01/C02/C04) is inherited entrywise;
* `matmul_shape`, `matmul_index`  shape rules of `_matmul_shape`; entry (i,j) = row i · column j;
* `reshape_*`, `transpose_involution`, `concatenate_split_roundtrip`, `roll_*`  index-map lemmas of the
                          reshaping family;
* `stack_shape`           the declared shape of `np_stack` is NumPy's for every valid axis (after fix 86712c2;
                          `old_stack_rule_negative_axis_differs` is the proved witness against the old rule).
-/
import MpycV.Lemmas.ArrayOps

namespace MpycV.C37
open MpycV.Arr

/-! ### broadcasting -/

/-- `np.broadcast_shapes` is commutative, idempotent, raises exactly when two aligned axes clash
(different lengths, neither of them 1), its rank is the larger rank, and a result index is mapped to an
in-range index of either operand. -/
theorem broadcast_spec (a b : Shape) :
    broadcastShape a b = broadcastShape b a ∧
    broadcastShape a a = some a ∧
    (broadcastShape a b = none ↔ Incompat a.reverse b.reverse) ∧
    (∀ s, broadcastShape a b = some s → s.length = max a.length b.length ∧
      ∀ idx, inRange s idx = true →
        inRange a (bcIndex a idx) = true ∧ inRange b (bcIndex b idx) = true) :=
  ⟨broadcastShape_comm a b, broadcastShape_self a, broadcastShape_eq_none_iff a b,
   fun _ h => ⟨broadcastShape_length h, fun _ hi => ⟨bcIndex_inRange_left h hi, bcIndex_inRange_right h hi⟩⟩⟩

example : broadcastShape [2, 1, 3] [4, 1] = some [2, 4, 3] := by decide
example : bcIndex [2, 1, 3] [1, 3, 2] = [1, 0, 2] ∧ bcIndex [4, 1] [1, 3, 2] = [3, 0] := by decide
example : broadcastShape [2, 3] [2] = none ∧ Incompat [2, 3].reverse [2].reverse :=
  ⟨by decide, ⟨0, 3, 2, by decide, by decide, by decide, by decide, by decide⟩⟩
example : broadcastShape [0, 3] [1] = some [0, 3] := by decide

/-- the flat position computed for an in-range index is inside the data, and `unflatten` inverts it -/
theorem index_roundtrip (s : Shape) :
    (∀ idx, inRange s idx = true → flatIndex s idx < size s ∧ unflatten s (flatIndex s idx) = idx) ∧
    (∀ k, k < size s → inRange s (unflatten s k) = true ∧ flatIndex s (unflatten s k) = k) :=
  ⟨fun _ h => ⟨flatIndex_lt h, unflatten_flatIndex h⟩,
   fun k h => ⟨inRange_unflatten s k h, flatIndex_unflatten s k h⟩⟩

example : flatIndex [2, 3, 4] [1, 2, 3] = 23 ∧ unflatten [2, 3, 4] 17 = [1, 1, 1] := by decide

/-! ### pointwise lifts -/

/-- entry `idx` of `a ∘ b` is `f` of the broadcast operand entries; shapes incompatible ↔ error -/
theorem map2_spec {α β γ : Type} [Inhabited α] [Inhabited β] [Inhabited γ] (f : α → β → γ)
    (a : Arr α) (b : Arr β) :
    (map2 f a b = none ↔ broadcastShape a.shape b.shape = none) ∧
    ∀ c, map2 f a b = some c →
      broadcastShape a.shape b.shape = some c.shape ∧ c.WF ∧
      ∀ idx, inRange c.shape idx = true →
        c.get idx = f (a.get (bcIndex a.shape idx)) (b.get (bcIndex b.shape idx)) :=
  ⟨map2_none_iff f a b, fun _ h => ⟨map2_shape f a b h, map2_wf f a b h, fun _ hi => map2_get f a b h hi⟩⟩

/-- scalar theorems are inherited entrywise: if `P x y (f x y)` holds for all scalars (e.g. "the result
of the scalar protocol equals x·y mod p", C01/C04), it holds at every position of the lifted operation -/
theorem map2_inherits {α β γ : Type} [Inhabited α] [Inhabited β] [Inhabited γ] (f : α → β → γ)
    (P : α → β → γ → Prop) (hP : ∀ x y, P x y (f x y)) (a : Arr α) (b : Arr β) (c : Arr γ)
    (h : map2 f a b = some c) (idx : List Nat) (hi : inRange c.shape idx = true) :
    P (a.get (bcIndex a.shape idx)) (b.get (bcIndex b.shape idx)) (c.get idx) := by
  rw [map2_get f a b h hi]; exact hP _ _

/-- equal shapes: the lift is `zipWith` on the flat data, i.e. the list/vector operation -/
theorem map2_zipWith {α β γ : Type} [Inhabited α] [Inhabited β] (f : α → β → γ) (a : Arr α) (b : Arr β)
    (hs : a.shape = b.shape) (ha : a.WF) (hb : b.WF) :
    map2 f a b = some ⟨a.shape, List.zipWith f a.data b.data⟩ := map2_same_shape f a b hs ha hb

example : map2 (· + ·) (⟨[2, 1], [10, 20]⟩ : Arr Int) ⟨[3], [1, 2, 3]⟩ =
    some ⟨[2, 3], [11, 12, 13, 21, 22, 23]⟩ := by decide
example : map2 (· * ·) (⟨[2], [1, 2]⟩ : Arr Int) ⟨[3], [1, 2, 3]⟩ = none := by decide

/-- unary lifts keep the shape and act entrywise -/
theorem map1_spec {α β : Type} (f : α → β) (a : Arr α) :
    (map1 f a).shape = a.shape ∧ (map1 f a).data = a.data.map f := ⟨rfl, rfl⟩

/-! ### matmul -/

/-- shape rules of `_matmul_shape` (numpy.py:17): 2-D·2-D, 1-D·1-D (scalar), 2-D·1-D, 1-D·2-D, batched with
broadcast batch axes; inner dimensions must agree, 0-D operands are rejected -/
theorem matmul_shape (n k m : Nat) :
    matmulShape [n, k] [k, m] = some (some [n, m]) ∧
    matmulShape [k] [k] = some none ∧
    matmulShape [n, k] [k] = some (some [n]) ∧
    matmulShape [k] [k, m] = some (some [m]) ∧
    (∀ k', k ≠ k' → matmulShape [n, k] [k', m] = none) ∧
    (∀ b, matmulShape [] b = none) ∧
    (∀ ba bb s, broadcastShape ba bb = some s →
      matmulShape (ba ++ [n, k]) (bb ++ [k, m]) = some (some (s ++ [n, m]))) :=
  ⟨matmulShape_2d n k m, matmulShape_1d_1d k, matmulShape_2d_1d n k, matmulShape_1d_2d k m,
   fun _ h => matmulShape_mismatch n k _ m h, matmulShape_0d_left,
   fun ba bb s h => matmulShape_batch ba bb s n k m h⟩

example : matmulShape [5, 1, 2, 3] [4, 3, 6] = some (some [5, 4, 2, 6]) := by decide
example : matmulShape [2, 3] [4, 5] = none := by decide

/-- entry (i,j) of the product of row-major `n×k` and `k×m` matrices is the dot product of row i and
column j, i.e. `Σ_l A[i,l]·B[l,j]` -/
theorem matmul_index (n k m : Nat) (a b : List Int) (i j : Nat) (hi : i < n) (hj : j < m) :
    (matmul2 n k m a b).get [i, j] = dot (row k a i) (col k m b j) ∧
    dot (row k a i) (col k m b j) =
      ((List.range k).map fun l => (⟨[n, k], a⟩ : Arr Int).get [i, l] * (⟨[k, m], b⟩ : Arr Int).get [l, j]).sum ∧
    (matmul2 n k m a b).WF := by
  refine ⟨matmul2_entry n k m a b hi hj, ?_, matmul2_wf n k m a b⟩
  rw [dot_row_col]
  simp [Arr.get, flatIndex_2d]

example : matmul2 2 3 2 [1, 2, 3, 4, 5, 6] [7, 8, 9, 10, 11, 12] = ⟨[2, 2], [58, 64, 139, 154]⟩ := by decide

/-! ### reshaping family -/

/-- `np_reshape`: an accepted shape has the right number of elements (a single `-1` is resolved), the
data are untouched, the element at `idx` is the one at the same row-major position, and
reshape ∘ reshape = reshape -/
theorem reshape_spec {α : Type} [Inhabited α] (a b : Arr α) (shape : List Int) (ha : a.WF)
    (h : a.reshape shape = .ok b) :
    b.WF ∧ b.data = a.data ∧
    (∀ idx, inRange b.shape idx = true → b.get idx = a.get (unflatten a.shape (flatIndex b.shape idx))) ∧
    (∀ s2, b.reshape s2 = a.reshape s2) :=
  ⟨(Arr.reshape_wf h).1, (Arr.reshape_wf h).2, fun _ hi => Arr.reshape_get ha h hi,
   fun _ => Arr.reshape_reshape h⟩

example : reshapeShape 24 [2, -1, 4] = .ok [2, 3, 4] := by decide
example : reshapeShape 24 [5, -1] = .error .value ∧ reshapeShape 24 [-1, -1] = .error .value ∧
    reshapeShape 24 [4, 5] = .error .value := by decide
example : (⟨[2, 3], [1, 2, 3, 4, 5, 6]⟩ : Arr Int).reshape [3, -1] = .ok ⟨[3, 2], [1, 2, 3, 4, 5, 6]⟩ := by
  decide

/-- `a.T.T = a` (gather-map level and data level); the transposed element at `idx` is the source
element at the reversed index -/
theorem transpose_involution (s : Shape) :
    compose (transposeRev s.reverse) (transposeRev s) = List.range (size s) ∧
    (∀ idx, inRange s.reverse idx = true →
      (transposeRev s).getD (flatIndex s.reverse idx) 0 = flatIndex s idx.reverse) ∧
    (∀ (d : List Int), d.length = size s → gather (transposeRev s.reverse) (gather (transposeRev s) d) = d) :=
  ⟨transposeRev_involution s, fun _ h => transposeRev_get s h, fun d h => transpose_transpose s d h⟩

example : transposeRev [2, 3] = [0, 3, 1, 4, 2, 5] := by decide
example : transposeMap [2, 3, 4] [2, 0, 1] = gatherBy [4, 2, 3] (fun idx => flatIndex [2, 3, 4] [idx.getD 1 0, idx.getD 2 0, idx.getD 0 0]) := by
  decide

/-- splitting a concatenation along the same axis gives back the parts -/
theorem concatenate_split_roundtrip {α : Type} (sa sb : Shape) (i : Nat) (a b : List α)
    (hi : i < sa.length) (hlen : sb.length = sa.length)
    (hpre : sb.take i = sa.take i) (hpost : sb.drop (i + 1) = sa.drop (i + 1))
    (ha : a.length = size sa) (hb : b.length = size sb) :
    split2 (concat2 sa sb i a b).shape i (sa.getD i 0) (sb.getD i 0) (concat2 sa sb i a b).data = (a, b) :=
  split2_concat2 sa sb i a b hi hlen hpre hpost ha hb

example : concat2 [2, 2] [2, 1] 1 [1, 2, 3, 4] [5, 6] = ⟨[2, 3], [1, 2, 5, 3, 4, 6]⟩ := by decide
example : split2 [2, 3] 1 2 1 [1, 2, 5, 3, 4, 6] = ([1, 2, 3, 4], [5, 6]) := by decide

/-- `np.roll`: `result[i] = a[(i - shift) mod n]`, rolls compose additively, rolling by 0 or by the
length is the identity -/
theorem roll_spec {α : Type} (l : List α) (s1 s2 : Int) :
    (roll s1 l).length = l.length ∧
    (∀ i (_ : i < l.length), (roll s1 l)[i]? = l[(((i : Int) - s1) % (l.length : Int)).toNat]?) ∧
    roll s2 (roll s1 l) = roll (s1 + s2) l ∧ roll 0 l = l ∧ roll (l.length : Int) l = l := by
  refine ⟨length_roll s1 l, ?_, roll_roll s1 s2 l, roll_zero l, roll_length l⟩
  intro i h
  have h' : i < (roll s1 l).length := by rw [length_roll]; exact h
  rw [List.getElem?_eq_getElem h', roll_getElem s1 l i h']
  have hn : (0 : Int) < l.length := by omega
  have := Int.emod_lt_of_pos ((i : Int) - s1) hn
  have := Int.emod_nonneg ((i : Int) - s1) (by omega : (l.length : Int) ≠ 0)
  rw [List.getElem?_eq_getElem (by omega)]

example : roll 2 [1, 2, 3, 4, 5] = [4, 5, 1, 2, 3] ∧ roll (-1) [1, 2, 3, 4, 5] = [2, 3, 4, 5, 1] := by decide
example : rollAxis [2, 3] 1 1 [1, 2, 3, 4, 5, 6] = [3, 1, 2, 6, 4, 5] := by decide
example : flipAxis [2, 3] 1 [1, 2, 3, 4, 5, 6] = [3, 2, 1, 6, 5, 4] ∧
    flipAxis [2, 3] 0 [1, 2, 3, 4, 5, 6] = [4, 5, 6, 1, 2, 3] := by decide

/-! ### declared shape of `np_stack` (runtime.py:3024-3026) -/

/-- for every valid axis (`-(ndim+1) ≤ axis ≤ ndim`) the shape declared by `np_stack` is NumPy's -/
theorem stack_shape (s : Shape) (n : Nat) (ax : Int)
    (h1 : -((s.length : Int) + 1) ≤ ax) (h2 : ax ≤ (s.length : Int)) :
    npStackShape s n ax = some (stackShape s n ax) := stackShape_eq_np s n ax h1 h2

example : stackShape [2, 3] 2 (-1) = [2, 3, 2] ∧ stackShape [2, 3] 2 (-3) = [2, 2, 3] ∧
    stackShape [2, 3] 2 1 = [2, 2, 3] := by decide

/-- Regression theorem about the rule used BEFORE fix 86712c2 (`shape.insert(axis, n)`): with Python list
semantics a negative axis lands one position too far to the left. Witness: two arrays of shape (2,3)
stacked with axis=-1: old rule (2,2,3), NumPy (and the data) (2,3,2). The reproducer is kept as corpus
replay corpus/C37/np_stack_negative_axis.json. -/
theorem old_stack_rule_negative_axis_differs :
    stackShapeOld [2, 3] 2 (-1) = [2, 2, 3] ∧ npStackShape [2, 3] 2 (-1) = some [2, 3, 2] := by decide

/-! ### reductions along an axis: lanes in NumPy order (repo fixes 580b2c8 `np_argmin`/`np_argmax`, 180e4a8 `np_find`) -/

/-- the permutation `axes = list(range(ndim)); axes.append(axes.pop(axis))`: the given axis moved to the last position,
the other axes kept in order -/
def moveLastPerm (n ax : Nat) : List Nat := (List.range n).eraseIdx ax ++ [ax]

/-- moving the search axis last keeps the remaining axes in order: the lanes (all axes but the last of the transposed
array) have exactly NumPy's result shape for a reduction along `ax`, the shape with `ax` removed -/
theorem moveLast_lanes (s : Shape) (ax : Nat) (h : ax < s.length) (h2 : s.length ≠ 1) :
    (transposeShape s (some (moveLastPerm s.length ax))).dropLast = s.eraseIdx ax := by
  unfold transposeShape
  rw [if_neg h2]
  simp only
  apply List.ext_getElem
  · simp [List.length_eraseIdx, h]
  · intro i h1 h3
    simp only [List.length_dropLast, List.length_map, List.length_range] at h1
    rw [List.getElem_dropLast, List.getElem_map, List.getElem_range, List.getElem_eraseIdx]
    have hp : (moveLastPerm s.length ax).getD i 0 = if i < ax then i else i + 1 := by
      unfold moveLastPerm
      rw [List.getD_eq_getElem?_getD, List.getElem?_append_left (by simp [List.length_eraseIdx, h]; omega)]
      rw [List.getElem?_eq_getElem (by simp [List.length_eraseIdx, h]; omega), List.getElem_eraseIdx]
      split <;> simp
    rw [hp]
    split
    · rw [List.getD_eq_getElem?_getD, List.getElem?_eq_getElem (by omega)]; rfl
    · rw [List.getD_eq_getElem?_getD, List.getElem?_eq_getElem (by omega)]; rfl

example : (transposeShape [4, 2, 3] (some (moveLastPerm 3 0))).dropLast = [2, 3] := by decide

/-- SWAPPING the axis with the last one (what `np_find` and the lane bookkeeping of `np_argmin` did before the fixes) does
not: for shape (4,2,3) and axis 0 the lanes come out as (3,2) instead of NumPy's (2,3) -/
theorem swap_lanes_differ :
    swapaxesShape [4, 2, 3] 0 (-1) = .ok [3, 2, 4] ∧ ([3, 2, 4] : Shape).dropLast ≠ ([4, 2, 3] : Shape).eraseIdx 0 := by
  decide

end MpycV.C37
