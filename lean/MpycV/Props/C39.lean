/-
C39 — secure type and party configuration parameters are valid.
Property theorems only (helper lemmas: MpycV.Lemmas.SecFldCfg, MpycV.Lemmas.SecFldSteps).  Model:
MpycV.Model.SecFldCfg, a transcription of `sectypes.SecFld`, `_SecFld`, `_pfield` and of the
threshold lines of `runtime.setup()`.

Oracle parameters (`Oracles`): the irreducibility test / search of gfpx (property C24) and the
float expression `math.ceil(math.log(x, b))`.  What the theorems need of them is stated as
hypotheses: an irreducible polynomial has degree ≥ 1, `find_irreducible(p, d)` has degree d for
d ≥ 2 (`OracleOK`), and — for lifting only — the float ceil-log is never below the exact one
(`clog`), which the tie checks exhaustively on the relevant domain.  Nothing about floats is proved.
-/
import MpycV.Lemmas.SecFldSteps

namespace MpycV.C39
open MpycV.SecFldCfg

/-! ### the number-theoretic definitions of the model are the mathematical ones -/

theorem isPrime_iff (n : Nat) : isPrime n = true ↔ Nat.Prime n := SecFldCfg.isPrime_iff n

example : isPrime 97 = true ∧ isPrime 91 = false := by decide

theorem factorPrimePower_spec (x : Nat) :
    (∀ p d, factorPrimePower x = some (p, d) → Nat.Prime p ∧ 1 ≤ d ∧ p ^ d = x) ∧
    (factorPrimePower x = none → ¬ ∃ p d, Nat.Prime p ∧ 1 ≤ d ∧ p ^ d = x) :=
  SecFldCfg.factorPrimePower_spec x

example : factorPrimePower 243 = some (3, 5) ∧ factorPrimePower 12 = none := by decide

theorem leastPrimeGe_spec (c : Nat) :
    Nat.Prime (leastPrimeGe c) ∧ c ≤ leastPrimeGe c ∧ ∀ p, Nat.Prime p → c ≤ p → leastPrimeGe c ≤ p :=
  SecFldCfg.leastPrimeGe_spec c

theorem ceilRoot_spec (n d : Nat) (hd : 1 ≤ d) :
    n ≤ ceilRoot n d ^ d ∧ ∀ c, n ≤ c ^ d → ceilRoot n d ≤ c := SecFldCfg.ceilRoot_spec n d hd

theorem clog_spec (b x : Nat) (hb : 2 ≤ b) : x ≤ b ^ clog b x ∧ ∀ e, x ≤ b ^ e → clog b x ≤ e :=
  SecFldCfg.clog_spec b x hb

example : leastPrimeGe 90 = 97 ∧ ceilRoot 2000 3 = 13 ∧ clog 5 125 = 3 ∧ clog 5 126 = 4 := by decide

/-! ### SecFld -/

/-- what the theorems assume of the gfpx oracles -/
structure OracleOK (o : Oracles) : Prop where
  irr_deg : ∀ p f, o.irr p f = true → 2 ≤ f.length
  find_deg : ∀ p d, 2 ≤ d → (o.findIrr p d).length = d + 1

/-- a `Polynomial` object passed as modulus lives over a prime field (gfpx.GFpX checks this) -/
def ArgsWF (a : Args) : Prop := ∀ p f, a.modulus = .poly p f → Nat.Prime p

/-- ★ If `SecFld(order, modulus, char, ext_deg, min_order)` returns, the field is a genuine field
description (prime characteristic, order = char^ext_deg) of exactly the requested order,
characteristic and degree, of order ≥ min_order, with exactly the requested modulus. -/
theorem secfld_order (o : Oracles) (ho : OracleOK o) (a : Args) (hwf : ArgsWF a)
    (F : Field) (order minOrder : Nat) (h : resolve o a = .ok (F, order, minOrder)) :
    F.Valid ∧
    (∀ x, a.order = some x → F.order = x) ∧
    (∀ c, Truthy a.char c → F.char = c) ∧
    (∀ d, Truthy a.extDeg d → F.extDeg = d) ∧
    (∀ n, a.minOrder = some n → n ≤ F.order) ∧
    (∀ p f, a.modulus = .poly p f → F.char = p ∧ F.poly = some f) ∧
    (∀ cs, a.modulus = .str cs → F.poly = some (ofCoeffs F.char cs)) ∧
    (∀ n, a.modulus = .int n → (F.poly = none ∧ F.char = n) ∨ (F.poly = some (ofInt F.char n) ∧ F.char < n)) := by
  unfold resolve at h
  rw [bind_eq_ok] at h
  obtain ⟨⟨r, mo'⟩, hra, h⟩ := h
  rw [bind_eq_ok] at h
  obtain ⟨_, hmin, h⟩ := h
  rw [check_eq_ok, decide_eq_true_eq] at hmin
  rw [bind_eq_ok] at h
  obtain ⟨F', hF, h⟩ := h
  simp only [pure, Except.pure, Except.ok.injEq, Prod.mk.injEq] at h
  obtain ⟨rfl, _, _⟩ := h
  -- unfold the argument resolution
  unfold resolveArgs at hra
  rw [bind_eq_ok] at hra
  obtain ⟨⟨c1, e1⟩, hso, hra⟩ := hra
  rw [bind_eq_ok] at hra
  obtain ⟨⟨c2, md2⟩, hsc, hra⟩ := hra
  have hO := stepOrder_ok hso
  obtain ⟨hC1, hC2, hC3, hC4, hC5⟩ := stepConv_ok hsc
  -- truthy requests survive the first two stages
  have hchar : ∀ c, Truthy a.char c → Truthy c2 c := by
    intro c hc
    rcases hO with ⟨_, rfl, _⟩ | ⟨x, p, d, _, hp, _, _, rfl, _, hcp, _⟩
    · exact ⟨hC1 c hc, hc.2⟩
    · have := hcp c hc; subst this
      exact ⟨hC1 c ⟨rfl, hc.2⟩, hc.2⟩
  have hdeg : ∀ d, Truthy a.extDeg d → Truthy e1 d := by
    intro d hd
    rcases hO with ⟨_, _, rfl⟩ | ⟨x, p, d', _, _, hd1, _, _, rfl, _, hdd⟩
    · exact hd
    · have := hdd d hd; subst this
      exact ⟨rfl, hd.2⟩
  -- what an explicit order pins down
  have hord : ∀ x, a.order = some x → ∃ p d, Nat.Prime p ∧ 1 ≤ d ∧ p ^ d = x ∧ Truthy c2 p ∧ Truthy e1 d := by
    intro x hx
    rcases hO with ⟨hn, _, _⟩ | ⟨x', p, d, hx', hp, hd, hpd, rfl, rfl, _, _⟩
    · rw [hn] at hx; cases hx
    · rw [hx'] at hx
      simp only [Option.some.injEq] at hx
      subst hx
      exact ⟨p, d, hp, hd, hpd, ⟨hC1 p ⟨rfl, hp.pos⟩, hp.pos⟩, ⟨rfl, by omega⟩⟩
  have horder_eq : ∀ x, a.order = some x → orD a.order (r.char ^ r.extDeg) = x := by
    intro x hx
    obtain ⟨p, d, hp, hd, hpd, _, _⟩ := hord x hx
    have : 0 < x := by rw [← hpd]; exact Nat.pow_pos hp.pos
    exact orD_some_pos hx this
  -- the three kinds of modulus
  cases md2 with
  | str cs => exact absurd rfl (hC2 cs)
  | poly p f =>
    simp only at hra hF
    rw [bind_eq_ok] at hra
    obtain ⟨r', hsp, hra⟩ := hra
    simp only [pure, Except.pure, Except.ok.injEq, Prod.mk.injEq] at hra
    obtain ⟨rfl, rfl⟩ := hra
    obtain ⟨rfl, hlen, hpc, hpe⟩ := stepPoly_ok hsp
    simp only at hF hmin
    rcases mkField_ok hF with ⟨_, hmd, _⟩ | ⟨p', f', hmd, hirr, rfl⟩
    · cases hmd
    · simp only [Modulus.poly.injEq] at hmd
      obtain ⟨rfl, rfl⟩ := hmd
      have hprime : Nat.Prime p := by
        rcases hC5 p f rfl with ⟨hmd, _⟩ | ⟨hp, _⟩
        · exact hwf p f hmd
        · exact hp
      refine ⟨⟨hprime, by simp only; omega, rfl⟩, ?_, ?_, ?_, ?_, ?_, ?_, ?_⟩
      · intro x hx
        obtain ⟨p', d', _, _, hpd, hp', hd'⟩ := hord x hx
        have h1 := hpc p' hp'
        have h2 := hpe d' hd'
        simp only
        rw [← hpd, h1, h2]
      · intro c hc
        exact (hpc c (hchar c hc)).symm
      · intro d hd
        exact (hpe d (hdeg d hd)).symm
      · intro n hn
        simp only
        rw [hn] at hmin
        have h0 := le_of_orD_some_le hmin
        cases hao : a.order with
        | none => rw [hao] at h0; simpa [orD] using h0
        | some x =>
          have hx := horder_eq x hao
          simp only at hx
          rw [hx] at h0
          obtain ⟨p', d', _, _, hpd, hp', hd'⟩ := hord x hao
          rw [← hpc p' hp', ← hpe d' hd', hpd]; exact h0
      · intro p' f' hmd
        rcases hC5 p f rfl with ⟨hmd', _⟩ | ⟨_, _, ⟨cs, hmd', _⟩ | ⟨n, hmd', _⟩⟩
        · rw [hmd] at hmd'
          simp only [Modulus.poly.injEq] at hmd'
          simp only [hmd'.1, hmd'.2, and_self]
        · rw [hmd] at hmd'; exact Modulus.noConfusion hmd'
        · rw [hmd] at hmd'; exact Modulus.noConfusion hmd'
      · intro cs hmd
        rcases hC5 p f rfl with ⟨hmd', _⟩ | ⟨_, _, ⟨cs', hmd', hf, _⟩ | ⟨n, hmd', _⟩⟩
        · rw [hmd] at hmd'; exact Modulus.noConfusion hmd'
        · rw [hmd] at hmd'
          simp only [Modulus.str.injEq] at hmd'
          subst hmd'
          simp only [hf]
        · rw [hmd] at hmd'; exact Modulus.noConfusion hmd'
      · intro n hmd
        rcases hC5 p f rfl with ⟨hmd', _⟩ | ⟨_, _, ⟨cs', hmd', _⟩ | ⟨n', hmd', hf, hlt, _⟩⟩
        · rw [hmd] at hmd'; exact Modulus.noConfusion hmd'
        · rw [hmd] at hmd'; exact Modulus.noConfusion hmd'
        · rw [hmd] at hmd'
          simp only [Modulus.int.injEq] at hmd'
          subst hmd'
          right
          exact ⟨by simp only [hf], hlt⟩
  | int n =>
    simp only at hra hF
    rw [bind_eq_ok] at hra
    obtain ⟨r', hsi, hra⟩ := hra
    simp only [pure, Except.pure, Except.ok.injEq, Prod.mk.injEq] at hra
    obtain ⟨rfl, rfl⟩ := hra
    obtain ⟨rfl, hic, hie⟩ := stepInt_ok hsi
    simp only at hF hmin
    rcases mkField_ok hF with ⟨n', hmd, hpr, rfl⟩ | ⟨_, _, hmd, _⟩
    swap
    · cases hmd
    · simp only [Modulus.int.injEq] at hmd
      subst hmd
      have hprime : Nat.Prime n := (SecFldCfg.isPrime_iff n).1 hpr
      obtain ⟨hmdn, _⟩ := hC4 n rfl
      refine ⟨⟨hprime, Nat.le_refl 1, (Nat.pow_one n).symm⟩, ?_, ?_, ?_, ?_, ?_, ?_, ?_⟩
      · intro x hx
        obtain ⟨p', d', _, _, hpd, hp', hd'⟩ := hord x hx
        have h1 := hic p' hp'
        have h2 := hie d' hd'
        simp only
        rw [← hpd, h1, h2, Nat.pow_one]
      · intro c hc
        exact (hic c (hchar c hc)).symm
      · intro d hd
        exact (hie d (hdeg d hd)).symm
      · intro k hk
        simp only
        have hle : orD a.order (n ^ 1) = n := by
          cases hao : a.order with
          | none => simp [orD]
          | some x =>
            obtain ⟨p', d', _, _, hpd, hp', hd'⟩ := hord x hao
            have h1 := hic p' hp'
            have h2 := hie d' hd'
            rw [← hao, horder_eq x hao, ← hpd, h1, h2, Nat.pow_one]
        rw [hle, hk] at hmin
        exact le_of_orD_some_le hmin
      · intro p' f' hmd
        rw [hmdn] at hmd; exact Modulus.noConfusion hmd
      · intro cs hmd
        rw [hmdn] at hmd; exact Modulus.noConfusion hmd
      · intro n' hmd
        rw [hmdn] at hmd
        simp only [Modulus.int.injEq] at hmd
        left; exact ⟨rfl, hmd⟩
  | none =>
    simp only at hra
    obtain ⟨hmdn, hcc⟩ := hC3 rfl
    subst hcc
    obtain ⟨hmod, hnc, hne, hmo1, hmo2, _, _⟩ := stepNone_ok hra
    have hmods : (∀ p f, a.modulus = .poly p f → F'.char = p ∧ F'.poly = some f) ∧
        (∀ cs, a.modulus = .str cs → F'.poly = some (ofCoeffs F'.char cs)) ∧
        (∀ n, a.modulus = .int n →
          (F'.poly = none ∧ F'.char = n) ∨ (F'.poly = some (ofInt F'.char n) ∧ F'.char < n)) := by
      refine ⟨?_, ?_, ?_⟩ <;> intros <;> rename_i hmd <;> rw [hmdn] at hmd <;> exact Modulus.noConfusion hmd
    -- the field and its relation to (r.char, r.extDeg)
    have hfield : F'.Valid ∧ F'.char = r.char ∧ (1 ≤ r.extDeg → F'.extDeg = r.extDeg) ∧
        r.char ^ r.extDeg ≤ F'.order := by
      rcases hmod with ⟨he1, hm⟩ | ⟨hne1, hpr, hm⟩
      · rw [hm] at hF
        rcases mkField_ok hF with ⟨n', hmd, hpr, rfl⟩ | ⟨_, _, hmd, _⟩
        swap
        · cases hmd
        · simp only [Modulus.int.injEq] at hmd
          subst hmd
          refine ⟨⟨(SecFldCfg.isPrime_iff _).1 hpr, Nat.le_refl 1, (Nat.pow_one _).symm⟩, rfl,
            fun _ => he1.symm, ?_⟩
          simp only [he1, Nat.pow_one, Nat.le_refl]
      · rw [hm] at hF
        rcases mkField_ok hF with ⟨_, hmd, _⟩ | ⟨p', f', hmd, hirr, rfl⟩
        · cases hmd
        · simp only [Modulus.poly.injEq] at hmd
          obtain ⟨rfl, rfl⟩ := hmd
          have hl := ho.irr_deg _ _ hirr
          refine ⟨⟨hpr, by simp only; omega, rfl⟩, rfl, ?_, ?_⟩
          · intro h1
            have := ho.find_deg r.char r.extDeg (by omega)
            simp only [this, Nat.add_sub_cancel]
          · simp only
            rcases Nat.eq_zero_or_pos r.extDeg with h0 | hpos
            · rw [h0, Nat.pow_zero]; exact Nat.pow_pos hpr.pos
            · have := ho.find_deg r.char r.extDeg (by omega)
              simp only [this, Nat.add_sub_cancel, Nat.le_refl]
    obtain ⟨hvalid, hch, hex, hole⟩ := hfield
    refine ⟨hvalid, ?_, ?_, ?_, ?_, hmods.1, hmods.2.1, hmods.2.2⟩
    · intro x hx
      obtain ⟨p', d', _, hd1, hpd, hp', hd'⟩ := hord x hx
      have h1 := hnc p' hp'
      have h2 := hne d' hd'
      rw [hvalid.2.2, hch, hex (by omega), h1, h2, hpd]
    · intro c hc
      rw [hch]; exact hnc c (hchar c hc)
    · intro d hd
      have := hne d (hdeg d hd)
      rw [hex (by rw [this]; exact hd.2), this]
    · intro n hn
      have hmo := hmo2 n hn
      subst hmo
      have hle : orD a.order (r.char ^ r.extDeg) ≤ F'.order := by
        cases hao : a.order with
        | none => simpa [orD] using hole
        | some x =>
          obtain ⟨p', d', _, hd1, hpd, hp', hd'⟩ := hord x hao
          have h1 := hnc p' hp'
          have h2 := hne d' hd'
          rw [← hao, horder_eq x hao, hvalid.2.2, hch, hex (by omega), h1, h2, hpd]
      exact (le_of_orD_some_le hmin).trans hle

example : resolve ⟨irrBrute, findIrrBrute, fun b x => .ok (clog b x)⟩
    ⟨some 8, .str [1, 1, 0, 1], none, some 3, some 5⟩ = .ok (⟨2, 3, 8, some [1, 1, 0, 1]⟩, 8, 5) := by
  decide +kernel

/-- ★ Inconsistent combinations are rejected: if no field description satisfies all the explicit
requests, `SecFld` raises. -/
theorem secfld_rejects_inconsistent (o : Oracles) (ho : OracleOK o) (a : Args) (hwf : ArgsWF a)
    (hno : ¬ ∃ p d, Nat.Prime p ∧ 1 ≤ d ∧
      (∀ x, a.order = some x → p ^ d = x) ∧ (∀ c, Truthy a.char c → p = c) ∧
      (∀ e, Truthy a.extDeg e → d = e) ∧ (∀ n, a.minOrder = some n → n ≤ p ^ d) ∧
      (∀ p' f, a.modulus = .poly p' f → p = p' ∧ d = f.length - 1)) :
    ∃ e, resolve o a = .error e := by
  cases hr : resolve o a with
  | error e => exact ⟨e, rfl⟩
  | ok res =>
    exfalso
    obtain ⟨F, order, minOrder⟩ := res
    obtain ⟨hv, h1, h2, h3, h4, h5, _, _⟩ := secfld_order o ho a hwf F order minOrder hr
    apply hno
    refine ⟨F.char, F.extDeg, hv.1, hv.2.1, ?_, h2, h3, ?_, ?_⟩
    · intro x hx; rw [← hv.2.2]; exact h1 x hx
    · intro n hn; rw [← hv.2.2]; exact h4 n hn
    · intro p' f hm
      obtain ⟨hc, hp⟩ := h5 p' f hm
      refine ⟨hc, ?_⟩
      -- the returned field's degree is the degree of the modulus it was built from
      unfold resolve at hr
      rw [bind_eq_ok] at hr
      obtain ⟨⟨r, mo'⟩, _, hr⟩ := hr
      rw [bind_eq_ok] at hr
      obtain ⟨_, _, hr⟩ := hr
      rw [bind_eq_ok] at hr
      obtain ⟨F', hF, hr⟩ := hr
      simp only [pure, Except.pure, Except.ok.injEq, Prod.mk.injEq] at hr
      obtain ⟨rfl, _, _⟩ := hr
      rcases mkField_ok hF with ⟨n, _, _, rfl⟩ | ⟨q, g, _, _, rfl⟩
      · cases hp
      · simp only [Option.some.injEq] at hp
        simp only [hp]

/-- e.g. an order that is not a prime power, or a modulus of the wrong degree -/
example : resolve ⟨irrBrute, findIrrBrute, fun b x => .ok (clog b x)⟩ ⟨some 12, .none, none, none, none⟩
    = .error .valueError := by decide +kernel
example : resolve ⟨irrBrute, findIrrBrute, fun b x => .ok (clog b x)⟩
    ⟨some 4, .str [1, 1, 0, 1], none, none, none⟩ = .error .assertionError := by decide +kernel

/-- ★ `min_order` with free characteristic: the least prime p with p^d ≥ min_order (d = ext_deg or 1) -/
theorem secfld_least_prime (o : Oracles) (ho : OracleOK o) (a : Args)
    (hm : a.modulus = .none) (hord : a.order = none) (hc : a.char = none) (n : Nat)
    (hn : a.minOrder = some n) (F : Field) (order minOrder : Nat)
    (h : resolve o a = .ok (F, order, minOrder)) :
    let d := orD a.extDeg 1
    Nat.Prime F.char ∧ F.extDeg = d ∧ n ≤ F.char ^ d ∧ ∀ q, Nat.Prime q → n ≤ q ^ d → F.char ≤ q := by
  intro d
  have hd1 : 1 ≤ d := by
    rcases orD_eq a.extDeg 1 with h' | ⟨_, h'⟩
    · exact Nat.le_of_eq h'.symm
    · exact h'
  have hwf : ArgsWF a := fun p f hp => by rw [hm] at hp; exact Modulus.noConfusion hp
  obtain ⟨hv, _, _, _, _, _, _, _⟩ := secfld_order o ho a hwf F order minOrder h
  unfold resolve at h
  rw [bind_eq_ok] at h
  obtain ⟨⟨r, mo'⟩, hra, h⟩ := h
  rw [bind_eq_ok] at h
  obtain ⟨_, _, h⟩ := h
  rw [bind_eq_ok] at h
  obtain ⟨F', hF, h⟩ := h
  simp only [pure, Except.pure, Except.ok.injEq, Prod.mk.injEq] at h
  obtain ⟨rfl, _, _⟩ := h
  unfold resolveArgs at hra
  rw [bind_eq_ok] at hra
  obtain ⟨⟨c1, e1⟩, hso, hra⟩ := hra
  rw [bind_eq_ok] at hra
  obtain ⟨⟨c2, md2⟩, hsc, hra⟩ := hra
  have hO := stepOrder_ok hso
  rcases hO with ⟨_, hc1, he1⟩ | ⟨x, _, _, hx, _⟩
  swap
  · rw [hord] at hx; cases hx
  rw [hc] at hc1
  subst hc1 he1
  rw [hm] at hsc
  simp only [stepConv, pure, Except.pure, Except.ok.injEq, Prod.mk.injEq] at hsc
  obtain ⟨rfl, rfl⟩ := hsc
  simp only at hra
  obtain ⟨hmod, _, _, _, _, hlp, _⟩ := stepNone_ok hra
  obtain ⟨he, hch⟩ := hlp n hn rfl
  have hFc : F'.char = r.char ∧ F'.extDeg = r.extDeg := by
    rcases hmod with ⟨he1, hmd⟩ | ⟨hne1, hpr, hmd⟩
    · rw [hmd] at hF
      rcases mkField_ok hF with ⟨n', hmd', _, rfl⟩ | ⟨_, _, hmd', _⟩
      swap
      · cases hmd'
      · simp only [Modulus.int.injEq] at hmd'
        subst hmd'
        exact ⟨rfl, he1.symm⟩
    · rw [hmd] at hF
      rcases mkField_ok hF with ⟨_, hmd', _⟩ | ⟨p', f', hmd', _, rfl⟩
      · cases hmd'
      · simp only [Modulus.poly.injEq] at hmd'
        obtain ⟨rfl, rfl⟩ := hmd'
        have : 2 ≤ r.extDeg := by
          have : 1 ≤ r.extDeg := by rw [he]; exact hd1
          omega
        have := ho.find_deg r.char r.extDeg this
        simp only [this, Nat.add_sub_cancel, and_self]
  obtain ⟨lp1, lp2, lp3⟩ := SecFldCfg.leastPrimeGe_spec (ceilRoot n d)
  obtain ⟨cr1, cr2⟩ := SecFldCfg.ceilRoot_spec n d hd1
  refine ⟨hv.1, by rw [hFc.2, he], ?_, ?_⟩
  · rw [hFc.1, hch]
    exact cr1.trans (Nat.pow_le_pow_left lp2 d)
  · intro q hq hnq
    rw [hFc.1, hch]
    exact lp3 q hq (cr2 q hnq)

example : resolve ⟨irrBrute, findIrrBrute, fun b x => .ok (clog b x)⟩ ⟨none, .none, none, some 2, some 100⟩
    = .ok (⟨11, 2, 121, some [1, 0, 1]⟩, 121, 100) := by decide +kernel

/-- ★ `min_order` with given characteristic: the extension degree is the LEAST exponent e with c^e ≥ min_order (exact: since
the repo fix the code computes it with integers; the hypothesis "the floating-point ceil-log is exact" that this theorem
needed before is gone, and with it the defect SecFld(char=2, min_order=2^64+1) -> AssertionError) -/
theorem secfld_least_exponent (o : Oracles) (ho : OracleOK o) (a : Args)
    (hm : a.modulus = .none) (hord : a.order = none) (c n : Nat) (hc : a.char = some c)
    (he : a.extDeg = none) (hn : a.minOrder = some n) (hn2 : 2 ≤ n) (hc2 : 2 ≤ c)
    (F : Field) (order minOrder : Nat) (h : resolve o a = .ok (F, order, minOrder)) :
    F.char = c ∧ F.extDeg = clog c n ∧ n ≤ c ^ F.extDeg ∧ ∀ e, n ≤ c ^ e → F.extDeg ≤ e := by
  have hwf : ArgsWF a := fun p f hp => by rw [hm] at hp; exact Modulus.noConfusion hp
  obtain ⟨hv, _, hch, _, _, _, _, _⟩ := secfld_order o ho a hwf F order minOrder h
  have hcl := SecFldCfg.clog_spec c n hc2
  have hcl1 : 1 ≤ clog c n := by
    by_contra h0
    have : clog c n = 0 := by omega
    rw [this, Nat.pow_zero] at hcl
    omega
  unfold resolve at h
  rw [bind_eq_ok] at h
  obtain ⟨⟨r, mo'⟩, hra, h⟩ := h
  rw [bind_eq_ok] at h
  obtain ⟨_, _, h⟩ := h
  rw [bind_eq_ok] at h
  obtain ⟨F', hF, h⟩ := h
  simp only [pure, Except.pure, Except.ok.injEq, Prod.mk.injEq] at h
  obtain ⟨rfl, _, _⟩ := h
  unfold resolveArgs at hra
  rw [bind_eq_ok] at hra
  obtain ⟨⟨c1, e1⟩, hso, hra⟩ := hra
  rw [bind_eq_ok] at hra
  obtain ⟨⟨c2, md2⟩, hsc, hra⟩ := hra
  rcases stepOrder_ok hso with ⟨_, hc1, he1⟩ | ⟨x, _, _, hx, _⟩
  swap
  · rw [hord] at hx; cases hx
  rw [hc] at hc1
  rw [he] at he1
  subst hc1 he1
  rw [hm] at hsc
  simp only [stepConv, pure, Except.pure, Except.ok.injEq, Prod.mk.injEq] at hsc
  obtain ⟨rfl, rfl⟩ := hsc
  simp only at hra
  obtain ⟨hmod, _, _, _, _, _, hfl⟩ := stepNone_ok hra
  obtain ⟨hcle, hrc⟩ := hfl n c hn rfl rfl
  have hcle := hcle.symm
  have hdeg : F'.extDeg = r.extDeg := by
    rcases hmod with ⟨he1, hmd⟩ | ⟨hne1, hpr, hmd⟩
    · rw [hmd] at hF
      rcases mkField_ok hF with ⟨n', hmd', _, rfl⟩ | ⟨_, _, hmd', _⟩
      swap
      · cases hmd'
      · exact he1.symm
    · rw [hmd] at hF
      rcases mkField_ok hF with ⟨_, hmd', _⟩ | ⟨p', f', hmd', _, rfl⟩
      · cases hmd'
      · simp only [Modulus.poly.injEq] at hmd'
        obtain ⟨rfl, rfl⟩ := hmd'
        have := ho.find_deg r.char r.extDeg (by omega)
        simp only [this, Nat.add_sub_cancel]
  have hce := hch c ⟨hc, by omega⟩
  refine ⟨hce, by rw [hdeg, ← hcle], ?_, ?_⟩
  · rw [hdeg, ← hcle]; exact hcl.1
  · intro e hne; rw [hdeg, ← hcle]; exact hcl.2 e hne

/-! ### lifting -/

/-- ★ `_SecFld`: a field that is too small for the number of parties (t > 0, q ≤ m) is replaced by
an extension GF(q^e) with q^e > m, e ≥ 2 (the base field is kept as `subfield`); otherwise the
field is used as is.  In every case the sharing field exceeds m when t > 0.  `hfl`: the float
ceil-log is not below the exact one (checked exhaustively by the tie). -/
theorem lift_spec (o : Oracles) (ho : OracleOK o) (m t : Nat) (F : Field) (hF : F.Valid)
    (hfl : ∀ e, o.ceilLog F.order (m + 1) = .ok e → clog F.order (m + 1) ≤ e)
    (ty : SecFldType) (h : lift o m t F = .ok ty) :
    ((t = 0 ∨ m < F.order) → ty = ⟨F, none⟩) ∧
    (¬ (t = 0 ∨ m < F.order) →
      ty.subfield = some F ∧ F.extDeg = 1 ∧ ty.field.char = F.char ∧ 2 ≤ ty.field.extDeg ∧
      ty.field.order = F.order ^ ty.field.extDeg ∧
      o.ceilLog F.order (m + 1) = .ok ty.field.extDeg) ∧
    (t = 0 ∨ m < ty.field.order) := by
  unfold lift at h
  by_cases hsmall : t = 0 ∨ m < F.order
  · have hb : (t == 0 || decide (m < F.order)) = true := by
      rcases hsmall with h0 | h1
      · simp [h0]
      · simp [h1]
    simp only [hb, ↓reduceIte, Except.ok.injEq] at h
    subst h
    exact ⟨fun _ => rfl, fun hn => absurd hsmall hn, hsmall⟩
  · have hb : (t == 0 || decide (m < F.order)) = false := by
      simp only [not_or, Nat.not_lt] at hsmall
      have h1 : ¬ t = 0 := hsmall.1
      have h2 : ¬ m < F.order := by omega
      simp [h1, h2]
    simp only [hb, Bool.false_eq_true, ↓reduceIte] at h
    rw [bind_eq_ok] at h
    obtain ⟨_, hext, h⟩ := h
    rw [check_eq_ok, beq_iff_eq] at hext
    rw [bind_eq_ok] at h
    obtain ⟨e, hcl, h⟩ := h
    rw [bind_eq_ok] at h
    obtain ⟨big, hbig, h⟩ := h
    simp only [pure, Except.pure, Except.ok.injEq] at h
    subst h
    have hq : F.order = F.char := by rw [hF.2.2, hext, Nat.pow_one]
    have hq2 : 2 ≤ F.order := by rw [hq]; exact hF.1.two_le
    have hmq : F.order ≤ m := by
      simp only [not_or, Nat.not_lt] at hsmall; exact hsmall.2
    have hcle := hfl e hcl
    have hclog := SecFldCfg.clog_spec F.order (m + 1) hq2
    have he2 : 2 ≤ e := by
      by_contra hlt
      have h1 : clog F.order (m + 1) ≤ 1 := by omega
      have := hclog.1
      have h2 : F.order ^ clog F.order (m + 1) ≤ F.order ^ 1 := Nat.pow_le_pow_right (by omega) h1
      rw [Nat.pow_one] at h2
      omega
    unfold gfPoly at hbig
    split at hbig
    · simp only [Except.ok.injEq] at hbig
      subst hbig
      have hlen := ho.find_deg F.char e he2
      have hord : F.char ^ ((o.findIrr F.char e).length - 1) = F.order ^ e := by
        rw [hlen, Nat.add_sub_cancel, hq]
      refine ⟨fun hs => absurd hs hsmall, fun _ => ⟨rfl, hext, rfl, ?_, ?_, ?_⟩, Or.inr ?_⟩
      · simp only [hlen, Nat.add_sub_cancel]; exact he2
      · simp only [hlen, Nat.add_sub_cancel]; rw [hq]
      · simp only [hlen, Nat.add_sub_cancel]; exact hcl
      · simp only
        rw [hord]
        have : F.order ^ clog F.order (m + 1) ≤ F.order ^ e := Nat.pow_le_pow_right (by omega) hcle
        omega
    · cases hbig

example : lift ⟨irrBrute, findIrrBrute, fun b x => .ok (clog b x)⟩ 5 2 ⟨2, 1, 2, none⟩
    = .ok ⟨⟨2, 3, 8, some [1, 1, 0, 1]⟩, some ⟨2, 1, 2, none⟩⟩ := by decide +kernel

/-- small extension fields are not lifted but refused (`assert field.ext_deg == 1`): no type with a
field of at most m elements is ever created -/
theorem lift_refuses_small_extension (o : Oracles) (m t : Nat) (F : Field)
    (hs : ¬ (t = 0 ∨ m < F.order)) (hd : F.extDeg ≠ 1) : lift o m t F = .error .assertionError := by
  unfold lift
  have hb : (t == 0 || decide (m < F.order)) = false := by
    simp only [not_or, Nat.not_lt] at hs
    have h1 : ¬ t = 0 := hs.1
    have h2 : ¬ m < F.order := by omega
    simp [h1, h2]
  have hc : (F.extDeg == 1) = false := by simpa using hd
  simp [hb, hc, check, bind, Except.bind]

/-- ★ outputs are mapped back to the base field: the embedding of c ∈ GF(p) into the extension
(the constant polynomial) is converted back to c -/
theorem lift_output_roundtrip (p c : Nat) (hc : c < p) : outConv p (embed c) = .ok c := by
  unfold outConv embed
  by_cases h0 : c = 0
  · subst h0; simp [toInt]
  · simp [h0, toInt, Nat.mod_eq_of_lt hc]

/-- a value that is not a constant of the extension is not converted (assert) -/
example : outConv 2 [0, 1] = .error .assertionError := by decide

/-! ### threshold -/

/-- ★ `setup()`: the default threshold (m-1)//2 satisfies 0 ≤ t, 2t < m and is the largest such t;
an explicit threshold is accepted iff 0 ≤ t and 2t < m; any 2t ≥ m is refused (AssertionError), a negative one too
(ValueError of the setter). -/
theorem threshold_valid (m : Int) (hm : 1 ≤ m) :
    (∃ t, setupThreshold m none = .ok t ∧ 0 ≤ t ∧ 2 * t < m ∧ m ≤ 2 * (t + 1)) ∧
    (∀ t, 0 ≤ t → 2 * t < m → setupThreshold m (some t) = .ok t) ∧
    (∀ t, m ≤ 2 * t → setupThreshold m (some t) = .error .assertionError) ∧
    (∀ topt t, setupThreshold m topt = .ok t → 0 ≤ t ∧ 2 * t < m) := by
  refine ⟨⟨(m - 1) / 2, ?_, by omega, by omega, by omega⟩, ?_, ?_, ?_⟩
  · unfold setupThreshold setThreshold
    have h1 : 2 * ((m - 1) / 2) < m := by omega
    have h2 : 0 ≤ 2 * ((m - 1) / 2) := by omega
    simp [h1, h2]
  · intro t h0 ht
    unfold setupThreshold setThreshold
    have h2 : 0 ≤ 2 * t := by omega
    simp [ht, h2]
  · intro t ht
    unfold setupThreshold
    have : ¬ 2 * t < m := by omega
    simp [this]
  · intro topt t h
    unfold setupThreshold setThreshold at h
    cases topt with
    | none =>
      simp only at h
      split at h
      · split at h
        · simp only [Except.ok.injEq] at h
          omega
        · cases h
      · cases h
    | some t0 =>
      simp only at h
      split at h
      · split at h
        · simp only [Except.ok.injEq] at h
          omega
        · cases h
      · cases h

/-- ★ assigning `mpc.threshold` at run time: accepted iff 0 ≤ 2t < m, refused (ValueError) otherwise — in particular every
threshold with 2t ≥ m is refused here too -/
theorem set_threshold_valid (m t : Int) :
    (0 ≤ t → 2 * t < m → setThreshold m t = .ok t) ∧ (m ≤ 2 * t → setThreshold m t = .error .valueError) ∧
    (t < 0 → setThreshold m t = .error .valueError) ∧ (∀ t', setThreshold m t = .ok t' → t' = t ∧ 0 ≤ t ∧ 2 * t < m) := by
  unfold setThreshold
  refine ⟨fun h0 h1 => ?_, fun h => ?_, fun h => ?_, fun t' h => ?_⟩
  · have : 0 ≤ 2 * t := by omega
    simp [this, h1]
  · have : ¬ 2 * t < m := by omega
    simp [this]
  · have : ¬ 0 ≤ 2 * t := by omega
    simp [this]
  · split at h
    · simp only [Except.ok.injEq] at h
      omega
    · cases h

example : setupThreshold 7 none = .ok 3 ∧ setupThreshold 8 none = .ok 3 ∧
    setupThreshold 8 (some 4) = .error .assertionError ∧ setupThreshold 1 none = .ok 0 ∧
    setupThreshold 3 (some (-1)) = .error .valueError ∧ setThreshold 3 2 = .error .valueError := by decide

/-! ### `_pfield` (SecInt, SecFxp, SecFlt) -/

/-- ★ `_pfield`: the modulus passed the primality test of `pGF`, exceeds the number of parties
whenever t > 0, is the requested prime if one was given — which must have more than l+f+k+1 bits —
and otherwise the prime found for l+f+k+2 bits. -/
theorem pfield_spec (fp : Nat → Nat → Nat) (prO : Nat → Bool) (l f k : Nat) (p : Option Nat)
    (n m t q : Nat) (h : pfield fp prO l f k p n m t = .ok q) :
    prO q = true ∧ (t = 0 ∨ m < q) ∧
    (∀ p0, p = some p0 → q = p0 ∧ 2 ^ (l + f + k + 1) ≤ p0) ∧
    (p = none → q = fp (l + f + k + 2) n) := by
  unfold pfield at h
  rw [bind_eq_ok] at h
  obtain ⟨q', hq, h⟩ := h
  rw [bind_eq_ok] at h
  obtain ⟨_, hpr, h⟩ := h
  rw [bind_eq_ok] at h
  obtain ⟨_, hchk, h⟩ := h
  simp only [pure, Except.pure, Except.ok.injEq] at h
  subst h
  rw [check_eq_ok] at hchk
  have hprime : prO q' = true := by
    unfold requirePrime at hpr
    split at hpr
    · assumption
    · cases hpr
  refine ⟨hprime, ?_, ?_, ?_⟩
  · simp only [Bool.or_eq_true, beq_iff_eq, decide_eq_true_eq] at hchk
    exact hchk
  · intro p0 hp0
    subst hp0
    simp only [pickPrime] at hq
    split at hq
    · cases hq
    · rename_i hbl
      simp only [pure, Except.pure, Except.ok.injEq] at hq
      refine ⟨hq.symm, ?_⟩
      rw [bitLength_le_iff] at hbl
      omega
  · intro hp
    subst hp
    simp only [pickPrime, pure, Except.pure, Except.ok.injEq] at hq
    exact hq.symm

example : pfield (fun _ _ => 251) (fun _ => true) 4 0 2 none 2 9 4 = .ok 251 := by decide
example : pfield (fun _ _ => 7) (fun _ => true) 0 0 1 none 2 9 4 = .error .assertionError := by decide
example : pfield (fun _ _ => 0) (fun _ => true) 4 0 2 (some 127) 2 3 1 = .error .valueError := by decide

/-- ★ Every secure type's field has more elements than there are parties whenever t > 0: for SecFld
(with or without lifting) and for the prime fields of SecInt / SecFxp / SecFlt. -/
theorem field_exceeds_parties (o : Oracles) (ho : OracleOK o) (m t : Nat) (ht : 0 < t) :
    (∀ F, F.Valid → (∀ e, o.ceilLog F.order (m + 1) = .ok e → clog F.order (m + 1) ≤ e) →
      ∀ ty, lift o m t F = .ok ty → m < ty.field.order) ∧
    (∀ fp prO l f k p n q, pfield fp prO l f k p n m t = .ok q → m < q) := by
  constructor
  · intro F hF hfl ty h
    rcases (lift_spec o ho m t F hF hfl ty h).2.2 with h0 | h1
    · omega
    · exact h1
  · intro fp prO l f k p n q h
    rcases (pfield_spec fp prO l f k p n m t q h).2.1 with h0 | h1
    · omega
    · exact h1

end MpycV.C39
