/-
C05 — secure floating-point arithmetic approximates float arithmetic (LEVEL `other`).

Model: MpycV.Model.Flt on top of MpycV.Model.Fxp.  A secure float is `(S, E)` meaning `S.A/2^f · 2^E`
(`f = s-1`, `l = s+1` for an `s`-bit significand; `u = 2^-f`).
Proved here, for every randomness of the truncation:
  * `mul_value`     the product denotes `σ·2^(E1+E2)` with `σ` (on the `2^-f` scale) less than one unit
                    from the exact product of the significands — relative error `< 4u ≤ 16u` for
                    normalised operands;
  * `norm_inv_mul`  the product of normalised operands is normalised (0 or `1/2 ≤ |S|/2^f ≤ 1`);
  * `neg_exact`, `cmp_sign`, `output_zero_exponent`, `io_exact`, `io_bound` (input within `u·|x|`).
Validated only (harness/props/c05.py): bounds of `+`, `-`, `/`, exactness of comparisons for separated
operands, normalisation after addition (known finding C05-add-zero-operand lives there).
-/
import MpycV.Props.C02
import MpycV.Lemmas.FxpFlt

namespace MpycV.C05
open MpycV.Fxp MpycV.Flt

/-- significand type of `SecFlt(s=11, e=·)`: `SecFxp(12, 10)`, default security parameter -/
def P1210 : Nat := 18014398509481951
def T1210 : Ty := ⟨12, 10, 30, P1210⟩

/-! ### negation, comparisons, output -/

theorem neg_exact (a : F) : (Flt.neg a).S.A = -a.S.A ∧ (Flt.neg a).E = a.E ∧ (Flt.neg a).S.flag = a.S.flag :=
  ⟨rfl, rfl, rfl⟩

/-- `x < y`, `x == y`, … are computed from the significand of `x - y` only: its sign / zero test -/
theorem cmp_sign (d : F) : (ltBit d = 1 ↔ d.S.A < 0) ∧ (eqBit d = 1 ↔ d.S.A = 0) ∧
    (ltBit d = 0 ∨ ltBit d = 1) ∧ (eqBit d = 0 ∨ eqBit d = 1) := by
  unfold ltBit eqBit
  refine ⟨?_, ?_, ?_, ?_⟩ <;> split <;> simp_all
example : ltBit ⟨⟨-3, false⟩, 5⟩ = 1 ∧ eqBit ⟨⟨-3, false⟩, 5⟩ = 0 := by decide

/-- `_output` opens exponent 0 for a zero significand (whatever exponent the pair carries) -/
theorem output_zero_exponent (t : Ty) (a : F) (h : outS t a = 0) : outE t a = 0 := by
  unfold outE; unfold outS at h; simp [h]
example : outE T1210 ⟨⟨0, false⟩, -10⟩ = 0 ∧ outE T1210 ⟨⟨512, false⟩, -10⟩ = -10 := by decide

/-! ### input conversion -/

/-- enough fractional bits: the significand is exact -/
theorem io_exact (t : Ty) (x : Dy) (e : Int) (hm : x.m ≠ 0) (hsh : 0 ≤ x.e - e + (t.f : Int)) :
    (Flt.ofFloat t x e).S.A = x.m * (2 : Int) ^ (x.e - e + (t.f : Int)).toNat ∧ (Flt.ofFloat t x e).E = e := by
  unfold Flt.ofFloat ofFloatNoFlag scaleRound
  simp [hm, hsh]

/-- **io_bound**: for `x = m·2^q ≠ 0` and the exponent `e` the code computes (`|x| ≥ 2^(e-1)`, hypothesis
`hlow`, stated as `2^(e-q) ≤ 2|m|`), the stored significand `S` satisfies `|S·2^(e-f) − x| ≤ 2^-f·|x|`
(stated after multiplying by `2^(e-q-f)·2^f`), i.e. input is within `u|x| ≤ 2u|x|`. -/
theorem io_bound (t : Ty) (x : Dy) (e : Int) (hm : x.m ≠ 0) (hsh : x.e - e + (t.f : Int) < 0)
    (hlow : (2 : Int) ^ (-(x.e - e + (t.f : Int))).toNat * (2 : Int) ^ t.f ≤ 2 * |x.m|) :
    (2 : Int) ^ t.f * |(Flt.ofFloat t x e).S.A * (2 : Int) ^ (-(x.e - e + (t.f : Int))).toNat - x.m| ≤ |x.m| ∧
      (Flt.ofFloat t x e).E = e := by
  have hS : (Flt.ofFloat t x e).S.A = roundHalfEven x.m (-(x.e - e + (t.f : Int))).toNat := by
    unfold Flt.ofFloat ofFloatNoFlag scaleRound
    simp only [hm, if_false]
    rw [if_neg (by omega)]
  have hE : (Flt.ofFloat t x e).E = e := by unfold Flt.ofFloat; simp [hm]
  refine ⟨?_, hE⟩
  rw [hS]
  have h1 := C02.roundHalfEven_err x.m (-(x.e - e + (t.f : Int))).toNat
  have hF : (0 : Int) < (2 : Int) ^ t.f := two_pow_pos _
  set S := (2 : Int) ^ (-(x.e - e + (t.f : Int))).toNat
  set err := |roundHalfEven x.m (-(x.e - e + (t.f : Int))).toNat * S - x.m|
  have h2 : (2 : Int) ^ t.f * (2 * err) ≤ (2 : Int) ^ t.f * S := mul_le_mul_of_nonneg_left h1 hF.le
  nlinarith
example : (Flt.ofFloat T1210 ⟨5404319552844595, -54⟩ (-1)) = ⟨⟨614, false⟩, -1⟩ ∧
    (Flt.ofFloat T1210 ⟨3, -1⟩ 1) = ⟨⟨768, false⟩, 1⟩ ∧ (Flt.ofFloat T1210 ⟨0, 0⟩ 0) = ⟨⟨0, false⟩, 0⟩ := by decide

/-! ### product -/

theorem bitAt_bit (x : Int) (i : Nat) : bitAt x i = 0 ∨ bitAt x i = 1 := by
  unfold bitAt; omega

theorem sq_bit (x y : Int) (hx : x = 0 ∨ x = 1) (hy : y = 0 ∨ y = 1) : (x - y) ^ 2 = 0 ∨ (x - y) ^ 2 = 1 := by
  rcases hx with rfl | rfl <;> rcases hy with rfl | rfl <;> simp

/-- value of `if_else(c, s, 2s)` for a bit `c`: `s` or `2s` (the selection is exact: `c` is integral) -/
theorem select_value {t : Ty} (hodd : t.p % 2 = 1) (s : V) (c : Int) (hc : c = 0 ∨ c = 1) (hfit : Fits t.p s.A) :
    (ifElse t (ofBit t.f c) s (mulInt s 2)).A = c * (-s.A) + 2 * s.A := by
  unfold ifElse Fxp.add mulSS ofBit Fxp.sub mulInt
  simp only [Bool.true_or, if_true]
  have hd : (2 : Int) ^ t.f ∣ c * (2 : Int) ^ t.f * (s.A - s.A * 2) := Dvd.dvd.mul_right (Dvd.intro_left _ rfl) _
  have hq : c * (2 : Int) ^ t.f * (s.A - s.A * 2) / (2 : Int) ^ t.f = c * (-s.A) := by
    have : c * (2 : Int) ^ t.f * (s.A - s.A * 2) = (2 : Int) ^ t.f * (c * (-s.A)) := by ring
    rw [this, Int.mul_ediv_cancel_left _ (two_pow_pos _).ne']
  have hF : Fits t.p (c * (2 : Int) ^ t.f * (s.A - s.A * 2) / (2 : Int) ^ t.f) := by
    rw [hq]; unfold Fits at hfit ⊢
    rcases hc with rfl | rfl
    · simp; have := abs_nonneg s.A; omega
    · simpa using hfit
  rw [rsh_of_dvd_fits hodd hd hF, hq]; ring

/-- **mul_value**: the secure product `(S, E)` of `a` and `b` is `(σ, E1+E2)` or `(2σ, E1+E2-1)` — the same
number `σ·2^(E1+E2-f)` — where `σ` is less than one unit from the exact product of the significands,
for every flag combination and every randomness of the truncation. -/
theorem mul_value {t : Ty} (hodd : t.p % 2 = 1) {a b : F} (ha : FInv t.f a.S) (hb : FInv t.f b.S)
    (r : Rnd) (hbits : IsBits r.1) (hlen : r.1.length = t.f) (hl : 0 < t.l)
    (hlo : 0 ≤ a.S.A * b.S.A + (2 : Int) ^ (t.l + t.f - 1) + r.2 * (2 : Int) ^ t.f)
    (hhi : a.S.A * b.S.A + (2 : Int) ^ t.f + (2 : Int) ^ (t.l + t.f - 1) + r.2 * (2 : Int) ^ t.f ≤ t.p)
    (hfit : 2 * (|a.S.A * b.S.A / (2 : Int) ^ t.f| + 1) < t.p)
    (hfit2 : Fits t.p (mulSS t a.S b.S r).A) :
    |(mulSS t a.S b.S r).A * (2 : Int) ^ t.f - a.S.A * b.S.A| < (2 : Int) ^ t.f ∧
    (((Flt.mul t a b r).S.A = (mulSS t a.S b.S r).A ∧ (Flt.mul t a b r).E = a.E + b.E) ∨
     ((Flt.mul t a b r).S.A = 2 * (mulSS t a.S b.S r).A ∧ (Flt.mul t a b r).E = a.E + b.E - 1)) := by
  refine ⟨C02.mul_within_one_unit hodd ha hb r hbits hlen hl hlo hhi hfit, ?_⟩
  unfold Flt.mul
  simp only []
  set s := mulSS t a.S b.S r with hs
  set c := (bitAt (norm t.p s.A) (t.l - 2) - bitAt (norm t.p s.A) (t.l - 3)) ^ 2 with hc
  have hcb : c = 0 ∨ c = 1 := sq_bit _ _ (bitAt_bit _ _) (bitAt_bit _ _)
  rw [select_value hodd s c hcb hfit2]
  rcases hcb with h | h <;> rw [h]
  · right; constructor <;> ring
  · left; constructor <;> ring
example : Flt.mul T1210 ⟨⟨768, false⟩, 1⟩ ⟨⟨-512, false⟩, 0⟩ ([0, 0, 0, 0, 0, 0, 0, 0, 0, 0], 3) = ⟨⟨-768, false⟩, 0⟩ ∧
    Flt.mul T1210 ⟨⟨1024, false⟩, 1⟩ ⟨⟨-1024, false⟩, 0⟩ ([1, 1, 1, 1, 1, 1, 1, 1, 1, 1], 3) = ⟨⟨-1024, false⟩, 1⟩ := by decide

theorem ediv_eq_of {x M q : Int} (hM : 0 < M) (h1 : q * M ≤ x) (h2 : x < (q + 1) * M) : x / M = q := by
  apply le_antisymm
  · have := Int.ediv_lt_of_lt_mul hM h2; omega
  · exact Int.le_ediv_of_mul_le hM h1

/-- the renormalisation step of `__mul__` on the integer level: `D = 2^(f-2)`, bits `f` and `f-1` of `s` -/
theorem renorm_core (s D : Int) (hD : 0 < D)
    (hr : s = 0 ∨ (D ≤ s ∧ s ≤ 4 * D) ∨ (-(4 * D) ≤ s ∧ s ≤ -D)) :
    let c := ((s / (4 * D)) % 2 - (s / (2 * D)) % 2) ^ 2
    let o := c * (-s) + 2 * s
    o = 0 ∨ (2 * D ≤ o ∧ o ≤ 4 * D) ∨ (-(4 * D) ≤ o ∧ o ≤ -(2 * D)) := by
  intro c o
  have h4 : (0 : Int) < 4 * D := by omega
  have h2 : (0 : Int) < 2 * D := by omega
  rcases hr with rfl | ⟨h1, h2'⟩ | ⟨h1, h2'⟩
  · left; simp [o]
  · right; left
    rcases lt_or_ge s (2 * D) with hlt | hge
    · have q4 : s / (4 * D) = 0 := ediv_eq_of h4 (by omega) (by omega)
      have q2 : s / (2 * D) = 0 := ediv_eq_of h2 (by omega) (by omega)
      simp only [o, c, q4, q2]; norm_num; omega
    · rcases lt_or_ge s (4 * D) with hlt | hge4
      · have q4 : s / (4 * D) = 0 := ediv_eq_of h4 (by omega) (by omega)
        have q2 : s / (2 * D) = 1 := ediv_eq_of h2 (by omega) (by omega)
        simp only [o, c, q4, q2]; norm_num; omega
      · have hs : s = 4 * D := by omega
        have q4 : s / (4 * D) = 1 := ediv_eq_of h4 (by omega) (by omega)
        have q2 : s / (2 * D) = 2 := ediv_eq_of h2 (by omega) (by omega)
        simp only [o, c, q4, q2]; norm_num; omega
  · right; right
    rcases lt_or_ge s (-(2 * D)) with hlt | hge
    · have q4 : s / (4 * D) = -1 := ediv_eq_of h4 (by omega) (by omega)
      have q2 : s / (2 * D) = -2 := ediv_eq_of h2 (by omega) (by omega)
      simp only [o, c, q4, q2]; norm_num; omega
    · have q4 : s / (4 * D) = -1 := ediv_eq_of h4 (by omega) (by omega)
      have q2 : s / (2 * D) = -1 := ediv_eq_of h2 (by omega) (by omega)
      simp only [o, c, q4, q2]; norm_num; omega

/-- a product of two normalised significands, truncated to within one unit, lies in `[D, 4D]` in absolute
value (or is 0 when a factor is 0); `F = 2^f = 4D` -/
theorem prod_range (x y s D : Int) (hD : 0 < D)
    (hx : x = 0 ∨ (2 * D ≤ x ∧ x ≤ 4 * D) ∨ (-(4 * D) ≤ x ∧ x ≤ -(2 * D)))
    (hy : y = 0 ∨ (2 * D ≤ y ∧ y ≤ 4 * D) ∨ (-(4 * D) ≤ y ∧ y ≤ -(2 * D)))
    (hs : |s * (4 * D) - x * y| < 4 * D) :
    s = 0 ∨ (D ≤ s ∧ s ≤ 4 * D) ∨ (-(4 * D) ≤ s ∧ s ≤ -D) := by
  rw [abs_lt] at hs
  obtain ⟨hs1, hs2⟩ := hs
  have key : ∀ (P : Int), 4 * D * D ≤ P → P ≤ 16 * D * D → -(4 * D) < s * (4 * D) - P → s * (4 * D) - P < 4 * D →
      D ≤ s ∧ s ≤ 4 * D := by
    intro P p1 p2 a1 a2
    constructor
    · by_contra hcon
      have : s ≤ D - 1 := by omega
      nlinarith
    · by_contra hcon
      have : 4 * D + 1 ≤ s := by omega
      nlinarith
  have keyn : ∀ (P : Int), 4 * D * D ≤ P → P ≤ 16 * D * D → -(4 * D) < s * (4 * D) + P → s * (4 * D) + P < 4 * D →
      -(4 * D) ≤ s ∧ s ≤ -D := by
    intro P p1 p2 a1 a2
    constructor
    · by_contra hcon
      have : s ≤ -(4 * D) - 1 := by omega
      nlinarith
    · by_contra hcon
      have : -D + 1 ≤ s := by omega
      nlinarith
  rcases hx with rfl | ⟨x1, x2⟩ | ⟨x1, x2⟩
  · left
    simp only [zero_mul, sub_zero] at hs1 hs2
    by_contra hne
    rcases lt_or_gt_of_ne hne with h | h
    · have : s ≤ -1 := by omega
      nlinarith
    · have : 1 ≤ s := by omega
      nlinarith
  · rcases hy with rfl | ⟨y1, y2⟩ | ⟨y1, y2⟩
    · left
      simp only [mul_zero, sub_zero] at hs1 hs2
      by_contra hne
      rcases lt_or_gt_of_ne hne with h | h
      · have : s ≤ -1 := by omega
        nlinarith
      · have : 1 ≤ s := by omega
        nlinarith
    · right; left
      exact key (x * y) (by nlinarith) (by nlinarith) hs1 hs2
    · right; right
      exact keyn (x * (-y)) (by nlinarith) (by nlinarith) (by nlinarith) (by nlinarith)
  · rcases hy with rfl | ⟨y1, y2⟩ | ⟨y1, y2⟩
    · left
      simp only [mul_zero, sub_zero] at hs1 hs2
      by_contra hne
      rcases lt_or_gt_of_ne hne with h | h
      · have : s ≤ -1 := by omega
        nlinarith
      · have : 1 ≤ s := by omega
        nlinarith
    · right; right
      exact keyn ((-x) * y) (by nlinarith) (by nlinarith) (by nlinarith) (by nlinarith)
    · right; left
      exact key ((-x) * (-y)) (by nlinarith) (by nlinarith) (by nlinarith) (by nlinarith)

/-- **norm_inv_mul**: for a significand type with `l = f + 2`, `f ≥ 2` (`SecFlt`: `l = s+1`, `f = s-1`), the
product of two normalised secure floats is normalised, for every randomness of the truncation. -/
theorem norm_inv_mul {t : Ty} (hodd : t.p % 2 = 1) (hlf : t.l = t.f + 2) (hf2 : 2 ≤ t.f) {a b : F}
    (ha : FInv t.f a.S) (hb : FInv t.f b.S) (na : Normal t a) (nb : Normal t b)
    (r : Rnd) (hbits : IsBits r.1) (hlen : r.1.length = t.f)
    (hlo : 0 ≤ a.S.A * b.S.A + (2 : Int) ^ (t.l + t.f - 1) + r.2 * (2 : Int) ^ t.f)
    (hhi : a.S.A * b.S.A + (2 : Int) ^ t.f + (2 : Int) ^ (t.l + t.f - 1) + r.2 * (2 : Int) ^ t.f ≤ t.p)
    (hfit : 2 * (|a.S.A * b.S.A / (2 : Int) ^ t.f| + 1) < t.p)
    (hfit2 : Fits t.p (mulSS t a.S b.S r).A) :
    Normal t (Flt.mul t a b r) := by
  have hone := C02.mul_within_one_unit hodd ha hb r hbits hlen (by omega) hlo hhi hfit
  set D : Int := (2 : Int) ^ (t.f - 2) with hD
  have hDpos : 0 < D := two_pow_pos _
  have hF : (2 : Int) ^ t.f = 4 * D := by
    have : t.f = (t.f - 2) + 2 := by omega
    rw [hD]; conv_lhs => rw [this, pow_add]
    ring
  have hF1 : (2 : Int) ^ (t.f - 1) = 2 * D := by
    have : t.f - 1 = (t.f - 2) + 1 := by omega
    rw [hD, this, pow_succ]; ring
  unfold Normal at na nb ⊢
  rw [hF, hF1] at na nb
  rw [hF] at hone
  set s := mulSS t a.S b.S r with hs
  have hrange := prod_range a.S.A b.S.A s.A D hDpos
    (by rcases na with h | h | h <;> [left; (right; left); (right; right)] <;> exact h)
    (by rcases nb with h | h | h <;> [left; (right; left); (right; right)] <;> exact h) hone
  -- value of the result
  have hval : (Flt.mul t a b r).S.A =
      ((s.A / (4 * D)) % 2 - (s.A / (2 * D)) % 2) ^ 2 * (-s.A) + 2 * s.A := by
    unfold Flt.mul
    simp only []
    rw [← hs]
    have hcb := sq_bit _ _ (bitAt_bit (norm t.p s.A) (t.l - 2)) (bitAt_bit (norm t.p s.A) (t.l - 3))
    rw [select_value hodd s _ hcb hfit2, norm_of_fits hfit2]
    have e1 : t.l - 2 = t.f := by omega
    have e2 : t.l - 3 = t.f - 1 := by omega
    unfold bitAt
    rw [e1, e2, hF, hF1]
  rw [hval, hF, hF1]
  exact renorm_core s.A D hDpos hrange
example : Normal T1210 (Flt.mul T1210 ⟨⟨768, false⟩, 1⟩ ⟨⟨-512, false⟩, 0⟩ ([0, 0, 0, 0, 0, 0, 0, 0, 0, 0], 3)) := by
  unfold Normal; decide

/-! ### addition: renormalisation -/

/-- the normalisation factor `N·2^(f-(l-1))` evaluates to `2^(i-1)` (as scaled integer `2^i·2^(f-1)`), flag False -/
theorem normFactor_eval {t : Ty} (hodd : t.p % 2 = 1) (hlf : t.l = t.f + 2) (hf1 : 1 ≤ t.f) (i : Nat)
    (hfit : Fits t.p ((2 : Int) ^ i * (2 : Int) ^ (t.f - 1))) :
    normFactor t i = ⟨(2 : Int) ^ i * (2 : Int) ^ (t.f - 1), false⟩ := by
  have he : ((t.f : Int) - ((t.l : Int) - 1)) = -1 := by rw [hlf]; push_cast; ring
  have hB : scaleRound t.f ⟨1, (t.f : Int) - ((t.l : Int) - 1)⟩ = (2 : Int) ^ (t.f - 1) := by
    unfold scaleRound
    simp only [he]
    rw [if_pos (by omega)]
    have : (-1 + (t.f : Int)).toNat = t.f - 1 := by omega
    rw [this, one_mul]
  have hz : zOf t.f ((2 : Int) ^ (t.f - 1)) = t.f - 1 := by
    unfold zOf
    rw [if_neg (two_pow_pos _).ne']
    have : ((2 : Int) ^ (t.f - 1)).natAbs = 2 ^ (t.f - 1) := by
      rw [Int.natAbs_pow]; rfl
    rw [this, tz_two_pow]; omega
  unfold normFactor mulFloat
  simp only [hB, hz]
  have hne : ¬ ((t.f - 1 == t.f) = true) := by simp; omega
  simp only [hne, if_false, if_true, Bool.and_false]
  have h1 : t.f - (t.f - 1) = 1 := by omega
  have hdiv : (2 : Int) ^ (t.f - 1) / (2 : Int) ^ (t.f - 1) = 1 := Int.ediv_self (two_pow_pos _).ne'
  rw [hdiv, mul_one, h1]
  have hsplit : (2 : Int) ^ i * (2 : Int) ^ t.f = (2 : Int) ^ 1 * ((2 : Int) ^ i * (2 : Int) ^ (t.f - 1)) := by
    have : t.f = (t.f - 1) + 1 := by omega
    conv_lhs => rw [this, pow_succ]
    ring
  have hd : (2 : Int) ^ 1 ∣ (2 : Int) ^ i * (2 : Int) ^ t.f := by rw [hsplit]; exact Dvd.intro _ rfl
  have hq : (2 : Int) ^ i * (2 : Int) ^ t.f / (2 : Int) ^ 1 = (2 : Int) ^ i * (2 : Int) ^ (t.f - 1) := by
    rw [hsplit, Int.mul_ediv_cancel_left _ (two_pow_pos 1).ne']
  rw [rsh_of_dvd_fits hodd hd (by rw [hq]; exact hfit), hq]
  simp
example : normFactor T1210 0 = ⟨512, false⟩ ∧ normFactor T1210 3 = ⟨4096, false⟩ := by decide

/-- integer core of the renormalisation: `K = l-1` magnitude bits, `-2^K ≤ s ≤ 2^K`, `i` the index found
by the leading-bit search, `o` the truncated `s·2^(i-1)` (within half a unit: `|2o − s·2^i| ≤ 1`);
then `o = 0` or `2^(K-2) ≤ |o| ≤ 2^(K-1)` -/
theorem add_renorm_core (s o : Int) (K : Nat) (hK : 2 ≤ K) (h0 : -(2 : Int) ^ K ≤ s) (h1 : s ≤ (2 : Int) ^ K)
    (ho : |2 * o - s * (2 : Int) ^ (findIdx s (1 - bitAt s K) K 0)| ≤ 1) :
    o = 0 ∨ ((2 : Int) ^ (K - 2) ≤ o ∧ o ≤ (2 : Int) ^ (K - 1)) ∨ (-(2 : Int) ^ (K - 1) ≤ o ∧ o ≤ -(2 : Int) ^ (K - 2)) := by
  have hKpos : (0 : Int) < (2 : Int) ^ K := two_pow_pos K
  have e1 : (2 : Int) ^ K = 2 * (2 : Int) ^ (K - 1) := by
    have : K = (K - 1) + 1 := by omega
    conv_lhs => rw [this, pow_succ]
    ring
  have e2 : (2 : Int) ^ (K - 1) = 2 * (2 : Int) ^ (K - 2) := by
    have : K - 1 = (K - 2) + 1 := by omega
    rw [this, pow_succ]; ring
  have hpos2 : (0 : Int) < (2 : Int) ^ (K - 2) := two_pow_pos _
  rw [abs_le] at ho
  -- scaling: 2^q * 2^(K-1-q) = 2^(K-1)
  have scale : ∀ q, q < K → (2 : Int) ^ q * (2 : Int) ^ (K - 1 - q) = (2 : Int) ^ (K - 1) := by
    intro q hq; rw [← pow_add]; congr 1; omega
  have scale' : ∀ q, q < K → (2 : Int) ^ (q + 1) * (2 : Int) ^ (K - 1 - q) = (2 : Int) ^ K := by
    intro q hq; rw [← pow_add]; congr 1; omega
  rcases lt_trichotomy s 0 with hneg | hzero | hpos
  · -- negative: sign bit 1, search for a 0
    have hb : bitAt s K = 1 := by
      unfold bitAt; rw [ediv_eq_of' hKpos (q := -1) (by omega) (by omega)]; rfl
    rw [hb] at ho
    simp only [sub_self] at ho
    rcases findIdx_neg s K 0 h0 hneg with ⟨hs, hi⟩ | ⟨q, hq, a, b, hi⟩
    · rw [hi, hs] at ho
      simp only [zero_add] at ho
      right; right; constructor <;> omega
    · rw [hi] at ho
      simp only [zero_add] at ho
      have hP : (0 : Int) < (2 : Int) ^ (K - 1 - q) := two_pow_pos _
      have m1 : -(2 : Int) ^ K ≤ s * (2 : Int) ^ (K - 1 - q) := by
        have := mul_le_mul_of_nonneg_right a hP.le
        rw [neg_mul, scale' q hq] at this; exact this
      have m2 : s * (2 : Int) ^ (K - 1 - q) < -(2 : Int) ^ (K - 1) := by
        have := mul_lt_mul_of_pos_right b hP
        rw [neg_mul, scale q hq] at this; exact this
      right; right; constructor <;> omega
  · -- zero
    subst hzero
    left
    simp only [zero_mul, sub_zero] at ho
    omega
  · rcases lt_or_ge s ((2 : Int) ^ K) with hlt | hge
    · have hb : bitAt s K = 0 := by
        unfold bitAt; rw [ediv_eq_of' hKpos (q := 0) (by omega) (by omega)]; rfl
      rw [hb] at ho
      simp only [sub_zero] at ho
      rcases findIdx_pos s K 0 hpos.le hlt with ⟨hs, _⟩ | ⟨q, hq, a, b, hi⟩
      · omega
      · rw [hi] at ho
        simp only [zero_add] at ho
        have hP : (0 : Int) < (2 : Int) ^ (K - 1 - q) := two_pow_pos _
        have m1 : (2 : Int) ^ (K - 1) ≤ s * (2 : Int) ^ (K - 1 - q) := by
          have := mul_le_mul_of_nonneg_right a hP.le
          rw [scale q hq] at this; exact this
        have m2 : s * (2 : Int) ^ (K - 1 - q) < (2 : Int) ^ K := by
          have := mul_lt_mul_of_pos_right b hP
          rw [scale' q hq] at this; exact this
        right; left; constructor <;> omega
    · -- s = 2^K: the sum of two significands of magnitude 1 (sign bit set by overflow), found at index 0
      have hs : s = (2 : Int) ^ K := le_antisymm h1 hge
      have hb : bitAt s K = 1 := by
        unfold bitAt; rw [hs, Int.ediv_self hKpos.ne']; rfl
      have hi : findIdx s (1 - 1) K 0 = 0 := by
        obtain ⟨k', rfl⟩ : ∃ k', K = k' + 1 := ⟨K - 1, by omega⟩
        unfold findIdx
        have : bitAt s k' = 0 := by
          unfold bitAt
          rw [hs, pow_succ, Int.mul_ediv_cancel_left _ (two_pow_pos k').ne']; rfl
        simp [this]
      rw [hb, hi, hs] at ho
      simp only [pow_zero, mul_one] at ho
      right; left; constructor <;> omega

/-- **norm_inv_add (renormalisation step)**: whatever sum `s` of two aligned significands the first half of
`__add__` produced (`|s| ≤ 2^(f+1)`, any flag satisfying `FInv`), the result of the second half —
leading-bit search, scaling by `2^(i-1)` with ONE truncation, any randomness — is normalised. -/
theorem norm_inv_addNorm {t : Ty} (hodd : t.p % 2 = 1) (hlf : t.l = t.f + 2) (hf2 : 2 ≤ t.f) (s : V) (e1 : Int)
    (hs : FInv t.f s) (h0 : -(2 : Int) ^ (t.f + 1) ≤ s.A) (h1 : s.A ≤ (2 : Int) ^ (t.f + 1)) (hfitS : Fits t.p s.A)
    (r : Rnd) (hbits : IsBits r.1) (hlen : r.1.length = t.f)
    (hfitN : Fits t.p ((2 : Int) ^ (leadIdx t s.A) * (2 : Int) ^ (t.f - 1)))
    (hlo : 0 ≤ s.A * ((2 : Int) ^ (leadIdx t s.A) * (2 : Int) ^ (t.f - 1)) + (2 : Int) ^ (t.l + t.f - 1) + r.2 * (2 : Int) ^ t.f)
    (hhi : s.A * ((2 : Int) ^ (leadIdx t s.A) * (2 : Int) ^ (t.f - 1)) + (2 : Int) ^ t.f + (2 : Int) ^ (t.l + t.f - 1)
      + r.2 * (2 : Int) ^ t.f ≤ t.p)
    (hfit : 2 * (|s.A * ((2 : Int) ^ (leadIdx t s.A) * (2 : Int) ^ (t.f - 1)) / (2 : Int) ^ t.f| + 1) < t.p) :
    Normal t (addNorm t s e1 r) := by
  unfold addNorm
  simp only []
  rw [norm_of_fits hfitS]
  set i := leadIdx t s.A with hi
  have hN := normFactor_eval hodd hlf (by omega) i hfitN
  have hone := C02.mul_within_one_unit (t := t) hodd (a := s) (b := normFactor t i) hs
    (by rw [hN]; intro h; simp at h) r hbits hlen (by omega)
    (by rw [hN]; exact hlo) (by rw [hN]; exact hhi) (by rw [hN]; exact hfit)
  have hNA : (normFactor t i).A = (2 : Int) ^ i * (2 : Int) ^ (t.f - 1) := by rw [hN]
  rw [hNA] at hone
  set o := (mulSS t s (normFactor t i) r).A with ho
  -- |o * 2^f - s * 2^i * 2^(f-1)| < 2^f   ==>   |2 o - s 2^i| ≤ 1
  have hF : (2 : Int) ^ t.f = 2 * (2 : Int) ^ (t.f - 1) := by
    have : t.f = (t.f - 1) + 1 := by omega
    conv_lhs => rw [this, pow_succ]
    ring
  have hP : (0 : Int) < (2 : Int) ^ (t.f - 1) := two_pow_pos _
  have hhalf : |2 * o - s.A * (2 : Int) ^ i| ≤ 1 := by
    have e : o * (2 : Int) ^ t.f - s.A * ((2 : Int) ^ i * (2 : Int) ^ (t.f - 1))
        = (2 * o - s.A * (2 : Int) ^ i) * (2 : Int) ^ (t.f - 1) := by rw [hF]; ring
    rw [e, hF, abs_mul, abs_of_pos hP] at hone
    have : |2 * o - s.A * (2 : Int) ^ i| < 2 := lt_of_mul_lt_mul_right hone hP.le
    omega
  have hcore := add_renorm_core s.A o (t.f + 1) (by omega) h0 h1 (by
    have : findIdx s.A (1 - bitAt s.A (t.f + 1)) (t.f + 1) 0 = i := by
      rw [hi]; unfold leadIdx; rw [hlf]; rfl
    rw [this]; exact hhalf)
  unfold Normal
  simp only []
  have a1 : t.f + 1 - 2 = t.f - 1 := by omega
  have a2 : t.f + 1 - 1 = t.f := by omega
  rw [a1, a2] at hcore
  exact hcore
example : Normal T1210 (addNorm T1210 ⟨512, false⟩ 1 ([1, 1, 1, 1, 1, 1, 1, 1, 1, 1], 0)) ∧
    addNorm T1210 ⟨2048, false⟩ 0 ([1, 1, 1, 1, 1, 1, 1, 1, 1, 1], 0) = ⟨⟨1024, false⟩, 1⟩ ∧
    addNorm T1210 ⟨-3, false⟩ 0 ([1, 0, 1, 1, 0, 1, 1, 1, 0, 1], 7) = ⟨⟨-768, false⟩, -8⟩ := by
  refine ⟨?_, by decide, by decide⟩
  unfold Normal; decide

/-! ### reciprocal: the result is normalised whatever the fixed-point reciprocal returned (repo fix fd7109b) -/

/-- ★ `reciprocal` returns a NORMALISED secure float for every value `r` that the secure fixed-point computation
`0.5 * (1/s)` may have produced: `1/2 ≤ |S|/2^f ≤ 1`.  (Before the fix `r` itself was used: for a significand of exactly
1/2 the fixed-point reciprocal may return 2 + one unit, `r = 2^f + 1`, and `_output` failed its assertion.) -/
theorem recip_normal (t : Ty) (hf : 1 ≤ t.f) (a : F) (r : Int) : Normal t (recip t a r) := by
  unfold Normal recip recipClamp
  simp only
  have h1 : (2 : Int) ^ (t.f - 1) ≤ (2 : Int) ^ t.f := pow_le_pow_right₀ (by norm_num) (by omega)
  have h0 : (0 : Int) < (2 : Int) ^ (t.f - 1) := by positivity
  by_cases hr : r < 0
  · simp only [hr, if_true]
    right; right
    have : (2 : Int) ^ (t.f - 1) ≤ min (max (-1 * r) ((2 : Int) ^ (t.f - 1))) ((2 : Int) ^ t.f) :=
      le_min (le_max_right _ _) h1
    have h2 : min (max (-1 * r) ((2 : Int) ^ (t.f - 1))) ((2 : Int) ^ t.f) ≤ (2 : Int) ^ t.f := min_le_right _ _
    constructor <;> linarith
  · simp only [hr, if_false, one_mul]
    right; left
    exact ⟨le_min (le_max_right _ _) h1, min_le_right _ _⟩

/-- the normalisation changes nothing when the fixed-point result is already normalised, and moves it by at most one unit
when it is one unit outside (the only deviation the fixed-point reciprocal of 1/2 or 1 can produce) -/
theorem recip_clamp_exact (f : Nat) (r : Int) :
    (((2 : Int) ^ (f - 1) ≤ r ∧ r ≤ (2 : Int) ^ f) ∨ (-(2 : Int) ^ f ≤ r ∧ r ≤ -(2 : Int) ^ (f - 1)) → recipClamp f r = r) ∧
    (r = (2 : Int) ^ f + 1 → recipClamp f r = (2 : Int) ^ f) ∧
    (r = -((2 : Int) ^ f + 1) → recipClamp f r = -(2 : Int) ^ f) := by
  have h0 : (0 : Int) < (2 : Int) ^ (f - 1) := by positivity
  have h1 : (2 : Int) ^ (f - 1) ≤ (2 : Int) ^ f := pow_le_pow_right₀ (by norm_num) (by omega)
  refine ⟨?_, ?_, ?_⟩
  · rintro (⟨ha, hb⟩ | ⟨ha, hb⟩)
    · unfold recipClamp
      have hr : ¬ r < 0 := by linarith
      simp only [hr, if_false, one_mul]
      rw [max_eq_left ha, min_eq_left hb]
    · unfold recipClamp
      have hr : r < 0 := by linarith
      simp only [hr, if_true]
      rw [max_eq_left (by linarith), min_eq_left (by linarith)]
      ring
  · intro h
    unfold recipClamp
    have hr : ¬ r < 0 := by rw [h]; linarith
    simp only [hr, if_false, one_mul]
    rw [max_eq_left (by rw [h]; linarith), min_eq_right (by rw [h]; linarith)]
  · intro h
    unfold recipClamp
    have hr : r < 0 := by rw [h]; linarith
    simp only [hr, if_true]
    rw [max_eq_left (by rw [h]; linarith), min_eq_right (by rw [h]; linarith)]
    ring

/-- the unnormalised value the old code returned for a significand of 1/2 violates the output assertion -/
example : ¬ Normal T1210 ⟨⟨(2 : Int) ^ 10 + 1, false⟩, 0⟩ := by
  unfold Normal T1210; decide

example : recipClamp 10 ((2 : Int) ^ 10 + 1) = 1024 ∧ recipClamp 10 (-511) = -512 ∧ recipClamp 10 700 = 700 := by decide

/-! ### alignment shift of the addition for types with a long significand and a short exponent (repo fix 1c40c3c) -/

/-- the alignment shift is `min(e1 - e2, f)`, `f = s - 1`, with `0 ≤ e1 - e2 < 2^e` for `e`-bit exponents: when
`f ≥ 2^e - 1` the cap never applies … -/
theorem align_shift_cap_not_needed (e f d : ℕ) (hd : d < 2 ^ e) (hf : 2 ^ e - 1 ≤ f) : min d f = d := by
  apply min_eq_left
  omega

/-- … and it MUST not be computed on the exponent type: the secure comparison `(e1 - e2) < f` tests the sign of
`(e1 - e2) - f`, which for equal exponents is `-f`, below the range `[-2^e, 2^e)` in which the comparison of `e`-bit
numbers is specified as soon as `f > 2^e` (the code before the fix: 1.0 + 1.0 = 1.125 for the default `SecFlt(8)`) -/
theorem align_shift_cap_out_of_range (e f : ℕ) (hf : 2 ^ e < f) : ((0 : Int) - (f : Int)) < -((2 : Int) ^ e) := by
  have : ((2 : Int) ^ e) < (f : Int) := by exact_mod_cast hf
  linarith

/-- the default `SecFlt(8)` has s = 6, e = 2: f = 5 > 2^2 -/
example : min 0 5 = 0 ∧ 2 ^ 2 - 1 ≤ 5 ∧ ((0 : Int) - 5) < -((2 : Int) ^ 2) := by decide

/-! ### selection of secure floats (repo fix 8c9af01: `if_else` / `if_swap` select significand and exponent separately) -/

/-- ★ selecting the two components with the bit `c` returns EXACTLY one of the operands (integer / field arithmetic: no
rounding is involved), which is what sorting, min and max of secure floats need: the result is an element of the input -/
theorem select_components (c s1 s2 e1 e2 : Int) (hc : c = 0 ∨ c = 1) :
    (c * (s1 - s2) + s2, c * (e1 - e2) + e2) = if c = 1 then (s1, e1) else (s2, e2) := by
  rcases hc with rfl | rfl <;> simp

/-- … whereas the arithmetic selection `c*(x - y) + y` in floating point goes through the rounded difference `x - y`:
already for `c = 1` it returns `(x - y) + y`, which differs from `x` as soon as `x - y` is rounded.  On the value level
(significands of 3 digits, exponents explicit): x = 1.00·2^0, y = 1.01·2^7 (binary), the difference rounds to -1.00·2^7 and
adding y back gives 0.01·2^7 = 2, not 1. -/
example : let x : Int := 4; let y : Int := 5 * 2 ^ 7   -- scaled by 4: x = 1.00b, y = 1.01b * 2^7
    let d : Int := (x - y) / 2 ^ 7 * 2 ^ 7             -- x - y rounded (toward -inf) to 3 significant bits at exponent 7
    d + y ≠ x := by decide

end MpycV.C05
