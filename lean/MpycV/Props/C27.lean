import MpycV.Model.Groups
import MpycV.Lemmas.GroupsRepeat
import MpycV.Lemmas.GroupsPerm
import MpycV.Lemmas.GroupsMod
import MpycV.Lemmas.GroupsCurves
import MpycV.Lemmas.GroupsWeierstrass

/-!
# C27 — every finite group family obeys the group laws in all coordinate systems

Theorems about the executable model `MpycV.Model.Groups` (a literal transcription of
/repo/mpyc/fingroups.py).  Level `other`: proved here are the generic `repeat`, symmetric groups,
QR / Schnorr groups, and for elliptic curves the agreement of every coordinate system with the
affine law, the Edwards laws (commutativity, identity, inverse, closure) and the identification of
the affine Weierstrass formulas with Mathlib's group law.  NOT proved (validated by the harness
only): associativity of the Edwards law, hyperelliptic (Cantor / Costello–Lauter) and class-group
(NUCOMP / NUDUPL) arithmetic, orders of the built-in generators.
-/
namespace MpycV.C27
open MpycV.Groups

/-! ## generic repeat -/

/-- ★ `FiniteGroupElement.repeat(a, n)` (left-to-right double-and-add; n < 0 via `inversion`,
    n = 0 ↦ `identity`) is the n-th power in any group, for every integer n. -/
theorem repeat_spec {α : Type} [Group α] (a : α) (n : Int) :
    «repeat» (GroupOps.ofGroup α) a n = a ^ n :=
  repeat_spec' _ (ofGroup_lawful α) a n

example : «repeat» (GroupOps.ofGroup (Multiplicative Int)) (Multiplicative.ofAdd 3) (-5)
    = Multiplicative.ofAdd (-15) := by
  rw [repeat_spec]; rfl

/-- ★ the same for any four operations that compute in a group: `operation2` may be a dedicated
    doubling formula as long as it returns `a * a`. -/
theorem repeat_spec_ops {α : Type} [Group α] (G : GroupOps α)
    (hop : ∀ a b, G.op a b = a * b) (hop2 : ∀ a, G.op2 a = a * a)
    (hinv : ∀ a, G.inv a = a⁻¹) (hid : G.id = 1) (a : α) (n : Int) :
    «repeat» G a n = a ^ n :=
  repeat_spec' G ⟨hop, hop2, hinv, hid⟩ a n

example : (GroupOps.ofGroup (Multiplicative Int)).op2 (Multiplicative.ofAdd 2) = Multiplicative.ofAdd 4 := rfl

/-! ## symmetric groups -/

/-- ★ composition and inversion of valid permutation tuples (what `SymmetricGroupElement.__init__`
    accepts) satisfy the group laws. -/
theorem perm_group_laws {n : Nat} {p q r : List Nat}
    (hp : permValid n p = true) (hq : permValid n q = true) (_hr : permValid n r = true) :
    permOp (permOp p q) r = permOp p (permOp q r) ∧
    permOp (permId n) p = p ∧ permOp p (permId n) = p ∧
    permOp p (permInv p) = permId n ∧ permOp (permInv p) p = permId n := by
  have hp' := permValid_ok.1 hp
  have hq' := permValid_ok.1 hq
  exact ⟨permOp_assoc p q r (fun j hj => by rw [hq'.len]; exact hp'.lt j hj),
    permOp_id_left hp'.len, permOp_id_right hp'.lt, permOp_inv_right hp', permOp_inv_left hp'⟩

example : permValid 3 [1, 2, 0] = true ∧ permOp [1, 2, 0] (permInv [1, 2, 0]) = permId 3 := by decide

/-- ★ closure: products, inverses and the identity are valid permutation tuples. -/
theorem perm_closed {n : Nat} {p q : List Nat}
    (hp : permValid n p = true) (hq : permValid n q = true) :
    permValid n (permOp p q) = true ∧ permValid n (permInv p) = true ∧
      permValid n (permId n) = true :=
  ⟨permValid_ok.2 (permOp_ok (permValid_ok.1 hp) (permValid_ok.1 hq)),
   permValid_ok.2 (permInv_ok (permValid_ok.1 hp)), permValid_ok.2 (permId_ok n)⟩

example : permValid 4 (permOp [1, 0, 3, 2] [2, 3, 0, 1]) = true := by decide

/-- ★ `repeat` on permutation tuples is the power in the group of valid permutations. -/
theorem perm_repeat {n : Nat} (p : VPerm n) (k : Int) :
    «repeat» (permOps n) p.1 k = (p ^ k).1 :=
  MpycV.Groups.perm_repeat p k

example : «repeat» (permOps 3) [1, 2, 0] (-4) = [2, 0, 1] := by decide

/-! ## quadratic residues and Schnorr groups -/

/-- ★ the quadratic residues mod an odd prime (membership `legendre = 1`, Euler model) are closed
    under the group operation and inversion; in `ZMod p` they are the non-zero squares. -/
theorem qr_closed {p : Nat} [Fact p.Prime] (hp2 : p ≠ 2) (a b : Nat)
    (ha : legendre a p = 1) (hb : legendre b p = 1) :
    legendre (mulMod p a b) p = 1 ∧ legendre ((invMod? a p).getD 0) p = 1 ∧
    ((a : ZMod p) ≠ 0 ∧ IsSquare (a : ZMod p)) :=
  ⟨(qr_model_closed hp2 a b ha hb).1, (qr_model_closed hp2 a b ha hb).2,
   (legendre_eq_one_iff hp2 a).1 ha⟩

example : legendre 4 23 = 1 ∧ legendre 9 23 = 1 ∧ legendre (mulMod 23 4 9) 23 = 1 := by decide +kernel

/-- ★ generic `repeat` on residues and the overriding `repeat` (`a.value ** n`) both compute the
    integer power in GF(p). -/
theorem qr_repeat_eq_pow {p : Nat} [Fact p.Prime] (a : Nat) (n : Int) :
    ((«repeat» (modOps p) a n : Nat) : ZMod p) = (a : ZMod p) ^ n ∧
    ∀ v, fpow? a n p = some v → (v : ZMod p) = (a : ZMod p) ^ n :=
  ⟨modOps_repeat_cast a n, fun v h => fpow?_cast a n v h⟩

example : «repeat» (modOps 23) 4 (-3) = 9 ∧ fpow? 4 (-3) 23 = some 9 := by decide +kernel

/-- ★ `decode(encode(m)) == m` for QR groups under the code's range condition (m + 1) * gap ≤ p
    (either `is_signed` setting of the field). -/
theorem qr_decode_encode {p : Nat} [Fact p.Prime] (gap m M Z : Nat) (signed : Bool) (hgp : gap < p)
    (hm : (m + 1) * gap ≤ p) (h : qrEncode? p gap m = some (M, Z)) :
    qrDecode? p gap M Z signed = some (m : Int) :=
  MpycV.Groups.qr_decode_encode gap m M Z signed hgp hm h

example : qrEncode? 1019 128 3 = some (387, 3) ∧ qrDecode? 1019 128 387 3 = some 3 := by decide +kernel

/-- ★ for a safe prime p = 2q + 1 every quadratic residue other than 1 — in particular
    `QR.generator` (the least g ≥ 2 with legendre 1) — has order q. -/
theorem qr_generator_order {p : Nat} [Fact p.Prime] (q : Nat) (hq : q.Prime) (hpq : p = 2 * q + 1)
    (g : Nat) (hg : legendre g p = 1) (h1 : (g : ZMod p) ≠ 1) : orderOf (g : ZMod p) = q := by
  have hp2 : p ≠ 2 := by have := hq.two_le; omega
  obtain ⟨h0, hsq⟩ := (legendre_eq_one_iff hp2 g).1 hg
  exact qr_order_safe_prime q hq hpq _ h0 hsq h1

example : legendre 2 23 = 1 ∧ (23 : Nat) = 2 * 11 + 1 := by decide +kernel

/-- ★ the order-q subgroup (membership `value ** order == 1`) is closed under product / inverse. -/
theorem sg_closed {p : Nat} [Fact p.Prime] (q a b : Nat)
    (ha : sgMember p q a = true) (hb : sgMember p q b = true) :
    sgMember p q (mulMod p a b) = true ∧ sgMember p q ((invMod? a p).getD 0) = true :=
  sg_model_closed q a b ha hb

example : sgMember 23 11 2 = true ∧ sgMember 23 11 (mulMod 23 2 3) = true := by decide +kernel

/-- ★ `decode(encode(m)) == m` for Schnorr groups, 0 ≤ m < min(1024, order of the generator)
    (`encode(m) = g ** m`, `decode` = search over at most 1024 powers). -/
theorem sg_decode_encode {p : Nat} [Fact p.Prime] (g m : Nat) (hord : m < orderOf (g : ZMod p))
    (hm : m < 1024) : sgEncode? p g m = some (powMod g m p) ∧ sgDecode p g (powMod g m p) = m :=
  ⟨by simp [sgEncode?, fpow?], MpycV.Groups.sg_decode_encode g m hord hm⟩

example : sgDecode 23 2 (powMod 2 7 23) = 7 := by decide +kernel

/-- ★ `decode` is sound for EVERY group element: it either raises (`none` ≙ ValueError, repo fix df01afd) or returns m < 1024
    with `g ** m` equal to its argument — never another message (before the fix an exhausted search returned 1023). -/
theorem sg_decode_sound {p : Nat} [Fact p.Prime] (g M r : Nat) (h : sgDecode? p g M = some r) :
    r < 1024 ∧ powMod g r p = M := MpycV.Groups.sg_decode_sound g M r h

example : sgDecode? 23 2 (powMod 2 7 23) = some 7 := by decide +kernel

/-! ## Edwards curves -/

variable {K : Type} [Field K] [DecidableEq K]

/-- ★ `EdwardsAffine.operation` is the textbook twisted-Edwards law whenever it does not raise, and
    raises (`none`) exactly when the guard `1 - E²` vanishes. -/
theorem edwards_affine_is_textbook (a d : K) (P Q : K × K) :
    (edDen d P Q ≠ 0 → eaAdd? (Fld.ofField K) a d P Q = some (edAddSpec a d P Q)) ∧
    (edDen d P Q = 0 → eaAdd? (Fld.ofField K) a d P Q = none) :=
  ⟨eaAdd_textbook a d P Q, eaAdd_none a d P Q⟩

example : edDen (2 : ℚ) (0, 1) (1, 0) ≠ 0 := by norm_num [edDen]

/-- ★ commutativity (unconditional, including the raising case). -/
theorem edwards_comm (a d : K) (P Q : K × K) :
    eaAdd? (Fld.ofField K) a d P Q = eaAdd? (Fld.ofField K) a d Q P :=
  eaAdd_comm a d P Q

/-- ★ (0, 1) is a two-sided identity. -/
theorem edwards_identity (a d : K) (P : K × K) :
    eaAdd? (Fld.ofField K) a d P (0, 1) = some P ∧ eaAdd? (Fld.ofField K) a d (0, 1) P = some P :=
  ⟨eaAdd_id_right a d P, eaAdd_id_left a d P⟩

/-- ★ `inversion` gives the inverse of a point on the curve. -/
theorem edwards_inverse (a d : K) (P : K × K) (hP : EdOn a d P)
    (h : edDen d P (eaNeg (Fld.ofField K) P) ≠ 0) :
    eaAdd? (Fld.ofField K) a d P (eaNeg (Fld.ofField K) P) = some (0, 1) :=
  eaAdd_neg a d P hP h

example : EdOn (1 : ℚ) 0 (3 / 5, 4 / 5) := by norm_num [EdOn]

/-- ★ closure: the sum of two points on a x² + y² = 1 + d x² y² is on the curve. -/
theorem edwards_closed (a d : K) (P Q R : K × K) (hP : EdOn a d P) (hQ : EdOn a d Q)
    (h : eaAdd? (Fld.ofField K) a d P Q = some R) : EdOn a d R := by
  by_cases hd : edDen d P Q = 0
  · rw [eaAdd_none a d P Q hd] at h; exact absurd h (by simp)
  · rw [eaAdd_textbook a d P Q hd] at h
    injection h with h
    exact h ▸ edAddSpec_closed a d P Q hP hQ hd

/-- ★ projective coordinates: `operation` then `normalize` = affine `operation` on the normalised
    inputs, for every representation (x λ, y λ, λ), λ ≠ 0; also `inversion` and `equality`. -/
theorem edwards_projective_agrees (a d x1 y1 x2 y2 l m : K) (hl : l ≠ 0) (hm : m ≠ 0) :
    epNorm? (Fld.ofField K) (epAdd (Fld.ofField K) a d (x1 * l, y1 * l, l) (x2 * m, y2 * m, m)) =
      (eaAdd? (Fld.ofField K) a d (x1, y1) (x2, y2)).map embP ∧
    epEq (Fld.ofField K) (x1 * l, y1 * l, l) (x2 * m, y2 * m, m) =
      eaEq (Fld.ofField K) (x1, y1) (x2, y2) :=
  ⟨epAdd_affine a d x1 y1 x2 y2 l m hl hm, epEq_affine x1 y1 x2 y2 l m hl hm⟩

/-- ★ extended coordinates (both branches of the code: a = -1 Hisil formulas and the unified
    general-a formulas): `operation` then `normalize` = affine `operation`. -/
theorem edwards_extended_agrees (a d x1 y1 x2 y2 l m : K) (hl : l ≠ 0) (hm : m ≠ 0)
    (h2 : (2 : K) ≠ 0) :
    eeNorm? (Fld.ofField K) (eeAdd (Fld.ofField K) a d (x1 * l, y1 * l, l, x1 * y1 * l)
        (x2 * m, y2 * m, m, x2 * y2 * m)) =
      (eaAdd? (Fld.ofField K) a d (x1, y1) (x2, y2)).map embE :=
  eeAdd_affine a d x1 y1 x2 y2 l m hl hm h2

/-- ★ `EdwardsExtended.operation2` equals `operation(pt, pt)` and keeps T·Z = X·Y. -/
theorem edwards_extended_doubling (a d : K) (P Q : K × K × K × K) :
    eeDbl (Fld.ofField K) a d P = eeAdd (Fld.ofField K) a d P P ∧
    (let R := eeAdd (Fld.ofField K) a d P Q; R.2.2.2 * R.2.2.1 = R.1 * R.2.1) :=
  ⟨eeDbl_eq_add a d P, eeAdd_t_consistent a d P Q⟩

/-! ## Weierstrass curves -/

/-- ★ Jacobian addition (add-2007-bl) normalises to the affine chord law (x1 ≠ x2), takes the
    doubling branch for equal points and gives the identity for opposite points. -/
theorem jacobian_add_agrees (a x1 y1 x2 y2 l m : K) (hl : l ≠ 0) (hm : m ≠ 0) (h2 : (2 : K) ≠ 0) :
    (x1 ≠ x2 → wjNorm (Fld.ofField K)
        (wjAdd (Fld.ofField K) (x1 * l ^ 2, y1 * l ^ 3, l) (x2 * m ^ 2, y2 * m ^ 3, m)) =
      embW (waAdd (Fld.ofField K) a (some (x1, y1)) (some (x2, y2)))) ∧
    (wjAdd (Fld.ofField K) (x1 * l ^ 2, y1 * l ^ 3, l) (x1 * m ^ 2, y1 * m ^ 3, m) =
      wjDbl (Fld.ofField K) (x1 * l ^ 2, y1 * l ^ 3, l)) ∧
    (y1 ≠ y2 → wjNorm (Fld.ofField K)
        (wjAdd (Fld.ofField K) (x1 * l ^ 2, y1 * l ^ 3, l) (x1 * m ^ 2, y2 * m ^ 3, m)) =
      embW (waAdd (Fld.ofField K) a (some (x1, y1)) (some (x1, y2)))) :=
  ⟨wjAdd_affine a x1 y1 x2 y2 l m hl hm h2, wjAdd_same x1 y1 l m hl hm,
   fun hy => by rw [waAdd_opposite a x1 y1 y2 hy]; exact wjAdd_opposite x1 y1 y2 l m hl hm h2 hy⟩

/-- ★ Jacobian doubling (dbl-2009-l, a = 0) normalises to the affine tangent law; `equality`
    compares the represented affine points. -/
theorem jacobian_double_agrees (x y x' y' l m : K) (hl : l ≠ 0) (hm : m ≠ 0) (h2 : (2 : K) ≠ 0) :
    (y ≠ 0 → wjNorm (Fld.ofField K) (wjDbl (Fld.ofField K) (x * l ^ 2, y * l ^ 3, l)) =
      embW (waDbl (Fld.ofField K) 0 (some (x, y)))) ∧
    wjNorm (Fld.ofField K) (wjDbl (Fld.ofField K) (x * l ^ 2, 0 * l ^ 3, l)) =
      embW (waDbl (Fld.ofField K) 0 (some (x, 0))) ∧
    wjEq (Fld.ofField K) (x * l ^ 2, y * l ^ 3, l) (x' * m ^ 2, y' * m ^ 3, m) =
      waEq (Fld.ofField K) (some (x, y)) (some (x', y')) :=
  ⟨wjDbl_affine x y l hl h2, wjDbl_two_torsion x l, wjEq_affine x y x' y' l m hl hm⟩

/-- ★ projective addition (Renes–Costello–Batina Alg. 7, a = 0) of two points on the curve with
    x1 ≠ x2 normalises to the affine chord law whenever its z-coordinate is non-zero. -/
theorem projective_add_agrees (b x1 y1 x2 y2 l m : K) (hx : x1 ≠ x2)
    (h1 : WOn 0 b (x1, y1)) (h2 : WOn 0 b (x2, y2))
    (hz : (wpAdd (Fld.ofField K) b (x1 * l, y1 * l, l) (x2 * m, y2 * m, m)).2.2 ≠ 0) :
    wpNorm (Fld.ofField K) (wpAdd (Fld.ofField K) b (x1 * l, y1 * l, l) (x2 * m, y2 * m, m)) =
      embW (waAdd (Fld.ofField K) 0 (some (x1, y1)) (some (x2, y2))) :=
  wpAdd_affine b x1 y1 x2 y2 l m hx h1 h2 hz

/-- ★ projective doubling (RCB Alg. 9, a = 0) of a point on the curve normalises to the affine
    tangent law (y ≠ 0) resp. the identity (y = 0); `equality` compares affine points. -/
theorem projective_double_agrees (b x y x' y' l m : K) (hl : l ≠ 0) (hm : m ≠ 0)
    (h2 : (2 : K) ≠ 0) :
    (y ≠ 0 → WOn 0 b (x, y) → wpNorm (Fld.ofField K) (wpDbl (Fld.ofField K) b (x * l, y * l, l)) =
      embW (waDbl (Fld.ofField K) 0 (some (x, y)))) ∧
    wpNorm (Fld.ofField K) (wpDbl (Fld.ofField K) b (x * l, 0 * l, l)) = embW (none : WAff K) ∧
    wpEq (Fld.ofField K) (x * l, y * l, l) (x' * m, y' * m, m) =
      waEq (Fld.ofField K) (some (x, y)) (some (x', y')) :=
  ⟨fun hy h1 => wpDbl_affine b x y l hl h2 hy h1, wpDbl_two_torsion b x l,
   wpEq_affine x y x' y' l m hl hm⟩

example : WOn (0 : ℚ) 7 (1, 0) → False := by norm_num [WOn]
example : WOn (0 : ℚ) 3 (1, 2) := by norm_num [WOn]

/-- ★ the affine formulas of `WeierstrassAffine` ARE Mathlib's group law on the nonsingular points
    of y² = x³ + a x + b (characteristic ≠ 2): `toModel` is an injective map from
    `WeierstrassCurve.Affine.Point` to the tuples of the code commuting with +, -, 0. -/
theorem weierstrass_affine_is_mathlib {a b : K} (h2 : (2 : K) ≠ 0) (P Q : (shortW a b).Point) :
    toModel (P + Q) = waAdd (Fld.ofField K) a (toModel P) (toModel Q) ∧
    toModel (-P) = waNeg (Fld.ofField K) (toModel P) ∧
    toModel (0 : (shortW a b).Point) = none ∧
    Function.Injective (toModel (a := a) (b := b)) :=
  ⟨toModel_add h2 P Q, toModel_neg P, rfl, toModel_injective⟩

/-- ★ consequently the coded affine operation is associative and commutative with identity and
    inverses on (the images of) the nonsingular points of the curve. -/
theorem weierstrass_affine_group_laws {a b : K} (h2 : (2 : K) ≠ 0) (P Q R : (shortW a b).Point) :
    let F := Fld.ofField K
    waAdd F a (waAdd F a (toModel P) (toModel Q)) (toModel R) =
      waAdd F a (toModel P) (waAdd F a (toModel Q) (toModel R)) ∧
    waAdd F a (toModel P) (toModel Q) = waAdd F a (toModel Q) (toModel P) ∧
    waAdd F a (toModel P) none = toModel P ∧
    waAdd F a (toModel P) (waNeg F (toModel P)) = none := by
  refine ⟨?_, ?_, ?_, ?_⟩
  · rw [← toModel_add h2, ← toModel_add h2, ← toModel_add h2, ← toModel_add h2, add_assoc]
  · rw [← toModel_add h2, ← toModel_add h2, add_comm]
  · cases P <;> rfl
  · rw [← toModel_neg, ← toModel_add h2, add_neg_cancel]; rfl

/-- the doubling method `operation2` is the addition of a point to itself -/
theorem weierstrass_affine_double (a x y : K) :
    waAdd (Fld.ofField K) a (some (x, y)) (some (x, y)) = waDbl (Fld.ofField K) a (some (x, y)) :=
  waAdd_same a x y

/-- a nonsingular point of y² = x³ + 7 over ℚ-like fields exists: hypotheses are satisfiable -/
example : (shortW (0 : ℚ) 3).Nonsingular 1 2 := by
  rw [WeierstrassCurve.Affine.nonsingular_iff]
  constructor
  · rw [WeierstrassCurve.Affine.equation_iff]; norm_num [shortW]
  · right; norm_num [shortW]

end MpycV.C27
