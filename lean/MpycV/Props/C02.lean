/-
C02 — secure fixed-point arithmetic stays within its rounding bounds.

Model: MpycV.Model.Fxp.  A secure number is the scaled integer `A` (`x = A / 2^f`); one unit is `2^-f`,
i.e. `1` on the `A` scale.  Proved clauses (LEVEL `other`, see harness/props/c02.py EXPLANATION):
  * `+`, `-`, negation exact; comparisons are comparisons of the exact scaled difference;
  * truncation by `2^d`: for EVERY randomness the result is `⌊A/2^d⌋ + β`, `β ∈ {0,1}`, `β = 0` when `2^d ∣ A`;
  * products: secure×secure (every flag combination), secure×int, secure×float (bound `1 + |x|/2 ≤ 2(1+|x|)`
    units), `in_prod`, `schur_prod`, `scalar_mul` within one unit.
Validated only (correspondence/oracle, not proved): `x**n` bound, division/reciprocal, sin/cos.

Range hypotheses: `hlo`/`hhi` say that the masked value opened inside `trunc` does not wrap modulo `p`
(true for `x ≥ -2^(l-1)`, `0 ≤ rdiv < 2^(k+l-d)`, `p > 2^(l+k+1)`, see `trunc_range_ok`), `Fits p q`
says that the result is in range.
-/
import MpycV.Lemmas.Fxp
import Mathlib.Algebra.Order.Ring.Abs

namespace MpycV.C02
open MpycV.Fxp

def P84 : Nat := 17592186044399
def T84 : Ty := ⟨8, 4, 30, P84⟩

/-! ### exact operations -/

/-- `+`, `-`, negation compute the exact sum / difference / negative of the scaled values -/
theorem add_sub_neg_exact (a b : V) :
    (add a b).A = a.A + b.A ∧ (sub a b).A = a.A - b.A ∧ (neg a).A = -a.A ∧ (pos a).A = a.A :=
  ⟨rfl, rfl, rfl, rfl⟩

/-- … and what is opened is that integer whenever it is in range -/
theorem output_exact {p : Nat} {x : Int} (h : Fits p x) : norm p x = x := norm_of_fits h
example : norm P84 (add ⟨-37, false⟩ ⟨5, false⟩).A = -32 := by decide

/-- comparisons `a < b`, `a == b`, … are evaluated by the sign test of `a - b` (sgn protocol, property
C01): the sign of the exact scaled difference is the order of the two numbers -/
theorem cmp_exact (a b : V) :
    ((sub a b).A < 0 ↔ a.A < b.A) ∧ ((sub a b).A = 0 ↔ a.A = b.A) ∧ (0 < (sub a b).A ↔ b.A < a.A) := by
  simp only [sub]; omega
example : (sub ⟨-37, false⟩ ⟨5, false⟩).A < 0 := by decide

theorem mulInt_exact (a : V) (n : Int) : (mulInt a n).A = a.A * n := rfl

theorem lshift_exact (f : Nat) (a : V) (n : Nat) : (lshift f a n).A = a.A * (2 : Int) ^ n := rfl

/-! ### truncation -/

/-- the no-wrap hypotheses of `trunc_eq` follow from the ranges the code guarantees -/
theorem trunc_range_ok {p d l k : Nat} {x rdiv : Int} (hdl : d < l)
    (hx0 : -(2 : Int) ^ (l - 1) ≤ x) (hx1 : x < (2 : Int) ^ (l - 1))
    (hr0 : 0 ≤ rdiv) (hr1 : rdiv < (2 : Int) ^ (k + l - d)) (hp : (2 : Int) ^ (l + k + 1) < p) :
    0 ≤ x + (2 : Int) ^ (l - 1) + rdiv * (2 : Int) ^ d ∧
    x + (2 : Int) ^ d + (2 : Int) ^ (l - 1) + rdiv * (2 : Int) ^ d ≤ p := by
  have hD : (0 : Int) < (2 : Int) ^ d := two_pow_pos d
  constructor
  · have : 0 ≤ rdiv * (2 : Int) ^ d := mul_nonneg hr0 hD.le
    linarith
  · have h1 : rdiv * (2 : Int) ^ d ≤ ((2 : Int) ^ (k + l - d) - 1) * (2 : Int) ^ d :=
      mul_le_mul_of_nonneg_right (by linarith) hD.le
    have h2 : (2 : Int) ^ (k + l - d) * (2 : Int) ^ d = (2 : Int) ^ (k + l) := by
      rw [← pow_add]; congr 1; omega
    have h3 : (2 : Int) ^ (l - 1) * 2 = (2 : Int) ^ l := by
      rw [← pow_succ]; congr 1; omega
    have h4 : (2 : Int) ^ l ≤ (2 : Int) ^ (k + l) := pow_le_pow_right₀ (by norm_num) (by omega)
    have h5 : (2 : Int) ^ (l + k + 1) = 2 * (2 : Int) ^ (k + l) := by
      rw [pow_succ, Nat.add_comm l k]; ring
    have h6 : (0 : Int) < (2 : Int) ^ (l - 1) := two_pow_pos _
    nlinarith

/-- **trunc_floor_or_ceil**: for every randomness (`d` bits, any `rdiv` in range) truncation by `2^d`
returns `⌊x/2^d⌋ + β` with `β ∈ {0, 1}`, and `β = 0` when `2^d ∣ x` -/
theorem trunc_floor_or_ceil {p d l : Nat} (hodd : p % 2 = 1) {x : Int} {rbits : List Int} {rdiv : Int}
    (hb : IsBits rbits) (hlen : rbits.length = d) (hdl : d < l)
    (hlo : 0 ≤ x + (2 : Int) ^ (l - 1) + rdiv * (2 : Int) ^ d)
    (hhi : x + (2 : Int) ^ d + (2 : Int) ^ (l - 1) + rdiv * (2 : Int) ^ d ≤ p)
    (hfit : 2 * (|x / (2 : Int) ^ d| + 1) < p) :
    ∃ β : Int, (β = 0 ∨ β = 1) ∧ trunc p d l x rbits rdiv = x / (2 : Int) ^ d + β ∧
      ((2 : Int) ^ d ∣ x → β = 0) := by
  obtain ⟨hr0, hr1⟩ := bitsVal_range rbits hb
  rw [hlen] at hr1
  obtain ⟨hcases, hdvd⟩ := floor_add_small x (bitsVal rbits) ((2 : Int) ^ d) (two_pow_pos d) hr0 hr1
  have hF : Fits p ((x + bitsVal rbits) / (2 : Int) ^ d) := by
    rcases hcases with h | h <;> rw [h]
    · exact fits_of_abs_le (by linarith [abs_nonneg (x / (2 : Int) ^ d)]) hfit
    · exact fits_of_abs_le (by
        have := abs_add_le (x / (2 : Int) ^ d) 1
        rw [abs_one] at this
        exact this) hfit
  rw [trunc_eq hodd hb hlen hdl hlo hhi hF]
  refine ⟨(x + bitsVal rbits) / (2 : Int) ^ d - x / (2 : Int) ^ d, ?_, by ring, ?_⟩
  · rcases hcases with h | h <;> rw [h] <;> simp
  · intro hd; rw [hdvd hd]; ring
example : trunc P84 4 12 37 [0, 0, 0, 0] 5 = 2 ∧ trunc P84 4 12 37 [1, 1, 0, 1] 5 = 3 ∧
    trunc P84 4 12 (-37) [0, 1, 0, 0] 9 = -3 ∧ trunc P84 4 12 32 [1, 1, 1, 1] 77 = 2 := by decide

/-- the opened value `c` hides `x`: it is `x + 2^(l-1) + r` with `r = rbits + 2^d·rdiv` (statistical
masking is property C18; here: the value is what the model says) -/
theorem trunc_opened {p d l : Nat} {x : Int} {rbits : List Int} {rdiv : Int}
    (hlo : 0 ≤ x + bitsVal rbits + ((2 : Int) ^ (l - 1) + rdiv * (2 : Int) ^ d))
    (hhi : x + bitsVal rbits + ((2 : Int) ^ (l - 1) + rdiv * (2 : Int) ^ d) < p) :
    (truncE p d l x rbits rdiv).1 = x + bitsVal rbits + ((2 : Int) ^ (l - 1) + rdiv * (2 : Int) ^ d) := by
  unfold truncE; exact pmod_of_range hlo hhi
example : (truncE P84 4 12 37 [1, 0, 1, 0] 5).1 = 37 + 5 + 2048 + 80 := by decide

/-! ### products -/

/-- core of all product bounds: a truncated product is less than one unit from the exact quotient -/
theorem trunc_within_one_unit {p d l : Nat} (hodd : p % 2 = 1) {x : Int} {rbits : List Int} {rdiv : Int}
    (hb : IsBits rbits) (hlen : rbits.length = d) (hdl : d < l)
    (hlo : 0 ≤ x + (2 : Int) ^ (l - 1) + rdiv * (2 : Int) ^ d)
    (hhi : x + (2 : Int) ^ d + (2 : Int) ^ (l - 1) + rdiv * (2 : Int) ^ d ≤ p)
    (hfit : 2 * (|x / (2 : Int) ^ d| + 1) < p) :
    |trunc p d l x rbits rdiv * (2 : Int) ^ d - x| < (2 : Int) ^ d := by
  obtain ⟨β, hβ, hres, hdv⟩ := trunc_floor_or_ceil hodd hb hlen hdl hlo hhi hfit
  rw [hres]
  have hD : (0 : Int) < (2 : Int) ^ d := two_pow_pos d
  have h1 := Int.mul_ediv_add_emod x ((2 : Int) ^ d)
  have h2 := Int.emod_nonneg x hD.ne'
  have h3 := Int.emod_lt_of_pos x hD
  rw [abs_lt]
  rcases hβ with rfl | rfl
  · constructor <;> nlinarith
  · have hne : x % (2 : Int) ^ d ≠ 0 := fun h0 => by
      have := hdv (Int.dvd_of_emod_eq_zero h0); omega
    have h4 : 0 < x % (2 : Int) ^ d := lt_of_le_of_ne h2 (Ne.symm hne)
    constructor <;> nlinarith

/-- **mul_within_one_unit** (secure × secure): for every flag combination consistent with `FInv` and
every randomness the result is less than one unit `2^-f` from the exact product (`|c·2^f − a·b| < 2^f`
on the scaled integers); with a flag set it is exact. -/
theorem mul_within_one_unit {t : Ty} (hodd : t.p % 2 = 1) {a b : V} (ha : FInv t.f a) (hb : FInv t.f b)
    (r : Rnd) (hbits : IsBits r.1) (hlen : r.1.length = t.f) (hl : 0 < t.l)
    (hlo : 0 ≤ a.A * b.A + (2 : Int) ^ (t.l + t.f - 1) + r.2 * (2 : Int) ^ t.f)
    (hhi : a.A * b.A + (2 : Int) ^ t.f + (2 : Int) ^ (t.l + t.f - 1) + r.2 * (2 : Int) ^ t.f ≤ t.p)
    (hfit : 2 * (|a.A * b.A / (2 : Int) ^ t.f| + 1) < t.p) :
    |(mulSS t a b r).A * (2 : Int) ^ t.f - a.A * b.A| < (2 : Int) ^ t.f := by
  by_cases hfl : a.flag = true ∨ b.flag = true
  · have hd : (2 : Int) ^ t.f ∣ a.A * b.A := by
      rcases hfl with h | h
      · exact Dvd.dvd.mul_right (ha h) _
      · exact Dvd.dvd.mul_left (hb h) _
    have hF : Fits t.p (a.A * b.A / (2 : Int) ^ t.f) := by
      unfold Fits; linarith
    have hv : (mulSS t a b r).A = a.A * b.A / (2 : Int) ^ t.f := by
      unfold mulSS
      have : (a.flag || b.flag) = true := by rcases hfl with h | h <;> simp [h]
      simp only [this, if_true]
      exact rsh_of_dvd_fits hodd hd hF
    rw [hv, Int.ediv_mul_cancel hd]
    simp [two_pow_pos]
  · have hna : (a.flag || b.flag) = false := by
      simp only [not_or, Bool.not_eq_true] at hfl
      simp [hfl.1, hfl.2]
    unfold mulSS
    simp only [hna, Bool.false_eq_true, if_false]
    exact trunc_within_one_unit hodd hbits hlen (by omega) hlo hhi hfit
example : (mulSS T84 ⟨37, false⟩ ⟨-37, false⟩ ([1, 0, 1, 0], 5)).A = -86 ∧
    (mulSS T84 ⟨37, false⟩ ⟨-37, false⟩ ([1, 1, 1, 1], 5)).A = -85 ∧
    (mulSS T84 ⟨32, true⟩ ⟨-37, false⟩ ([], 0)).A = -74 := by decide

/-- secure × public int: exact -/
theorem mul_int_exact (a : V) (n : Int) : (mulInt a n).A * 1 = a.A * n := by simp [mulInt]

/-- rounding of the public float factor: `|B − x·2^f| ≤ 1/2`, stated on `2^s·B` vs `m` for `x·2^f = m/2^s` -/
theorem roundHalfEven_err (m : Int) (s : Nat) :
    2 * |roundHalfEven m s * (2 : Int) ^ s - m| ≤ (2 : Int) ^ s := by
  have hD : (0 : Int) < (2 : Int) ^ s := two_pow_pos s
  have h1 := Int.mul_ediv_add_emod m ((2 : Int) ^ s)
  have h2 := Int.emod_nonneg m hD.ne'
  have h3 := Int.emod_lt_of_pos m hD
  unfold roundHalfEven
  simp only []
  set D := (2 : Int) ^ s
  set q := m / D
  set r := m % D
  have hm : m = D * q + r := by linarith
  split_ifs with c1 c2 c3
  · have : q * D - m = -r := by rw [hm]; ring
    rw [this, abs_neg, abs_of_nonneg h2]; linarith
  · have : (q + 1) * D - m = D - r := by rw [hm]; ring
    rw [this, abs_of_nonneg (by linarith)]; linarith
  · have : q * D - m = -r := by rw [hm]; ring
    rw [this, abs_neg, abs_of_nonneg h2]; linarith
  · have : (q + 1) * D - m = D - r := by rw [hm]; ring
    rw [this, abs_of_nonneg (by linarith)]; linarith
example : roundHalfEven 5 1 = 2 ∧ roundHalfEven 7 1 = 4 ∧ roundHalfEven (-5) 1 = -2 ∧ roundHalfEven 13 2 = 3 := by decide

/-- **mul_public_float_bound**: secure `a` (value `a.A/2^f`) times the float `x = m·2^e` with `e + f < 0`
(otherwise the factor is an exact multiple of a unit and the product is exact up to one truncation):
with `s = -(e+f)`, the result `c` satisfies `|c·2^f·2^s − a·m| ≤ 2^f·2^s + |a|·2^s/2`, i.e. the error is at most
`1 + |x_a|/2 ≤ 2(1 + |x_a|)` units, for every flag of `a`, every trailing-zero count `z` and every randomness. -/
theorem mul_public_float_bound {t : Ty} (hodd : t.p % 2 = 1) {a : V} (ha : FInv t.f a) (x : Dy) (r : Rnd)
    (hs : x.e + (t.f : Int) < 0)
    (hbits : IsBits r.1) (hlen : r.1.length = t.f - zOf t.f (scaleRound t.f x)) (hl : 0 < t.l)
    (hlo : 0 ≤ a.A * (scaleRound t.f x / (2 : Int) ^ zOf t.f (scaleRound t.f x))
      + (2 : Int) ^ (t.l + (t.f - zOf t.f (scaleRound t.f x)) - 1) + r.2 * (2 : Int) ^ (t.f - zOf t.f (scaleRound t.f x)))
    (hhi : a.A * (scaleRound t.f x / (2 : Int) ^ zOf t.f (scaleRound t.f x)) + (2 : Int) ^ (t.f - zOf t.f (scaleRound t.f x))
      + (2 : Int) ^ (t.l + (t.f - zOf t.f (scaleRound t.f x)) - 1) + r.2 * (2 : Int) ^ (t.f - zOf t.f (scaleRound t.f x)) ≤ t.p)
    (hfit : 2 * (|a.A * (scaleRound t.f x / (2 : Int) ^ zOf t.f (scaleRound t.f x))
      / (2 : Int) ^ (t.f - zOf t.f (scaleRound t.f x))| + 1) < t.p) :
    2 * |(mulFloat t a x r).A * (2 : Int) ^ t.f * (2 : Int) ^ (-(x.e + (t.f : Int))).toNat - a.A * x.m|
      ≤ 2 * ((2 : Int) ^ t.f * (2 : Int) ^ (-(x.e + (t.f : Int))).toNat) + |a.A| * (2 : Int) ^ (-(x.e + (t.f : Int))).toNat := by
  set B := scaleRound t.f x with hB
  set z := zOf t.f B with hz
  set S : Int := (2 : Int) ^ (-(x.e + (t.f : Int))).toNat with hS
  have hSpos : 0 < S := two_pow_pos _
  have hFpos : (0 : Int) < (2 : Int) ^ t.f := two_pow_pos _
  have hzle : z ≤ t.f := zOf_le _ _
  have hzd : (2 : Int) ^ z ∣ B := dvd_zOf _ _
  have hBr : 2 * |B * S - x.m| ≤ S := by
    have : B = roundHalfEven x.m (-(x.e + (t.f : Int))).toNat := by
      rw [hB]; unfold scaleRound; simp only []; rw [if_neg (by omega)]
    rw [this]; exact roundHalfEven_err _ _
  -- the product before/after the shift: c * 2^(f-z) is within 2^(f-z) of a.A * B'
  have hsplit : (2 : Int) ^ t.f = (2 : Int) ^ (t.f - z) * (2 : Int) ^ z := by
    rw [← pow_add]; congr 1; omega
  have hB' : B / (2 : Int) ^ z * (2 : Int) ^ z = B := Int.ediv_mul_cancel hzd
  have hcore : |(mulFloat t a x r).A * (2 : Int) ^ (t.f - z) - a.A * (B / (2 : Int) ^ z)| < (2 : Int) ^ (t.f - z) := by
    unfold mulFloat
    simp only []
    rw [← hB, ← hz]
    by_cases hzf : (z == t.f) = true
    · have : z = t.f := by simpa using hzf
      simp only [hzf, if_true]
      rw [this, Nat.sub_self, pow_zero, mul_one, sub_self, abs_zero]; norm_num
    · simp only [hzf, Bool.false_eq_true, if_false]
      have hF : Fits t.p (a.A * (B / (2 : Int) ^ z) / (2 : Int) ^ (t.f - z)) := by unfold Fits; linarith
      by_cases hfl : a.flag = true
      · simp only [hfl, if_true]
        have hd : (2 : Int) ^ (t.f - z) ∣ a.A * (B / (2 : Int) ^ z) :=
          Dvd.dvd.mul_right (dvd_trans (pow_dvd_pow 2 (Nat.sub_le _ _)) (ha hfl)) _
        rw [rsh_of_dvd_fits hodd hd hF, Int.ediv_mul_cancel hd, sub_self, abs_zero]
        exact two_pow_pos _
      · simp only [hfl, Bool.false_eq_true, if_false]
        exact trunc_within_one_unit hodd hbits hlen (by omega) hlo hhi hfit
  -- scale everything by 2^z * S
  have hZpos : (0 : Int) < (2 : Int) ^ z := two_pow_pos _
  set c := (mulFloat t a x r).A with hc
  have e1 : c * (2 : Int) ^ t.f * S - a.A * x.m
      = (c * (2 : Int) ^ (t.f - z) - a.A * (B / (2 : Int) ^ z)) * ((2 : Int) ^ z * S) + a.A * (B * S - x.m) := by
    rw [hsplit]
    have : a.A * (B * S - x.m) = a.A * (B / (2 : Int) ^ z * (2 : Int) ^ z * S - x.m) := by rw [hB']
    rw [this]; ring
  rw [e1]
  have t1 : |(c * (2 : Int) ^ (t.f - z) - a.A * (B / (2 : Int) ^ z)) * ((2 : Int) ^ z * S)|
      ≤ (2 : Int) ^ (t.f - z) * ((2 : Int) ^ z * S) := by
    rw [abs_mul, abs_of_pos (mul_pos hZpos hSpos)]
    exact mul_le_mul_of_nonneg_right hcore.le (mul_pos hZpos hSpos).le
  have t2 : 2 * |a.A * (B * S - x.m)| ≤ |a.A| * S := by
    rw [abs_mul]
    have := mul_le_mul_of_nonneg_left hBr (abs_nonneg a.A)
    linarith
  have t3 := abs_add_le ((c * (2 : Int) ^ (t.f - z) - a.A * (B / (2 : Int) ^ z)) * ((2 : Int) ^ z * S)) (a.A * (B * S - x.m))
  have t4 : (2 : Int) ^ (t.f - z) * ((2 : Int) ^ z * S) = (2 : Int) ^ t.f * S := by rw [hsplit]; ring
  linarith
example : (mulFloat T84 ⟨37, false⟩ ⟨5404319552844595, -54⟩ ([1, 0, 1, 0], 5)).A = 11 ∧
    scaleRound 4 ⟨5404319552844595, -54⟩ = 5 ∧ zOf 4 5 = 0 := by decide

/-- `in_prod`: one truncation of the exact dot product -/
theorem inProd_within_one_unit {t : Ty} (hodd : t.p % 2 = 1) {xs ys : List V} (hx : FInvL t.f xs) (hy : FInvL t.f ys)
    (r : Rnd) (hbits : IsBits r.1) (hlen : r.1.length = t.f) (hl : 0 < t.l)
    (hlo : 0 ≤ dotA xs ys + (2 : Int) ^ (t.l + t.f - 1) + r.2 * (2 : Int) ^ t.f)
    (hhi : dotA xs ys + (2 : Int) ^ t.f + (2 : Int) ^ (t.l + t.f - 1) + r.2 * (2 : Int) ^ t.f ≤ t.p)
    (hfit : 2 * (|dotA xs ys / (2 : Int) ^ t.f| + 1) < t.p) :
    |(inProd t xs ys r).A * (2 : Int) ^ t.f - dotA xs ys| < (2 : Int) ^ t.f := by
  unfold inProd
  simp only []
  by_cases hfl : (allFlags xs || allFlags ys) = true
  · simp only [hfl, if_true]
    have hd : (2 : Int) ^ t.f ∣ dotA xs ys := by
      simp only [Bool.or_eq_true] at hfl
      rcases hfl with h | h
      · exact dvd_dotA_left xs ys (dvd_of_allFlags hx h)
      · exact dvd_dotA_right xs ys (dvd_of_allFlags hy h)
    have hF : Fits t.p (dotA xs ys / (2 : Int) ^ t.f) := by unfold Fits; linarith
    rw [rsh_of_dvd_fits hodd hd hF, Int.ediv_mul_cancel hd]
    simp [two_pow_pos]
  · simp only [hfl, Bool.false_eq_true, if_false]
    exact trunc_within_one_unit hodd hbits hlen (by omega) hlo hhi hfit
example : (inProd T84 [⟨37, false⟩, ⟨16, true⟩] [⟨5, false⟩, ⟨3, false⟩] ([1, 1, 1, 1], 2)).A = 15 := by decide

end MpycV.C02
