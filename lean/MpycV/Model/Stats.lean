/-
Model of /repo/mpyc/statistics.py, value layer, core Lean only.

Secure integers are `Int`; secure fixed-point numbers are their scaled integers (value·2^f) where the
code only adds, subtracts, compares and selects them (`_quickselect`, `median_low/high`, `mode`,
`_fsqrt`'s loop).  Secure comparison, `if_else`, `sum`, `in_prod`, `schur_prod`, `scalar_mul`,
`vector_add`, `min_max`, `sorted` and `unit_vector` are modelled by the exact values they compute
(their protocols belong to C01/C29/C30).  Fixed-point products and divisions by public constants
round probabilistically; where a function needs them (`mean`, `variance`, `quantiles`, `covariance`,
`correlation`, `linear_regression` on secfxp) only the integer/index part is modelled here and the
numeric closeness is validated by the harness against Python's `statistics`.

Randomness of `_quickselect` is an explicit list of rounds (pivot position drawn by
`random_unit_vector`, tie-breaking bits `y` drawn by `random_bits`), consumed in depth-first order
(left recursive call before the right one).
Errors: `Except String` with the Python exception name.
-/
namespace MpycV.Stats

abbrev R := Except String

/-- `runtime.sum(x)` -/
def isum (x : List Int) : Int := x.foldl (· + ·) 0

/-- `runtime.in_prod(x, y)` -/
def inProd (x y : List Int) : Int := isum (List.zipWith (· * ·) x y)

/-! ### mean  ≙ statistics.py:34-63 (secure integers) -/

/-- `(s + n//2) // n` — `//` with a public positive divisor is floor division (`Int` `/` = `Int.ediv`) -/
def meanInt (x : List Int) : R Int :=
  let n := x.length
  if n = 0 then .error "StatisticsError"
  else .ok ((isum x + (n : Int) / 2) / (n : Int))

/-! ### variance, pvariance  ≙ statistics.py:111-148 (secure integers) -/

/-- `_var(data, m, correction)`; `m = none`: `y = [a*n - s]`, `d = n**2 * (n - correction)`;
`m = some μ`: `y = x - μ`, `d = n - correction`; result `(in_prod(y, y) + d//2) // d` -/
def varInt (x : List Int) (m : Option Int) (correction : Nat) : R Int :=
  let n := x.length
  if n < 1 + correction then .error "StatisticsError"
  else
    match m with
    | none =>
      let s := isum x
      let y := x.map (fun a => a * (n : Int) - s)
      let d : Int := (n : Int) ^ 2 * ((n : Int) - correction)
      .ok ((inProd y y + d / 2) / d)
    | some μ =>
      let y := x.map (fun a => a - μ)
      let d : Int := (n : Int) - correction
      .ok ((inProd y y + d / 2) / d)

/-! ### _isqrt  ≙ statistics.py:180-195 -/

/-- the `for _ in range(e+1)` loop: state `r, r2, j`; `h2 <= a` is the secure comparison, `if_else` the selection -/
def isqrtLoop (a : Int) : Nat → Int → Int → Int → Int
  | 0, r, _, _ => r
  | steps + 1, r, r2, j =>
    let h := r + j
    let h2 := r2 + (2 * r + j) * j
    if h2 ≤ a then isqrtLoop a steps h h2 (j / 2) else isqrtLoop a steps r r2 (j / 2)

/-- `_isqrt(a)` for a secure integer type of bit length `l`: `e = (l - 1) // 2`, `j = 1 << e` -/
def isqrt (l : Nat) (a : Int) : Int :=
  let e := (l - 1) / 2
  isqrtLoop a (e + 1) 0 0 ((2 : Int) ^ e)

/-- `_std` on secure integers: `_isqrt(_var(x, m, correction))` -/
def stdInt (l : Nat) (x : List Int) (m : Option Int) (correction : Nat) : R Int :=
  match varInt x m correction with
  | .ok v => .ok (isqrt l v)
  | .error e => .error e

/-! ### _fsqrt  ≙ statistics.py:198-212 (scaled integers; the fixed-point product `h * h` is
`⌊h_s² / 2^f⌋ + ε` with a rounding bit ε ∈ {0,1} per iteration, passed in explicitly) -/

def fsqrtLoop (f : Nat) (a : Int) : List Bool → Int → Int → Int
  | [], r, _ => r
  | eps :: rest, r, j =>
    let h := r + j
    let hh := h * h / (2 : Int) ^ f + (if eps then 1 else 0)
    if hh ≤ a then fsqrtLoop f a rest h (j / 2) else fsqrtLoop f a rest r (j / 2)

/-- `_fsqrt(a)`, scaled: `e = (l + f - 1) // 2`, `j = 2**(e - f)` i.e. `2^e` units, `e + 1` iterations
(`eps` must have length `e + 1`) -/
def fsqrt (l f : Nat) (a : Int) (eps : List Bool) : Int :=
  fsqrtLoop f a eps 0 ((2 : Int) ^ ((l + f - 1) / 2))

/-! ### runtime.sorted / order statistics (value level) -/

def insertSorted (a : Int) : List Int → List Int
  | [] => [a]
  | b :: l => if a ≤ b then a :: b :: l else b :: insertSorted a l

/-- the value `runtime.sorted(x)` returns (C29): the ascending rearrangement of x -/
def isort : List Int → List Int
  | [] => []
  | a :: l => insertSorted a (isort l)

/-! ### _quickselect  ≙ statistics.py:281-348 -/

structure Round where
  pivot : Nat            -- position of the 1 in `random_unit_vector(sectype, n)`
  ties : List Bool       -- `y = runtime.random_bits(sectype, n)`
  deriving DecidableEq, Repr

/-- `z = [2*(x[i] - p) < y[i] * 2**-f for i in range(n)]` (scaled: `2*(X[i] - P) < y[i]`) -/
def qsZ (x : List Int) (p : Int) (y : List Bool) : List Int :=
  List.zipWith (fun xi yi => if 2 * (xi - p) < (if yi then 1 else 0) then (1 : Int) else 0) x y

/-- the `while True:` loop (statistics.py:311-317): first round with `0 < s < n`; returns `z, s` and the unused rounds -/
def qsPick (x : List Int) : List Round → Option (List Int × Nat × List Round)
  | [] => none
  | rd :: rest =>
    let p := x.getD rd.pivot 0                      -- in_prod(x, unit vector)
    let z := qsZ x p rd.ties
    let s := (isum z).toNat
    if 0 < s ∧ s < x.length then some (z, s, rest) else qsPick x rest

/-- `runtime.unit_vector(a, n)` for `0 ≤ a ≤ n`, by its documented value: `[0]*a + [1] + [0]*(n-1-a)`, and
`[1] + [0]*(n-1)` for `a = n` (runtime.py:4977-4998; the bit-level construction belongs to C30) -/
def unitVec (a n : Nat) : List Int :=
  (List.range n).map (fun i => if i = (if a = n then 0 else a) then (1 : Int) else 0)

def vectorAdd (u v : List Int) : List Int := List.zipWith (· + ·) u v

/-- the compaction loop (statistics.py:331-337 for `w_left`; with `z := 1 - z`-style inputs also 339-344):
```
w = [0] * s
for i in range(n):
    j = sum(z[:i+1]); m = min(i+2, s)
    u = unit_vector(j, m); v = scalar_mul(zx[i], u); v.extend([0] * (s - m)); w = vector_add(w, v)
```
`zs` = z[i:], `vs` = the values zx[i:], `i` the current index, `j0` = sum(z[:i]) -/
def compactLoop (s : Nat) : List Int → List Int → Nat → Int → List Int → List Int
  | zi :: zs, vi :: vs, i, j0, w =>
    let j := j0 + zi
    let m := min (i + 2) s
    let v := (unitVec j.toNat m).map (vi * ·) ++ List.replicate (s - m) 0
    compactLoop s zs vs (i + 1) j (vectorAdd w v)
  | _, _, _, _, w => w

def compact (z vals : List Int) (s : Nat) : List Int :=
  compactLoop s z vals 0 0 (List.replicate s 0)

/-- `_quickselect(x, ks)`; fuel ≥ len(x) (each recursive call is on a strictly shorter list).
Returns the selected values in the order the code returns them and the unused rounds. -/
def quickselect : Nat → List Int → List Nat → List Round → R (List Int × List Round)
  | 0, _, _, _ => .error "fuel"
  | fuel + 1, x, ks, rounds =>
    if 3 ≤ ks.length then
      let y := isort x
      .ok (ks.map (fun k => y.getD k 0), rounds)
    else if ks.isEmpty then .ok ([], rounds)
    else
      let n := x.length
      if n = 1 then .ok ([x.getD 0 0], rounds)
      else
        match qsPick x rounds with
        | none => .error "exhausted"
        | some (z, s, rounds) =>
          let ksLeft := ks.filter (· < s)
          let ksRight := (ks.filter (fun k => ¬ k < s)).map (· - s)
          -- `if not ks_left: ks_left = ks_right; ks_right = []; z = [1-a for a in z]; s = n - s`
          let (ksLeft, ksRight, z, s) :=
            if ksLeft.isEmpty then (ksRight, [], z.map (1 - ·), n - s) else (ksLeft, ksRight, z, s)
          let zx := List.zipWith (· * ·) z x                       -- schur_prod(z, x)
          let wLeft := compact z zx s
          match quickselect fuel wLeft ksLeft rounds with
          | .error e => .error e
          | .ok (w, rounds) =>
            if ksRight.isEmpty then .ok (w, rounds)
            else
              -- j = i+1 - j counts the zeros of z; values x[i] - zx[i]
              let wRight := compact (z.map (1 - ·)) (List.zipWith (· - ·) x zx) (n - s)
              match quickselect fuel wRight ksRight rounds with
              | .error e => .error e
              | .ok (w', rounds) => .ok (w ++ w', rounds)

/-! ### median, median_low, median_high  ≙ statistics.py:215-278 -/

inductive Med | mid | low | high
  deriving DecidableEq, Repr

/-- the order statistics `_med` asks `_quickselect` for -/
def medKs (n : Nat) (med : Med) : List Nat :=
  if n % 2 = 1 then [(n - 1) / 2]
  else match med with
    | .low => [(n - 2) / 2]
    | .high => [n / 2]
    | .mid => [(n - 2) / 2, n / 2]

/-- `_med(data, med)` on secure integers (`s // 2` for the two-middle-values case) -/
def medInt (x : List Int) (med : Med) (rounds : List Round) : R (Int × List Round) :=
  let n := x.length
  if n = 0 then .error "StatisticsError"
  else
    match quickselect n x (medKs n med) rounds with
    | .error e => .error e
    | .ok (w, rounds) =>
      if n % 2 = 1 then .ok (w.getD 0 0, rounds)
      else match med with
        | .low => .ok (w.getD 0 0, rounds)
        | .high => .ok (w.getD 0 0, rounds)
        | .mid => .ok (isum w / 2, rounds)

/-! ### quantiles  ≙ statistics.py:351-441 -/

inductive Method | inclusive | exclusive
  deriving DecidableEq, Repr

/-- `data[j] = None` on a dict: keys keep their first-insertion order -/
def addKey (ks : List Nat) (j : Nat) : List Nat := if j ∈ ks then ks else ks ++ [j]

/-- `j, delta` of cut point `i` — inclusive: `divmod(i*m, n)` with `m = ld - 1`;
exclusive: `j = i*m // n` clamped to `1 .. ld-1`, `delta = i*m - j*n` with `m = ld + 1` -/
def cutIndex (ld n : Nat) (method : Method) (i : Nat) : Nat × Int :=
  match method with
  | .inclusive => let m := ld - 1; (i * m / n, ((i * m % n : Nat) : Int))
  | .exclusive =>
    let m := ld + 1
    let j := i * m / n
    let j := if j < 1 then 1 else if j > ld - 1 then ld - 1 else j
    (j, (i * m : Int) - (j * n : Int))

/-- the keys of the dict `data` after the first loop (which order statistics are requested) -/
def quantileKs (ld n : Nat) (method : Method) : List Nat :=
  (List.range (n - 1)).foldl (fun ks i0 =>
    let (j, delta) := cutIndex ld n method (i0 + 1)
    match method with
    | .inclusive =>
      let ks := addKey ks j
      if delta ≠ 0 then addKey ks (j + 1) else ks
    | .exclusive =>
      let ks := if (n : Int) - delta ≠ 0 then addKey ks (j - 1) else ks
      if delta ≠ 0 then addKey ks j else ks) []

/-- `dict(zip(data, points))[j]` -/
def lookup (ks : List Nat) (points : List Int) (j : Nat) : Int :=
  match ks.idxOf? j with
  | some t => points.getD t 0
  | none => 0        -- KeyError; shown unreachable (Lemmas)

/-- `div_n = lambda a: (a + n//2) // n` -/
def divN (n : Nat) (a : Int) : Int := (a + (n : Int) / 2) / (n : Int)

/-- cut point `i` from the requested order statistics (second loop) -/
def cutPoint (ld n : Nat) (method : Method) (data : Nat → Int) (i : Nat) : Int :=
  let (j, delta) := cutIndex ld n method i
  match method with
  | .inclusive =>
    if delta ≠ 0 then data j + divN n ((data (j + 1) - data j) * delta) else data j
  | .exclusive =>
    if delta = 0 then data (j - 1)
    else if delta = n then data j
    else data (j - 1) + divN n ((data j - data (j - 1)) * delta)

/-- `quantiles(data, n=n, method=method)` on secure integers -/
def quantilesInt (x : List Int) (n : Nat) (method : Method) (rounds : List Round) :
    R (List Int × List Round) :=
  if n < 1 then .error "StatisticsError"
  else
    let ld := x.length
    if ld < 2 then .error "StatisticsError"
    else
      let ks := quantileKs ld n method
      match quickselect ld x ks rounds with
      | .error e => .error e
      | .ok (points, rounds) =>
        .ok ((List.range (n - 1)).map (fun i0 => cutPoint ld n method (lookup ks points) (i0 + 1)), rounds)

/-! ### mode  ≙ statistics.py:444-495 -/

/-- `while e > PRIV and not await runtime.output(b[e-1 + f]): e -= 1` on the bits of `d = M - m` (integral part) -/
def modeE (priv d : Nat) : Nat → Nat
  | 0 => 0
  | e + 1 => if priv < e + 1 ∧ ¬ d.testBit e then modeE priv d e else e + 1

/-- `_argmax(x, key=lambda a: a[0])` on pairs `[c, a]` (runtime.py:1681-1694); fuel ≥ len(x) -/
def argmaxPairs : Nat → List (Int × Int) → Nat × (Int × Int)
  | 0, x => (0, x.getD 0 (0, 0))
  | fuel + 1, x =>
    let n := x.length
    if n ≤ 1 then (0, x.getD 0 (0, 0))
    else
      let (i0, max0) := argmaxPairs fuel (x.take (n / 2))
      let (i1, max1) := argmaxPairs fuel (x.drop (n / 2))
      let i1 := i1 + n / 2
      if max0.1 < max1.1 then (i1, max1) else (i0, max0)

def listMin (x : List Int) : Int := x.foldl min (x.headD 0)
def listMax (x : List Int) : Int := x.foldl max (x.headD 0)

/-- `mode(data)` / `_mode(x, PRIV)` for integral data; `l` = number of integer bits of the type
(`len(to_bits(M - m)) - f`), `priv = sec_param // 6` -/
def modeInt (l priv : Nat) (x : List Int) : R Int :=
  if x.isEmpty then .error "StatisticsError"
  else
    let m := listMin x
    let M := listMax x
    let e := modeE priv (M - m).toNat l
    if e = 0 then .ok m
    else
      let u := x.map (fun a => unitVec (a - m).toNat (2 ^ e))
      let freqs := u.foldl vectorAdd (List.replicate (2 ^ e) 0)      -- reduce(vector_add, u)
      let counts := u.map (fun ui => inProd ui freqs)
      .ok (argmaxPairs x.length (List.zip counts x)).2.2

/-! ### covariance  ≙ statistics.py:498-525 (secure integers) -/

def covInt (x y : List Int) : R Int :=
  let n := x.length
  if y.length ≠ n then .error "StatisticsError"
  else if n < 2 then .error "StatisticsError"
  else
    let sx := isum x
    let sy := isum y
    let sxy := inProd (x.map (fun xi => xi * (n : Int) - sx)) (y.map (fun yi => yi * (n : Int) - sy))
    let d : Int := (n : Int) ^ 2 * ((n : Int) - 1)
    .ok ((sxy + d / 2) / d)

end MpycV.Stats
