/-
M6 `Fxp`: value layer of the secure fixed-point operations (core Lean only, no Mathlib).

A secure fixed-point number of type `SecFxp(l, f)` over GF(p) is modelled by `V = (A, flag)`:
`A : Int` is an integer REPRESENTATIVE of the field element all parties' shares encode (the share
layer, M4/C11, proves this abstraction sound), `flag` is the Python attribute `integral`
(`None` is identified with `False`: the code only ever tests its truth value).  The number meant is
`norm p A / 2^f` (`norm` = the signed representative `PrimeFieldElement.signed_`).  Linear operations
are computed on representatives without reduction (`a + b` in the field is `(A + B) mod p`, the model
keeps `A + B`); every place where the code leaves the ring structure of the field is transcribed
literally on the residue: `>>` (multiplication by the inverse of `2^n` in GF(p)), `c.value % (1<<f)`
in `trunc`, and the signed output conversion.  All three only depend on `A mod p`, so the choice of
representative is immaterial for everything observable (`norm p A`, the flag, every opened value).

Random values drawn by a protocol are explicit inputs (`rbits`, `rdiv`).
The model assumes `f ≥ 1` (for `f = 0` the code takes the integer code paths, property C01).

≙ sectypes.py:522-553  SecureFixedPoint.__init__     -> `ofInt`, `ofFloat`
≙ finfields.py:427-441 `>>`, `>>=`                    -> `rsh`
≙ finfields.py:490-495 `signed_`                      -> `signed`, `norm`
≙ runtime.py:790-836   `trunc`                        -> `truncE`
≙ runtime.py:989-1030  `neg`, `pos`, `add`, `sub`     -> `neg`, `pos`, `add`, `sub`
≙ runtime.py:1061-1094 `mul`                          -> `mulSS`, `mulInt`, `mulFloat`
≙ runtime.py:1144-1153 `lshift`                       -> `lshift`
≙ runtime.py:1296-1329 `pow` (b ≥ 1)                  -> `pow`
≙ runtime.py:2025-2043 `sum`                          -> `sum`
≙ runtime.py:2046-2082 `in_prod`                      -> `inProd`
≙ runtime.py:2085-2131 `prod`                         -> `prodLevel`, `prod`
≙ runtime.py:2134-2171 `all`                          -> `allLevel`, `all`
≙ runtime.py:2227-2266 `vector_add`, `vector_sub`     -> `vectorAdd`, `vectorSub`
≙ runtime.py:2293-2316 `scalar_mul`                   -> `scalarMul`
≙ runtime.py:2319-2351 `_if_else_list`, `if_else`     -> `ifElseList`, `ifElse`
≙ runtime.py:2354-2388 `_if_swap_list`, `if_swap`     -> `ifSwapList`, `ifSwap`
≙ runtime.py:2391-2425 `schur_prod`                   -> `schurProd`
≙ runtime.py:2428-2479 `matrix_prod`                  -> `matrixProd`
The `…Old` definitions are the flag rules of the code BEFORE commit bd0804d (flag of element 0);
they are only used for the theorem `first_element_rule_unsound` and a driver op of the same name.
-/
namespace MpycV.Fxp

/-! ### the field GF(p) on integer representatives -/

/-- Python `x % p` for a positive modulus: the residue in `[0, p)` -/
def pmod (x : Int) (p : Nat) : Int := x % (p : Int)

/-- ≙ finfields.py:490 `signed_`: `v - p if v > p >> 1 else v` for a residue `v` -/
def signed (p : Nat) (v : Int) : Int := if v > (p : Int) / 2 then v - (p : Int) else v

/-- the signed integer a field element stands for (`int(a)` for a signed prime field) -/
def norm (p : Nat) (x : Int) : Int := signed p (pmod x p)

/-- the inverse of 2 in GF(p), p odd -/
def inv2 (p : Nat) : Int := ((p : Int) + 1) / 2

/-- ≙ finfields.py:427/435 `a >> n`, `a >>= n`: `value * _reciprocal2(n) % p`; the inverse of `2^n` in
GF(p) is `inv2^n` (that the code's `gmpy2.invert(1 << n, p)` is this residue is checked by the
correspondence `rsh`).  Result given as signed representative. -/
def rsh (p n : Nat) (x : Int) : Int := norm p (pmod x p * pmod (inv2 p ^ n) p)

/-! ### values -/

structure V where
  A : Int
  flag : Bool
  deriving DecidableEq, Repr

/-- the type parameters: `bit_length`, `frac_length`, `options.sec_param`, `field.modulus` -/
structure Ty where
  l : Nat
  f : Nat
  k : Nat
  p : Nat
  deriving Repr

/-- a Python float: the dyadic rational `m * 2^e` (every finite float is one) -/
structure Dy where
  m : Int
  e : Int
  deriving Repr

/-- `float.is_integer()` -/
def Dy.isInteger (x : Dy) : Bool :=
  if x.e ≥ 0 then true else x.m % (2 : Int) ^ (-x.e).toNat == 0

/-- Python `round(num / 2^d)` for an exactly represented quotient: round half to even -/
def roundHalfEven (num : Int) (d : Nat) : Int :=
  let D : Int := (2 : Int) ^ d
  let q := num / D
  let r := num % D
  if 2 * r < D then q
  else if 2 * r > D then q + 1
  else if q % 2 = 0 then q else q + 1

/-- `round(x * 2**f)` for a float `x` (the float product with a power of two is exact; overflow and
subnormals are outside the model) ≙ sectypes.py:540, runtime.py:1076 -/
def scaleRound (f : Nat) (x : Dy) : Int :=
  let s := x.e + (f : Int)
  if s ≥ 0 then x.m * (2 : Int) ^ s.toNat else roundHalfEven x.m (-s).toNat

/-- ≙ sectypes.py:533-536: `secfxp(n)` for a Python int -/
def ofInt (f : Nat) (n : Int) : V := ⟨n * (2 : Int) ^ f, true⟩

/-- ≙ sectypes.py:537-540: `secfxp(x)` for a Python float (flag inferred by `is_integer`) -/
def ofFloat (f : Nat) (x : Dy) : V := ⟨scaleRound f x, x.isInteger⟩

/-- ≙ sectypes.py:537-540 with explicit `integral=False` (as used by SecureFloat) -/
def ofFloatNoFlag (f : Nat) (x : Dy) : V := ⟨scaleRound f x, false⟩

/-- results of comparisons, `lsb`, `to_bits`, `random_bits`, `_is_zero`, `sgn`: an integer `b` (a bit,
or a sign in {-1,0,1}) shifted left by `f`, declared `(stype, True)` ≙ runtime.py:1515,1558 etc. -/
def ofBit (f : Nat) (b : Int) : V := ⟨b * (2 : Int) ^ f, true⟩

/-! ### truncation ≙ runtime.py:790-836 -/

/-- `s = 0; for i in range(f-1, -1, -1): s <<= 1; s += r_bits[i]` — the value of little-endian bits -/
def bitsVal : List Int → Int
  | [] => 0
  | b :: bs => b + 2 * bitsVal bs

/-- One element of `trunc(x, f=d, l=l)`: `rbits` are the `d` random bits of this element, `rdiv` its
`r_divf`.  Returns (the value opened to all parties, the result).  `l` is the value of the local
variable `l` AFTER `l += f` (callers: `mul`, `in_prod` pass secure objects, so `l = bit_length + d`;
the list operations pass field elements and `l = bit_length + f` explicitly since commit 5b2f9f0). -/
def truncE (p d l : Nat) (x : Int) (rbits : List Int) (rdiv : Int) : Int × Int :=
  let xr := x + bitsVal rbits                                        -- xr_modf[j] = a + s
  let c := pmod (xr + ((2 : Int) ^ (l - 1) + rdiv * (2 : Int) ^ d)) p  -- opened: ar + ((1 << l-1) + (q << f))
  let c' := c % (2 : Int) ^ d                                        -- c.value % (1<<f)
  (c, rsh p d (xr - c'))                                             -- (ar - c) >> f

def trunc (p d l : Nat) (x : Int) (rbits : List Int) (rdiv : Int) : Int := (truncE p d l x rbits rdiv).2

/-- randomness of one truncated element -/
abbrev Rnd := List Int × Int

/-! ### scalar operations -/

def neg (a : V) : V := ⟨-a.A, a.flag⟩                      -- ≙ runtime.py:995
def pos (a : V) : V := ⟨a.A, a.flag⟩                       -- ≙ runtime.py:1006
def add (a b : V) : V := ⟨a.A + b.A, a.flag && b.flag⟩     -- ≙ runtime.py:1017
def sub (a b : V) : V := ⟨a.A - b.A, a.flag && b.flag⟩     -- ≙ runtime.py:1028

/-- ≙ runtime.py:1061-1094 with `b` a secure number: `z = 0`, flag `a_integral and b_integral`,
`c >>= f` if one flag is set, else `trunc(stype(c), f=f)` (then `l = bit_length + f`) -/
def mulSS (t : Ty) (a b : V) (r : Rnd) : V :=
  let c := a.A * b.A
  let flag := a.flag && b.flag
  if a.flag || b.flag then ⟨rsh t.p t.f c, flag⟩
  else ⟨trunc t.p t.f (t.l + t.f) c r.1 r.2, flag⟩

/-- ≙ runtime.py:1073-1074, 1079, 1087: `b` a Python int: `z = f`, no shift, no truncation -/
def mulInt (a : V) (n : Int) : V := ⟨a.A * n, a.flag⟩

/-- number of trailing zero bits of `n ≥ 1` (`(b & -b).bit_length() - 1`), by fuel -/
def tzF : Nat → Nat → Nat
  | 0, _ => 0
  | fuel + 1, n => if n % 2 = 1 then 0 else 1 + tzF fuel (n / 2)

def tz (n : Nat) : Nat := tzF n n

/-- ≙ runtime.py:1077: `z = max(0, min(f, (b & -b).bit_length() - 1))` (`b = 0` gives `-1`, so `z = 0`) -/
def zOf (f : Nat) (B : Int) : Nat := if B = 0 then 0 else min f (tz B.natAbs)

/-- ≙ runtime.py:1075-1094 with `b` a Python float -/
def mulFloat (t : Ty) (a : V) (x : Dy) (r : Rnd) : V :=
  let B := scaleRound t.f x                 -- b = round(b * 2**f)
  let z := zOf t.f B
  let B' := B / (2 : Int) ^ z               -- b >>= z
  let c := a.A * B'
  let flag := a.flag && (z == t.f)          -- a_integral and (b_integral or z == f), b_integral = False
  if z == t.f then ⟨c, flag⟩
  else if a.flag then ⟨rsh t.p (t.f - z) c, flag⟩
  else ⟨trunc t.p (t.f - z) (t.l + (t.f - z)) c r.1 r.2, flag⟩

/-- ≙ runtime.py:1144-1153 `a << n` for a public `n ≥ 0` -/
def lshift (f : Nat) (a : V) (n : Nat) : V := ⟨a.A * (2 : Int) ^ n, a.flag || decide (n ≥ f)⟩

/-- ≙ runtime.py:2339-2351 scalar case `c * (x - y) + y` (the code raises ValueError unless `c.flag`) -/
def ifElse (t : Ty) (c x y : V) : V := add (mulSS t c (sub x y) ([], 0)) y

/-- ≙ runtime.py:2378-2388 scalar case: `d = c * (y - x); [x + d, y - d]` -/
def ifSwap (t : Ty) (c x y : V) : V × V :=
  let d := mulSS t c (sub y x) ([], 0)
  (add x d, sub y d)

/-- ≙ runtime.py:1311-1329 `pow(a, n)` for `n ≥ 1`: square and multiply, `c = 1` is a Python int, so the
first `c * d` is `d * 1` (int factor).  `rs` supplies the randomness of the secure products in call
order.  Returns the result and the unused randomness.  Loop over the bits `i < n.bit_length() - 1`. -/
def powLoop (t : Ty) : Nat → Nat → V → Option V → List Rnd → V × Option V × List Rnd
  | 0, _, d, c, rs => (d, c, rs)
  | steps + 1, n, d, c, rs =>
    let (c', rs1) :=
      if n % 2 = 1 then
        match c with
        | none => (some (mulInt d 1), rs)
        | some cv => (some (mulSS t cv d (rs.headD ([], 0))), rs.tail)
      else (c, rs)
    let d' := mulSS t d d (rs1.headD ([], 0))
    powLoop t steps (n / 2) d' c' rs1.tail

def pow (t : Ty) (a : V) (n : Nat) (rs : List Rnd) : V :=
  let (d, c, rs') := powLoop t (n.log2) n a none rs
  match c with
  | none => mulInt d 1
  | some cv => mulSS t cv d (rs'.headD ([], 0))

/-! ### list operations; flags are taken over ALL elements (commit bd0804d) -/

def allFlags (xs : List V) : Bool := xs.all (·.flag)

def sumA : List V → Int
  | [] => 0
  | x :: xs => x.A + sumA xs

/-- ≙ runtime.py:2025-2043 with `start = 0` (coerced to `secfxp(0)`, integral) -/
def sum (xs : List V) : V := ⟨sumA xs, allFlags xs⟩

def dotA : List V → List V → Int
  | x :: xs, y :: ys => x.A * y.A + dotA xs ys
  | _, _ => 0

/-- ≙ runtime.py:2046-2082 both lists secure (`trunc(stype(s))`: `l = bit_length + f`) -/
def inProd (t : Ty) (xs ys : List V) (r : Rnd) : V :=
  let xi := allFlags xs
  let yi := allFlags ys
  let s := dotA xs ys
  if xi || yi then ⟨rsh t.p t.f s, xi && yi⟩
  else ⟨trunc t.p t.f (t.l + t.f) s r.1 r.2, xi && yi⟩

def zipAdd : List V → List V → Bool → List V
  | x :: xs, y :: ys, fl => ⟨x.A + y.A, fl⟩ :: zipAdd xs ys fl
  | _, _, _ => []

def zipSub : List V → List V → Bool → List V
  | x :: xs, y :: ys, fl => ⟨x.A - y.A, fl⟩ :: zipSub xs ys fl
  | _, _, _ => []

/-- ≙ runtime.py:2227-2245 (a Python int in `y` is passed as `ofInt`, flag true) -/
def vectorAdd (xs ys : List V) : List V := zipAdd xs ys (allFlags xs && allFlags ys)
/-- ≙ runtime.py:2248-2266 -/
def vectorSub (xs ys : List V) : List V := zipSub xs ys (allFlags xs && allFlags ys)

/-- the flag rule before commit bd0804d: flag of element 0 -/
def headFlag (xs : List V) : Bool := match xs with | [] => false | x :: _ => x.flag
def vectorAddOld (xs ys : List V) : List V := zipAdd xs ys (headFlag xs)

/-- trunc call on a list of field elements with `l = bit_length + f` ≙ runtime.py:2124,2315,2424,2472 -/
def listTruncL (t : Ty) : Nat := t.l + t.f

/-- ≙ runtime.py:2293-2316 -/
def scalarMul (t : Ty) (a : V) (xs : List V) (rs : List Rnd) : List V :=
  let flag := a.flag && allFlags xs
  if a.flag then
    let a' := rsh t.p t.f a.A                  -- a = a >> f
    xs.map (fun x => ⟨x.A * a', flag⟩)
  else
    (xs.zip rs).map (fun (x, r) => ⟨trunc t.p t.f (listTruncL t) (x.A * a.A) r.1 r.2, flag⟩)

/-- ≙ runtime.py:2391-2425 -/
def schurProd (t : Ty) (xs ys : List V) (rs : List Rnd) : List V :=
  let xi := allFlags xs
  let yi := allFlags ys
  if xi || yi then
    (xs.zip ys).map (fun (x, y) => ⟨rsh t.p t.f (x.A * y.A), xi && yi⟩)
  else
    ((xs.zip ys).zip rs).map (fun ((x, y), r) => ⟨trunc t.p t.f (listTruncL t) (x.A * y.A) r.1 r.2, xi && yi⟩)

/-- ≙ runtime.py:2319-2337 (`if_else` raises ValueError unless `c.flag`) -/
def ifElseList (t : Ty) (c : V) (xs ys : List V) : List V :=
  let a := rsh t.p t.f c.A
  let flag := allFlags (xs ++ ys)
  (xs.zip ys).map (fun (x, y) => ⟨a * (x.A - y.A) + y.A, flag⟩)

/-- ≙ runtime.py:2354-2376 -/
def ifSwapList (t : Ty) (c : V) (xs ys : List V) : List V × List V :=
  let a := rsh t.p t.f c.A
  let flag := allFlags (xs ++ ys)
  ((xs.zip ys).map (fun (x, y) => ⟨x.A + a * (y.A - x.A), flag⟩),
   (xs.zip ys).map (fun (x, y) => ⟨y.A - a * (y.A - x.A), flag⟩))

def colOf (B : List (List V)) (j : Nat) : List V := B.map (fun r => r.getD j ⟨0, true⟩)

/-- ≙ runtime.py:2428-2479; `B` is passed row-wise, `tr` as in the code; `rs` row-major randomness -/
def matrixProd (t : Ty) (A B : List (List V)) (tr : Bool) (rs : List (List Rnd)) : List (List V) :=
  let ai := A.all allFlags
  let bi := B.all allFlags
  let n2 := if tr then B.length else (B.headD []).length
  (A.zipIdx).map (fun (row, i) =>
    (List.range n2).map (fun j =>
      let col := if tr then B.getD j [] else colOf B j
      let s := dotA row col
      if ai || bi then ⟨rsh t.p t.f s, ai && bi⟩
      else
        let r := (rs.getD i []).getD j ([], 0)
        ⟨trunc t.p t.f (listTruncL t) s r.1 r.2, ai && bi⟩))

/-- one round of the product tree ≙ runtime.py:2113-2129: pairs `(x[i], x[i+1])`, `i = n%2, n%2+2, …`;
a pair with no flag set is truncated (consumes one `Rnd`), the others are shifted in the field -/
def pairUp (t : Ty) : List V → List Rnd → List V × List Rnd
  | a :: b :: rest, rs =>
    if !a.flag && !b.flag then
      let r := rs.headD ([], 0)
      let (vs, rs') := pairUp t rest rs.tail
      (⟨trunc t.p t.f (listTruncL t) (a.A * b.A) r.1 r.2, false⟩ :: vs, rs')
    else
      let (vs, rs') := pairUp t rest rs
      (⟨rsh t.p t.f (a.A * b.A), a.flag && b.flag⟩ :: vs, rs')
  | _, rs => ([], rs)

def prodLevel (t : Ty) (xs : List V) (rs : List Rnd) : List V × List Rnd :=
  if xs.length % 2 = 1 then
    match xs with
    | x :: rest => let (vs, rs') := pairUp t rest rs; (x :: vs, rs')
    | [] => ([], rs)
  else pairUp t xs rs

def prodF (t : Ty) : Nat → List V → List Rnd → List V
  | 0, xs, _ => xs
  | fuel + 1, xs, rs =>
    if xs.length ≤ 1 then xs else
    let (ys, rs') := prodLevel t xs rs
    prodF t fuel ys rs'

/-- ≙ runtime.py:2085-2131 with `start = 1` (`x[0] * 1` changes nothing); nonempty `xs` -/
def prod (t : Ty) (xs : List V) (rs : List Rnd) : V := (prodF t xs.length xs rs).headD ⟨0, false⟩

/-- one round of `all` ≙ runtime.py:2164-2169: every pair product is shifted in the field -/
def allPairs (t : Ty) : List V → List V
  | a :: b :: rest => ⟨rsh t.p t.f (a.A * b.A), true⟩ :: allPairs t rest
  | _ => []

def allLevel (t : Ty) (xs : List V) : List V :=
  if xs.length % 2 = 1 then
    match xs with
    | x :: rest => ⟨x.A, true⟩ :: allPairs t rest
    | [] => []
  else allPairs t xs

def allF (t : Ty) : Nat → List V → List V
  | 0, xs => xs
  | fuel + 1, xs => if xs.length ≤ 1 then xs else allF t fuel (allLevel t xs)

/-- ≙ runtime.py:2134-2171: `none` = `ValueError('nonintegral fixed-point number')`; declared flag True -/
def all (t : Ty) (xs : List V) : Option V :=
  if allFlags xs then
    match allF t xs.length xs with
    | x :: _ => some ⟨x.A, true⟩
    | [] => none
  else none

end MpycV.Fxp
