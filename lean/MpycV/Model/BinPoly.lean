/-
Executable model of `/repo/mpyc/gfpx.py`, class `BinaryPolynomial` (gfpx.py:848): polynomials over GF(2)
as nonnegative integers, bit i = coefficient of X^i, 0 = zero polynomial.  Core Lean only.

Main API: `bitLen degree add sub neg mul sq lshift rshift modCore divmodCore mod divmod floordiv gcd gcdext
invert powmod isIrreducible nextIrreducible findIrreducible fromInt toInt fromList toList lt eval toTerms`,
and the bridge to the list representation `toList : Nat → GFpX.Poly` / `fromList`.
Errors reuse `MpycV.GFpX.Err`.
-/
import MpycV.Model.GFpX

namespace MpycV.BinPoly

open MpycV.GFpX (Err)

/-- Python `int.bit_length()` -/
def bitLen (a : Nat) : Nat := if a = 0 then 0 else Nat.log2 a + 1

/-- ≙ gfpx.py:938 `_degree` -/
def degree (a : Nat) : Int := (bitLen a : Int) - 1

/-- ≙ gfpx.py:983 `_add` (and `_sub = _add`, gfpx.py:986) -/
def add (a b : Nat) : Nat := a ^^^ b

def sub (a b : Nat) : Nat := a ^^^ b

/-- ≙ gfpx.py:975 `_neg` -/
def neg (a : Nat) : Nat := a

/-- loop gfpx.py:1010-1014; fuel ≥ a suffices -/
def sqLoop : Nat → Nat → Nat → Nat → Nat
  | 0, _, _, c => c
  | f + 1, a, d, c =>
    if a = 0 then c else sqLoop f (a >>> 1) (d <<< 2) (if a &&& 1 = 1 then c ||| d else c)

/-- ≙ gfpx.py:1007 `_sq` -/
def sq (a : Nat) : Nat := sqLoop a a 1 0

/-- loop gfpx.py:998-1002; fuel ≥ b suffices -/
def mulLoop : Nat → Nat → Nat → Nat → Nat
  | 0, _, _, c => c
  | f + 1, a, b, c =>
    if b = 0 then c else mulLoop f (a <<< 1) (b >>> 1) (if b &&& 1 = 1 then c ^^^ a else c)

/-- ≙ gfpx.py:990 `_mul` -/
def mul (a b : Nat) : Nat :=
  if a = b then sq a
  else if a < b then mulLoop a b a 0
  else mulLoop b a b 0

/-- ≙ gfpx.py:1018 `_lshift` (n ≥ 0) -/
def lshift (a n : Nat) : Nat := a <<< n

/-- ≙ gfpx.py:1022 `_rshift` (n ≥ 0) -/
def rshift (a n : Nat) : Nat := a >>> n

/-- loop gfpx.py:1041-1044 with `k` remaining iterations (`i = n + k - 2`), `n = bit_length` of the divisor -/
def modLoop (n : Nat) : Nat → Nat → Nat → Nat
  | 0, a, _ => a
  | k + 1, a, b =>
    let b := b >>> 1
    modLoop n k (if (a >>> (n + k - 1)) &&& 1 = 1 then a ^^^ b else a) b

/-- ≙ gfpx.py:1027 `_mod` for `b ≠ 0` -/
def modCore (a b : Nat) : Nat :=
  let m := bitLen a
  let n := bitLen b
  if m < n then a
  else
    let b' := b <<< (m - n)
    modLoop n (m - n) (a ^^^ b') b'

/-- loop gfpx.py:1060-1065, state `(q, a, b)` -/
def divmodLoop (n : Nat) : Nat → Nat → Nat → Nat → Nat × Nat
  | 0, q, a, _ => (q, a)
  | k + 1, q, a, b =>
    let b := b >>> 1
    let q := q <<< 1
    if (a >>> (n + k - 1)) &&& 1 = 1 then divmodLoop n k (q ^^^ 1) (a ^^^ b) b
    else divmodLoop n k q a b

/-- ≙ gfpx.py:1048 `_divmod` for `b ≠ 0` -/
def divmodCore (a b : Nat) : Nat × Nat :=
  let m := bitLen a
  let n := bitLen b
  if m < n then (0, a)
  else
    let b' := b <<< (m - n)
    divmodLoop n (m - n) 1 (a ^^^ b') b'

def mod (a b : Nat) : Except Err Nat :=
  if b = 0 then .error .zeroDivision else .ok (modCore a b)

def divmod (a b : Nat) : Except Err (Nat × Nat) :=
  if b = 0 then .error .zeroDivision else .ok (divmodCore a b)

def floordiv (a b : Nat) : Except Err Nat := (divmod a b).map (·.1)

def modOpt (a : Nat) : Option Nat → Except Err Nat
  | none => .ok a
  | some b => mod a b

/-- loop gfpx.py:1070-1071; fuel `bitLen b + 1` suffices -/
def gcdLoop : Nat → Nat → Nat → Nat
  | 0, a, _ => a
  | f + 1, a, b => if b = 0 then a else gcdLoop f b (modCore a b)

/-- ≙ gfpx.py:1069 `_gcd` -/
def gcd (a b : Nat) : Nat := gcdLoop (bitLen b + 1) a b

/-- loop gfpx.py:1078-1081 -/
def gcdextLoop : Nat → Nat → Nat → Nat → Nat → Nat → Nat → Nat × Nat × Nat
  | 0, a, _, s, _, t, _ => (a, s, t)
  | f + 1, a, b, s, s1, t, t1 =>
    if b = 0 then (a, s, t)
    else
      let qr := divmodCore a b
      gcdextLoop f b qr.2 s1 (s ^^^ mul qr.1 s1) t1 (t ^^^ mul qr.1 t1)

/-- ≙ gfpx.py:1075 `_gcdext` -/
def gcdext (a b : Nat) : Nat × Nat × Nat := gcdextLoop (bitLen b + 1) a b 1 0 0 1

/-- loop gfpx.py:1090-1092 -/
def invertLoop : Nat → Nat → Nat → Nat → Nat → Nat × Nat
  | 0, a, _, s, _ => (a, s)
  | f + 1, a, b, s, s1 =>
    if b = 0 then (a, s)
    else
      let qr := divmodCore a b
      invertLoop f b qr.2 s1 (s ^^^ mul qr.1 s1)

/-- ≙ gfpx.py:1085 `_invert` -/
def invert (a b : Nat) : Except Err Nat :=
  if b = 0 then .error .zeroDivision
  else
    let r := invertLoop (bitLen b + 1) a b 1 0
    if r.1 ≠ 1 then .error .zeroDivision else .ok r.2

/-- `_powmod` is inherited from `Polynomial` (gfpx.py:411) and runs on the integer representation -/
def powStep (a : Nat) (m : Option Nat) (b : Nat) (bit : Bool) : Except Err Nat := do
  let b ← modOpt (sq b) m
  if bit then modOpt (mul b a) m else pure b

def powLoop (a : Nat) (m : Option Nat) : List Bool → Nat → Except Err Nat
  | [], b => pure b
  | bit :: bits, b => do
    let b ← powStep a m b bit
    powLoop a m bits b

/-- ≙ gfpx.py:411 `_powmod` on `BinaryPolynomial`; `cls._intern(1) = 1` -/
def powmod (a : Nat) (n : Int) (m : Option Nat) : Except Err Nat :=
  if n = 0 then pure 1
  else if n < 0 then
    match m with
    | none => .error .value
    | some b => do
      let a ← invert a b
      powLoop a m (GFpX.bitsMSB n.natAbs).tail a
  else powLoop a m (GFpX.bitsMSB n.natAbs).tail a

/-- loop gfpx.py:1105-1109 -/
def irrLoop (a : Nat) : Nat → Nat → Bool
  | 0, _ => true
  | k + 1, b =>
    let b := modCore (mul b b) a
    if gcd (b ^^^ 2) a ≠ 1 then false else irrLoop a k b

/-- ≙ gfpx.py:1099 `_is_irreducible` -/
def isIrreducible (a : Nat) : Bool :=
  if a ≤ 1 then false else irrLoop a ((bitLen a - 1) / 2) 2

/-- `while not irreducible(a): a += 2` with a bound on the number of passes -/
def nextIrrLoop : Nat → Nat → Option Nat
  | 0, _ => none
  | f + 1, a => if isIrreducible a then some a else nextIrrLoop f (a + 2)

/-- ≙ gfpx.py:1114 `_next_irreducible`; `fuel` bounds the number of candidates tested -/
def nextIrreducible (fuel : Nat) (a : Nat) : Option Nat :=
  if a ≤ 1 then some 2 else nextIrrLoop fuel (a + 1 + a % 2)

/-- ≙ finfields.py:502 `find_irreducible(2, d)` -/
def findIrreducible (d fuel : Nat) : Option Nat := nextIrreducible fuel (2 ^ d - 1)

/-- ≙ finfields.py:509 `xGF(modulus)` for p = 2: `(order, ext_deg)` or `ValueError` -/
def xGF (m : Nat) : Except Err (Nat × Nat) :=
  if isIrreducible m then .ok (2 ^ (bitLen m - 1), bitLen m - 1) else .error .value

/-- reverse the binary digits of `a` ≙ `int(format(a, 'b')[::-1], 2)`; fuel ≥ a suffices -/
def revBitsAux : Nat → Nat → Nat → Nat
  | 0, _, acc => acc
  | f + 1, a, acc => if a = 0 then acc else revBitsAux f (a / 2) (acc * 2 + a % 2)

def revBits (a : Nat) : Nat := revBitsAux a a 0

/-- ≙ gfpx.py `BinaryPolynomial._reverse(a, d)` (as of repo commit f8e05fb): truncate to `d + 1` bits, reverse the
bits, pad with `d + 1 - bit_length` zeros.  The argument is `d + 1`; `none` ≙ `d = None` -/
def reverse (a : Nat) (d1 : Option Nat) : Nat :=
  match d1 with
  | none => revBits a
  | some n =>
    let a := if n < bitLen a then a % 2 ^ n else a
    revBits a <<< (n - bitLen a)

/-- ≙ gfpx.py `BinaryPolynomial._truncate(a, n)`: `a & ((1 << n) - 1)` -/
def truncate (a n : Nat) : Nat := a % 2 ^ n

/-- ≙ gfpx.py:879 `_from_int` -/
def fromInt (a : Int) : Nat := a.natAbs

/-- ≙ gfpx.py:883 `_to_int` -/
def toInt (a : Nat) : Nat := a

/-- ≙ gfpx.py:887 `_from_list` (coefficients 0/1, least significant first) -/
def fromList (a : List Nat) : Nat := a.foldr (fun ai s => (s <<< 1) + ai) 0

/-- ≙ gfpx.py:895 `_to_list`; fuel ≥ a suffices.  This is the bridge `bit i ↔ coefficient i`. -/
def toListAux : Nat → Nat → List Nat
  | 0, _ => []
  | f + 1, a => if a = 0 then [] else (a % 2) :: toListAux f (a / 2)

def toList (a : Nat) : GFpX.Poly := toListAux a a

/-- ≙ gfpx.py:1124 `_lt` -/
def lt (a b : Nat) : Bool := a < b

/-- number of one bits mod 2; fuel ≥ a suffices -/
def parityAux : Nat → Nat → Nat
  | 0, _ => 0
  | f + 1, a => if a = 0 then 0 else (a % 2 + parityAux f (a / 2)) % 2

/-- ≙ gfpx.py:867 `__call__`: `bin(value).count('1', 2) % 2 if x % 2 else 0`
(NB as coded: the value at even `x` is 0, not the constant term) -/
def eval (a : Nat) (x : Int) : Nat := if x % 2 = 1 then parityAux a a else 0

/-- ≙ gfpx.py:922 `_to_terms` -/
def toTerms (a : Nat) : String :=
  if a = 0 then "0"
  else "+".intercalate ((GFpX.termsAux 0 (toList a)))

end MpycV.BinPoly
