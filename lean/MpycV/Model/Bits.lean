/-
Model of the bit-level oblivious building blocks of runtime.py, value layer, core Lean only:
`add_bits`, `to_bits`, `from_bits`, `find`, `unit_vector`, `trailing_zeros`, `gcp2`.

A secure number is the (signed) integer its shares encode; secure bits are integers 0/1 and all
arithmetic on them is transcribed literally (`x + y - 2c`, `c*(x - y) + y`, …), so the definitions make
sense for arbitrary integers and the theorems state where inputs must be bits.  Random values drawn by
a protocol (`r_bits`, `r_divl`) are explicit parameters; secure multiplications, `!=` and the opening
of masked values are exact (see C01/C18 for the protocols and the masking).
-/
namespace MpycV.Bits

/-! ### from_bits  ≙ runtime.py:4459-4473 -/

/-- `s = 0; for a in reversed(x): s <<= 1; s += a`; `[]` ↦ 0 -/
def fromBits (x : List Int) : Int := x.foldr (fun a s => a + 2 * s) 0

/-- the l low bits (little endian) of an integer, two's complement for negative numbers:
bit i = `(c >> i) & 1`  ≙ runtime.py:4384 -/
def bitsOf (c : Int) (l : Nat) : List Int := (List.range l).map (fun i => (c / 2 ^ i) % 2)

/-! ### add_bits  ≙ runtime.py:4275-4299 -/

/-- `f(i, j, high)` on the slice `seg = zip(x[i:j], y[i:j])`; returns `(c[i:j], d[i:j])`.
`d` is only computed where the code computes it (`high`), otherwise `[]` (never read).
`h = i + n//2` ≙ `seg.take (n/2)` / `seg.drop (n/2)`. -/
def carries (high : Bool) (seg : List (Int × Int)) : List Int × List Int :=
  if seg.length < 2 then
    match seg with
    | [(a, b)] => ([a * b], if high then [a + b - a * b * 2] else [])   -- n == 1
    | _ => ([], [])
  else
    let l := carries high (seg.take (seg.length / 2))           -- f(i, h, high=high)
    let r := carries true (seg.drop (seg.length / 2))           -- f(h, j, high=True)
    let ch := l.1.getLastD 0                                     -- c[h-1]
    -- c[h:j] = vector_add(c[h:j], scalar_mul(c[h-1], d[h:j]))
    let c2 := List.zipWith (· + ·) r.1 (r.2.map (ch * ·))
    -- if high: d[h:j] = scalar_mul(d[h-1], d[h:j])
    let d2 := if high then r.2.map (l.2.getLastD 0 * ·) else r.2
    (l.1 ++ c2, l.2 ++ d2)
termination_by seg.length
decreasing_by
  · simp only [List.length_take]; omega
  · simp only [List.length_drop]; omega

/-- final loop `c[i] = x[i] + y[i] - c[i]*2 + (c[i-1] if i > 0 else 0)` given the carry-in `cin = c[i-1]` -/
def sumBits : Int → List (Int × Int) → List Int → List Int
  | cin, (a, b) :: seg, c :: cs => (a + b - c * 2 + cin) :: sumBits c seg cs
  | _, _, _ => []

/-- `add_bits(x, y)` for `len(x) = len(y)` (the code indexes `y[i]` for `i < len(x)`) -/
def addBits (x y : List Int) : List Int :=
  let seg := x.zip y
  sumBits 0 seg (carries false seg).1

/-! ### to_bits  ≙ runtime.py:4337-4389 (secure integers and fixed-point numbers) -/

/-- `to_bits(a, l)` for a secure type with `bit_length = L`, `frac_length = f`.
`a` is the integer encoded by the shares (scaled by `2^f` for fixed-point numbers), `integral` the
fixed-point integrality attribute, `rbits` the random bits and `rdivl` the random high part drawn by the
protocol.  `none` ≙ the `assert l <= L + f` fails. -/
def toBits (L f : Nat) (integral : Bool) (a : Int) (l : Nat) (rbits : List Int) (rdivl : Int) :
    Option (List Int) :=
  if L + f < l then none else
  let rshift := decide (f ≠ 0) && integral
  if rshift && decide (l ≤ f) then some (List.replicate l 0) else
  let l' := if rshift then l - f else l
  let r := rbits.take l'                                   -- random_bits(field, l)
  let rmodl := fromBits r
  let a' := if rshift then a / 2 ^ f else a                -- a >> f  (exact: a is integral)
  -- output(a + ((1 << max(L, l)) + (r_divl << l) - r_modl))
  let c := a' + (2 ^ (max L l') + rdivl * 2 ^ l' - rmodl)
  let cm := c % 2 ^ l'
  let abits := addBits r (bitsOf cm l')
  some (if rshift then List.replicate f 0 ++ abits else abits)

/-! ### trailing_zeros, gcp2  ≙ runtime.py:1883-1915 -/

/-- `trailing_zeros(a, l)`: `c = (a + 2^L + (r_divl << l) + r_modl) % 2^l`, result `r_i xor c_i` -/
def trailingZeros (L : Nat) (a : Int) (l : Nat) (rbits : List Int) (rdivl : Int) : List Int :=
  let r := rbits.take l
  let c := (a + (2 ^ L + rdivl * 2 ^ l + fromBits r)) % 2 ^ l
  List.zipWith (fun ri ci => if ci = 1 then 1 - ri else ri) r (bitsOf c l)

/-! ### find  ≙ runtime.py:4486-4601 -/

/-- how the searched value `a` is given -/
inductive AMode
  | pubBit     -- bits=True, a a Python int: `if a == 1 and x: x = 1 - x`
  | secBit     -- bits=True, a secret: `x = a + (1 - 2a) x`
  | general    -- bits=False: `x = [b != a for b in x]`
deriving DecidableEq, Repr

/-- the `f` / `cs_f` arguments; values of `f` are lists (a single number is a singleton) -/
inductive FSpec
  | default                                   -- f(i) = i, cs_f(b, i) = i + b
  | givenF (f : Int → List Int)               -- cs_f(b, i) = b*(f(i+1) - f(i)) + f(i)
  | givenCs (cs : Int → Int → List Int)       -- f(i) = cs_f(0, i)   (a given f is superseded)

def FSpec.f : FSpec → Int → List Int
  | .default, i => [i]
  | .givenF f, i => f i
  | .givenCs cs, i => cs 0 i

def FSpec.cs : FSpec → Int → Int → List Int
  | .default, b, i => [i + b]
  | .givenF f, b, i => List.zipWith (fun fi fi1 => b * (fi1 - fi) + fi) (f i) (f (i + 1))
  | .givenCs cs, b, i => cs b i

/-- reduction to "index of the first 0"  ≙ runtime.py:4538-4545 -/
def reduceToZeroSearch (mode : AMode) (a : Int) (x : List Int) : List Int :=
  match mode with
  | .pubBit => if a = 1 then x.map (fun b => 1 - b) else x
  | .secBit => x.map (fun b => a + (1 - 2 * a) * b)
  | .general => x.map (fun b => if b ≠ a then 1 else 0)

/-- `if_else(c, x, y)` on lists: `c*(x - y) + y` -/
def ifElseList (c : Int) (x y : List Int) : List Int := List.zipWith (fun xi yi => c * (xi - yi) + yi) x y

/-- `cl(i, j)` on the slice `seg = x[i:j]`: `[nf] + f_ix`  ≙ runtime.py:4581-4589 -/
def cl (cs : Int → Int → List Int) (i : Nat) (seg : List Int) : List Int :=
  if seg.length < 2 then
    match seg with
    | [b] => b :: cs b i                       -- n == 1
    | _ => []
  else
    let nf := cl cs i (seg.take (seg.length / 2))                        -- cl(i, h)
    let r := cl cs (i + seg.length / 2) (seg.drop (seg.length / 2))      -- cl(h, j)
    ifElseList (nf.headD 0) r nf                                         -- if_else(nf[0], cl(h, j), nf)
termination_by seg.length
decreasing_by
  · simp only [List.length_take]; omega
  · simp only [List.length_drop]; omega

/-- `find(x, a, bits, e, f, cs_f)`; `e = none` ≙ `e=None` (raw output `(nf, y)`), `e = some E` ≙ an integer
(string forms are evaluated by Python to an integer first).  Result: `(nf?, y)` with `nf? = none` unless
`e=None`. -/
def find (mode : AMode) (a : Int) (x : List Int) (e : Option Int) (fs : FSpec) : Option Int × List Int :=
  let z := reduceToZeroSearch mode a x
  match z with
  | [] =>
    match e with
    | none => (some 1, fs.f 0)                  -- nf, y = 1, f(0)
    | some E => (none, fs.f E)                  -- y = f(e)
  | _ =>
    let r := cl fs.cs 0 z
    let nf := r.headD 0
    let fix := r.tail
    match e with
    | none => (some nf, fix)
    | some E => (none, ifElseList nf (fs.f E) fix)

/-- `gcp2(a, b, l)`: bitwise or of the two `trailing_zeros` vectors, then
`find(z, 1, e=None, cs_f=lambda b, i: (b+1) << i)[1]`  ≙ runtime.py:1908-1915 -/
def gcp2 (L : Nat) (a b : Int) (l : Nat) (ra : List Int) (rda : Int) (rb : List Int) (rdb : Int) : Int :=
  let x := trailingZeros L a l ra rda
  let y := trailingZeros L b l rb rdb
  let z := List.zipWith (fun xi yi => xi + yi - xi * yi) x y     -- vector_sub(vector_add(x, y), schur_prod(x, y))
  (find .pubBit 1 z none (.givenCs (fun b i => [(b + 1) * 2 ^ i.toNat]))).2.headD 0

/-! ### unit_vector  ≙ runtime.py:4979-5000 -/

/-- Python `int.bit_length()` for n ≥ 0 -/
def bitLength (n : Nat) : Nat := if n = 0 then 0 else Nat.log2 n + 1

/-- `u.extend(c for _ in zip(w, v) for c in _)` -/
def interleave : List Int → List Int → List Int
  | w :: ws, v :: vs => w :: v :: interleave ws vs
  | _, _ => []

/-- one round of the loop for bit `xi = x[i]` and public bit `bi = (b >> i) & 1` -/
def uvStep (xi : Int) (bi : Bool) (u : List Int) : List Int :=
  let v := u.map (xi * ·)                              -- scalar_mul(x[i], u)
  let w := List.zipWith (· - ·) u v                    -- vector_sub(u, v)
  let u' := (xi - v.sum) :: interleave w v
  if bi then u' else u'.dropLast                       -- if not (b >> i) & 1: u.pop()

/-- loop `for i in range(k-1, -1, -1)` -/
def uvLoop (b : Nat) (x : List Int) : Nat → List Int → List Int
  | 0, u => u
  | i + 1, u => uvLoop b x i (uvStep (x.getD i 0) (b.testBit i) u)

/-- `unit_vector(a, n)` given `x = to_bits(a, k + f)[f:]` (the k low bits of the integer a) -/
def unitVector (x : List Int) (n : Nat) : List Int :=
  let b := n - 1
  let k := bitLength b
  let u := uvLoop b x k []
  (1 - u.sum) :: u

end MpycV.Bits
