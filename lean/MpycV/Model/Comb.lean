/-
M2: subsets and PRSS key tables (core Lean only).

≙ itertools.combinations(range(m), m - t)                       -> `combinations`
≙ runtime.py:98-113   `threshold` setter (key generation)       -> `keysGenerated`, `genStore`
≙ runtime.py:115-123  `_prss_keys_to_peer`                      -> `keysToPeer`, `clientMsg`
≙ runtime.py:125-138  `_prss_keys_from_peer`                    -> `keysFromPeer`, `lenPacket`, `storeKeys`
≙ asyncoro.py:39-52   `connection_made` (client: pid + keys)    -> `clientMsg`
≙ asyncoro.py:66-93   `data_received`, server-side handshake    -> `Server.feed`
≙ runtime.py:140-149  `prfs` (one PRF per held subset)          -> `prfSubsets`

Bytes are `Nat`s (< 256 when well formed).  The dict `_prss_keys` is an association list with
unique keys (`erase` before insert ≙ dict assignment).  `secrets.token_bytes(16)` is a parameter
`tok pid k` (the k-th token drawn by party `pid`); nothing is assumed about it except, where
stated, that it has 16 bytes.
-/
namespace MpycV.Comb

abbrev Bytes := List Nat
abbrev Subset := List Nat

/-- `itertools.combinations(l, k)` as a list, in itertools (lexicographic by position) order -/
def combinations {α : Type} : List α → Nat → List (List α)
  | _, 0 => [[]]
  | [], _ + 1 => []
  | x :: xs, k + 1 => (combinations xs k).map (x :: ·) ++ combinations xs (k + 1)

/-- `itertools.combinations(range(m), m - t)` -/
def subsets (m t : Nat) : List Subset := combinations (List.range m) (m - t)

/-- `subset[0] == pid` (false for the empty tuple, where Python would raise IndexError: t = m) -/
def headIs (s : Subset) (pid : Nat) : Bool :=
  match s with
  | [] => false
  | x :: _ => x == pid

/-- `subset[0]` (0 for the empty tuple) -/
def hd : Subset → Nat
  | [] => 0
  | x :: _ => x

/-- `pid in subset` -/
def hasMem (s : Subset) (pid : Nat) : Bool := s.contains pid

/-- subsets for which party `pid` generates the key ≙ runtime.py:109-111 -/
def keysGenerated (m t pid : Nat) : List Subset :=
  (subsets m t).filter fun s => headIs s pid

/-- subsets whose keys party `pid` sends to `peer` ≙ runtime.py:120-122 -/
def keysToPeer (m t pid peer : Nat) : List Subset :=
  (subsets m t).filter fun s => headIs s pid && hasMem s peer

/-- subsets whose keys party `pid` expects from `peer` ≙ runtime.py:133-137 -/
def keysFromPeer (m t pid peer : Nat) : List Subset :=
  (subsets m t).filter fun s => headIs s peer && hasMem s pid

/-- the `_prss_keys` dict -/
abbrev Store := List (Subset × Bytes)

def Store.get? (st : Store) (s : Subset) : Option Bytes :=
  match st with
  | [] => none
  | (k, v) :: rest => if k == s then some v else Store.get? rest s

def Store.erase (st : Store) (s : Subset) : Store := st.filter fun e => !(e.1 == s)

/-- dict assignment `_prss_keys[s] = v` -/
def Store.set (st : Store) (s : Subset) (v : Bytes) : Store := (s, v) :: st.erase s

/-- keys drawn in the threshold setter: the k-th generated subset gets the k-th token of the party -/
def genFrom (tok : Nat → Bytes) : List Subset → Nat → Store
  | [], _ => []
  | s :: rest, k => (s, tok k) :: genFrom tok rest (k + 1)

/-- ≙ runtime.py:105-113 (with PRSS) -/
def genStore (m t pid : Nat) (tok : Nat → Bytes) : Store := genFrom tok (keysGenerated m t pid) 0

/-- 2-byte little-endian pid ≙ `rt.pid.to_bytes(2, 'little')` (pid < 65536) -/
def pidBytes (pid : Nat) : Bytes := [pid % 256, pid / 256 % 256]

/-- ≙ `int.from_bytes(data[:2], 'little')` -/
def pidOf (data : Bytes) : Nat :=
  match data with
  | a :: b :: _ => a + 256 * b
  | [a] => a
  | [] => 0

/-- the key block ≙ b''.join(rt._prss_keys_to_peer(peer)); a missing key would be a KeyError in
Python, here the empty string (theorems state the hypothesis under which this never happens) -/
def keyBlock (st : Store) : List Subset → Bytes
  | [] => []
  | s :: rest => (st.get? s).getD [] ++ keyBlock st rest

/-- bytes written by the client in `connection_made` ≙ asyncoro.py:45-51 -/
def clientMsg (m t pid peer : Nat) (noPrss : Bool) (st : Store) : Bytes :=
  pidBytes pid ++ (if noPrss then [] else keyBlock st (keysToPeer m t pid peer))

/-- ≙ `_prss_keys_from_peer(peer)` without data: length of the key block -/
def lenPacket (m t pid peer : Nat) : Nat := 16 * (keysFromPeer m t pid peer).length

/-- the loop of `_prss_keys_from_peer(peer, data)`: `st[s] = data[off:off+16]; off += 16` -/
def storeKeys (data : Bytes) : List Subset → Nat → Store → Store
  | [], _, st => st
  | s :: rest, off, st => storeKeys data rest (off + 16) (st.set s ((data.drop off).take 16))

/-- server end of a connection during the handshake; after the handshake `buf` collects the
remaining stream (the frames, parsed by `MpycV.Frame`) -/
structure Server where
  buf : Bytes
  peer : Option Nat
  store : Store
  deriving Repr, DecidableEq

/-- ≙ data_received up to `rt.set_protocol`, asyncoro.py:74-93 -/
def Server.feed (m t pid : Nat) (noPrss : Bool) (s : Server) (chunk : Bytes) : Server :=
  let data := s.buf ++ chunk
  match s.peer with
  | some _ => { s with buf := data }
  | none =>
    if data.length < 2 then { s with buf := data }
    else
      let peer := pidOf data
      let lp := if noPrss then 0 else lenPacket m t pid peer
      if data.length < lp + 2 then { s with buf := data }
      else
        let d := data.drop 2
        { buf := d.drop lp, peer := some peer,
          store := if noPrss then s.store else storeKeys d (keysFromPeer m t pid peer) 0 s.store }

def Server.feedAll (m t pid : Nat) (noPrss : Bool) (s : Server) : List Bytes → Server
  | [] => s
  | c :: cs => Server.feedAll m t pid noPrss (Server.feed m t pid noPrss s c) cs

/-- one complete handshake client `j` -> server `i`, delivered in the given chunks
(`cut` = chunk sizes; the rest of the message goes into a last chunk) -/
def chunksOf : Bytes → List Nat → List Bytes
  | data, [] => [data]
  | data, c :: cs => data.take c :: chunksOf (data.drop c) cs

/-- global state: the `_prss_keys` of every party (a list of m stores; a plain data structure so
that neither the interpreter nor the kernel re-evaluates earlier handshakes on every lookup) -/
abbrev Stores := List Store

def Stores.get (g : Stores) (i : Nat) : Store := g.getD i []

def Stores.upd (g : Stores) (i : Nat) (st : Store) : Stores := g.set i st

/-- initial stores ≙ `Runtime.__init__` at every party; `tok pid k` = k-th token of party pid -/
def initStores (m t : Nat) (noPrss : Bool) (tok : Nat → Nat → Bytes) : Stores :=
  (List.range m).map fun i => if noPrss then [] else genStore m t i (tok i)

/-- handshake event: connection between client `j` and server `i` is set up, the client's message
arrives at the server cut into chunks -/
structure Hs where
  client : Nat
  server : Nat
  cuts : List Nat
  deriving Repr, DecidableEq

def stepHs (m t : Nat) (noPrss : Bool) (g : Stores) (e : Hs) : Stores :=
  let msg := clientMsg m t e.client e.server noPrss (g.get e.client)
  let srv := Server.feedAll m t e.server noPrss
    { buf := [], peer := none, store := g.get e.server } (chunksOf msg e.cuts)
  g.upd e.server srv.store

def runHs (m t : Nat) (noPrss : Bool) (g : Stores) : List Hs → Stores
  | [] => g
  | e :: es => runHs m t noPrss (stepHs m t noPrss g e) es

/-- subsets for which `prfs(bound)` holds a PRF = keys of the store, in dict order -/
def prfSubsets (st : Store) : List Subset := st.map (·.1)

/-- lexicographic comparison of subsets (for canonical output) -/
def subsetLt : Subset → Subset → Bool
  | [], [] => false
  | [], _ :: _ => true
  | _ :: _, [] => false
  | a :: as, b :: bs => a < b || (a == b && subsetLt as bs)

/-- insertion sort of a store by subset -/
def insertSorted (e : Subset × Bytes) : Store → Store
  | [] => [e]
  | f :: rest => if subsetLt e.1 f.1 then e :: f :: rest else f :: insertSorted e rest

def sortStore (st : Store) : Store := st.foldr insertSorted []

/-! ### checking an extracted key table (used on tables extracted from real runs) -/

/-- `tb i` = the sorted `_prss_keys` of party i (keys as numbers). The table is consistent when
every party holds exactly the subsets it belongs to, and every key equals the generator's. -/
def holderSubsets (m t i : Nat) : List Subset := (subsets m t).filter fun s => hasMem s i

def lookupN (tb : List (Subset × Nat)) (s : Subset) : Option Nat :=
  match tb with
  | [] => none
  | (k, v) :: rest => if k == s then some v else lookupN rest s

def tableOK (m t : Nat) (tb : List (List (Subset × Nat))) : Bool :=
  tb.length == m &&
  (List.range m).all fun i =>
    let row := tb.getD i []
    row.map (·.1) == holderSubsets m t i &&
    row.all fun e =>
      match e.1 with
      | [] => false
      | g :: _ => lookupN (tb.getD g []) e.1 == some e.2

/-! ### replaying an extracted run in the model -/

/-- `w` little-endian bytes of `n` -/
def leBytes : Nat → Nat → Bytes
  | _, 0 => []
  | n, w + 1 => (n % 256) :: leBytes (n / 256) w

def ofLe : Bytes → Nat
  | [] => 0
  | b :: bs => b + 256 * ofLe bs

/-- token function from a table of numbers: `toks[p][k]` as 16 little-endian bytes -/
def tokOf (toks : List (List Nat)) (p k : Nat) : Bytes := leBytes ((toks.getD p []).getD k 0) 16

/-- final key table of the model for recorded tokens and handshake events, in the canonical form
used for extracted tables (rows sorted by subset, keys as little-endian numbers) -/
def modelTable (m t : Nat) (toks : List (List Nat)) (evs : List Hs) : List (List (Subset × Nat)) :=
  let g := runHs m t false (initStores m t false (tokOf toks)) evs
  (List.range m).map fun i => (sortStore (g.get i)).map fun e => (e.1, ofLe e.2)

end MpycV.Comb
