/-
M6 (part): value layer of secure type conversion (core Lean only).

≙ runtime.py:691-719  `convert`   (field -> field goes through SecInt(max(32, size.bit_length())))
≙ runtime.py:721-787  `_convert`  -> `convert1`
≙ runtime.py:789-833  `trunc` on raw field elements (the call `self.trunc(x, f=-d, l=s_type.bit_length)`) -> `trunc`
≙ runtime.py:1840-1885 `_mod` for public modulus b (value layer)                                      -> `modPub`

A secure number is modelled by the prime-field element (a `Nat` below the modulus) that all parties'
shares encode (the share layer is C11).  All random values a protocol draws are explicit inputs
(`Rand`): the mask `r` is the INTEGER `Σ_S prf_S(uci)` (PRSS) resp. `Σ_senders randbelow(bound)`
(no PRSS); the code shares it as `r mod p_s` in the source field and `r mod p_t` in the target field
(runtime.py:741-759).  `rModf`, `rDivf` are the random values of `trunc`; `rModb`, `rDivb` those of
`_mod`.

Modelling choices (exercised by the correspondence on every run):
* field `>> f` (multiplication by the inverse of 2^f, finfields.py `__rshift__`) is computed by
  f exact halvings mod the odd prime p (`half`); `Convert.shr_spec` proves `shr p a f * 2^f ≡ a`.
* in `_mod` the bitwise comparison circuit (runtime.py:1871-1884: e_i, prod, is_zero_public, s_sign)
  is replaced by its specification `z = [c + r_modb ≥ b]` (that circuit is part of C01 `%`).
-/
namespace MpycV.Convert

/-- `field(v)`: canonical residue of an integer in a prime field with modulus `p` -/
def emod (v : Int) (p : Nat) : Nat := (v % (p : Int)).toNat

/-- ≙ finfields.py `signed_()`: representatives above `p >> 1` are negative -/
def signed (p a : Nat) : Int := if a > p / 2 then (a : Int) - (p : Int) else (a : Int)

/-- ≙ finfields.py `__int__` (signed or unsigned view according to `field.is_signed`) -/
def toInt (p : Nat) (isSigned : Bool) (a : Nat) : Int := if isSigned then signed p a else (a : Int)

/-- exact division by 2 in Z_p for odd p -/
def half (p a : Nat) : Nat := if a % 2 = 0 then a / 2 else (a + p) / 2

/-- `a >> f` on a prime-field element: a · (2^f)⁻¹ -/
def shr (p : Nat) : Nat → Nat → Nat
  | a, 0 => a
  | a, f + 1 => shr p (half p a) f

/-- what `_convert` needs to know of a secure type -/
structure SType where
  isFld : Bool        -- issubclass(type, SecureFiniteField)   (prime field, not lifted)
  p : Nat             -- type.field.modulus = field.order
  signed : Bool       -- type.field.is_signed  (True for the fields of secint/secfxp)
  bitLength : Nat     -- type.bit_length
  frac : Nat          -- type.frac_length
  deriving Repr, DecidableEq

/-- the named random values -/
structure Rand where
  r : Nat := 0        -- mask (integer, before reduction into the two fields)
  rModf : Nat := 0    -- trunc: Σ r_bits[i] 2^i
  rDivf : Nat := 0    -- trunc: value of the shared r_divf
  rModb : Nat := 0    -- _mod : Σ r_bits[i] 2^i, a random number below b
  rDivb : Nat := 0    -- _mod : value of the shared r_divb
  deriving Repr

/-- ≙ runtime.py:736-740: bound on one contribution to the mask for secint/secfxp sources;
`n` = t+1 (no PRSS) or comb(m, t) (PRSS) contributions are summed -/
def bound (k l n : Nat) : Nat := 2 ^ (k + l) / n + 1

/-- ≙ runtime.py:813-829 for raw field elements (no `l += f`): returns (opened c, result) -/
def trunc (p x f l rModf rDivf : Nat) : Nat × Nat :=
  let xr := emod ((x : Int) + (rModf : Int)) p                                 -- a + r          :823
  let c := emod ((xr : Int) + (((2 ^ (l - 1) + rDivf * 2 ^ f : Nat)) : Int)) p  -- output(...)    :824
  let cm := c % 2 ^ f                                                          -- c.value % (1<<f) :826
  (c, shr p (emod ((xr : Int) - (cm : Int)) p) f)                              -- (ar - c) >> f  :827

/-- ≙ runtime.py:1840-1885 `_mod(a, b)` for a secure number of a type with field modulus `pt`, bit length
`l`, fractional length `f`, whose share value is `a`: returns (opened c, result share value) -/
def modPub (pt l f a b rModb rDivb : Nat) : Nat × Nat :=
  let c := emod ((a : Int) + (((2 ^ l : Nat) : Int) - ((2 ^ l % b : Nat) : Int) + (b : Int) * (rDivb : Int)
                  - (rModb : Int))) pt                                        -- :1862
  let c1 := if c % b = 0 then b else c % b                                     -- :1863-1865
  let z : Nat := if c1 + rModb ≥ b then 1 else 0                               -- :1867-1884 (specification)
  (c, emod ((((c1 + rModb : Nat) : Int) - (z : Int) * (b : Int)) * ((2 ^ f : Nat) : Int)) pt)  -- :1885

structure Out where
  truncOpened : Option Nat   -- value opened inside trunc (only d < 0)
  opened : Nat               -- x + offset + r opened in the source field
  modOpened : Option Nat     -- value opened inside _mod (only field sources)
  result : Nat               -- share value of the result in the target field
  deriving Repr, DecidableEq

/-- ≙ runtime.py:763-787 (one element); `x` = share value of the source element -/
def convert1 (s t : SType) (x : Nat) (rd : Rand) : Out :=
  let l := min s.bitLength t.bitLength                                         -- :735
  let d : Int := (t.frac : Int) - (s.frac : Int)                               -- :763
  let tr : Option (Nat × Nat) :=
    if d < 0 then some (trunc s.p x (-d).toNat s.bitLength rd.rModf rd.rDivf) else none   -- :764-765
  let x1 := match tr with
    | some (_, y) => y
    | none => x
  let offset : Nat :=
    if s.signed then (if s.isFld then s.p / 2 else 2 ^ (l - 1)) else 0        -- :766-772
  let c := emod ((x1 : Int) + (offset : Int) + ((rd.r % s.p : Nat) : Int)) s.p -- :774, opened :777
  let y0 := emod ((c : Int) - ((rd.r % t.p : Nat) : Int)) t.p                  -- :779
  if s.isFld then
    let m := modPub t.p t.bitLength t.frac y0 s.p rd.rModb rd.rDivb            -- :781
    -- `x[i] - offset` on a secure number: the int offset is scaled by 2^f for secfxp targets  :782
    let y2 := emod ((m.2 : Int) - ((offset * 2 ^ t.frac : Nat) : Int)) t.p
    { truncOpened := tr.map (·.1), opened := c, modOpened := some m.1, result := y2 }
  else
    let y2 := emod ((y0 : Int) - (offset : Int)) t.p                           -- :782
    let y3 := if d > 0 then emod ((y2 : Int) * ((2 ^ d.toNat : Nat) : Int)) t.p else y2   -- :783-785
    { truncOpened := tr.map (·.1), opened := c, modOpened := none, result := y3 }

/-- Python `int.bit_length()` -/
def bitLength (n : Nat) : Nat := if n = 0 then 0 else Nat.log2 n + 1

/-- ≙ runtime.py:708-711: bit length of the intermediate secure integer type for field -> field -/
def viaBits (ps pt : Nat) : Nat := max 32 (bitLength (max ps pt))

/-- ≙ runtime.py:707-712 (one element): field -> SecInt(l) -> field; `pi` is the modulus of the SecInt(l) field -/
def convert2 (s t : SType) (pi : Nat) (x : Nat) (rd1 rd2 : Rand) : Out × Out :=
  let mid : SType := { isFld := false, p := pi, signed := true, bitLength := viaBits s.p t.p, frac := 0 }
  let o1 := convert1 s mid x rd1
  (o1, convert1 mid t o1.result rd2)

end MpycV.Convert
