/-
M5/Pc: the program-counter machine of one party (core Lean only).

≙ asyncoro.py:286-309  _ProgramCounterWrapper.__init__ (fork) and __await__ (save / install / run /
                       store / restore around every step of a pc-carrying coroutine)
≙ runtime.py:154-160   _send_message / _receive_message label messages with _program_counter[0]
≙ runtime.py:4007-4014 _prss_uci increments the counter and uses it as unique common input
≙ asyncoro.py:276-283  _hop (CPython tuple hash) -> `hopCPython`; the theorems take `hop` as a parameter

A task is named by its path in the fork tree: `[]` is the ambient context (main program, and — when
the well-formedness condition is violated — coroutines without own pc), `π ++ [j]` is the j-th
coroutine forked by task π.
-/
namespace MpycV.Pc

structure PC where
  ctr : Int
  depth : Nat
  deriving Repr, DecidableEq, Inhabited

abbrev Path := List Nat
abbrev Hop := Int → Nat → Int

inductive Act where
  | fork                 -- call of a pc-carrying MPyC coroutine (wrapper created)
  | uci                  -- _prss_uci()
  | send (peer : Nat)    -- _send_message(peer, ..)
  | recv (peer : Nat)    -- _receive_message(peer)
  deriving Repr, DecidableEq

inductive Ev where
  | forked (pc0 : PC)             -- the child's initial program counter
  | uci (label : Int)
  | sent (peer : Nat) (label : Int)
  | recvd (peer : Nat) (label : Int)
  deriving Repr, DecidableEq

/-- effect of one action on the current program counter, and the event it produces -/
def runAct (hop : Hop) (pc : PC) : Act → PC × Ev
  | Act.fork =>
    let pc' : PC := { pc with ctr := pc.ctr + 1 }      -- rt._program_counter[0] += 1
    (pc', Ev.forked { ctr := hop pc'.ctr pc'.depth, depth := pc'.depth + 1 })
  | Act.uci =>
    let pc' : PC := { pc with ctr := pc.ctr + 1 }
    (pc', Ev.uci pc'.ctr)
  | Act.send p => (pc, Ev.sent p pc.ctr)
  | Act.recv p => (pc, Ev.recvd p pc.ctr)

/-- a task's events as a pure function of its initial pc and its own action sequence -/
def taskRun (hop : Hop) : PC → List Act → PC × List Ev
  | pc, [] => (pc, [])
  | pc, a :: as =>
    let (pc1, e) := runAct hop pc a
    let (pc2, es) := taskRun hop pc1 as
    (pc2, e :: es)

/-- the initial pc of the j-th child forked in an event list -/
def childPc0 : List Ev → Nat → Option PC
  | [], _ => none
  | Ev.forked pc :: _, 0 => some pc
  | Ev.forked _ :: es, j + 1 => childPc0 es j
  | _ :: es, j => childPc0 es j

def countForks : List Ev → Nat
  | [] => 0
  | Ev.forked _ :: es => countForks es + 1
  | _ :: es => countForks es

/-- state of one party's runtime as far as program counters are concerned -/
structure Party where
  ambient : PC                      -- Runtime._program_counter between steps
  saved : Path → Option PC          -- wrapper.pc of every pc-carrying task created so far
  pc0 : Path → PC                   -- the pc a task was created with
  events : Path → List Ev           -- events produced by each task so far (task [] = ambient)

def Party.init : Party :=
  { ambient := { ctr := 0, depth := 0 }, saved := fun _ => none,
    pc0 := fun _ => { ctr := 0, depth := 0 }, events := fun _ => [] }

def upd {β : Type} (f : Path → β) (k : Path) (v : β) : Path → β := fun x => if x = k then v else f x

/-- register the children forked by task τ in `evs` (its new events), numbering them after the
`base` children it already had -/
def registerChildren (τ : Path) : Nat → List Ev → Party → Party
  | _, [], s => s
  | base, Ev.forked pc :: es, s =>
    registerChildren τ (base + 1) es
      { s with saved := upd s.saved (τ ++ [base]) (some pc), pc0 := upd s.pc0 (τ ++ [base]) pc }
  | base, _ :: es, s => registerChildren τ base es s

/-- one atomic step of the party's event loop: task `task` performs `acts`.
`wrapped = true`  : a pc-carrying coroutine (≙ _ProgramCounterWrapper.__await__): pc = runtime.pc;
                    runtime.pc = self.pc; run; self.pc = runtime.pc; runtime.pc = pc.
`wrapped = false` : code running directly on the ambient counter: the main program (task []), or
                    the task body of a coroutine declared `mpc_coro_no_pc` (any other task name). -/
structure Step where
  task : Path
  wrapped : Bool
  acts : List Act
  deriving Repr, DecidableEq

def Party.step (hop : Hop) (s : Party) (st : Step) : Party :=
  let τ := st.task
  let start : PC := if st.wrapped then (s.saved τ).getD s.ambient else s.ambient
  let r := taskRun hop start st.acts
  let s1 := registerChildren τ (countForks (s.events τ)) r.2 s
  let s2 : Party := { s1 with events := upd s1.events τ (s.events τ ++ r.2) }
  if st.wrapped then { s2 with saved := upd s2.saved τ (some r.1) }
  else { s2 with ambient := r.1 }

/-- a run is a sequence of steps -/
def Party.run (hop : Hop) (s : Party) : List Step → Party
  | [] => s
  | st :: rest => Party.run hop (s.step hop st) rest

/-- all actions task τ performs in a run, in order -/
def proj (τ : Path) : List Step → List Act
  | [] => []
  | st :: rest => if st.task = τ then st.acts ++ proj τ rest else proj τ rest

/-- **well-formed run**: a pc-carrying task steps only after it was created; code without own pc,
other than the main program, performs no pc-action (fork, uci, send, receive) in its task body -/
def wfRunB (hop : Hop) : Party → List Step → Bool
  | _, [] => true
  | s, st :: rest =>
    (if st.wrapped then (s.saved st.task).isSome && decide (st.task ≠ [])
     else decide (st.task = []) || decide (st.acts = [])) && wfRunB hop (s.step hop st) rest

def WFRun (hop : Hop) (s : Party) (r : List Step) : Prop := wfRunB hop s r = true

instance (hop : Hop) (s : Party) (r : List Step) : Decidable (WFRun hop s r) := by
  unfold WFRun; infer_instance

/-! ### CPython's hash of a 2-tuple of ints (Objects/tupleobject.c, 64-bit build) -/

def u64 : Nat := 2 ^ 64
def xxPrime1 : Nat := 11400714785074694791
def xxPrime2 : Nat := 14029467366897019727
def xxPrime5 : Nat := 2870177450012600261

/-- hash(int) for |x| < 2^63 (one or two 30-bit digits... reduced modulo the Mersenne prime 2^61-1) -/
def hashInt (x : Int) : Int :=
  let p : Int := 2 ^ 61 - 1
  let h : Int := if x < 0 then -((-x) % p) else x % p
  if h = -1 then -2 else h

def toU64 (x : Int) : Nat := (x % (u64 : Int)).toNat

def rotl31 (x : Nat) : Nat := ((x * 2 ^ 31) % u64) ||| (x / 2 ^ 33)

def xxRound (acc : Nat) (lane : Nat) : Nat :=
  let a := (acc + lane * xxPrime2) % u64
  (rotl31 a * xxPrime1) % u64

/-- ≙ hash((ctr, depth)) = asyncoro._hop([ctr, depth]) -/
def hopCPython : Hop := fun ctr depth =>
  let acc := xxRound (xxRound xxPrime5 (toU64 (hashInt ctr))) (toU64 (hashInt (depth : Int)))
  let acc := (acc + (2 ^^^ (xxPrime5 ^^^ 3527539))) % u64
  if acc = u64 - 1 then 1546275796
  else if acc < 2 ^ 63 then (acc : Int) else (acc : Int) - (u64 : Int)

end MpycV.Pc
