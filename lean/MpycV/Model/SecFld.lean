/-
M6/M7 (part): value layer of secure finite-field arithmetic (core Lean only).

≙ sectypes.py:352-387  `SecureFiniteField.__init__` (int / subfield element -> field element)   -> `liftIn`
≙ sectypes.py:631-655  `_SecFld`: lifting of a small prime field GF(q) (t > 0 and m ≥ q) to GF(q^e),
                       `out_conv` (field -> subfield, `assert a.value.degree() <= 0`)              -> `liftDeg`, `outConv`
≙ runtime.py:1223-1247 `reciprocal` (masked opening of a·r, retry while a·r = 0, result r / (a·r)) -> `reciprocal`
≙ runtime.py:1170-1193 `div`                                                                      -> `div`
≙ runtime.py:1296-1330 `pow` (public exponent: 254 addition chain, 0, negative, square-and-multiply) -> `pow`
≙ runtime.py:1447-1463 `eq`, `is_zero` for secure field elements: 1 - a^(q-1)                       -> `isZero`, `eq`
≙ runtime.py:880-927   `is_zero_public`: open a·r for a nonzero r, compare with 0                  -> `isZeroPublic`
≙ runtime.py:1427-1441 `and_`, `xor`, `invert`, `or_` (characteristic 2)                          -> `and_`, `xor`, `invert`, `or_`
≙ runtime.py:4337-4362 `to_bits` for binary fields, 4459-4473 `from_bits`                           -> `toBitsBin`, `fromBitsBin`
≙ runtime.py:4364-4369 `to_bits` for prime fields (convert to SecInt, to_bits there, convert back)  -> `toBitsPrime`

A secure field element is modelled by the field element that all parties' shares encode (share layer:
C11).  Field arithmetic is a parameter (`Ops`), instantiated with the executable models of the repo's
field classes: `PrimeF` (finfields.py PrimeFieldElement), `BinF` (BinaryFieldElement), `ExtF`
(ExtensionFieldElement).  All random values are explicit inputs (the list of candidate masks `r` for
`reciprocal`, the random bits of `to_bits`).
-/
import MpycV.Model.ExtF
import MpycV.Model.Convert

namespace MpycV.SecFld

/-- what the runtime needs of a finite field class -/
structure Ops (α : Type) where
  order : Nat
  ofNat : Nat → α              -- field(int) for a nonnegative int
  toNat : α → Nat              -- int(a.value): prime: value; binary: bitmask; extension: digits base p
  add : α → α → α
  sub : α → α → α
  mul : α → α → α
  inv : α → Option α           -- reciprocal; none ≙ ZeroDivisionError
  isZero : α → Bool            -- not bool(a)

def exceptToOption {ε α : Type} : Except ε α → Option α
  | .ok v => some v
  | .error _ => none

/-- GF(p) ≙ finfields.py PrimeFieldElement -/
def primeOps (p : Nat) : Ops Nat where
  order := p
  ofNat n := PrimeF.mk p (n : Int)
  toNat a := a
  add a b := PrimeF.add p a (b : Int)
  sub a b := PrimeF.sub p a (b : Int)
  mul a b := PrimeF.mul p a (b : Int)
  inv a := exceptToOption (PrimeF.reciprocal p a)
  isZero a := a == 0

/-- GF(2^d) with modulus bitmask `m` ≙ finfields.py BinaryFieldElement -/
def binOps (m : Nat) : Ops Nat where
  order := BinF.order m
  ofNat n := BinF.ofInt m (n : Int)
  toNat a := BinF.toInt a
  add a b := BinF.add m a b
  sub a b := BinF.sub m a b
  mul a b := BinF.mul m a b
  inv a := exceptToOption (BinF.reciprocal m a)
  isZero a := a == 0

/-- GF(p^d), p odd, modulus = coefficient list `m` ≙ finfields.py ExtensionFieldElement -/
def extOps (p : Nat) (m : List Nat) : Ops (List Nat) where
  order := ExtF.order p m
  ofNat n := ExtF.ofInt p m (n : Int)
  toNat a := ExtF.toInt p a
  add a b := ExtF.add p m a b
  sub a b := ExtF.sub p m a b
  mul a b := ExtF.mul p m a b
  inv a := exceptToOption (ExtF.reciprocal p m a)
  isZero a := a == []

section generic
variable {α : Type} (F : Ops α)

def one : α := F.ofNat 1

/-- one round of the loop runtime.py:1228-1245: returns the opened value `a·r` and, if it is nonzero,
the result `r / (a·r)` -/
def reciprocalStep (a r : α) : α × Option α :=
  let ar := F.mul a r                                          -- :1232 (+ sharing of zero :1240, value unchanged)
  (ar, if F.isZero ar then none else (F.inv ar).map (F.mul r)) -- :1244-1247  r / ar = r * ar.reciprocal()

/-- ≙ runtime.py:1223 `reciprocal`: the loop draws a fresh random `r` per round (`rs` lists them in order);
returns (the opened values in order, the result); result `none` = all listed `r` were used and every
opened value was 0 (the code keeps looping) -/
def reciprocal (a : α) : List α → List α × Option α
  | [] => ([], none)
  | r :: rs =>
    match reciprocalStep F a r with
    | (ar, some v) => ([ar], some v)
    | (ar, none) => let rest := reciprocal a rs; (ar :: rest.1, rest.2)

/-- ≙ runtime.py:1170 `div(a, b)` for secure b of a field type: reciprocal(b) * a -/
def div (a b : α) (rs : List α) : List α × Option α :=
  let rb := reciprocal F b rs
  (rb.1, rb.2.map (fun c => F.mul c a))

/-- Python `int.bit_length()` -/
def bitLength (n : Nat) : Nat := if n = 0 then 0 else Nat.log2 n + 1

/-- loop runtime.py:1322-1327: state (c, d); `c = none` ≙ the Python int 1 before the first product -/
def powLoop (b : Nat) : Nat → Nat → Option α → α → Option α × α
  | 0, _, c, d => (c, d)
  | n + 1, i, c, d =>
    let c' := if (b >>> i) % 2 = 1 then (match c with | none => some d | some c => some (F.mul c d)) else c
    powLoop b n (i + 1) c' (F.mul d d)

/-- ≙ runtime.py:1296 `pow(a, b)` for a public int b; `rs` = masks for the reciprocal when b < 0.
Returns (opened values, result). -/
def pow (a : α) (b : Int) (rs : List α) : List α × Option α :=
  if b = 254 then                                              -- :1298-1309 addition chain
    let d := a
    let c := F.mul d d
    let c := F.mul c c
    let c := F.mul c c
    let c := F.mul c d
    let c := F.mul c c
    let (c, d) := (F.mul c c, F.mul c d)
    let (c, d) := (F.mul c c, F.mul c d)
    let c := F.mul c d
    ([], some (F.mul c c))
  else if b = 0 then ([], some (one F))                        -- :1311-1312
  else
    let (opened, a', n) : List α × Option α × Nat :=
      if b < 0 then let r := reciprocal F a rs; (r.1, r.2, (-b).toNat)   -- :1314-1320
      else ([], some a, b.toNat)
    match a' with
    | none => (opened, none)
    | some a' =>
      let (c, d) := powLoop F n (bitLength n - 1) 0 none a'
      (opened, some (match c with | none => d | some c => F.mul c d))     -- :1328 c = c * d

/-- ≙ runtime.py:1459-1462 `is_zero(a)` for a secure field element: 1 - a^(q-1) -/
def isZero (a : α) : Option α :=
  (pow F a ((F.order - 1 : Nat) : Int) []).2.map (fun v => F.sub (one F) v)

/-- ≙ runtime.py:1447 `eq(a, b)` = is_zero(a - b) -/
def eq (a b : α) : Option α := isZero F (F.sub a b)

/-- ≙ runtime.py:880-927 `is_zero_public(a)`: `r` = the nonzero random field element; returns
(opened a·r, a·r == 0) -/
def isZeroPublic (a r : α) : α × Bool :=
  let c := F.mul a r
  (c, F.isZero c)

/-! ### characteristic 2: bitwise operations -/

/-- ≙ runtime.py:1431 -/
def xor (a b : α) : α := F.add a b

/-- ≙ runtime.py:1435 `a + type(a)(a.field.order - 1)`.  For a lifted type `field` is the extension field
but the constructor reduces the int mod the subfield modulus first (sectypes.py:373-374): `qsub` is that
modulus (`none` when the type is not lifted) -/
def invert (qsub : Option Nat) (a : α) : α :=
  let v := F.order - 1
  F.add a (F.ofNat (match qsub with | some q => v % q | none => v))

/-- Σ r_i x^i as an int bitmask ≙ runtime.py:4353-4356 -/
def bitsToNat : List Nat → Nat
  | [] => 0
  | b :: bs => (bitsToNat bs <<< 1) ^^^ b

/-- ≙ `to_bits` for characteristic 2: `rbits` = values (0/1) of the random bits, one per coefficient of the field
(`max(l, ext_deg)` of them: ALL bits of `a` are masked in the opened `c`, also when only `l` bits are extracted);
returns (opened c as int, the first `l` bits as field elements; `l` defaults to all) -/
def toBitsBin (a : α) (rbits : List Nat) (l : Nat := rbits.length) : Nat × List α :=
  let c := F.toNat (F.add a (F.ofNat (bitsToNat rbits)))
  (c, (List.range l).map (fun i => F.add (F.ofNat (rbits.getD i 0)) (F.ofNat ((c >>> i) % 2))))

/-- ≙ runtime.py:4459-4473 `from_bits` in characteristic 2 (polynomial values: `<<` and `+` on GF(2)[x]) -/
def fromBitsBin (x : List α) : α :=
  F.ofNat (bitsToNat (x.map F.toNat))

/-- ≙ runtime.py:1427 `and_`: from_bits(schur_prod(to_bits(a), to_bits(b))) -/
def and_ (a b : α) (ra rb : List Nat) : α :=
  fromBitsBin F (List.zipWith F.mul (toBitsBin F a ra).2 (toBitsBin F b rb).2)

/-- ≙ runtime.py:1439 `or_`: a + b + and_(a, b) -/
def or_ (a b : α) (ra rb : List Nat) : α :=
  F.add (F.add a b) (and_ F a b ra rb)

end generic

/-! ### prime fields: bit decomposition through secure integers -/

/-- ≙ runtime.py:4364-4369: convert to SecInt(1 + bit_length) (the canonical signed/unsigned integer `V`,
C06), `to_bits(·, l)` there (bits of `V mod 2^l`, C30), convert the bits back -/
def toBitsPrime (p : Nat) (isSigned : Bool) (x l : Nat) : List Nat :=
  let V := Convert.toInt p isSigned x
  let U := if isSigned ∧ V < 0 then V + (p : Int) else V      -- `a += (a < 0) * p` for signed fields (repo fix)
  let v := (U % ((2 ^ l : Nat) : Int)).toNat
  (List.range l).map (fun i => (v >>> i) % 2)

/-- the integer whose bits are extracted: the UNSIGNED representative, for both signedness settings -/
def toBitsPrimeArg (p : Nat) (isSigned : Bool) (x : Nat) : Int :=
  let V := Convert.toInt p isSigned x
  if isSigned ∧ V < 0 then V + (p : Int) else V

/-! ### lifting of small fields -/

/-- least e with q^e > m, at least ... ≙ `math.ceil(math.log(m+1, q))` (sectypes.py:646), scanning from 1 -/
def liftDegFrom (q m : Nat) : Nat → Nat → Nat
  | 0, e => e
  | fuel + 1, e => if q ^ e ≥ m + 1 then e else liftDegFrom q m fuel (e + 1)

def liftDeg (q m : Nat) : Nat := liftDegFrom q m (m + 1) 0

/-- is the secure type lifted? ≙ sectypes.py:640 `if t == 0 or m < q` -/
def isLifted (q m t : Nat) : Bool := !(t == 0 || m < q)

/-- ≙ sectypes.py:372-375: int -> element of the extension field, reduced mod the subfield modulus first -/
def liftIn {α : Type} (F : Ops α) (q : Nat) (v : Int) : α :=
  F.ofNat (v % (q : Int)).toNat

/-- ≙ sectypes.py:650-653 `out_conv`: `assert a.value.degree() <= 0; subfield(int(a))`;
`none` ≙ AssertionError -/
def outConv {α : Type} (F : Ops α) (q : Nat) (a : α) : Option Nat :=
  if F.toNat a < q then some (F.toNat a) else none

end MpycV.SecFld
