import MpycV.Model.Util
import MpycV.Model.Groups
/-!
Request interpreter of the line-protocol driver `Drv/Groups.lean` for the `Groups` model (C27, C28).  One request per line, one answer per line.

  rep <p> <a> <n>                     generic repeat on residues mod p (double-and-add)
  fpow <p> <a> <n>                    `a ** n` in GF(p)
  perm valid <n> <p> | perm op <p> <q> | perm inv <p> | perm rep <n> <p> <k>
  qr mem <p> <a> | qr enc <p> <gap> <m> | qr dec <p> <gap> <M> <Z> <signed 0|1>
  sg mem <p> <q> <a> | sg enc <p> <g> <m> | sg dec <p> <g> <M>
  ec <sys> <p> <c1> <c2> <op> <args>  sys ∈ ea ep ee wa wp wj; (c1,c2) = (a,d) Edwards / (a,b) Weierstrass
        op ∈ add P Q | dbl P | neg P | norm P | eq P Q | rep P n | on P | lad P bits
  cg red <a,b,c> | cg inv <a,b,c> | cg id <D>
  pub <q> <p> <a> <shares>            exponents e_i = int(λ_i x_i) and ∏ a^{e_i} mod p
  lad <p> <a> <bits>                  bit ladder (LSB first) on residues mod p
Errors: ZeroDivisionError, ValueError; anything ill-formed: bad-op.
-/
open MpycV.Util MpycV.Groups

namespace MpycV.GroupsDrv

def showB (b : Bool) : String := if b then "True" else "False"

def showO (o : Option String) : String := o.getD "ZeroDivisionError"

def pt2 (l : List Nat) : Option (Nat × Nat) := match l with | [x, y] => some (x, y) | _ => none
def pt3 (l : List Nat) : Option (Nat × Nat × Nat) := match l with | [x, y, z] => some (x, y, z) | _ => none
def pt4 (l : List Nat) : Option (Nat × Nat × Nat × Nat) :=
  match l with | [x, y, z, t] => some (x, y, z, t) | _ => none

def s2 (P : Nat × Nat) : String := showNatList [P.1, P.2]
def s3 (P : Nat × Nat × Nat) : String := showNatList [P.1, P.2.1, P.2.2]
def s4 (P : Nat × Nat × Nat × Nat) : String := showNatList [P.1, P.2.1, P.2.2.1, P.2.2.2]
def sW (P : WAff Nat) : String := match P with | none => "-" | some Q => s2 Q

def parseBits? (s : String) : Option (List Bool) :=
  (parseNatList? s).map (fun l => l.map (· != 0))

/-- lift possibly failing operations to a `GroupOps` on `Option` (none = exception propagates) -/
def liftOps {α : Type} (op : α → α → Option α) (op2 : α → Option α) (inv : α → α) (id : α) :
    GroupOps (Option α) :=
  { op := fun a b => a.bind fun x => b.bind fun y => op x y
    op2 := fun a => a.bind op2
    inv := fun a => a.map inv
    id := some id }

/-- one coordinate system: everything the driver needs, over `Option` for exceptions -/
structure Sys (α : Type) where
  parse : List Nat → Option α
  «show» : α → String
  add : α → α → Option α
  dbl : α → Option α
  neg : α → α
  norm : α → Option α
  eq : α → α → Bool
  id : α
  on : α → Option Bool

def runSys {α : Type} (S : Sys α) (op : String) (args : List String) : String :=
  let P? (s : String) : Option α := (parseNatList? s).bind S.parse
  let G := liftOps S.add S.dbl S.neg S.id
  match op, args with
  | "add", [a, b] => match P? a, P? b with
      | some P, some Q => showO ((S.add P Q).map S.show)
      | _, _ => "bad-op"
  | "dbl", [a] => match P? a with
      | some P => showO ((S.dbl P).map S.show)
      | _ => "bad-op"
  | "neg", [a] => match P? a with
      | some P => S.show (S.neg P)
      | _ => "bad-op"
  | "norm", [a] => match P? a with
      | some P => showO ((S.norm P).map S.show)
      | _ => "bad-op"
  | "eq", [a, b] => match P? a, P? b with
      | some P, some Q => showB (S.eq P Q)
      | _, _ => "bad-op"
  | "on", [a] => match P? a with
      | some P => showO ((S.on P).map showB)
      | _ => "bad-op"
  | "rep", [a, n] => match P? a, parseInt? n with
      | some P, some k => showO ((«repeat» G (some P) k).map S.show)
      | _, _ => "bad-op"
  | "lad", [a, bs] => match P? a, parseBits? bs with
      | some P, some bits => showO ((ladder G (some P) bits).map S.show)
      | _, _ => "bad-op"
  | _, _ => "bad-op"

def edOn3? (K : Fld Nat) (a d : Nat) (x y z : Nat) : Option Bool :=
  (K.div? x z).bind fun x' => (K.div? y z).bind fun y' => edOnCurve? K a d (x', y')

def sysEA (p a d : Nat) : Sys (Nat × Nat) :=
  let K := primeFld p
  { parse := pt2, «show» := s2, add := eaAdd? K a d, dbl := fun P => eaAdd? K a d P P,
    neg := eaNeg K, norm := some, eq := eaEq K, id := (0, 1 % p), on := edOnCurve? K a d }

def sysEP (p a d : Nat) : Sys (Nat × Nat × Nat) :=
  let K := primeFld p
  { parse := pt3, «show» := s3, add := fun P Q => some (epAdd K a d P Q),
    dbl := fun P => some (epAdd K a d P P), neg := epNeg K, norm := epNorm? K, eq := epEq K,
    id := (0, 1 % p, 1 % p), on := fun P => edOn3? K a d P.1 P.2.1 P.2.2 }

def sysEE (p a d : Nat) : Sys (Nat × Nat × Nat × Nat) :=
  let K := primeFld p
  { parse := pt4, «show» := s4, add := fun P Q => some (eeAdd K a d P Q),
    dbl := fun P => some (eeDbl K a d P), neg := eeNeg K, norm := eeNorm? K, eq := eeEq K,
    id := (0, 1 % p, 1 % p, 0),
    on := fun P => (K.div? P.2.2.2 P.2.2.1).bind fun t' => (K.div? P.1 P.2.2.1).bind fun x' =>
      (K.div? P.2.1 P.2.2.1).bind fun y' =>
        if K.beq t' (K.mul x' y') then edOnCurve? K a d (x', y') else some false }

def parseW (l : List Nat) : Option (WAff Nat) :=
  match l with | [] => some none | [x, y] => some (some (x, y)) | _ => none

def sysWA (p a b : Nat) : Sys (WAff Nat) :=
  let K := primeFld p
  { parse := parseW, «show» := sW, add := fun P Q => some (waAdd K a P Q),
    dbl := fun P => some (waDbl K a P), neg := waNeg K, norm := some, eq := waEq K, id := none,
    on := fun P => match P with
      | none => some true
      | some (x, y) => some (K.beq (K.mul y y) (wYsquared K a b x)) }

def sysWP (p a b : Nat) : Sys (Nat × Nat × Nat) :=
  let K := primeFld p
  { parse := pt3, «show» := s3, add := fun P Q => some (wpAdd K b P Q),
    dbl := fun P => some (wpDbl K b P), neg := wpNeg K, norm := fun P => some (wpNorm K P),
    eq := wpEq K, id := (0, 1 % p, 0), on := fun P => some (wOnCurve K a b false P) }

def sysWJ (p a b : Nat) : Sys (Nat × Nat × Nat) :=
  let K := primeFld p
  { parse := pt3, «show» := s3, add := fun P Q => some (wjAdd K P Q),
    dbl := fun P => some (wjDbl K P), neg := wjNeg K, norm := fun P => some (wjNorm K P),
    eq := wjEq K, id := (0, 1 % p, 0), on := fun P => some (wOnCurve K a b true P) }

def form? (s : String) : Option (Int × Int × Int) :=
  match parseIntList? s with
  | some [a, b, c] => some (a, b, c)
  | _ => none

def showForm (f : Int × Int × Int) : String := showIntList [f.1, f.2.1, f.2.2]

def step (line : String) : String :=
  match tokens line with
  | ["rep", p, a, n] =>
    match parseNat? p, parseNat? a, parseInt? n with
    | some p, some a, some n => toString («repeat» (modOps p) a n)
    | _, _, _ => "bad-op"
  | ["fpow", p, a, n] =>
    match parseNat? p, parseNat? a, parseInt? n with
    | some p, some a, some n => (fpow? a n p).elim "ValueError" toString  -- pow(0, -k, p): ValueError
    | _, _, _ => "bad-op"
  | ["perm", "valid", n, p] =>
    match parseNat? n, parseNatList? p with
    | some n, some p => showB (permValid n p)
    | _, _ => "bad-op"
  | ["perm", "op", p, q] =>
    match parseNatList? p, parseNatList? q with
    | some p, some q => showNatList (permOp p q)
    | _, _ => "bad-op"
  | ["perm", "inv", p] =>
    match parseNatList? p with
    | some p => showNatList (permInv p)
    | _ => "bad-op"
  | ["perm", "rep", n, p, k] =>
    match parseNat? n, parseNatList? p, parseInt? k with
    | some n, some p, some k => showNatList («repeat» (permOps n) p k)
    | _, _, _ => "bad-op"
  | ["qr", "mem", p, a] =>
    match parseNat? p, parseNat? a with
    | some p, some a => showB (qrMember p a)
    | _, _ => "bad-op"
  | ["qr", "enc", p, gap, m] =>
    match parseNat? p, parseNat? gap, parseNat? m with
    | some p, some gap, some m =>
      match qrEncode? p gap m with
      | some (M, Z) => s!"{M} {Z}"
      | none => "ValueError"
    | _, _, _ => "bad-op"
  | ["qr", "dec", p, gap, M, Z, sg] =>
    match parseNat? p, parseNat? gap, parseNat? M, parseNat? Z, parseNat? sg with
    | some p, some gap, some M, some Z, some sg => showO ((qrDecode? p gap M Z (sg != 0)).map toString)
    | _, _, _, _, _ => "bad-op"
  | ["sg", "mem", p, q, a] =>
    match parseNat? p, parseNat? q, parseNat? a with
    | some p, some q, some a => showB (sgMember p q a)
    | _, _, _ => "bad-op"
  | ["sg", "enc", p, g, m] =>
    match parseNat? p, parseNat? g, parseInt? m with
    | some p, some g, some m => showO ((sgEncode? p g m).map toString)
    | _, _, _ => "bad-op"
  | ["sg", "dec", p, g, M] =>
    match parseNat? p, parseNat? g, parseNat? M with
    | some p, some g, some M => (match sgDecode? p g M with | some r => toString r | none => "ValueError")
    | _, _, _ => "bad-op"
  | "ec" :: sys :: p :: c1 :: c2 :: op :: args =>
    match parseNat? p, parseNat? c1, parseNat? c2 with
    | some p, some c1, some c2 =>
      match sys with
      | "ea" => runSys (sysEA p c1 c2) op args
      | "ep" => runSys (sysEP p c1 c2) op args
      | "ee" => runSys (sysEE p c1 c2) op args
      | "wa" => runSys (sysWA p c1 c2) op args
      | "wp" => runSys (sysWP p c1 c2) op args
      | "wj" => runSys (sysWJ p c1 c2) op args
      | _ => "bad-op"
    | _, _, _ => "bad-op"
  | ["cg", "red", f] =>
    match form? f with
    | some f => match cgReduce? f with
      | some g => showForm g
      | none => "fuel"
    | none => "bad-op"
  | ["cg", "inv", f] =>
    match form? f with
    | some f => match cgInv? f with
      | some g => showForm g
      | none => "fuel"
    | none => "bad-op"
  | ["cg", "id", D] =>
    match parseInt? D with
    | some D => showForm (cgIdentity D)
    | none => "bad-op"
  | ["pub", q, p, a, shares] =>
    match parseNat? q, parseNat? p, parseNat? a, parseNatList? shares with
    | some q, some p, some a, some sh =>
      let es := pubBaseExps q sh
      s!"{showNatList es} {pubBaseCombine (modOps p) a es}"
    | _, _, _, _ => "bad-op"
  | ["lad", p, a, bits] =>
    match parseNat? p, parseNat? a, parseBits? bits with
    | some p, some a, some bits => toString (ladder (modOps p) a bits)
    | _, _, _ => "bad-op"
  | _ => "bad-op"

end MpycV.GroupsDrv

