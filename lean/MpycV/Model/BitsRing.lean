/-
Model of `runtime.add_bits` over an ARBITRARY carrier `R` with +, -, * (core Lean only): the same carry network as
`MpycV.Bits.addBits` (which is the instance for secure integers, values in `Int`), written as the repository writes it
since fix a36002e: the doubling of a carry is `c + c`, not `c * 2`.  For secure field types the entries are field
elements; `MpycV.Lemmas.BitsRing` shows that for every commutative ring the network computes the binary sum of bit
vectors (bits = the elements 0 and 1), in particular in characteristic 2.

≙ runtime.py `add_bits`: `f(i, j, high)`, `c[h:j] = vector_add(c[h:j], scalar_mul(c[h-1], d[h:j]))`, final loop
`c[i] = x[i] + y[i] - (c[i] + c[i]) + (c[i-1] if i > 0 else 0)`.
-/
namespace MpycV.BitsRing

variable {R : Type} [Add R] [Sub R] [Mul R]

/-- `f(i, j, high)` on the slice `seg = zip(x[i:j], y[i:j])`; returns `(c[i:j], d[i:j])`; `zero` is the 0 of `R` (only
used as default value of reads that the code never performs on an empty list) -/
def carries (zero : R) (high : Bool) (seg : List (R × R)) : List R × List R :=
  if seg.length < 2 then
    match seg with
    | [(a, b)] => ([a * b], if high then [a + b - (a * b + a * b)] else [])
    | _ => ([], [])
  else
    let l := carries zero high (seg.take (seg.length / 2))
    let r := carries zero true (seg.drop (seg.length / 2))
    let ch := l.1.getLastD zero
    let c2 := List.zipWith (· + ·) r.1 (r.2.map (ch * ·))
    let d2 := if high then r.2.map (l.2.getLastD zero * ·) else r.2
    (l.1 ++ c2, l.2 ++ d2)
termination_by seg.length
decreasing_by
  · simp only [List.length_take]; omega
  · simp only [List.length_drop]; omega

/-- final loop, with the doubling constant made explicit: `dbl c` is `c + c` in the code (and was `c * 2` before) -/
def sumBitsWith (dbl : R → R) : R → List (R × R) → List R → List R
  | cin, (a, b) :: seg, c :: cs => (a + b - dbl c + cin) :: sumBitsWith dbl c seg cs
  | _, _, _ => []

/-- `add_bits(x, y)` as in the repository -/
def addBits (zero : R) (x y : List R) : List R :=
  let seg := x.zip y
  sumBitsWith (fun c => c + c) zero seg (carries zero false seg).1

end MpycV.BitsRing
