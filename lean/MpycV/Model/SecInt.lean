/-
M6 `SecInt`: value layer of the secure-integer protocols of runtime.py / sectypes.py (property C01).
Core Lean only (no Mathlib).

A secure integer of type `SecInt(l)` over GF(p) is modelled by an integer REPRESENTATIVE of the field
element all parties' shares encode (the share layer, C11/C12, proves this abstraction sound; `mul` is
the product of the representatives: `_reshare` re-randomises the sharing, it does not change the
secret).  As in `MpycV.Model.Fxp`, ring operations are computed on representatives without reduction;
every place where the code leaves the ring structure is transcribed literally on the residue:
`c.value % (1<<l)`, `c.value & 1`, `c.value % b`, `c == 0` (zero tests of opened values),
field division (`/ (1<<l)`, `/2`, `reciprocal`) and the signed output conversion `norm`.

Random values drawn by a protocol are explicit, NAMED inputs (`rBits`, `rDivl`, `sSign`, `rz`, …); every
protocol model returns the values it opens (`output`) and its result.

≙ runtime.py:880-929   `is_zero_public` (a·r opened)           -> `isZeroPublic`
≙ runtime.py:1298-1331 `pow` (public exponent)                  -> `powModel`
≙ runtime.py:1457-1459 `abs`                                    -> `absModel`
≙ runtime.py:1504-1561 `sgn` (LT / EQ / full)                   -> `toftLoop`, `toftE`, `sgnModel`
≙ runtime.py:1563-1628 `min`, `max`, `min_max`                  -> `Sort.tmin/tmax/minMax` with `ltI`
≙ runtime.py:1779-1800 `lsb`                                    -> `lsbModel`
≙ runtime.py:1827-1882 `mod`, `_mod`                            -> `modModel`, `modTop`
≙ sectypes.py:233-241  `__divmod__`, `__floordiv__`             -> `divmodModel`
≙ runtime.py:1919-2024 `_iterations`, `_gcd`, `gcd`, `lcm`, `_divsteps`, `inverse`, `gcdext`
                                                                -> `iterations`, `gcdStep`, `gcdModel`, …
≙ runtime.py:2027-2045 `sum`                                    -> `sumI`
≙ runtime.py:2048-2084 `in_prod`                                -> `dot`
≙ runtime.py:2087-2133 `prod` (f = 0)                           -> `pairMul`, `prodLevel`, `prodTree`
≙ runtime.py:2136-2181 `all`, `any`                             -> `allTree`, `anyModel`
≙ runtime.py:2351-2400 `if_else`, `if_swap` (scalars)           -> `ifElse`, `ifSwap`
≙ runtime.py:2440-2491 `matrix_prod` incl. symmetric A·Aᵀ       -> `matrixProd`, `matrixProdTri`, `triIndex`
-/
import MpycV.Model.Fxp
import MpycV.Model.Sort
import MpycV.Model.PrimeF

namespace MpycV.SecInt
open MpycV.Fxp (pmod norm rsh bitsVal)

/-! ### bits -/

/-- `(c >> i) & 1` (Python: floor shift, so this also is bit `i` of the two's complement of a negative `c`) -/
def bitAt (c : Int) (i : Nat) : Int := (c / (2 : Int) ^ i) % 2

/-- the `l` low bits of `c`, little endian -/
def bitsLE (c : Int) (l : Nat) : List Int := (List.range l).map (bitAt c)

/-- `1 - r_i if c_i else r_i` (xor of a secret bit with a public bit) -/
def xorBit (r c : Int) : Int := if c = 1 then 1 - r else r

/-- `r_i if c_i else 1 - r_i` (xnor) ≙ runtime.py:1552 -/
def xnorBit (r c : Int) : Int := if c = 1 then r else 1 - r

/-! ### field division -/

/-- the residue `field._reciprocal(b)` (`gmpy2.invert(b, p)`; 0 stands for ZeroDivisionError, excluded by
the hypotheses of every theorem that uses it) -/
def finv (p : Nat) (b : Int) : Int :=
  match PrimeF.invert b p with
  | .ok r => r
  | .error _ => 0

/-- `x / b` in GF(p), as signed representative -/
def fdiv (p : Nat) (x b : Int) : Int := norm p (pmod x p * finv p b)

/-! ### public zero test ≙ runtime.py:880-929 (prime fields with `order.bit_length() ≥ sec_param`)

`r` is the random field element (large fields: `_random(field)`; medium-sized fields: the first
component of the pair `(r, s)` accepted by the loop `while True: … if output(r*s): break`, which
guarantees `r ≠ 0`).  Returns (the value `a * r` opened to all parties, the Boolean result `c == 0`). -/
def isZeroPublic (p : Nat) (a r : Int) : Int × Bool :=
  let c := pmod (a * r) p
  (c, c == 0)

/-! ### log-round product and `all` ≙ runtime.py:2113-2116, 2164-2172 (integers: `f = 0`) -/

/-- `[x[i] * x[i+1] for i in range(0, n, 2)]` for even `n` -/
def pairMul : List Int → List Int
  | a :: b :: rest => a * b :: pairMul rest
  | _ => []

/-- one round: `h = [x[i] * x[i+1] for i in range(n%2, n, 2)]; x[n%2:] = h` -/
def prodLevel (xs : List Int) : List Int :=
  if xs.length % 2 = 1 then
    match xs with
    | x :: rest => x :: pairMul rest
    | [] => []
  else pairMul xs

/-- `while n > 1: …` (fuel `len(x)` suffices: the length at least halves, rounded up) -/
def prodLoop : Nat → List Int → List Int
  | 0, xs => xs
  | fuel + 1, xs => if xs.length ≤ 1 then xs else prodLoop fuel (prodLevel xs)

/-- `prod(x)` with `start = 1`; `[]` gives `start` -/
def prodTree (xs : List Int) : Int :=
  match prodLoop xs.length xs with
  | x :: _ => x
  | [] => 1

/-- `all(x)`: identical pairing (for `f = 0` no shift); `[]` gives 1 -/
def allTree (xs : List Int) : Int := prodTree xs

/-- `any(x) = 1 - all(1 - a for a in x)` -/
def anyModel (xs : List Int) : Int := 1 - allTree (xs.map (fun a => 1 - a))

/-! ### the comparison circuit a la Toft ≙ runtime.py:1539-1546 and 1872-1879 -/

/-- the loop `for i in range(l-1, -1, -1): e[i] = s_sign + r_i - c_i + 3*sumXors; sumXors += r_i xor c_i`
on little-endian bit lists; returns `(e[0..l-1], final sumXors)`.  The recursion visits the list tail
(the higher bits) first, exactly as the loop does. -/
def toftLoop (s : Int) : List Int → List Int → List Int × Int
  | r :: rs, c :: cs =>
    let (es, sx) := toftLoop s rs cs
    ((s + r - c + 3 * sx) :: es, sx + xorBit r c)
  | _, _ => ([], 0)

/-- the vector `e[0..l]`; `top = -1` in `sgn` (`e[l] = s_sign - 1 + 3*sumXors`), `top = +1` in `_mod` -/
def toftE (s top : Int) (rs cs : List Int) : List Int :=
  let (es, sx) := toftLoop s rs cs
  es ++ [s + top + 3 * sx]

/-! ### sgn ≙ runtime.py:1504-1561 -/

inductive Mode
  | lt      -- LT=True:  [a < 0]
  | eq      -- EQ=True:  [a = 0]
  | full    -- sign of a in {-1, 0, 1}
  deriving DecidableEq, Repr

structure SgnOut where
  c : Int     -- value opened in `sgn`: `a_rmodl + (r_divl << l)` (residue)
  b : Int     -- value opened in `is_zero_public` (0 in EQ mode, where it is not called)
  g : Bool    -- result of `is_zero_public` (false in EQ mode)
  z : Int     -- result (signed representative)
  deriving DecidableEq, Repr

/-- `sgn(a, l, LT, EQ)` for a secure integer.  `rBits` = the `l` random bits (little endian), `rDivl` the
random high part (`0 ≤ rDivl < 2^k`), `sSign ∈ {1, -1}` the random sign, `rz` the random factor of the
public zero test. -/
def sgnModel (p l : Nat) (a : Int) (rBits : List Int) (rDivl sSign rz : Int) (mode : Mode) : SgnOut :=
  let rModl := bitsVal rBits
  let aR := a + ((2 : Int) ^ l + rModl)                       -- a_rmodl = a + ((1<<l) + r_modl)
  let cOpen := pmod (aR + rDivl * (2 : Int) ^ l) p            -- output(a_rmodl + (r_divl << l))
  let c := cOpen % (2 : Int) ^ l                              -- c.value % (1<<l)
  let cs := bitsLE c l
  let h := allTree (List.zipWith xnorBit rBits cs)            -- all(r_i if c_i else 1 - r_i)
  match mode with
  | .eq => ⟨cOpen, 0, false, norm p h⟩
  | _ =>
    let e := toftE sSign (-1) rBits cs
    let zp := isZeroPublic p (prodTree e) rz                  -- is_zero_public(stype(prod(e)))
    let hh : Int := if zp.2 then 3 - sSign else 3 + sSign     -- h = 3 - s_sign if g else 3 + s_sign
    let z := rsh p l (c - aR + hh * (2 : Int) ^ (l - 1))      -- (c - a_rmodl + (h << l-1)) / (1<<l)
    match mode with
    | .lt => ⟨cOpen, zp.1, zp.2, z⟩
    | _ => ⟨cOpen, zp.1, zp.2, norm p ((h - 1) * (2 * z - 1))⟩

/-! ### lsb ≙ runtime.py:1779-1800 -/

/-- `b` the random bit, `r` the random high part (`0 ≤ r < 2^(l+k-1)`); returns (opened value, result) -/
def lsbModel (p l : Nat) (a b r : Int) : Int × Int :=
  let c := pmod (a + ((2 : Int) ^ l + 2 * r + b)) p          -- output(a + ((1<<l) + (r << 1) + b))
  (c, norm p (if c % 2 = 1 then 1 - b else b))                -- 1 - b if c.value & 1 else b

/-! ### modulo reduction by a public `b` ≙ runtime.py:1843-1882 -/

structure ModOut where
  c : Int     -- value opened in `_mod` (residue)
  b : Int     -- value opened in `is_zero_public`
  g : Bool
  z : Int     -- the comparison bit `[r_modb ≥ b - c]` (signed representative)
  r : Int     -- result
  deriving DecidableEq, Repr

/-- `_mod(a, b)`: `rBits` = the bits of the random `r_modb < b` (`len = (b-1).bit_length()`), `rDivb` the
random high part, `sSign`, `rz` as in `sgn`. -/
def modModel (p l : Nat) (b : Int) (a : Int) (rBits : List Int) (rDivb sSign rz : Int) : ModOut :=
  let rModb := bitsVal rBits
  let cOpen := pmod (a + ((2 : Int) ^ l - (2 : Int) ^ l % b + b * rDivb - rModb)) p
  let c0 := cOpen % b                                         -- c.value % b
  let c := if c0 = 0 then b else c0                           -- if c == 0: c = b
  let e := toftE sSign 1 rBits (bitsLE (b - c) rBits.length)  -- c_i = ((b - c) >> i) & 1
  let zp := isZeroPublic p (prodTree e) rz
  let z := rsh p 1 (if zp.2 then 1 - sSign else 1 + sSign)    -- Zp(1 - s_sign if g else 1 + s_sign)/2
  ⟨cOpen, zp.1, zp.2, z, norm p (c + rModb - z * b)⟩

/-- Python's `a % b` and `a // b` for `b > 0` (floor semantics) are Lean's `Int.emod` / `Int.ediv`;
for `b < 0` Python rounds towards minus infinity as well: transcribed convention -/
def pyMod (a b : Int) : Int := if b > 0 then a % b else if b < 0 then -((-a) % (-b)) else 0
def pyDiv (a b : Int) : Int := if b > 0 then a / b else if b < 0 then (-a) / (-b) else 0

/-- `__divmod__`: `r = mod(a, b); q = (a - r) * reciprocal(b)` given the remainder `r` -/
def divmodModel (p : Nat) (a b r : Int) : Int × Int := (fdiv p (a - r) b, r)

/-! ### pow ≙ runtime.py:1298-1331 (public exponent `n ≥ 0`; `n < 0` takes the field reciprocal first) -/

/-- `for i in range(b.bit_length() - 1): if (b >> i) & 1: c = c * d; d = d * d` -/
def powLoop : Nat → Nat → Int → Int → Int × Int
  | 0, _, d, c => (d, c)
  | s + 1, n, d, c => powLoop s (n / 2) (d * d) (if n % 2 = 1 then c * d else c)

/-- the addition chain for `b == 254` (runtime.py:1300-1311) -/
def pow254 (a : Int) : Int :=
  let d := a
  let c := d * d
  let c := c * c
  let c := c * c
  let c := c * d
  let c := c * c
  let (c, d) := (c * c, c * d)
  let (c, d) := (c * c, c * d)
  let c := c * d
  c * c

def powModel (a : Int) (n : Nat) : Int :=
  if n = 254 then pow254 a
  else if n = 0 then 1
  else
    let dc := powLoop (Nat.log2 n) n a 1
    dc.2 * dc.1

/-- `a ** n` for `n < 0` on a secure integer: `reciprocal(a) ** (-n)`, the FIELD inverse (Python ints would
give a float; only `a = ±1` has an integer meaning) -/
def powNegModel (p : Nat) (a : Int) (n : Nat) : Int := norm p (powModel (finv p a) n)

/-! ### selection, abs, sums ≙ runtime.py:2362, 2398-2399, 1459, 2044, 2076 -/

def ifElse (c x y : Int) : Int := c * (x - y) + y
def ifSwap (c x y : Int) : Int × Int := let d := c * (y - x); (x + d, y - d)

/-- `(-2*sgn(a, LT=True) + 1) * a` given the comparison bit `s` -/
def absModel (a s : Int) : Int := (-2 * s + 1) * a

def sumI : List Int → Int
  | [] => 0
  | x :: xs => x + sumI xs

def dot : List Int → List Int → Int
  | x :: xs, y :: ys => x * y + dot xs ys
  | _, _ => 0

/-- the comparison used by `min`/`max`/`min_max`: `key(a) < key(b)` computed by `sgn(a - b, LT=True)` -/
def ltI (a b : Int) : Bool := decide (a < b)

def minModel (xs : List Int) : Option Int := Sort.tmin ltI xs
def maxModel (xs : List Int) : Option Int := Sort.tmax ltI xs
def minMaxModel (xs : List Int) : Option (Int × Int) := Sort.minMax ltI xs

/-! ### matrix product ≙ runtime.py:2440-2491 -/

def colOf (B : List (List Int)) (j : Nat) : List Int := B.map (fun r => r.getD j 0)

/-- general case: `C[i*n2 + j] = sum_k A[i][k] * (B[j][k] if tr else B[k][j])` -/
def matrixProd (A B : List (List Int)) (tr : Bool) : List (List Int) :=
  let n2 := if tr then B.length else (B.headD []).length
  A.map (fun row => (List.range n2).map (fun j => dot row (if tr then B.getD j [] else colOf B j)))

/-- symmetric case (`A is B and tr`): only the lower triangle is computed, row `i` at offset `i*(i+1)//2` -/
def matrixProdTri (A : List (List Int)) : List Int :=
  (List.range A.length).flatMap (fun i => (List.range (i + 1)).map (fun j => dot (A.getD i []) (A.getD j [])))

/-- `i*(i+1)//2 + j if j < i else j*(j+1)//2 + i` -/
def triIndex (i j : Nat) : Nat := if j < i then i * (i + 1) / 2 + j else j * (j + 1) / 2 + i

/-- `[[C[triIndex i j] for j in range(n1)] for i in range(n1)]` -/
def matrixProdSym (A : List (List Int)) : List (List Int) :=
  let C := matrixProdTri A
  (List.range A.length).map (fun i => (List.range A.length).map (fun j => C.getD (triIndex i j) 0))

/-! ### gcd family (Bernstein–Yang divsteps) ≙ runtime.py:1919-2024

Integer level: the secure sub-protocols used inside (`%2` = `lsb`, `sgn` with a reduced bit length,
`if_else`/`if_swap`, `gcp2`, field division by 2 of an even number, `scalar_mul`) are exact by their
own theorems; here they are replaced by their integer meaning.  `delta > 0` is computed by the code as
`1 - sgn((delta-1-(i%2))/2, l=min(i,l).bit_length(), LT=True)`, which needs the argument to fit in that
reduced bit length whenever the result is used (i.e. when `g` is odd): `sgnArgOk` records this. -/

/-- `_iterations(l)` -/
def iterations (l : Nat) : Nat := (49 * l + (if l < 46 then 80 else 57)) / 17

/-- Python `int.bit_length()` -/
def bitLength (n : Nat) : Nat := if n = 0 then 0 else Nat.log2 n + 1

/-- does `x` fit the reduced comparison of iteration `i` (`l' = min(i,l).bit_length()`, `l' = 0` means the
full bit length `l` is used: `l = l or stype.bit_length`)? -/
def sgnArgOk (l i : Nat) (x : Int) : Bool :=
  let l' := bitLength (min i l)
  let l'' := if l' = 0 then l else l'
  decide (-(2 : Int) ^ (l'' - 1) ≤ x) && decide (x < (2 : Int) ^ (l'' - 1))

/-- the greatest common power of two of `a` and `b` among `2^0..2^l`, by search from below
(value of `gcp2(a, b, l)` for every randomness: `Bits.gcp2_spec'`, property C30) -/
def gcp2Exp : Nat → Nat → Int → Int → Nat
  | 0, t, _, _ => t
  | fuel + 1, t, a, b =>
    if a % (2 : Int) ^ (t + 1) = 0 ∧ b % (2 : Int) ^ (t + 1) = 0 then gcp2Exp fuel (t + 1) a b else t

def gcp2I (l : Nat) (a b : Int) : Int := (2 : Int) ^ gcp2Exp l 0 a b

structure GcdSt where
  delta : Int
  f : Int
  g : Int
  ok : Bool      -- all reduced comparisons so far were in range when used
  deriving DecidableEq, Repr

/-- one iteration of the loop of `_gcd` (runtime.py:1937-1941) -/
def gcdStep (l i : Nat) (s : GcdSt) : GcdSt :=
  let g0 := s.g % 2
  let ok := s.ok && (g0 == 0 || sgnArgOk l i ((s.delta - 1 - (i % 2 : Nat)) / 2))
  let sw := decide (s.delta > 0) && (g0 == 1)            -- delta_gt0 * g_0
  let delta := if sw then -s.delta else s.delta
  let f := if sw then s.g else s.f
  let g := if sw then -s.f else s.g
  ⟨delta + 1, f, (g + g0 * f) / 2, ok⟩

def gcdLoop (l : Nat) : Nat → Nat → GcdSt → GcdSt
  | 0, _, s => s
  | n + 1, i, s => gcdLoop l n (i + 1) (gcdStep l i s)

/-- `_gcd(a, b, l)`: returns `(pow_of_2 * f, final g, ok)`; the result of the code is the first component -/
def gcdRaw (l : Nat) (a b : Int) : Int × Int × Bool :=
  let pow2 := gcp2I l a b
  let a := a / pow2                                       -- scalar_mul(1/pow_of_2, [a, b]) (exact)
  let b := b / pow2
  let st : GcdSt := if a % 2 = 1 then ⟨1, a, b, true⟩ else ⟨1, b, a, true⟩   -- g, f = (a%2).if_swap(a, b)
  let s := gcdLoop l (iterations l) 0 st
  (pow2 * s.f, s.g, s.ok)

def gcdModel (l : Nat) (a b : Int) : Int := let r := (gcdRaw l a b).1; if r < 0 then -r else r   -- abs(_gcd)

/-- `lcm`: `abs(a * (b / (g + (g == 0))))` with `g = _gcd(a, b)` (field division, exact since `g ∣ b`) -/
def lcmModel (l : Nat) (a b : Int) : Int :=
  let g := (gcdRaw l a b).1
  let d := g + (if g = 0 then 1 else 0)
  let r := a * (b / d)
  if r < 0 then -r else r

structure DivSt where
  delta : Int
  f : Int
  v : Int
  g : Int
  r : Int
  ok : Bool
  deriving DecidableEq, Repr

/-- one iteration of `_divsteps` (runtime.py:1976-1983); `a` is the (odd) first argument -/
def divStep (l : Nat) (a : Int) (i : Nat) (s : DivSt) : DivSt :=
  let g0 := s.g % 2
  let ok := s.ok && (g0 == 0 || sgnArgOk l i ((s.delta - 1 - (i % 2 : Nat)) / 2))
  let sw := decide (s.delta > 0) && (g0 == 1)
  let delta := if sw then -s.delta else s.delta
  let f := if sw then s.g else s.f
  let v := if sw then s.r else s.v
  let g := if sw then -s.f else s.g
  let r := if sw then -s.v else s.r
  let g := if g0 = 1 then g + f else g                    -- g_0.if_else([g + f, r + v], [g, r])
  let r := if g0 = 1 then r + v else r
  let r := if r % 2 = 1 then r + a else r                 -- (r%2).if_else(r + a, r)
  ⟨delta + 1, f, v, g / 2, r / 2, ok⟩

def divLoop (l : Nat) (a : Int) : Nat → Nat → DivSt → DivSt
  | 0, _, s => s
  | n + 1, i, s => divLoop l a n (i + 1) (divStep l a i s)

/-- `_divsteps(a, b, l)`: final state (`f, v` are what the code returns) -/
def divsteps (l : Nat) (a b : Int) : DivSt := divLoop l a (iterations l) 0 ⟨1, a, 0, b, 1, true⟩

/-- `inverse(a, b, l)` for `a ≥ 0`, `b > 0`, `gcd(a, b) = 1` -/
def inverseModel (l : Nat) (a b : Int) : Int :=
  let c : Int := 1 - a % 2
  let a' := if c = 1 then b else a                        -- a, b_ = c.if_swap(a, b)
  let b' := if c = 1 then a else b
  let s := divsteps l a' b'
  let t := s.f * (s.v - a')                               -- t = g * (t - a)
  let sv := (1 - t * b') / a'                             -- s = (1 - t * b_) / a   (field division, exact)
  let u := if c = 1 then t else sv                        -- c.if_else(t, s)
  let u := if u < 0 then u + 2 * b else u
  if u ≥ b then u - b else u

/-- `gcdext(a, b, l)` -> `(g, s, t)` -/
def gcdextModel (l : Nat) (a b : Int) : Int × Int × Int :=
  let pow2 := gcp2I l a b
  let a := a / pow2
  let b := b / pow2
  let c : Int := 1 - a % 2
  let a' := if c = 1 then b else a
  let b' := if c = 1 then a else b
  let st := divsteps l a' b'
  let g0 := st.f % 2
  let sg := g0 - 2 * (if st.f < 0 then 1 else 0)           -- g0 - 2*sgn(g, LT=True)
  let g := sg * st.f
  let t := sg * st.v
  let s := (g - t * b') / (a' + 1 - g0)                    -- field division (exact)
  let s' := if c = 1 then t else s                         -- c.if_swap(s, t)
  let t' := if c = 1 then s else t
  (pow2 * g, s', t')

/-- the finite table checked by the kernel: for all `l`-bit `a, b` the loop of `_gcd` ends with `g = 0`
and every reduced comparison was in range -/
def gcdTableOk (l : Nat) : Bool :=
  let lo : Int := -(2 : Int) ^ (l - 1)
  let n := 2 ^ l + 1                                      -- values lo .. lo + 2^l (= 2^(l-1) inclusive)
  (List.range n).all (fun i => (List.range n).all (fun j =>
    let r := gcdRaw l (lo + i) (lo + j)
    r.2.1 == 0 && r.2.2))

/-- the same for `_divsteps` as called by `inverse`/`gcdext` (first argument odd, or both zero) -/
def divTableOk (l : Nat) : Bool :=
  let lo : Int := -(2 : Int) ^ (l - 1)
  let n := 2 ^ l + 1
  (List.range n).all (fun i => (List.range n).all (fun j =>
    let a := lo + i
    let b := lo + j
    if a % 2 = 1 ∨ (a = 0 ∧ b = 0) then
      let s := divsteps l a b
      s.g == 0 && s.ok
    else true))

/-! ### typed expressions over the operations of property C01

`evalSpec` is the Python-integer meaning of a program.  Lists are a mutual inductive type so that all
recursion is structural. -/

inductive UnOp | neg | pos | abs | sgn | lsb | not
  deriving DecidableEq, Repr
inductive BinOp | add | sub | mul | lt | le | eq | ne | ge | gt | and | or | xor
  deriving DecidableEq, Repr
inductive DivOp | floordiv | mod
  deriving DecidableEq, Repr
inductive NOp | sum | prod | all | any | min | max | minmax0 | minmax1
  deriving DecidableEq, Repr
inductive GOp | gcd | lcm | inverse | gcdext0 | gcdext1 | gcdext2
  deriving DecidableEq, Repr

mutual
inductive Expr
  | var (i : Nat)
  | const (n : Int)
  | un (op : UnOp) (e : Expr)
  | bin (op : BinOp) (a b : Expr)
  | pdiv (op : DivOp) (a : Expr) (b : Int)          -- public divisor
  | pow (a : Expr) (n : Nat)
  | ifelse (c x y : Expr)
  | ifswap (second : Bool) (c x y : Expr)
  | nary (op : NOp) (xs : ExprL)
  | inprod (xs ys : ExprL)
  | matprod (A B : ExprL) (n1 n n2 : Nat) (tr sym : Bool) (i j : Nat)   -- row-major flat matrices
  | gop (op : GOp) (a b : Expr)
inductive ExprL
  | nil
  | cons (e : Expr) (es : ExprL)
end

def b2i (b : Bool) : Int := if b then 1 else 0

def sgnI (a : Int) : Int := if a < 0 then -1 else if a = 0 then 0 else 1

def evalUn (op : UnOp) (a : Int) : Int :=
  match op with
  | .neg => -a
  | .pos => a
  | .abs => if a < 0 then -a else a
  | .sgn => sgnI a
  | .lsb => a % 2
  | .not => 1 - a

def evalBin (op : BinOp) (a b : Int) : Int :=
  match op with
  | .add => a + b
  | .sub => a - b
  | .mul => a * b
  | .lt => b2i (decide (a < b))
  | .le => b2i (decide (a ≤ b))
  | .eq => b2i (decide (a = b))
  | .ne => b2i (decide (a ≠ b))
  | .ge => b2i (decide (a ≥ b))
  | .gt => b2i (decide (a > b))
  | .and => a * b
  | .or => a + b - a * b
  | .xor => a + b - 2 * a * b

/-- rows of a flat row-major matrix -/
def rowsOf : Nat → Nat → List Int → List (List Int)
  | 0, _, _ => []
  | r + 1, n, xs => xs.take n :: rowsOf r n (xs.drop n)

def gcdNat (a b : Int) : Int := (Nat.gcd a.natAbs b.natAbs : Nat)

/-- textbook modular inverse by search (spec only; `none` if it does not exist) -/
def invSpec (a b : Int) : Option Int :=
  ((List.range b.toNat).find? (fun (u : Nat) => decide ((a * (u : Int)) % b = 1 % b))).map (fun (u : Nat) => (u : Int))

mutual
def evalSpec (env : List Int) : Expr → Option Int
  | .var i => env[i]?
  | .const n => some n
  | .un op e => (evalSpec env e).map (evalUn op)
  | .bin op a b => do
      let x ← evalSpec env a
      let y ← evalSpec env b
      pure (evalBin op x y)
  | .pdiv op a b => do
      let x ← evalSpec env a
      if b ≤ 0 then none      -- the protocols need a positive public divisor
      else pure (match op with | .floordiv => x / b | .mod => x % b)
  | .pow a n => (evalSpec env a).map (· ^ n)
  | .ifelse c x y => do
      let cv ← evalSpec env c
      let xv ← evalSpec env x
      let yv ← evalSpec env y
      if cv = 1 then pure xv else if cv = 0 then pure yv else none
  | .ifswap second c x y => do
      let cv ← evalSpec env c
      let xv ← evalSpec env x
      let yv ← evalSpec env y
      if cv = 1 then pure (if second then xv else yv)
      else if cv = 0 then pure (if second then yv else xv) else none
  | .nary op xs => do
      let vs ← evalSpecL env xs
      match op with
      | .sum => pure vs.sum
      | .prod => pure vs.prod
      | .all => pure (b2i (vs.all (· == 1)))
      | .any => pure (b2i (vs.any (· == 1)))
      | .min => vs.min?
      | .max => vs.max?
      | .minmax0 => vs.min?
      | .minmax1 => vs.max?
  | .inprod xs ys => do
      let us ← evalSpecL env xs
      let vs ← evalSpecL env ys
      if us.length = vs.length then pure (dot us vs) else none
  | .matprod A B n1 n n2 tr sym i j => do
      let av ← evalSpecL env A
      let bv ← evalSpecL env B
      let Am := rowsOf n1 n av
      let Bm := if sym then Am else if tr then rowsOf n2 n bv else rowsOf n n2 bv
      if i < n1 ∧ j < (if sym then n1 else n2) then
        pure (dot (Am.getD i []) (if tr || sym then Bm.getD j [] else colOf Bm j))
      else none
  | .gop op a b => do
      let x ← evalSpec env a
      let y ← evalSpec env b
      match op with
      | .gcd => pure (gcdNat x y)
      | .lcm => pure (if gcdNat x y = 0 then 0 else (x * y).natAbs / gcdNat x y)
      | .inverse => invSpec x y
      | _ => none      -- gcdext: Bézout coefficients are not unique; checked as a relation by the harness
def evalSpecL (env : List Int) : ExprL → Option (List Int)
  | .nil => some []
  | .cons e es => do
      let v ← evalSpec env e
      let vs ← evalSpecL env es
      pure (v :: vs)
end

end MpycV.SecInt
