/-
M1: byte-level model of `mpyc.asyncoro.MessageExchanger` (core Lean only).

≙ asyncoro.py:54-64   `send`            -> `encodeMsg`
≙ asyncoro.py:66-106  `data_received`   -> `feed` (handshake stage + `parseFrames` loop)
≙ asyncoro.py:108-114 `receive`         -> `receive`

Bytes are `Nat`s (< 256 when well formed).  `struct.pack('<qI')` is re-implemented: 8-byte
two's-complement little-endian label, 4-byte unsigned little-endian payload size.
The `buffers` dict is an association list with unique keys (`erase` before insert ≙ dict assignment).
-/
namespace MpycV.Frame

abbrev Bytes := List Nat

/-- little-endian bytes of `n`, `w` of them (≙ int.to_bytes(w, 'little') for 0 ≤ n < 256^w) -/
def leBytes : Nat → Nat → Bytes
  | _, 0 => []
  | n, w + 1 => (n % 256) :: leBytes (n / 256) w

/-- value of little-endian bytes (≙ int.from_bytes(.., 'little')) -/
def ofLe : Bytes → Nat
  | [] => 0
  | b :: bs => b + 256 * ofLe bs

/-- 8-byte two's complement ≙ struct.pack('<q', pc) for -2^63 ≤ pc < 2^63 -/
def int64LE (pc : Int) : Bytes := leBytes (pc % (2 ^ 64 : Int)).toNat 8

/-- ≙ struct.unpack('<q', ..) -/
def ofInt64LE (bs : Bytes) : Int :=
  let u := ofLe bs
  if u < 2 ^ 63 then (u : Int) else (u : Int) - 2 ^ 64

/-- ≙ struct.pack(f'<qI{n}s', pc, n, payload) -/
def encodeMsg (pc : Int) (payload : Bytes) : Bytes :=
  int64LE pc ++ leBytes payload.length 4 ++ payload

def encodeAll : List (Int × Bytes) → Bytes
  | [] => []
  | (pc, pl) :: ms => encodeMsg pc pl ++ encodeAll ms

inductive Slot where
  | payload (b : Bytes)      -- message arrived, not yet claimed
  | waiting (fut : Nat)      -- receive() called, Future `fut` pending
  deriving Repr, DecidableEq

inductive Event where
  | handshake (peer : Nat) (keys : Bytes)               -- set_protocol(peer), key block stored
  | stored (pc : Int) (payload : Bytes)                 -- buffers[pc] = payload
  | resolved (fut : Nat) (pc : Int) (payload : Bytes)   -- buffers.pop(pc).set_result(payload)
  | dupError (pc : Int)      -- label arrives while an unclaimed payload with the same label is stored:
                             -- `bytes.set_result` raises AttributeError out of data_received
  deriving Repr, DecidableEq

abbrev Buffers := List (Int × Slot)

def Buffers.erase (b : Buffers) (pc : Int) : Buffers := b.filter (fun e => e.1 != pc)

def Buffers.find? (b : Buffers) (pc : Int) : Option Slot :=
  match b with
  | [] => none
  | (k, v) :: rest => if k == pc then some v else Buffers.find? rest pc

/-- dict assignment `buffers[pc] = v` -/
def Buffers.set (b : Buffers) (pc : Int) (v : Slot) : Buffers := (pc, v) :: b.erase pc

structure Parser where
  buf : Bytes
  peer : Option Nat          -- none ≙ peer_pid is None (server side before the handshake)
  buffers : Buffers
  deriving Repr, DecidableEq

structure Cfg where
  noPrss : Bool
  keyLen : Nat → Nat         -- ≙ rt._prss_keys_from_peer(peer_pid) : byte length of the key block

/-- one frame arrival ≙ asyncoro.py:102-105.  `pc in self.buffers` with a stored payload: the code
calls `.set_result` on a bytes object, which raises; the entry has been popped by then. -/
def deliver (b : Buffers) (pc : Int) (payload : Bytes) : Buffers × Event :=
  match b.find? pc with
  | some (Slot.waiting fut) => (b.erase pc, Event.resolved fut pc payload)
  | some (Slot.payload _) => (b.erase pc, Event.dupError pc)
  | none => (b.set pc (Slot.payload payload), Event.stored pc payload)

def Event.isErr : Event → Bool
  | Event.dupError _ => true
  | _ => false

/-- the `while len(data) >= 12` loop ≙ asyncoro.py:95-101; returns (buffers, events, unparsed rest) -/
def parseFrames (b : Buffers) (data : Bytes) : Buffers × List Event × Bytes :=
  if h : data.length < 12 then (b, [], data)
  else
    let pc := ofInt64LE (data.take 8)
    let size := ofLe ((data.drop 8).take 4)
    let lenPacket := size + 12
    if h2 : data.length < lenPacket then (b, [], data)
    else
      let payload := (data.drop 12).take size
      let (b1, ev) := deliver b pc payload
      if ev.isErr then (b1, [ev], data.drop lenPacket)   -- exception leaves the loop; frame already deleted
      else
        let (b2, evs, rest) := parseFrames b1 (data.drop lenPacket)
        (b2, ev :: evs, rest)
termination_by data.length
decreasing_by
  simp only [List.length_drop]
  omega

/-- ≙ data_received -/
def feed (cfg : Cfg) (s : Parser) (chunk : Bytes) : Parser × List Event :=
  let data := s.buf ++ chunk
  match s.peer with
  | none =>
    if data.length < 2 then ({ s with buf := data }, [])
    else
      let pid := ofLe (data.take 2)
      let lp := if cfg.noPrss then 0 else cfg.keyLen pid
      if data.length < lp + 2 then ({ s with buf := data }, [])
      else
        let keys := (data.drop 2).take lp
        let (b, evs, rest) := parseFrames s.buffers (data.drop (2 + lp))
        ({ buf := rest, peer := some pid, buffers := b }, Event.handshake pid keys :: evs)
  | some _ =>
    let (b, evs, rest) := parseFrames s.buffers data
    ({ s with buf := rest, buffers := b }, evs)

/-- feed a list of chunks one after the other, concatenating events -/
def feedAll (cfg : Cfg) (s : Parser) : List Bytes → Parser × List Event
  | [] => (s, [])
  | c :: cs =>
    let (s1, e1) := feed cfg s c
    let (s2, e2) := feedAll cfg s1 cs
    (s2, e1 ++ e2)

inductive Recv where
  | payload (b : Bytes)     -- payload returned immediately
  | future (fut : Nat)      -- a Future is returned (new one, or the one already registered)
  deriving Repr, DecidableEq

/-- ≙ receive(pc); `fresh` is the identity of the Future created if nothing is there -/
def receive (s : Parser) (pc : Int) (fresh : Nat) : Parser × Recv :=
  match s.buffers.find? pc with
  | some (Slot.payload p) => ({ s with buffers := s.buffers.erase pc }, Recv.payload p)
  | some (Slot.waiting f) => ({ s with buffers := s.buffers.erase pc }, Recv.future f)
  | none => ({ s with buffers := s.buffers.set pc (Slot.waiting fresh) }, Recv.future fresh)

def initClient (peer : Nat) : Parser := { buf := [], peer := some peer, buffers := [] }
def initServer : Parser := { buf := [], peer := none, buffers := [] }

/-- the (label, payload) pairs carried by a list of events, in order -/
def framesOf : List Event → List (Int × Bytes)
  | [] => []
  | Event.handshake _ _ :: es => framesOf es
  | Event.stored pc p :: es => (pc, p) :: framesOf es
  | Event.resolved _ pc p :: es => (pc, p) :: framesOf es
  | Event.dupError _ :: es => framesOf es

end MpycV.Frame
