/-
M7 (part): executable model of the pure-Python gmpy2 stubs in `mpyc/gmpy.py` (core Lean only).

Conventions
* Python `int` ≙ `Int`.  `a % b`, `a // b` with a divisor known to be positive are written `%`, `/`
  (`Int.emod`, `Int.ediv`: for b > 0 these are Python's floor mod / floor div).  Where the divisor can be
  negative (`gcdext`) Python's floor semantics are `Int.fmod` / `Int.fdiv`.
* `x & (2^k - 1)` on a Python int (two's complement) ≙ `x % 2^k`.
* `(y & -y).bit_length() - 1` for y ≠ 0 ≙ `tz y` (number of trailing zero bits).
* `pow(a, e, m)` (CPython builtin) ≙ `powMod` (square-and-multiply; `powMod_eq : powMod a e m = a^e % m`).
* `math.isqrt` (CPython builtin) ≙ `Nat.sqrt`; `math.gcd` ≙ `Int.gcd`.
* `random.randint(2, x-2)` in `is_prime`: the list of bases drawn is an explicit argument.
* Loops are structural recursion on a fuel argument; `Err.fuel` is returned when the fuel runs out and the
  lemma files prove that it never does for the fuel supplied (where that is a theorem, see Props/C25, C26).
* Exceptions ≙ `Except Err`.
-/
namespace MpycV.NumTh

inductive Err where
  | valueError
  | zeroDivisionError
  | assertionError
  | fuel            -- model ran out of fuel (the Python loop would still be running)
  deriving Repr, DecidableEq, Inhabited

def Err.toString : Err → String
  | .valueError => "ValueError"
  | .zeroDivisionError => "ZeroDivisionError"
  | .assertionError => "AssertionError"
  | .fuel => "fuel-exhausted"

/-! ### Python int helpers -/

/-- ≙ int.bit_length() (of |x| for negative x) -/
def bitLength (x : Int) : Nat :=
  let n := x.natAbs
  if n = 0 then 0 else Nat.log2 n + 1

/-- number of trailing zero bits of n > 0 (0 for n = 0); ≙ (n & -n).bit_length() - 1 -/
def tz (n : Nat) : Nat :=
  if h : n = 0 then 0 else if n % 2 = 1 then 0 else tz (n / 2) + 1
decreasing_by omega

/-- ≙ pow(a, e, m) for a, e ≥ 0, m > 0 -/
def powMod (a e m : Nat) : Nat :=
  if h : e = 0 then 1 % m
  else
    let r := powMod a (e / 2) m
    let r2 := r * r % m
    if e % 2 = 1 then r2 * a % m else r2
decreasing_by omega

/-! ### is_prime  ≙ gmpy.py:122-151 -/

def smallPrimes : List Nat := [3, 5, 7, 11, 13, 17, 19, 23, 29, 31, 37, 41, 43, 47, 53]

/-- ≙ gmpy.py:131-133: the first p of the tuple dividing x decides (`return x == p`) -/
def trialDiv (x : Nat) : List Nat → Option Bool
  | [] => none
  | p :: ps => if x % p = 0 then some (x == p) else trialDiv x ps

/-- ≙ gmpy.py:144-149: up to k squarings; true iff some b becomes x-1 (`break`), false ≙ `else: return False` -/
def sqLoop (x : Nat) : Nat → Nat → Bool
  | 0, _ => false
  | k + 1, b =>
    let b' := b * b % x
    if b' = x - 1 then true else sqLoop x k b'

/-- one Miller–Rabin round with base a ≙ gmpy.py:141-149; true ≙ the round does not return False -/
def mrRound (x r s a : Nat) : Bool :=
  let b := powMod a s x
  if b = 1 ∨ b = x - 1 then true else sqLoop x (r - 1) b

/-- ≙ is_prime(x, n) where `bases` are the n values returned by random.randint(2, x-2) -/
def isPrimeB (bases : List Nat) (x : Int) : Bool :=
  if x ≤ 2 ∨ x % 2 = 0 then x == 2
  else
    let xn := x.toNat
    match trialDiv xn smallPrimes with
    | some b => b
    | none =>
      let r := tz (xn - 1)            -- ≙ gmpy.py:135-138
      let s := (xn - 1) / 2 ^ r
      bases.all (fun a => mrRound xn r s a)

/-- fixed base list used by the driver wherever the Python code calls is_prime with its own random bases -/
def detBases : List Nat := [2, 3, 5, 7, 11, 13, 17, 19, 23, 29, 31, 37, 41]

def isPrimeD (x : Int) : Bool := isPrimeB detBases x

/-! ### next_prime ≙ gmpy.py:153-161,  prev_prime ≙ gmpy.py:88-99
The primality test is a parameter `isP` (the code calls `is_prime`). -/

/-- ≙ `while not is_prime(x): x += step` -/
def searchUp (isP : Int → Bool) (step : Int) : Nat → Int → Except Err Int
  | 0, _ => .error .fuel
  | f + 1, x => if isP x then .ok x else searchUp isP step f (x + step)

def nextPrime (isP : Int → Bool) (x : Int) : Except Err Int :=
  if x ≤ 1 then .ok 2
  else searchUp isP 2 (x.toNat + 2) (x + (1 + x % 2))

/-- ≙ `while not is_prime(x): x -= 2` -/
def searchDown (isP : Int → Bool) : Nat → Int → Except Err Int
  | 0, _ => .error .fuel
  | f + 1, x => if isP x then .ok x else searchDown isP f (x - 2)

def prevPrime (isP : Int → Bool) (x : Int) : Except Err Int :=
  if x < 3 then .error .valueError
  else if x = 3 then .ok 2
  else searchDown isP x.toNat (x - (1 + x % 2))

/-! ### powmod ≙ gmpy.py:163-165 (CPython `pow` with three arguments, spelled out) -/

/-! ### invert ≙ gmpy.py:192-213 -/

/-- ≙ gmpy.py:206-208; returns (a, s) at loop exit -/
def invertLoop : Nat → Int → Int → Int → Int → Except Err (Int × Int)
  | 0, _, _, _, _ => .error .fuel
  | fuel + 1, a, b, s, s1 =>
    if b = 0 then .ok (a, s)
    else invertLoop fuel b (a % b) s1 (s - (a / b) * s1)      -- b > 0 here

def invert (x m : Int) : Except Err Int :=
  if m = 0 then .error .zeroDivisionError
  else
    let m := (m.natAbs : Int)
    if m = 1 then .ok 0
    else
      match invertLoop (m.natAbs + 2) x m 1 0 with
      | .error e => .error e
      | .ok (a, s) =>
        if a ≠ 1 then .error .zeroDivisionError
        else .ok (if s < 0 then s + m else s)

/-- ≙ pow(x, y, m) for Python ints: m = 0 → ValueError; y < 0 → inverse (ValueError if none);
result has the sign of m -/
def powmod (x y m : Int) : Except Err Int :=
  if m = 0 then .error .valueError
  else
    let ma := m.natAbs
    let fin (r : Nat) : Int := if m < 0 ∧ r ≠ 0 then (r : Int) + m else (r : Int)
    if 0 ≤ y then .ok (fin (powMod (x % (ma : Int)).toNat y.toNat ma))
    else
      match invert x (ma : Int) with
      | .error .fuel => .error .fuel
      | .error _ => .error .valueError
      | .ok xi => .ok (fin (powMod xi.toNat (-y).toNat ma))

/-! ### gcdext ≙ gmpy.py:167-190 -/

/-- ≙ gmpy.py:180-183; returns (g, s, t) at loop exit -/
def gcdextLoop : Nat → Int → Int → Int → Int → Int → Int → Except Err (Int × Int × Int)
  | 0, _, _, _, _, _, _ => .error .fuel
  | fuel + 1, g, f, s, s1, t, t1 =>
    if f = 0 then .ok (g, s, t)
    else
      let q := Int.fdiv g f
      gcdextLoop fuel f (Int.fmod g f) s1 (s - q * s1) t1 (t - q * t1)

def gcdext (a b : Int) : Except Err (Int × Int × Int) :=
  match gcdextLoop (b.natAbs + 2) a b 1 0 0 1 with
  | .error e => .error e
  | .ok (g, s, t) =>
    let (g, s, t) :=
      if g < 0 then (-g, -s, -t)
      else if g = 0 then (g, 0, t)     -- case a=b=0
      else (g, s, t)
    if ((a < 0 ∧ 0 < b) ∨ (b < 0 ∧ 0 < a)) ∧ (b.natAbs : Int) = 2 * g then
      .ok (g, -s, t - s * ((a.natAbs : Int) / g))
    else .ok (g, s, t)

/-! ### jacobi ≙ gmpy.py:219-237, legendre ≙ 215-217, kronecker ≙ 239-257 -/

/-- ≙ gmpy.py:225-234; returns (x, j) at `break` -/
def jacobiLoop : Nat → Int → Int → Int → Except Err (Int × Int)
  | 0, _, _, _ => .error .fuel
  | fuel + 1, x, y, j =>
    let x' := y                      -- x, y = y, x % y      (y > 0)
    let y' := x % y
    if y' = 0 then .ok (x', j)
    else
      let t := tz y'.toNat
      let j := if t % 2 = 1 ∧ (x' % 8 = 3 ∨ x' % 8 = 5) then -j else j
      let y'' := y' / 2 ^ t          -- y >> t
      let j := if y'' % 4 ≠ 1 ∧ x' % 4 ≠ 1 then -j else j
      jacobiLoop fuel x' y'' j

def jacobi (x y : Int) : Except Err Int :=
  if ¬ (y > 0 ∧ y % 2 = 1) then .error .valueError
  else
    match jacobiLoop (y.toNat + 1) x y 1 with
    | .error e => .error e
    | .ok (x, j) => .ok (if x ≠ 1 then 0 else j)

def legendre (x y : Int) : Except Err Int := jacobi x y

def kronecker (x y : Int) : Except Err Int :=
  let k : Int := 1
  let (k, y) := if y = 0 then ((if x.natAbs ≠ 1 then 0 else k), (1 : Int)) else (k, y)
  let (k, y) := if y < 0 then ((if x < 0 then -k else k), -y) else (k, y)
  let (k, y) :=
    if y % 2 = 0 then
      let t := tz y.toNat
      let k := if x % 2 = 0 then 0
               else if t % 2 = 1 ∧ (x % 8 = 3 ∨ x % 8 = 5) then -k else k
      (k, y / 2 ^ t)
    else (k, y)
  match jacobi x y with
  | .error e => .error e
  | .ok j => .ok (k * j)

/-! ### isqrt ≙ gmpy.py:270-272, is_square ≙ 259-268, iroot ≙ 274-291 -/

def isqrt (x : Int) : Except Err Int :=
  if x < 0 then .error .valueError else .ok (Nat.sqrt x.toNat : Nat)

def isSquare (x : Int) : Except Err Bool :=
  let r := x % 16
  if x < 0 then .ok false
  else if ¬ (r = 0 ∨ r = 1 ∨ r = 4 ∨ r = 9) then .ok false
  else
    match isqrt x with
    | .error e => .error e
    | .ok y => .ok (x == y ^ 2)

/-- ≙ gmpy.py:287-290, i = k-1, …, 0 -/
def irootLoop (x : Int) (n : Nat) : Nat → Nat → Nat
  | 0, y => y
  | i + 1, y =>
    let z := y ||| (1 <<< i)
    irootLoop x n i (if ((z : Int)) ^ n ≤ x then z else y)

def iroot (x : Int) (n : Int) : Except Err (Int × Bool) :=
  if x < 0 then .error .valueError
  else if n ≤ 0 then .error .valueError
  else if x = 0 then .ok (x, true)
  else
    let n := n.toNat
    let k := (bitLength x - 1) / n
    let y := irootLoop x n k (1 <<< k)
    .ok ((y : Int), x == (y : Int) ^ n)

/-! ### factor_prime_power ≙ gmpy.py:12-49 -/

/-- ≙ gmpy.py:22-30 (inner while): x = p^d ⇒ d, else ValueError -/
def divOut (p : Int) : Nat → Int → Nat → Except Err Nat
  | 0, _, _ => .error .fuel
  | f + 1, x, d =>
    if x > 1 then
      if x % p = 0 then divOut p f (x / p) (d + 1) else .error .valueError
    else .ok d

/-- ≙ gmpy.py:19-32; `none` ≙ the loop ends without returning -/
def fppSmall (isP : Int → Bool) (x : Int) : Nat → Int → Except Err (Option (Int × Nat))
  | 0, _ => .error .fuel
  | f + 1, p =>
    if p < 1024 then                                  -- p < 1<<k, k = 10
      if x % p = 0 then
        match divOut p (x.toNat + 1) x 0 with
        | .error e => .error e
        | .ok d => .ok (some (p, d))
      else
        match nextPrime isP p with
        | .error e => .error e
        | .ok p' => fppSmall isP x f p'
    else .ok none

/-- ≙ gmpy.py:36-37 -/
def fppSquares : Nat → Int → Nat → Except Err (Int × Nat)
  | 0, _, _ => .error .fuel
  | f + 1, p, d =>
    match isSquare p with
    | .error e => .error e
    | .ok true =>
      match isqrt p with
      | .error e => .error e
      | .ok r => fppSquares f r (2 * d)
    | .ok false => .ok (p, d)

/-- ≙ gmpy.py:38-44 -/
def fppRoots (isP : Int → Bool) : Nat → Int → Nat → Int → Except Err (Int × Nat)
  | 0, _, _, _ => .error .fuel
  | f + 1, p, d, e =>
    if 10 * e ≤ (bitLength p : Int) then
      match iroot p e with
      | .error err => .error err
      | .ok (w, true) => fppRoots isP f w (e.toNat * d) e
      | .ok (_, false) =>
        match nextPrime isP e with
        | .error err => .error err
        | .ok e' => fppRoots isP f p d e'
    else .ok (p, d)

def factorPrimePower (isP : Int → Bool) (x : Int) : Except Err (Int × Nat) :=
  if x ≤ 1 then .error .valueError
  else
    match fppSmall isP x 1024 2 with
    | .error e => .error e
    | .ok (some r) => .ok r
    | .ok none =>
      match fppSquares (bitLength x + 1) x 1 with
      | .error e => .error e
      | .ok (p, d) =>
        match fppRoots isP (2 * bitLength x + 2) p d 3 with
        | .error e => .error e
        | .ok (p, d) => if isP p then .ok (p, d) else .error .valueError

/-! ### ratrec ≙ gmpy.py:52-79 -/

/-- ≙ gmpy.py:71-73; returns (n, d) at loop exit -/
def ratrecLoop (N : Int) : Nat → Int → Int → Int → Int → Except Err (Int × Int)
  | 0, _, _, _, _ => .error .fuel
  | f + 1, n0, n, d0, d =>
    if n > N then ratrecLoop N f n (n0 % n) d (d0 - (n0 / n) * d)     -- n > N ≥ 0
    else .ok (n, d)

/-- ≙ gmpy.py:59-64: the bounds N, D after the defaults have been filled in -/
def ratrecBounds (y : Int) (N D : Option Int) : Except Err (Int × Int) :=
  match N, D with
  | none, none =>
    let h := (y - 1) / 2
    if h < 0 then .error .valueError                 -- math.isqrt of a negative number
    else
      let D : Int := max 1 (Nat.sqrt h.toNat : Nat)
      .ok ((y - 1) / (2 * D), D)
  | none, some D =>
    if 2 * D = 0 then .error .zeroDivisionError
    else .ok (Int.fdiv (y - 1) (2 * D), D)
  | some N, none => .ok (N, if N ≠ 0 then Int.fdiv (y - 1) (2 * N) else 1)
  | some N, some D => .ok (N, D)

/-- ≙ gmpy.py:65-79 with N, D integers -/
def ratrecCore (x y N D : Int) : Except Err (Int × Int) :=
  if N < 0 ∨ D ≤ 0 ∨ 2 * N * D ≥ y then .error .valueError
  else
    match ratrecLoop N (y.toNat + 2) x y 1 0 with
    | .error e => .error e
    | .ok (n, d) =>
      let (n, d) := if d < 0 then (-n, -d) else (n, d)
      if d ≤ D ∧ Int.gcd n d = 1 then .ok (n, d) else .error .valueError

def ratrec (x y : Int) (N D : Option Int) : Except Err (Int × Int) :=
  match ratrecBounds y N D with
  | .error e => .error e
  | .ok (N, D) => ratrecCore x y N D

end MpycV.NumTh
