/-
Executable model of `/repo/mpyc/gfpx.py`, class `Polynomial` (generic coefficient-list representation
of polynomials over GF(p)).  Core Lean only (no Mathlib).  Every definition says which Python lines it
mirrors (`≙ gfpx.py:NNN`).

Representation (as in the Python code): a polynomial a_0 + a_1 X + ... + a_n X^n is the list
`[a_0, ..., a_n] : List Nat`, coefficients in `{0..p-1}`, least significant first, last element
nonzero, `[]` = zero polynomial.  `p` is an explicit first argument of every operation that needs it.

Main API (used by other models, e.g. ExtF):
  `Poly`, `Reduced p a`, `Normalised a`, `WF p a`, `norm`, `degree`,
  `neg add sub mul sq lshift rshift` (total),
  `modCore divmodCore` (total, meaningful for b ≠ []), `mod divmod floordiv : Except Err _`,
  `monic monicInv gcd gcdext invert powmod`, `isIrreducible nextIrreducible findIrreducible`,
  `toInt fromInt fromList lt eval toTerms`, `invModP powMod` (arithmetic mod p).

Loops of the Python code are structural recursions or take fuel; the fuel supplied by the public
functions is proved sufficient in `MpycV/Lemmas/GFpX*.lean` (the only exception is the unbounded
search `while True` of `_next_irreducible`, whose fuel is an explicit argument: `none` = fuel exhausted).
-/
namespace MpycV.GFpX

/-- coefficient list, least significant coefficient first -/
abbrev Poly := List Nat

/-- exceptions the Python code raises -/
inductive Err where
  | zeroDivision   -- ZeroDivisionError
  | value          -- ValueError
  deriving DecidableEq, Repr

def Err.toString : Err → String
  | .zeroDivision => "ZeroDivisionError"
  | .value => "ValueError"

/-- all coefficients in `{0..p-1}` -/
def Reduced (p : Nat) (a : Poly) : Prop := ∀ x ∈ a, x < p

instance (p : Nat) (a : Poly) : Decidable (Reduced p a) := by unfold Reduced; infer_instance

/-- class invariant gfpx.py:50: last element nonzero (if nonempty) -/
def Normalised (a : Poly) : Prop := a.getLast? ≠ some 0

instance (a : Poly) : Decidable (Normalised a) := by unfold Normalised; infer_instance

/-- well-formed internal value of a `GFpX(p)` polynomial -/
def WF (p : Nat) (a : Poly) : Prop := Reduced p a ∧ Normalised a

instance (p : Nat) (a : Poly) : Decidable (WF p a) := by unfold WF; infer_instance

/-- strip trailing zeros ≙ `while a and not a[-1]: del a[-1]` (gfpx.py:167, 203, 294, 306, 383, 406) -/
def norm : Poly → Poly
  | [] => []
  | x :: xs =>
    match norm xs with
    | [] => if x = 0 then [] else [x]
    | y :: ys => x :: y :: ys

/-- ≙ gfpx.py:165 `_from_list` -/
def fromList (a : Poly) : Poly := norm a

/-- ≙ gfpx.py:225 `_degree` (−1 for the zero polynomial) -/
def degree (a : Poly) : Int := (a.length : Int) - 1

/-! ### arithmetic modulo p used by the Python code through `gmpy2.invert` -/

/-- `b^e mod m` by repeated squaring; `fuel ≥ e` suffices (lemma `powModAux_eq`) -/
def powModAux (m : Nat) : Nat → Nat → Nat → Nat
  | 0, _, _ => 1 % m
  | fuel + 1, b, e =>
    if e = 0 then 1 % m else
      let h := powModAux m fuel b (e / 2)
      let h2 := h * h % m
      if e % 2 = 1 then h2 * b % m else h2

def powMod (b e m : Nat) : Nat := powModAux m e b e

/-- ≙ `int(gmpy2.invert(x, p))` for prime `p` and `p ∤ x` (Fermat: `x^(p-2) mod p`) -/
def invModP (p x : Nat) : Nat := powMod x (p - 2) p

/-! ### ring operations -/

/-- ≙ gfpx.py:275 `_neg` -/
def neg (p : Nat) (a : Poly) : Poly := a.map fun x => if x = 0 then 0 else p - x

/-- ≙ gfpx.py:291-293: `c[i] += b_i; if c[i] >= p: c[i] -= p` -/
def addC (p x y : Nat) : Nat := if x + y ≥ p then x + y - p else x + y

def zipAdd (p : Nat) : Poly → Poly → Poly
  | [], b => b
  | x :: a, [] => x :: a
  | x :: a, y :: b => addC p x y :: zipAdd p a b

/-- ≙ gfpx.py:284 `_add` (the swap making `a` the longer list only decides which list is copied) -/
def add (p : Nat) (a b : Poly) : Poly := norm (zipAdd p a b)

/-- ≙ gfpx.py:303-305: `c[i] -= b_i; if c[i] < 0: c[i] += p` -/
def subC (p x y : Nat) : Nat := if x < y then x + p - y else x - y

def zipSub (p : Nat) : Poly → Poly → Poly
  | a, [] => a
  | [], y :: b => subC p 0 y :: zipSub p [] b
  | x :: a, y :: b => subC p x y :: zipSub p a b

/-- ≙ gfpx.py:299 `_sub` -/
def sub (p : Nat) (a b : Poly) : Poly := norm (zipSub p a b)

/-- coefficientwise integer addition, result as long as the longer argument -/
def zipAddN : List Nat → List Nat → List Nat
  | [], b => b
  | x :: a, [] => x :: a
  | x :: a, y :: b => (x + y) :: zipAddN a b

/-- multiply by X, keeping `[]` -/
def shift1 : List Nat → List Nat
  | [] => []
  | y :: l => 0 :: y :: l

/-- multiply by X^2, keeping `[]` -/
def shift2 : List Nat → List Nat
  | [] => []
  | y :: l => 0 :: 0 :: y :: l

/-- integer convolution ≙ gfpx.py:322-326 (`c[i + j] += a_i * b_j`), for `b ≠ []` of length
`len a + len b - 1` (the test `if a_i:` only skips additions of 0) -/
def convN : List Nat → List Nat → List Nat
  | [], _ => []
  | x :: a, b => zipAddN (b.map (x * ·)) (shift1 (convN a b))

/-- ≙ gfpx.py:319-329 after the swap -/
def mulCore (p : Nat) (a b : Poly) : Poly :=
  if a = [] then [] else (convN a b).map (· % p)

/-- ≙ gfpx.py:311 `_mul` for two distinct objects (for `a is b` the code calls `_sq`, see `sq`;
theorem `sq_eq_mul_self` shows the two agree).  NB no normalisation: relies on `p` prime. -/
def mul (p : Nat) (a b : Poly) : Poly :=
  if a.length > b.length then mulCore p b a else mulCore p a b

/-- integer squaring ≙ gfpx.py:337-345 (`c[2i] += a_i^2`, `c[2i+1+j] += 2 a_i a_{i+1+j}`) -/
def sqN : List Nat → List Nat
  | [] => []
  | x :: a => zipAddN (x * x :: a.map (x * 2 * ·)) (shift2 (sqN a))

/-- ≙ gfpx.py:332 `_sq` -/
def sq (p : Nat) (a : Poly) : Poly := (sqN a).map (· % p)

/-- ≙ gfpx.py:351 `_lshift` (n ≥ 0) -/
def lshift (a : Poly) (n : Nat) : Poly := if a = [] then [] else List.replicate n 0 ++ a

/-- ≙ gfpx.py:358 `_rshift` (n ≥ 0) -/
def rshift (a : Poly) (n : Nat) : Poly := a.drop n

/-- ≙ gfpx.py:245 `_reverse(a, d)`: keep/pad to exactly `d + 1` coefficients, reverse, strip.
The argument is `d + 1` (so `d = -1` is `some 0`); `none` ≙ `d = None` (d = degree of a) -/
def reverse (a : Poly) (d1 : Option Nat) : Poly :=
  let n := match d1 with
    | none => a.length
    | some n => n
  let t := a.take n
  norm ((t ++ List.replicate (n - t.length) 0).reverse)

/-- ≙ gfpx.py:257 `_truncate(a, n)` -/
def truncate (a : Poly) (n : Nat) : Poly := norm (a.take n)

/-! ### division -/

/-- Python `(x - q*y) % p` on ints (result in `{0..p-1}` for `p > 0`) -/
def subMulMod (p q x y : Nat) : Nat := (((x : Int) - (q : Int) * (y : Int)) % (p : Int)).toNat

/-- `r[j] = (r[j] - q*b[j]) % p` for `j < len b` ≙ gfpx.py:380-382 with `i = 0` -/
def subScaled (p q : Nat) : Poly → Poly → Poly
  | r, [] => r
  | [], _ :: _ => []          -- Python: IndexError; unreachable (guard `len(r) >= i + n`)
  | x :: r, y :: b => subMulMod p q x y :: subScaled p q r b

/-- `r[i+j] = (r[i+j] - q*b[j]) % p` for `j < len b` ≙ gfpx.py:380-382 / 403-405 -/
def subScaledAt (p q : Nat) : Nat → Poly → Poly → Poly
  | 0, r, b => subScaled p q r b
  | _ + 1, [], _ => []        -- unreachable (guard)
  | i + 1, x :: r, b => x :: subScaledAt p q i r b

/-- one iteration (index `i`) of the loops gfpx.py:377-384 / 400-407 on `r`; returns `(q_i, r')`,
`q_i = 0` when the guard `len(r) >= i + n` fails (the preallocated `q[i]` stays 0) -/
def divStep (p : Nat) (b : Poly) (b1 : Nat) (i : Nat) (r : Poly) : Nat × Poly :=
  if r.length ≥ i + b.length then
    let qi := (r.getLastD 0 * b1) % p
    (qi, norm (subScaledAt p qi i r b))
  else (0, r)

/-- loop gfpx.py:400-407, `k` = number of remaining iterations (`i = k-1 … 0`); the quotient
coefficients are consed in front (`q[i] = q_i` on the preallocated list gives the same list) -/
def divmodLoop (p : Nat) (b : Poly) (b1 : Nat) : Nat → Poly → Poly → Poly × Poly
  | 0, q, r => (q, r)
  | i + 1, q, r =>
    let s := divStep p b b1 i r
    divmodLoop p b b1 i (s.1 :: q) s.2

/-- ≙ gfpx.py:388 `_divmod` for `b ≠ []` -/
def divmodCore (p : Nat) (a b : Poly) : Poly × Poly :=
  if a.length < b.length then ([], a)
  else divmodLoop p b (invModP p (b.getLastD 0)) (a.length - b.length + 1) [] a

/-- loop gfpx.py:377-384 (same as `divmodLoop` without the quotient) -/
def modLoop (p : Nat) (b : Poly) (b1 : Nat) : Nat → Poly → Poly
  | 0, r => r
  | i + 1, r => modLoop p b b1 i (divStep p b b1 i r).2

/-- ≙ gfpx.py:362 `_mod` for `b ≠ []` -/
def modCore (p : Nat) (a b : Poly) : Poly :=
  if a.length < b.length then a
  else modLoop p b (invModP p (b.getLastD 0)) (a.length - b.length + 1) a

/-- ≙ gfpx.py:388 `_divmod` -/
def divmod (p : Nat) (a b : Poly) : Except Err (Poly × Poly) :=
  if b = [] then .error .zeroDivision else .ok (divmodCore p a b)

/-- ≙ gfpx.py:362 `_mod` with a polynomial modulus -/
def mod (p : Nat) (a b : Poly) : Except Err Poly :=
  if b = [] then .error .zeroDivision else .ok (modCore p a b)

/-- ≙ gfpx.py:669 `__floordiv__` -/
def floordiv (p : Nat) (a b : Poly) : Except Err Poly :=
  (divmod p a b).map (·.1)

/-- ≙ gfpx.py:362-365 `_mod(a, b)` where `b` may be `None` (see `_powmod`) -/
def modOpt (p : Nat) (a : Poly) : Option Poly → Except Err Poly
  | none => .ok a
  | some b => mod p a b

/-! ### monic, gcd, gcdext, invert -/

/-- multiply all coefficients by `c` mod p ≙ gfpx.py:449-451, 472-474 -/
def scale (p c : Nat) (a : Poly) : Poly := a.map fun x => x * c % p

/-- ≙ gfpx.py:229 `_monic(a, lc_pinv=True)`: `(monic a, a1)` -/
def monicInv (p : Nat) (a : Poly) : Poly × Nat :=
  match a with
  | [] => ([], 0)
  | x :: l =>
    let a := x :: l
    let lc := a.getLastD 0
    if lc = 1 then (a, 1)
    else
      let a1 := invModP p lc
      ((a.dropLast.map fun x => x * a1 % p) ++ [1], a1)

/-- ≙ gfpx.py:229 `_monic` -/
def monic (p : Nat) (a : Poly) : Poly := (monicInv p a).1

/-- loop gfpx.py:432-433; fuel `len b + 1` suffices (degrees decrease) -/
def gcdLoop (p : Nat) : Nat → Poly → Poly → Poly
  | 0, a, _ => a
  | f + 1, a, b => if b = [] then a else gcdLoop p f b (modCore p a b)

/-- ≙ gfpx.py:431 `_gcd` -/
def gcd (p : Nat) (a b : Poly) : Poly := monic p (gcdLoop p (b.length + 1) a b)

/-- loop gfpx.py:442-445; state `(a, b, s, s1, t, t1)`, returns `(a, s, t)` -/
def gcdextLoop (p : Nat) : Nat → Poly → Poly → Poly → Poly → Poly → Poly → Poly × Poly × Poly
  | 0, a, _, s, _, t, _ => (a, s, t)
  | f + 1, a, b, s, s1, t, t1 =>
    if b = [] then (a, s, t)
    else
      let qr := divmodCore p a b
      gcdextLoop p f b qr.2 s1 (sub p s (mul p qr.1 s1)) t1 (sub p t (mul p qr.1 t1))

/-- ≙ gfpx.py:438 `_gcdext`: `(d, s, t)` with `s a + t b = d` -/
def gcdext (p : Nat) (a b : Poly) : Poly × Poly × Poly :=
  let r := gcdextLoop p (b.length + 1) a b [1] [] [] [1]
  let m := monicInv p r.1
  if m.2 ≥ 2 then (m.1, scale p m.2 r.2.1, scale p m.2 r.2.2) else (m.1, r.2.1, r.2.2)

/-- loop gfpx.py:464-466; state `(a, b, s, s1)`, returns `(a, s)` -/
def invertLoop (p : Nat) : Nat → Poly → Poly → Poly → Poly → Poly × Poly
  | 0, a, _, s, _ => (a, s)
  | f + 1, a, b, s, s1 =>
    if b = [] then (a, s)
    else
      let qr := divmodCore p a b
      invertLoop p f b qr.2 s1 (sub p s (mul p qr.1 s1))

/-- ≙ gfpx.py:458 `_invert` -/
def invert (p : Nat) (a b : Poly) : Except Err Poly :=
  if b = [] then .error .zeroDivision
  else
    let r := invertLoop p (b.length + 1) a b [1] []
    match r.1 with
    | [c] => .ok (scale p (invModP p c) r.2)
    | _ => .error .zeroDivision

/-! ### powmod -/

/-- binary digits of `n`, most significant first, `fuel ≥ n` suffices; `[]` for 0 -/
def bitsAux : Nat → Nat → List Bool → List Bool
  | 0, _, acc => acc
  | f + 1, n, acc => if n = 0 then acc else bitsAux f (n / 2) ((n % 2 = 1) :: acc)

def bitsMSB (n : Nat) : List Bool := bitsAux n n []

/-- body of loop gfpx.py:422-427 for one bit -/
def powStep (p : Nat) (a : Poly) (m : Option Poly) (b : Poly) (bit : Bool) : Except Err Poly := do
  let b ← modOpt p (sq p b) m
  if bit then modOpt p (mul p b a) m else pure b

def powLoop (p : Nat) (a : Poly) (m : Option Poly) : List Bool → Poly → Except Err Poly
  | [], b => pure b
  | bit :: bits, b => do
    let b ← powStep p a m b bit
    powLoop p a m bits b

/-- ≙ gfpx.py:411 `_powmod(a, n, modulus)`; `modulus = none` ≙ `None` -/
def powmod (p : Nat) (a : Poly) (n : Int) (m : Option Poly) : Except Err Poly :=
  if n = 0 then pure [1]
  else if n < 0 then
    match m with
    | none => .error .value
    | some b => do
      let a ← invert p a b
      powLoop p a m (bitsMSB n.natAbs).tail a
  else powLoop p a m (bitsMSB n.natAbs).tail a

/-! ### irreducibility -/

/-- loop gfpx.py:485-488: `k` remaining iterations, current `b` -/
def irrLoop (p : Nat) (a : Poly) : Nat → Poly → Bool
  | 0, _ => true
  | k + 1, b =>
    match powmod p b p (some a) with
    | .error _ => false       -- unreachable: a ≠ [] here
    | .ok b' => if gcd p (sub p b' [0, 1]) a ≠ [1] then false else irrLoop p a k b'

/-- ≙ gfpx.py:478 `_is_irreducible` (Ben-Or) -/
def isIrreducible (p : Nat) (a : Poly) : Bool :=
  if a.length ≤ 1 then false else irrLoop p a ((a.length - 1) / 2) [0, 1]

/-- ≙ gfpx.py:156 `_to_int` -/
def toInt (p : Nat) (a : Poly) : Nat := a.foldr (fun ai s => s * p + ai) 0

/-- base-p digits, least significant first; `fuel ≥ n` suffices ≙ loop gfpx.py:150-152 for `a ≥ 0` -/
def digitsAux (p : Nat) : Nat → Nat → List Nat
  | 0, _ => []
  | f + 1, n => if n = 0 then [] else (n % p) :: digitsAux p f (n / p)

def digits (p n : Nat) : List Nat := digitsAux p n n

/-- ≙ gfpx.py:144 `_from_int` (negative ints give the negated digits of `|a|`), for `p ≥ 2` -/
def fromInt (p : Nat) (a : Int) : Poly :=
  if a < 0 then (digits p a.natAbs).map fun r => if r = 0 then 0 else p - r
  else digits p a.natAbs

/-- one pass of the `while True` loop gfpx.py:497-506 on the integer `a`;
`fuel` bounds the number of passes, `none` = fuel exhausted.  Multiples of `p` (polynomials divisible by X)
are skipped except `p` itself (= X); a non-monic candidate jumps to `p^len - 1`, so that the next pass
tests `p^len` (= X for len = 1) -/
def nextIrrLoop (p : Nat) : Nat → Nat → Option Poly
  | 0, _ => none
  | f + 1, a =>
    let a := a + 1
    let a := if a % p = 0 ∧ a ≠ p then a + 1 else a
    let c := digits p a
    if c.getLastD 0 ≠ 1 then nextIrrLoop p f (p ^ c.length - 1)
    else if isIrreducible p c then some c
    else nextIrrLoop p f a

/-- ≙ gfpx.py:493 `_next_irreducible` with an explicit bound on the number of loop passes -/
def nextIrreducible (p : Nat) (fuel : Nat) (a : Poly) : Option Poly := nextIrrLoop p fuel (toInt p a)

/-- ≙ finfields.py:502 `find_irreducible(p, d)` = `GFpX(p).next_irreducible(p**d - 1)` (odd p) -/
def findIrreducible (p d fuel : Nat) : Option Poly := nextIrreducible p fuel (fromInt p ((p ^ d - 1 : Nat) : Int))

/-- ≙ finfields.py:509 `xGF(modulus)`: `ValueError` unless `is_irreducible(modulus)`, otherwise the field
parameters `(order, ext_deg) = (p^d, d)` with `d = modulus.degree()` -/
def xGF (p : Nat) (m : Poly) : Except Err (Nat × Nat) :=
  if isIrreducible p m then .ok (p ^ (m.length - 1), m.length - 1) else .error .value

/-! ### order, evaluation, printing -/

/-- scan from the top for the first differing coefficient ≙ loop gfpx.py:515-518 on equal lengths;
arguments are the reversed lists -/
def ltRev : List Nat → List Nat → Bool
  | x :: a, y :: b => if x = y then ltRev a b else x < y
  | _, _ => false

/-- ≙ gfpx.py:511 `_lt` -/
def lt (a b : Poly) : Bool :=
  if a.length ≠ b.length then a.length < b.length else ltRev a.reverse b.reverse

/-- ≙ gfpx.py:127 `__call__` (Horner), `x` any integer -/
def eval (p : Nat) (a : Poly) (x : Int) : Nat :=
  let x := (x % (p : Int)).toNat
  a.foldr (fun c y => (y * x + c) % p) 0

/-- terms of gfpx.py:208 `_to_terms`, highest power first, for index `i` upward -/
def termsAux : Nat → Poly → List String
  | _, [] => []
  | i, c :: a =>
    let rest := termsAux (i + 1) a
    if c = 0 then rest
    else
      let cs := if c = 1 then "" else toString c
      let t := if i = 0 then toString c else if i = 1 then cs ++ "x" else cs ++ "x^" ++ toString i
      rest ++ [t]

/-- ≙ gfpx.py:208 `_to_terms` with `x = 'x'` -/
def toTerms (a : Poly) : String :=
  if a = [] then "0" else "+".intercalate (termsAux 0 a)

end MpycV.GFpX
