/-
Support for Lean code generated from mpyc/mpctools.py by harness/py2lean_tools.py (core Lean only).
The generated definitions are polymorphic in the element type `α` and take the binary operation `f : α → α → α`
as a parameter; lists are Python lists of such elements.

* Python list primitives with Python's index rules: `pyGet?` / `pySet?` (negative indices wrap, out of range = `none`
  ≙ IndexError), `pySlice` / `pySliceSet` (bounds are clamped, never an error), `pyInsert`, `pyRangeStep`.
* `pyMapM` — a comprehension / generator expression whose element expression may raise.
* loops go through the generic `PyLoop.loop`; local recursive functions are emitted with an explicit fuel argument
  (`TErr.fuel` ≙ "the Python recursion would still be running").
-/
import MpycV.Model.PyLoop

namespace MpycV.PyTools

inductive TErr where
  | typeError
  | valueError
  | indexError
  | fuel
  deriving Repr, DecidableEq, Inhabited

def TErr.toString : TErr → String
  | .typeError => "TypeError"
  | .valueError => "ValueError"
  | .indexError => "IndexError"
  | .fuel => "fuel-exhausted"

variable {α β : Type}

/-- `list(x)` of an iterable given as the list of its items -/
def pyList (x : List α) : List α := x

/-- position addressed by `l[i]` for `len(l) = len`; `none` ≙ IndexError -/
def pyIdx (len : Nat) (i : Int) : Option Nat :=
  if 0 ≤ i then (if i < (len : Int) then some i.toNat else none)
  else (if -(len : Int) ≤ i then some (i + (len : Int)).toNat else none)

/-- `l[i]` -/
def pyGet? (l : List α) (i : Int) : Option α :=
  match pyIdx l.length i with
  | some k => l[k]?
  | none => none

/-- `l[i] = v` -/
def pySet? (l : List α) (i : Int) (v : α) : Option (List α) :=
  match pyIdx l.length i with
  | some k => some (l.set k v)
  | none => none

/-- a slice bound: negative counts from the end, then clamped to `0..len` -/
def pyClamp (len : Nat) (i : Int) : Nat :=
  if i < 0 then (i + (len : Int)).toNat else min i.toNat len

def pyLo (len : Nat) (lo : Option Int) : Nat := match lo with | some i => pyClamp len i | none => 0
def pyHi (len : Nat) (hi : Option Int) : Nat := match hi with | some i => pyClamp len i | none => len

/-- `l[lo:hi]` (step 1; `none` ≙ an omitted bound) -/
def pySlice (l : List α) (lo hi : Option Int) : List α :=
  (l.drop (pyLo l.length lo)).take (pyHi l.length hi - pyLo l.length lo)

/-- `l[lo:hi] = v` (step 1) -/
def pySliceSet (l : List α) (lo hi : Option Int) (v : List α) : List α :=
  l.take (pyLo l.length lo) ++ v ++ l.drop (max (pyLo l.length lo) (pyHi l.length hi))

/-- `l.insert(i, v)` -/
def pyInsert (l : List α) (i : Int) (v : α) : List α :=
  l.take (pyClamp l.length i) ++ v :: l.drop (pyClamp l.length i)

/-- `range(a, b, s)` for a positive literal step `s` -/
def pyRangeStep (a b s : Int) : List Int :=
  (List.range ((b - a + s - 1) / s).toNat).map fun (k : Nat) => a + s * (k : Int)

/-- `[e(x) for x in xs]` where `e` may raise -/
def pyMapM {ε : Type} (xs : List β) (e : β → Except ε α) : Except ε (List α) :=
  match xs with
  | [] => .ok []
  | b :: rest =>
    match e b with
    | .error err => .error err
    | .ok a =>
      match pyMapM rest e with
      | .error err => .error err
      | .ok as => .ok (a :: as)

end MpycV.PyTools
