/-
Model of secure sorting and selection (runtime.py `_sort`, `sorted`, `np_sort`, `min`, `max`,
`min_max`, `argmin`, `argmax`; seclists.py `sort`), value layer, core Lean only.

The secure comparison `key(a) < key(b)` is a parameter `lt : α → α → Bool` (exact on the values, see
C01 for the comparison protocol itself); `if_swap` / `if_else` are the exact selections they
compute (`x + c*(y - x)`).
-/
namespace MpycV.Sort

variable {α : Type}

/-! ### comparator networks -/

/-- comparator on positions `(i, j)` -/
abbrev Cmp := Nat × Nat
abbrev Net := List Cmp

/-- One compare-exchange.  With `a = x[i]`, `b = x[j]` and `c = keep a b`:
`x[i] = c ? a : b`, `x[j] = c ? b : a`.
* `_sort` (runtime.py:1732-1733): `x[i], x[i+d] = if_swap(key(a) < key(b), b, a)`, i.e. `keep = lt`;
* `np_sort` (runtime.py:1765-1770): `h = (key(b1) < key(b0)) * (b1 - b0); b0 + h, b1 - h`,
  i.e. `keep a b = !(lt b a)`. -/
def cmpSwap (keep : α → α → Bool) (c : Cmp) (x : List α) : List α :=
  match x[c.1]?, x[c.2]? with
  | some a, some b => (x.set c.1 (if keep a b then a else b)).set c.2 (if keep a b then b else a)
  | _, _ => x                       -- IndexError: unreachable for i, j < len(x)

/-- run a network from left to right -/
def run (keep : α → α → Bool) (net : Net) (x : List α) : List α :=
  net.foldl (fun x c => cmpSwap keep c x) x

/-- `for i in range(n - d): if i & p == r:` comparator `(i, i + d)`  ≙ runtime.py:1730-1733 -/
def layer (n p d r : Nat) : Net :=
  ((List.range (n - d)).filter (fun i => i &&& p == r)).map (fun i => (i, i + d))

/-- `while d: …; d, q, r = q - p, q >> 1, p`  ≙ runtime.py:1729-1734 (fuel: at most t+1 rounds) -/
def innerLoop : Nat → Nat → Nat → Nat → Nat → Nat → Net
  | 0, _, _, _, _, _ => []
  | fuel + 1, n, p, d, q, r =>
    if d = 0 then [] else layer n p d r ++ innerLoop fuel n p (q - p) (q >>> 1) p

/-- `while p: d, q, r = p, 1 << t-1, 0; …; p >>= 1`  ≙ runtime.py:1727-1735 -/
def outerLoop : Nat → Nat → Nat → Nat → Net
  | 0, _, _, _ => []
  | fuel + 1, n, t, p =>
    if p = 0 then [] else innerLoop (t + 1) n p p (1 <<< (t - 1)) 0 ++ outerLoop fuel n t (p >>> 1)

/-- Python `int.bit_length()` for n ≥ 0 -/
def bitLength (n : Nat) : Nat := if n = 0 then 0 else Nat.log2 n + 1

/-- the comparator sequence of `_sort` on a list of length n ≥ 2  ≙ runtime.py:1724-1735
(Batcher's merge-exchange, Knuth 5.2.2M) -/
def sortNet (n : Nat) : Net :=
  let t := bitLength (n - 1)
  outerLoop (t + 1) n t (1 <<< (t - 1))

/-- `sorted(x, key, reverse)` / `seclist.sort(key, reverse)`  ≙ runtime.py:1707-1717, seclists.py:327-335 -/
def sorted (lt : α → α → Bool) (x : List α) (reverse : Bool) : List α :=
  if x.length < 2 then x
  else
    let y := run lt (sortNet x.length) x
    if reverse then y.reverse else y

/-- `np_sort` along the last axis of a 1-D array  ≙ runtime.py:1753-1774 -/
def npSorted (lt : α → α → Bool) (x : List α) : List α :=
  if x.length ≤ 1 then x else run (fun a b => !(lt b a)) (sortNet x.length) x

/-! ### bit-sliced evaluation on 0-1 inputs: column `i` is a Nat whose bit `m` is the value at
position `i` for input number `m`; one pass evaluates the network on all inputs at once -/

def colStep (c : Cmp) (cols : List Nat) : List Nat :=
  match cols[c.1]?, cols[c.2]? with
  | some a, some b => (cols.set c.1 (a &&& b)).set c.2 (a ||| b)
  | _, _ => cols

def evalCols (net : Net) (cols : List Nat) : List Nat :=
  net.foldl (fun cols c => colStep c cols) cols

/-- truth-table column of variable `i` over all `2^n` inputs: bit `m` is bit `i` of `m` -/
def varCol : Nat → Nat → Nat
  | 0, _ => 0
  | n + 1, i =>
    if i = n then ((1 <<< (2 ^ n)) - 1) <<< (2 ^ n)
    else let c := varCol n i; c ||| (c <<< (2 ^ n))

def initCols (n : Nat) : List Nat := (List.range n).map (varCol n)

/-- every column is bitwise ≤ the next one: all rows are ascending -/
def colsSorted : List Nat → Bool
  | a :: b :: rest => ((a ||| b) == b) && colsSorted (b :: rest)
  | _ => true

/-- the check run by the kernel on the extracted networks: all 2^n 0-1 inputs get sorted -/
def sortsAll01 (n : Nat) (net : Net) : Bool := colsSorted (evalCols net (initCols n))

/-- all comparators stay inside `0..n-1` and go upwards -/
def netWf (n : Nat) (net : Net) : Bool := net.all (fun c => decide (c.1 < c.2) && decide (c.2 < n))

/-! ### tournaments  ≙ runtime.py:1561-1694; `none` ≙ `ValueError('… arg is an empty sequence')` -/

/-- `min`: `if_else(key(min0) < key(min1), min0, min1)`  ≙ runtime.py:1570-1581 -/
def tmin (lt : α → α → Bool) (x : List α) : Option α :=
  if x.length < 2 then x.head?      -- n = 0: ValueError (none); n = 1: x[0]
  else
    match tmin lt (x.take (x.length / 2)), tmin lt (x.drop (x.length / 2)) with
    | some m0, some m1 => some (if lt m0 m1 then m0 else m1)
    | _, _ => none
termination_by x.length
decreasing_by
  · simp only [List.length_take]; omega
  · simp only [List.length_drop]; omega

/-- `max`: `if_else(key(max0) < key(max1), max1, max0)`  ≙ runtime.py:1592-1603 -/
def tmax (lt : α → α → Bool) (x : List α) : Option α :=
  if x.length < 2 then x.head?      -- n = 0: ValueError (none); n = 1: x[0]
  else
    match tmax lt (x.take (x.length / 2)), tmax lt (x.drop (x.length / 2)) with
    | some m0, some m1 => some (if lt m0 m1 then m1 else m0)
    | _, _ => none
termination_by x.length
decreasing_by
  · simp only [List.length_take]; omega
  · simp only [List.length_drop]; omega

/-- `_argmin`: `c = key(min1) < key(min0); (if_else(c, i1 + n//2, i0), if_else(c, min1, min0))`
≙ runtime.py:1647-1660 -/
def targmin (lt : α → α → Bool) (x : List α) : Option (Nat × α) :=
  if x.length < 2 then x.head?.map (fun a => (0, a))      -- n = 0: ValueError (none); n = 1: x[0]
  else
    match targmin lt (x.take (x.length / 2)), targmin lt (x.drop (x.length / 2)) with
    | some (i0, m0), some (i1, m1) =>
      let i1 := i1 + x.length / 2
      let c := lt m1 m0
      some (if c then i1 else i0, if c then m1 else m0)
    | _, _ => none
termination_by x.length
decreasing_by
  · simp only [List.length_take]; omega
  · simp only [List.length_drop]; omega

/-- `_argmax`: `c = key(max0) < key(max1)`  ≙ runtime.py:1681-1694 -/
def targmax (lt : α → α → Bool) (x : List α) : Option (Nat × α) :=
  if x.length < 2 then x.head?.map (fun a => (0, a))      -- n = 0: ValueError (none); n = 1: x[0]
  else
    match targmax lt (x.take (x.length / 2)), targmax lt (x.drop (x.length / 2)) with
    | some (i0, m0), some (i1, m1) =>
      let i1 := i1 + x.length / 2
      let c := lt m0 m1
      some (if c then i1 else i0, if c then m1 else m0)
    | _, _ => none
termination_by x.length
decreasing_by
  · simp only [List.length_take]; omega
  · simp only [List.length_drop]; omega

/-- the pairing comparators of `min_max`: `(i, n-1-i)` for `i < n//2`  ≙ runtime.py:1622-1624.
`x[i], x[-1-i] = if_swap(key(a) >= key(b), a, b)` with `>=` computed as `1 - (key(a) < key(b))`:
`x[i] = lt a b ? a : b`, `x[-1-i] = lt a b ? b : a`, which is `cmpSwap lt (i, n-1-i)`. -/
def pairNet (n : Nat) : Net := (List.range (n / 2)).map (fun i => (i, n - 1 - i))

/-- `min_max`  ≙ runtime.py:1613-1626 -/
def minMax (lt : α → α → Bool) (x : List α) : Option (α × α) :=
  let n := x.length
  let y := run lt (pairNet n) x
  match tmin lt (y.take ((n + 1) / 2)), tmax lt (y.drop (n / 2)) with
  | some a, some b => some (a, b)
  | _, _ => none                     -- n = 0: ValueError

end MpycV.Sort
