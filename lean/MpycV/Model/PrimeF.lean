/-
Executable model of `mpyc.finfields.PrimeFieldElement` (core Lean only, no Mathlib).

A field element of GF(p) is modelled by its attribute `value : Nat` (reduced representative);
the modulus `p` is an explicit parameter (the Python class attribute `modulus`).
A right-hand operand is either another element (the Python code takes `other.value`) or a plain
`int`; in both cases the code computes with one Python int, so every binary operator takes the
operand as `o : Int` (`Opd.toInt`).  In-place and reflected operators are SEPARATE definitions, each
transcribing its own Python lines; that they agree with the binary ones is a theorem (C20), not a
definition.

The gmpy2 functions are modelled by the pure-Python stubs of /repo/mpyc/gmpy.py (`invert`, `jacobi`,
`legendre`) and by the CPython semantics of the built-in three-argument `pow` (`powmod`).
`≙ file:line` names the Python lines a definition mirrors.
-/
namespace MpycV.PrimeF

/-- errors raised by the Python code -/
inductive Err where
  | zeroDivision   -- ZeroDivisionError
  | value          -- ValueError
  | noInverse      -- pow(x, negative, m) with x not invertible (CPython: ValueError; gmpy2: ZeroDivisionError)
  | overflow       -- OverflowError (int.to_bytes)
  | fuel           -- model-only: a `while` loop did not finish within the fuel supplied (never observed)
  deriving DecidableEq, Repr

def Err.toString : Err → String
  | .zeroDivision => "ZeroDivisionError"
  | .value => "ValueError"
  | .noInverse => "NoInverse"
  | .overflow => "OverflowError"
  | .fuel => "fuel-exhausted"

instance : ToString Err := ⟨Err.toString⟩

/-- Python `x % p` on ints for a positive modulus `p`: result in `[0, p)`. -/
def pmod (x : Int) (p : Nat) : Nat := (x % (p : Int)).toNat

/-- ≙ finfields.py:380-386 `PrimeFieldElement.__init__`: `value.__mod__(self.modulus)`. -/
def mk (p : Nat) (x : Int) : Nat := pmod x p

/-- operand of a binary operator: an element of the same field (its `value`) or a Python int -/
inductive Opd where
  | elem (v : Nat)
  | int (x : Int)
  deriving Repr

/-- the Python int the operator code computes with (`other.value` resp. `other`) -/
def Opd.toInt : Opd → Int
  | .elem v => (v : Int)
  | .int x => x

/-! ### gmpy stubs and built-in `pow` -/

/-- `int.bit_length()` for a non-negative int -/
def bitLength (n : Nat) : Nat := if n = 0 then 0 else n.log2 + 1

/-- ≙ gmpy.py:206-208 the loop of `invert`: `while b: a, (q, b) = b, divmod(a, b); s, s1 = s1, s - q*s1`.
Returns the final `(a, s)`.  `Int./`, `Int.%` are floor division/modulus for a positive divisor.
Structural recursion on fuel (kernel-reducible); `b` strictly decreases, so fuel `b + 1` suffices
(lemmas `invLoopF_bezout/_gcd` hold for every fuel `> b`). -/
def invLoopF : Nat → Int → Nat → Int → Int → Int × Int
  | 0, a, _, s, _ => (a, s)
  | f + 1, a, b, s, s1 =>
    if b = 0 then (a, s)
    else invLoopF f (b : Int) (a % (b : Int)).toNat s1 (s - (a / (b : Int)) * s1)

def invLoop (a : Int) (b : Nat) (s s1 : Int) : Int × Int := invLoopF (b + 1) a b s s1

/-- ≙ gmpy.py:192-213 `invert(x, m)` (stub), `m ≥ 0` as used by finfields (`m = p`). -/
def invert (x : Int) (m : Nat) : Except Err Int :=
  if m = 0 then .error .zeroDivision
  else if m = 1 then .ok 0
  else
    let r := invLoop x m 1 0
    if r.1 ≠ 1 then .error .zeroDivision
    else .ok (if r.2 < 0 then r.2 + (m : Int) else r.2)

/-- square-and-multiply `b^e mod m` (what the built-in `pow(b, e, m)` returns for `e ≥ 0`);
fuel `≥ e` suffices (lemma `powModF_eq`) -/
def powModF (m : Nat) : Nat → Nat → Nat → Nat
  | 0, _, _ => 1 % m
  | f + 1, b, e =>
    if e = 0 then 1 % m
    else
      let h := powModF m f b (e / 2)
      let h2 := h * h % m
      if e % 2 = 1 then h2 * b % m else h2

def powModNat (b e m : Nat) : Nat := powModF m e b e

/-- ≙ gmpy.py:163-165 `powmod(x, y, m)` = built-in `pow(x, y, m)`, `m > 0`:
negative exponent = power of the inverse, error when `x` is not invertible. -/
def powmod (x : Nat) (y : Int) (m : Nat) : Except Err Nat :=
  if 0 ≤ y then .ok (powModNat x y.toNat m)
  else match invert (x : Int) m with
    | .ok i => .ok (powModNat (pmod i m) (-y).toNat m)
    | .error _ => .error .noInverse

/-- number of trailing zero bits, `(y & -y).bit_length() - 1` for `y > 0`; fuel `≥ y` suffices -/
def tzF : Nat → Nat → Nat
  | 0, _ => 0
  | f + 1, y => if y = 0 then 0 else if y % 2 = 1 then 0 else tzF f (y / 2) + 1

def tz (y : Nat) : Nat := tzF y y

/-- ≙ gmpy.py:225-237 one pass of `while True:` in `jacobi` starting at the top with state `(x, y, j)`,
including the final `if x != 1: j = 0`.  `y` strictly decreases, fuel `y + 1` suffices. -/
def jacobiLoopF : Nat → Int → Nat → Int → Int
  | 0, _, _, _ => 0
  | f + 1, x, y, j =>
    if y = 0 then 0   -- unreachable: `x % 0` would raise; guarded by `jacobi`
    else
      let x' : Nat := y
      let y' : Nat := pmod x y
      if y' = 0 then (if x' = 1 then j else 0)
      else
        let t := tz y'
        let j1 := if t % 2 = 1 ∧ (x' % 8 = 3 ∨ x' % 8 = 5) then -j else j
        let y'' := y' >>> t
        let j2 := if y'' % 4 ≠ 1 ∧ x' % 4 ≠ 1 then -j1 else j1
        jacobiLoopF f (x' : Int) y'' j2

def jacobiLoop (x : Int) (y : Nat) (j : Int) : Int := jacobiLoopF (y + 1) x y j

/-- ≙ gmpy.py:219-237 `jacobi(x, y)` (stub): ValueError unless `y > 0` and odd. -/
def jacobi (x : Int) (y : Nat) : Except Err Int :=
  if ¬ (0 < y ∧ y % 2 = 1) then .error .value else .ok (jacobiLoop x y 1)

/-- ≙ gmpy.py:215-217 `legendre(x, y) = jacobi(x, y)`. -/
def legendre (x : Int) (y : Nat) : Except Err Int := jacobi x y

/-! ### operators of `FiniteFieldElement` / `PrimeFieldElement` -/

/-- ≙ finfields.py:107-115 `__add__`: `type(self)(self.value + other)` -/
def add (p a : Nat) (o : Int) : Nat := mk p ((a : Int) + o)
/-- ≙ finfields.py:117-122 `__radd__`: `type(self)(self.value + other)` -/
def radd (p a : Nat) (o : Int) : Nat := mk p ((a : Int) + o)
/-- ≙ finfields.py:124-133 `__iadd__`: `self.value += other; self.value %= self.modulus` -/
def iadd (p a : Nat) (o : Int) : Nat := pmod ((a : Int) + o) p
/-- ≙ finfields.py:135-143 `__sub__` -/
def sub (p a : Nat) (o : Int) : Nat := mk p ((a : Int) - o)
/-- ≙ finfields.py:145-150 `__rsub__`: `type(self)(other - self.value)` -/
def rsub (p a : Nat) (o : Int) : Nat := mk p (o - (a : Int))
/-- ≙ finfields.py:152-161 `__isub__` -/
def isub (p a : Nat) (o : Int) : Nat := pmod ((a : Int) - o) p
/-- ≙ finfields.py:163-165 `__neg__` -/
def neg (p a : Nat) : Nat := mk p (-(a : Int))
/-- ≙ finfields.py:167-169 `__pos__` -/
def pos (p a : Nat) : Nat := mk p (a : Int)
/-- ≙ finfields.py:171-179 `__mul__` -/
def mul (p a : Nat) (o : Int) : Nat := mk p ((a : Int) * o)
/-- ≙ finfields.py:181-186 `__rmul__` -/
def rmul (p a : Nat) (o : Int) : Nat := mk p ((a : Int) * o)
/-- ≙ finfields.py:188-197 `__imul__` -/
def imul (p a : Nat) (o : Int) : Nat := pmod ((a : Int) * o) p

/-- ≙ finfields.py:417-419 `_reciprocal(cls, a)`: `int(gmpy2.invert(a, cls.modulus))` -/
def reciprocalRaw (p : Nat) (a : Int) : Except Err Int := invert a p
/-- ≙ finfields.py:267-270 `reciprocal(self)`: `cls(cls._reciprocal(self.value))` -/
def reciprocal (p a : Nat) : Except Err Nat := (reciprocalRaw p a).map (mk p)

/-- ≙ finfields.py:199-206 `__truediv__`: `self * type(self)._reciprocal(other)` -/
def truediv (p a : Nat) (o : Int) : Except Err Nat := (reciprocalRaw p o).map (mul p a)
/-- ≙ finfields.py:208-213 `__rtruediv__`: `self.reciprocal() * other` -/
def rtruediv (p a : Nat) (o : Int) : Except Err Nat := (reciprocal p a).map (fun r => mul p r o)
/-- ≙ finfields.py:215-224 `__itruediv__`: `self.value *= _reciprocal(other); self.value %= modulus` -/
def itruediv (p a : Nat) (o : Int) : Except Err Nat :=
  (reciprocalRaw p o).map (fun r => pmod ((a : Int) * r) p)

/-- ≙ finfields.py:410-415 `__pow__`: `type(self)(int(gmpy2.powmod(self.value, other, self.modulus)))` -/
def pow (p a : Nat) (n : Int) : Except Err Nat := (powmod a n p).map (fun r => mk p (r : Int))

/-- Python `x << n` on ints: ValueError("negative shift count") for `n < 0` -/
def shl (x : Int) (n : Int) : Except Err Int :=
  if n < 0 then .error .value else .ok (x * (2 : Int) ^ n.toNat)

/-- ≙ finfields.py:230-235 `__lshift__`: `type(self)(self.value << other)` -/
def lshift (p a : Nat) (n : Int) : Except Err Nat := (shl (a : Int) n).map (mk p)
/-- ≙ finfields.py:241-248 `__ilshift__`: `self.value <<= other; self.value %= self.modulus` -/
def ilshift (p a : Nat) (n : Int) : Except Err Nat := (shl (a : Int) n).map (fun v => pmod v p)

/-- ≙ finfields.py:421-425 `_reciprocal2(cls, n)`: `cls._reciprocal(1 << n)` (the 1-place cache is not modelled:
the tie exercises it with interleaved shift amounts and fields) -/
def reciprocal2 (p : Nat) (n : Int) : Except Err Int :=
  match shl 1 n with
  | .ok v => reciprocalRaw p v
  | .error e => .error e
/-- ≙ finfields.py:427-433 `__rshift__`: `cls(self.value * cls._reciprocal2(other))` -/
def rshift (p a : Nat) (n : Int) : Except Err Nat := (reciprocal2 p n).map (fun r => mk p ((a : Int) * r))
/-- ≙ finfields.py:435-441 `__irshift__` -/
def irshift (p a : Nat) (n : Int) : Except Err Nat :=
  (reciprocal2 p n).map (fun r => pmod ((a : Int) * r) p)

/-- ≙ finfields.py:291-299 `__eq__`: element: `self.value == other.value`; int: `self.value == other % modulus` -/
def eq (p a : Nat) : Opd → Bool
  | .elem v => a == v
  | .int x => a == pmod x p
/-- ≙ finfields.py:301-303 `__hash__`: `hash((type(self).__name__, self.value))`; the hashed key -/
def hashKey (p a : Nat) : Nat × Nat := (p, a)
/-- ≙ finfields.py:305-311 `__bool__` -/
def toBool (a : Nat) : Bool := a != 0

/-! ### integer views -/

/-- ≙ finfields.py:490-495 `signed_` -/
def signed (p a : Nat) : Int := if a > p >>> 1 then (a : Int) - (p : Int) else (a : Int)
/-- ≙ finfields.py:497-499 `unsigned_` -/
def unsigned (a : Nat) : Int := (a : Int)
/-- ≙ finfields.py:398-404 `__int__` (`is_signed` is `True` for every field made by `pGF`, finfields.py:363) -/
def toInt (p a : Nat) (isSigned : Bool := true) : Int := if isSigned then signed p a else unsigned a
/-- ≙ finfields.py:406-408 `__abs__` -/
def abs (p a : Nat) : Nat := (toInt p a).natAbs

/-! ### square roots and quadratic residuosity -/

/-- ≙ finfields.py:464-466 `b = 1; while legendre(b*b - 4*a, p) != -1: b += 1`, with fuel -/
def findB (p a : Nat) : Nat → Nat → Except Err Nat
  | 0, _ => .error .fuel
  | fuel + 1, b =>
    match legendre ((b : Int) * b - 4 * (a : Int)) p with
    | .error e => .error e
    | .ok l => if l ≠ -1 then findB p a fuel (b + 1) else .ok b

/-- ≙ finfields.py:472-476 body of the Lucas-type loop for bit `i` of `e` -/
def cipollaStep (p a b e : Nat) (uv : Nat × Nat) (i : Nat) : Nat × Nat :=
  let u := uv.1
  let v := uv.2
  let u2 := (u * u) % p
  let u' := ((u <<< 1) * v + b * u2) % p
  let v' := pmod ((v : Int) * v - (a : Int) * u2) p
  if (e >>> i) % 2 = 1 then ((v' + b * u') % p, pmod (-(a : Int) * u') p) else (u', v')

/-- ≙ finfields.py:469-476: `u, v = 0, 1; e = (p+1) >> 1; for i in range(e.bit_length()-1, -1, -1): …` -/
def cipollaLoop (p a b : Nat) : Nat × Nat :=
  let e := (p + 1) >>> 1
  ((List.range (bitLength e)).reverse).foldl (cipollaStep p a b e) (0, 1)

/-- ≙ finfields.py:443-480 `_sqrt(cls, a, INV=False)` (raw value, before `cls(...)` in `sqrt`) -/
def sqrtRaw (p a : Nat) (inv : Bool) : Except Err Int :=
  if a = 0 then (if inv then .error .zeroDivision else .ok 0)
  else if p = 2 then .ok (a : Int)
  else if p % 4 = 3 then
    let p4 : Nat := if inv then (p * 3 - 5) >>> 2 else (p + 1) >>> 2
    (powmod a (p4 : Int) p).map (fun r => (r : Int))
  else
    match findB p a p 1 with
    | .error e => .error e
    | .ok b =>
      let v := (cipollaLoop p a b).2
      if inv then reciprocalRaw p (v : Int) else .ok (v : Int)

/-- ≙ finfields.py:277-280 `sqrt(self, INV=False)`: `cls(cls._sqrt(self.value, INV=INV))` -/
def sqrt (p a : Nat) (inv : Bool) : Except Err Nat := (sqrtRaw p a inv).map (mk p)

/-- ≙ finfields.py:482-488 `_is_sqr` / 287-289 `is_sqr` -/
def isSqr (p a : Nat) : Except Err Bool :=
  if p = 2 then .ok true else (legendre (a : Int) p).map (fun l => l != -1)

/-! ### serialisation -/

/-- ≙ finfields.py:362 `byte_length = (order.bit_length() + 7) >> 3` -/
def byteLength (order : Nat) : Nat := (bitLength order + 7) >>> 3

/-- `r` little-endian base-256 digits of `v` -/
def leBytes : Nat → Nat → List Nat
  | 0, _ => []
  | r + 1, v => v % 256 :: leBytes r (v / 256)

/-- `int.from_bytes(bs, 'little')` -/
def ofLE : List Nat → Nat
  | [] => 0
  | b :: bs => b + 256 * ofLE bs

/-- `v.to_bytes(r, 'little')`: OverflowError for negative `v` or `v ≥ 256^r` -/
def intToBytes (r : Nat) (v : Int) : Except Err (List Nat) :=
  if v < 0 then .error .overflow
  else if 256 ^ r ≤ v.toNat then .error .overflow
  else .ok (leBytes r v.toNat)

/-- ≙ finfields.py:94-98 `to_bytes(cls, x)`: `b''.join(v.to_bytes(r, 'little') for v in x)` -/
def toBytes (r : Nat) : List Int → Except Err (List Nat)
  | [] => .ok []
  | v :: vs =>
    match intToBytes r v with
    | .error e => .error e
    | .ok bs =>
      match toBytes r vs with
      | .error e => .error e
      | .ok rest => .ok (bs ++ rest)

/-- chunks `data[i:i+r] for i in range(0, len(data), r)` (`r > 0`; the last chunk may be short);
fuel `≥ len(data)` suffices -/
def chunksF (r : Nat) : Nat → List Nat → List (List Nat)
  | 0, _ => []
  | f + 1, data => if r = 0 ∨ data = [] then [] else data.take r :: chunksF r f (data.drop r)

def chunks (r : Nat) (data : List Nat) : List (List Nat) := chunksF r data.length data

/-- ≙ finfields.py:100-105 `from_bytes(cls, data)`; `range(0, n, 0)` raises ValueError -/
def fromBytes (r : Nat) (data : List Nat) : Except Err (List Nat) :=
  if r = 0 then .error .value else .ok ((chunks r data).map ofLE)

/-! ### pickling (`__reduce__` / `createGF`) as a record round trip -/

/-- a field class made by `pGF(p, n, w)`: `functools.cache` keys the class object by the RAW arguments
(finfields.py:350-351), the class stores `nth = n`, `root = w % p` (finfields.py:364-365) -/
structure Fld where
  p : Nat
  n : Int
  wRaw : Int
  deriving DecidableEq, Repr

def Fld.root (F : Fld) : Nat := pmod F.wRaw F.p

/-- ≙ finfields.py:23-45 `GF(modulus)` for an int modulus `p` (prime): `(p, 1, 1)` for p = 2 else `(p, 2, p-1)` -/
def GFint (p : Nat) : Fld := if p = 2 then ⟨p, 1, 1⟩ else ⟨p, 2, (p : Int) - 1⟩

/-- ≙ finfields.py:38-41 `GF((p, n, w))`: the root is canonicalised, `pGF(p, n, w % p)` -/
def GFtuple (p : Nat) (n w : Int) : Fld := ⟨p, n, (pmod w p : Nat)⟩

/-- the data `__reduce__` hands to pickle ≙ finfields.py:394-396 -/
structure Pickled where
  p : Nat
  n : Int
  w : Int
  value : Nat
  deriving DecidableEq, Repr

def reduce (F : Fld) (a : Nat) : Pickled := ⟨F.p, F.n, (F.root : Int), a⟩

/-- ≙ finfields.py:388-392 `createGF(p, n, w)` + pickle's `__setstate__` of the slot `value` -/
def rebuild (d : Pickled) : Fld × Nat := (⟨d.p, d.n, d.w⟩, d.value)

end MpycV.PrimeF
