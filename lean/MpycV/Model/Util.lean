/-
Driver utilities shared by all line-protocol drivers (core Lean only, no Mathlib).
A driver reads one request per line from stdin and answers with exactly one line on stdout.
-/
namespace MpycV.Util

/-- split a line on single spaces, dropping empty tokens -/
def tokens (line : String) : List String :=
  (line.trimAscii.toString.splitOn " ").filter (fun t => !t.isEmpty)

/-- parse a decimal integer with optional leading '-' -/
def parseInt? (s : String) : Option Int := s.toInt?

def parseNat? (s : String) : Option Nat := s.toNat?

/-- parse a comma-separated list of integers; "-" or "" denotes the empty list -/
def parseIntList? (s : String) : Option (List Int) :=
  if s == "-" || s.isEmpty then some [] else (s.splitOn ",").mapM parseInt?

def parseNatList? (s : String) : Option (List Nat) :=
  if s == "-" || s.isEmpty then some [] else (s.splitOn ",").mapM parseNat?

def showIntList (l : List Int) : String :=
  if l.isEmpty then "-" else ",".intercalate (l.map toString)

def showNatList (l : List Nat) : String :=
  if l.isEmpty then "-" else ",".intercalate (l.map toString)

def hexDigit? (c : Char) : Option Nat :=
  if '0' ≤ c ∧ c ≤ '9' then some (c.toNat - '0'.toNat)
  else if 'a' ≤ c ∧ c ≤ 'f' then some (c.toNat - 'a'.toNat + 10)
  else if 'A' ≤ c ∧ c ≤ 'F' then some (c.toNat - 'A'.toNat + 10)
  else none

/-- parse lowercase/uppercase hex into bytes (as Nat < 256); "-" denotes the empty string -/
def parseHex? (s : String) : Option (List Nat) :=
  if s == "-" then some [] else
  let rec go : List Char → Option (List Nat)
    | [] => some []
    | [_] => none
    | a :: b :: rest => do
        let x ← hexDigit? a
        let y ← hexDigit? b
        let r ← go rest
        pure ((16 * x + y) :: r)
  go s.toList

def hexOfNat (n : Nat) : Char :=
  if n < 10 then Char.ofNat ('0'.toNat + n) else Char.ofNat ('a'.toNat + n - 10)

def showHex (bs : List Nat) : String :=
  if bs.isEmpty then "-" else
  String.ofList (bs.flatMap fun b => [hexOfNat (b / 16 % 16), hexOfNat (b % 16)])

/-- main loop: answer every input line with `step line`; state-free drivers -/
partial def loop (h : IO.FS.Stream) (step : String → String) : IO Unit := do
  let line ← h.getLine
  if line.isEmpty then return ()
  IO.println (step line)
  loop h step

/-- stateful main loop -/
partial def loopS {σ : Type} (h : IO.FS.Stream) (step : σ → String → σ × String) (s : σ) : IO Unit := do
  let line ← h.getLine
  if line.isEmpty then return ()
  let (s', out) := step s line
  IO.println out
  loopS h step s'

end MpycV.Util
