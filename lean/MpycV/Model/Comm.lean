/-
M5/Comm: who sends to whom in the four communication primitives of mpyc.runtime (core Lean only).

≙ runtime.py:345-401  transfer     -> `transferSenders`, `transferReceivers` (bipartite and graph forms)
≙ runtime.py:440-509  _distribute  -> `distSends`, `distRecvs`
≙ runtime.py:512-601  output       -> `outSends`, `outRecvs`
≙ runtime.py:604-689  _reshare     -> `reshSends`, `reshRecvs`

Parties are `Nat`s below `m`.  Python's `(a - b) % m` for 0 ≤ a, b < m is `(a + m - b) % m`.
-/
namespace MpycV.Comm

/-- Python `(a - b) % m` for a, b < m -/
def subMod (m a b : Nat) : Nat := (a + m - b % m) % m

/-! ### output (runtime.py:575-585) -/

/-- peers party `pid` sends its share to: `for peer_pid in receivers: if 0 < (peer_pid - pid) % m <= t` -/
def outSends (m t pid : Nat) (receivers : List Nat) : List Nat :=
  receivers.filter (fun j => 0 < subMod m j pid ∧ subMod m j pid ≤ t)

/-- peers party `pid` receives shares from: `[(pid - t + j) % m for j in range(t)]` if pid in receivers -/
def outRecvs (m t pid : Nat) (receivers : List Nat) : List Nat :=
  if pid ∈ receivers then (List.range t).map (fun j => (pid + m - t % m + j) % m) else []

/-- x-coordinates used for recombination at a receiver: the t predecessors and itself -/
def outPoints (m t pid : Nat) : List Nat :=
  (List.range t).map (fun j => (pid + m - t % m + j) % m + 1) ++ [pid + 1]

/-! ### _reshare (runtime.py:658-679) -/

/-- the 2t+1 dealers: parties with (pid - uci) % m ≤ 2t send subshares to all others -/
def reshSends (m t pid uci : Nat) : List Nat :=
  if subMod m pid uci ≤ 2 * t then (List.range m).filter (· != pid) else []

/-- `for peer_pid in range(uci, uci + 2t+1): if peer_pid % m != pid: receive from peer_pid % m` -/
def reshRecvs (m t pid uci : Nat) : List Nat :=
  ((List.range (2 * t + 1)).map (fun k => (uci + k) % m)).filter (· != pid)

/-- x-coordinates recombined by party `pid`: received points in order, own point last if it is a dealer -/
def reshPoints (m t pid uci : Nat) : List Nat :=
  (((List.range (2 * t + 1)).map (fun k => (uci + k) % m)).filter (· != pid)).map (· + 1) ++
    (if subMod m pid uci ≤ 2 * t then [pid + 1] else [])

/-! ### _distribute (runtime.py:487-503) -/

/-- one batch of m-1 messages per occurrence of `pid` in `senders` -/
def distSends (m pid : Nat) (senders : List Nat) : List Nat :=
  (senders.filter (· == pid)).flatMap (fun _ => (List.range m).filter (· != pid))

def distRecvs (pid : Nat) (senders : List Nat) : List Nat := senders.filter (· != pid)

/-! ### transfer (runtime.py:366-396) -/

/-- bipartite form: `my_senders = senders if pid in receivers else []` -/
def transferMySenders (pid : Nat) (senders receivers : List Nat) : List Nat :=
  if pid ∈ receivers then senders else []

def transferMyReceivers (pid : Nat) (senders receivers : List Nat) : List Nat :=
  if pid ∈ senders then receivers else []

/-- graph given as list of arcs (a, b) -/
def arcsMySenders (pid : Nat) (arcs : List (Nat × Nat)) : List Nat :=
  (arcs.filter (fun e => e.2 == pid)).map (·.1)

def arcsMyReceivers (pid : Nat) (arcs : List (Nat × Nat)) : List Nat :=
  (arcs.filter (fun e => e.1 == pid)).map (·.2)

/-- graph given as dict node ↦ list of receivers (association list in dict order) -/
def dictMySenders (pid : Nat) (d : List (Nat × List Nat)) : List Nat :=
  (d.filter (fun e => pid ∈ e.2)).map (·.1)

def dictMyReceivers (pid : Nat) (d : List (Nat × List Nat)) : List Nat :=
  match d.find? (fun e => e.1 == pid) with
  | some e => e.2
  | none => []     -- the code raises KeyError here; the driver reports it as such

/-- messages actually put on the wire by `transfer`: to every designated receiver except oneself -/
def transferSends (pid : Nat) (myReceivers : List Nat) : List Nat := myReceivers.filter (· != pid)
/-- `_receive_message` calls made by `transfer`: one per designated sender except oneself, in order -/
def transferRecvs (pid : Nat) (mySenders : List Nat) : List Nat := mySenders.filter (· != pid)

/-- result of `transfer` at party `pid`: the objects of its designated senders, in sender order -/
def transferResult {α : Type} (obj : Nat → α) (mySenders : List Nat) : List α := mySenders.map obj

end MpycV.Comm
