/-
Executable model of `mpyc.finfields.ExtensionFieldElement` (namespace `MpycV.ExtF`, odd characteristic,
values are `gfpx.Polynomial` coefficient lists) and `BinaryFieldElement` (namespace `MpycV.BinF`, values are
`gfpx.BinaryPolynomial` bitmasks).  Core Lean only; polynomial arithmetic is the model of gfpx.py written by
area GFpX (`MpycV.GFpX`, `MpycV.BinPoly`).

An element is modelled by its attribute `value` (a reduced polynomial); the field is given by the
characteristic `p` and the modulus polynomial `m` (class attribute `modulus`).  Every operator reduces its result
modulo `m` exactly where the Python code does (`__init__` resp. `self.value %= self.modulus`).
The right operand is an element, an int or a polynomial (`_mix_types`, finfields.py:538); the Python code hands
all three to the `Polynomial` operators, whose `_coerce` (gfpx.py:73) turns an int into its base-p digits
(`_from_int`): `Opd.coerce`.
-/
import MpycV.Model.GFpX
import MpycV.Model.BinPoly
import MpycV.Model.PrimeF

namespace MpycV.ExtF

open MpycV.GFpX (Poly)
open MpycV.PrimeF (Err bitLength tz shl)

/-- map the errors of the polynomial layer to the common error type -/
def lift {α : Type} : Except GFpX.Err α → Except Err α
  | .ok v => .ok v
  | .error .zeroDivision => .error .zeroDivision
  | .error .value => .error .value

/-- right operand: element of the same field, Python int, or polynomial of the same `GFpX(p)` type -/
inductive Opd where
  | elem (v : Poly)
  | int (x : Int)
  | poly (v : Poly)
  deriving Repr

/-- ≙ gfpx.py:73-95 `Polynomial._coerce` on the operand the field code passes on -/
def Opd.coerce (p : Nat) : Opd → Poly
  | .elem v => v
  | .int x => GFpX.fromInt p x
  | .poly v => v

variable (p : Nat) (m : Poly)

/-- ≙ finfields.py:526 `order = p**d` -/
def order : Nat := p ^ (m.length - 1)

/-- ≙ finfields.py:540-544 `__init__`: `cls(cls._mod(cls(value).value, self.modulus.value), check=False)` -/
def mk (v : Poly) : Poly := GFpX.modCore p v m

/-- `F(x)` for a Python int `x` -/
def ofInt (x : Int) : Poly := mk p m (GFpX.fromInt p x)

/-- ≙ finfields.py:107-115 `__add__` / 117-122 `__radd__` (Polynomial `__add__ = __radd__`, gfpx.py:587-595) -/
def add (a o : Poly) : Poly := mk p m (GFpX.add p a o)
def radd (a o : Poly) : Poly := mk p m (GFpX.add p a o)
/-- ≙ finfields.py:124-133 `__iadd__`: `self.value += other; self.value %= self.modulus` -/
def iadd (a o : Poly) : Poly := GFpX.modCore p (GFpX.add p a o) m
/-- ≙ finfields.py:135-143 `__sub__` -/
def sub (a o : Poly) : Poly := mk p m (GFpX.sub p a o)
/-- ≙ finfields.py:145-150 `__rsub__`: `type(self)(other - self.value)` (gfpx.py:612 `__rsub__`) -/
def rsub (a o : Poly) : Poly := mk p m (GFpX.sub p o a)
/-- ≙ finfields.py:152-161 `__isub__` -/
def isub (a o : Poly) : Poly := GFpX.modCore p (GFpX.sub p a o) m
/-- ≙ finfields.py:163-165 `__neg__` -/
def neg (a : Poly) : Poly := mk p m (GFpX.neg p a)
/-- ≙ finfields.py:167-169 `__pos__` -/
def pos (a : Poly) : Poly := mk p m a
/-- ≙ finfields.py:171-179 `__mul__` / 181-186 `__rmul__` (gfpx.py:311 `_mul`; for `a is b` the code squares,
`GFpX.sq_eq_mul_self`) -/
def mul (a o : Poly) : Poly := mk p m (GFpX.mul p a o)
def rmul (a o : Poly) : Poly := mk p m (GFpX.mul p a o)
/-- ≙ finfields.py:188-197 `__imul__` -/
def imul (a o : Poly) : Poly := GFpX.modCore p (GFpX.mul p a o) m

/-- ≙ finfields.py:579-581 `_reciprocal(cls, a)`: `type(cls.modulus).invert(a, cls.modulus)` -/
def reciprocalRaw (o : Poly) : Except Err Poly := lift (GFpX.invert p o m)
/-- ≙ finfields.py:267-270 `reciprocal` -/
def reciprocal (a : Poly) : Except Err Poly := (reciprocalRaw p m a).map (mk p m)
/-- ≙ finfields.py:199-206 `__truediv__`: `self * type(self)._reciprocal(other)` -/
def truediv (a o : Poly) : Except Err Poly := (reciprocalRaw p m o).map (mul p m a)
/-- ≙ finfields.py:208-213 `__rtruediv__`: `self.reciprocal() * other` -/
def rtruediv (a o : Poly) : Except Err Poly := (reciprocal p m a).map (fun r => mul p m r o)
/-- ≙ finfields.py:215-224 `__itruediv__` -/
def itruediv (a o : Poly) : Except Err Poly :=
  (reciprocalRaw p m o).map (fun r => GFpX.modCore p (GFpX.mul p a r) m)

/-- ≙ finfields.py:558-563 `__pow__`: `type(self)(poly.powmod(self.value, other, self.modulus))` -/
def pow (a : Poly) (n : Int) : Except Err Poly := (lift (GFpX.powmod p a n (some m))).map (mk p m)

/-- ≙ gfpx.py:351-355 `_lshift` as Python evaluates it for any int `n`: `[0] * n + a` (`[0] * n = []` for `n < 0`) -/
def polyShl (a : Poly) (n : Int) : Poly := if n < 0 then a else GFpX.lshift a n.toNat

/-- ≙ finfields.py:230-235 `__lshift__`: `type(self)(self.value << other)`: a POLYNOMIAL shift (multiplication by X^n) -/
def lshift (a : Poly) (n : Int) : Poly := mk p m (polyShl a n)
/-- ≙ finfields.py:241-248 `__ilshift__` -/
def ilshift (a : Poly) (n : Int) : Poly := GFpX.modCore p (polyShl a n) m

/-- ≙ finfields.py:565-569 `__rshift__`: `self * self._reciprocal(1 << other)`: division by the field element of
the INTEGER `2**n` (ValueError from `1 << other` for negative `other`) -/
def rshift (a : Poly) (n : Int) : Except Err Poly :=
  match shl 1 n with
  | .error e => .error e
  | .ok v => (reciprocalRaw p m (GFpX.fromInt p v)).map (mul p m a)
/-- ≙ finfields.py:571-577 `__irshift__` -/
def irshift (a : Poly) (n : Int) : Except Err Poly :=
  match shl 1 n with
  | .error e => .error e
  | .ok v => (reciprocalRaw p m (GFpX.fromInt p v)).map (fun r => GFpX.modCore p (GFpX.mul p a r) m)

/-- ≙ finfields.py:291-299 `__eq__`: element: `self.value == other.value`; int/polynomial: `self.value == other % modulus` -/
def eq (a : Poly) : Opd → Bool
  | .elem v => a == v
  | .int x => a == GFpX.modCore p (GFpX.fromInt p x) m
  | .poly v => a == GFpX.modCore p v m
/-- ≙ finfields.py:301-303 `__hash__` / gfpx.py:836: hashed key `(field, tuple(value))` -/
def hashKey (a : Poly) : Nat × Poly × Poly := (p, m, a)
/-- ≙ finfields.py:305-311 `__bool__` -/
def toBool (a : Poly) : Bool := a != []
/-- ≙ finfields.py:555-556 `__int__`: `int(self.value)` (gfpx.py:156 `_to_int`) -/
def toInt (a : Poly) : Nat := GFpX.toInt p a

/-! ### square roots -/

/-- `a * b % modulus` on polynomials (gfpx `__mul__`, `__mod__`) -/
def mulMod (a b : Poly) : Poly := GFpX.modCore p (GFpX.mul p a b) m

def powm (a : Poly) (n : Int) : Except Err Poly := lift (GFpX.powmod p a n (some m))

/-- ≙ finfields.py:643-649 `_is_sqr`: `powmod(a, (q-1) >> 1, modulus) != [p - 1]` -/
def isSqr (a : Poly) : Except Err Bool :=
  let q := order p m
  if q % 2 = 0 then .ok true
  else (powm p m a (((q - 1) >>> 1 : Nat) : Int)).map (fun r => r != [p - 1])

/-- ≙ finfields.py:613-618 search for the least `i ≥ 2` with `powmod(z, 1 << s-1) != 1`, `z = powmod(i, t)`; with fuel -/
def findQnr (s t : Nat) : Nat → Nat → Except Err Poly
  | 0, _ => .error .fuel
  | fuel + 1, i =>
    match powm p m (GFpX.fromInt p (i : Int)) (t : Int) with
    | .error e => .error e
    | .ok z =>
      match shl 1 ((s : Int) - 1) with
      | .error e => .error e
      | .ok e2 =>
        match powm p m z e2 with
        | .error e => .error e
        | .ok r => if r != [1] then .ok z else findQnr s t fuel (i + 1)

/-- ≙ finfields.py:629-631 inner loop `while b2 != 1: b2 = b2 * b2 % modulus; k += 1`; returns `k`; with fuel -/
def orderLoop : Nat → Poly → Nat → Except Err Nat
  | 0, _, _ => .error .fuel
  | fuel + 1, b2, k => if b2 == [1] then .ok k else orderLoop fuel (mulMod p m b2 b2) (k + 1)

/-- ≙ finfields.py:626-636 outer loop of Tonelli–Shanks, state `(z, b, x, v)`; with fuel -/
def tsLoop (s : Nat) : Nat → Poly → Poly → Poly → Nat → Except Err Poly
  | 0, _, _, _, _ => .error .fuel
  | fuel + 1, z, b, x, v =>
    if b == [1] then .ok x
    else
      match orderLoop p m (s + 1) b 0 with
      | .error e => .error e
      | .ok k =>
        match shl 1 ((v : Int) - (k : Int) - 1) with      -- ValueError("negative shift count") for non-squares
        | .error e => .error e
        | .ok e2 =>
          match powm p m z e2 with
          | .error e => .error e
          | .ok w =>
            let z' := mulMod p m w w
            tsLoop s fuel z' (mulMod p m b z') (mulMod p m x w) k

/-- ≙ finfields.py:583-640 `ExtensionFieldElement._sqrt(cls, a, INV=False)` -/
def sqrtRaw (a : Poly) (inv : Bool) : Except Err Poly :=
  let q := order p m
  if a == [] then (if inv then .error .zeroDivision else .ok a)
  else if q % 2 = 0 then
    powm p m a (((if inv then (q >>> 1) - 1 else q >>> 1 : Nat)) : Int)
  else if q % 4 = 3 then
    powm p m a (((if inv then (q * 3 - 5) >>> 2 else (q + 1) >>> 2 : Nat)) : Int)
  else
    let n := q - 1
    let s := tz n
    let t := n >>> s
    match findQnr p m s t q 2 with
    | .error e => .error e
    | .ok z =>
      match powm p m a ((t >>> 1 : Nat) : Int) with
      | .error e => .error e
      | .ok w =>
        let x := mulMod p m a w
        let b := mulMod p m x w
        match tsLoop p m s (s + 1) z b x s with
        | .error e => .error e
        | .ok x => if inv then reciprocalRaw p m x else .ok x

/-- ≙ finfields.py:277-280 `sqrt` -/
def sqrt (a : Poly) (inv : Bool) : Except Err Poly := (sqrtRaw p m a inv).map (mk p m)

/-! ### serialisation -/

/-- ≙ finfields.py:527 `byte_length` -/
def byteLength : Nat := PrimeF.byteLength (order p m)

/-- ≙ finfields.py:94-98 `to_bytes` on a list of polynomial values: `v.to_bytes(r, 'little')` = `_to_int(v).to_bytes` (gfpx.py:138) -/
def toBytes (xs : List Poly) : Except Err (List Nat) :=
  PrimeF.toBytes (byteLength p m) (xs.map (fun v => ((GFpX.toInt p v : Nat) : Int)))

/-- ≙ finfields.py:100-105 `from_bytes` (ints), followed by `F(int)` for each -/
def fromBytes (data : List Nat) : Except Err (List Poly) :=
  (PrimeF.fromBytes (byteLength p m) data).map (fun l => l.map (fun (v : Nat) => ofInt p m (v : Int)))

/-- ≙ finfields.py:546-553 `__reduce__`/`createGF`: `xGF` is cached on the modulus polynomial (hash/eq by value):
the pickled data `(modulus, value)` rebuilds the same class -/
def reduce (a : Poly) : (Nat × Poly) × Poly := ((p, m), a)
def rebuild (d : (Nat × Poly) × Poly) : (Nat × Poly) × Poly := d

end MpycV.ExtF

/-! ## binary fields -/
namespace MpycV.BinF

open MpycV.PrimeF (Err shl)
open MpycV.ExtF (lift)

/-- right operand: element, Python int, or `BinaryPolynomial` -/
inductive Opd where
  | elem (v : Nat)
  | int (x : Int)
  | poly (v : Nat)
  deriving Repr

/-- ≙ gfpx.py:73 `_coerce` with gfpx.py:879 `_from_int(a) = abs(a)` -/
def Opd.coerce : Opd → Nat
  | .elem v => v
  | .int x => BinPoly.fromInt x
  | .poly v => v

variable (m : Nat)

/-- ≙ finfields.py:526 `order = 2**d` -/
def order : Nat := 2 ^ (BinPoly.bitLen m - 1)

def mk (v : Nat) : Nat := BinPoly.modCore v m
def ofInt (x : Int) : Nat := mk m (BinPoly.fromInt x)

def add (a o : Nat) : Nat := mk m (BinPoly.add a o)
def radd (a o : Nat) : Nat := mk m (BinPoly.add a o)
def iadd (a o : Nat) : Nat := BinPoly.modCore (BinPoly.add a o) m
def sub (a o : Nat) : Nat := mk m (BinPoly.sub a o)
def rsub (a o : Nat) : Nat := mk m (BinPoly.sub o a)
def isub (a o : Nat) : Nat := BinPoly.modCore (BinPoly.sub a o) m
def neg (a : Nat) : Nat := mk m (BinPoly.neg a)
def pos (a : Nat) : Nat := mk m a
def mul (a o : Nat) : Nat := mk m (BinPoly.mul a o)
def rmul (a o : Nat) : Nat := mk m (BinPoly.mul a o)
def imul (a o : Nat) : Nat := BinPoly.modCore (BinPoly.mul a o) m

def reciprocalRaw (o : Nat) : Except Err Nat := lift (BinPoly.invert o m)
def reciprocal (a : Nat) : Except Err Nat := (reciprocalRaw m a).map (mk m)
def truediv (a o : Nat) : Except Err Nat := (reciprocalRaw m o).map (mul m a)
def rtruediv (a o : Nat) : Except Err Nat := (reciprocal m a).map (fun r => mul m r o)
def itruediv (a o : Nat) : Except Err Nat :=
  (reciprocalRaw m o).map (fun r => BinPoly.modCore (BinPoly.mul a r) m)

def pow (a : Nat) (n : Int) : Except Err Nat := (lift (BinPoly.powmod a n (some m))).map (mk m)

/-- ≙ finfields.py:230-235 `__lshift__`: `self.value << other` is an int shift of the bitmask = multiplication by
`X^n = F(2)^n`; ValueError for negative `n` (gfpx.py:1018) -/
def lshift (a : Nat) (n : Int) : Except Err Nat :=
  if n < 0 then .error .value else .ok (mk m (BinPoly.lshift a n.toNat))
def ilshift (a : Nat) (n : Int) : Except Err Nat :=
  if n < 0 then .error .value else .ok (BinPoly.modCore (BinPoly.lshift a n.toNat) m)

/-- ≙ finfields.py:565-569 `__rshift__`: `self * self._reciprocal(1 << other)`; `_from_int(2**n) = 2**n = X^n` -/
def rshift (a : Nat) (n : Int) : Except Err Nat :=
  match shl 1 n with
  | .error e => .error e
  | .ok v => (reciprocalRaw m (BinPoly.fromInt v)).map (mul m a)
def irshift (a : Nat) (n : Int) : Except Err Nat :=
  match shl 1 n with
  | .error e => .error e
  | .ok v => (reciprocalRaw m (BinPoly.fromInt v)).map (fun r => BinPoly.modCore (BinPoly.mul a r) m)

def eq (a : Nat) : Opd → Bool
  | .elem v => a == v
  | .int x => a == BinPoly.modCore (BinPoly.fromInt x) m
  | .poly v => a == BinPoly.modCore v m
def hashKey (a : Nat) : Nat × Nat := (m, a)
def toBool (a : Nat) : Bool := a != 0
def toInt (a : Nat) : Nat := BinPoly.toInt a

/-- ≙ finfields.py:664-666 `BinaryFieldElement._is_sqr`: constantly True -/
def isSqr (_a : Nat) : Bool := true

/-- ≙ finfields.py:668-681 `BinaryFieldElement._sqrt`: `powmod(a, q/2 [- 1 if INV], modulus)` -/
def sqrtRaw (a : Nat) (inv : Bool) : Except Err Nat :=
  if a = 0 then (if inv then .error .zeroDivision else .ok a)
  else
    let q2 := order m >>> 1
    lift (BinPoly.powmod a (((if inv then q2 - 1 else q2 : Nat)) : Int) (some m))
def sqrt (a : Nat) (inv : Bool) : Except Err Nat := (sqrtRaw m a inv).map (mk m)

def byteLength : Nat := PrimeF.byteLength (order m)
def toBytes (xs : List Nat) : Except Err (List Nat) :=
  PrimeF.toBytes (byteLength m) (xs.map (fun v => ((BinPoly.toInt v : Nat) : Int)))
def fromBytes (data : List Nat) : Except Err (List Nat) :=
  (PrimeF.fromBytes (byteLength m) data).map (fun l => l.map (fun (v : Nat) => ofInt m (v : Int)))

end MpycV.BinF
