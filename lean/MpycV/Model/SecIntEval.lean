/-
M6b `SecIntEval`: PROTOCOL semantics of whole secure-integer programs (property C01, capstone).
Core Lean only (no Mathlib).

`MpycV.Model.SecInt` gives (a) one model per protocol (`sgnModel`, `lsbModel`, `modModel`, …) with NAMED
randomness and (b) the typed expression trees `Expr`/`ExprL` with their Python-integer meaning `evalSpec`.
This file composes (a) along (b): `evalProto` evaluates an expression by running, at every node, the model
of the protocol the operator overloading of sectypes.py / the functions of runtime.py dispatch to.

Randomness.  Every node of the tree draws its own random values.  A node is identified by its PATH
(`List Nat`, innermost child number first: child number `i` of the node at path `π` lives at `i :: π`;
element number `k` of an argument list evaluated for path `π` lives at `k :: π`); `ρ : List Nat → Rnd`
assigns to every path the record of random values the protocol instance at that node may draw.  No state
is threaded, so distinct nodes have distinct paths and the theorem `eval_correct`
(`MpycV.Lemmas.SecIntEval`) quantifies over ALL `ρ` whose records are in the declared ranges (`Good`).

≙ sectypes.py:149-350  operator overloading of `SecureInteger` (`__lt__ = lt(a,b)`, `__le__ = 1 - lt(b,a)`,
                       `__ge__ = 1 - lt(a,b)`, `__gt__ = lt(b,a)`, `__ne__ = 1 - eq`, `__and__ = a*b`,
                       `__or__ = a + b - a*b`, `__xor__ = a + b - 2*a*b`, `__invert__ = 1 - a`)
≙ runtime.py:1445-1469 `lt` (`sgn(a - b, LT=True)`), `eq` (`is_zero(a - b)`), `abs`, `is_zero`
≙ runtime.py:1827-1840 `mod` (`if b == 2: r = self.lsb(a) else: r = self._mod(a, b)`)
≙ sectypes.py:225-241  `__floordiv__`, `__divmod__`
-/
import MpycV.Model.SecInt

namespace MpycV.SecInt
open MpycV.Fxp (bitsVal)

/-- the random values ONE operator instance (one node of the expression tree) may draw.  Every operator
runs at most one randomised protocol instance (`abs`, `<`, `<=`, `>`, `>=`, `sgn`: one `sgn`; `==`, `!=`: one
`sgn(EQ=True)`; `% 2`, `lsb`: one `lsb`; `% b`, `// b`: one `_mod` (or one `lsb` for `b = 2`)), so one
set of values suffices. -/
structure Rnd where
  /-- `sgn`: the `l` random bits `r_bits` (little endian) -/
  bits : List Int
  /-- `sgn`: `r_divl` -/
  rdiv : Int
  /-- `sgn`, `_mod`: the random sign `s_sign` -/
  s : Int
  /-- `sgn`, `_mod`: the random factor of `is_zero_public` -/
  rz : Int
  /-- `lsb`: the random bit -/
  b : Int
  /-- `lsb`: the random high part -/
  r : Int
  /-- `_mod`: the bits of `r_modb` (their number, `(b-1).bit_length()`, depends on the public divisor) -/
  mbits : Int → List Int
  /-- `_mod`: `r_divb`, drawn from `range((1 << k+l) // b)`, as a function of the public divisor -/
  mdiv : Int → Int

/-- field modulus `p`, bit length `l` of the secure integer type, security parameter `k` -/
structure Cfg where
  p : Nat
  l : Nat
  k : Nat

/-- the ranges the code draws the random values from.
`mdiv d ≥ 2` excludes the wrap-around event of `_mod` (`C01.mod_correct`, hypothesis `hnw`: the masked value
is negative only if `r_divb ≤ 1` and `b > 2^(l-2)+1`, probability about `2b/2^(k+l)`);
`rz % p ≠ 0` excludes the failure event of `is_zero_public` (probability `1/p`, `C01.isZeroPublic_bad_event`). -/
structure Good (c : Cfg) (r : Rnd) : Prop where
  bits01 : ∀ x ∈ r.bits, x = 0 ∨ x = 1
  bitsLen : r.bits.length = c.l
  rdiv0 : 0 ≤ r.rdiv
  rdiv1 : r.rdiv < (2 : Int) ^ c.k
  sign : r.s = 1 ∨ r.s = -1
  rzNZ : r.rz % (c.p : Int) ≠ 0
  b01 : r.b = 0 ∨ r.b = 1
  r0 : 0 ≤ r.r
  r1 : r.r < (2 : Int) ^ (c.l + c.k - 1)
  modRnd : ∀ d : Int, 0 < d → d < (2 : Int) ^ c.l →
    (∀ x ∈ r.mbits d, x = 0 ∨ x = 1) ∧ bitsVal (r.mbits d) < d ∧ d ≤ (2 : Int) ^ (r.mbits d).length ∧
    (r.mbits d).length ≤ c.l ∧ 2 ≤ r.mdiv d ∧ d * r.mdiv d < (2 : Int) ^ (c.k + c.l)

/-! ### one protocol instance per operator -/

/-- `runtime.lt(a, b) = sgn(a - b, LT=True)` -/
def ltP (c : Cfg) (r : Rnd) (a b : Int) : Int := (sgnModel c.p c.l (a - b) r.bits r.rdiv r.s r.rz .lt).z

/-- `runtime.eq(a, b) = is_zero(a - b) = sgn(a - b, EQ=True)`.  (`is_zero` uses the probabilistic test
`_is_zero` [NO07] instead when `l/2 > k ≥ 8` and `p % 4 = 3`; that test is OUTSIDE this model, cf. the header
of `MpycV.Props.C01`.) -/
def eqP (c : Cfg) (r : Rnd) (a b : Int) : Int := (sgnModel c.p c.l (a - b) r.bits r.rdiv r.s r.rz .eq).z

/-- `runtime.lsb(a)` -/
def lsbP (c : Cfg) (r : Rnd) (a : Int) : Int := (lsbModel c.p c.l a r.b r.r).2

/-- `runtime.mod(a, b)` for a public `b > 0`: `if b == 2: r = self.lsb(a) else: r = self._mod(a, b)` -/
def modP (c : Cfg) (r : Rnd) (a b : Int) : Int :=
  if b = 2 then lsbP c r a else (modModel c.p c.l b a (r.mbits b) (r.mdiv b) r.s r.rz).r

def protoUn (c : Cfg) (r : Rnd) (op : UnOp) (a : Int) : Int :=
  match op with
  | .neg => -a
  | .pos => a
  | .abs => absModel a (sgnModel c.p c.l a r.bits r.rdiv r.s r.rz .lt).z
  | .sgn => (sgnModel c.p c.l a r.bits r.rdiv r.s r.rz .full).z
  | .lsb => lsbP c r a
  | .not => 1 - a

def protoBin (c : Cfg) (r : Rnd) (op : BinOp) (a b : Int) : Int :=
  match op with
  | .add => a + b
  | .sub => a - b
  | .mul => a * b
  | .lt => ltP c r a b
  | .le => 1 - ltP c r b a
  | .eq => eqP c r a b
  | .ne => 1 - eqP c r a b
  | .ge => 1 - ltP c r a b
  | .gt => ltP c r b a
  | .and => a * b
  | .or => a + b - a * b
  | .xor => a + b - 2 * a * b

/-- `a % b`, `a // b` for a public `b > 0`: `r = mod(a, b)`, `q = (a - r) * reciprocal(b)` -/
def protoDiv (c : Cfg) (r : Rnd) (op : DivOp) (a b : Int) : Int :=
  match op with
  | .mod => modP c r a b
  | .floordiv => (divmodModel c.p a b (modP c r a b)).1

/-- the n-ary operations.  `min`/`max`/`min_max` are the tournaments of runtime.py:1563-1628 whose
comparisons `key(a) < key(b)` are `sgn(a - b, LT=True)` instances: their exactness for every randomness is
`C01.sgn_lt`, which justifies using their meaning `ltI` inside `minModel`/`maxModel`/`minMaxModel` here (as in
`MpycV.Model.SecInt`). -/
def protoN (op : NOp) (vs : List Int) : Option Int :=
  match op with
  | .sum => some (sumI vs)
  | .prod => some (prodTree vs)
  | .all => some (allTree vs)
  | .any => some (anyModel vs)
  | .min => minModel vs
  | .max => maxModel vs
  | .minmax0 => (minMaxModel vs).map (fun ab => ab.1)
  | .minmax1 => (minMaxModel vs).map (fun ab => ab.2)

/-- entry `(i, j)` of `matrix_prod(A, B, tr)`; `sym`: the call `matrix_prod(A, A, True)` (`A is B`), which
computes the lower triangle only -/
def protoMat (av bv : List Int) (n1 n n2 : Nat) (tr sym : Bool) (i j : Nat) : Int :=
  let Am := rowsOf n1 n av
  if sym then ((matrixProdSym Am).getD i []).getD j 0
  else ((matrixProd Am (if tr then rowsOf n2 n bv else rowsOf n n2 bv) tr).getD i []).getD j 0

/-! ### protocol evaluation -/

mutual
/-- protocol semantics of an expression at path `π`.  Ring operations act on representatives (as in all
models of `MpycV.Model.SecInt`); every protocol model returns its result normalised (`Fxp.norm p`), i.e. as
the signed integer the resulting field element stands for.  `gop` (gcd family) is not covered: those
protocols are modelled at integer level with their own `_partial` theorems (`MpycV.Props.C01`). -/
def evalProto (c : Cfg) (ρ : List Nat → Rnd) (env : List Int) : List Nat → Expr → Option Int
  | _, .var i => env[i]?
  | _, .const n => some n
  | π, .un op e => (evalProto c ρ env (0 :: π) e).map (protoUn c (ρ π) op)
  | π, .bin op a b => do
      let x ← evalProto c ρ env (0 :: π) a
      let y ← evalProto c ρ env (1 :: π) b
      pure (protoBin c (ρ π) op x y)
  | π, .pdiv op a b => do
      let x ← evalProto c ρ env (0 :: π) a
      if b ≤ 0 then none
      else pure (protoDiv c (ρ π) op x b)
  | π, .pow a n => (evalProto c ρ env (0 :: π) a).map (fun x => powModel x n)
  | π, .ifelse cc x y => do
      let cv ← evalProto c ρ env (0 :: π) cc
      let xv ← evalProto c ρ env (1 :: π) x
      let yv ← evalProto c ρ env (2 :: π) y
      pure (ifElse cv xv yv)
  | π, .ifswap second cc x y => do
      let cv ← evalProto c ρ env (0 :: π) cc
      let xv ← evalProto c ρ env (1 :: π) x
      let yv ← evalProto c ρ env (2 :: π) y
      pure (if second then (ifSwap cv xv yv).2 else (ifSwap cv xv yv).1)
  | π, .nary op xs => do
      let vs ← evalProtoL c ρ env π 0 xs
      protoN op vs
  | π, .inprod xs ys => do
      let us ← evalProtoL c ρ env (0 :: π) 0 xs
      let vs ← evalProtoL c ρ env (1 :: π) 0 ys
      if us.length = vs.length then pure (dot us vs) else none
  | π, .matprod A B n1 n n2 tr sym i j => do
      let av ← evalProtoL c ρ env (0 :: π) 0 A
      let bv ← evalProtoL c ρ env (1 :: π) 0 B
      if i < n1 ∧ j < (if sym then n1 else n2) then pure (protoMat av bv n1 n n2 tr sym i j)
      else none
  | _, .gop _ _ _ => none
/-- the elements of an argument list for path `π`; `k` = number of the next element -/
def evalProtoL (c : Cfg) (ρ : List Nat → Rnd) (env : List Int) : List Nat → Nat → ExprL → Option (List Int)
  | _, _, .nil => some []
  | π, k, .cons e es => do
      let v ← evalProto c ρ env (k :: π) e
      let vs ← evalProtoL c ρ env π (k + 1) es
      pure (v :: vs)
end

/-! ### the fragment covered and the range hypothesis -/

mutual
/-- no `gop` node anywhere -/
def Supported : Expr → Prop
  | .var _ => True
  | .const _ => True
  | .un _ e => Supported e
  | .bin _ a b => Supported a ∧ Supported b
  | .pdiv _ a _ => Supported a
  | .pow a _ => Supported a
  | .ifelse cc x y => Supported cc ∧ Supported x ∧ Supported y
  | .ifswap _ cc x y => Supported cc ∧ Supported x ∧ Supported y
  | .nary _ xs => SupportedL xs
  | .inprod xs ys => SupportedL xs ∧ SupportedL ys
  | .matprod A B _ _ _ _ _ _ _ => SupportedL A ∧ SupportedL B
  | .gop _ _ _ => False
def SupportedL : ExprL → Prop
  | .nil => True
  | .cons e es => Supported e ∧ SupportedL es
end

/-- `v` is an `l`-bit two's complement number -/
def RangeOk (l : Nat) (v : Int) : Prop := -(2 : Int) ^ (l - 1) ≤ v ∧ v < (2 : Int) ^ (l - 1)

instance (l : Nat) (v : Int) : Decidable (RangeOk l v) := by unfold RangeOk; exact inferInstance

/-- the value of `e` (if it has one) is an `l`-bit number -/
def ValOk (l : Nat) (env : List Int) (e : Expr) : Prop := ∀ v, evalSpec env e = some v → RangeOk l v

mutual
/-- the value of EVERY subterm is an `l`-bit number, every public divisor `b` satisfies `0 < b < 2^l`, and the
arguments of `all`/`any` are bits (the precondition of runtime.all/any: "elements of x are assumed to be bits").
Values INSIDE an operation (partial products of `prod`/`pow`, partial sums of `in_prod`, `c*(x-y)` in
`if_else`) are not constrained: they are ring operations on field elements, only their result matters. -/
def InRange (l : Nat) (env : List Int) : Expr → Prop
  | .var i => ValOk l env (.var i)
  | .const n => ValOk l env (.const n)
  | .un op e => ValOk l env (.un op e) ∧ InRange l env e
  | .bin op a b => ValOk l env (.bin op a b) ∧ InRange l env a ∧ InRange l env b
  | .pdiv op a b => ValOk l env (.pdiv op a b) ∧ InRange l env a ∧ 0 < b ∧ b < (2 : Int) ^ l
  | .pow a n => ValOk l env (.pow a n) ∧ InRange l env a
  | .ifelse cc x y => ValOk l env (.ifelse cc x y) ∧ InRange l env cc ∧ InRange l env x ∧ InRange l env y
  | .ifswap s cc x y =>
      ValOk l env (.ifswap s cc x y) ∧ InRange l env cc ∧ InRange l env x ∧ InRange l env y
  | .nary op xs => ValOk l env (.nary op xs) ∧ InRangeL l env xs ∧
      ((op = .all ∨ op = .any) → ∀ vs, evalSpecL env xs = some vs → ∀ x ∈ vs, x = 0 ∨ x = 1)
  | .inprod xs ys => ValOk l env (.inprod xs ys) ∧ InRangeL l env xs ∧ InRangeL l env ys
  | .matprod A B n1 n n2 tr sym i j =>
      ValOk l env (.matprod A B n1 n n2 tr sym i j) ∧ InRangeL l env A ∧ InRangeL l env B
  | .gop op a b => ValOk l env (.gop op a b) ∧ InRange l env a ∧ InRange l env b
def InRangeL (l : Nat) (env : List Int) : ExprL → Prop
  | .nil => True
  | .cons e es => InRange l env e ∧ InRangeL l env es
end

end MpycV.SecInt
