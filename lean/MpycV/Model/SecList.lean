/-
Value-layer model of `mpyc/seclists.py` (class `seclist`, class `secindex`), core Lean only.

State of a secure list = `List Int`: the secret contents (for `secfxp` elements the *scaled* integers
`A = x * 2^f`; bits, counts and indices are plain integers).  Every secret-index operation is transcribed
the way the code computes it (inner products with unit vectors, step-function shifting, the `_norm` scan,
the `find` recursion); the runtime primitives it calls are the exact integer functions they compute
(share layer / comparison protocols: C01, C11, C30).  Public-index and slice operations are delegated by
the code to Python's `list`; they are modelled by `Py.*` (CPython list semantics transcribed).

Out-of-range secret indices: Python raises IndexError, oblivious code cannot.  What the code computes
instead is what the definitions below compute for an arbitrary index vector `u` (a linear combination /
a shifted blend of the entries); see `unitVector` for what a secret number outside `0..n-1` becomes.
-/
namespace MpycV.SecList

/-! ## runtime primitives at the value layer (runtime.py) -/

/-- `runtime.in_prod(x, y)`: `sum(a*b for a, b in zip(x, y))`, `0` for `x == []`  ≙ runtime.py:2046-2075 -/
def inProd : List Int → List Int → Int
  | a :: x, b :: y => a * b + inProd x y
  | _, _ => 0

/-- `runtime.vector_add`  ≙ runtime.py:2227 (equal lengths in all uses) -/
def vectorAdd (x y : List Int) : List Int := List.zipWith (· + ·) x y
/-- `runtime.vector_sub`  ≙ runtime.py:2248 -/
def vectorSub (x y : List Int) : List Int := List.zipWith (· - ·) x y
/-- `runtime.schur_prod`  ≙ runtime.py:2391 -/
def schurProd (x y : List Int) : List Int := List.zipWith (· * ·) x y
/-- `runtime.scalar_mul(a, x)`  ≙ runtime.py:2293 -/
def scalarMul (a : Int) (x : List Int) : List Int := x.map (a * ·)
/-- `runtime.sum(x)` (start = 0)  ≙ runtime.py:2025 -/
def sum : List Int → Int
  | [] => 0
  | a :: x => a + sum x
/-- `a == b` on secure numbers: the bit `[a = b]` -/
def eqBit (a b : Int) : Int := if a = b then 1 else 0
/-- `a != b` on secure numbers: the bit `[a ≠ b]` -/
def neBit (a b : Int) : Int := if a = b then 0 else 1
/-- `runtime.sgn(a)` ∈ {-1, 0, 1}  ≙ runtime.py:1502 -/
def sgn (a : Int) : Int := if a < 0 then -1 else if a = 0 then 0 else 1
/-- `runtime.if_else(c, x, y) = c*(x - y) + y`  ≙ runtime.py:2339-2351 (scalar and list version) -/
def ifElse (c x y : Int) : Int := c * (x - y) + y
/-- `runtime.all(x)` on bits: the product (tree of multiplications), `1` for `[]`  ≙ runtime.py:2134 -/
def allBits : List Int → Int
  | [] => 1
  | a :: x => a * allBits x

/-- the in-place loop `for j in range(1, len(i)): i[j] += i[j-1]`  ≙ seclists.py:160-161, 238-239 -/
def prefixFrom (acc : Int) : List Int → List Int
  | [] => []
  | a :: l => (acc + a) :: prefixFrom (acc + a) l
def prefixSums (l : List Int) : List Int := prefixFrom 0 l

/-! ### `runtime.unit_vector(a, n)`  ≙ runtime.py:4977-4997 -/

/-- Python `int.bit_length()` of `|b|` -/
def natBitLen (m : Nat) : Nat := if m = 0 then 0 else Nat.log2 m + 1
def bitLen (b : Int) : Nat := natBitLen b.natAbs

/-- `(b >> i) & 1` for a Python int `b` (two's complement for negative `b`);
also bit `i` of `to_bits(a, k)` for `i < k` (the low `k` bits of `a`, runtime.py:4337) -/
def bitAt (b : Int) (i : Nat) : Int := (b / 2 ^ i) % 2

/-- `u.extend(c for _ in zip(w, v) for c in _)` -/
def interleave : List Int → List Int → List Int
  | a :: w, b :: v => a :: b :: interleave w v
  | _, _ => []

/-- one round of the loop body for bit `xi = x[i]` -/
def uvStep (b : Int) (xi : Int) (i : Nat) (u : List Int) : List Int :=
  let v := scalarMul xi u                -- v = x[i] * u
  let w := vectorSub u v                 -- w = (1-x[i]) * u
  let u' := (xi - sum v) :: interleave w v
  if bitAt b i = 0 then u'.dropLast else u'      -- `if not (b >> i) & 1: u.pop()`

/-- `for i in range(k-1, -1, -1)` -/
def uvLoop (b a : Int) : Nat → List Int → List Int
  | 0, u => u
  | i + 1, u => uvLoop b a i (uvStep b (bitAt a i) i u)

/-- `unit_vector(a, n)`.  For `0 ≤ a < n` this is `e_a` (`unitVector_spec`).  Otherwise only the low
`k = (n-1).bit_length()` bits of `a` are used (`a = n` gives `e_0` when `n` is a power of two, as the
docstring notes); `n = 0` gives the length-2 vector `[1 - a%2, a%2]` (so every use raises IndexError). -/
def unitVector (a : Int) (n : Nat) : List Int :=
  let b : Int := (n : Int) - 1
  let u := uvLoop b a (bitLen b) []
  (1 - sum u) :: u

/-- the unit vector `[0]*p + [1] + [0]*(n-1-p)` (all zero if `p ≥ n`) -/
def unitVec (p n : Nat) : List Int := (List.range n).map (fun j => if j = p then 1 else 0)

/-! ### `runtime.find(x, a, bits=False, e=-1)`  ≙ runtime.py:4486-4598 (default `f`, `cs_f(b, i) = i + b`) -/

/-- `cl(i, j)` on the sublist `l = x[i:j]` with `off = i`: returns `(nf, ix)` -/
def findCl (off : Int) (l : List Int) : Int × Int :=
  if l.length < 2 then
    match l with
    | [] => (1, off)                         -- not reached: `cl` is only called on non-empty ranges
    | b :: _ => (b, off + b)                 -- `[b] + cs_f(b, i)`
  else
    let r0 := findCl off (l.take (l.length / 2))                       -- nf = cl(i, h)
    let r1 := findCl (off + (l.length / 2 : Nat)) (l.drop (l.length / 2))   -- cl(h, j)
    (ifElse r0.1 r1.1 r0.1, ifElse r0.1 r1.2 r0.2)                     -- if_else(nf[0], cl(h, j), nf)
termination_by l.length
decreasing_by
  · simp only [List.length_take]; omega
  · simp only [List.length_drop]; omega

/-- `runtime.find(x, a, bits=False, e=-1)` for non-empty `x` -/
def rtFind (x : List Int) (a : Int) : Int :=
  let r := findCl 0 (x.map (fun b => neBit b a))      -- x = [b != a for b in x]
  ifElse r.1 (-1) r.2                                  -- y = if_else(nf, f(e), f_ix)

/-! ## Python list semantics used by the public-key paths (`super().__getitem__` etc.) -/
namespace Py

inductive Err | IndexError | ValueError | TypeError
  deriving DecidableEq, Repr

/-- normalise a public index: `i + n` for negative `i`; `none` ≙ IndexError -/
def normIdx (i : Int) (n : Nat) : Option Nat :=
  let j := if i < 0 then i + n else i
  if 0 ≤ j ∧ j < n then some j.toNat else none

/-- `list.insert` position: negative indices are shifted by `n`, then clamped to `0..n` -/
def clampIdx (i : Int) (n : Nat) : Nat :=
  let j := if i < 0 then i + n else i
  if j < 0 then 0 else if j > n then n else j.toNat

structure Slice where
  start : Option Int
  stop : Option Int
  step : Option Int
  deriving DecidableEq, Repr

/-- `slice.indices(n)`: `(start, stop, step)`; `none` ≙ ValueError (step 0) -/
def sliceIndices (s : Slice) (n : Nat) : Option (Int × Int × Int) :=
  let step := s.step.getD 1
  if step = 0 then none else
  let lo : Int := if step < 0 then -1 else 0
  let hi : Int := if step < 0 then (n : Int) - 1 else n
  let fix (v : Int) : Int := if v < 0 then max (v + n) lo else min v hi
  let start := match s.start with | none => (if step < 0 then hi else lo) | some v => fix v
  let stop := match s.stop with | none => (if step < 0 then lo else hi) | some v => fix v
  some (start, stop, step)

/-- `len(range(start, stop, step))` -/
def rangeLen (start stop step : Int) : Nat :=
  if step > 0 then (if start < stop then ((stop - start - 1) / step + 1).toNat else 0)
  else (if stop < start then ((start - stop - 1) / (-step) + 1).toNat else 0)

/-- `list(range(start, stop, step))` (all entries are valid positions for slice indices) -/
def rangeList (start stop step : Int) : List Nat :=
  (List.range (rangeLen start stop step)).map (fun (k : Nat) => (start + (k : Int) * step).toNat)

/-- delete the positions in `idx` -/
def delIdxs (x : List Int) (idx : List Nat) : List Int :=
  ((List.range x.length).filter (fun j => !idx.contains j)).map (fun j => x.getD j 0)

/-- assign `vs[k]` to position `idx[k]` -/
def setIdxs : List Int → List Nat → List Int → List Int
  | x, i :: idx, v :: vs => setIdxs (x.set i v) idx vs
  | x, _, _ => x

/-- insertion sort: the ascending arrangement of an integer list (`sorted(x)`) -/
def insertSorted (a : Int) : List Int → List Int
  | [] => [a]
  | b :: l => if a ≤ b then a :: b :: l else b :: insertSorted a l
def isort : List Int → List Int
  | [] => []
  | a :: l => insertSorted a (isort l)

/-- `x * n` -/
def repeatList (x : List Int) : Nat → List Int
  | 0 => []
  | k + 1 => x ++ repeatList x k

end Py
open Py

/-! ## operations of `seclist` -/

inductive Res
  | none                      -- returns None
  | val (v : Int)             -- a number (secret, or public for `contains` on an empty list)
  | lst (l : List Int)        -- a new secure list
  | err (e : Err)
  deriving DecidableEq, Repr

/-- key argument: public int, secret number of the list's sectype, or a unary index
(`secindex(value=u, offset=off)`, or a plain list of secure numbers: `off = 0`) -/
inductive Key
  | pub (i : Int)
  | sec (a : Int)                  -- scaled value `a` (for secfxp: the number is `a / 2^f`)
  | vec (off : Nat) (u : List Int)
  deriving DecidableEq, Repr

inductive CmpOp | lt | le | eq | ge | gt | ne
  deriving DecidableEq, Repr

inductive Op
  | getitem (k : Key) | getslice (s : Slice)
  | setitem (k : Key) (v : Int) | setslice (s : Slice) (vs : List Int)
  | delitem (k : Key) | delslice (s : Slice)
  | insert (k : Key) (v : Int) | pop (k : Key)
  | append (v : Int) | extend (vs : List Int)
  | add (vs : List Int) | radd (vs : List Int) | mul (n : Int) | imul (n : Int) | copy
  | count (v : Int) | contains (v : Int) | find (v : Int) | index (v : Int) | remove (v : Int)
  | sort (reverse : Bool) | cmp (o : CmpOp) (other : List Int)
  deriving DecidableEq, Repr

/-- the secret index vector `i` computed from a non-public key for a target length `n`
(seclists.py:85-90 and the same lines in the other methods); `unit_vector` raises ValueError for a
non-integral fixed-point number (flag semantics: the flag of a freshly converted number) -/
def keyVec (f : Nat) (k : Key) (n : Nat) : Except Err (List Int) :=
  match k with
  | .pub _ => .error Err.TypeError                -- not used: public keys take the `list` path
  | .sec a => if a % 2 ^ f = 0 then .ok (unitVector (a / 2 ^ f) n) else .error Err.ValueError
  | .vec off u => .ok (List.replicate off 0 ++ u)

/-- secret read: `runtime.in_prod(list(self), i)`  ≙ seclists.py:91-95 -/
def getVec (x i : List Int) : Except Err Int :=
  if i.length ≠ x.length then .error Err.IndexError else .ok (inProd x i)

/-- secret write  ≙ seclists.py:129-136 -/
def setVec (x i : List Int) (v : Int) : Except Err (List Int) :=
  if i.length ≠ x.length then .error Err.IndexError else
  let x_i := inProd x i
  .ok (vectorAdd x (scalarMul (v - x_i) i))

/-- secret delete  ≙ seclists.py:148-168 (`i.pop()` on an empty list is also IndexError) -/
def delVec (x i : List Int) : Except Err (List Int) :=
  if i = [] then .error Err.IndexError else
  let i := i.dropLast                                   -- i.pop()
  if i.length + 1 ≠ x.length then .error Err.IndexError else   -- len(i) != n-1
  let i := prefixSums i                                 -- step function
  let x1 := x.drop 1
  let x0 := x.dropLast                                  -- x.pop()
  let delta := schurProd i (vectorSub x1 x0)
  .ok (vectorAdd x0 delta)

/-- secret insert  ≙ seclists.py:227-243 -/
def insVec (x i : List Int) (v : Int) : Except Err (List Int) :=
  if i.length ≠ x.length + 1 then .error Err.IndexError else
  let xz := 0 :: x                                      -- x.insert(0, zero)
  let x_i := inProd xz i
  let y := vectorAdd xz (scalarMul (v - x_i) i)
  let x' := x ++ [0]                                    -- x.pop(0); x.append(zero)
  let i := prefixSums i
  let delta := schurProd i (vectorSub y x')
  .ok (vectorAdd x' delta)

/-- secret pop  ≙ seclists.py:262-268 -/
def popVec (x i : List Int) : Except Err (Int × List Int) :=
  if i.length ≠ x.length then .error Err.IndexError else
  let x_i := inProd x i
  match delVec x i with
  | .ok x' => .ok (x_i, x')
  | .error e => .error e

/-- `count`  ≙ seclists.py:300-302 -/
def count (x : List Int) (v : Int) : Int := sum (x.map (fun a => eqBit a v))
/-- `contains`: `count != 0`  ≙ seclists.py:296-298 -/
def contains (x : List Int) (v : Int) : Int := neBit (count x v) 0
/-- `find`  ≙ seclists.py:304-313 -/
def find (x : List Int) (v : Int) : Int := if x = [] then -1 else rtFind x v
/-- `index` = `runtime.indexOf`  ≙ runtime.py:4699-4714: the outcome of `eq_public(ix, -1)` is PUBLIC -/
def index (x : List Int) (v : Int) : Except Err Int :=
  if x = [] then .error Err.ValueError else
  let ix := rtFind x v
  if ix = -1 then .error Err.ValueError else .ok ix
/-- `remove`  ≙ seclists.py:270-280: public test `find(value) == -1`, then `__delitem__(i)` with the
secret number `i` (a value of the list's sectype, integral) -/
def remove (x : List Int) (v : Int) : Except Err (List Int) :=
  let i := find x v
  if i = -1 then .error Err.ValueError else delVec x (unitVector i x.length)

/-- `_norm(stype, x, x2, EQ)`  ≙ seclists.py:337-352; returns `(lte, nz)`.
Division by `field(2)` is exact: `x2 ∓ x = x*x ∓ x` is even. -/
def norm (EQ : Bool) (x x2 : List Int) : Int × Int :=
  if x.length < 2 then
    match x, x2 with
    | a :: _, a2 :: _ => (if EQ then 1 - (a2 + a) / 2 else (a2 - a) / 2, a2)
    | _, _ => (0, 0)                                   -- not reached (n ≥ 1, len(x2) = len(x))
  else
    let r0 := norm EQ (x.take (x.length / 2)) (x2.take (x.length / 2))   -- low positions
    let r1 := norm EQ (x.drop (x.length / 2)) (x2.drop (x.length / 2))   -- high positions
    (ifElse r0.2 r0.1 r1.1, ifElse r0.2 r0.2 r1.2)     -- if_else(nz0, [lte0, nz0], [lte1, nz1])
termination_by x.length
decreasing_by
  · simp only [List.length_take]; omega
  · simp only [List.length_drop]; omega

/-- `_less_than(stype, x, y)`  ≙ seclists.py:354-362 -/
def lessThan (x y : List Int) : Int :=
  let s := List.zipWith (fun a b => sgn (a - b)) x y
  if s = [] then (if y = [] then 0 else 1)              -- stype(bool(y))
  else (norm (decide (x.length < y.length)) s (schurProd s s)).1

/-- `__eq__`  ≙ seclists.py:370-374 -/
def listEq (x y : List Int) : Int :=
  if x.length ≠ y.length then 0 else allBits (List.zipWith eqBit x y)

/-- the six comparison operators  ≙ seclists.py:364-383 -/
def cmp (o : CmpOp) (x y : List Int) : Int :=
  match o with
  | .lt => lessThan x y
  | .le => 1 - lessThan y x
  | .eq => listEq x y
  | .ge => 1 - lessThan x y
  | .gt => lessThan y x
  | .ne => 1 - listEq x y

/-- `sort(reverse)`  ≙ seclists.py:322-335; `srt` is `runtime._sort` on a list of length ≥ 2 (C29) -/
def sortOp (srt : List Int → List Int) (x : List Int) (reverse : Bool) : List Int :=
  if x.length < 2 then x else
  let y := srt x
  if reverse then y.reverse else y

/-- configuration: fractional bits of the element type (0 for secint) and the `_sort` primitive -/
structure Cfg where
  f : Nat
  srt : List Int → List Int

/-- lift an `Except` outcome to `(result, new state)`; errors leave the list unchanged -/
def upd (x : List Int) : Except Err (List Int) → Res × List Int
  | .ok x' => (Res.none, x')
  | .error e => (Res.err e, x)

def ret (x : List Int) : Except Err Int → Res × List Int
  | .ok v => (Res.val v, x)
  | .error e => (Res.err e, x)

/-- one operation on a secure list with contents `x`: `(result, new contents)` -/
def step (cfg : Cfg) (x : List Int) : Op → Res × List Int
  | .getitem (.pub i) =>
      match normIdx i x.length with
      | some j => (Res.val (x.getD j 0), x)
      | none => (Res.err Err.IndexError, x)
  | .getitem k => ret x (keyVec cfg.f k x.length >>= getVec x)
  | .getslice s =>
      match sliceIndices s x.length with
      | some (a, b, c) => (Res.lst ((rangeList a b c).map (fun j => x.getD j 0)), x)
      | none => (Res.err Err.ValueError, x)
  | .setitem (.pub i) v =>
      match normIdx i x.length with
      | some j => (Res.none, x.set j v)
      | none => (Res.err Err.IndexError, x)
  | .setitem k v => upd x (keyVec cfg.f k x.length >>= fun i => setVec x i v)
  | .setslice s vs =>
      match sliceIndices s x.length with
      | some (a, b, c) =>
          if c = 1 then (Res.none, x.take a.toNat ++ vs ++ x.drop (max a b).toNat)
          else if vs.length ≠ rangeLen a b c then (Res.err Err.ValueError, x)
          else (Res.none, setIdxs x (rangeList a b c) vs)
      | none => (Res.err Err.ValueError, x)
  | .delitem (.pub i) =>
      match normIdx i x.length with
      | some j => (Res.none, x.eraseIdx j)
      | none => (Res.err Err.IndexError, x)
  | .delitem k => upd x (keyVec cfg.f k x.length >>= delVec x)
  | .delslice s =>
      match sliceIndices s x.length with
      | some (a, b, c) => (Res.none, delIdxs x (rangeList a b c))
      | none => (Res.err Err.ValueError, x)
  | .insert (.pub i) v => (Res.none, x.insertIdx (clampIdx i x.length) v)
  | .insert k v => upd x (keyVec cfg.f k (x.length + 1) >>= fun i => insVec x i v)
  | .pop (.pub i) =>
      match normIdx i x.length with
      | some j => (Res.val (x.getD j 0), x.eraseIdx j)
      | none => (Res.err Err.IndexError, x)
  | .pop k =>
      match keyVec cfg.f k x.length >>= popVec x with
      | .ok (v, x') => (Res.val v, x')
      | .error e => (Res.err e, x)
  | .append v => (Res.none, x ++ [v])
  | .extend vs => (Res.none, x ++ vs)
  | .add vs => (Res.lst (x ++ vs), x)
  | .radd vs => (Res.lst (vs ++ x), x)
  | .mul n => (Res.lst (repeatList x n.toNat), x)
  | .imul n => (Res.none, repeatList x n.toNat)
  | .copy => (Res.lst x, x)
  | .count v => (Res.val (count x v), x)
  | .contains v => (Res.val (contains x v), x)
  | .find v => (Res.val (find x v), x)
  | .index v => ret x (index x v)
  | .remove v => upd x (remove x v)
  | .sort r => (Res.none, sortOp cfg.srt x r)
  | .cmp o y => (Res.val (cmp o x y), x)

/-- run a history: results of all steps and the final contents -/
def run (stp : List Int → Op → Res × List Int) : List Int → List Op → List Res × List Int
  | x, [] => ([], x)
  | x, op :: ops =>
    let r := stp x op
    let rest := run stp r.2 ops
    (r.1 :: rest.1, rest.2)

/-! ## the Python-list reference semantics of the same operations -/

/-- the position a key denotes (meaningful under `Guard`) -/
def Key.idx (f : Nat) : Key → Int
  | .pub i => i
  | .sec a => a / 2 ^ f
  | .vec off u => (List.replicate off 0 ++ u).idxOf 1

/-- `x.index(v)` or `-1` -/
def pyFind (x : List Int) (v : Int) : Int := if v ∈ x then (x.idxOf v : Nat) else -1

def pyCmp (o : CmpOp) (x y : List Int) : Bool :=
  match o with
  | .lt => decide (x < y)
  | .le => !decide (y < x)
  | .eq => decide (x = y)
  | .ge => !decide (x < y)
  | .gt => decide (y < x)
  | .ne => !decide (x = y)

/-- what a Python list does, every key taken as the public position it denotes -/
def pyStep (f : Nat) (x : List Int) : Op → Res × List Int
  | .getitem k =>
      match normIdx (k.idx f) x.length with
      | some j => (Res.val (x.getD j 0), x)
      | none => (Res.err Err.IndexError, x)
  | .setitem k v =>
      match normIdx (k.idx f) x.length with
      | some j => (Res.none, x.set j v)
      | none => (Res.err Err.IndexError, x)
  | .delitem k =>
      match normIdx (k.idx f) x.length with
      | some j => (Res.none, x.eraseIdx j)
      | none => (Res.err Err.IndexError, x)
  | .insert k v => (Res.none, x.insertIdx (clampIdx (k.idx f) x.length) v)
  | .pop k =>
      match normIdx (k.idx f) x.length with
      | some j => (Res.val (x.getD j 0), x.eraseIdx j)
      | none => (Res.err Err.IndexError, x)
  | .getslice s =>
      match sliceIndices s x.length with
      | some (a, b, c) => (Res.lst ((rangeList a b c).map (fun j => x.getD j 0)), x)
      | none => (Res.err Err.ValueError, x)
  | .setslice s vs =>
      match sliceIndices s x.length with
      | some (a, b, c) =>
          if c = 1 then (Res.none, x.take a.toNat ++ vs ++ x.drop (max a b).toNat)
          else if vs.length ≠ rangeLen a b c then (Res.err Err.ValueError, x)
          else (Res.none, setIdxs x (rangeList a b c) vs)
      | none => (Res.err Err.ValueError, x)
  | .delslice s =>
      match sliceIndices s x.length with
      | some (a, b, c) => (Res.none, delIdxs x (rangeList a b c))
      | none => (Res.err Err.ValueError, x)
  | .append v => (Res.none, x ++ [v])
  | .extend vs => (Res.none, x ++ vs)
  | .add vs => (Res.lst (x ++ vs), x)
  | .radd vs => (Res.lst (vs ++ x), x)
  | .mul n => (Res.lst (repeatList x n.toNat), x)
  | .imul n => (Res.none, repeatList x n.toNat)
  | .copy => (Res.lst x, x)
  | .count v => (Res.val (x.count v : Nat), x)
  | .contains v => (Res.val (if v ∈ x then 1 else 0), x)
  | .find v => (Res.val (pyFind x v), x)
  | .index v => if v ∈ x then (Res.val (x.idxOf v : Nat), x) else (Res.err Err.ValueError, x)
  | .remove v => if v ∈ x then (Res.none, x.erase v) else (Res.err Err.ValueError, x)
  | .sort r => (Res.none, if r then (isort x).reverse else isort x)
  | .cmp o y => (Res.val (if pyCmp o x y then 1 else 0), x)

/-- in-range guard for secret keys: the key denotes a position `p < bound` (as a number of the list's
type: integral and in range; as a vector: exactly the unit vector `e_p` of length `bound`) -/
def KeyOk (f : Nat) (k : Key) (bound : Nat) : Prop :=
  match k with
  | .pub _ => True
  | .sec a => a % 2 ^ f = 0 ∧ 0 ≤ a / 2 ^ f ∧ a / 2 ^ f < bound
  | .vec off u => ∃ p, p < bound ∧ List.replicate off 0 ++ u = unitVec p bound

/-- guard of one operation on contents `x` -/
def Guard (f : Nat) (x : List Int) : Op → Prop
  | .getitem k | .setitem k _ | .delitem k | .pop k => KeyOk f k x.length
  | .insert k _ => KeyOk f k (x.length + 1)
  | _ => True

/-- guard along a history (states taken from the Python-list run) -/
def GuardAll (f : Nat) : List Int → List Op → Prop
  | _, [] => True
  | x, op :: ops => Guard f x op ∧ GuardAll f (pyStep f x op).2 ops

/-! ## shape of the work: the runtime primitives called by each operation, with vector lengths -/

inductive Ev
  | unitVector (n : Nat) | inProd (n : Nat) | vectorAdd (n : Nat) | vectorSub (n : Nat)
  | scalarMul (n : Nat) | schurProd (n : Nat) | sum (n : Nat) | eq | sgn | ifElse (n : Nat)
  | find (n : Nat) | indexOf (n : Nat) | eqPublic | all (n : Nat) | sort (n : Nat)
  deriving DecidableEq, Repr

/-- events of computing the index vector; `none` ≙ an exception was raised -/
def keyTrace (f : Nat) (k : Key) (n : Nat) : List Ev × Option Nat :=
  match k with
  | .pub _ => ([], none)
  | .sec a => if a % 2 ^ f = 0 then ([Ev.unitVector n], some (unitVector (a / 2 ^ f) n).length) else ([Ev.unitVector n], none)
  | .vec off u => ([], some (off + u.length))

def delTrace (n li : Nat) : List Ev :=
  if li = 0 ∨ li ≠ n then [] else [Ev.vectorSub (n - 1), Ev.schurProd (n - 1), Ev.vectorAdd (n - 1)]

/-- events of `_norm` on a list of length `n` (recursion on the same halving) -/
def normTrace (x : List Int) : List Ev :=
  if x.length < 2 then []
  else normTrace (x.take (x.length / 2)) ++ normTrace (x.drop (x.length / 2)) ++ [Ev.ifElse 2]
termination_by x.length
decreasing_by
  · simp only [List.length_take]; omega
  · simp only [List.length_drop]; omega

def lessTrace (x y : List Int) : List Ev :=
  let s := List.zipWith (fun a b => sgn (a - b)) x y
  if s = [] then [] else s.map (fun _ => Ev.sgn) ++ [Ev.schurProd s.length] ++ normTrace s

/-- the runtime calls made from seclists.py by one operation (secret-key paths; public paths make none) -/
def trace (cfg : Cfg) (x : List Int) : Op → List Ev
  | .getitem (.pub _) | .setitem (.pub _) _ | .delitem (.pub _) | .insert (.pub _) _ | .pop (.pub _) => []
  | .getitem k =>
      match keyTrace cfg.f k x.length with
      | (t, some li) => t ++ (if li = x.length then [Ev.inProd x.length] else [])
      | (t, none) => t
  | .setitem k _ =>
      match keyTrace cfg.f k x.length with
      | (t, some li) => t ++ (if li = x.length then [Ev.inProd x.length, Ev.scalarMul x.length, Ev.vectorAdd x.length] else [])
      | (t, none) => t
  | .delitem k =>
      match keyTrace cfg.f k x.length with
      | (t, some li) => t ++ delTrace x.length li
      | (t, none) => t
  | .insert k _ =>
      match keyTrace cfg.f k (x.length + 1) with
      | (t, some li) => t ++ (if li = x.length + 1 then
          [Ev.inProd (x.length + 1), Ev.scalarMul (x.length + 1), Ev.vectorAdd (x.length + 1),
           Ev.vectorSub (x.length + 1), Ev.schurProd (x.length + 1), Ev.vectorAdd (x.length + 1)] else [])
      | (t, none) => t
  | .pop k =>
      match keyTrace cfg.f k x.length with
      | (t, some li) => t ++ (if li = x.length then Ev.inProd x.length :: delTrace x.length li else [])
      | (t, none) => t
  | .count _ => x.map (fun _ => Ev.eq) ++ [Ev.sum x.length]
  | .contains _ => x.map (fun _ => Ev.eq) ++ [Ev.sum x.length] ++ (if x = [] then [] else [Ev.eq])
  | .find _ => if x = [] then [] else [Ev.find x.length]
  | .index _ => [Ev.indexOf x.length]
  | .remove v =>
      (if x = [] then [] else [Ev.find x.length]) ++ [Ev.eqPublic] ++
      (if find x v = -1 then [] else Ev.unitVector x.length :: delTrace x.length x.length)
  | .sort _ => if x.length < 2 then [] else [Ev.sort x.length]
  | .cmp o y =>
      match o with
      | .lt | .ge => lessTrace x y
      | .le | .gt => lessTrace y x
      | .eq | .ne => if x.length ≠ y.length then [] else (List.zipWith eqBit x y).map (fun _ => Ev.eq) ++ [Ev.all (min x.length y.length)]
  | _ => []

/-- the public part of an operation: everything except secret values (lengths of lists are public;
for a secret number of fixed-point type its integrality FLAG is a public attribute) -/
inductive KeyShape
  | pub (i : Int) | sec (integral : Bool) | vec (len : Nat)
  deriving DecidableEq, Repr

def Key.shape (f : Nat) : Key → KeyShape
  | .pub i => .pub i
  | .sec a => .sec (decide (a % 2 ^ f = 0))
  | .vec off u => .vec (off + u.length)

inductive OpShape
  | getitem (k : KeyShape) | getslice (s : Slice) | setitem (k : KeyShape) | setslice (s : Slice) (n : Nat)
  | delitem (k : KeyShape) | delslice (s : Slice) | insert (k : KeyShape) | pop (k : KeyShape)
  | append | extend (n : Nat) | add (n : Nat) | radd (n : Nat) | mul (n : Int) | imul (n : Int) | copy
  | count | contains | find | index | remove | sort (r : Bool) | cmp (o : CmpOp) (n : Nat)
  deriving DecidableEq, Repr

def Op.shape (f : Nat) : Op → OpShape
  | .getitem k => .getitem (k.shape f) | .getslice s => .getslice s
  | .setitem k _ => .setitem (k.shape f) | .setslice s vs => .setslice s vs.length
  | .delitem k => .delitem (k.shape f) | .delslice s => .delslice s
  | .insert k _ => .insert (k.shape f) | .pop k => .pop (k.shape f)
  | .append _ => .append | .extend vs => .extend vs.length
  | .add vs => .add vs.length | .radd vs => .radd vs.length | .mul n => .mul n | .imul n => .imul n | .copy => .copy
  | .count _ => .count | .contains _ => .contains | .find _ => .find | .index _ => .index | .remove _ => .remove
  | .sort r => .sort r | .cmp o y => .cmp o y.length

/-- the one bit `remove` makes public through `eq_public` (`index` too, inside `runtime.indexOf`: its
ValueError is public, but the calls made from seclists.py do not depend on it) -/
def pubBit (x : List Int) : Op → Bool
  | .remove v => decide (find x v = -1)
  | _ => false

end MpycV.SecList
