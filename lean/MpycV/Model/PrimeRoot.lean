/-
M7 (part): `find_prime_root` ≙ finfields.py:314-350 and the prime-field choice of the secure types
`_pfield` ≙ sectypes.py:673-683 (with `GF`/`pGF` ≙ finfields.py:23-45, 353-357 as far as the modulus goes).

The primality test `gmpy2.is_prime` is a parameter `isP : Int → Bool`; `gmpy2.next_prime/prev_prime/powmod`
are the models of `MpycV.Model.NumTh` run with that same `isP`.
The search `while not is_prime(p): p += 4*n` has no proved a-priori bound (Dirichlet gives existence, not
a bound), so its fuel is an explicit argument `fuel`; `Err.fuel` ≙ "the Python loop is still running".
-/
import MpycV.Model.NumTh

namespace MpycV.PrimeRoot
open MpycV.NumTh

/-- ≙ finfields.py:330-331 `while p%4 != 3: p = gmpy2.prev_prime(p)` -/
def blumDown (isP : Int → Bool) : Nat → Int → Except Err Int
  | 0, _ => .error .fuel
  | f + 1, p =>
    if p % 4 ≠ 3 then
      match prevPrime isP p with
      | .error e => .error e
      | .ok q => blumDown isP f q
    else .ok p

/-- ≙ finfields.py:342-344 `a = 2; while (w := powmod(a, (p-1)//n, p)) == 1: a += 1`; returns w -/
def rootLoop (p e : Nat) : Nat → Nat → Except Err Nat
  | 0, _ => .error .fuel
  | f + 1, a =>
    let w := powMod a e p
    if w = 1 then rootLoop p e f (a + 1) else .ok w

/-- ≙ find_prime_root(l, blum, n); result (p, n, w) -/
def findPrimeRoot (isP : Int → Bool) (fuel : Nat) (l : Int) (blum : Bool) (n : Int) :
    Except Err (Int × Int × Int) :=
  if l ≤ 2 then
    if !blum then
      if n = 1 then .ok (2, n, 1) else .error .assertionError       -- p = 2; assert n == 1; w = 1
    else .ok (3, 2, 2)                                              -- p = 3; n, w = 2, p-1
  else if n ≤ 2 then
    match prevPrime isP ((2 : Int) ^ l.toNat) with                  -- prev_prime(1 << l)
    | .error e => .error e
    | .ok p =>
      match (if blum then blumDown isP p.toNat p else .ok p) with
      | .error e => .error e
      | .ok p => .ok (p, n, if n = 2 then p - 1 else 1)
  else
    if !blum then .error .assertionError                            -- assert blum
    else
      match (if isP n then .ok n else nextPrime isP n) with
      | .error e => .error e
      | .ok n =>
        let p0 := 1 + 2 * n * (3 + 2 * ((2 : Int) ^ (l - 3).toNat / n))
        match searchUp isP (4 * n) fuel p0 with
        | .error e => .error e
        | .ok p =>
          match rootLoop p.toNat ((p - 1) / n).toNat p.toNat 2 with
          | .error e => .error e
          | .ok w => .ok (p, n, (w : Int))

/-- ≙ `_pfield(l, f, p, n)` with k = runtime.options.sec_param, m = len(runtime.parties),
t = runtime.threshold; result = modulus of the field.  `p = none` ≙ `p is None`.
`GF(p)`: `pGF` raises ValueError when `not is_prime(p)`. -/
def pfield (isP : Int → Bool) (fuel : Nat) (l f k : Int) (p : Option Int) (n : Int) (m t : Nat) :
    Except Err Int :=
  let r : Except Err Int :=
    match p with
    | none =>
      match findPrimeRoot isP fuel (l + f + k + 2) true n with
      | .error e => .error e
      | .ok (p, _, _) => .ok p
    | some p =>
      if (bitLength p : Int) ≤ l + f + k + 1 then .error .valueError else .ok p
  match r with
  | .error e => .error e
  | .ok p =>
    if !isP p then .error .valueError                     -- pGF: 'modulus is not a prime'
    else if t = 0 ∨ (m : Int) < p then .ok p              -- assert threshold == 0 or m < field.order
    else .error .assertionError

end MpycV.PrimeRoot
