/-
Model of /repo/mpyc/mpctools.py (`reduce`, `accumulate`), core Lean only.

Everything is generic over the element type `α` and the binary function `f`; nothing about `f`
(associativity, commutativity) is used by the definitions, so the model reproduces the exact
tree of applications the Python code builds (the correspondence runs it on a free magma).

Two layers for `accumulate`:
* `accSkl` / `accBK`     : the in-place recursions `acc(i, j)` of mpctools.py on a list `x`
                           with indices exactly as in the code (`x[h-1]`, `x[i-1]`, `x[j-1]`, `x[h:j]`);
* `skl` / `bk`           : the same recursions on the slice `x[i:j]` alone (`bk` gets `x[i-1]` as an
                           optional parameter, `none` ≙ `i = 0`), used to state the prefix-fold theorems;
  `MpycV.Lemmas.Tools` proves the first layer equal to the second embedded in `x`.
-/
namespace MpycV.Tools

variable {α : Type}

/-- `x = list(x); if initial is not _no_value: x.insert(0, initial)`  ≙ mpctools.py:34-36, 66-68 -/
def withInitial (initial : Option α) (x : List α) : List α :=
  match initial with
  | some a => a :: x
  | none => x

/-! ### reduce  ≙ mpctools.py:19-42 -/

/-- `(f(x[i], x[i+1]) for i in range(0, len, 2))` on an even-length list; an odd trailing element
(never present when called from `reduceStep`) is kept. -/
def pairUp (f : α → α → α) : List α → List α
  | a :: b :: rest => f a b :: pairUp f rest
  | l => l

theorem length_pairUp (f : α → α → α) : ∀ l : List α, (pairUp f l).length = (l.length + 1) / 2
  | [] => by simp [pairUp]
  | [_] => by simp [pairUp]
  | a :: b :: rest => by
      simp only [pairUp, List.length_cons, length_pairUp f rest]; omega

/-- one iteration of the `while` body:
`x[len(x)%2:] = (f(x[i], x[i+1]) for i in range(len(x)%2, len(x), 2))`  ≙ mpctools.py:41 -/
def reduceStep (f : α → α → α) (x : List α) : List α :=
  if x.length % 2 = 1 then
    match x with
    | a :: rest => a :: pairUp f rest
    | [] => []
  else pairUp f x

theorem length_reduceStep (f : α → α → α) (x : List α) :
    (reduceStep f x).length = (x.length + 1) / 2 := by
  unfold reduceStep
  split
  · cases x with
    | nil => simp
    | cons a rest =>
        simp only [List.length_cons, length_pairUp] at *; omega
  · exact length_pairUp f x

/-- `while len(x) > 1: …`  ≙ mpctools.py:40-41 -/
def reduceLoop (f : α → α → α) (x : List α) : List α :=
  if 1 < x.length then reduceLoop f (reduceStep f x) else x
termination_by x.length
decreasing_by rw [length_reduceStep]; omega

/-- `reduce(f, x, initial)`; `none` ≙ `TypeError('reduce() of empty sequence with no initial value')`.
`initial = none` ≙ `_no_value`.  ≙ mpctools.py:34-42 -/
def reduce (f : α → α → α) (x : List α) (initial : Option α) : Option α :=
  match withInitial initial x with
  | [] => none                                   -- raise TypeError
  | x => (reduceLoop f x).head?                  -- x[0]

/-! ### accumulate, in-place layer  ≙ mpctools.py:66-98 -/

/-- Sklansky `acc(i, j)`  ≙ mpctools.py:87-93 -/
def accSkl (f : α → α → α) (x : List α) (i j : Nat) : List α :=
  let h := (i + j) / 2
  if i < h then
    let x1 := accSkl f x i h                 -- acc(i, h)
    match x1[h-1]? with                      -- a = x[h-1]
    | some a =>
      let x2 := accSkl f x1 h j              -- acc(h, j)
      -- x[h:j] = (f(a, b) for b in x[h:j])
      x2.take h ++ ((x2.drop h).take (j - h)).map (f a) ++ x2.drop j
    | none => x1                             -- IndexError: unreachable for j ≤ len(x)
  else x
termination_by j - i
decreasing_by all_goals omega

/-- Brent–Kung `acc(i, j)`  ≙ mpctools.py:75-83 -/
def accBK (f : α → α → α) (x : List α) (i j : Nat) : List α :=
  let h := (i + j) / 2
  if i < h then
    let x1 := accBK f x i h                  -- acc(i, h)
    match x1[h-1]? with                      -- a = x[h-1]
    | some a =>
      let x2 :=                              -- if i: x[h-1] = f(x[i-1], a)
        if i ≠ 0 then
          match x1[i-1]? with
          | some p => x1.set (h-1) (f p a)
          | none => x1
        else x1
      let x3 := accBK f x2 h j               -- acc(h, j)
      match x3[j-1]? with                    -- x[j-1] = f(a, x[j-1])
      | some b => x3.set (j-1) (f a b)
      | none => x3
    | none => x1
  else x
termination_by j - i
decreasing_by all_goals omega

inductive Method | brentKung | sklansky
deriving DecidableEq, Repr

/-- default heuristic  ≙ mpctools.py:70-71 -/
def defaultMethod (noPrss : Bool) (n : Nat) : Method :=
  if noPrss && decide (32 ≤ n) then .brentKung else .sklansky

/-- `accumulate(x, f, initial, method)` with `method` already resolved (strings other than the two
names raise `ValueError` in the code before anything is computed)  ≙ mpctools.py:66-98 -/
def accumulate (f : α → α → α) (x : List α) (initial : Option α) (m : Method) : List α :=
  let x := withInitial initial x
  match m with
  | .brentKung => accBK f x 0 x.length
  | .sklansky => accSkl f x 0 x.length

/-! ### accumulate, slice layer (same recursions on `x[i:j]`) -/

/-- Sklansky on the slice `s = x[i:j]`: `h - i = len(s)//2`, `i < h ⇔ 2 ≤ len(s)`. -/
def skl (f : α → α → α) (s : List α) : List α :=
  if 2 ≤ s.length then
    let l := skl f (s.take (s.length / 2))
    let r := skl f (s.drop (s.length / 2))
    match l.getLast? with
    | some a => l ++ r.map (f a)
    | none => l ++ r
  else s
termination_by s.length
decreasing_by
  · simp only [List.length_take]; omega
  · simp only [List.length_drop]; omega

/-- replace the last element of a list by `g last` -/
def mapLast (g : α → α) : List α → List α
  | [] => []
  | [a] => [g a]
  | a :: rest => a :: mapLast g rest

/-- Brent–Kung on the slice `s = x[i:j]` with `p = x[i-1]` (`none` ≙ `i = 0`). -/
def bk (f : α → α → α) (p : Option α) (s : List α) : List α :=
  if 2 ≤ s.length then
    let l := bk f p (s.take (s.length / 2))
    match l.getLast? with
    | some a =>
      let l' := match p with
        | some q => mapLast (fun _ => f q a) l
        | none => l
      let r := bk f l'.getLast? (s.drop (s.length / 2))
      l' ++ mapLast (f a) r
    | none => l
  else s
termination_by s.length
decreasing_by
  · simp only [List.length_take]; omega
  · simp only [List.length_drop]; omega

/-! ### depth instrumentation: a value together with the depth of the application tree above it -/

/-- `f` lifted to depth-instrumented values: depth of `f a b` = max depth + 1 -/
def dep (f : α → α → α) (a b : α × Nat) : α × Nat := (f a.1 b.1, max a.2 b.2 + 1)

/-- free magma: exposes the exact application tree -/
inductive Tree
  | leaf (n : Nat)
  | node (l r : Tree)
deriving DecidableEq, Repr

def Tree.show : Tree → String
  | .leaf n => toString n
  | .node l r => "(" ++ l.show ++ " " ++ r.show ++ ")"

def Tree.height : Tree → Nat
  | .leaf _ => 0
  | .node l r => max l.height r.height + 1

/-- number of `f` applications in a term -/
def Tree.size : Tree → Nat
  | .leaf _ => 0
  | .node l r => l.size + r.size + 1

end MpycV.Tools
