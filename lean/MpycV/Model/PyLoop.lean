/-
Support for Lean code generated from Python source by harness/py2lean.py (core Lean only).

* `loop`  — ONE generic fuel-bounded iteration of a loop body.  A body maps the tuple of loop-carried variables to
  `next s` (go round again), `brk s` (`break`, or the `while` guard is false), `ret r` (`return r` inside the loop) or an
  exception.  Fuel 0 answers `fuelErr` ("the Python loop would still be running").
* `py…`   — the Python int operations that have no direct Lean counterpart.
-/
namespace MpycV.PyLoop

inductive Ctl (σ ρ : Type) where
  | next (s : σ)
  | brk (s : σ)
  | ret (r : ρ)

inductive Out (σ ρ : Type) where
  | done (s : σ)      -- the loop ended (guard false or `break`) in state s
  | ret (r : ρ)       -- the function returned r from inside the loop

def loop {ε σ ρ : Type} (fuelErr : ε) (body : σ → Except ε (Ctl σ ρ)) : Nat → σ → Except ε (Out σ ρ)
  | 0, _ => .error fuelErr
  | n + 1, s =>
    match body s with
    | .error e => .error e
    | .ok (.next s') => loop fuelErr body n s'
    | .ok (.brk s') => .ok (.done s')
    | .ok (.ret r) => .ok (.ret r)

/-- continue after a loop: `kret r` if the function returned from inside the loop, `kdone s` if the loop ended in state s -/
def onLoop {ε σ ρ α : Type} (r : Except ε (Out σ ρ)) (kret : ρ → Except ε α) (kdone : σ → Except ε α) : Except ε α :=
  match r with
  | .error e => .error e
  | .ok (.ret v) => kret v
  | .ok (.done s) => kdone s

/-- abs(x) -/
def pyAbs (x : Int) : Int := (x.natAbs : Int)

/-- a << k for k ≥ 0 (the generated code raises ValueError for k < 0 before using it) -/
def pyShl (a k : Int) : Int := a * 2 ^ k.toNat

/-- a >> k for k ≥ 0: floor division by 2^k -/
def pyShr (a k : Int) : Int := a / 2 ^ k.toNat

/-- a ** n for n ≥ 0 -/
def pyPow (a n : Int) : Int := a ^ n.toNat

/-- a | b for a, b ≥ 0 (the only use in the translated sources: setting a bit of a non-negative number) -/
def pyOr (a b : Int) : Int := ((a.toNat ||| b.toNat : Nat) : Int)

end MpycV.PyLoop
