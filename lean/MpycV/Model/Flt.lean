/-
M6 `Flt`: value layer of `mpyc.sectypes.SecureFloat` (core Lean only).

A secure float of type `SecFlt(s, e)` is a pair (significand, exponent): the significand is a secure
fixed-point number of type `SecFxp(s+1, s-1)` (model: `Fxp.V`, with `Ty.l = s+1`, `Ty.f = s-1`), the
exponent a secure `e`-bit integer (model: `Int`; the integer protocols are property C01).  The number
meant is `S.A / 2^f * 2^E`.  The bit-level sub-protocols (`to_bits`, `find`, `unit_vector`, comparisons
of exponents, `convert`) are modelled by their specification (bits of the two's complement
representation, index of the first matching bit, …): they are properties C01/C06/C30.

≙ sectypes.py:760-782  __init__ for int/float      -> `ofFloat`
≙ sectypes.py:788-800  __neg__                     -> `neg`
≙ sectypes.py:802-832  __add__                     -> `add`
≙ sectypes.py:844-866  __mul__                     -> `mul`
≙ sectypes.py:884-918  comparisons                 -> `ltBit`, `eqBit` on the difference
≙ sectypes.py:935-959  _output                     -> `outS`, `outE`
≙ sectypes.py          reciprocal (normalisation)   -> `recipClamp`, `recip`
-/
import MpycV.Model.Fxp

namespace MpycV.Flt
open MpycV.Fxp

structure F where
  S : V
  E : Int
  deriving DecidableEq, Repr

/-- bit `i` of the two's complement representation of `x` (`to_bits`: low to high) -/
def bitAt (x : Int) (i : Nat) : Int := (x / (2 : Int) ^ i) % 2

/-- `find(x, want)` on the bits `k-1, k-2, …, 0` of `s` scanned from the high end: the number of bits
skipped before the first one equal to `want`; `i + k` if there is none (`e = len(x)`) -/
def findIdx (s want : Int) : Nat → Nat → Nat
  | 0, i => i
  | k + 1, i => if bitAt s k = want then i else findIdx s want k (i + 1)

/-- ≙ sectypes.py:768-772: `e = ceil(log2 |x|)` is supplied by the caller (`math.log`/`math.ceil` are
outside the model; the harness checks `2^(e-1) < |x| ≤ 2^e`), `s = x / 2**e` is an exact float
operation, the significand is `secfxp(s, integral=False)`; zero gets exponent 0 -/
def ofFloat (t : Ty) (x : Dy) (e : Int) : F :=
  if x.m = 0 then ⟨⟨0, false⟩, 0⟩ else ⟨ofFloatNoFlag t.f ⟨x.m, x.e - e⟩, e⟩

/-- ≙ sectypes.py:788-791 -/
def neg (a : F) : F := ⟨Fxp.neg a.S, a.E⟩

/-- ≙ sectypes.py:844-866 -/
def mul (t : Ty) (a b : F) (r : Rnd) : F :=
  let s := mulSS t a.S b.S r                                    -- s = s1 * s2
  let e := a.E + b.E
  let sA := norm t.p s.A
  let c := (bitAt sA (t.l - 2) - bitAt sA (t.l - 3)) ^ 2        -- c_s = (x[-2] - x[-3])**2
  let cS := ofBit t.f c
  ⟨ifElse t cS s (mulInt s 2), c * (e - (e - 1)) + (e - 1)⟩     -- if_else(c_s, s, s*2), if_else(c_e, e, e-1)

/-- ≙ sectypes.py:814-823: exponent comparison, swap, alignment; returns the sum `s = s1 + s2 * 2^-d` of the
aligned significands and the larger exponent; `r1`: randomness of the truncation in `s2 * d2` -/
def addAlign (t : Ty) (a b : F) (r1 : Rnd) : V × Int :=
  let f := t.f
  let ce : Int := if a.E < b.E then 1 else 0                   -- c_e = e1 < e2
  let e1 := a.E + ce * (b.E - a.E)                              -- if_swap(c_e, e1, e2)
  let e2 := b.E - ce * (b.E - a.E)
  let (s1, s2) := ifSwap t (ofBit f ce) a.S b.S                 -- if_swap(c_s, s1, s2)
  let d := (min (e1 - e2) (f : Int)).toNat                      -- d = min(e1 - e2, f), 0 <= d <= f
  let d2 : V := ⟨(2 : Int) ^ (f - d), false⟩                     -- in_prod(unit_vector(d), [2**-i]) = 2^-d, flag False
  (Fxp.add s1 (mulSS t s2 d2 r1), e1)                           -- s = s1 + s2 * d2

/-- ≙ sectypes.py:825-829: `find(x reversed without the sign bit, 1 - b)` on the bits of `sA` -/
def leadIdx (t : Ty) (sA : Int) : Nat :=
  findIdx sA (1 - bitAt sA (t.l - 1)) (t.l - 1) 0

/-- ≙ sectypes.py:829-830: `N * 2**(f-(l-1))` for the integral fixed-point number `N = 2^i` -/
def normFactor (t : Ty) (i : Nat) : V :=
  mulFloat t ⟨(2 : Int) ^ i * (2 : Int) ^ t.f, true⟩ ⟨1, (t.f : Int) - ((t.l : Int) - 1)⟩ ([], 0)

/-- ≙ sectypes.py:824-832: renormalisation of the sum; `r2`: randomness of the truncation in `s * N` -/
def addNorm (t : Ty) (s : V) (e1 : Int) (r2 : Rnd) : F :=
  let i := leadIdx t (norm t.p s.A)
  let n : Int := (i : Int) + ((t.f : Int) - ((t.l : Int) - 1))  -- n + (f - (l-1))
  ⟨mulSS t s (normFactor t i) r2, e1 - n⟩

/-- ≙ sectypes.py:802-832 -/
def add (t : Ty) (a b : F) (r1 r2 : Rnd) : F :=
  let (s, e1) := addAlign t a b r1
  addNorm t s e1 r2

def sub (t : Ty) (a b : F) (r1 r2 : Rnd) : F := add t a (neg b) r1 r2

/-- ≙ sectypes.py:884-900: the comparison bits are the sign / zero test of the significand of `a - b` -/
def ltBit (d : F) : Int := if d.S.A < 0 then 1 else 0
def eqBit (d : F) : Int := if d.S.A = 0 then 1 else 0

/-- ≙ sectypes.py:935-959 `_output`: opened significand and exponent (exponent masked to 0 for zero) -/
def outS (t : Ty) (a : F) : Int := norm t.p a.S.A
def outE (t : Ty) (a : F) : Int := if norm t.p a.S.A = 0 then 0 else a.E

/-- the assertion in `_output`: the opened significand is 0 or `1/2 ≤ |s| ≤ 1` -/
def Normal (t : Ty) (a : F) : Prop :=
  a.S.A = 0 ∨ ((2 : Int) ^ (t.f - 1) ≤ a.S.A ∧ a.S.A ≤ (2 : Int) ^ t.f) ∨
    (-(2 : Int) ^ t.f ≤ a.S.A ∧ a.S.A ≤ -(2 : Int) ^ (t.f - 1))

/-! ### reciprocal  ≙ sectypes.py `SecureFloat.reciprocal` (since repo fix fd7109b) -/

/-- the normalisation step of `reciprocal`: `sgn = 1 - (s < 0)*2; s = sgn * min(max(sgn * s, 0.5), 1)` on the integer scale
(`0.5 ≙ 2^(f-1)`, `1 ≙ 2^f`); `r` is WHATEVER the secure fixed-point computation `0.5 * (1/s)` returned -/
def recipClamp (f : Nat) (r : Int) : Int :=
  let sgn : Int := if r < 0 then -1 else 1
  sgn * min (max (sgn * r) ((2 : Int) ^ (f - 1))) ((2 : Int) ^ f)

/-- `reciprocal` of `(S, E)`: significand `recipClamp f r`, exponent `1 - E` -/
def recip (t : Ty) (a : F) (r : Int) : F := ⟨⟨recipClamp t.f r, false⟩, 1 - a.E⟩

end MpycV.Flt
