/-
Support for Lean code generated from list-manipulating Python source (harness/py2lean_thresha.py), core Lean only.

* `pyFor xs init body` — ONE generic bounded iteration: `for x in xs: body` over a finite list (range, list,
  enumerate, dict items), threading the tuple of loop-carried variables; exceptions propagate.
* `pyRange`, `pyEnum`, `pyMapM`, Python indexing with negative wrap-around (`pyIdxOk`, `pyGet`, `pySet`),
* prime-field division `fdiv` (`a / b` of field elements = `a * gmpy.invert(b, p) % p`, `invert` = the model of the
  gmpy stub tied to its source by C25), dealer randomness `pyDraw` (reads from an explicit stream, in call order).
-/
import MpycV.Model.NumTh

namespace MpycV.PyList

inductive TErr where
  | indexError
  | valueError
  | zeroDivisionError
  | streamError      -- the explicit randomness stream is exhausted or holds a value outside range(bound)
  | fuel
  deriving Repr, DecidableEq, Inhabited

def TErr.toString : TErr → String
  | .indexError => "IndexError"
  | .valueError => "ValueError"
  | .zeroDivisionError => "ZeroDivisionError"
  | .streamError => "stream-error"
  | .fuel => "fuel-exhausted"

def ofNumTh : NumTh.Err → TErr
  | .valueError => .valueError
  | .zeroDivisionError => .zeroDivisionError
  | .assertionError => .valueError
  | .fuel => .fuel

/-- `for x in xs: st = body x st` -/
def pyFor {α σ ε : Type} (xs : List α) (init : σ) (body : α → σ → Except ε σ) : Except ε σ :=
  match xs with
  | [] => .ok init
  | a :: rest =>
    match body a init with
    | .error e => .error e
    | .ok s => pyFor rest s body

/-- `[f x for x in xs]` where `f` may raise -/
def pyMapM {α β ε : Type} (xs : List α) (f : α → Except ε β) : Except ε (List β) :=
  match xs with
  | [] => .ok []
  | a :: rest =>
    match f a with
    | .error e => .error e
    | .ok b =>
      match pyMapM rest f with
      | .error e => .error e
      | .ok bs => .ok (b :: bs)

/-- `range(a, b)` -/
def pyRange (a b : Int) : List Int := (List.range (b - a).toNat).map fun (k : Nat) => a + (k : Int)

/-- `enumerate(l)` -/
def pyEnum {α : Type} (l : List α) : List (Int × α) := l.zipIdx.map fun xk => ((xk.2 : Int), xk.1)

/-- is `l[i]` defined for a list of length `len` (Python: -len ≤ i < len) -/
def pyIdxOk (len : Nat) (i : Int) : Bool := decide (-(len : Int) ≤ i ∧ i < (len : Int))

/-- position addressed by index `i` (negative indices count from the end) -/
def pyIdx (len : Nat) (i : Int) : Nat := if i < 0 then (i + (len : Int)).toNat else i.toNat

def pyGet {α : Type} [Inhabited α] (l : List α) (i : Int) : α := l.getD (pyIdx l.length i) default

def pySet {α : Type} (l : List α) (i : Int) (v : α) : List α := l.set (pyIdx l.length i) v

/-- `a / b` for elements of GF(p) given by their values: `a * invert(b, p) % p` (ZeroDivisionError if no inverse) -/
def fdiv (p a b : Int) : Except TErr Int :=
  match NumTh.invert b p with
  | .error e => .error (ofNumTh e)
  | .ok r => .ok ((a * r) % p)

/-- `[secrets.randbelow(bound) for _ in range(k)]` read from an explicit stream: the `k` next values, which must lie in
range(bound); returns them and the rest of the stream -/
def pyDraw (bound k : Int) (stream : List Int) : Except TErr (List Int × List Int) :=
  let c := stream.take k.toNat
  if c.length < k.toNat ∨ ¬ (c.all fun v => decide (0 ≤ v ∧ v < bound)) = true then .error .streamError
  else .ok (c, stream.drop k.toNat)

end MpycV.PyList
