/-
M7 (part): secure type and party configuration parameters (core Lean only).

≙ sectypes.py:568-628  `SecFld` argument resolution            -> `resolve`
≙ sectypes.py:631-655  `_SecFld` lifting of small fields        -> `lift`, `outConv`
≙ sectypes.py:673-682  `_pfield` (SecInt / SecFxp / SecFlt)     -> `pfield`
≙ runtime.py:5199-5201 `setup()` threshold default and assert   -> `setupThreshold`
≙ finfields.py:23-42, 347-351, 508-514  `GF`, `pGF`, `xGF`      -> `gfInt`, `gfPoly`
≙ gfpx.py:32-35 `GFpX(p)` (prime check), 144-153 `_from_int`, 199-205 `_from_terms` (reduction)

Python `int` arguments are modelled as `Nat` (negative arguments are outside the domain), optional
arguments as `Option Nat`; `x or d` treats `None` and `0` alike (`orD`), `x is None` does not.
Number-theoretic helpers are modelled by their mathematical definition (trial division, least
prime ≥ n, least c with c^d ≥ n, prime-power factorisation); that the repo's gmpy stubs compute
these is property C25 and is re-checked by the tie on every argument used.
Oracle parameters (not modelled): irreducibility test and search over GF(p) (C24), the float
expression `math.ceil(math.log(x, b))`, `find_prime_root` (C26).
-/
namespace MpycV.SecFldCfg

inductive Err where
  | valueError
  | assertionError
  | zeroDivisionError
  deriving DecidableEq, Repr

def Err.name : Err → String
  | .valueError => "ValueError"
  | .assertionError => "AssertionError"
  | .zeroDivisionError => "ZeroDivisionError"

/-- Python `x or d` for an optional int: `None` and `0` are falsy -/
def orD (x : Option Nat) (d : Nat) : Nat :=
  match x with
  | some (n + 1) => n + 1
  | _ => d

/-! ### number theory by definition -/

/-- does some k with lo ≤ k, k*k ≤ n divide n?  (fuel-bounded scan) -/
def hasDivisorFrom (n : Nat) : Nat → Nat → Bool
  | _, 0 => false
  | k, fuel + 1 => if k * k > n then false else if n % k == 0 then true else hasDivisorFrom n (k + 1) fuel

/-- primality by trial division -/
def isPrime (n : Nat) : Bool := n ≥ 2 && !hasDivisorFrom n 2 n

/-- least k ≥ lo (scanning at most `fuel` candidates) with `P k`; 0 if none -/
def leastFrom (P : Nat → Bool) : Nat → Nat → Nat
  | _, 0 => 0
  | k, fuel + 1 => if P k then k else leastFrom P (k + 1) fuel

/-- least prime ≥ c ≙ `int(gmpy2.next_prime(c - 1))` (for c ≤ 2: 2) -/
def leastPrimeGe (c : Nat) : Nat := leastFrom isPrime c (c + 3)

/-- least c with c^d ≥ n ≙ `root + (not exact)` for `root, exact = gmpy2.iroot(n, d)` -/
def ceilRoot (n d : Nat) : Nat := leastFrom (fun c => c ^ d ≥ n) 0 (n + 1)

/-- least divisor ≥ 2 of n (n ≥ 2) -/
def minFac (n : Nat) : Nat := leastFrom (fun k => n % k == 0) 2 n

/-- strip the factor p from x as often as possible: (remaining cofactor, multiplicity) -/
def stripFactor (p : Nat) : Nat → Nat → Nat × Nat
  | x, 0 => (x, 0)
  | x, fuel + 1 =>
    if p ≥ 2 && x ≥ 1 && x % p == 0 then
      let r := stripFactor p (x / p) fuel
      (r.1, r.2 + 1)
    else (x, 0)

/-- ≙ gmpy.factor_prime_power: `some (p, d)` with x = p^d, p prime, d ≥ 1; `none` ≙ ValueError -/
def factorPrimePower (x : Nat) : Option (Nat × Nat) :=
  if x ≤ 1 then none
  else
    let p := minFac x
    let r := stripFactor p x x
    if r.1 == 1 then some (p, r.2) else none

/-- exact ceil(log_b x): least e with b^e ≥ x (b ≥ 2) -/
def clog (b x : Nat) : Nat := leastFrom (fun e => b ^ e ≥ x) 0 (x + 1)

/-- ≙ int.bit_length -/
def bitLength (n : Nat) : Nat := if n = 0 then 0 else Nat.log2 n + 1

/-! ### polynomials over GF(p) as little-endian coefficient lists (only what SecFld needs) -/

abbrev Poly := List Nat

/-- drop trailing zeros ≙ gfpx `_from_list` / end of `_from_terms` -/
def normalize (f : Poly) : Poly := (f.reverse.dropWhile (· == 0)).reverse

/-- ≙ `_from_terms` applied to a term string with the given integer coefficients -/
def ofCoeffs (p : Nat) (cs : List Nat) : Poly := normalize (cs.map (· % p))

/-- ≙ `_from_int`: little-endian base-p digits -/
def digits (p : Nat) : Nat → Nat → Poly
  | _, 0 => []
  | n, fuel + 1 => if n = 0 then [] else (n % p) :: digits p (n / p) fuel

def ofInt (p n : Nat) : Poly := if p < 2 then [] else digits p n n

/-- ≙ `_to_int` -/
def toInt (p : Nat) : Poly → Nat
  | [] => 0
  | c :: cs => c + p * toInt p cs

/-! brute-force irreducibility: used by the driver as the instance of the oracle -/

/-- big-endian: subtract c * g from the prefix of r (coefficients mod p) -/
def subPrefix (p c : Nat) : List Nat → List Nat → List Nat
  | [], r => r
  | _ :: _, [] => []
  | g :: gs, x :: xs => ((x + (p - (c * g) % p)) % p) :: subPrefix p c gs xs

/-- remainder of f modulo monic g, both big-endian, `gt` = tail of g -/
def remBE (p : Nat) (glen : Nat) (gt : List Nat) : List Nat → Nat → List Nat
  | f, 0 => f
  | f, fuel + 1 =>
    if f.length < glen then f
    else match f with
      | [] => []
      | c :: rest => remBE p glen gt (subPrefix p c gt rest) fuel

def dividesMonic (p : Nat) (g f : Poly) : Bool :=
  let gb := g.reverse
  (remBE p gb.length gb.tail f.reverse f.length).all (· == 0)

/-- monic polynomials of degree k are the numbers p^k ≤ n < 2 p^k in base p -/
def hasMonicDivisorDeg (p : Nat) (f : Poly) (k : Nat) : Bool :=
  (List.range (p ^ k)).any fun j => dividesMonic p (ofInt p (p ^ k + j)) f

/-- f (normalised, over GF(p), p prime) is irreducible: degree ≥ 1 and no monic divisor of degree
1..deg/2 -/
def irrBrute (p : Nat) (f : Poly) : Bool :=
  f.length ≥ 2 && !(List.range ((f.length - 1) / 2)).any fun k => hasMonicDivisorDeg p f (k + 1)

/-- ≙ finfields.find_irreducible(p, d) = GFpX(p).next_irreducible(p**d - 1): the next monic
irreducible polynomial after p^d - 1 in integer order (gfpx.py:493-508: multiples of X other than X
itself and non-monic candidates are skipped — all of them reducible or non-monic anyway; p = 2:
gfpx.py:1114-1121) -/
def findIrrBrute (p d : Nat) : Poly :=
  let ok := fun n =>
    let f := ofInt p n
    f.getLast? == some 1 && irrBrute p f
  ofInt p (leastFrom ok (p ^ d) (2 * p ^ (d + 1) + 8))

/-! ### SecFld -/

inductive Modulus where
  | none
  | int (n : Nat)
  | str (coeffs : List Nat)            -- term string with these coefficients (low to high)
  | poly (p : Nat) (f : Poly)          -- a gfpx.Polynomial over GF(p) (normalised, p prime)
  deriving DecidableEq, Repr

structure Args where
  order : Option Nat
  modulus : Modulus
  char : Option Nat
  extDeg : Option Nat
  minOrder : Option Nat
  deriving DecidableEq, Repr

structure Oracles where
  /-- gfpx `is_irreducible` over GF(p) -/
  irr : Nat → Poly → Bool
  /-- finfields.find_irreducible(p, d) -/
  findIrr : Nat → Nat → Poly
  /-- `math.ceil(math.log(x, b))` evaluated on floats: `ceilLog b x`; error ≙ exception -/
  ceilLog : Nat → Nat → Except Err Nat

/-- the finite field class created by `finfields.GF` -/
structure Field where
  char : Nat
  extDeg : Nat
  order : Nat
  /-- modulus: `none` for a prime field (modulus = char), else the polynomial -/
  poly : Option Poly
  deriving DecidableEq, Repr

/-- ≙ pGF (via GF(int)) -/
def gfInt (p : Nat) : Except Err Field :=
  if isPrime p then .ok ⟨p, 1, p, none⟩ else .error .valueError

/-- ≙ xGF (via GF(Polynomial)); the polynomial type over GF(p) exists, so p is prime -/
def gfPoly (o : Oracles) (p : Nat) (f : Poly) : Except Err Field :=
  if o.irr p f then .ok ⟨p, f.length - 1, p ^ (f.length - 1), some f⟩ else .error .valueError

/-- `assert c` -/
def check (c : Bool) : Except Err Unit := if c then .ok () else .error .assertionError

/-- ≙ `gfpx.GFpX(char)` -/
def gfpxType (c : Nat) : Except Err Unit := if isPrime c then .ok () else .error .valueError

/-- the locals (char, ext_deg) and the modulus after the argument resolution, before `GF` -/
structure Resolved where
  char : Nat
  extDeg : Nat
  modulus : Modulus      -- `int` or `poly` only
  deriving DecidableEq, Repr

/-- order -> (char, ext_deg) ≙ sectypes.py:577-582 -/
def stepOrder (a : Args) : Except Err (Option Nat × Option Nat) :=
  match a.order with
  | some x =>
    match factorPrimePower x with
    | none => .error .valueError
    | some (p, d) => do
      let c := orD a.char p
      check (c == p)
      let e := orD a.extDeg d
      check (e == d)
      pure (some c, some e)
  | none => pure (a.char, a.extDeg)

/-- str, int > char -> polynomial ≙ sectypes.py:585-590 -/
def stepConv (char : Option Nat) (md : Modulus) : Except Err (Option Nat × Modulus) :=
  match md with
  | .str cs => do
    let c := orD char 2
    gfpxType c
    -- the GF(2) term parser (gfpx.py:903-917) accepts the terms 0, 1, x, x^k only
    if c == 2 && cs.any (· ≥ 2) then .error .valueError
    else pure (some c, Modulus.poly c (ofCoeffs c cs))
  | .int n =>
    match char with
    | some (c + 1) =>
      if n > c + 1 then do
        gfpxType (c + 1)
        pure (char, Modulus.poly (c + 1) (ofInt (c + 1) n))
      else pure (char, Modulus.int n)
    | _ => pure (char, Modulus.int n)
  | m => pure (char, m)

/-- polynomial modulus ≙ sectypes.py:591-595 -/
def stepPoly (char extDeg minOrder : Option Nat) (p : Nat) (f : Poly) : Except Err Resolved := do
  let c := orD char p
  check (c == p)
  if f.length ≤ 1 then
    -- constant modulus (degree 0 or -1): `ext_deg or degree` never equals a positive request;
    -- otherwise `order = char**degree` is 1 (or 0.5), so a larger `min_order` trips the final
    -- assert, and else GF() refuses the modulus (not irreducible)
    match extDeg with
    | some (_ + 1) => .error .assertionError
    | _ => if orD minOrder 0 > f.length then .error .assertionError else .error .valueError
  else do
    let e := orD extDeg (f.length - 1)
    check (e == f.length - 1)
    pure ⟨c, e, .poly p f⟩

/-- int modulus ≙ sectypes.py:596-600 -/
def stepInt (char extDeg : Option Nat) (n : Nat) : Except Err Resolved := do
  let c := orD char n
  check (c == n)
  let e := orD extDeg 1
  check (e == 1)
  pure ⟨c, e, .int n⟩

/-- `modulus = char if ext_deg == 1 else find_irreducible(char, ext_deg)` ≙ sectypes.py:619-622 -/
def pickModulus (o : Oracles) (c e : Nat) : Except Err Modulus :=
  if e == 1 then pure (Modulus.int c) else do
    gfpxType c
    pure (Modulus.poly c (o.findIrr c e))

/-- (char, ext_deg) from `min_order` ≙ sectypes.py:608-617 -/
def pickCharDeg (o : Oracles) (char extDeg : Option Nat) (mo : Nat) : Except Err (Nat × Nat) :=
  match char with
  | none =>
    let e := orD extDeg 1
    pure (leastPrimeGe (ceilRoot mo e), e)
  | some c =>
    match extDeg with
    | none =>
      -- exact since the repo fix: `ext_deg = 0; while char**ext_deg < min_order: ext_deg += 1`, ValueError unless
      -- char > 1 and min_order > 0 (before: `math.ceil(math.log(min_order, char))`, a floating-point oracle)
      if c ≤ 1 ∨ mo = 0 then .error .valueError else pure (c, clog c mo)
    | some e => pure (c, e)

/-- no modulus ≙ sectypes.py:601-622; also returns the new `min_order` -/
def stepNone (o : Oracles) (char extDeg minOrder : Option Nat) : Except Err (Resolved × Option Nat) :=
  match minOrder with
  | none => do
    let c := orD char 2
    let e := orD extDeg 1
    let modulus ← pickModulus o c e
    pure (⟨c, e, modulus⟩, some (c ^ e))
  | some mo => do
    let ce ← pickCharDeg o char extDeg mo
    let modulus ← pickModulus o ce.1 ce.2
    pure (⟨ce.1, ce.2, modulus⟩, some mo)

/-- ≙ sectypes.py:577-622 -/
def resolveArgs (o : Oracles) (a : Args) : Except Err (Resolved × Option Nat) := do
  let (char, extDeg) ← stepOrder a
  let (char, modulus) ← stepConv char a.modulus
  match modulus with
  | .poly p f => do
    let r ← stepPoly char extDeg a.minOrder p f
    pure (r, a.minOrder)
  | .int n => do
    let r ← stepInt char extDeg n
    pure (r, a.minOrder)
  | .str _ => .error .valueError   -- unreachable
  | .none => stepNone o char extDeg a.minOrder

/-- ≙ finfields.GF(modulus) for the modulus produced by the resolution -/
def mkField (o : Oracles) (md : Modulus) : Except Err Field :=
  match md with
  | .int n => gfInt n
  | .poly p f => gfPoly o p f
  | _ => .error .valueError

/-- ≙ SecFld up to `field = finfields.GF(modulus)`: sectypes.py:577-626.  Returns the field and the
final values of the locals `order`, `min_order`. -/
def resolve (o : Oracles) (a : Args) : Except Err (Field × Nat × Nat) := do
  let (r, minOrder) ← resolveArgs o a
  let order := orD a.order (r.char ^ r.extDeg)           -- `order = order or char**ext_deg`
  let minOrder := orD minOrder order                     -- `min_order = min_order or order`
  check (decide (minOrder ≤ order))                      -- `assert min_order <= order`
  let fld ← mkField o r.modulus                          -- `field = finfields.GF(modulus)`
  pure (fld, order, minOrder)

/-! ### lifting small fields ≙ `_SecFld`, sectypes.py:637-654 -/

structure SecFldType where
  field : Field               -- `secfld.field`: the field in which sharing is done
  subfield : Option Field     -- `secfld.subfield`
  deriving DecidableEq, Repr

def lift (o : Oracles) (m t : Nat) (fld : Field) : Except Err SecFldType :=
  let q := fld.order
  if t == 0 || m < q then .ok ⟨fld, none⟩
  else do
    check (fld.extDeg == 1)
    let e ← o.ceilLog q (m + 1)
    let big ← gfPoly o fld.char (o.findIrr fld.char e)
    pure ⟨big, some fld⟩

/-- embedding of the subfield GF(p) into the extension: the constant polynomial -/
def embed (c : Nat) : Poly := if c = 0 then [] else [c]

/-- ≙ `out_conv`: `assert a.value.degree() <= 0; return cls.subfield(int(a))` -/
def outConv (p : Nat) (a : Poly) : Except Err Nat :=
  if a.length ≤ 1 then .ok (toInt p a % p) else .error .assertionError

/-! ### threshold ≙ runtime.py:5199-5201 -/

/-- the setter of `Runtime.threshold` (repo fix `assigning mpc.threshold validates 0 <= 2t < m`): ValueError unless
0 ≤ 2t < m -/
def setThreshold (m t : Int) : Except Err Int :=
  if 0 ≤ 2 * t ∧ 2 * t < m then .ok t else .error .valueError

/-- `options.threshold` (None ≙ `none`) and m -> threshold, AssertionError (the assert of `setup()` for 2t ≥ m) or ValueError
(the setter, called by `Runtime.__init__`, for negative t) -/
def setupThreshold (m : Int) (t : Option Int) : Except Err Int :=
  let t := match t with
    | none => (m - 1) / 2       -- Int floor division ≙ `//` for the positive divisor 2
    | some t => t
  if 2 * t < m then setThreshold m t else .error .assertionError

/-! ### `_pfield` ≙ sectypes.py:673-682 -/

/-- l, f, k = sec_param, optional prime p, root order n, parties m, threshold t; `findPrime b n` ≙
`finfields.find_prime_root(b, n=n)[0]`; `primeO` ≙ `gmpy2.is_prime` inside `pGF` (an oracle here:
the moduli have 60+ bits, trial division is not an option for the driver) -/
def pickPrime (findPrime : Nat → Nat → Nat) (l f k : Nat) (p : Option Nat) (n : Nat) : Except Err Nat :=
  match p with
  | none => pure (findPrime (l + f + k + 2) n)
  | some p => if bitLength p ≤ l + f + k + 1 then .error .valueError else pure p

/-- pGF: 'modulus is not a prime' -/
def requirePrime (primeO : Nat → Bool) (p : Nat) : Except Err Unit :=
  if primeO p then .ok () else .error .valueError

def pfield (findPrime : Nat → Nat → Nat) (primeO : Nat → Bool) (l f k : Nat) (p : Option Nat)
    (n m t : Nat) : Except Err Nat := do
  let p ← pickPrime findPrime l f k p n
  requirePrime primeO p
  check (t == 0 || decide (m < p))                         -- field.order = p
  pure p

end MpycV.SecFldCfg
