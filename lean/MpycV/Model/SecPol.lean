/-
Executable model of the value layer of `/repo/mpyc/secpols.py` (class `secpoly`).  Core Lean only.

A secure polynomial is a secure 1-D array of coefficients `[a_0 … a_d 0 … 0]` over GF(p): the LENGTH of the
array is public, the number of trailing zeros ("slack") is not.  The model works on the opened values
of those arrays: a padded polynomial is a `List Nat` with entries `< p`, least significant first,
trailing zeros allowed.  Each operation is what secpols.py computes on the padded arrays (the field
arithmetic of the entries is `(· op ·) % p`, ≙ finfields arrays), NOT the normalised gfpx operation; the
theorems of `MpycV/Props/C38.lean` relate the two through `strip = GFpX.norm`.
-/
import MpycV.Model.GFpX

namespace MpycV.SecPol
open MpycV.GFpX

/-- padded coefficient list -/
abbrev PPoly := List Nat

/-- what `secpoly._output` does with the opened array: `poly._from_list(a.value.tolist())`
(secpols.py:676) -/
def strip (a : PPoly) : Poly := GFpX.norm a

def addF (p x y : Nat) : Nat := (x + y) % p
def negF (p x : Nat) : Nat := (p - x % p) % p
def subF (p x y : Nat) : Nat := (x + (p - y % p)) % p
def mulF (p x y : Nat) : Nat := (x * y) % p

/-- ≙ secpols.py:84 `__neg__` (`np_negative`) -/
def neg (p : Nat) (a : PPoly) : PPoly := a.map (negF p)

/-- ≙ secpols.py:91-97 `_add`: equal lengths: `np_add(a, b)`; otherwise with `a` the longer one
`np_concatenate((a[:len(b)] + b, a[len(b):]))`.  As a recursion: entrywise sum on the common prefix,
then the tail of the longer list. -/
def add (p : Nat) : PPoly → PPoly → PPoly
  | [], b => b
  | x :: a, [] => x :: a
  | x :: a, y :: b => addF p x y :: add p a b

/-- ≙ secpols.py:112-122 `_sub`: `m = n`: `a - b`; `m > n`: `(a[:n] - b) ++ a[n:]`; `m < n`:
`b' = -b; (a + b'[:m]) ++ b'[m:]`.  Entrywise difference on the common prefix, then the tail of `a`
unchanged resp. the tail of `b` negated. -/
def sub (p : Nat) : PPoly → PPoly → PPoly
  | a, [] => a
  | [], y :: b => negF p y :: sub p [] b
  | x :: a, y :: b => subF p x y :: sub p a b

/-- ≙ secpols.py:138-142 `_mul`: empty if either argument is empty, else `np_convolve(a, b)` (full
convolution, length `m + n - 1`) -/
def mul (p : Nat) (a b : PPoly) : PPoly :=
  if a = [] ∨ b = [] then [] else (convN a b).map (· % p)

/-- ≙ secpols.py:442-447 `_lshift`: `n` zeros in front, except that an EMPTY array stays empty -/
def lshift (a : PPoly) (n : Nat) : PPoly := if a = [] then [] else List.replicate n 0 ++ a

/-- ≙ secpols.py:454 `_rshift`: `a[n:]` -/
def rshift (a : PPoly) (n : Nat) : PPoly := a.drop n

/-- ≙ secpols.py:349 `truncate`: `a[:n]` -/
def truncate (a : PPoly) (n : Nat) : PPoly := a.take n

/-- ≙ secpols.py:236-249 `__getitem__` for `key ≥ 0`: coefficient, 0 beyond the array -/
def getitem (a : PPoly) (i : Nat) : Nat := a.getD i 0

/-- ≙ secpols.py:650-658 `__call__`: `share @ vander(x, n, increasing=True)` = `Σ a_i x^i` in GF(p) -/
def evalAux (p x : Nat) : Nat → PPoly → Nat
  | _, [] => 0
  | xi, c :: a => (c * xi + evalAux p x (xi * x % p) a) % p

def eval (p : Nat) (a : PPoly) (x : Int) : Nat :=
  evalAux p (x % (p : Int)).toNat (1 % p) a

/-- number of trailing zeros ≙ `np_find(np_flip(a) == 0, 0)` (index of the first entry of the flipped
array that is NOT zero, `len(a)` if there is none) -/
def trailingZeros (a : PPoly) : Nat := (a.reverse.takeWhile (· = 0)).length

/-- ≙ secpols.py:252-259 `_degree`: `len(a) - 1 - find(flip(a) == 0, 0)`; −1 for the empty array -/
def degree (a : PPoly) : Int := (a.length : Int) - 1 - (trailingZeros a : Int)

/-- leading coefficient as selected in `_monic` (secpols.py:279-281): `x @ ([0] ++ a)` with `x` the unit
vector at position `degree + 1` — 0 for the zero polynomial (the prepended 0 is selected) -/
def leadingCoeff (a : PPoly) : Nat := (0 :: a).getD (degree a + 1).toNat 0

/-- ≙ secpols.py:630-633 `__eq__`: `np.all((self - other).share == 0)` -/
def eq (p : Nat) (a b : PPoly) : Bool := (sub p a b).all (· = 0)

/-- ≙ secpols.py:605-618 `_lt`: let `d = degree(a - b)`; compare the coefficients of `X^d` of `a` and `b`
as unsigned integers (both selected as 0 when `a = b`) -/
def lt (p : Nat) (a b : PPoly) : Bool :=
  let d := degree (sub p a b)
  if d < 0 then false else decide (a.getD d.toNat 0 < b.getD d.toNat 0)

/-- public result lengths: functions of the input lengths only -/
def addLen (m n : Nat) : Nat := max m n
def mulLen (m n : Nat) : Nat := if m = 0 ∨ n = 0 then 0 else m + n - 1
def lshiftLen (m n : Nat) : Nat := if m = 0 then 0 else n + m
def rshiftLen (m n : Nat) : Nat := m - n
/-- ≙ `_div`: `returnType((stype, (m,)))` (secpols.py:362), empty for empty `a` -/
def divLen (m _n : Nat) : Nat := m
/-- ≙ `_mod`: `(a - q*b)[:len(b) - 1]` (secpols.py:402, 416) -/
def modLen (m n : Nat) : Nat := min (addLen m (mulLen (divLen m n) n)) (n - 1)

end MpycV.SecPol
