/-
Support for Lean code generated from the list code of mpyc/gfpx.py by harness/py2lean_gfpx.py (core Lean only; uses the
generic combinators of PyLoop / PyList).
-/
import MpycV.Model.PyList
import MpycV.Model.PyLoop

namespace MpycV.PyPoly
open MpycV.PyList

/-- `while c and not c[-1]: del c[-1]` — strip trailing zeros -/
def pyStrip : List Int → List Int
  | [] => []
  | x :: xs =>
    match pyStrip xs with
    | [] => if x = 0 then [] else [x]
    | y :: ys => x :: y :: ys

/-- `l[i:]` (Python slice semantics: a negative start counts from the end, out-of-range starts are clipped) -/
def pySliceFrom {α : Type} (l : List α) (i : Int) : List α :=
  l.drop (if i < 0 then (i + (l.length : Int)).toNat else i.toNat)

/-- `range(a, b, -1)` -/
def pyRangeDown (a b : Int) : List Int := (List.range (a - b).toNat).map fun (k : Nat) => a - (k : Int)

/-- `int(gmpy2.invert(x, m))`: the model of the gmpy stub (tied to its source by C25) -/
def invertE (x m : Int) : Except TErr Int :=
  match NumTh.invert x m with
  | .error e => .error (ofNumTh e)
  | .ok r => .ok r

/-- `x ^ y` for x, y ≥ 0 (bitmasks) -/
def pyXor (a b : Int) : Int := ((a.toNat ^^^ b.toNat : Nat) : Int)

end MpycV.PyPoly
