/-
Executable model of /repo/mpyc/fingroups.py (value level) and of the exponentiation protocols of
/repo/mpyc/secgroups.py.  Core Lean only.

  * `GroupOps`, `repeat`                ≙ fingroups.py:190-205  FiniteGroupElement.repeat
  * `permOp`, `permInv`, `permValid`    ≙ fingroups.py:220-248  SymmetricGroupElement
  * `powMod`, `fpow`, `legendre`, `qr*`, `sg*`
                                        ≙ fingroups.py:265-331 (QuadraticResidue), 413-472 (SchnorrGroupElement)
  * `Fld` + curve formulas              ≙ fingroups.py:611-1047 (Edwards affine/projective/extended,
                                          Weierstrass affine/projective/jacobian), transcribed literally
  * `cg*`                               ≙ fingroups.py:1754-1876 class group forms (reduce, NUCOMP, NUDUPL)
  * `pubBaseExps`, `ladder`             ≙ secgroups.py:264-291

Python exceptions are modelled by `Option` (`none` = ZeroDivisionError unless stated otherwise).
-/
namespace MpycV.Groups

/-! ## Generic `repeat` (double-and-add) -/

/-- the four class methods `repeat` uses: `operation`, `operation2`, `inversion`, `identity` -/
structure GroupOps (α : Type) where
  op : α → α → α
  op2 : α → α
  inv : α → α
  id : α

/-- `int.bit_length()` for n ≥ 0 -/
def bitLength (n : Nat) : Nat := if n = 0 then 0 else Nat.log2 n + 1

/-- loop body of fingroups.py:201-204: `c = operation2(c); if (n >> i) & 1: c = operation(c, a)` -/
def ladderStep {α : Type} (G : GroupOps α) (a : α) (n : Nat) (c : α) (i : Nat) : α :=
  let c := G.op2 c
  if n.testBit i then G.op c a else c

/-- fingroups.py:200-205 for n > 0: `c = a; for i in range(n.bit_length() - 2, -1, -1): ...` -/
def repeatNat {α : Type} (G : GroupOps α) (a : α) (n : Nat) : α :=
  ((List.range (bitLength n - 1)).reverse).foldl (ladderStep G a n) a

/-- ≙ fingroups.py:190-205 `FiniteGroupElement.repeat(a, n)` -/
def «repeat» {α : Type} (G : GroupOps α) (a : α) (n : Int) : α :=
  if n = 0 then G.id
  else if n < 0 then repeatNat G (G.inv a) (-n).toNat
  else repeatNat G a n.toNat

/-- naive n-fold application (reference for the driver; not used by the code) -/
def iterOp {α : Type} (G : GroupOps α) (a : α) : Nat → α
  | 0 => G.id
  | k + 1 => G.op (iterOp G a k) a

/-! ## Symmetric groups: permutations of {0..n-1} as lists -/

/-- ≙ fingroups.py:220-229 validity check `len(value) == degree and set(value) == set(range(degree))` -/
def permValid (n : Nat) (p : List Nat) : Bool :=
  p.length == n && p.all (· < n) && (List.range n).all (fun j => p.contains j)

def permId (n : Nat) : List Nat := List.range n

/-- ≙ fingroups.py:232-234 `tuple(q.value[j] for j in p.value)` (first p then q) -/
def permOp (p q : List Nat) : List Nat := p.map (fun j => q.getD j 0)

/-- ≙ fingroups.py:237-243 `q = [None]*n; for i in range(n): q[p[i]] = i` (None ↦ 0) -/
def permInv (p : List Nat) : List Nat :=
  (List.range p.length).foldl (fun q i => q.set (p.getD i 0) i) (List.replicate p.length 0)

def permOps (n : Nat) : GroupOps (List Nat) :=
  { op := permOp, op2 := fun p => permOp p p, inv := permInv, id := permId n }

/-! ## Prime-field value arithmetic used by QR / Schnorr groups and the curves -/

/-- square-and-multiply; value of `pow(a, n, p)` for n ≥ 0 -/
def powMod (a n p : Nat) : Nat :=
  if h : n = 0 then 1 % p else
    let r := powMod a (n / 2) p
    let r2 := r * r % p
    if n % 2 = 1 then r2 * (a % p) % p else r2
termination_by n
decreasing_by omega

/-- value of `1/a` in GF(p), p prime (`gmpy2.invert`); `none` ≙ ZeroDivisionError -/
def invMod? (a p : Nat) : Option Nat :=
  if a % p = 0 then none else some (powMod a (p - 2) p)

/-- ≙ finfields.py:407-412 `a ** n` for any integer n (`pow(a, n, p)`: negative n via the inverse);
    `none` ≙ ValueError ("base is not invertible for the given modulus") -/
def fpow? (a : Nat) (n : Int) (p : Nat) : Option Nat :=
  if n ≥ 0 then some (powMod a n.toNat p)
  else (invMod? a p).map (fun ai => powMod ai (-n).toNat p)

/-- Legendre symbol by Euler's criterion (value of `gmpy2.legendre(a, p)` for an odd prime p) -/
def legendre (a p : Nat) : Int :=
  let r := powMod a ((p - 1) / 2) p
  if r = 0 then 0 else if r = 1 then 1 else -1

def mulMod (p a b : Nat) : Nat := a * b % p

/-- group operations of QR / Schnorr groups on values in [0, p) (fingroups.py:292-302, 437-447);
    `inv` of 0 (not a group element) is totalised to 0 -/
def modOps (p : Nat) : GroupOps Nat :=
  { op := mulMod p, op2 := fun a => mulMod p a a, inv := fun a => (invMod? a p).getD 0, id := 1 % p }

/-- ≙ fingroups.py:279-290 membership test of QuadraticResidue.__init__ (`value != 0 and value.is_sqr()`) -/
def qrMember (p a : Nat) : Bool := a % p != 0 && legendre a p != -1

/-- ≙ fingroups.py:424-435 membership test of SchnorrGroupElement.__init__ (`value**order == 1`) -/
def sgMember (p q a : Nat) : Bool := powMod a q p == 1 % p

/-- ≙ fingroups.py:311-325 QuadraticResidue.encode; `none` ≙ ValueError -/
def qrEncode? (p gap m : Nat) : Option (Nat × Nat) :=
  (List.range' 1 (gap - 1)).findSome? fun i =>
    if legendre i p = 1 then
      let a := m * gap + i
      if legendre a p = 1 then some (a % p, i % p) else none
    else none

/-- ≙ finfields.py `PrimeFieldElement.__int__`: signed (symmetric) or unsigned representative -/
def fieldInt (p : Nat) (signed : Bool) (v : Nat) : Int :=
  if signed && v > p / 2 then (v : Int) - p else v

/-- ≙ fingroups.py:327-331 QuadraticResidue.decode: `int((M.value - Z.value) / gap)`; `signed` is
    the `is_signed` attribute of the field type (True for a fresh `GF(p)`) -/
def qrDecode? (p gap M Z : Nat) (signed : Bool := true) : Option Int :=
  (invMod? gap p).map fun gi => fieldInt p signed (((M % p + p - Z % p) % p) * gi % p)

/-- ≙ fingroups.py:456-460 SchnorrGroupElement.encode: `g.value**m` -/
def sgEncode? (p g : Nat) (m : Int) : Option Nat := fpow? g m p

/-- loop of fingroups.py `for m in range(1024): if h != M: h = g*h else: break`, `else: raise ValueError` (repo fix df01afd;
before it the exhausted search returned 1023): the loop returns the number of the power found, or the bound (1024) when the
search is exhausted -/
def sgDecodeLoop (p g M : Nat) : Nat → Nat → Nat → Nat
  | 0, m, _ => m
  | fuel + 1, m, h => if h != M then sgDecodeLoop p g M fuel (m + 1) (mulMod p g h) else m

/-- ≙ SchnorrGroupElement.decode on the messages it finds; 1024 ≙ ValueError('message out of range') -/
def sgDecode (p g M : Nat) : Nat := sgDecodeLoop p g M 1024 0 (1 % p)

/-- ≙ SchnorrGroupElement.decode: `none` ≙ ValueError -/
def sgDecode? (p g M : Nat) : Option Nat :=
  let r := sgDecode p g M
  if r < 1024 then some r else none

/-! ## Abstract field record and the curve formulas -/

/-- what the curve code needs of `cls.field`; `inv 0` is never used by the model: every division is
    guarded and the guard failing is reported as `none` (Python: ZeroDivisionError) -/
structure Fld (F : Type) where
  add : F → F → F
  sub : F → F → F
  mul : F → F → F
  neg : F → F
  inv : F → F
  ofNat : Nat → F
  beq : F → F → Bool

section Curves
variable {F : Type} (K : Fld F)

local infixl:65 " +. " => Fld.add K
local infixl:65 " -. " => Fld.sub K
local infixl:70 " *. " => Fld.mul K
local notation "#" n => Fld.ofNat K n
local notation "sq" x => Fld.mul K x x
local infix:50 " =? " => Fld.beq K

/-- `a / b` of field elements; `none` ≙ ZeroDivisionError -/
def Fld.div? (a b : F) : Option F := if b =? (#0) then none else some (a *. K.inv b)

/-! ### Edwards curves  a x² + y² = 1 + d x² y² -/

/-- ≙ fingroups.py:620-623 `ysquared(x) = (1 - a x²)/(1 - d x²)` -/
def edYsquared? (a d x : F) : Option F :=
  let x2 := sq x
  K.div? ((#1) -. a *. x2) ((#1) -. d *. x2)

/-- ≙ fingroups.py:638-647 on-curve check of EdwardsCurvePoint.__init__ for an affine point;
    `none` ≙ ZeroDivisionError -/
def edOnCurve? (a d : F) (P : F × F) : Option Bool :=
  (edYsquared? K a d P.1).map fun r => (sq P.2) =? r

/-- ≙ fingroups.py:660-664 EdwardsAffine.inversion -/
def eaNeg (P : F × F) : F × F := (K.neg P.1, P.2)

/-- ≙ fingroups.py:666-680 EdwardsAffine.operation (mmadd-2007-bl) -/
def eaAdd? (a d : F) (P Q : F × F) : Option (F × F) :=
  let (x1, y1) := P
  let (x2, y2) := Q
  let C := x1 *. x2
  let D := y1 *. y2
  let E := d *. C *. D
  let x3 := ((#1) -. E) *. ((x1 +. y1) *. (x2 +. y2) -. C -. D)
  let y3 := ((#1) +. E) *. (D -. a *. C)
  let den := (#1) -. (sq E)
  if den =? (#0) then none else
    let z3inv := K.inv den
    some (x3 *. z3inv, y3 *. z3inv)

def eaEq (P Q : F × F) : Bool := (P.1 =? Q.1) && (P.2 =? Q.2)

/-- ≙ fingroups.py:698-702 EdwardsProjective.inversion -/
def epNeg (P : F × F × F) : F × F × F := (K.neg P.1, P.2.1, P.2.2)

/-- ≙ fingroups.py:704-720 EdwardsProjective.operation (add-2008-bbjlp) -/
def epAdd (a d : F) (P Q : F × F × F) : F × F × F :=
  let (x1, y1, z1) := P
  let (x2, y2, z2) := Q
  let A := z1 *. z2
  let B := sq A
  let C := x1 *. x2
  let D := y1 *. y2
  let E := d *. C *. D
  let Fv := B -. E
  let G := B +. E
  let x3 := A *. Fv *. ((x1 +. y1) *. (x2 +. y2) -. C -. D)
  let y3 := A *. G *. (D -. a *. C)
  let z3 := Fv *. G
  (x3, y3, z3)

/-- ≙ fingroups.py:722-727 EdwardsProjective.normalize -/
def epNorm? (P : F × F × F) : Option (F × F × F) :=
  let (x, y, z) := P
  if z =? (#0) then none else
    let zi := K.inv z
    some (x *. zi, y *. zi, #1)

/-- ≙ fingroups.py:729-733 EdwardsProjective.equality -/
def epEq (P Q : F × F × F) : Bool :=
  let (x1, y1, z1) := P
  let (x2, y2, z2) := Q
  ((x1 *. z2) =? (x2 *. z1)) && ((y1 *. z2) =? (y2 *. z1))

/-- ≙ fingroups.py:744-748 EdwardsExtended.inversion -/
def eeNeg (P : F × F × F × F) : F × F × F × F := (K.neg P.1, P.2.1, P.2.2.1, K.neg P.2.2.2)

/-- a = -1 branch of EdwardsExtended.operation (Hisil et al. Section 4.2), fingroups.py:763-767 -/
def eeAddM1 (d : F) (P Q : F × F × F × F) : F × F × F × F :=
  let (x1, y1, z1, t1) := P
  let (x2, y2, z2, t2) := Q
  let r1 := y1 -. x1
  let r2 := y2 -. x2
  let r3 := y1 +. x1
  let r4 := y2 +. x2
  let s1 := r1 *. r2
  let s2 := r3 *. r4
  let s3 := (#2) *. d *. t1 *. t2
  let s4 := (#2) *. z1 *. z2
  let u1 := s2 -. s1
  let u2 := s4 -. s3
  let u3 := s4 +. s3
  let u4 := s2 +. s1
  (u1 *. u2, u3 *. u4, u2 *. u3, u1 *. u4)

/-- general-a branch of EdwardsExtended.operation (unified addition, Hisil et al. Section 3.1),
    fingroups.py:756-761 -/
def eeAddGen (a d : F) (P Q : F × F × F × F) : F × F × F × F :=
  let (x1, y1, z1, t1) := P
  let (x2, y2, z2, t2) := Q
  let r1 := x1 *. x2
  let r2 := y1 *. y2
  let r3 := d *. t1 *. t2
  let r4 := z1 *. z2
  let s1 := (x1 +. y1) *. (x2 +. y2) -. r1 -. r2
  let s2 := r4 -. r3
  let s3 := r4 +. r3
  let s4 := r2 -. a *. r1
  (s1 *. s2, s3 *. s4, s2 *. s3, s1 *. s4)

/-- ≙ fingroups.py:750-767 EdwardsExtended.operation: `if cls.a != -1:` unified formulas, else a = -1 formulas -/
def eeAdd (a d : F) (P Q : F × F × F × F) : F × F × F × F :=
  if a =? K.neg (#1) then eeAddM1 K d P Q else eeAddGen K a d P Q

/-- a = -1 branch of EdwardsExtended.operation2, fingroups.py:776-780 -/
def eeDblM1 (d : F) (P : F × F × F × F) : F × F × F × F :=
  let (x, y, z, t) := P
  let s1 := sq (y -. x)
  let s2 := sq (y +. x)
  let s3 := (#2) *. d *. (sq t)
  let s4 := (#2) *. (sq z)
  let u1 := s2 -. s1
  let u2 := s4 -. s3
  let u3 := s4 +. s3
  let u4 := s2 +. s1
  (u1 *. u2, u3 *. u4, u2 *. u3, u1 *. u4)

/-- ≙ fingroups.py:769-780 EdwardsExtended.operation2: `if cls.a != -1: return operation(pt, pt)` -/
def eeDbl (a d : F) (P : F × F × F × F) : F × F × F × F :=
  if a =? K.neg (#1) then eeDblM1 K d P else eeAdd K a d P P

/-- ≙ fingroups.py:782-787 EdwardsExtended.normalize -/
def eeNorm? (P : F × F × F × F) : Option (F × F × F × F) :=
  let (x, y, z, _) := P
  if z =? (#0) then none else
    let zi := K.inv z
    let x' := x *. zi
    let y' := y *. zi
    some (x', y', #1, x' *. y')

/-- ≙ fingroups.py:789-793 EdwardsExtended.equality -/
def eeEq (P Q : F × F × F × F) : Bool :=
  let (x1, y1, z1, _) := P
  let (x2, y2, z2, _) := Q
  ((x1 *. z2) =? (x2 *. z1)) && ((y1 *. z2) =? (y2 *. z1))

/-! ### Short Weierstrass curves  y² = x³ + a x + b -/

/-- ≙ fingroups.py:805-807 -/
def wYsquared (a b x : F) : F := (sq x) *. x +. a *. x +. b

/-- affine points: `none` is the identity `()` -/
abbrev WAff (F : Type) := Option (F × F)

def waEq (P Q : WAff F) : Bool :=
  match P, Q with
  | none, none => true
  | some (x1, y1), some (x2, y2) => (x1 =? x2) && (y1 =? y2)
  | _, _ => false

/-- ≙ fingroups.py:841-848 WeierstrassAffine.inversion -/
def waNeg (P : WAff F) : WAff F :=
  match P with
  | none => none
  | some (x, y) => some (x, K.neg y)

/-- ≙ fingroups.py:872-885 WeierstrassAffine.operation2 -/
def waDbl (a : F) (P : WAff F) : WAff F :=
  match P with
  | none => none
  | some (x, y) =>
    if y =? (#0) then none else
      let r := ((#3) *. (sq x) +. a) *. K.inv ((#2) *. y)
      let x2 := (sq r) -. (#2) *. x
      let y2 := r *. (x -. x2) -. y
      some (x2, y2)

/-- ≙ fingroups.py:850-870 WeierstrassAffine.operation -/
def waAdd (a : F) (P Q : WAff F) : WAff F :=
  match P, Q with
  | none, _ => Q
  | _, none => P
  | some (x1, y1), some (x2, y2) =>
    if (x1 =? x2) && (y1 =? y2) then waDbl K a P
    else if x1 =? x2 then none
    else
      let r := (y1 -. y2) *. K.inv (x1 -. x2)
      let x3 := (sq r) -. x1 -. x2
      let y3 := r *. (x1 -. x3) -. y1
      some (x3, y3)

/-- ≙ fingroups.py:903-907 WeierstrassProjective.inversion -/
def wpNeg (P : F × F × F) : F × F × F := (P.1, K.neg P.2.1, P.2.2)

/-- ≙ fingroups.py:909-928 WeierstrassProjective.operation (Renes–Costello–Batina Alg. 7, a = 0) -/
def wpAdd (b : F) (P Q : F × F × F) : F × F × F :=
  let (x1, y1, z1) := P
  let (x2, y2, z2) := Q
  let b3 := (#3) *. b
  let t0 := x1 *. x2
  let t1 := y1 *. y2
  let t2 := z1 *. z2
  let t3 := (x1 +. y1) *. (x2 +. y2) -. t0 -. t1
  let t4 := (y1 +. z1) *. (y2 +. z2) -. t1 -. t2
  let y3 := b3 *. ((x1 +. z1) *. (x2 +. z2) -. t0 -. t2)
  let t0 := t0 *. (#3)
  let t2 := t2 *. b3
  let z3 := t1 +. t2
  let t1 := t1 -. t2
  let x3 := t3 *. t1 -. t4 *. y3
  let y3 := t0 *. y3 +. t1 *. z3
  let z3 := t4 *. z3 +. t0 *. t3
  (x3, y3, z3)

/-- ≙ fingroups.py:930-944 WeierstrassProjective.operation2 (RCB Alg. 9, a = 0) -/
def wpDbl (b : F) (P : F × F × F) : F × F × F :=
  let (x, y, z) := P
  let t0 := sq y
  let z2 := (#8) *. t0
  let t2 := (#3) *. b *. (sq z)
  let x2 := t2 *. z2
  let y2 := t0 +. t2
  let z2 := z2 *. (y *. z)
  let t0 := t0 -. (#3) *. t2
  let y2 := t0 *. y2 +. x2
  let x2 := (#2) *. t0 *. x *. y
  (x2, y2, z2)

/-- ≙ fingroups.py:946-954 WeierstrassProjective.normalize -/
def wpNorm (P : F × F × F) : F × F × F :=
  let (x, y, z) := P
  if z =? (#0) then (#0, #1, #0) else
    let zi := K.inv z
    (x *. zi, y *. zi, #1)

/-- ≙ fingroups.py:956-963 WeierstrassProjective.equality -/
def wpEq (P Q : F × F × F) : Bool :=
  let (x1, y1, z1) := P
  let (x2, y2, z2) := Q
  if (z1 =? (#0)) && (z2 =? (#0)) then true
  else ((x1 *. z2) =? (x2 *. z1)) && ((y1 *. z2) =? (y2 *. z1))

/-- ≙ fingroups.py:974-978 WeierstrassJacobian.inversion -/
def wjNeg (P : F × F × F) : F × F × F := (P.1, K.neg P.2.1, P.2.2)

/-- ≙ fingroups.py:1012-1026 WeierstrassJacobian.operation2 (dbl-2009-l, a = 0) -/
def wjDbl (P : F × F × F) : F × F × F :=
  let (x1, y1, z1) := P
  let a := sq x1
  let b := sq y1
  let c := sq b
  let d := (#2) *. ((sq (x1 +. b)) -. a -. c)
  let e := (#3) *. a
  let f := sq e
  let x2 := f -. (#2) *. d
  let y2 := e *. (d -. x2) -. (#8) *. c
  let z2 := (#2) *. y1 *. z1
  (x2, y2, z2)

/-- ≙ fingroups.py:980-1010 WeierstrassJacobian.operation (add-2007-bl) -/
def wjAdd (P Q : F × F × F) : F × F × F :=
  let (x1, y1, z1) := P
  let (x2, y2, z2) := Q
  if z1 =? (#0) then Q
  else if z2 =? (#0) then P
  else
    let z1z1 := sq z1
    let z2z2 := sq z2
    let u1 := x1 *. z2z2
    let u2 := x2 *. z1z1
    let s1 := y1 *. z2 *. z2z2
    let s2 := y2 *. z1 *. z1z1
    let h := u2 -. u1
    let r := (#2) *. (s2 -. s1)
    if (h =? (#0)) && (r =? (#0)) then wjDbl K P
    else
      let i := sq ((#2) *. h)
      let j := h *. i
      let v := u1 *. i
      let x3 := (sq r) -. j -. (#2) *. v
      let y3 := r *. (v -. x3) -. (#2) *. s1 *. j
      let z3 := ((sq (z1 +. z2)) -. z1z1 -. z2z2) *. h
      (x3, y3, z3)

/-- ≙ fingroups.py:1028-1037 WeierstrassJacobian.normalize -/
def wjNorm (P : F × F × F) : F × F × F :=
  let (x, y, z) := P
  if z =? (#0) then (#0, #1, #0) else
    let zi := K.inv z
    let zi2 := sq zi
    (x *. zi2, y *. zi *. zi2, #1)

/-- ≙ fingroups.py:1039-1047 WeierstrassJacobian.equality -/
def wjEq (P Q : F × F × F) : Bool :=
  let (x1, y1, z1) := P
  let (x2, y2, z2) := Q
  if (z1 =? (#0)) && (z2 =? (#0)) then true
  else
    let z12 := sq z1
    let z22 := sq z2
    ((x1 *. z22) =? (x2 *. z12)) && ((y1 *. z2 *. z22) =? (y2 *. z1 *. z12))

/-- ≙ fingroups.py:820-828 on-curve check of WeierstrassCurvePoint.__init__ (projective / jacobian
    flag as in the code: `isinstance(self, WeierstrassJacobian)`); z = 0 is accepted unchecked -/
def wOnCurve (a b : F) (jac : Bool) (P : F × F × F) : Bool :=
  let (x, y, z) := P
  if z =? (#0) then true else
    let zi := K.inv z
    let (x', y') := if jac then (x *. (sq zi), y *. (zi *. (sq zi))) else (x *. zi, y *. zi)
    (sq y') =? wYsquared K a b x'

/-! ### secure variants (secgroups.py) evaluated on field elements -/

/-- ≙ runtime.if_else on field elements: `c * (a - b) + b` -/
def ifElse (c a b : F) : F := c *. (a -. b) +. b

/-- ≙ secgroups.py:485-492 secure normalize of WeierstrassProjective points (`zis0 = [z == 0]`) -/
def secWpNorm (P : F × F × F) : F × F × F :=
  let (x, y, z) := P
  let zis0 := if z =? (#0) then (#1) else (#0)
  let zinv := K.inv (z +. zis0)
  let c0 := ifElse K zis0 (#0) x
  let c1 := ifElse K zis0 (#1) y
  (zinv *. c0, zinv *. c1, (#1) -. zis0)

end Curves

/-- GF(p) on canonical representatives in [0, p) (value level of PrimeFieldElement) -/
def primeFld (p : Nat) : Fld Nat :=
  { add := fun a b => (a + b) % p
    sub := fun a b => (a + (p - b % p)) % p
    mul := fun a b => a * b % p
    neg := fun a => (p - a % p) % p
    inv := fun a => powMod a (p - 2) p
    ofNat := fun n => n % p
    beq := fun a b => a == b }

/-! ## Class groups of imaginary quadratic fields (forms (a,b,c), b² - 4ac = D < 0) -/

/-- Python `//` (floor division) -/
def pdiv (a b : Int) : Int := Int.fdiv a b
/-- Python `%` -/
def pmod (a b : Int) : Int := Int.fmod a b

/-- the loop of `_reduce` (fingroups.py:1760-1763) with fuel; `none` = fuel exhausted -/
def cgReduceLoop : Nat → Int × Int × Int → Option (Int × Int × Int)
  | 0, _ => none
  | fuel + 1, (a, b, c) =>
    if (-a < b ∧ b ≤ a ∧ a ≤ c) ∧ (a ≠ c ∨ b ≥ 0) then some (a, b, c)
    else
      let s := pdiv (c + b) (2 * c)
      cgReduceLoop fuel (c, -b + 2 * s * c, c * s ^ 2 - b * s + a)

/-- ≙ fingroups.py:1754-1764 ClassGroupForm._reduce (Cohen Alg. 5.4.2) -/
def cgReduce? (f : Int × Int × Int) : Option (Int × Int × Int) :=
  let (a, b, c) := f
  let r := pdiv (a - b) (2 * a)
  let b' := b + 2 * r * a
  let c' := a * r ^ 2 + b * r + c
  cgReduceLoop (4 * (a.natAbs.log2 + c'.natAbs.log2) + 64) (a, b', c')

/-- ≙ fingroups.py:1872-1876 ClassGroupForm.inversion -/
def cgInv? (f : Int × Int × Int) : Option (Int × Int × Int) := cgReduce? (f.1, -f.2.1, f.2.2)

/-- discriminant b² - 4ac -/
def cgDisc (f : Int × Int × Int) : Int := f.2.1 ^ 2 - 4 * f.1 * f.2.2

/-- principal form ≙ fingroups.py:1728-1731 -/
def cgIdentity (D : Int) : Int × Int × Int :=
  let k := pmod D 2
  (1, k, pdiv (k ^ 2 - D) 4)

/-! ## secgroups: exponentiation protocols (value level) -/

/-- ≙ secgroups.py:264-272: `b = a; c = if_else(x[0], a, identity); for x_i in x[1:]: b = b@b;
    c = if_else(x_i, c@b, c)`; bits LSB first -/
def ladderGo {α : Type} (G : GroupOps α) : List Bool → α → α → α
  | [], _, c => c
  | x :: xs, b, c =>
    let b := G.op2 b
    ladderGo G xs b (if x then G.op c b else c)

def ladder {α : Type} (G : GroupOps α) (a : α) (bits : List Bool) : α :=
  match bits with
  | [] => G.id   -- not reachable: to_bits returns ≥ 1 bit
  | x0 :: xs => ladderGo G xs a (if x0 then a else G.id)

/-- Lagrange recombination vector at 0 for points 1..m over GF(q) (thresha.py `_recombination_vector`):
    λ_i = ∏_{j≠i} j / (j - i) -/
def recombVec (q m : Nat) : List Nat :=
  (List.range m).map fun i0 =>
    let i := i0 + 1
    let K := primeFld q
    ((List.range m).filter (· != i0)).foldl
      (fun acc j0 => let j := j0 + 1
        K.mul acc (K.mul (j % q) (K.inv (K.sub (j % q) (i % q))))) (1 % q)

/-- ≙ secgroups.py:283-285: `e_i = int(lambda_i * x_i)` for all parties (shares x_i in GF(q)) -/
def pubBaseExps (q : Nat) (shares : List Nat) : List Nat :=
  List.zipWith (fun l x => l * x % q) (recombVec q shares.length) shares

/-- ≙ secgroups.py:289-291: product over the parties of `a^{e_i}` -/
def pubBaseCombine {α : Type} (G : GroupOps α) (a : α) (es : List Nat) : α :=
  match es.map (fun (e : Nat) => «repeat» G a (Int.ofNat e)) with
  | [] => G.id
  | c :: cs => cs.foldl G.op c

end MpycV.Groups
