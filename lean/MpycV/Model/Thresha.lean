/-
Executable model of /repo/mpyc/thresha.py (core Lean only, no Mathlib).

API (used by C11, C12, C13, C14, C15, C17):
  structure FieldOps F            zero one add neg mul inv ofNat   (+ derived `sub`)
  horner o c x                    y = 0; for c_j in c: y = (y + c_j) * x
  shareAt o s c i1                horner o c (ofNat i1) + s                (one share of one secret)
  coeffsFor coeffs t h            the t coefficients drawn for secret number h (randbelow call order)
  randomSplit o s coeffs t m      m rows (party i = row i, x-coordinate i+1), one column per secret
  randomSplitE                    same, with the ValueError for fields of at most m elements when t > 0
  recombVec o xs xr               Lagrange recombination vector exactly as _recombination_vector computes it
  recombVecE                      same, ZeroDivisionError when some denominator is zero
  dot, column, recombine o xs shares xrs        sums[r][h] = Σ_i shares[i][h] * vector[r][i]
  recombineE                      with ValueError / ZeroDivisionError / IndexError as raised by the code
  recombine1 o xs shares xr       scalar x_rs variant (row 0)
  outside m S, fSi o m i S        f_S evaluated for party i
  prssShare o m i prfs n, prssZero o m i prfs n     prfs : List (S × PRF outputs already embedded in F)
  bitLength, byteLength bound keyLen, leToNat, prfPost bound keyLen digest n, shapeCount, prfCallE
  powMod, modP p : FieldOps Nat   executable prime field on canonical representatives 0..p-1
  tableOps q add mul : FieldOps Nat   executable field given by explicit addition/multiplication tables
-/
namespace MpycV.Thresha

/-- what `thresha` needs of a field: the operations used on `field.value`s and the embedding `field(int)` -/
structure FieldOps (F : Type) where
  zero : F
  one : F
  add : F → F → F
  neg : F → F
  mul : F → F → F
  inv : F → F
  ofNat : Nat → F

namespace FieldOps
variable {F : Type}
def sub (o : FieldOps F) (a b : F) : F := o.add a (o.neg b)
end FieldOps

variable {F : Type}

/-! ### random_split  ≙ thresha.py:23-44 -/

/-- `y = _0; for c_j in c: y = (y + c_j) * i1`  ≙ thresha.py:40-42 -/
def horner (o : FieldOps F) (c : List F) (x : F) : F :=
  c.foldl (fun y cj => o.mul (o.add y cj) x) o.zero

/-- `shares[i1-1][h] = (y + s_h) % p`  ≙ thresha.py:43 (reduction mod p = arithmetic in F) -/
def shareAt (o : FieldOps F) (s : F) (c : List F) (i1 : Nat) : F :=
  o.add (horner o c (o.ofNat i1)) s

/-- the coefficients `c = [secrets.randbelow(order) for _ in range(t)]` drawn for secret number `h`,
as a slice of the stream of all `randbelow` results in call order  ≙ thresha.py:37 -/
def coeffsFor (coeffs : List F) (t h : Nat) : List F := (coeffs.drop (h * t)).take t

/-- matrix of shares, one row per party  ≙ thresha.py:23-44 -/
def randomSplit (o : FieldOps F) (s : List F) (coeffs : List F) (t m : Nat) : List (List F) :=
  (List.range m).map fun i =>
    s.zipIdx.map fun (sh : F × Nat) => shareAt o sh.1 (coeffsFor coeffs t sh.2) (i + 1)

/-- with the ValueError for a field of at most `m` elements when `t > 0` (thresha.py: `if t and m >= order`; party
`order` would evaluate the polynomial at 0).  An empty batch is dealt as `m` empty rows (`len(s) > 0 and …`). -/
def randomSplitE (o : FieldOps F) (order : Nat) (s : List F) (coeffs : List F) (t m : Nat) :
    Except String (List (List F)) :=
  if t ≠ 0 ∧ m ≥ order then .error "ValueError" else .ok (randomSplit o s coeffs t m)

/-! ### _recombination_vector  ≙ thresha.py:67-85 -/

/-- numerator and denominator products for index `i`  ≙ thresha.py:78-83 -/
def recombND (o : FieldOps F) (xs : List F) (xr : F) (xi : F) (i : Nat) : F × F :=
  xs.zipIdx.foldl
    (fun (nd : F × F) (xj : F × Nat) =>
      if i ≠ xj.2 then (o.mul nd.1 (o.sub xr xj.1), o.mul nd.2 (o.sub xi xj.1)) else nd)
    (o.one, o.one)

/-- `vector.append((coefficient_n / coefficient_d).value)`  ≙ thresha.py:76-85 -/
def recombVec (o : FieldOps F) (xs : List F) (xr : F) : List F :=
  xs.zipIdx.map fun (xi : F × Nat) =>
    let nd := recombND o xs xr xi.1 xi.2
    o.mul nd.1 (o.inv nd.2)

/-- division by a zero denominator raises ZeroDivisionError (finfields `/`) -/
def recombVecE [DecidableEq F] (o : FieldOps F) (xs : List F) (xr : F) : Except String (List F) :=
  if xs.zipIdx.any (fun (xi : F × Nat) => decide ((recombND o xs xr xi.1 xi.2).2 = o.zero)) then
    .error "ZeroDivisionError"
  else .ok (recombVec o xs xr)

/-! ### recombine  ≙ thresha.py:88-116 -/

/-- `acc = 0; for (x, y): acc += x * y` -/
def dot (o : FieldOps F) (a b : List F) : F :=
  (a.zip b).foldl (fun acc (xy : F × F) => o.add acc (o.mul xy.1 xy.2)) o.zero

/-- `[share_i[h] for share_i in shares]` -/
def column (o : FieldOps F) (shares : List (List F)) (h : Nat) : List F :=
  shares.map fun sh => sh.getD h o.zero

/-- `sums[r][h] = Σ_i shares[i][h] * vector[r][i]`, `n = len(shares[0])`  ≙ thresha.py:93-116 -/
def recombine (o : FieldOps F) (xs : List F) (shares : List (List F)) (xrs : List F) :
    List (List F) :=
  let n := (shares.headD []).length
  xrs.map fun xr =>
    let v := recombVec o xs xr
    (List.range n).map fun h => dot o (column o shares h) v

/-- scalar `x_rs`: `sums = sums[0]`  ≙ thresha.py:114-115 -/
def recombine1 (o : FieldOps F) (xs : List F) (shares : List (List F)) (xr : F) : List F :=
  (recombine o xs shares [xr]).headD []

/-- the exceptions of `recombine` in the order the code raises them:
`xs, shares = list(zip(*points))` on no points (ValueError), the division in the recombination vector
(ZeroDivisionError), short rows (IndexError); zero-length share vectors recombine to empty rows -/
def recombineE [DecidableEq F] (o : FieldOps F) (xs : List F) (shares : List (List F))
    (xrs : List F) : Except String (List (List F)) :=
  if xs.isEmpty || shares.isEmpty || xs.length != shares.length then .error "ValueError"
  else if xrs.any (fun xr => match recombVecE o xs xr with | .error _ => true | .ok _ => false) then
    .error "ZeroDivisionError"
  else
    let n := (shares.headD []).length
    if shares.any (fun sh => sh.length < n) then .error "IndexError"
    else .ok (recombine o xs shares xrs)

/-! ### _f_S_i  ≙ thresha.py:135-141 -/

/-- `[x for x in range(m) if x not in S]` -/
def outside (m : Nat) (S : List Nat) : List Nat := (List.range m).filter fun x => !S.contains x

/-- `points = [(0, [1])] + [(x+1, [0]) for x in range(m) if x not in S]; recombine(field, points, i+1)[0]` -/
def fSi (o : FieldOps F) (m i : Nat) (S : List Nat) : F :=
  let out := outside m S
  let xs := o.ofNat 0 :: out.map fun x => o.ofNat (x + 1)
  let shares := [o.one] :: out.map fun _ => [o.zero]
  (recombine1 o xs shares (o.ofNat (i + 1))).headD o.zero

/-! ### pseudorandom_share / pseudorandom_share_zero  ≙ thresha.py:144-160, 176-199
`prfs` lists, in dict iteration order, the subsets S with the PRF outputs `prf_S(uci, ·)` (embedded in F). -/

/-- `sums[h] += prl[h] * f_S_i`  ≙ thresha.py:151-160 -/
def prssShare (o : FieldOps F) (m i : Nat) (prfs : List (List Nat × List F)) (n : Nat) : List F :=
  (List.range n).map fun h =>
    prfs.foldl (fun acc (Sp : List Nat × List F) =>
      o.add acc (o.mul (Sp.2.getD h o.zero) (fSi o m i Sp.1))) o.zero

/-- `y = _0; for j in range(d): y = (y + prl[h*d + j]) * i1; sums[h] += y * f_S_i`, `d = m - len(S)`
≙ thresha.py:183-199 -/
def prssZero (o : FieldOps F) (m i : Nat) (prfs : List (List Nat × List F)) (n : Nat) : List F :=
  (List.range n).map fun h =>
    prfs.foldl (fun acc (Sp : List Nat × List F) =>
      let d := m - Sp.1.length
      let y := horner o ((Sp.2.drop (h * d)).take d) (o.ofNat (i + 1))
      o.add acc (o.mul y (fSi o m i Sp.1))) o.zero

/-! ### PRF  ≙ thresha.py:220-266 (the SHAKE-128 digest is an input of the model) -/

/-- Python `int.bit_length()` on a natural number -/
def bitLength (n : Nat) : Nat := if n = 0 then 0 else Nat.log2 n + 1

/-- `self.byte_length`  ≙ thresha.py:235-237.  For `bound = 0` Python computes `(-1).bit_length() = 1`
and `0 & -1 = 0`. -/
def byteLength (bound keyLen : Nat) : Nat :=
  if bound = 0 then 1 else
  let l := (bitLength (bound - 1) + 7) / 8
  if bound &&& (bound - 1) ≠ 0 then l + keyLen else l

/-- `int.from_bytes(bs, 'little')` -/
def leToNat (bs : List Nat) : Nat := bs.foldr (fun b acc => b + 256 * acc) 0

/-- the list `x` built in `PRF.__call__` for `n_` values from the digest `dk` ≙ thresha.py:252-262
(`digest` = `shake_128(key + s).digest(n_ * l)`; slices as Python slices: short digests give short words) -/
def prfPost (bound keyLen : Nat) (digest : List Nat) (n : Nat) : List Nat :=
  let l := byteLength bound keyLen
  if n = 0 then []
  else if l = 0 then List.replicate n 0
  else (List.range n).map fun k => leToNat ((digest.drop (k * l)).take l) % bound

/-- `n = prod(shape)` for a shape tuple  ≙ thresha.py:247-248 (`math.prod`, empty shape -> 1) -/
def shapeCount (shape : List Nat) : Nat := shape.foldl (· * ·) 1

/-- result of `PRF(key, bound)(s, n)` with `n : Option Nat` (`none` = Python `None`), the digest being
supplied by `xof len = shake_128(key + s).digest(len)`; `% 0` raises ZeroDivisionError.
Returns the list `x`; for `n = none` the caller takes element 0 (`x[0]`). -/
def prfCallE (bound keyLen : Nat) (xof : Nat → List Nat) (n : Option Nat) : Except String (List Nat) :=
  let n_ := n.getD 1
  if bound = 0 ∧ n_ ≠ 0 then .error "ZeroDivisionError"
  else .ok (prfPost bound keyLen (xof (n_ * byteLength bound keyLen)) n_)

/-! ### executable prime field on canonical representatives -/

/-- `a^e mod p` by repeated squaring -/
def powMod (a e p : Nat) : Nat :=
  if h : e = 0 then 1 % p
  else
    let r := powMod a (e / 2) p
    let r2 := r * r % p
    if e % 2 = 1 then r2 * a % p else r2
termination_by e
decreasing_by omega

/-- GF(p) on representatives `0..p-1`; inverse by Fermat (`a^(p-2)`), `inv 0 = 0` -/
def modP (p : Nat) : FieldOps Nat where
  zero := 0
  one := 1 % p
  add a b := (a + b) % p
  neg a := (p - a % p) % p
  mul a b := a * b % p
  inv a := if a % p = 0 then 0 else powMod a (p - 2) p
  ofNat n := n % p

/-- field of order `q` given by its addition and multiplication tables (row-major, `q*q` entries) on the
integer encodings `0..q-1` used by mpyc (`int(a.value)`); neg/inv by search; `ofNat n = n % q` -/
def tableOps (q : Nat) (addT mulT : Array Nat) : FieldOps Nat where
  zero := 0
  one := 1 % q
  add a b := addT.getD (a % q * q + b % q) 0
  neg a := ((List.range q).find? fun b => addT.getD (a % q * q + b) 0 == 0).getD 0
  mul a b := mulT.getD (a % q * q + b % q) 0
  inv a := ((List.range q).find? fun b => mulT.getD (a % q * q + b) 0 == 1 % q).getD 0
  ofNat n := n % q

end MpycV.Thresha
