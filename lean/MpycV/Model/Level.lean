/-
M5/Level: the barrier / shutdown bookkeeping of mpyc (core Lean only).

≙ asyncoro.py:426-462  mpc_coro.typed_asyncoro: `_pc_level += 1` at the call; `-= 1` on every way out:
                       StopIteration or exception at the first send, the no_async loop, or the task's
                       done-callback `_reconcile` (first statement, also when the task raised)
≙ runtime.py:162-171   barrier: `while _pc_level > _program_counter[1]: await sleep(0)`
≙ runtime.py:299-326   shutdown: barrier loop; sync `transfer` with all parties; close connections to
                       higher parties; wait until all connections are gone
-/
namespace MpycV.Level

/-- the ways a call of an MPyC coroutine can go (asyncoro.py:427-462) -/
inductive Outcome where
  | earlyReturn     -- StopIteration at the first send (no await reached): level -= 1, value returned
  | earlyRaise      -- exception at the first send: level -= 1, re-raised
  | noAsyncDone     -- no_async mode: run to completion synchronously: level -= 1
  | noAsyncRaise    -- no_async mode: exception while running: level -= 1
  | task            -- a Task is created; `_reconcile` will run when it is done
  deriving Repr, DecidableEq

/-- events in the life of one party's runtime -/
inductive Ev where
  | call (id : Nat) (o : Outcome)   -- typed_asyncoro entered and left for coroutine `id`
  | finish (id : Nat)               -- the Task of coroutine `id` completes (result or exception)
  | reconcile (id : Nat)            -- its done-callback `_reconcile` runs
  deriving Repr, DecidableEq

structure State where
  level : Int                 -- Runtime._pc_level
  running : List Nat          -- coroutines whose Task has not completed
  unreconciled : List Nat     -- coroutines whose `_reconcile` has not run (superset of running)
  deriving Repr, DecidableEq

def State.init : State := { level := 0, running := [], unreconciled := [] }

def step (s : State) : Ev → State
  | Ev.call id Outcome.task =>
    { level := s.level + 1, running := id :: s.running, unreconciled := id :: s.unreconciled }
  | Ev.call _ _ => { s with level := s.level + 1 - 1 }   -- += 1 at entry, -= 1 on the way out
  | Ev.finish id => { s with running := s.running.filter (· != id) }
  | Ev.reconcile id =>
    { s with level := s.level - 1, unreconciled := s.unreconciled.filter (· != id) }

def run (s : State) (evs : List Ev) : State := evs.foldl step s

/-- a history is well formed when ids of task calls are fresh, a task finishes once after its call and
is reconciled once, after it finished (asyncio runs done-callbacks after completion) -/
def wfB : State → List Nat → List Ev → Bool     -- state, ids used so far, remaining events
  | _, _, [] => true
  | s, used, Ev.call id Outcome.task :: rest => !used.contains id && wfB (step s (Ev.call id Outcome.task)) (id :: used) rest
  | s, used, Ev.call id o :: rest => wfB (step s (Ev.call id o)) used rest
  | s, used, Ev.finish id :: rest => s.running.contains id && wfB (step s (Ev.finish id)) used rest
  | s, used, Ev.reconcile id :: rest =>
    (s.unreconciled.contains id && !s.running.contains id) && wfB (step s (Ev.reconcile id)) used rest

/-! ### shutdown as a transition system over m parties -/

/-- stage of a party in `shutdown()`: 0 computing, 1 passed the barrier loop and sent its sync
message to everybody, 2 received everybody's sync message and closed its connections -/
abbrev Stages := List Nat

inductive ShStep where
  | pass (i : Nat)     -- party i leaves the barrier loop (its level is ≤ 0) and sends the sync messages
  | close (i : Nat)    -- party i has all sync messages and closes connections

def shEnabled (levels : List Int) (st : Stages) : ShStep → Bool
  | ShStep.pass i => st.getD i 0 == 0 && decide (levels.getD i 1 ≤ 0)
  | ShStep.close i => st.getD i 0 == 1 && st.all (· ≥ 1)

def shApply (st : Stages) : ShStep → Stages
  | ShStep.pass i => st.set i 1
  | ShStep.close i => st.set i 2

end MpycV.Level
