/-
Share layer (core Lean only): what the m parties hold for one secure value, and how the runtime transforms it.

  xsOf o n                        x-coordinates of parties 0..n-1: `field(i+1)`
  interp o t shares x             value at x of the interpolant through the first t+1 shares (parties 0..t)
  consistentOps o t shares        decision procedure: do the shares s_0..s_{m-1} (party i at x = i+1) lie on a
                                  polynomial of degree ≤ t?  `some secret` / `none`   (needs t < m)
  consistentB p t shares          the same over GF(p) (`modP p`), shares reduced mod p first
  mulShares o a b                 local multiplication: pointwise products   ≙ runtime.py mul: `a * b` on shares
  addShares / subShares / negShares / smulShares / addConst      local linear operations on share vectors
  reshareParty o m t uci i sub    party i's new share in `_reshare`          ≙ runtime.py:661-680
  reshareShares o t m uci rows    all m new shares, given the dealers' subshare rows
  reshareSharesE                  same, `none` when a needed dealer row is missing / too short
  sumDealt o rows                 no-PRSS `_randoms`: each party adds the shares dealt by the t+1 senders
                                  ≙ runtime.py:4065  `field(sum(a.value for a in _))`
  senders m t uci                 `tuple((uci + i) % m for i in range(t+1))`   ≙ runtime.py:4051
  choose, maskDiv, maskBound      `1 << max(0, (bound // d).bit_length() - 1)` ≙ runtime.py:4047-4048
  maskBoundPow e m t noPrss       the same for `bound = 1 << e`
  convertBound e m t noPrss       `(1 << (k+l)) // d + 1`                      ≙ runtime.py:736-739
-/
import MpycV.Model.Thresha
import MpycV.Model.Comm

namespace MpycV.Share

open MpycV.Thresha

variable {F : Type}

/-! ### consistency check by interpolation -/

/-- x-coordinates `field(i+1)` of parties `0..n-1` -/
def xsOf (o : FieldOps F) (n : Nat) : List F := (List.range n).map fun i => o.ofNat (i + 1)

/-- value at `x` of the polynomial of degree ≤ t through the shares of parties `0..t`
(computed with the recombination vector of thresha, as `recombine` does) -/
def interp (o : FieldOps F) (t : Nat) (shares : List F) (x : F) : F :=
  dot o (shares.take (t + 1)) (recombVec o (xsOf o (t + 1)) x)

/-- `some v`: all `m = shares.length > t` shares lie on the polynomial of degree ≤ t through the first
`t+1` of them, and `v` is its value at 0; `none`: they do not (or `m ≤ t`: secret undetermined) -/
def consistentOps [DecidableEq F] (o : FieldOps F) (t : Nat) (shares : List F) : Option F :=
  if shares.length ≤ t then none
  else if (List.range shares.length).all
      (fun i => decide (interp o t shares (o.ofNat (i + 1)) = shares.getD i o.zero)) then
    some (interp o t shares (o.ofNat 0))
  else none

/-- the decision procedure over GF(p) on arbitrary natural representatives -/
def consistentB (p t : Nat) (shares : List Nat) : Option Nat :=
  consistentOps (modP p) t (shares.map (· % p))

/-! ### local operations on share vectors (index = party) -/

/-- `a * b` evaluated locally by every party on its own shares (degree doubles) -/
def mulShares (o : FieldOps F) (a b : List F) : List F := List.zipWith o.mul a b
def addShares (o : FieldOps F) (a b : List F) : List F := List.zipWith o.add a b
def subShares (o : FieldOps F) (a b : List F) : List F := List.zipWith o.sub a b
def negShares (o : FieldOps F) (a : List F) : List F := a.map o.neg
/-- multiplication by a public constant -/
def smulShares (o : FieldOps F) (c : F) (a : List F) : List F := a.map (o.mul c)
/-- addition of a public constant: every party adds it to its share -/
def addConst (o : FieldOps F) (c : F) (a : List F) : List F := a.map fun s => o.add s c

/-! ### _reshare  ≙ runtime.py:658-680 -/

/-- new share of party `i`: recombination at 0 of the subshares `sub d` received from the dealers `d`
(x-coordinate `d + 1`), in the order in which the code builds `points` (`Comm.reshPoints`: received
messages in the order `uci, uci+1, …`, own subshare last). -/
def reshareParty (o : FieldOps F) (m t uci i : Nat) (sub : Nat → F) : F :=
  let pts := Comm.reshPoints m t i uci
  (recombine1 o (pts.map o.ofNat) (pts.map fun x => [sub (x - 1)]) (o.ofNat 0)).headD o.zero

/-- row of dealer `d` in an association list -/
def rowOf (rows : List (Nat × List F)) (d : Nat) : Option (List F) :=
  (rows.find? fun r => r.1 == d).map (·.2)

/-- all `m` new shares; `rows` = for each dealer `j` its subshares for parties `0..m-1` (one secret) -/
def reshareShares (o : FieldOps F) (t m uci : Nat) (rows : List (Nat × List F)) : List F :=
  (List.range m).map fun i =>
    reshareParty o m t uci i fun d => ((rowOf rows d).getD []).getD i o.zero

/-- the dealers: `(uci + k) % m`, `k = 0..2t`  ≙ runtime.py:661, 673 -/
def dealers (m t uci : Nat) : List Nat := (List.range (2 * t + 1)).map fun k => (uci + k) % m

/-- as `reshareShares`, but `none` if a dealer's row is missing or shorter than `m` -/
def reshareSharesE (o : FieldOps F) (t m uci : Nat) (rows : List (Nat × List F)) : Option (List F) :=
  if (dealers m t uci).all (fun d => match rowOf rows d with | some r => decide (m ≤ r.length) | none => false)
  then some (reshareShares o t m uci rows) else none

/-! ### no-PRSS randomness  ≙ runtime.py:4050-4066 -/

/-- `senders = tuple((uci + i) % m for i in range(t+1))` -/
def senders (m t uci : Nat) : List Nat := (List.range (t + 1)).map fun i => (uci + i) % m

/-- `field(sum(a.value for a in _))` for every party: `rows[j]` = the sharing dealt by sender number `j`
(its shares for parties `0..m-1`); party `i` adds up column `i`. -/
def sumDealt (o : FieldOps F) (m : Nat) (rows : List (List F)) : List F :=
  (List.range m).map fun i => rows.foldl (fun acc r => o.add acc (r.getD i o.zero)) o.zero

/-! ### mask ranges  ≙ runtime.py:4047-4048, 736-739 -/

/-- `math.comb(n, k)` (Pascal's rule) -/
def choose : Nat → Nat → Nat
  | _, 0 => 1
  | 0, _ + 1 => 0
  | n + 1, k + 1 => choose n k + choose n (k + 1)

/-- `d = t+1 if no_prss else math.comb(m, t)` -/
def maskDiv (m t : Nat) (noPrss : Bool) : Nat := if noPrss then t + 1 else choose m t

/-- `1 << max(0, (bound // d).bit_length() - 1)`: the bound handed to `PRF` / `randbelow`
(natural subtraction = `max(0, ·)`; `d = 0` only for `t > m`, where Python raises ZeroDivisionError) -/
def maskBound (bound m t : Nat) (noPrss : Bool) : Nat :=
  1 <<< (bitLength (bound / maskDiv m t noPrss) - 1)

/-- for `bound = 1 << e` (all call sites pass a power of two) -/
def maskBoundPow (e m t : Nat) (noPrss : Bool) : Nat := maskBound (1 <<< e) m t noPrss

/-- `_convert`: `bound = (1 << (k+l)) // d + 1`, used unrounded -/
def convertBound (e m t : Nat) (noPrss : Bool) : Nat := (1 <<< e) / maskDiv m t noPrss + 1

end MpycV.Share
