/-
Model of /repo/mpyc/random.py (and of the value layer of `runtime.random_bits`), core Lean only.

Every function consumes an explicit stream `s : List Bool` of secret uniformly random bits
(`runtime.random_bits(sectype, n)` ≙ `takeBits n`) and records, in order, the PUBLIC values it opens
(`await runtime.output(..)` / `is_zero_public(..)` used in rejection tests) in `Out.opened`.
A run that needs more bits than the stream holds ends in `Res.exhausted`; loops take a fuel argument
and a run that uses up its fuel ends in `Res.fuel` (theorems in `MpycV.Lemmas.Random*` show that the
fuel supplied by the top-level functions is never used up before the stream is).
Python exceptions are `Res.error "<ExceptionName>"`.

Secret bits are `Bool`; a product of secret bits (`h *= x[i]`, `h * x[i]`) is `&&`.  Vectors of
secret numbers (unit vectors, shuffled lists) are `List Int` with the arithmetic of
`runtime.scalar_mul / vector_sub / vector_add / in_prod` written out.
-/
namespace MpycV.Random

/-! ### results -/

/-- value, public transcript (opened rejection tests, in order), unconsumed rest of the bit stream -/
structure Out (α : Type) where
  val : α
  opened : List Bool
  rest : List Bool
  deriving DecidableEq, Repr

inductive Res (α : Type) where
  | ok (o : Out α)
  | exhausted                 -- the bit stream ran out (the real code would draw more bits)
  | fuel                      -- loop fuel ran out (never happens for the fuel supplied, see Lemmas)
  | error (name : String)     -- Python exception
  deriving DecidableEq, Repr

/-- sequencing: run `f` on the value of `r`, continuing with the rest stream, appending transcripts -/
def Res.bind {α β : Type} (r : Res α) (f : α → List Bool → Res β) : Res β :=
  match r with
  | .ok o =>
    match f o.val o.rest with
    | .ok o' => .ok ⟨o'.val, o.opened ++ o'.opened, o'.rest⟩
    | .exhausted => .exhausted
    | .fuel => .fuel
    | .error e => .error e
  | .exhausted => .exhausted
  | .fuel => .fuel
  | .error e => .error e

def Res.map {α β : Type} (f : α → β) : Res α → Res β
  | .ok o => .ok ⟨f o.val, o.opened, o.rest⟩
  | .exhausted => .exhausted
  | .fuel => .fuel
  | .error e => .error e

/-! ### integer helpers -/

/-- Python `int.bit_length()` for n ≥ 0 -/
def bitLength (n : Nat) : Nat := if n = 0 then 0 else Nat.log2 n + 1

/-- Python `n & -n` for n ≥ 0: in two's complement `-n ≡ 2^L - n (mod 2^L)` for every `L`, and all bits
of `n` lie below `L = n.bit_length()`. -/
def andNeg (n : Nat) : Nat := n &&& (2 ^ bitLength n - n)

def bitI (b : Bool) : Int := if b then 1 else 0

/-- `runtime.random_bits(sectype, n)`: the next `n` bits of the stream -/
def takeBits (n : Nat) (s : List Bool) : Option (List Bool × List Bool) :=
  if n ≤ s.length then some (s.take n, s.drop n) else none

/-- `runtime.from_bits(x)`: `for a in reversed(x): s <<= 1; s += a`  ≙ runtime.py:4459-4474 (x[0] is the LSB) -/
def fromBits (x : List Bool) : Nat := x.foldr (fun a s => a.toNat + 2 * s) 0

/-! ### getrandbits  ≙ random.py:32-41 -/

/-- `getrandbits(sectype, k, bits=True)` -/
def getrandbitsBits (k : Nat) (s : List Bool) : Res (List Bool) :=
  match takeBits k s with
  | some (x, s') => .ok ⟨x, [], s'⟩
  | none => .exhausted

/-- `getrandbits(sectype, k)` -/
def getrandbits (k : Nat) (s : List Bool) : Res Nat := (getrandbitsBits k s).map fromBits

/-! ### _randbelow  ≙ random.py:44-86 -/

/-- the `while i >= t:` loop of `_randbelow` (random.py:75-82); state `x, h, i`, transcript, stream.
```
while i >= t:
    i -= 1
    if (b >> i) & 1:   h *= x[i]
    elif await runtime.output(h * x[i]):
        x[i:] = runtime.random_bits(sectype, k - i)     # restart, keeping x[:i];  NB: h is not reset
        i = k
``` -/
def rbLoop (b k t : Nat) : Nat → List Bool → Bool → Nat → List Bool → List Bool → Res (List Bool)
  | 0, _, _, _, _, _ => .fuel
  | fuel + 1, x, h, i, opened, s =>
    if t ≤ i then
      let i := i - 1
      if b.testBit i then
        rbLoop b k t fuel x (h && x.getD i false) i opened s
      else
        let o := h && x.getD i false
        if o then
          match takeBits (k - i) s with
          | none => .exhausted
          | some (nb, s') => rbLoop b k t fuel (x.take i ++ nb) h k (opened ++ [o]) s'
        else
          rbLoop b k t fuel x h i (opened ++ [o]) s
    else .ok ⟨x, opened, s⟩

/-- fuel for the rejection loops: every iteration either lowers `i` or consumes ≥ 1 stream bit and
resets `i` to at most `k` -/
def loopFuel (k : Nat) (s : List Bool) : Nat := (k + 1) * (s.length + 2)

/-- `_randbelow(sectype, n, bits=True)` for a secure integer / fixed-point type (the finite-field special
case `n == field.order` of random.py:58-60 is not modelled).
`n = 0` (not reachable through the public functions): Python has `b = -1`, `k = (-1).bit_length() = 1`,
`n & b = 0`, i.e. the power-of-two fast path with k = 1. -/
def randbelowBits (n : Nat) (s : List Bool) : Res (List Bool) :=
  if n = 0 then getrandbitsBits 1 s
  else
    let b := n - 1
    let k := bitLength b
    if n &&& b = 0 then getrandbitsBits k s        -- fast path for integral powers of 2
    else
      match takeBits k s with
      | none => .exhausted
      | some (x, s') =>
        let t := bitLength (andNeg n)               -- 1 + number of times 2 divides n
        rbLoop b k t (loopFuel k s') x true k [] s'

/-- `_randbelow(sectype, n)` -/
def randbelow (n : Nat) (s : List Bool) : Res Nat := (randbelowBits n s).map fromBits

/-! ### random_unit_vector  ≙ random.py:89-120 -/

def scalarMul (c : Int) (u : List Int) : List Int := u.map (c * ·)
def vectorSub (u v : List Int) : List Int := List.zipWith (· - ·) u v
def vectorAdd (u v : List Int) : List Int := List.zipWith (· + ·) u v
def inProd (u v : List Int) : Int := (List.zipWith (· * ·) u v).foldl (· + ·) 0
def prod (u : List Int) : Int := u.foldl (· * ·) 1

/-- `u = [x[i], 1 - x[i]]` -/
def ruvInit (x : List Bool) (i : Nat) : List Int := [bitI (x.getD i false), 1 - bitI (x.getD i false)]

/-- the `while i:` loop of `random_unit_vector` (random.py:105-119)
```
while i:
    i -= 1
    v = runtime.scalar_mul(x[i], u)
    if (b >> i) & 1:  v.extend(runtime.vector_sub(u, v)); u = v
    elif await runtime.output(v[0]):
        x[i:] = runtime.random_bits(sectype, k - i); i = k-1; u = [x[i], 1 - x[i]]     # restart
    else:
        v = v[1:]; v.extend(runtime.vector_sub(u[1:], v)); u[1:] = v
``` -/
def ruvLoop (b k : Nat) : Nat → List Bool → List Int → Nat → List Bool → List Bool → Res (List Int)
  | 0, _, _, _, _, _ => .fuel
  | fuel + 1, x, u, i, opened, s =>
    if i ≠ 0 then
      let i := i - 1
      let v := scalarMul (bitI (x.getD i false)) u
      if b.testBit i then
        ruvLoop b k fuel x (v ++ vectorSub u v) i opened s
      else if v.headD 0 ≠ 0 then
        match takeBits (k - i) s with
        | none => .exhausted
        | some (nb, s') =>
          let x' := x.take i ++ nb
          ruvLoop b k fuel x' (ruvInit x' (k - 1)) (k - 1) (opened ++ [true]) s'
      else
        let v' := v.tail
        ruvLoop b k fuel x (u.take 1 ++ (v' ++ vectorSub u.tail v')) i (opened ++ [false]) s
    else .ok ⟨u, opened, s⟩

/-- `random_unit_vector(sectype, n)` for n ≥ 1 (n = 0 is rejected by every caller; the model answers
`error "ValueError"` so that no theorem can be true about it by accident) -/
def randomUnitVector (n : Nat) (s : List Bool) : Res (List Int) :=
  if n = 0 then .error "ValueError"
  else if n = 1 then .ok ⟨[1], [], s⟩
  else
    let b := n - 1
    let k := bitLength b
    match takeBits k s with
    | none => .exhausted
    | some (x, s') => ruvLoop b k (loopFuel k s') x (ruvInit x (k - 1)) (k - 1) [] s'

/-! ### randrange, randint  ≙ random.py:155-169 -/

/-- `len(range(start, stop, step))` for step ≠ 0 -/
def rangeLen (start stop step : Int) : Nat :=
  if 0 < step then (if start < stop then ((stop - start + step - 1) / step).toNat else 0)
  else (if stop < start then ((start - stop + (-step) - 1) / (-step)).toNat else 0)

/-- `randrange(sectype, start, stop, step)` (`stop=None` is resolved by the caller: `randrange(n)` is
`randrange 0 n 1`); `range()` raises ValueError for step 0, randrange for an empty range -/
def randrange (start stop step : Int) (s : List Bool) : Res Int :=
  if step = 0 then .error "ValueError"
  else
    let n := rangeLen start stop step
    if n = 0 then .error "ValueError"
    else (randbelow n s).map (fun (r : Nat) => start + (r : Int) * step)

/-- `randint(sectype, a, b)` -/
def randint (a b : Int) (s : List Bool) : Res Int := randrange a (b + 1) 1 s

/-! ### choice, choices  ≙ random.py:172-222 -/

/-- `choice(sectype, seq)`: `s = Σ u[i] * seq[i]` -/
def choice (seq : List Int) (s : List Bool) : Res Int :=
  if seq.isEmpty then .error "IndexError"
  else (randomUnitVector seq.length s).map (fun u => inProd u seq)

/-- `[choice(sectype, population) for _ in range(k)]` -/
def choicesUniform (population : List Int) : Nat → List Bool → Res (List Int)
  | 0, s => .ok ⟨[], [], s⟩
  | k + 1, s =>
    (choice population s).bind fun c s' =>
      (choicesUniform population k s').map (c :: ·)

/-- `itertools.accumulate(weights)` -/
def accumulate : List Int → List Int
  | [] => []
  | a :: l => a :: (accumulate l).map (a + ·)

def gcdList (l : List Int) : Nat := l.foldl (fun g a => Nat.gcd g a.natAbs) 0

/-- one weighted choice (random.py:215-221): `r = _randbelow(cum[-1]); h = [r < a for a in cum[:-1]];
u = vector_sub(h + [1], [0] + h) if h else [sectype(1)]; s = Σ u[i] * population[i]`
(for `h = []` the general formula gives the same `[1]`) -/
def weightedPick (population cum : List Int) (r : Nat) : Int :=
  let h := cum.dropLast.map (fun a => if (r : Int) < a then (1 : Int) else 0)
  let u := vectorSub (h ++ [1]) (0 :: h)
  inProd u population

def choicesWeightedLoop (population cum : List Int) : Nat → List Bool → Res (List Int)
  | 0, s => .ok ⟨[], [], s⟩
  | k + 1, s =>
    (randbelow (cum.getLastD 0).toNat s).bind fun r s' =>
      (choicesWeightedLoop population cum k s').map (weightedPick population cum r :: ·)

/-- `choices(sectype, population, cum_weights=cw, k=k)` with positive integer weights
(random.py:207-222); `weights=w` is `cum_weights = accumulate w` -/
def choicesWeighted (population cumWeights : List Int) (k : Nat) (s : List Bool) : Res (List Int) :=
  if cumWeights.length ≠ population.length then .error "ValueError"
  else if cumWeights.isEmpty then                 -- math.gcd() = 0, cum_weights = []; `cum_weights[-1]` in the loop
    (if k = 0 then .ok ⟨[], [], s⟩ else .error "IndexError")
  else
    let g := gcdList cumWeights
    if g = 0 then .error "ZeroDivisionError"
    else
      let cum := cumWeights.map (· / (g : Int))
      choicesWeightedLoop population cum k s

/-! ### shuffle, random_permutation, sample (sequence case)  ≙ random.py:225-266, 325-335 -/

/-- loop body on the suffix `x[i:]` (random.py:241-244):
`x_u = in_prod(x[i:], u); d = scalar_mul(x[i] - x_u, u); x[i] = x_u; x[i:] = vector_add(x[i:], d)` -/
def fyStep (xs u : List Int) : List Int :=
  let xu := inProd xs u
  let d := scalarMul (xs.headD 0 - xu) u
  vectorAdd (xu :: xs.tail) d

/-- `for i in range(cnt): u = random_unit_vector(sectype, n - i); <fyStep on x[i:]>`, written as a
recursion on the suffix `xs = x[i:]` (iteration `i` reads and writes `x[i:]` only) -/
def fyLoop : Nat → List Int → List Bool → Res (List Int)
  | 0, xs, s => .ok ⟨xs, [], s⟩
  | cnt + 1, xs, s =>
    (randomUnitVector xs.length s).bind fun u s' =>
      let ys := fyStep xs u
      (fyLoop cnt ys.tail s').map (ys.headD 0 :: ·)

/-- `shuffle(sectype, x)` for a list of numbers: the new contents of `x` (n = 0: `x[0]` raises IndexError) -/
def shuffle (x : List Int) (s : List Bool) : Res (List Int) :=
  if x.isEmpty then .error "IndexError" else fyLoop (x.length - 1) x s

/-- `random_permutation(sectype, x)` for a sequence x (for an int n: `x = range(n)`) -/
def randomPermutation (x : List Int) (s : List Bool) : Res (List Int) := shuffle x s

/-- `sample(sectype, population, k)` for a non-range population (random.py:325-335) -/
def sampleList (population : List Int) (k : Nat) (s : List Bool) : Res (List Int) :=
  if population.length < k then .error "ValueError"
  else if population.isEmpty then .error "IndexError"       -- `x[0]` on the empty list (k = 0, n = 0)
  else (fyLoop k population s).map (·.take k)

/-! ### random_derangement  ≙ random.py:269-291 -/

/-- `while True: shuffle(y); t = prod(vector_sub(y, x)); if not is_zero_public(t): break`;
one `opened` entry per round: the public result of `is_zero_public(t)` -/
def derangeLoop (x : List Int) : Nat → List Int → List Bool → List Bool → Res (List Int)
  | 0, _, _, _ => .fuel
  | fuel + 1, y, opened, s =>
    match shuffle y s with
    | .ok o =>
      let t := prod (vectorSub o.val x)
      if t = 0 then derangeLoop x fuel o.val (opened ++ o.opened ++ [true]) o.rest
      else .ok ⟨o.val, opened ++ o.opened ++ [false], o.rest⟩
    | .exhausted => .exhausted
    | .fuel => .fuel
    | .error e => .error e

/-- `random_derangement(sectype, x)` for a duplicate-free sequence x with len(x) ≥ 2 (each round consumes
≥ 1 bit then; for len(x) = 1 the Python loop never ends, the model runs out of fuel) -/
def randomDerangement (x : List Int) (s : List Bool) : Res (List Int) :=
  derangeLoop x (s.length + 1) x [] s

/-! ### sample from a range  ≙ random.py:314-323 -/

/-- `while len(x) < k: r = randrange(..); if x: t = prod([r - a for a in x]); if is_zero_public(t): continue; x.append(r)`;
one `opened` entry per candidate tested against a non-empty x -/
def sampleRangeLoop (start stop step : Int) (k : Nat) : Nat → List Int → List Bool → List Bool → Res (List Int)
  | 0, _, _, _ => .fuel
  | fuel + 1, x, opened, s =>
    if x.length < k then
      match randrange start stop step s with
      | .ok o =>
        if x.isEmpty then sampleRangeLoop start stop step k fuel (x ++ [o.val]) (opened ++ o.opened) o.rest
        else
          let t := prod (x.map (o.val - ·))
          if t = 0 then sampleRangeLoop start stop step k fuel x (opened ++ o.opened ++ [true]) o.rest
          else sampleRangeLoop start stop step k fuel (x ++ [o.val]) (opened ++ o.opened ++ [false]) o.rest
      | .exhausted => .exhausted
      | .fuel => .fuel
      | .error e => .error e
    else .ok ⟨x, opened, s⟩

/-- `sample(sectype, range(start, stop, step), k)`; fuel: a candidate costs ≥ 1 bit when the range has
≥ 2 elements, and a one-element range is never re-drawn (k ≤ 1 then) -/
def sampleRange (start stop step : Int) (k : Nat) (s : List Bool) : Res (List Int) :=
  if step = 0 then .error "ValueError"
  else if rangeLen start stop step < k then .error "ValueError"
  else sampleRangeLoop start stop step k (s.length + k + 1) [] [] s

/-! ### random, uniform  ≙ random.py:338-357 (values scaled by 2^f) -/

/-- `random(sectype)`: the numerator of the result over 2^f (`from_bits(random_bits(f)) * 2**-f`);
f = 0: TypeError -/
def random (f : Nat) (s : List Bool) : Res Nat :=
  if f = 0 then .error "TypeError" else getrandbits f s

/-- `uniform(sectype, a, b)` on scaled integers: `A = a·2^f` (as converted by the secure type),
`n = round(abs(a - b) * 2**f)`, `sgn = copysign(1, b - a)`; `r = _randbelow(sectype, max(1, n))`,
result numerator `A + r·sgn` -/
def uniform (f : Nat) (A : Int) (n : Nat) (sgn : Int) (s : List Bool) : Res Int :=
  if f = 0 then .error "TypeError" else (randbelow (max 1 n) s).map (fun (r : Nat) => A + (r : Int) * sgn)

/-! ### runtime.random_bits, value layer  ≙ runtime.py:4142-4184 (prime fields, p odd) -/

/-- PRSS branch (runtime.py:4160-4174): `r` random field element, `r2 = r²` opened and nonzero,
`w = field._sqrt(r2, INV=True)`; bit `= r·w`, then for `signed=False`: `% p`, `(· + 1)·q` with `q = (p+1) >> 1` -/
def bitFromSqrt (p r w : Nat) (signed : Bool) : Nat :=
  let e := r * w % p
  if signed then e else (e + 1) * ((p + 1) >>> 1) % p

/-- no-PRSS branch (runtime.py:4146-4158): product of the t+1 senders' ±1 values (as residues mod p) -/
def bitFromProd (p : Nat) (vals : List Nat) (signed : Bool) : Nat :=
  let e := vals.foldl (fun a v => a * v % p) 1
  if signed then e else (e + 1) * ((p + 1) >>> 1) % p

end MpycV.Random
