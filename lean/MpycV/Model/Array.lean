/-
Executable model of the shape / index arithmetic behind MPyC's secure NumPy arrays
(`/repo/mpyc/runtime.py` np_* methods, `/repo/mpyc/numpy.py` `_matmul_shape`).  Core Lean only.

Two layers:

* **declared shapes** — every `np_*` coroutine computes the shape of its result *by hand* before the
  data exist (`await self.returnType((stype, shape))`); the placeholder carries that shape and later
  operations (broadcasting, matmul, getitem, tolist ...) are planned from it.  The `…Shape` functions
  below transcribe those computations, including Python's list semantics for negative indices
  (`≙ runtime.py:NNNN`).
* **NumPy semantics as index maps** — what NumPy itself does with the data is modelled by gather
  maps on flat row-major data (`result.data[k] = source.data[map[k]]`): broadcasting, transpose,
  concatenate/split, roll, flip, reshape (identity on the data), 2-D matmul.  NumPy is the oracle for
  these (translation validation); the theorems in `MpycV/Props/C37.lean` are about these maps.

Conventions: a shape is a `List Nat` (first axis first), data are flat lists in row-major (C) order.
-/
namespace MpycV.Arr

abbrev Shape := List Nat

/-- errors raised by the Python code / NumPy -/
inductive Err where
  | value      -- ValueError
  | index      -- IndexError
  | assertion  -- AssertionError
  deriving DecidableEq, Repr

def Err.toString : Err → String
  | .value => "ValueError"
  | .index => "IndexError"
  | .assertion => "AssertionError"

/-- ≙ `math.prod(shape)` (sectypes.py:1045 `size`) -/
def size : Shape → Nat
  | [] => 1
  | d :: s => d * size s

/-- multi-index `idx` addresses an element of an array of shape `s` -/
def inRange : Shape → List Nat → Bool
  | [], [] => true
  | d :: s, i :: idx => decide (i < d) && inRange s idx
  | _, _ => false

/-- row-major (C order) position of a multi-index -/
def flatIndex : Shape → List Nat → Nat
  | _ :: s, i :: idx => i * size s + flatIndex s idx
  | _, _ => 0

/-- inverse of `flatIndex` on `k < size s` -/
def unflatten : Shape → Nat → List Nat
  | [], _ => []
  | _ :: s, k => k / size s :: unflatten s (k % size s)

/-- an array: shape and flat row-major data -/
structure Arr (α : Type) where
  shape : Shape
  data : List α
  deriving Repr, DecidableEq

def Arr.WF {α : Type} (a : Arr α) : Prop := a.data.length = size a.shape

def Arr.get {α : Type} [Inhabited α] (a : Arr α) (idx : List Nat) : α :=
  a.data.getD (flatIndex a.shape idx) default

/-- `result[k] = src[m[k]]` -/
def gather {α : Type} [Inhabited α] (m : List Nat) (src : List α) : List α :=
  m.map fun k => src.getD k default

/-- composition of gather maps: `gather m2 (gather m1 d) = gather (compose m2 m1) d` -/
def compose (m2 m1 : List Nat) : List Nat := m2.map fun k => m1.getD k 0

/-- the gather map whose `k`-th entry is `f (multi-index of k in rs)` -/
def gatherBy (rs : Shape) (f : List Nat → Nat) : List Nat :=
  (List.range (size rs)).map fun k => f (unflatten rs k)

/-! ### Python list / axis conventions -/

/-- ≙ Python `l[ax]` index normalisation for a sequence of length `n` (negative = from the end) -/
def normAxis (n : Nat) (ax : Int) : Option Nat :=
  if 0 ≤ ax ∧ ax < (n : Int) then some ax.toNat
  else if -(n : Int) ≤ ax ∧ ax < 0 then some (ax + (n : Int)).toNat
  else none

/-- ≙ Python `list.insert(i, x)` (clamping; a negative `i` counts from the end: `insert(-1, x)` puts
`x` BEFORE the last element) -/
def pyInsert {α : Type} (l : List α) (i : Int) (x : α) : List α :=
  let n : Int := l.length
  let j : Int := if i < 0 then (if i + n < 0 then 0 else i + n) else (if i > n then n else i)
  l.take j.toNat ++ x :: l.drop j.toNat

/-! ### broadcasting ≙ `np.broadcast_shapes` (runtime.py:1038, 1052, 1103, 1161; numpy.py:31) -/

/-- one aligned pair of dimensions -/
def bcDim (a b : Nat) : Option Nat :=
  if a = b then some a else if a = 1 then some b else if b = 1 then some a else none

/-- broadcasting on shapes given LAST axis first (so that alignment is at the head) -/
def bcRev : List Nat → List Nat → Option (List Nat)
  | [], b => some b
  | x :: a, [] => some (x :: a)
  | x :: a, y :: b =>
    match bcDim x y, bcRev a b with
    | some d, some r => some (d :: r)
    | _, _ => none

/-- ≙ `np.broadcast_shapes(a, b)`; `none` ≙ ValueError (shape mismatch) -/
def broadcastShape (a b : Shape) : Option Shape := (bcRev a.reverse b.reverse).map List.reverse

/-- n-ary version ≙ `np.broadcast_shapes(*shapes)` -/
def broadcastShapes : List Shape → Option Shape
  | [] => some []
  | s :: ss => match broadcastShapes ss with
    | some r => broadcastShape s r
    | none => none

/-- source index for a result index, both LAST axis first: surplus leading result axes are dropped
(zipWith stops at the end of `a`), axes of length 1 are pinned to 0 -/
def bcIndexRev (a : List Nat) (idx : List Nat) : List Nat :=
  List.zipWith (fun d i => if d = 1 then 0 else i) a idx

/-- source multi-index in an array of shape `a` for multi-index `idx` of the broadcast result -/
def bcIndex (a : Shape) (idx : List Nat) : List Nat := (bcIndexRev a.reverse idx.reverse).reverse

/-- gather map of `np.broadcast_to(x, rs)` for `x` of shape `a` -/
def broadcastMap (a rs : Shape) : List Nat := gatherBy rs fun idx => flatIndex a (bcIndex a idx)

/-- pointwise lift of a binary scalar function over the broadcast index space
(≙ `a + b`, `a - b`, `a * b`, … on field arrays, runtime.py:1044, 1058, 1134); `none` ≙ ValueError -/
def map2 {α β γ : Type} [Inhabited α] [Inhabited β] (f : α → β → γ) (a : Arr α) (b : Arr β) :
    Option (Arr γ) :=
  match broadcastShape a.shape b.shape with
  | none => none
  | some s => some ⟨s, (List.range (size s)).map fun k =>
      f (a.get (bcIndex a.shape (unflatten s k))) (b.get (bcIndex b.shape (unflatten s k)))⟩

/-- unary pointwise lift (≙ `-a`, np_sgn, np_lsb, np_reciprocal … keep the shape) -/
def map1 {α β : Type} (f : α → β) (a : Arr α) : Arr β := ⟨a.shape, a.data.map f⟩

/-! ### matmul ≙ numpy.py:17 `_matmul_shape`, runtime.py:2488, 2531 -/

/-- ≙ `_matmul_shape(shapeA, shapeB)`: `some none` = scalar result (both 1-D);
`none` = exception (0-D operand: IndexError; inner dimensions differ: AssertionError; batch
dimensions do not broadcast: ValueError) -/
def matmulShape (a b : Shape) : Option (Option Shape) :=
  let prepA := a.length = 1
  let appB := b.length = 1
  let a' := if prepA then 1 :: a else a
  let b' := if appB then b ++ [1] else b
  match a'.reverse, b'.reverse with
  | ka :: na :: ra, mb :: kb :: rb =>
    if ka = kb then
      match bcRev ra rb with
      | some r =>
        let c := r.reverse ++ (if prepA then [] else [na]) ++ (if appB then [] else [mb])
        if c = [] then some none else some (some c)
      | none => none
    else none
  | _, _ => none

/-- dot product ≙ inner loop of `A @ B` -/
def dot (x y : List Int) : Int := (List.zipWith (· * ·) x y).sum

/-- row `i` of a row-major `n × k` matrix -/
def row (k : Nat) (a : List Int) (i : Nat) : List Int := (List.range k).map fun l => a.getD (i * k + l) 0

/-- column `j` of a row-major `k × m` matrix -/
def col (k m : Nat) (b : List Int) (j : Nat) : List Int := (List.range k).map fun l => b.getD (l * m + j) 0

/-- 2-D matrix product on flat row-major data: `(n,k) @ (k,m)` -/
def matmul2 (n k m : Nat) (a b : List Int) : Arr Int :=
  ⟨[n, m], (List.range (n * m)).map fun t => dot (row k a (t / m)) (col k m b (t % m))⟩

/-- ≙ `np.outer` shape (runtime.py:2552) and data -/
def outer (a b : List Int) : Arr Int :=
  ⟨[a.length, b.length], a.flatMap fun x => b.map fun y => x * y⟩

/-- ≙ runtime.py:2597-2603 `np_convolve` declared shape (m, n ≥ 1) -/
def convolveShape (m n : Nat) (mode : String) : Shape :=
  if mode = "full" then [m + n - 1]
  else if mode = "same" then [max m n]
  else [max m n - min m n + 1]

/-! ### reshaping family: declared shapes -/

/-- ≙ runtime.py:2727-2739 `np_reshape` (resolution of a single `-1`) followed by NumPy's own check
in `a.reshape(shape)` (total size must be preserved) -/
def reshapeShape (n : Nat) (shape : List Int) : Except Err Shape :=
  if shape.any (· < -1) then .error .value else
  let cnt := shape.count (-1)
  if cnt > 1 then .error .value
  else if cnt = 1 then
    let n1 : Nat := (shape.filter (· ≠ -1)).foldr (fun d acc => d.toNat * acc) 1
    -- Python: `n % n1` raises ZeroDivisionError for n1 = 0; NumPy: ValueError. The runtime code
    -- computes `n % (-prod(shape))`; n1 = 0 is mapped to ValueError here and excluded from the tie.
    if n1 = 0 then .error .value
    else if n % n1 ≠ 0 then .error .value
    else .ok (shape.map fun d => if d = -1 then n / n1 else d.toNat)
  else
    let s := shape.map Int.toNat
    if size s = n then .ok s else .error .value

def Arr.reshape {α : Type} (a : Arr α) (shape : List Int) : Except Err (Arr α) :=
  match reshapeShape a.data.length shape with
  | .ok s => .ok ⟨s, a.data⟩
  | .error e => .error e

/-- ≙ runtime.py:2690 `np_flatten` -/
def flattenShape (s : Shape) : Shape := [size s]

/-- ≙ runtime.py:2947-2955 `np_transpose` declared shape: `tuple(a.shape[perm[i]] for i in range(ndim))`,
`perm = None` ≙ reversed axes; 1-D arrays are returned unchanged -/
def transposeShape (s : Shape) (perm : Option (List Nat)) : Shape :=
  if s.length = 1 then s else
  match perm with
  | none => s.reverse
  | some p => (List.range s.length).map fun i => s.getD (p.getD i 0) 0

/-- swap two positions of a list -/
def swapAt {α : Type} [Inhabited α] (l : List α) (i j : Nat) : List α :=
  (l.set i (l.getD j default)).set j (l.getD i default)

/-- ≙ runtime.py:2970-2976 `np_swapaxes` declared shape (Python negative indices) -/
def swapaxesShape (s : Shape) (ax1 ax2 : Int) : Except Err Shape :=
  let n : Int := s.length
  if s.length ≠ 0 ∧ (ax1 - ax2 = 0 ∨ ax1 - ax2 = n ∨ ax1 - ax2 = -n) then .ok s else
  match normAxis s.length ax1, normAxis s.length ax2 with
  | some i, some j => .ok (swapAt s i j)
  | _, _ => .error .index

/-- ≙ runtime.py:2993-2999 `np_concatenate` declared shape: first array's shape with
`shape[axis] = sum(a.shape[axis])`; `axis = None` ≙ flattened -/
def concatShape (shapes : List Shape) (axis : Option Int) : Except Err Shape :=
  match axis, shapes with
  | none, _ => .ok [(shapes.map size).sum]
  | some _, [] => .error .index
  | some ax, s0 :: _ =>
    match normAxis s0.length ax with
    | none => .error .index
    | some i =>
      if shapes.all (fun s => s.length = s0.length) then
        .ok (s0.set i ((shapes.map fun s => s.getD i 0).sum))
      else .error .index

/-- what NumPy does: `np.concatenate` requires equal shapes off the axis -/
def npConcatShape (shapes : List Shape) (ax : Int) : Except Err Shape :=
  match shapes with
  | [] => .error .value
  | s0 :: _ =>
    match normAxis s0.length ax with
    | none => .error .index
    | some i =>
      if shapes.all (fun s => s.length = s0.length ∧ s.eraseIdx i = s0.eraseIdx i) then
        .ok (s0.set i ((shapes.map fun s => s.getD i 0).sum))
      else .error .value

/-- ≙ runtime.py:3034-3035 `np_stack` declared shape (after fix 86712c2):
`shape = list(a.shape); shape.insert(axis % (a.ndim + 1), len(arrays))` (Python `%`: result in `0..ndim`) -/
def stackShape (s : Shape) (n : Nat) (axis : Int) : Shape :=
  pyInsert s (axis % ((s.length : Int) + 1)) n

/-- the rule BEFORE fix 86712c2: `shape.insert(axis, len(arrays))` with Python's list semantics for a
negative index (kept for the regression theorem `old_stack_rule_negative_axis_differs`) -/
def stackShapeOld (s : Shape) (n : Nat) (axis : Int) : Shape := pyInsert s axis n

/-- what NumPy does: the new axis is normalised against `ndim + 1` -/
def npStackShape (s : Shape) (n : Nat) (axis : Int) : Option Shape :=
  match normAxis (s.length + 1) axis with
  | some j => some (s.take j ++ n :: s.drop j)
  | none => none

/-- ≙ runtime.py:3111-3112 `np_vstack` declared shape -/
def vstackShape (shapes : List Shape) : Except Err Shape :=
  match shapes with
  | [] => .error .index
  | s0 :: _ =>
    match (if s0.length ≥ 2 then some s0 else match s0 with | [d] => some [1, d] | _ => none) with
    | none => .error .index   -- 0-D: a.shape[0] raises
    | some base =>
      if shapes.any (fun s => s = []) then .error .index else
      .ok (base.set 0 ((shapes.map fun s => if s.length ≥ 2 then s.getD 0 0 else 1).sum))

/-- ≙ runtime.py:3135-3139 `np_hstack` declared shape -/
def hstackShape (shapes : List Shape) : Except Err Shape :=
  match shapes with
  | [] => .error .index
  | s0 :: _ =>
    if s0 = [] then .error .index
    else if s0.length = 1 then
      if shapes.any (fun s => s = []) then .error .index
      else .ok (s0.set 0 ((shapes.map fun s => s.getD 0 0).sum))
    else
      if shapes.any (fun s => s.length < 2) then .error .index
      else .ok (s0.set 1 ((shapes.map fun s => s.getD 1 0).sum))

/-- ≙ runtime.py:3181-3183 `np_column_stack` declared shape -/
def columnStackShape (shapes : List Shape) : Except Err Shape :=
  match shapes with
  | [] => .error .index
  | s0 :: _ =>
    if shapes.any (fun s => s = []) then .error .index
    else .ok [s0.getD 0 0, (shapes.map fun s => if s.length ≥ 2 then s.getD 1 0 else 1).sum]

/-- ≙ runtime.py:3158-3166 `np_dstack` declared shape -/
def dstackShape (shapes : List Shape) : Except Err Shape :=
  match shapes with
  | [] => .error .index
  | s0 :: _ =>
    match s0 with
    | [] => .error .index
    | [d] => .ok [1, d, shapes.length]
    | [d, e] => .ok [d, e, shapes.length]
    | _ => .ok (s0.set 2 ((shapes.map fun s => s.getD 2 0).sum))

/-- ≙ runtime.py:3198-3204 `np_split` for an int number of sections: `shape[axis] //= N`, N parts;
NumPy raises ValueError unless N divides the axis length -/
def splitShape (s : Shape) (n : Nat) (axis : Int) : Except Err (Nat × Shape) :=
  match normAxis s.length axis with
  | none => .error .index
  | some i =>
    if n = 0 then .error .value
    else if s.getD i 0 % n ≠ 0 then .error .value
    else .ok (n, s.set i (s.getD i 0 / n))

/-- ≙ runtime.py:3481-3493 `np_sum` declared shape; `axis = none` ≙ None -/
def sumShape (s : Shape) (axis : Option (List Int)) (keepdims : Bool) : Except Err Shape :=
  match axis with
  | none => .ok (if keepdims then s.map fun _ => 1 else [])
  | some axs =>
    if s.length = 0 then .error .value  -- `i % a.ndim`: ZeroDivisionError; NumPy: AxisError
    else
      let axes := axs.map fun i => (i % (s.length : Int)).toNat
      let idx := List.range s.length
      .ok (if keepdims then idx.map fun i => if axes.contains i then 1 else s.getD i 0
           else (idx.filter fun i => !axes.contains i).map fun i => s.getD i 0)

/-- ≙ runtime.py:2754-2759 `np_expand_dims` declared shape (valid axes) -/
def expandDimsAux (axis : List Int) (n : Nat) : Nat → Nat → List Nat → List Nat
  | _, 0, _ => []
  | i, fuel + 1, rest =>
    if axis.contains (i : Int) || axis.contains ((i : Int) - (n : Int)) then
      1 :: expandDimsAux axis n (i + 1) fuel rest
    else match rest with
      | [] => []
      | d :: r => d :: expandDimsAux axis n (i + 1) fuel r

def expandDimsShape (s : Shape) (axis : List Int) : Shape :=
  expandDimsAux axis (s.length + axis.length) 0 (s.length + axis.length) s

/-- ≙ runtime.py:2776-2781 `np_squeeze` declared shape -/
def squeezeShape (s : Shape) (axis : Option (List Int)) : Shape :=
  let n : Int := s.length
  let idx := List.range s.length
  let ax : List Int := match axis with
    | none => (idx.filter fun (i : Nat) => s.getD i 0 = 1).map fun (i : Nat) => Int.ofNat i
    | some a => a
  (idx.filter fun (i : Nat) => !(ax.contains (Int.ofNat i) || ax.contains (Int.ofNat i - n))).map
    fun (i : Nat) => s.getD i 0

/-- ≙ runtime.py:2801-2807 `np_diag` declared shape -/
def diagShape (s : Shape) (k : Int) : Shape :=
  match s with
  | [m, n] =>
    let v : Int := min (m : Int) ((n : Int) - k) - max 0 (-k)
    [(max v 0).toNat]
  | _ => let d := k.natAbs + size s; [d, d]

/-- ≙ runtime.py:3515 `np_cumsum` declared shape -/
def cumsumShape (s : Shape) (axisNone : Bool) : Shape := if s = [] ∨ axisNone then [size s] else s

/-- ≙ runtime.py:4398 `np_to_bits` declared shape and 4479 `np_from_bits` -/
def toBitsShape (s : Shape) (l : Nat) : Shape := s ++ [l]
def fromBitsShape (s : Shape) : Option Shape := if s = [] then none else some s.dropLast

/-! ### NumPy data semantics as operations on flat row-major data -/

/-- gather map of `a.transpose()` (axes reversed) for `a` of shape `s` -/
def transposeRev (s : Shape) : List Nat := gatherBy s.reverse fun idx => flatIndex s idx.reverse

/-- gather map of `a.transpose(perm)`: result axis `i` is source axis `perm[i]` -/
def transposeMap (s : Shape) (perm : List Nat) : List Nat :=
  gatherBy (perm.map fun j => s.getD j 0) fun idx =>
    flatIndex s ((List.range s.length).map fun j => idx.getD (perm.idxOf j) 0)

/-- `o` blocks: `ca` elements of `a` followed by `cb` elements of `b` (concatenation along an axis with
`o = prod(shape[:axis])`, `ca = prod(sa[axis:])`, `cb = prod(sb[axis:])`) -/
def concatChunks {α : Type} : Nat → Nat → Nat → List α → List α → List α
  | 0, _, _, _, _ => []
  | o + 1, ca, cb, a, b => a.take ca ++ (b.take cb ++ concatChunks o ca cb (a.drop ca) (b.drop cb))

/-- inverse of `concatChunks` -/
def splitChunks {α : Type} : Nat → Nat → Nat → List α → List α × List α
  | 0, _, _, _ => ([], [])
  | o + 1, ca, cb, l =>
    let r := splitChunks o ca cb (l.drop (ca + cb))
    (l.take ca ++ r.1, (l.drop ca).take cb ++ r.2)

/-- ≙ `np.concatenate((a, b), axis=i)` on flat data (shapes equal off the axis, `i < ndim`) -/
def concat2 {α : Type} (sa sb : Shape) (i : Nat) (a b : List α) : Arr α :=
  ⟨sa.set i (sa.getD i 0 + sb.getD i 0),
   concatChunks (size (sa.take i)) (size (sa.drop i)) (size (sb.drop i)) a b⟩

/-- ≙ `np.split(x, 2, axis=i)` restricted to two parts of given axis lengths -/
def split2 {α : Type} (s : Shape) (i : Nat) (da db : Nat) (x : List α) : List α × List α :=
  let inner := size (s.drop (i + 1))
  splitChunks (size (s.take i)) (da * inner) (db * inner) x

/-- ≙ `np.roll(a, shift)` on a flat list: `result[i] = a[(i - shift) mod n]` -/
def roll {α : Type} (shift : Int) (l : List α) : List α :=
  let n := l.length
  if n = 0 then l else
  let s := (shift % (n : Int)).toNat
  l.drop (n - s) ++ l.take (n - s)

/-- split into consecutive chunks of length `c` (`c > 0`), `o` of them -/
def chunks {α : Type} : Nat → Nat → List α → List (List α)
  | 0, _, _ => []
  | o + 1, c, l => l.take c :: chunks o c (l.drop c)

/-- ≙ `np.roll(a, shift, axis=i)`: every outer block is rolled by `shift * inner` -/
def rollAxis {α : Type} (s : Shape) (i : Nat) (shift : Int) (x : List α) : List α :=
  let inner := size (s.drop (i + 1))
  ((chunks (size (s.take i)) (size (s.drop i)) x).map fun blk => roll (shift * (inner : Int)) blk).flatten

/-- ≙ `np.flip(a, axis=i)`: in every outer block the `d` sub-blocks of length `inner` are reversed -/
def flipAxis {α : Type} (s : Shape) (i : Nat) (x : List α) : List α :=
  let inner := size (s.drop (i + 1))
  ((chunks (size (s.take i)) (size (s.drop i)) x).map fun blk =>
    ((chunks (s.getD i 0) inner blk).reverse).flatten).flatten

end MpycV.Arr
