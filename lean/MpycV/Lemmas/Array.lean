/-
Lemmas about the array index model (`MpycV/Model/Array.lean`): row-major index arithmetic,
broadcasting, pointwise lifts.
-/
import Mathlib.Tactic.Linarith
import Mathlib.Data.List.Basic
import MpycV.Model.Array

namespace MpycV.Arr

/-! ### row-major index arithmetic -/

theorem inRange_cons {d i : Nat} {s idx : List Nat} :
    inRange (d :: s) (i :: idx) = true ↔ i < d ∧ inRange s idx = true := by
  simp [inRange]

theorem inRange_length : ∀ {s idx : List Nat}, inRange s idx = true → idx.length = s.length
  | [], [], _ => rfl
  | [], _ :: _, h => by simp [inRange] at h
  | _ :: _, [], h => by simp [inRange] at h
  | d :: s, i :: idx, h => by
    have := inRange_length (inRange_cons.mp h).2
    simp [this]

theorem flatIndex_lt : ∀ {s idx : List Nat}, inRange s idx = true → flatIndex s idx < size s
  | [], [], _ => by simp [flatIndex, size]
  | [], _ :: _, h => by simp [inRange] at h
  | _ :: _, [], h => by simp [inRange] at h
  | d :: s, i :: idx, h => by
    obtain ⟨hi, hr⟩ := inRange_cons.mp h
    have ih := flatIndex_lt hr
    simp only [flatIndex, size]
    calc i * size s + flatIndex s idx < i * size s + size s := by omega
      _ = (i + 1) * size s := by rw [Nat.add_mul, Nat.one_mul]
      _ ≤ d * size s := Nat.mul_le_mul_right _ hi

theorem unflatten_flatIndex : ∀ {s idx : List Nat}, inRange s idx = true →
    unflatten s (flatIndex s idx) = idx
  | [], [], _ => rfl
  | [], _ :: _, h => by simp [inRange] at h
  | _ :: _, [], h => by simp [inRange] at h
  | d :: s, i :: idx, h => by
    obtain ⟨_, hr⟩ := inRange_cons.mp h
    have hlt := flatIndex_lt hr
    have hpos : 0 < size s := by omega
    simp only [flatIndex, unflatten]
    rw [Nat.add_comm, Nat.add_mul_div_right _ _ hpos, Nat.add_mul_mod_self_right,
      Nat.div_eq_of_lt hlt, Nat.mod_eq_of_lt hlt, unflatten_flatIndex hr]
    simp

theorem inRange_unflatten : ∀ (s : List Nat) (k : Nat), k < size s → inRange s (unflatten s k) = true
  | [], _, _ => rfl
  | d :: s, k, h => by
    simp only [size] at h
    have hpos : 0 < size s := by
      rcases Nat.eq_zero_or_pos (size s) with h0 | h0
      · rw [h0] at h; omega
      · exact h0
    simp only [unflatten]
    rw [inRange_cons]
    refine ⟨?_, inRange_unflatten s _ (Nat.mod_lt _ hpos)⟩
    exact Nat.div_lt_of_lt_mul (by rwa [Nat.mul_comm] at h)

theorem flatIndex_unflatten : ∀ (s : List Nat) (k : Nat), k < size s → flatIndex s (unflatten s k) = k
  | [], k, h => by simp [size] at h; simp [flatIndex, h]
  | d :: s, k, h => by
    simp only [size] at h
    have hpos : 0 < size s := by
      rcases Nat.eq_zero_or_pos (size s) with h0 | h0
      · rw [h0] at h; omega
      · exact h0
    simp only [unflatten, flatIndex]
    rw [flatIndex_unflatten s _ (Nat.mod_lt _ hpos)]
    exact Nat.div_add_mod' k (size s)

theorem size_append (a b : List Nat) : size (a ++ b) = size a * size b := by
  induction a with
  | nil => simp [size]
  | cons d a ih => simp [size, ih, Nat.mul_assoc]

theorem size_reverse (s : List Nat) : size s.reverse = size s := by
  induction s with
  | nil => rfl
  | cons d s ih => simp [size_append, size, ih, Nat.mul_comm]

theorem inRange_append_single (s idx : List Nat) (d i : Nat) :
    inRange (s ++ [d]) (idx ++ [i]) = true ↔ inRange s idx = true ∧ i < d := by
  induction s generalizing idx with
  | nil =>
    cases idx with
    | nil => simp [inRange]
    | cons j idx => cases idx <;> simp [inRange]
  | cons e s ih =>
    cases idx with
    | nil => cases s <;> simp [inRange]
    | cons j idx =>
      simp only [List.cons_append, inRange_cons, ih]
      tauto

theorem inRange_reverse (s idx : List Nat) :
    inRange s.reverse idx.reverse = true ↔ inRange s idx = true := by
  induction s generalizing idx with
  | nil => cases idx <;> simp [inRange]
  | cons d s ih =>
    cases idx with
    | nil =>
      simp only [List.reverse_cons, List.reverse_nil]
      constructor
      · intro h; have := inRange_length h; simp at this
      · intro h; simp [inRange] at h
    | cons i idx =>
      simp only [List.reverse_cons, inRange_append_single, ih, inRange_cons]
      tauto

/-! ### gather maps -/

theorem gather_compose {α : Type} [Inhabited α] (m2 m1 : List Nat) (d : List α)
    (h : ∀ k ∈ m2, k < m1.length) :
    gather m2 (gather m1 d) = gather (compose m2 m1) d := by
  unfold gather compose
  rw [List.map_map]
  apply List.map_congr_left
  intro k hk
  have hk' := h k hk
  simp [List.getD_eq_getElem?_getD, List.getElem?_map, List.getElem?_eq_getElem hk']

theorem length_gatherBy (rs : Shape) (f : List Nat → Nat) : (gatherBy rs f).length = size rs := by
  simp [gatherBy]

theorem getD_gatherBy (rs : Shape) (f : List Nat → Nat) {idx : List Nat} (h : inRange rs idx = true) :
    (gatherBy rs f).getD (flatIndex rs idx) 0 = f idx := by
  have hlt := flatIndex_lt h
  simp [gatherBy, List.getD_eq_getElem?_getD, List.getElem?_map, List.getElem?_range hlt,
    unflatten_flatIndex h]

/-! ### broadcasting -/

theorem bcDim_comm (a b : Nat) : bcDim a b = bcDim b a := by
  unfold bcDim
  by_cases h : a = b
  · subst h; rfl
  · have h' : ¬ b = a := fun e => h e.symm
    simp only [h, h', if_false]
    by_cases ha : a = 1 <;> by_cases hb : b = 1 <;> simp [ha, hb]

theorem bcDim_self (a : Nat) : bcDim a a = some a := by simp [bcDim]

theorem bcDim_eq_some {a b d : Nat} (h : bcDim a b = some d) :
    (a = d ∨ a = 1) ∧ (b = d ∨ b = 1) := by
  unfold bcDim at h
  split_ifs at h with h1 h2 h3 <;> simp at h <;> omega

theorem bcDim_eq_none {a b : Nat} : bcDim a b = none ↔ a ≠ b ∧ a ≠ 1 ∧ b ≠ 1 := by
  unfold bcDim
  split_ifs with h1 h2 h3 <;> simp [*]

theorem bcRev_comm : ∀ a b : List Nat, bcRev a b = bcRev b a
  | [], [] => rfl
  | [], _ :: _ => rfl
  | _ :: _, [] => rfl
  | x :: a, y :: b => by
    simp only [bcRev, bcDim_comm x y, bcRev_comm a b]

theorem bcRev_self : ∀ a : List Nat, bcRev a a = some a
  | [] => rfl
  | x :: a => by simp [bcRev, bcDim_self, bcRev_self a]

theorem bcRev_nil_right (a : List Nat) : bcRev a [] = some a := by cases a <;> rfl

/-- the two shapes clash at some aligned axis -/
def Incompat (a b : List Nat) : Prop :=
  ∃ (i : Nat) (x y : Nat), a[i]? = some x ∧ b[i]? = some y ∧ x ≠ y ∧ x ≠ 1 ∧ y ≠ 1

theorem bcRev_eq_none_iff : ∀ a b : List Nat, bcRev a b = none ↔ Incompat a b
  | [], b => by simp [bcRev, Incompat]
  | x :: a, [] => by simp [bcRev, Incompat]
  | x :: a, y :: b => by
    have ih := bcRev_eq_none_iff a b
    constructor
    · intro h
      simp only [bcRev] at h
      cases hd : bcDim x y with
      | none =>
        obtain ⟨h1, h2, h3⟩ := bcDim_eq_none.mp hd
        exact ⟨0, x, y, by simp, by simp, h1, h2, h3⟩
      | some d =>
        cases hr : bcRev a b with
        | none =>
          obtain ⟨i, u, v, hu, hv, h1, h2, h3⟩ := ih.mp hr
          exact ⟨i + 1, u, v, by simpa using hu, by simpa using hv, h1, h2, h3⟩
        | some r => simp [hd, hr] at h
    · rintro ⟨i, u, v, hu, hv, h1, h2, h3⟩
      simp only [bcRev]
      cases i with
      | zero =>
        simp at hu hv
        subst hu hv
        rw [bcDim_eq_none.mpr ⟨h1, h2, h3⟩]
      | succ i =>
        simp at hu hv
        rw [ih.mpr ⟨i, u, v, hu, hv, h1, h2, h3⟩]
        cases bcDim x y <;> rfl

theorem bcRev_length : ∀ {a b s : List Nat}, bcRev a b = some s → s.length = max a.length b.length
  | [], b, s, h => by simp [bcRev] at h; subst h; simp
  | x :: a, [], s, h => by simp [bcRev] at h; subst h; simp
  | x :: a, y :: b, s, h => by
    simp only [bcRev] at h
    cases hd : bcDim x y with
    | none => simp [hd] at h
    | some d =>
      cases hr : bcRev a b with
      | none => simp [hd, hr] at h
      | some r =>
        simp [hd, hr] at h
        subst h
        have := bcRev_length hr
        simp [this]

/-- the broadcast index map is well defined: a result index in range is mapped into the range of the
source (all lists LAST axis first) -/
theorem bcIndexRev_inRange_left : ∀ {a b s idx : List Nat}, bcRev a b = some s →
    inRange s idx = true → inRange a (bcIndexRev a idx) = true
  | [], b, s, idx, _, _ => by simp [bcIndexRev, inRange]
  | x :: a, [], s, idx, h, hi => by
    simp [bcRev] at h; subst h
    cases idx with
    | nil => simp [inRange] at hi
    | cons i idx =>
      obtain ⟨h1, h2⟩ := inRange_cons.mp hi
      have ih := bcIndexRev_inRange_left (bcRev_nil_right a) h2
      simp only [bcIndexRev, List.zipWith_cons_cons, inRange_cons] at ih ⊢
      refine ⟨?_, ih⟩
      split_ifs <;> omega
  | x :: a, y :: b, s, idx, h, hi => by
    simp only [bcRev] at h
    cases hd : bcDim x y with
    | none => simp [hd] at h
    | some d =>
      cases hr : bcRev a b with
      | none => simp [hd, hr] at h
      | some r =>
        simp [hd, hr] at h
        subst h
        cases idx with
        | nil => simp [inRange] at hi
        | cons i idx =>
          obtain ⟨h1, h2⟩ := inRange_cons.mp hi
          have ih := bcIndexRev_inRange_left hr h2
          simp only [bcIndexRev, List.zipWith_cons_cons, inRange_cons] at ih ⊢
          refine ⟨?_, ih⟩
          have := (bcDim_eq_some hd).1
          split_ifs <;> omega

theorem bcIndexRev_self : ∀ {s idx : List Nat}, inRange s idx = true → bcIndexRev s idx = idx
  | [], [], _ => rfl
  | [], _ :: _, h => by simp [inRange] at h
  | _ :: _, [], h => by simp [inRange] at h
  | d :: s, i :: idx, h => by
    obtain ⟨h1, h2⟩ := inRange_cons.mp h
    have ih := bcIndexRev_self h2
    simp only [bcIndexRev, List.zipWith_cons_cons] at ih ⊢
    rw [ih]
    split_ifs with hd
    · subst hd; congr 1; omega
    · rfl

theorem broadcastShape_comm (a b : Shape) : broadcastShape a b = broadcastShape b a := by
  simp [broadcastShape, bcRev_comm]

theorem broadcastShape_self (a : Shape) : broadcastShape a a = some a := by
  simp [broadcastShape, bcRev_self]

theorem broadcastShape_eq_none_iff (a b : Shape) :
    broadcastShape a b = none ↔ Incompat a.reverse b.reverse := by
  simp [broadcastShape, bcRev_eq_none_iff]

theorem broadcastShape_length {a b s : Shape} (h : broadcastShape a b = some s) :
    s.length = max a.length b.length := by
  simp only [broadcastShape, Option.map_eq_some_iff] at h
  obtain ⟨r, hr, rfl⟩ := h
  simpa using bcRev_length hr

theorem bcIndex_inRange_left {a b s idx : Shape} (h : broadcastShape a b = some s)
    (hi : inRange s idx = true) : inRange a (bcIndex a idx) = true := by
  simp only [broadcastShape, Option.map_eq_some_iff] at h
  obtain ⟨r, hr, rfl⟩ := h
  have hi' : inRange r idx.reverse = true := by
    have := (inRange_reverse r.reverse idx).mpr hi
    simpa using this
  have := bcIndexRev_inRange_left hr hi'
  unfold bcIndex
  rw [← inRange_reverse]
  simpa using this

theorem bcIndex_inRange_right {a b s idx : Shape} (h : broadcastShape a b = some s)
    (hi : inRange s idx = true) : inRange b (bcIndex b idx) = true :=
  bcIndex_inRange_left (by rwa [broadcastShape_comm]) hi

theorem bcIndex_self {s idx : Shape} (h : inRange s idx = true) : bcIndex s idx = idx := by
  unfold bcIndex
  rw [bcIndexRev_self ((inRange_reverse s idx).mpr h)]
  simp

/-! ### pointwise lifts -/

theorem map2_shape {α β γ : Type} [Inhabited α] [Inhabited β] (f : α → β → γ) (a : Arr α) (b : Arr β)
    {c : Arr γ} (h : map2 f a b = some c) : broadcastShape a.shape b.shape = some c.shape := by
  unfold map2 at h
  cases hs : broadcastShape a.shape b.shape with
  | none => simp [hs] at h
  | some s => simp [hs] at h; subst h; rfl

theorem map2_wf {α β γ : Type} [Inhabited α] [Inhabited β] (f : α → β → γ) (a : Arr α) (b : Arr β)
    {c : Arr γ} (h : map2 f a b = some c) : c.WF := by
  unfold map2 at h
  cases hs : broadcastShape a.shape b.shape with
  | none => simp [hs] at h
  | some s => simp [hs] at h; subst h; simp [Arr.WF]

theorem map2_get {α β γ : Type} [Inhabited α] [Inhabited β] [Inhabited γ] (f : α → β → γ)
    (a : Arr α) (b : Arr β) {c : Arr γ} (h : map2 f a b = some c) {idx : List Nat}
    (hi : inRange c.shape idx = true) :
    c.get idx = f (a.get (bcIndex a.shape idx)) (b.get (bcIndex b.shape idx)) := by
  unfold map2 at h
  cases hs : broadcastShape a.shape b.shape with
  | none => simp [hs] at h
  | some s =>
    simp [hs] at h; subst h
    have hlt := flatIndex_lt hi
    simp only [Arr.get] at hi ⊢
    simp [List.getD_eq_getElem?_getD, List.getElem?_map, List.getElem?_range hlt,
      unflatten_flatIndex hi, Arr.get]

theorem map2_none_iff {α β γ : Type} [Inhabited α] [Inhabited β] (f : α → β → γ) (a : Arr α) (b : Arr β) :
    map2 f a b = none ↔ broadcastShape a.shape b.shape = none := by
  unfold map2
  cases broadcastShape a.shape b.shape <;> simp

/-- same shapes: the lift is `zipWith` on the data (ties arrays to the list/vector operations) -/
theorem map2_same_shape {α β γ : Type} [Inhabited α] [Inhabited β] (f : α → β → γ) (a : Arr α) (b : Arr β)
    (hs : a.shape = b.shape) (ha : a.WF) (hb : b.WF) :
    map2 f a b = some ⟨a.shape, List.zipWith f a.data b.data⟩ := by
  unfold map2
  rw [← hs, broadcastShape_self]
  simp only [Option.some.injEq, Arr.mk.injEq, true_and]
  apply List.ext_getElem
  · simp [Arr.WF] at ha hb; simp [ha, hb, ← hs]
  · intro k h1 h2
    simp only [List.length_map, List.length_range] at h1
    have hr := inRange_unflatten a.shape k h1
    have hka : k < a.data.length := by simpa [Arr.WF] using ha ▸ h1
    have hkb : k < b.data.length := by rw [hb, ← hs]; exact h1
    simp [Arr.get, ← hs, bcIndex_self hr, flatIndex_unflatten a.shape k h1,
      List.getD_eq_getElem?_getD, List.getElem?_eq_getElem hka, List.getElem?_eq_getElem hkb]

end MpycV.Arr
