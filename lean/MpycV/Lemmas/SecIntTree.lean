/-
Log-round product tree of `runtime.prod` / `runtime.all` (f = 0) equals the plain product; shared
definitions for the SecInt lemma files.
-/
import MpycV.Model.SecInt
import MpycV.Lemmas.Fxp
import Mathlib.Algebra.BigOperators.Group.List.Basic
import Mathlib.Data.Nat.Prime.Int

namespace MpycV.SecInt
open MpycV.Fxp (pmod norm rsh bitsVal IsBits)

theorem pairMul_prod : ∀ (xs : List Int), xs.length % 2 = 0 → (pairMul xs).prod = xs.prod
  | [], _ => rfl
  | [_], h => by simp at h
  | a :: b :: rest, h => by
    have h' : rest.length % 2 = 0 := by simp only [List.length_cons] at h; omega
    simp only [pairMul, List.prod_cons, pairMul_prod rest h', mul_assoc]

theorem pairMul_length : ∀ (xs : List Int), (pairMul xs).length = xs.length / 2
  | [] => rfl
  | [_] => by simp [pairMul]
  | a :: b :: rest => by
    simp only [pairMul, List.length_cons, pairMul_length rest]; omega

theorem prodLevel_prod (xs : List Int) : (prodLevel xs).prod = xs.prod := by
  unfold prodLevel
  split
  · rename_i h
    cases xs with
    | nil => rfl
    | cons x rest =>
      have h' : rest.length % 2 = 0 := by simp only [List.length_cons] at h; omega
      simp only [List.prod_cons, pairMul_prod rest h']
  · rename_i h
    exact pairMul_prod xs (by omega)

theorem prodLevel_length (xs : List Int) : (prodLevel xs).length = (xs.length + 1) / 2 := by
  unfold prodLevel
  split
  · rename_i h
    cases xs with
    | nil => simp at h
    | cons x rest =>
      simp only [List.length_cons, pairMul_length] at h ⊢; omega
  · rename_i h
    rw [pairMul_length]; omega

theorem prodLoop_prod : ∀ (fuel : Nat) (xs : List Int), (prodLoop fuel xs).prod = xs.prod
  | 0, _ => rfl
  | fuel + 1, xs => by
    unfold prodLoop
    split
    · rfl
    · rw [prodLoop_prod fuel, prodLevel_prod]

theorem prodLoop_length : ∀ (fuel : Nat) (xs : List Int), xs.length ≤ fuel + 1 → (prodLoop fuel xs).length ≤ 1
  | 0, xs, h => by simpa [prodLoop] using h
  | fuel + 1, xs, h => by
    unfold prodLoop
    split
    · assumption
    · apply prodLoop_length fuel
      rw [prodLevel_length]; omega

/-- **prodTree_eq_prod**: the log-round pairing of `runtime.prod` computes the product of all elements
(in list order; `[]` gives `start = 1`) -/
theorem prodTree_eq_prod (xs : List Int) : prodTree xs = xs.prod := by
  unfold prodTree
  have hl := prodLoop_length xs.length xs (by omega)
  have hp := prodLoop_prod xs.length xs
  generalize prodLoop xs.length xs = ys at hl hp
  match ys, hl with
  | [], _ => simpa using hp
  | [y], _ => simpa using hp
  | _ :: _ :: _, h => simp at h

theorem allTree_eq_prod (xs : List Int) : allTree xs = xs.prod := prodTree_eq_prod xs

/-- product of bits is the conjunction -/
theorem prod_bits : ∀ (xs : List Int), IsBits xs → xs.prod = if ∀ x ∈ xs, x = 1 then 1 else 0
  | [], _ => by simp
  | x :: xs, h => by
    have hx : x = 0 ∨ x = 1 := h x (by simp)
    have ih := prod_bits xs (fun y hy => h y (by simp [hy]))
    rw [List.prod_cons, ih]
    rcases hx with rfl | rfl
    · simp
    · simp

/-- **allTree_eq**: on bits, `all(x)` is 1 iff every element is 1, else 0 -/
theorem allTree_eq (xs : List Int) (h : IsBits xs) : allTree xs = if ∀ x ∈ xs, x = 1 then 1 else 0 := by
  rw [allTree_eq_prod, prod_bits xs h]

/-- **any**: on bits, `any(x)` is 1 iff some element is 1, else 0 -/
theorem anyModel_eq (xs : List Int) (h : IsBits xs) : anyModel xs = if ∃ x ∈ xs, x = 1 then 1 else 0 := by
  unfold anyModel
  have hb : IsBits (xs.map (fun a => 1 - a)) := by
    intro y hy
    obtain ⟨a, ha, rfl⟩ := List.mem_map.1 hy
    rcases h a ha with rfl | rfl <;> simp
  rw [allTree_eq _ hb]
  by_cases hex : ∃ x ∈ xs, x = 1
  · obtain ⟨x, hx, rfl⟩ := hex
    have : ¬ ∀ y ∈ xs.map (fun a => 1 - a), y = 1 := by
      intro hall
      have := hall (1 - 1) (List.mem_map.2 ⟨1, hx, rfl⟩)
      simp at this
    rw [if_neg this, if_pos ⟨1, hx, rfl⟩]; rfl
  · have : ∀ y ∈ xs.map (fun a => 1 - a), y = 1 := by
      intro y hy
      obtain ⟨a, ha, rfl⟩ := List.mem_map.1 hy
      rcases h a ha with rfl | rfl
      · simp
      · exact absurd ⟨1, ha, rfl⟩ hex
    rw [if_pos this, if_neg hex]; rfl

/-! ### public zero test -/

/-- **isZeroPublic_correct**: for a prime `p` and a random factor `r` that is nonzero in GF(p), the public
zero test answers `True` exactly when `a` is zero in GF(p).  (`r = 0` has probability `1/p` for large
fields and is excluded by the retry loop `while True: … if output(r*s): break` for small and
medium-sized fields.)  The value opened is `a * r mod p`. -/
theorem isZeroPublic_correct {p : Nat} (hp : p.Prime) (a r : Int) (hr : ¬ (p : Int) ∣ r) :
    ((isZeroPublic p a r).2 = true ↔ (p : Int) ∣ a) ∧ (isZeroPublic p a r).1 = (a * r) % (p : Int) := by
  refine ⟨?_, rfl⟩
  unfold isZeroPublic pmod
  simp only [beq_iff_eq]
  rw [← Int.dvd_iff_emod_eq_zero]
  constructor
  · intro h
    rcases (Nat.prime_iff_prime_int.mp hp).dvd_or_dvd h with h | h
    · exact h
    · exact absurd h hr
  · intro h; exact Dvd.dvd.mul_right h r

/-- … and for `r = 0` it always answers `True` (the excluded event) -/
theorem isZeroPublic_bad (p : Nat) (a : Int) : (isZeroPublic p a 0).2 = true := by
  simp [isZeroPublic, pmod]

/-! ### the specification of the Toft comparison circuit (proved in `SecIntToft`, used by `sgn` and `_mod`) -/

/-- For bit lists `rs`, `cs` of equal length (little endian), `s ∈ {1,-1}`, `top ∈ {1,-1}`: the product of
the vector `e` vanishes modulo `p` exactly when `s = 1` and `r < c`, or `s = -1` and `r > c`, or
`r = c` and `s = -top`. -/
def ToftSpec (p : Nat) : Prop :=
  ∀ (s top : Int) (rs cs : List Int), rs.length = cs.length → IsBits rs → IsBits cs →
    (s = 1 ∨ s = -1) → (top = 1 ∨ top = -1) → 3 * rs.length + 3 < p →
    ((prodTree (toftE s top rs cs)) % (p : Int) = 0 ↔
      ((s = 1 ∧ bitsVal rs < bitsVal cs) ∨ (s = -1 ∧ bitsVal cs < bitsVal rs) ∨
       (bitsVal rs = bitsVal cs ∧ s = -top)))

end MpycV.SecInt
