/-
Bridge, part 1: the operations of the translated source (integers mod p, `gmpy.invert`) as a `FieldOps` instance
`intModP p`, its homomorphism onto `ZMod p`, and `ThreshaMirror.recombination_vector = recombVecE (intModP p)`.
-/
import MpycV.Lemmas.ThreshaSrcMirror
import MpycV.Lemmas.PyListLemmas
import MpycV.Lemmas.ThreshaHom
import MpycV.Lemmas.NumThEuclid

namespace MpycV.Thresha

open MpycV.PyList

/-- GF(p) on integers exactly as the translated source computes: reduce after every operation, divide through the
gmpy stub `invert` -/
def intModP (p : Int) : FieldOps Int where
  zero := 0
  one := 1 % p
  add a b := (a + b) % p
  neg a := (-a) % p
  mul a b := (a * b) % p
  inv a := match NumTh.invert a p with
    | .ok r => r
    | .error _ => 0
  ofNat n := (n : Int) % p

variable (p : ℕ) [hp : Fact p.Prime]

lemma emod_eq_of_cast {a b : Int} (h : (a : ZMod p) = (b : ZMod p)) : a % (p : Int) = b % (p : Int) :=
  (ZMod.intCast_eq_intCast_iff' a b p).1 h

/-- `invert` on a prime modulus: an inverse for every non-multiple of p, ZeroDivisionError otherwise -/
lemma invert_prime (a : Int) :
    ((a : ZMod p) = 0 → NumTh.invert a p = .error .zeroDivisionError) ∧
    ((a : ZMod p) ≠ 0 → ∃ y, NumTh.invert a p = .ok y ∧ ((y : Int) : ZMod p) = (a : ZMod p)⁻¹) := by
  have hp1 : 1 < (p : Int).natAbs := by simpa using hp.out.one_lt
  have hm := NumTh.invert_main a p hp1
  have hdvd : (a : ZMod p) = 0 ↔ ¬ Int.gcd a p = 1 := by
    rw [ZMod.intCast_zmod_eq_zero_iff_dvd, Int.natCast_dvd]
    have hc : Nat.Coprime p a.natAbs ↔ ¬ p ∣ a.natAbs := Nat.Prime.coprime_iff_not_dvd hp.out
    have hg : Int.gcd a p = Nat.gcd a.natAbs p := by simp [Int.gcd]
    rw [hg, Nat.gcd_comm]
    constructor
    · intro h hco; exact (hc.1 hco) h
    · intro h; by_contra hnd; exact h (hc.2 hnd)
  refine ⟨fun h0 => hm.1 (hdvd.1 h0), fun hne => ?_⟩
  have hg : Int.gcd a p = 1 := by
    by_contra h; exact hne (hdvd.2 h)
  obtain ⟨y, hy, _, _, hmul⟩ := hm.2 hg
  refine ⟨y, hy, ?_⟩
  have hc := congrArg (Int.cast : Int → ZMod p) hmul
  simp only [Int.natAbs_natCast] at hc
  rw [ZMod.intCast_mod] at hc
  push_cast at hc
  exact eq_inv_of_mul_eq_one_right hc

/-- the integer operations of the translated source are a homomorphic image of `ZMod p` -/
theorem intModP_isHom : IsHom (intModP p) (Int.cast : Int → ZMod p) where
  zero := by simp [intModP]
  one := by simp [intModP, ZMod.intCast_mod]
  add a b := by simp [intModP, ZMod.intCast_mod]
  neg a := by simp [intModP, ZMod.intCast_mod]
  mul a b := by simp [intModP, ZMod.intCast_mod]
  inv a := by
    simp only [intModP]
    by_cases h0 : (a : ZMod p) = 0
    · rw [(invert_prime p a).1 h0, h0]; simp
    · obtain ⟨y, hy, hc⟩ := (invert_prime p a).2 h0
      rw [hy]; exact hc

/-! ### `_recombination_vector` -/

lemma intModP_mul_sub (n x y : Int) :
    (intModP p).mul n ((intModP p).sub x y) = (n * (x - y)) % (p : Int) := by
  simp only [intModP, FieldOps.sub]
  apply emod_eq_of_cast
  rw [Int.cast_mul, Int.cast_mul, ZMod.intCast_mod, Int.cast_add, ZMod.intCast_mod]
  push_cast; ring

/-- the inner loop of `_recombination_vector` is the model's `recombND` -/
lemma inner_loop_eq (L : List Int) (xr xi : Int) (i : ℕ) (k : ℕ) (n d : Int) :
    pyFor (ε := TErr) (σ := Int × Int) ((L.zipIdx k).map fun xk => ((xk.2 : Int), xk.1)) (n, d)
        (fun it_ st_ => match it_, st_ with
          | (j, x_j), (coefficient_n, coefficient_d) =>
            let (coefficient_n, coefficient_d) :=
              if (i : Int) ≠ j then
                let coefficient_n := ((coefficient_n * (xr - x_j)) % (p : Int))
                let coefficient_d := ((coefficient_d * (xi - x_j)) % (p : Int))
                (coefficient_n, coefficient_d)
              else
                (coefficient_n, coefficient_d)
            .ok (coefficient_n, coefficient_d))
      = .ok ((L.zipIdx k).foldl
          (fun (nd : Int × Int) (xj : Int × ℕ) =>
            if i ≠ xj.2 then ((intModP p).mul nd.1 ((intModP p).sub xr xj.1),
              (intModP p).mul nd.2 ((intModP p).sub xi xj.1)) else nd) (n, d)) := by
  rw [pyFor_map]
  apply pyFor_ok
  intro xk _ s
  obtain ⟨cn, cd⟩ := s
  by_cases h : i = xk.2
  · simp [h]
  · have h' : (i : Int) ≠ (xk.2 : Int) := by exact_mod_cast h
    simp only [ne_eq, h', not_false_eq_true, ↓reduceIte, h, intModP_mul_sub]

/-- the inner loop started at (1 % p, 1 % p) over all nodes -/
lemma inner_loop_eq0 (L : List Int) (xr xi : Int) (i : ℕ) :
    pyFor (ε := TErr) (σ := Int × Int) (pyEnum L) (1 % (p : Int), 1 % (p : Int))
        (fun it_ st_ => match it_, st_ with
          | (j, x_j), (coefficient_n, coefficient_d) =>
            let (coefficient_n, coefficient_d) :=
              if (i : Int) ≠ j then
                let coefficient_n := ((coefficient_n * (xr - x_j)) % (p : Int))
                let coefficient_d := ((coefficient_d * (xi - x_j)) % (p : Int))
                (coefficient_n, coefficient_d)
              else
                (coefficient_n, coefficient_d)
            .ok (coefficient_n, coefficient_d))
      = .ok (recombND (intModP p) L xr xi i) :=
  inner_loop_eq p L xr xi i 0 (1 % (p : Int)) (1 % (p : Int))

omit hp in
lemma recombND_range (hp0 : 0 < (p : Int)) (xs : List Int) (xr xi : Int) (i : ℕ) :
    0 ≤ (recombND (intModP p) xs xr xi i).2 ∧ (recombND (intModP p) xs xr xi i).2 < (p : Int) := by
  unfold recombND
  have : ∀ (L : List (Int × ℕ)) (nd : Int × Int), (0 ≤ nd.2 ∧ nd.2 < (p : Int)) →
      0 ≤ (L.foldl (fun (nd : Int × Int) (xj : Int × ℕ) =>
        if i ≠ xj.2 then ((intModP p).mul nd.1 ((intModP p).sub xr xj.1),
          (intModP p).mul nd.2 ((intModP p).sub xi xj.1)) else nd) nd).2 ∧
      (L.foldl (fun (nd : Int × Int) (xj : Int × ℕ) =>
        if i ≠ xj.2 then ((intModP p).mul nd.1 ((intModP p).sub xr xj.1),
          (intModP p).mul nd.2 ((intModP p).sub xi xj.1)) else nd) nd).2 < (p : Int) := by
    intro L
    induction L with
    | nil => intro nd h; exact h
    | cons a L ih =>
      intro nd h
      rw [List.foldl_cons]
      apply ih
      by_cases hc : i ≠ a.2
      · simp only [hc, ne_eq, not_false_eq_true, ↓reduceIte, intModP]
        exact ⟨Int.emod_nonneg _ (by omega), Int.emod_lt_of_pos _ hp0⟩
      · simp only [hc, ↓reduceIte]; exact h
  apply this
  simp only [intModP]
  exact ⟨Int.emod_nonneg _ (by omega), Int.emod_lt_of_pos _ hp0⟩

/-- division of the translated source on a denominator in range: the model's `mul n (inv d)`, or ZeroDivisionError
exactly for `d = 0` -/
lemma fdiv_prime (n d : Int) (hd0 : 0 ≤ d) (hdp : d < (p : Int)) :
    (d ≠ 0 → fdiv p n d = .ok ((intModP p).mul n ((intModP p).inv d))) ∧
    (d = 0 → fdiv p n d = .error .zeroDivisionError) := by
  have hz : (d : ZMod p) = 0 ↔ d = 0 := by
    rw [ZMod.intCast_zmod_eq_zero_iff_dvd]
    constructor
    · intro h
      exact Int.eq_zero_of_dvd_of_nonneg_of_lt hd0 hdp h
    · rintro rfl; exact dvd_zero _
  constructor
  · intro hne
    obtain ⟨y, hy, _⟩ := (invert_prime p d).2 (fun h => hne (hz.1 h))
    simp [fdiv, intModP, hy]
  · intro h0
    have := (invert_prime p d).1 (hz.2 h0)
    simp [fdiv, this, ofNumTh]

/-- ★ bridge: the translated `_recombination_vector` is the model's `recombVecE` on the integer operations
(nodes and point reduced by `field(·).value`), including the ZeroDivisionError branch -/
theorem recombination_vector_eq (xs : List Int) (xr : Int) :
    ThreshaMirror.recombination_vector p xs xr =
      match recombVecE (intModP p) (xs.map fun x => x % (p : Int)) (xr % (p : Int)) with
      | .ok v => .ok v
      | .error _ => .error .zeroDivisionError := by
  have hp0 : 0 < (p : Int) := by exact_mod_cast hp.out.pos
  unfold ThreshaMirror.recombination_vector
  simp only []
  generalize (List.map (fun x => x % (p : Int)) xs) = xs'
  generalize xr % (p : Int) = xr'
  -- the outer loop appends `fdiv` of the inner loop's result
  rw [pyFor_append_eq_mapM (pyEnum xs') [] (fun it : Int × Int =>
      fdiv p (recombND (intModP p) xs' xr' it.2 it.1.toNat).1 (recombND (intModP p) xs' xr' it.2 it.1.toNat).2)]
  · -- evaluate the pyMapM
    rw [pyMapM_ok_or (pyEnum xs') _
      (fun it : Int × Int => (intModP p).mul (recombND (intModP p) xs' xr' it.2 it.1.toNat).1
        ((intModP p).inv (recombND (intModP p) xs' xr' it.2 it.1.toNat).2))
      TErr.zeroDivisionError (fun it : Int × Int => (recombND (intModP p) xs' xr' it.2 it.1.toNat).2 = 0)]
    · unfold recombVecE recombVec
      have hany : (xs'.zipIdx.any fun xi => decide ((recombND (intModP p) xs' xr' xi.1 xi.2).2 = (intModP p).zero)) = true
          ↔ ∃ a ∈ pyEnum xs', (recombND (intModP p) xs' xr' a.2 a.1.toNat).2 = 0 := by
        simp only [List.any_eq_true, decide_eq_true_eq, pyEnum, List.mem_map]
        constructor
        · rintro ⟨xi, hxi, h⟩
          exact ⟨((xi.2 : Int), xi.1), ⟨xi, hxi, rfl⟩, by simpa [intModP] using h⟩
        · rintro ⟨a, ⟨xi, hxi, rfl⟩, h⟩
          exact ⟨xi, hxi, by simpa [intModP] using h⟩
      by_cases hb : ∃ a ∈ pyEnum xs', (recombND (intModP p) xs' xr' a.2 a.1.toNat).2 = 0
      · rw [if_pos hb, if_pos (hany.2 hb)]
      · rw [if_neg hb, if_neg (fun h => hb (hany.1 h))]
        simp [pyEnum, List.map_map, Function.comp_def]
    · intro a _
      obtain ⟨h0, hlt⟩ := recombND_range p hp0 xs' xr' a.2 a.1.toNat
      exact ⟨(fdiv_prime p _ _ h0 hlt).1, (fdiv_prime p _ _ h0 hlt).2⟩
  · -- one iteration of the outer loop
    intro a ha acc
    obtain ⟨k, hk, rfl⟩ := List.getElem_of_mem ha
    rw [getElem_pyEnum]
    simp only [Int.toNat_natCast]
    have hin := inner_loop_eq0 p xs' xr' (xs'[k]'(by simpa [length_pyEnum] using hk)) k
    rw [hin]
    rcases recombND (intModP p) xs' xr' (xs'[k]'(by simpa [length_pyEnum] using hk)) k with ⟨cn, cd⟩
    simp only []
    cases fdiv (p : Int) cn cd <;> rfl

end MpycV.Thresha
