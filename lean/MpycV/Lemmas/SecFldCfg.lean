/-
Lemmas for MpycV.Model.SecFldCfg: the executable number-theoretic definitions are the mathematical
ones (trial-division primality = `Nat.Prime`, least prime ≥ c, integer ceiling root, prime-power
factorisation, ceil-log, bit length), and helpers for reasoning about the `Except` programs.
-/
import MpycV.Model.SecFldCfg
import Mathlib.Data.Nat.Prime.Basic
import Mathlib.Data.Nat.Prime.Pow
import Mathlib.NumberTheory.Bertrand

namespace MpycV.SecFldCfg

/-! ### bounded least-element search -/

theorem leastFrom_spec (P : Nat → Bool) (lo fuel : Nat) (k : Nat) (hk1 : lo ≤ k) (hk2 : k < lo + fuel)
    (hP : P k = true) :
    P (leastFrom P lo fuel) = true ∧ lo ≤ leastFrom P lo fuel ∧ leastFrom P lo fuel ≤ k ∧
      ∀ j, lo ≤ j → j < leastFrom P lo fuel → P j = false := by
  induction fuel generalizing lo with
  | zero => omega
  | succ fuel ih =>
    unfold leastFrom
    by_cases hlo : P lo = true
    · simp only [hlo, ↓reduceIte, true_and]
      exact ⟨Nat.le_refl _, hk1, fun j h1 h2 => by omega⟩
    · simp only [hlo, Bool.false_eq_true, ↓reduceIte]
      have hne : lo ≠ k := fun h => hlo (h ▸ hP)
      obtain ⟨h1, h2, h3, h4⟩ := ih (lo + 1) (by omega) (by omega)
      refine ⟨h1, by omega, h3, fun j hj1 hj2 => ?_⟩
      by_cases hj : j = lo
      · subst hj; simpa using hlo
      · exact h4 j (by omega) hj2

/-! ### primality -/

theorem hasDivisorFrom_iff (n k fuel : Nat) (hk : 1 ≤ k) (hf : n < k + fuel) :
    hasDivisorFrom n k fuel = true ↔ ∃ d, k ≤ d ∧ d * d ≤ n ∧ d ∣ n := by
  induction fuel generalizing k with
  | zero =>
    simp only [hasDivisorFrom, Bool.false_eq_true, false_iff, not_exists, not_and]
    intro d hd hdd
    have : d ≤ d * d := Nat.le_mul_self d
    omega
  | succ fuel ih =>
    unfold hasDivisorFrom
    by_cases h1 : k * k > n
    · simp only [h1, ↓reduceIte, Bool.false_eq_true, false_iff, not_exists, not_and]
      intro d hd hdd
      have : k * k ≤ d * d := Nat.mul_le_mul hd hd
      omega
    · simp only [h1, ↓reduceIte]
      by_cases h2 : n % k = 0
      · simp only [h2, BEq.rfl, ↓reduceIte, true_iff]
        exact ⟨k, Nat.le_refl _, by omega, Nat.dvd_of_mod_eq_zero h2⟩
      · have h2' : (n % k == 0) = false := by simpa using h2
        simp only [h2', Bool.false_eq_true, ↓reduceIte]
        rw [ih (k + 1) (by omega) (by omega)]
        constructor
        · rintro ⟨d, hd, hdd, hdv⟩
          exact ⟨d, by omega, hdd, hdv⟩
        · rintro ⟨d, hd, hdd, hdv⟩
          refine ⟨d, ?_, hdd, hdv⟩
          by_contra hlt
          have : d = k := by omega
          subst this
          exact h2 (Nat.mod_eq_zero_of_dvd hdv)

/-- trial division decides primality -/
theorem isPrime_iff (n : Nat) : isPrime n = true ↔ Nat.Prime n := by
  unfold isPrime
  rw [Nat.prime_def_le_sqrt]
  simp only [ge_iff_le, Bool.and_eq_true, decide_eq_true_eq, Bool.not_eq_true', ← Bool.not_eq_true]
  rw [hasDivisorFrom_iff n 2 n (by omega) (by omega)]
  constructor
  · rintro ⟨h2, hno⟩
    refine ⟨h2, fun m hm hs hd => hno ⟨m, hm, Nat.le_sqrt.1 hs, hd⟩⟩
  · rintro ⟨h2, hno⟩
    refine ⟨h2, ?_⟩
    rintro ⟨d, hd, hdd, hdv⟩
    exact hno d hd (Nat.le_sqrt.2 hdd) hdv

/-- `leastPrimeGe c` is the least prime ≥ c -/
theorem leastPrimeGe_spec (c : Nat) :
    Nat.Prime (leastPrimeGe c) ∧ c ≤ leastPrimeGe c ∧ ∀ p, Nat.Prime p → c ≤ p → leastPrimeGe c ≤ p := by
  have hex : ∃ p, Nat.Prime p ∧ c ≤ p ∧ p < c + (c + 3) := by
    rcases Nat.eq_zero_or_pos c with rfl | hc
    · exact ⟨2, Nat.prime_two, by omega, by omega⟩
    · obtain ⟨p, hp, h1, h2⟩ := Nat.exists_prime_lt_and_le_two_mul c (by omega)
      exact ⟨p, hp, by omega, by omega⟩
  obtain ⟨p, hp, h1, h2⟩ := hex
  obtain ⟨s1, s2, _, s4⟩ := leastFrom_spec isPrime c (c + 3) p h1 h2 ((isPrime_iff p).2 hp)
  refine ⟨(isPrime_iff _).1 s1, s2, fun q hq hcq => ?_⟩
  by_contra hlt
  have := s4 q hcq (by have : leastPrimeGe c = leastFrom isPrime c (c + 3) := rfl; omega)
  rw [(isPrime_iff q).2 hq] at this
  exact Bool.noConfusion this

/-- `ceilRoot n d` is the least c with c^d ≥ n (d ≥ 1) -/
theorem ceilRoot_spec (n d : Nat) (hd : 1 ≤ d) :
    n ≤ ceilRoot n d ^ d ∧ ∀ c, n ≤ c ^ d → ceilRoot n d ≤ c := by
  have hn : n ≤ n ^ d := by
    rcases Nat.eq_zero_or_pos n with rfl | h
    · exact Nat.zero_le _
    · calc n = n ^ 1 := (Nat.pow_one n).symm
        _ ≤ n ^ d := Nat.pow_le_pow_right h hd
  obtain ⟨s1, _, _, s4⟩ := leastFrom_spec (fun c => decide (c ^ d ≥ n)) 0 (n + 1) n (Nat.zero_le _)
    (by omega) (by simpa using hn)
  refine ⟨by simpa [ceilRoot] using s1, fun c hc => ?_⟩
  by_contra hlt
  have := s4 c (Nat.zero_le _) (by have : ceilRoot n d = leastFrom (fun c => decide (c ^ d ≥ n)) 0 (n + 1) := rfl; omega)
  simp only [ge_iff_le, decide_eq_false_iff_not] at this
  exact this hc

/-- exact ceil-log: least e with b^e ≥ x -/
theorem clog_spec (b x : Nat) (hb : 2 ≤ b) : x ≤ b ^ clog b x ∧ ∀ e, x ≤ b ^ e → clog b x ≤ e := by
  have hx : x ≤ b ^ x := by
    calc x ≤ 2 ^ x := Nat.le_of_lt Nat.lt_two_pow_self
      _ ≤ b ^ x := Nat.pow_le_pow_left hb x
  obtain ⟨s1, _, _, s4⟩ := leastFrom_spec (fun e => decide (b ^ e ≥ x)) 0 (x + 1) x (Nat.zero_le _)
    (by omega) (by simpa using hx)
  refine ⟨by simpa [clog] using s1, fun e he => ?_⟩
  by_contra hlt
  have := s4 e (Nat.zero_le _) (by have : clog b x = leastFrom (fun e => decide (b ^ e ≥ x)) 0 (x + 1) := rfl; omega)
  simp only [ge_iff_le, decide_eq_false_iff_not] at this
  exact this he

/-! ### prime powers -/

theorem minFac_eq (x : Nat) (hx : 2 ≤ x) : minFac x = Nat.minFac x := by
  have hP : (fun k => x % k == 0) (Nat.minFac x) = true := by
    simpa using Nat.mod_eq_zero_of_dvd (Nat.minFac_dvd x)
  have hm2 : 2 ≤ Nat.minFac x := (Nat.minFac_prime (by omega)).two_le
  have hmle : Nat.minFac x ≤ x := Nat.minFac_le (by omega)
  obtain ⟨s1, s2, s3, _⟩ := leastFrom_spec (fun k => x % k == 0) 2 x (Nat.minFac x) hm2 (by omega) hP
  have hdv : minFac x ∣ x := by
    apply Nat.dvd_of_mod_eq_zero
    simpa [minFac] using s1
  have := Nat.minFac_le_of_dvd (by unfold minFac; exact s2) hdv
  unfold minFac at *
  omega

theorem stripFactor_mul (p x fuel : Nat) :
    x = (stripFactor p x fuel).1 * p ^ (stripFactor p x fuel).2 := by
  induction fuel generalizing x with
  | zero => simp [stripFactor]
  | succ fuel ih =>
    unfold stripFactor
    by_cases h : (decide (p ≥ 2) && decide (x ≥ 1) && x % p == 0) = true
    · simp only [h, ↓reduceIte]
      simp only [ge_iff_le, Bool.and_eq_true, decide_eq_true_eq, beq_iff_eq] at h
      have hx : x = x / p * p := (Nat.div_mul_cancel (Nat.dvd_of_mod_eq_zero h.2)).symm
      have := ih (x / p)
      rw [Nat.pow_succ, ← Nat.mul_assoc, ← this]
      exact hx
    · simp only [h, Bool.false_eq_true, ↓reduceIte, Nat.pow_zero, Nat.mul_one]

theorem stripFactor_pow (p e fuel : Nat) (hp : 2 ≤ p) (hf : e ≤ fuel) :
    stripFactor p (p ^ e) fuel = (1, e) := by
  induction e generalizing fuel with
  | zero =>
    cases fuel with
    | zero => simp [stripFactor]
    | succ fuel =>
      unfold stripFactor
      have : 1 % p = 1 := Nat.mod_eq_of_lt (by omega)
      simp [this]
  | succ e ih =>
    cases fuel with
    | zero => omega
    | succ fuel =>
      unfold stripFactor
      have h1 : p ^ (e + 1) % p = 0 := by rw [Nat.pow_succ]; exact Nat.mul_mod_left _ _
      have h2 : p ^ (e + 1) / p = p ^ e := by
        rw [Nat.pow_succ]; exact Nat.mul_div_cancel _ (by omega)
      have h3 : p ^ (e + 1) ≥ 1 := Nat.one_le_two_pow.trans (Nat.pow_le_pow_left hp _)
      simp only [ge_iff_le, hp, decide_true, h3, Bool.and_self, h1, BEq.rfl, ↓reduceIte, h2]
      rw [ih fuel (by omega)]

/-- `factorPrimePower` is sound and complete: it returns `(p, d)` exactly for x = p^d, p prime, d ≥ 1 -/
theorem factorPrimePower_spec (x : Nat) :
    (∀ p d, factorPrimePower x = some (p, d) → Nat.Prime p ∧ 1 ≤ d ∧ p ^ d = x) ∧
    (factorPrimePower x = none → ¬ ∃ p d, Nat.Prime p ∧ 1 ≤ d ∧ p ^ d = x) := by
  unfold factorPrimePower
  by_cases hx : x ≤ 1
  · simp only [hx, ↓reduceIte, reduceCtorEq, false_implies, implies_true, true_and, forall_const]
    rintro ⟨p, d, hp, hd, rfl⟩
    have : 2 ^ 1 ≤ p ^ d := (Nat.pow_le_pow_left hp.two_le 1).trans (Nat.pow_le_pow_right hp.pos hd)
    omega
  · simp only [hx, ↓reduceIte]
    have hx2 : 2 ≤ x := by omega
    have hmf := minFac_eq x hx2
    have hpr : Nat.Prime (minFac x) := hmf ▸ Nat.minFac_prime (by omega)
    constructor
    · intro p d h
      by_cases h1 : ((stripFactor (minFac x) x x).1 == 1) = true
      · simp only [h1, ↓reduceIte, Option.some.injEq, Prod.mk.injEq] at h
        obtain ⟨rfl, rfl⟩ := h
        have hmul := stripFactor_mul (minFac x) x x
        simp only [beq_iff_eq] at h1
        rw [h1, Nat.one_mul] at hmul
        refine ⟨hpr, ?_, hmul.symm⟩
        by_contra hd
        have : (stripFactor (minFac x) x x).2 = 0 := by omega
        rw [this, Nat.pow_zero] at hmul
        omega
      · simp [h1] at h
    · intro h
      rintro ⟨p, d, hp, hd, rfl⟩
      have hmin : minFac (p ^ d) = p := by
        rw [minFac_eq _ hx2, hp.pow_minFac (by omega)]
      have hfuel : d ≤ p ^ d :=
        (Nat.le_of_lt Nat.lt_two_pow_self).trans (Nat.pow_le_pow_left hp.two_le d)
      rw [hmin, stripFactor_pow p d (p ^ d) hp.two_le hfuel] at h
      simp at h

/-! ### bit length -/

theorem bitLength_le_iff (n b : Nat) : bitLength n ≤ b ↔ n < 2 ^ b := by
  unfold bitLength
  by_cases hn : n = 0
  · subst hn; simp [Nat.two_pow_pos]
  · simp only [hn, ↓reduceIte]
    rw [← Nat.log2_lt hn]
    omega

/-! ### `Except` programs -/

theorem bind_eq_ok {α β : Type} {x : Except Err α} {f : α → Except Err β} {b : β} :
    (x >>= f) = .ok b ↔ ∃ a, x = .ok a ∧ f a = .ok b := by
  cases x with
  | error e => simp [bind, Except.bind]
  | ok a => simp [bind, Except.bind]

theorem check_eq_ok {c : Bool} : check c = .ok () ↔ c = true := by
  cases c <;> simp [check]

theorem gfpxType_eq_ok {c : Nat} : gfpxType c = .ok () ↔ Nat.Prime c := by
  unfold gfpxType
  rw [← isPrime_iff]
  by_cases h : isPrime c = true <;> simp [h]

theorem orD_some_pos {x : Option Nat} {d c : Nat} (h : x = some c) (hc : 0 < c) : orD x d = c := by
  subst h
  cases c with
  | zero => omega
  | succ n => rfl

theorem orD_eq (x : Option Nat) (d : Nat) : orD x d = d ∨ (x = some (orD x d) ∧ 0 < orD x d) := by
  cases x with
  | none => left; rfl
  | some c =>
    cases c with
    | zero => left; rfl
    | succ n => right; exact ⟨rfl, Nat.succ_pos n⟩

end MpycV.SecFldCfg
