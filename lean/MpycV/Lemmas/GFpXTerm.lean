/-
Termination of the irreducible-polynomial search (`while True` loop of gfpx.py `_next_irreducible`):
monic irreducible polynomials of every degree exist over `ZMod p`, hence some fuel always suffices.
-/
import MpycV.Lemmas.GFpXNext
import Mathlib.FieldTheory.Finite.GaloisField
import Mathlib.FieldTheory.PrimitiveElement

open Polynomial

namespace MpycV.GFpX

variable {p : ℕ}

/-- over `ZMod p` there is a monic irreducible polynomial of every degree `n ≥ 1`
(minimal polynomial of a primitive element of `GF(p^n)`) -/
theorem exists_monic_irreducible_natDegree (p : ℕ) [Fact p.Prime] (n : ℕ) (hn : n ≠ 0) :
    ∃ g : (ZMod p)[X], g.Monic ∧ Irreducible g ∧ g.natDegree = n := by
  have : FiniteDimensional (ZMod p) (GaloisField p n) := by
    apply FiniteDimensional.of_finrank_pos
    rw [GaloisField.finrank p hn]; omega
  obtain ⟨α, hα⟩ := Field.exists_primitive_element (ZMod p) (GaloisField p n)
  have hint : IsIntegral (ZMod p) α := IsIntegral.of_finite _ _
  refine ⟨minpoly (ZMod p) α, minpoly.monic hint, minpoly.irreducible hint, ?_⟩
  rw [(Field.primitive_element_iff_minpoly_natDegree_eq (ZMod p) α).mp hα, GaloisField.finrank p hn]

/-- every polynomial over `ZMod p` is denoted by a well-formed list -/
theorem exists_wf_list [Fact p.Prime] (g : (ZMod p)[X]) : ∃ l : Poly, WF p l ∧ toPoly p l = g := by
  have hp := (Fact.out : p.Prime).pos
  have : NeZero p := ⟨by omega⟩
  refine ⟨norm ((List.range (g.natDegree + 1)).map fun i => (g.coeff i).val), wf_norm ?_, ?_⟩
  · intro x hx
    simp only [List.mem_map] at hx
    obtain ⟨i, _, rfl⟩ := hx
    exact ZMod.val_lt _
  · rw [toPoly_norm]
    ext i
    rw [coeff_toPoly]
    by_cases hi : i < g.natDegree + 1
    · simp [List.getD_eq_getElem?_getD, hi]
    · have h1 : g.coeff i = 0 := coeff_eq_zero_of_natDegree_lt (by omega)
      simp [List.getD_eq_getElem?_getD, hi, h1]

/-- the search loop finds a candidate as soon as the fuel covers the distance to one -/
theorem nextIrrLoop_terminates [Fact p.Prime] : ∀ (f a n : ℕ), Cand p n → a < n → n - a ≤ f →
    ∃ c, nextIrrLoop p f a = some c := by
  have hp := (Fact.out : p.Prime).one_lt
  intro f
  induction f with
  | zero => intro a n _ h1 h2; omega
  | succ f ih =>
    intro a n hn han hf
    rw [nextIrrLoop]
    set a2 := if (a + 1) % p = 0 ∧ a + 1 ≠ p then a + 1 + 1 else a + 1 with ha2
    have h_lt : a < a2 := by rw [ha2]; split <;> omega
    have h_skip : ∀ m, a < m → m < a2 → ¬ Cand p m := by
      intro m h1 h2
      have : ((a + 1) % p = 0 ∧ a + 1 ≠ p) ∧ m = a + 1 := by
        rw [ha2] at h2; split at h2
        · rename_i h0; exact ⟨h0, by omega⟩
        · omega
      rw [this.2]
      exact not_cand_of_dvd this.1.1 this.1.2
    have ha2n : a2 ≤ n := by
      by_contra hlt
      exact h_skip n han (by omega) hn
    have ha20 : a2 ≠ 0 := by omega
    split
    · rename_i hlead
      rw [digits_eq hp] at hlead ⊢
      have hbound : a2 < p ^ (Nat.digits p a2).length := Nat.lt_base_pow_length_digits hp
      have hge : p ^ (Nat.digits p a2).length ≤ n := by
        by_contra hlt
        have := lead_ne_one hp ha20 ha2n (by omega) hlead
        rw [← digits_eq hp] at this
        exact this hn.1
      exact ih _ n hn (by omega) (by omega)
    · split
      · exact ⟨_, rfl⟩
      · rename_i hirr
        have hne : n ≠ a2 := by
          rintro rfl
          exact hirr hn.2
        exact ih a2 n hn (by omega) (by omega)

/-- **the search always terminates**: for every start value some fuel makes `next_irreducible` return -/
theorem nextIrreducible_terminates [Fact p.Prime] (a : Poly) :
    ∃ f c, nextIrreducible p f a = some c := by
  have hp := (Fact.out : p.Prime).one_lt
  -- a monic irreducible polynomial of degree `toInt a + 2`: its integer value exceeds `toInt a`
  obtain ⟨g, gm, gi, gd⟩ := exists_monic_irreducible_natDegree p (toInt p a + 2) (by omega)
  obtain ⟨l, lw, rfl⟩ := exists_wf_list g
  have hc := (cand_toInt_iff lw).mpr ⟨gm, gi⟩
  have hlne : l ≠ [] := by rintro rfl; simp at gi
  have hlen : l.length = toInt p a + 3 := by
    have := natDegree_toPoly lw hlne
    have := List.length_pos_of_ne_nil hlne
    omega
  have hgt : toInt p a < toInt p l := by
    have hd := digits_toInt hp lw
    rw [toInt_eq, digits_eq hp] at hd
    have h0 : Nat.ofDigits p l ≠ 0 := by
      intro h0; rw [h0] at hd; simp at hd; exact hlne hd
    have h2 := Nat.base_pow_length_digits_le p _ hp h0
    rw [hd, hlen, pow_succ] at h2
    have h3 : p ^ (toInt p a + 2) ≤ Nat.ofDigits p l := by
      rw [mul_comm] at h2
      exact Nat.le_of_mul_le_mul_left h2 (by omega)
    have h4 : toInt p a + 2 < p ^ (toInt p a + 2) := Nat.lt_pow_self hp
    simp only [toInt_eq] at h4 h3 ⊢
    omega
  obtain ⟨c, hc'⟩ := nextIrrLoop_terminates (toInt p l - toInt p a) (toInt p a) (toInt p l) hc hgt le_rfl
  exact ⟨_, c, hc'⟩

theorem length_of_toInt_bounds (hp : 1 < p) {c : Poly} (hc : WF p c) {d : ℕ}
    (h1 : p ^ d ≤ toInt p c) (h2 : toInt p c < p ^ (d + 1)) : c.length = d + 1 := by
  have hd := digits_toInt hp hc
  have hpos : 0 < p ^ d := Nat.pos_of_ne_zero (by positivity)
  have h0 : toInt p c ≠ 0 := by omega
  rw [digits_eq hp] at hd
  rw [← hd, Nat.length_digits p _ hp h0, Nat.log_eq_of_pow_le_of_lt_pow h1 h2]

/-- **find_irreducible(p, d) has degree exactly d** (d ≥ 1) -/
theorem findIrreducible_degree [Fact p.Prime] {d f : ℕ} {c : Poly} (hd : 1 ≤ d)
    (h : findIrreducible p d f = some c) : c.length = d + 1 := by
  have hp := (Fact.out : p.Prime).one_lt
  obtain ⟨cw, _, _, hge, hmin⟩ := findIrreducible_spec h
  -- a candidate of degree exactly d
  obtain ⟨g, gm, gi, gd⟩ := exists_monic_irreducible_natDegree p d (by omega)
  obtain ⟨e, ew, rfl⟩ := exists_wf_list g
  have hene : e ≠ [] := by rintro rfl; simp at gi
  have elen : e.length = d + 1 := by
    have := natDegree_toPoly ew hene
    have := List.length_pos_of_ne_nil hene
    omega
  have he_lt : toInt p e < p ^ (d + 1) := by
    rw [toInt_eq, ← elen]; exact Nat.ofDigits_lt_base_pow_length hp ew.1
  have he_ge : p ^ d ≤ toInt p e := by
    have hdd := digits_toInt hp ew
    rw [toInt_eq, digits_eq hp] at hdd
    have h0 : Nat.ofDigits p e ≠ 0 := by
      intro h0; rw [h0] at hdd; simp at hdd; exact hene hdd
    have h2 := Nat.base_pow_length_digits_le p _ hp h0
    rw [hdd, elen, pow_succ, mul_comm] at h2
    rw [toInt_eq]
    exact Nat.le_of_mul_le_mul_left h2 (by omega)
  exact length_of_toInt_bounds hp cw hge (lt_of_le_of_lt (hmin e ew gm gi he_ge) he_lt)

/-- **find_irreducible(p, 1) = X** -/
theorem findIrreducible_one [Fact p.Prime] {f : ℕ} {c : Poly} (h : findIrreducible p 1 f = some c) :
    c = [0, 1] := by
  have hp := (Fact.out : p.Prime).one_lt
  obtain ⟨cw, _, _, hge, hmin⟩ := findIrreducible_spec h
  have hX := hmin [0, 1] wf_X (by rw [toPoly_X]; exact monic_X) (by rw [toPoly_X]; exact irreducible_X)
    (by rw [toInt_X, pow_one])
  rw [toInt_X] at hX
  rw [pow_one] at hge
  have : toInt p c = p := le_antisymm hX hge
  have h1 := digits_toInt hp cw
  have h2 := digits_toInt hp (wf_X (p := p))
  rw [this] at h1
  rw [toInt_X] at h2
  rw [← h1, h2]

theorem findIrreducible_terminates [Fact p.Prime] (d : ℕ) : ∃ f c, findIrreducible p d f = some c :=
  nextIrreducible_terminates _

end MpycV.GFpX
