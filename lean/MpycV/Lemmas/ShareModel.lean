/-
C11 — the executable share-layer model (`MpycV.Model.Share`) over `fieldOps F emb`: every operation of the model
maps consistent sharings to consistent sharings; the decision procedure `consistentOps` decides `Consistent`.
-/
import MpycV.Lemmas.Share
import MpycV.Props.C07

open Polynomial Finset

namespace MpycV.Share

open MpycV.Thresha

variable {F : Type} [Field F] {emb : ℕ → F} {m t : ℕ}

/-! ### list bookkeeping -/

lemma getD_map_range' {α : Type} (g : ℕ → α) (d : α) {n h : ℕ} (hh : h < n) :
    ((List.range n).map g).getD h d = g h := by
  rw [getD_lt _ _ (by simpa using hh)]; simp

lemma getD_zipWith' {α : Type} (g : α → α → α) (a b : List α) (d : α) {i : ℕ} (ha : i < a.length)
    (hb : i < b.length) : (List.zipWith g a b).getD i d = g (a.getD i d) (b.getD i d) := by
  rw [getD_lt _ _ (by simpa using ⟨ha, hb⟩), getD_lt _ _ ha, getD_lt _ _ hb]
  simp

lemma getD_map' {α : Type} (g : α → α) (a : List α) (d : α) {i : ℕ} (ha : i < a.length) :
    (a.map g).getD i d = g (a.getD i d) := by
  rw [getD_lt _ _ (by simpa using ha), getD_lt _ _ ha]
  simp

/-! ### local operations -/

theorem consistent_mulShares {a b : List F} {va vb : F} {t₁ t₂ : ℕ} (hla : m ≤ a.length)
    (hlb : m ≤ b.length) (ha : Consistent emb m t₁ (shFn a) va) (hb : Consistent emb m t₂ (shFn b) vb) :
    Consistent emb m (t₁ + t₂) (shFn (mulShares (fieldOps F emb) a b)) (va * vb) :=
  (ha.mul hb).congr fun i hi => by
    simp only [shFn, mulShares]
    rw [getD_zipWith' _ a b 0 (by omega) (by omega)]; rfl

theorem consistent_addShares {a b : List F} {va vb : F} (hla : m ≤ a.length)
    (hlb : m ≤ b.length) (ha : Consistent emb m t (shFn a) va) (hb : Consistent emb m t (shFn b) vb) :
    Consistent emb m t (shFn (addShares (fieldOps F emb) a b)) (va + vb) :=
  (ha.add hb).congr fun i hi => by
    simp only [shFn, addShares]
    rw [getD_zipWith' _ a b 0 (by omega) (by omega)]; rfl

theorem consistent_subShares {a b : List F} {va vb : F} (hla : m ≤ a.length)
    (hlb : m ≤ b.length) (ha : Consistent emb m t (shFn a) va) (hb : Consistent emb m t (shFn b) vb) :
    Consistent emb m t (shFn (subShares (fieldOps F emb) a b)) (va - vb) :=
  (ha.sub hb).congr fun i hi => by
    simp only [shFn, subShares]
    rw [getD_zipWith' _ a b 0 (by omega) (by omega)]; simp

theorem consistent_negShares {a : List F} {va : F} (hla : m ≤ a.length)
    (ha : Consistent emb m t (shFn a) va) :
    Consistent emb m t (shFn (negShares (fieldOps F emb) a)) (-va) :=
  ha.neg.congr fun i hi => by
    simp only [shFn, negShares]
    rw [getD_map' _ a 0 (by omega)]; rfl

theorem consistent_smulShares {a : List F} {va : F} (c : F) (hla : m ≤ a.length)
    (ha : Consistent emb m t (shFn a) va) :
    Consistent emb m t (shFn (smulShares (fieldOps F emb) c a)) (c * va) :=
  (ha.smul c).congr fun i hi => by
    simp only [shFn, smulShares]
    rw [getD_map' _ a 0 (by omega)]; rfl

theorem consistent_addConst {a : List F} {va : F} (c : F) (hla : m ≤ a.length)
    (ha : Consistent emb m t (shFn a) va) :
    Consistent emb m t (shFn (addConst (fieldOps F emb) c a)) (va + c) :=
  (ha.add_const c).congr fun i hi => by
    simp only [shFn, addConst]
    rw [getD_map' _ a 0 (by omega)]; rfl

/-! ### no-PRSS randoms -/

lemma sumDealt_getD (rows : List (List F)) {i : ℕ} (hi : i < m) :
    (sumDealt (fieldOps F emb) m rows).getD i 0 = (rows.map fun r => r.getD i 0).sum := by
  unfold sumDealt
  rw [getD_map_range' _ _ hi,
    foldl_add_eq_sum emb (fun r : List F => r.getD i (fieldOps F emb).zero)]
  simp

/-- ★ `consistent_sum_dealt`: every party adds the shares it received from the senders; if sender number `j`
dealt a consistent sharing of `r j`, the sums are a consistent sharing of `Σ_j r j`. -/
theorem consistent_sumDealt (rows : List (List F)) (r : List F → F)
    (h : ∀ row ∈ rows, Consistent emb m t (shFn row) (r row)) :
    Consistent emb m t (shFn (sumDealt (fieldOps F emb) m rows)) (rows.map r).sum :=
  (consistent_list_sum rows (fun row => shFn row) r h).congr fun i hi => by
    simp only [shFn]; exact sumDealt_getD rows hi

/-! ### the dealers of `_reshare` -/

lemma dealers_inj {m : ℕ} (uci : ℕ) {a b : ℕ} (ha : a < m) (hb : b < m)
    (h : (uci + a) % m = (uci + b) % m) : a = b := by
  rw [Comm.resh_idx m uci a ha, Comm.resh_idx m uci b hb] at h
  have := Nat.mod_lt uci (show 0 < m by omega)
  split at h <;> split at h <;> omega

lemma dealers_nodup {m t : ℕ} (h2t : 2 * t < m) (uci : ℕ) : (dealers m t uci).Nodup := by
  unfold dealers
  apply List.Nodup.map_on _ List.nodup_range
  intro a ha b hb h
  rw [List.mem_range] at ha hb
  exact dealers_inj uci (by omega) (by omega) h

lemma mem_dealers {m t uci d : ℕ} : d ∈ dealers m t uci ↔ ∃ k, k < 2 * t + 1 ∧ d = (uci + k) % m := by
  simp only [dealers, List.mem_map, List.mem_range]
  constructor
  · rintro ⟨k, hk, rfl⟩; exact ⟨k, hk, rfl⟩
  · rintro ⟨k, hk, rfl⟩; exact ⟨k, hk, rfl⟩

lemma dealers_lt {m t uci d : ℕ} (hm : 0 < m) (hd : d ∈ dealers m t uci) : d < m := by
  obtain ⟨k, _, rfl⟩ := mem_dealers.1 hd
  exact Nat.mod_lt _ hm

lemma card_dealers {m t : ℕ} (h2t : 2 * t < m) (uci : ℕ) :
    (dealers m t uci).toFinset.card = 2 * t + 1 := by
  rw [List.toFinset_card_of_nodup (dealers_nodup h2t uci)]
  simp [dealers]

/-- the dealers party `i` recombines from, in the order of the code's `points` list -/
def partyDealers (m t uci i : ℕ) : List ℕ := (Comm.reshPoints m t i uci).map (· - 1)

lemma reshPoints_pos {m t uci i x : ℕ} (hi : i < m) (h2t : 2 * t < m)
    (hx : x ∈ Comm.reshPoints m t i uci) : 1 ≤ x := by
  obtain ⟨k, _, rfl⟩ := ((C07.reshare_points m t i uci hi h2t).2 x).1 hx
  omega

lemma partyDealers_nodup {m t uci i : ℕ} (hi : i < m) (h2t : 2 * t < m) :
    (partyDealers m t uci i).Nodup := by
  unfold partyDealers
  apply List.Nodup.map_on _ (C07.reshare_points m t i uci hi h2t).1
  intro a ha b hb h
  have := reshPoints_pos hi h2t ha
  have := reshPoints_pos hi h2t hb
  omega

lemma partyDealers_toFinset {m t uci i : ℕ} (hi : i < m) (h2t : 2 * t < m) :
    (partyDealers m t uci i).toFinset = (dealers m t uci).toFinset := by
  ext d
  simp only [List.mem_toFinset, partyDealers, List.mem_map, mem_dealers]
  constructor
  · rintro ⟨x, hx, rfl⟩
    obtain ⟨k, hk, rfl⟩ := ((C07.reshare_points m t i uci hi h2t).2 x).1 hx
    exact ⟨k, hk, by omega⟩
  · rintro ⟨k, hk, rfl⟩
    exact ⟨(uci + k) % m + 1, ((C07.reshare_points m t i uci hi h2t).2 _).2 ⟨k, hk, rfl⟩, by omega⟩

lemma partyDealers_length {m t uci i : ℕ} (hi : i < m) (h2t : 2 * t < m) :
    (partyDealers m t uci i).length = 2 * t + 1 := by
  rw [← List.toFinset_card_of_nodup (partyDealers_nodup hi h2t), partyDealers_toFinset hi h2t,
    card_dealers h2t]

omit [Field F] in
/-- the model's `reshareParty` is the dot product of the received subshares with the recombination vector -/
lemma reshareParty_eq_dot (o : FieldOps F) (m t uci i : ℕ) (sub : ℕ → F)
    (hne : Comm.reshPoints m t i uci ≠ []) :
    reshareParty o m t uci i sub
      = dot o ((Comm.reshPoints m t i uci).map fun x => sub (x - 1))
          (recombVec o ((Comm.reshPoints m t i uci).map o.ofNat) (o.ofNat 0)) := by
  unfold reshareParty recombine1 recombine
  obtain ⟨x, l, hl⟩ := List.exists_cons_of_ne_nil hne
  simp only [hl, List.map_cons, List.headD_cons, List.length_cons, List.length_nil, zero_add,
    List.range_one, List.map_nil, column, List.getD_cons_zero, List.map_map, Function.comp_def]

/-- party `i`'s new share written with its dealer list -/
lemma reshareParty_eq (h0 : emb 0 = 0) {uci i : ℕ} (hi : i < m) (h2t : 2 * t < m) (sub : ℕ → F) :
    reshareParty (fieldOps F emb) m t uci i sub
      = dot (fieldOps F emb) ((partyDealers m t uci i).map sub)
          (recombVec (fieldOps F emb) ((partyDealers m t uci i).map fun d => emb (d + 1)) 0) := by
  have hne : Comm.reshPoints m t i uci ≠ [] := by
    intro h
    have := partyDealers_length (uci := uci) hi h2t
    simp [partyDealers, h] at this
  rw [reshareParty_eq_dot _ m t uci i sub hne]
  simp only [partyDealers, List.map_map, Function.comp_def, fieldOps_ofNat, h0]
  congr 2
  apply List.map_congr_left
  intro x hx
  have := reshPoints_pos hi h2t hx
  rw [Nat.sub_add_cancel this]
  rfl

/-- ★ `reshare_consistent`: the shares `sh` form a consistent sharing of `v` of degree ≤ 2t (after a local
multiplication), 2t < m, ANY rotation `uci`; each of the 2t+1 dealers `d = (uci+k) % m` deals its share
`sh d` with a polynomial of degree ≤ t (`sub d i` = subshare for party `i`).  Then the new shares computed
by `_reshare` (every party recombining what it received, own subshare last) form a consistent sharing of
the SAME value `v` of degree ≤ t. -/
theorem reshare_consistent (h0 : emb 0 = 0) (hemb : Set.InjOn emb (Set.Iic m)) (h2t : 2 * t < m)
    (uci : ℕ) {sh : ℕ → F} {v : F} (hsh : Consistent emb m (2 * t) sh v) (sub : ℕ → ℕ → F)
    (hsub : ∀ d ∈ dealers m t uci, Consistent emb m t (sub d) (sh d)) :
    Consistent emb m t (fun i => reshareParty (fieldOps F emb) m t uci i fun d => sub d i) v := by
  have hm : 0 < m := by omega
  have key := reshare_consistent_abstract (t := t) hemb (dealers m t uci).toFinset
    (fun d hd => dealers_lt hm (List.mem_toFinset.1 hd))
    (n := 2 * t) (by rw [card_dealers h2t]; omega) hsh sub
    (fun d hd => hsub d (List.mem_toFinset.1 hd)) (fun i => partyDealers m t uci i)
    (fun i hi => partyDealers_nodup hi h2t) (fun i hi => partyDealers_toFinset hi h2t)
  exact key.congr fun i hi => reshareParty_eq h0 hi h2t _

/-- list form: `rows` holds the dealers' subshare rows -/
theorem reshareShares_consistent (h0 : emb 0 = 0) (hemb : Set.InjOn emb (Set.Iic m))
    (h2t : 2 * t < m) (uci : ℕ) {sh : ℕ → F} {v : F} (hsh : Consistent emb m (2 * t) sh v)
    (rows : List (ℕ × List F))
    (hrows : ∀ d ∈ dealers m t uci, Consistent emb m t (shFn ((rowOf rows d).getD [])) (sh d)) :
    Consistent emb m t (shFn (reshareShares (fieldOps F emb) t m uci rows)) v :=
  (reshare_consistent h0 hemb h2t uci hsh (fun d => shFn ((rowOf rows d).getD [])) hrows).congr
    fun i hi => by
      simp only [shFn, reshareShares]
      rw [getD_map_range' _ _ hi]; rfl

/-! ### the decision procedure -/

/-- the interpolant through the first `t+1` shares -/
noncomputable def headPoly (emb : ℕ → F) (t : ℕ) (shares : List F) : F[X] :=
  Lagrange.interpolate (range (t + 1)) (fun k => emb (k + 1)) (fun k => shares.getD k 0)

omit [Field F] in
lemma range_succ_injOn (hemb : Set.InjOn emb (Set.Iic m)) (htm : t < m) :
    Set.InjOn (fun k => emb (k + 1)) (range (t + 1) : Finset ℕ) :=
  emb_succ_injOn hemb _ (fun i hi => by have := Finset.mem_range.1 hi; omega)

lemma natDegree_headPoly_le (hemb : Set.InjOn emb (Set.Iic m)) (htm : t < m) (shares : List F) :
    (headPoly emb t shares).natDegree ≤ t := by
  have := Lagrange.degree_interpolate_lt (s := range (t + 1)) (fun k => shares.getD k 0)
    (range_succ_injOn hemb htm)
  rw [card_range] at this
  by_cases h0 : headPoly emb t shares = 0
  · simp [h0]
  · have h1 : (headPoly emb t shares).degree < (t + 1 : ℕ) := this
    rw [degree_eq_natDegree h0] at h1
    have : (headPoly emb t shares).natDegree < t + 1 := by exact_mod_cast h1
    omega

lemma interp_eq_eval (hemb : Set.InjOn emb (Set.Iic m)) (htm : t < m) (shares : List F)
    (hlen : t < shares.length) (x : F) :
    interp (fieldOps F emb) t shares x = (headPoly emb t shares).eval x := by
  unfold interp xsOf
  have hinj := range_succ_injOn hemb htm
  refine dot_recombVec emb x (headPoly emb t shares)
    (nodup_map_emb hemb List.nodup_range (fun i hi => by have := List.mem_range.1 hi; omega))
    (by simp; omega)
    (by
      have := Lagrange.degree_interpolate_lt (s := range (t + 1)) (fun k => shares.getD k 0) hinj
      simpa [headPoly] using this)
    ?_
  intro k hk
  have hk' : k < t + 1 := by simpa using hk
  rw [getD_lt _ _ (by simp; omega), getD_lt _ _ (by simpa using hk')]
  simp only [List.getElem_map, List.getElem_range, List.getElem_take, fieldOps_ofNat]
  rw [headPoly, Lagrange.eval_interpolate_at_node _ hinj (by simpa using hk'), getD_lt _ _ (by omega)]

/-- ★ `consistentOps_spec` (any field): for `t < m = #shares`, the procedure returns `some v` iff the shares
are a consistent sharing of `v` of degree ≤ t. -/
theorem consistentOps_spec [DecidableEq F] (h0 : emb 0 = 0) (shares : List F)
    (hemb : Set.InjOn emb (Set.Iic shares.length)) (htm : t < shares.length) (v : F) :
    consistentOps (fieldOps F emb) t shares = some v
      ↔ Consistent emb shares.length t (shFn shares) v := by
  unfold consistentOps
  rw [if_neg (by omega)]
  simp only [interp_eq_eval hemb htm shares htm, fieldOps_ofNat, fieldOps_zero, h0]
  constructor
  · intro h
    split at h
    · rename_i hall
      simp only [Option.some.injEq] at h
      refine ⟨headPoly emb t shares, natDegree_headPoly_le hemb htm shares, h, ?_⟩
      intro i hi
      have := (List.all_eq_true.1 hall) i (List.mem_range.2 hi)
      simpa [shFn] using (of_decide_eq_true this).symm
    · simp at h
  · rintro ⟨f, f1, f2, f3⟩
    have hf : f = headPoly emb t shares := by
      refine Lagrange.eq_interpolate_of_eval_eq _ (range_succ_injOn hemb htm)
        (by rw [card_range]; exact degree_lt_of_natDegree_le f1 (by omega)) ?_
      intro k hk
      have := Finset.mem_range.1 hk
      exact (f3 k (by omega)).symm
    subst hf
    rw [if_pos]
    · rw [f2]
    · apply List.all_eq_true.2
      intro i hi
      apply decide_eq_true
      exact (f3 i (List.mem_range.1 hi)).symm

end MpycV.Share
