/-
Semantics of the thresha model over an arbitrary Mathlib field: Horner = polynomial evaluation,
recombination vector = Lagrange basis values, recombine = evaluation of the interpolating polynomial.
-/
import MpycV.Model.Thresha
import Mathlib.LinearAlgebra.Lagrange

open Polynomial Finset

namespace MpycV.Thresha

variable {F : Type} [Field F]

/-- the operations of a Mathlib field, with `emb` as the embedding `field(int)` -/
def fieldOps (F : Type) [Field F] (emb : ℕ → F) : FieldOps F :=
  { zero := 0, one := 1, add := (· + ·), neg := Neg.neg, mul := (· * ·), inv := Inv.inv, ofNat := emb }

section simp
variable (emb : ℕ → F)
@[simp] lemma fieldOps_zero : (fieldOps F emb).zero = 0 := rfl
@[simp] lemma fieldOps_one : (fieldOps F emb).one = 1 := rfl
@[simp] lemma fieldOps_add (a b : F) : (fieldOps F emb).add a b = a + b := rfl
@[simp] lemma fieldOps_neg (a : F) : (fieldOps F emb).neg a = -a := rfl
@[simp] lemma fieldOps_mul (a b : F) : (fieldOps F emb).mul a b = a * b := rfl
@[simp] lemma fieldOps_inv (a : F) : (fieldOps F emb).inv a = a⁻¹ := rfl
@[simp] lemma fieldOps_ofNat (n : ℕ) : (fieldOps F emb).ofNat n = emb n := rfl
@[simp] lemma fieldOps_sub (a b : F) : (fieldOps F emb).sub a b = a - b := by
  simp [FieldOps.sub, sub_eq_add_neg]
end simp

/-! ### Horner -/

/-- the polynomial `c[0] X^t + c[1] X^(t-1) + ... + c[t-1] X` built by the Horner loop -/
noncomputable def hornerPoly (c : List F) : F[X] := c.foldl (fun y cj => (y + C cj) * X) 0

/-- the sharing polynomial `f(X) = s + c[t-1] X + ... + c[0] X^t` of thresha.py:38 -/
noncomputable def sharePoly (s : F) (c : List F) : F[X] := hornerPoly c + C s

@[simp] lemma hornerPoly_nil : hornerPoly ([] : List F) = 0 := rfl

lemma hornerPoly_snoc (c : List F) (a : F) : hornerPoly (c ++ [a]) = (hornerPoly c + C a) * X := by
  simp [hornerPoly, List.foldl_append]

omit [Field F] in
lemma horner_snoc (o : FieldOps F) (c : List F) (a x : F) :
    horner o (c ++ [a]) x = o.mul (o.add (horner o c x) a) x := by
  simp [horner, List.foldl_append]

lemma horner_eq_eval (emb : ℕ → F) (c : List F) (x : F) :
    horner (fieldOps F emb) c x = (hornerPoly c).eval x := by
  induction c using List.reverseRecOn with
  | nil => simp [horner]
  | append_singleton c a ih => rw [horner_snoc, hornerPoly_snoc, ih]; simp

lemma hornerPoly_eval_zero (c : List F) : (hornerPoly c).eval 0 = 0 := by
  induction c using List.reverseRecOn with
  | nil => simp
  | append_singleton c a ih => rw [hornerPoly_snoc]; simp

lemma natDegree_hornerPoly_le (c : List F) : (hornerPoly c).natDegree ≤ c.length := by
  induction c using List.reverseRecOn with
  | nil => simp
  | append_singleton c a ih =>
    rw [hornerPoly_snoc, List.length_append, List.length_singleton]
    refine (natDegree_mul_le).trans ?_
    rw [natDegree_X]
    have := natDegree_add_le (hornerPoly c) (C a)
    rw [natDegree_C] at this
    omega

lemma shareAt_eq_eval (emb : ℕ → F) (s : F) (c : List F) (i1 : ℕ) :
    shareAt (fieldOps F emb) s c i1 = (sharePoly s c).eval (emb i1) := by
  simp [shareAt, sharePoly, horner_eq_eval]

@[simp] lemma sharePoly_eval_zero (s : F) (c : List F) : (sharePoly s c).eval 0 = s := by
  simp [sharePoly, hornerPoly_eval_zero]

lemma natDegree_sharePoly_le (s : F) (c : List F) : (sharePoly s c).natDegree ≤ c.length := by
  refine (natDegree_add_le _ _).trans ?_
  rw [natDegree_C]
  simpa using natDegree_hornerPoly_le c

lemma degree_sharePoly_lt (s : F) (c : List F) {n : ℕ} (h : c.length < n) :
    (sharePoly s c).degree < n :=
  lt_of_le_of_lt degree_le_natDegree
    (by exact_mod_cast lt_of_le_of_lt (natDegree_sharePoly_le s c) h)

omit [Field F] in
lemma length_coeffsFor_le (coeffs : List F) (t h : ℕ) : (coeffsFor coeffs t h).length ≤ t := by
  simp [coeffsFor, List.length_take]

/-! ### list bookkeeping -/

omit [Field F] in
lemma getD_lt {α : Type} (l : List α) (d : α) {i : ℕ} (h : i < l.length) : l.getD i d = l[i] := by
  simp [List.getD_eq_getElem?_getD, List.getElem?_eq_getElem h]

lemma prod_map_zipIdx {α M : Type} [CommMonoid M] (d : α) (g : α × ℕ → M) (l : List α) (k : ℕ) :
    ((l.zipIdx k).map g).prod = ∏ j ∈ range l.length, g (l.getD j d, j + k) := by
  induction l generalizing k with
  | nil => simp
  | cons a l ih =>
    rw [List.zipIdx_cons, List.map_cons, List.prod_cons, ih, List.length_cons, prod_range_succ']
    rw [mul_comm]
    congr 1
    · apply prod_congr rfl
      intro j _
      simp [Nat.add_assoc, Nat.add_comm 1 k]
    · simp

lemma sum_map_zip {α β M : Type} [AddCommMonoid M] (da : α) (db : β) (g : α × β → M)
    (a : List α) (b : List β) :
    ((a.zip b).map g).sum = ∑ j ∈ range (min a.length b.length), g (a.getD j da, b.getD j db) := by
  induction a generalizing b with
  | nil => simp
  | cons x a ih =>
    cases b with
    | nil => simp
    | cons y b =>
      rw [List.zip_cons_cons, List.map_cons, List.sum_cons, ih, List.length_cons, List.length_cons,
        Nat.succ_min_succ, sum_range_succ', add_comm]
      simp

/-! ### recombination vector -/

lemma recombND_fold (emb : ℕ → F) (xr xi : F) (i : ℕ) (L : List (F × ℕ)) (n d : F) :
    L.foldl (fun (nd : F × F) (xj : F × ℕ) =>
        if i ≠ xj.2 then ((fieldOps F emb).mul nd.1 ((fieldOps F emb).sub xr xj.1),
          (fieldOps F emb).mul nd.2 ((fieldOps F emb).sub xi xj.1)) else nd) (n, d)
      = (n * (L.map fun xj => if i ≠ xj.2 then xr - xj.1 else 1).prod,
         d * (L.map fun xj => if i ≠ xj.2 then xi - xj.1 else 1).prod) := by
  induction L generalizing n d with
  | nil => simp
  | cons a L ih =>
    rw [List.foldl_cons]
    by_cases h : i ≠ a.2
    · simp only [h, ↓reduceIte, ne_eq, not_false_eq_true, List.map_cons, List.prod_cons]
      rw [ih]; simp [mul_assoc]
    · simp only [h, ↓reduceIte, List.map_cons, List.prod_cons, one_mul]
      rw [ih]

lemma recombND_eq (emb : ℕ → F) (xs : List F) (xr xi : F) (i : ℕ) :
    recombND (fieldOps F emb) xs xr xi i
      = (∏ j ∈ (range xs.length).erase i, (xr - xs.getD j 0),
         ∏ j ∈ (range xs.length).erase i, (xi - xs.getD j 0)) := by
  unfold recombND
  rw [recombND_fold, fieldOps_one, one_mul, one_mul,
    prod_map_zipIdx (0 : F) (fun xj => if i ≠ xj.2 then xr - xj.1 else 1),
    prod_map_zipIdx (0 : F) (fun xj => if i ≠ xj.2 then xi - xj.1 else 1)]
  simp only [Nat.add_zero]
  rw [← filter_ne (range xs.length) i, prod_filter, prod_filter]

/-- the nodes as a function of the index -/
def node (xs : List F) (j : ℕ) : F := xs.getD j 0

lemma node_injOn {xs : List F} (h : xs.Nodup) : Set.InjOn (node xs) (range xs.length : Finset ℕ) := by
  intro a ha b hb hab
  simp only [coe_range, Set.mem_Iio] at ha hb
  simp only [node, getD_lt _ _ ha, getD_lt _ _ hb] at hab
  exact (List.Nodup.getElem_inj_iff h).1 hab

lemma eval_basis (xs : List F) (xr : F) (i : ℕ) :
    (Lagrange.basis (range xs.length) (node xs) i).eval xr
      = (∏ j ∈ (range xs.length).erase i, (xr - node xs j))
        * (∏ j ∈ (range xs.length).erase i, (node xs i - node xs j))⁻¹ := by
  unfold Lagrange.basis
  rw [eval_prod]
  simp only [Lagrange.basisDivisor, eval_mul, eval_C, eval_sub, eval_X]
  rw [prod_mul_distrib, prod_inv_distrib, mul_comm]

/-- ★ `recombVec_eq_lagrange`: entry `i` of the vector computed by `_recombination_vector` is the value at
`x_r` of the Lagrange basis polynomial of node `i` (for any list of nodes; for nodes with repetitions both
sides use the `0⁻¹ = 0` convention, the code raises ZeroDivisionError there: see `recombVecE_ok_iff`). -/
theorem recombVec_eq_lagrange (emb : ℕ → F) (xs : List F) (xr : F) :
    recombVec (fieldOps F emb) xs xr
      = (List.range xs.length).map fun i =>
          (Lagrange.basis (range xs.length) (node xs) i).eval xr := by
  apply List.ext_getElem
  · simp [recombVec]
  · intro i h1 h2
    have hi : i < xs.length := by simpa [recombVec] using h1
    simp only [recombVec, List.getElem_map, List.getElem_zipIdx, List.getElem_range, zero_add]
    rw [recombND_eq, eval_basis]
    simp [node, List.getD_eq_getElem?_getD, List.getElem?_eq_getElem hi]

omit [Field F] in
lemma length_recombVec (o : FieldOps F) (xs : List F) (xr : F) :
    (recombVec o xs xr).length = xs.length := by simp [recombVec]

/-! ### recombine -/

lemma dot_fold (emb : ℕ → F) (L : List (F × F)) (acc : F) :
    L.foldl (fun acc (xy : F × F) => (fieldOps F emb).add acc ((fieldOps F emb).mul xy.1 xy.2)) acc
      = acc + (L.map fun xy => xy.1 * xy.2).sum := by
  induction L generalizing acc with
  | nil => simp
  | cons a L ih => rw [List.foldl_cons, ih]; simp [add_assoc]

lemma dot_eq_sum (emb : ℕ → F) (a b : List F) :
    dot (fieldOps F emb) a b = ∑ j ∈ range (min a.length b.length), a.getD j 0 * b.getD j 0 := by
  unfold dot
  rw [dot_fold, fieldOps_zero, zero_add, sum_map_zip (0 : F) (0 : F)]

/-- core of recombination: if the column holds the values of a polynomial of degree `< #nodes` at the
(distinct) nodes, the dot product with the recombination vector is the polynomial's value at `x_r`. -/
theorem dot_recombVec (emb : ℕ → F) {xs col : List F} (xr : F) (f : F[X]) (hnd : xs.Nodup)
    (hlen : col.length = xs.length) (hdeg : f.degree < xs.length)
    (hcol : ∀ i < xs.length, col.getD i 0 = f.eval (xs.getD i 0)) :
    dot (fieldOps F emb) col (recombVec (fieldOps F emb) xs xr) = f.eval xr := by
  rw [dot_eq_sum, length_recombVec, hlen, min_self, recombVec_eq_lagrange]
  have hf : f = Lagrange.interpolate (range xs.length) (node xs) (fun i => f.eval (node xs i)) :=
    Lagrange.eq_interpolate_of_eval_eq _ (node_injOn hnd) (by simpa using hdeg) (fun i _ => rfl)
  conv_rhs => rw [hf]
  rw [Lagrange.interpolate_apply, eval_finsetSum]
  apply sum_congr rfl
  intro i hi
  have hi' : i < xs.length := by simpa using hi
  rw [hcol i hi', eval_mul, eval_C]
  congr 1
  rw [getD_lt _ _ (by simpa using hi')]
  simp

omit [Field F] in
lemma column_length (o : FieldOps F) (shares : List (List F)) (h : ℕ) :
    (column o shares h).length = shares.length := by simp [column]

lemma column_getD (emb : ℕ → F) (shares : List (List F)) (h i : ℕ) (hi : i < shares.length) :
    (column (fieldOps F emb) shares h).getD i 0 = (shares.getD i []).getD h 0 := by
  simp [column, List.getD_eq_getElem?_getD, hi]

/-- recombination of a matrix of shares whose columns are values of polynomials `f h` of degree `< #nodes`:
the result holds the values of these polynomials at the recombination points (any `x_r`, also among the
nodes). -/
theorem recombine_eq_eval (emb : ℕ → F) {xs : List F} {shares : List (List F)} (xrs : List F)
    (f : ℕ → F[X]) (hnd : xs.Nodup) (hlen : shares.length = xs.length)
    (hf : ∀ h < (shares.headD []).length, (f h).degree < xs.length ∧
        ∀ i < xs.length, (shares.getD i []).getD h 0 = (f h).eval (xs.getD i 0)) :
    recombine (fieldOps F emb) xs shares xrs
      = xrs.map fun xr => (List.range (shares.headD []).length).map fun h => (f h).eval xr := by
  unfold recombine
  apply List.map_congr_left
  intro xr _
  apply List.map_congr_left
  intro h hh
  have hh' : h < (shares.headD []).length := by simpa using hh
  obtain ⟨hd, hv⟩ := hf h hh'
  apply dot_recombVec emb xr (f h) hnd (by rw [column_length, hlen]) hd
  intro i hi
  rw [column_getD emb shares h i (by omega)]
  exact hv i hi

end MpycV.Thresha
